(* Theorems about the symbol-level model of the tapescript compiler (model/Assembler.v):
   every spelling of a program assembles to the documented encoding ([spells], [assemble_spells]);
   the decompiler's listing is one of the spellings ([assemble_listing]); the malformed families are
   rejected ([reject_*]); and the oddities / defects of the compiler, as refutations by computation. *)
From Coq Require Import ZArith List Bool Lia NArith String Ascii DecimalString DecimalZ.
From Coq.Strings Require Import Byte.
From TS Require Import Bytes Codec Ops Names Asm Tables TablesCheck BytesLemmas CodecProofs AsmProofs Tokenizer Assembler.
Import ListNotations.
Open Scope string_scope.
Open Scope list_scope.
Open Scope Z_scope.

(* ====================================================================================== *)
(* Part A: characters, digits, hexadecimal, string values                                   *)
(* ====================================================================================== *)

Lemma is_digit_not_special : forall c, is_digit c = true ->
  Ascii.eqb c "+" = false /\ Ascii.eqb c "-" = false /\ Ascii.eqb c "." = false /\
  Ascii.eqb c "_" = false /\ is_alnum_c c = true /\ plain_c c = true.
Proof.
  intros c. destruct c as [[] [] [] [] [] [] [] []]; intros H; try discriminate H;
    repeat split; reflexivity.
Qed.

Lemma digit_uint : forall d, sall is_digit (NilEmpty.string_of_uint d) = true.
Proof. induction d; cbn [NilEmpty.string_of_uint sall]; try rewrite IHd; reflexivity. Qed.

Lemma dec_nonneg : forall z, 0 <= z -> exists u, dec z = NilEmpty.string_of_uint u /\ Z.of_uint u = z.
Proof.
  intros z H. unfold dec. pose proof (DecimalZ.of_to z) as E.
  destruct z as [|p|p]; [| |lia]; cbn [Z.to_int NilEmpty.string_of_int] in *;
    eexists; (split; [reflexivity|]); exact E.
Qed.

Lemma dec_digits : forall z, 0 <= z -> sall is_digit (dec z) = true.
Proof. intros z H. destruct (dec_nonneg z H) as (u & -> & _). apply digit_uint. Qed.

Lemma nonempty_dec : forall z, nonempty (dec z) = true.
Proof. intros z. pose proof (dec_nonempty z). destruct (dec z); [congruence|reflexivity]. Qed.

Lemma digits_Z_dec : forall z, 0 <= z -> digits_Z (dec z) = Some z.
Proof.
  intros z H. unfold digits_Z. pose proof (dec_nonempty z) as N.
  destruct (dec z) eqn:E; [congruence|]. rewrite <- E.
  destruct (dec_nonneg z H) as (u & -> & Eu). rewrite NilEmpty.usu. cbn [option_map]. congruence.
Qed.

Lemma dec_neg : forall z, z < 0 -> dec z = String "-" (dec (- z)).
Proof. intros [|p|p] H; try lia. reflexivity. Qed.

(* digit strings denoting z >= 0: the canonical one with any number of leading zeros *)
Inductive sp_num (z : Z) : string -> Prop :=
| num_dec : 0 <= z -> sp_num z (dec z)
| num_zero : forall r, sp_num z r -> sp_num z (String "0" r).

Lemma sp_num_spec : forall z r, sp_num z r ->
  nonempty r = true /\ sall is_digit r = true /\ digits_Z r = Some z.
Proof.
  induction 1 as [H|r _ (N & D & V)].
  - split; [apply nonempty_dec|]. split; [apply dec_digits; exact H|apply digits_Z_dec; exact H].
  - split; [reflexivity|]. split; [cbn [sall]; rewrite D; reflexivity|].
    unfold digits_Z in *. destruct r as [|c r']; [discriminate N|].
    cbn [NilEmpty.uint_of_string] in *.
    destruct (uint_of_char c (NilEmpty.uint_of_string r')) as [u|]; [|discriminate V].
    cbn [uint_of_char option_map] in *. exact V.
Qed.

Lemma sp_num_isnumeric : forall z r, sp_num z r -> isnumeric r = true.
Proof. intros z r H. destruct (sp_num_spec z r H) as (N & D & _). unfold isnumeric. rewrite N, D. reflexivity. Qed.
Lemma sp_num_nonneg : forall z r, sp_num z r -> 0 <= z.
Proof. induction 1; assumption. Qed.

(* facts about strings of digits *)
Definition digs (r : string) : Prop := nonempty r = true /\ sall is_digit r = true.

Lemma digs_lstrip : forall r, sall is_digit r = true -> lstrip_pm r = r.
Proof.
  intros [|c r] H; [reflexivity|]. cbn [sall] in H. apply andb_prop in H as [H _].
  destruct (is_digit_not_special c H) as (A & B & _). cbn [lstrip_pm]. rewrite A, B. reflexivity.
Qed.
Lemma digs_split_dot : forall r, sall is_digit r = true -> split_dot r = r.
Proof.
  induction r as [|c r IH]; intros H; [reflexivity|]. cbn [sall] in H. apply andb_prop in H as [H H'].
  destruct (is_digit_not_special c H) as (_ & _ & C & _). cbn [split_dot]. rewrite C, IH by exact H'. reflexivity.
Qed.
Lemma digs_remove_dots : forall r, sall is_digit r = true -> remove_dots r = r.
Proof.
  induction r as [|c r IH]; intros H; [reflexivity|]. cbn [sall] in H. apply andb_prop in H as [H H'].
  destruct (is_digit_not_special c H) as (_ & _ & C & _). cbn [remove_dots]. rewrite C, IH by exact H'. reflexivity.
Qed.
Lemma digs_us_ok : forall r b, sall is_digit r = true -> us_ok b r = (b || nonempty r).
Proof.
  induction r as [|c r IH]; intros b H; [destruct b; reflexivity|]. cbn [sall] in H. apply andb_prop in H as [H H'].
  destruct (is_digit_not_special c H) as (_ & _ & _ & D & _). cbn [us_ok nonempty]. rewrite D, H, IH by exact H'.
  rewrite orb_true_r. reflexivity.
Qed.
Lemma digs_drop_us : forall r, sall is_digit r = true -> drop_us r = r.
Proof.
  induction r as [|c r IH]; intros H; [reflexivity|]. cbn [sall] in H. apply andb_prop in H as [H H'].
  destruct (is_digit_not_special c H) as (_ & _ & _ & D & _). cbn [drop_us]. rewrite D, IH by exact H'. reflexivity.
Qed.
Lemma digs_py_uint : forall r, digs r -> py_uint r = digits_Z r.
Proof.
  intros r [N D]. unfold py_uint. rewrite digs_us_ok, N, digs_drop_us by exact D. reflexivity.
Qed.
Lemma digs_py_int : forall r, digs r -> py_int r = digits_Z r.
Proof.
  intros r [N D]. destruct r as [|c r']; [discriminate N|]. unfold py_int.
  pose proof D as D'. cbn [sall] in D'. apply andb_prop in D' as [Hc _].
  destruct (is_digit_not_special c Hc) as (A & B & _). rewrite A, B. apply digs_py_uint. split; assumption.
Qed.

(* an optional sign in front: the d-form accepted by _get_OP_PUSH0_type_args / _get_OP_PUSH2_args *)
Inductive sp_snum (z : Z) : string -> Prop :=
| sn_plain : forall r, sp_num z r -> sp_snum z r
| sn_plus : forall r, sp_num z r -> sp_snum z (String "+" r)
| sn_minus : forall r, sp_num (- z) r -> sp_snum z (String "-" r).

Lemma sp_num_digs : forall z r, sp_num z r -> digs r.
Proof. intros z r H. destruct (sp_num_spec z r H) as (N & D & _). split; assumption. Qed.

Lemma sp_snum_spec : forall z r, sp_snum z r ->
  exists sg d, r = (sg ++ d)%string /\ digs d /\ lstrip_pm r = d /\ py_int r = Some z /\
               (sg = "" \/ sg = "+" \/ sg = "-").
Proof.
  intros z r [r' H|r' H|r' H]; pose proof (sp_num_digs _ _ H) as G;
    destruct (sp_num_spec _ _ H) as (_ & D & V).
  - exists "", r'. repeat split; try apply G; auto. apply digs_lstrip; exact D.
    rewrite digs_py_int by exact G. exact V.
  - exists "+", r'. repeat split; try apply G; auto. cbn [lstrip_pm Ascii.eqb Bool.eqb orb]. apply digs_lstrip; exact D.
    unfold py_int. change (Ascii.eqb "+" "-") with false. change (Ascii.eqb "+" "+") with true. cbv iota.
    rewrite digs_py_uint by exact G. exact V.
  - exists "-", r'. repeat split; try apply G; auto. cbn [lstrip_pm Ascii.eqb Bool.eqb orb]. apply digs_lstrip; exact D.
    unfold py_int. change (Ascii.eqb "-" "-") with true. cbv iota.
    rewrite digs_py_uint by exact G. rewrite V. cbn [option_map]. rewrite Z.opp_involutive. reflexivity.
Qed.

Lemma sall_app : forall f a b, sall f (a ++ b)%string = sall f a && sall f b.
Proof. induction a as [|c a IH]; intros b; [reflexivity|]. cbn [append sall]. rewrite IH, andb_assoc. reflexivity. Qed.

Lemma split_dot_sign : forall sg d, (sg = "" \/ sg = "+" \/ sg = "-") -> sall is_digit d = true ->
  forall j, split_dot (sg ++ d)%string = (sg ++ d)%string /\
            split_dot ((sg ++ d) ++ String "." j)%string = (sg ++ d)%string.
Proof.
  intros sg d S D j.
  assert (A : split_dot d = d) by (apply digs_split_dot; exact D).
  assert (B : split_dot (d ++ String "." j)%string = d).
  { clear A. induction d as [|c d IH]; [reflexivity|]. cbn [sall] in D. apply andb_prop in D as [H H'].
    destruct (is_digit_not_special c H) as (_ & _ & C & _). cbn [append split_dot]. rewrite C, IH by exact H'. reflexivity. }
  destruct S as [->|[->| ->]]; cbn [append split_dot Ascii.eqb Bool.eqb]; rewrite ?A, ?B; split; reflexivity.
Qed.

(* a decimal point and anything made of digits and points after it: accepted (and ignored) by
   _get_OP_PUSH1_type_args *)
Definition is_digit_or_dot (c : ascii) : bool := is_digit c || Ascii.eqb c ".".
Inductive sp_fnum (z : Z) : string -> Prop :=
| fn_int : forall r, sp_snum z r -> sp_fnum z r
| fn_frac : forall r j, sp_snum z r -> sall is_digit_or_dot j = true -> sp_fnum z (r ++ String "." j).

Lemma remove_dots_dd : forall j, sall is_digit_or_dot j = true -> sall is_digit (remove_dots j) = true.
Proof.
  induction j as [|c j IH]; intros H; [reflexivity|]. cbn [sall] in H. apply andb_prop in H as [H H'].
  cbn [remove_dots]. destruct (Ascii.eqb c ".") eqn:E; [apply IH; exact H'|].
  unfold is_digit_or_dot in H. rewrite E, orb_false_r in H. cbn [sall]. rewrite H, IH by exact H'. reflexivity.
Qed.
Lemma remove_dots_app : forall a b, remove_dots (a ++ b)%string = (remove_dots a ++ remove_dots b)%string.
Proof.
  induction a as [|c a IH]; intros b; [reflexivity|]. cbn [append remove_dots].
  destruct (Ascii.eqb c "."); rewrite IH; reflexivity.
Qed.
Lemma lstrip_app_digs : forall d s, digs d -> lstrip_pm (d ++ s)%string = (d ++ s)%string.
Proof.
  intros [|c d] s [N D]; [discriminate N|]. cbn [sall] in D. apply andb_prop in D as [H _].
  destruct (is_digit_not_special c H) as (A & B & _). cbn [append lstrip_pm]. rewrite A, B. reflexivity.
Qed.
Lemma nonempty_app : forall a b, nonempty a = true -> nonempty (a ++ b)%string = true.
Proof. intros [|c a] b H; [discriminate H|reflexivity]. Qed.

Lemma sp_fnum_spec : forall z r, sp_fnum z r ->
  isnumeric (remove_dots (lstrip_pm r)) = true /\ py_int (split_dot r) = Some z.
Proof.
  intros z r [r' H|r' j H J]; destruct (sp_snum_spec _ _ H) as (sg & d & -> & G & L & V & S);
    pose proof G as [N D].
  - rewrite L, digs_remove_dots by exact D. split; [unfold isnumeric; rewrite N, D; reflexivity|].
    rewrite (proj1 (split_dot_sign sg d S D "")). exact V.
  - split.
    + assert (E : lstrip_pm ((sg ++ d) ++ String "." j)%string = (d ++ String "." j)%string).
      { destruct S as [->|[->| ->]]; cbn [append lstrip_pm Ascii.eqb Bool.eqb orb];
          apply lstrip_app_digs; exact G. }
      rewrite E, remove_dots_app, digs_remove_dots by exact D.
      cbn [remove_dots Ascii.eqb Bool.eqb]. unfold isnumeric.
      rewrite nonempty_app by exact N. rewrite sall_app, D, remove_dots_dd by exact J. reflexivity.
    + rewrite (proj2 (split_dot_sign sg d S D j)). exact V.
Qed.

(* hexadecimal in either case *)
Definition sp_hex (v : bytes) (r : string) : Prop := lower_s r = hex v.

Lemma sp_hex_unhex : forall v r, sp_hex v r -> unhex_ci r = Some v.
Proof. intros v r H. unfold unhex_ci. rewrite H. apply unhex_hex. Qed.
Lemma length_smap : forall f s, String.length (smap f s) = String.length s.
Proof. induction s; cbn [smap String.length]; congruence. Qed.
Lemma length_hex : forall v, String.length (hex v) = (2 * List.length v)%nat.
Proof.
  induction v as [|x t IH]; [reflexivity|]. cbn [hex].
  destruct (Byte.to_bits x) as (b0 & b1 & b2 & b3 & b4 & b5 & b6 & b7). cbn [String.length List.length]. lia.
Qed.
Lemma sp_hex_length : forall v r, sp_hex v r -> String.length r = (2 * List.length v)%nat.
Proof. intros v r H. rewrite <- (length_smap lower_c), <- length_hex. f_equal. exact H. Qed.

(* string values: r is the symbol without its s *)
Lemma index_char_app : forall q body junk, index_char q body = None ->
  index_char q (body ++ String q junk)%string = Some (String.length body) /\
  sfirstn (String.length body) (body ++ String q junk)%string = body.
Proof.
  induction body as [|c body IH]; intros junk H.
  - cbn [append index_char]. rewrite Ascii.eqb_refl. split; reflexivity.
  - cbn [index_char] in H. destruct (Ascii.eqb c q) eqn:E; [discriminate H|].
    destruct (index_char q body) eqn:E2; [discriminate H|].
    destruct (IH junk eq_refl) as [A B]. cbn [append index_char String.length sfirstn].
    rewrite E, A, B. split; reflexivity.
Qed.

Inductive sp_str (v : bytes) : string -> Prop :=
| str_dq : forall body junk, index_char dquote body = None -> v = str body ->
    sp_str v (String dquote (body ++ String dquote junk))
| str_sq : forall body junk, index_char squote body = None -> v = str body ->
    sp_str v (String squote (body ++ String squote junk))
| str_raw : forall c r, v = str (String c r) ->
    (c = dquote -> index_char dquote r = None) -> (c = squote -> index_char squote r = None) ->
    sp_str v (String c r).

Lemma sp_str_sval : forall v r, sp_str v r -> sval r = Ok v.
Proof.
  intros v r [body junk H ->|body junk H ->|c r' -> H1 H2]; unfold sval.
  - change (Ascii.eqb dquote dquote) with true. cbv iota.
    destruct (index_char_app dquote body junk H) as [A B]. rewrite A, B. reflexivity.
  - change (Ascii.eqb squote dquote) with false. change (Ascii.eqb squote squote) with true. cbv iota.
    destruct (index_char_app squote body junk H) as [A B]. rewrite A, B. reflexivity.
  - destruct (Ascii.eqb c dquote) eqn:E1.
    + apply Ascii.eqb_eq in E1. rewrite (H1 E1). subst c. change (Ascii.eqb dquote squote) with false. reflexivity.
    + destruct (Ascii.eqb c squote) eqn:E2; [|reflexivity].
      apply Ascii.eqb_eq in E2. rewrite (H2 E2). reflexivity.
Qed.

(* ---------- symbols that are neither structure nor outside the model ---------- *)

(* a run-time oracle for the sources that have no "~!" block *)
Definition ct0 : bytes -> res (option bytes) := fun _ => Unm.

(* symbols that are outside the model, or that parse_comptime takes out of the symbol list *)
Definition bad_symbol (s : string) : bool := mem s ["~"; "~!"; "!="] || unmodelled_symbol s.

Definition struct_syms : list string := ["{"; "}"; "("; ")"; "END_DEF"].
Definition leafb (s : string) : bool := negb (bad_symbol s) && negb (mem s struct_syms).
Definition ascii_c (c : ascii) : bool := plain_c c.

Lemma sall_imp : forall (f g : ascii -> bool), (forall c, f c = true -> g c = true) ->
  forall s, sall f s = true -> sall g s = true.
Proof.
  intros f g H. induction s as [|c s IH]; intros E; [reflexivity|]. cbn [sall] in *.
  apply andb_prop in E as [E1 E2]. rewrite (H c E1), IH by exact E2. reflexivity.
Qed.
Lemma sall_smap : forall f g s, sall f (smap g s) = sall (fun c => f (g c)) s.
Proof. induction s as [|c s IH]; [reflexivity|]. cbn [smap sall]. rewrite IH. reflexivity. Qed.

Definition is_hexlow (c : ascii) : bool := match unnib c with Some _ => true | None => false end.
Lemma hex_hexlow : forall v, sall is_hexlow (hex v) = true.
Proof.
  induction v as [|x t IH]; [reflexivity|]. cbn [hex].
  destruct (Byte.to_bits x) as (b0 & b1 & b2 & b3 & b4 & b5 & b6 & b7). cbn [sall].
  unfold is_hexlow at 1 2. rewrite !unnib_nib, IH. reflexivity.
Qed.
Lemma hexlow_lower_ascii : forall c, is_hexlow (lower_c c) = true -> ascii_c c = true.
Proof. intros c. destruct c as [[] [] [] [] [] [] [] []]; intros H; try discriminate H; reflexivity. Qed.
Lemma sp_hex_ascii : forall v r, sp_hex v r -> is_ascii_s r = true.
Proof.
  intros v r H. pose proof (hex_hexlow v) as K. rewrite <- H in K. unfold lower_s in K. rewrite sall_smap in K.
  revert K. apply sall_imp. apply hexlow_lower_ascii.
Qed.
Lemma digs_ascii : forall r, sall is_digit r = true -> is_ascii_s r = true.
Proof. apply sall_imp. intros c H. apply (is_digit_not_special c H). Qed.
Lemma dd_ascii : forall r, sall is_digit_or_dot r = true -> is_ascii_s r = true.
Proof.
  apply sall_imp. intros c H. unfold is_digit_or_dot in H. apply orb_prop in H as [H|H].
  - apply (is_digit_not_special c H).
  - apply Ascii.eqb_eq in H. subst c. reflexivity.
Qed.
Lemma is_ascii_app : forall a b, is_ascii_s (a ++ b)%string = is_ascii_s a && is_ascii_s b.
Proof. intros. apply sall_app. Qed.

Lemma sp_snum_ascii : forall z r, sp_snum z r -> is_ascii_s r = true.
Proof.
  intros z r H. destruct (sp_snum_spec z r H) as (sg & d & -> & [_ D] & _ & _ & S).
  rewrite is_ascii_app, (digs_ascii d D). destruct S as [->|[->| ->]]; reflexivity.
Qed.
Lemma sp_fnum_ascii : forall z r, sp_fnum z r -> is_ascii_s r = true.
Proof.
  intros z r [r' H|r' j H J].
  - apply (sp_snum_ascii z); exact H.
  - rewrite is_ascii_app, (sp_snum_ascii z r' H). cbn [is_ascii_s sall]. fold (is_ascii_s j).
    rewrite (dd_ascii j J). reflexivity.
Qed.

(* the first character of a value symbol: the prefix in either case *)
Definition pfx (l u : ascii) (c : ascii) : Prop := c = l \/ c = u.
Definition dD := pfx "d" "D".
Definition xX := pfx "x" "X".
Definition sS := pfx "s" "S".

Lemma leaf_dx : forall c r, dD c \/ xX c -> is_ascii_s r = true -> leafb (String c r) = true.
Proof.
  intros c r [[->| ->]|[->| ->]] H; unfold leafb, bad_symbol, unmodelled_symbol; cbn [is_ascii_s sall] in *;
    fold (is_ascii_s r); rewrite H; reflexivity.
Qed.
Lemma leaf_s : forall c r, sS c -> leafb (String c r) = true.
Proof.
  intros c r [->| ->]; unfold leafb, bad_symbol, unmodelled_symbol; cbn [mem existsb String.eqb Ascii.eqb Bool.eqb orb];
    cbn [lower_c is_upper asc_between]; cbn; rewrite andb_false_r; reflexivity.
Qed.
Lemma leaf_digits : forall r, digs r -> leafb r = true.
Proof.
  intros [|c r] [N D]; [discriminate N|]. pose proof (digs_ascii _ D) as A.
  cbn [sall] in D. apply andb_prop in D as [Hc _].
  unfold leafb, bad_symbol, unmodelled_symbol. rewrite A. cbn [negb andb orb].
  destruct c as [[] [] [] [] [] [] [] []]; try discriminate Hc; reflexivity.
Qed.

(* ====================================================================================== *)
(* Part B: the value forms accepted for each kind of operand                                *)
(* ====================================================================================== *)

Section Values.
  Variable fl2 : Z -> Z.
  Variable ct : bytes -> res (option bytes).

  Ltac pfx_cases H := destruct H as [->| ->].

  (* one byte: _get_OP_PUSH0_type_args (1-byte instructions and NOPs) *)
  Inductive sp_byte (b : byte) : string -> Prop :=
  | sb_d : forall c r z, dD c -> sp_snum z r -> int_to_bytes fl2 z = Some [b] -> sp_byte b (String c r)
  | sb_x : forall c r, xX c -> sp_hex [b] r -> sp_byte b (String c r)
  | sb_x0 : forall c, xX c -> b = x00 -> sp_byte b (String c "").      (* oddity O6 *)

  Lemma sp_byte_ok : forall b s, sp_byte b s -> val_byte fl2 s = Ok [b].
  Proof.
    intros b s [c r z C H I|c r C H|c C ->]; unfold val_byte, split_val; cbn [rbind].
    - destruct (sp_snum_spec z r H) as (sg & d & E & G & L & V & S).
      assert (SD : split_dot r = r).
      { rewrite E. apply (proj1 (split_dot_sign sg d S (proj2 G) "")). }
      pfx_cases C; cbn [lower_c is_upper asc_between]; cbn [N_of_ascii N.leb]; cbv iota;
        change (Ascii.eqb (lower_c "D") "d") with true; change (Ascii.eqb "d" "d") with true; cbv iota;
        rewrite L; unfold isnumeric; rewrite (proj1 G), (proj2 G); cbn [andb];
        rewrite SD, V; cbn [of_opt rbind]; unfold i2b; rewrite I; reflexivity.
    - pose proof (sp_hex_length _ _ H) as Len. cbn [List.length] in Len.
      rewrite (proj2 (Nat.leb_le _ _)) by lia. rewrite (sp_hex_unhex _ _ H).
      pfx_cases C; reflexivity.
    - pfx_cases C; reflexivity.
  Qed.

  Lemma sp_byte_leaf : forall b s, sp_byte b s -> leafb s = true.
  Proof.
    intros b s [c r z C H I|c r C H|c C _]; apply leaf_dx; auto.
    - apply (sp_snum_ascii z); exact H.
    - apply (sp_hex_ascii [b]); exact H.
  Qed.

  (* [len:1][val] operands: _get_OP_PUSH1_type_args *)
  Inductive sp_var1 (v : bytes) : string -> Prop :=
  | sv_d : forall c r z, dD c -> sp_fnum z r -> int_to_bytes fl2 z = Some v -> sp_var1 v (String c r)
  | sv_x : forall c r, xX c -> sp_hex v r -> sp_var1 v (String c r)
  | sv_s : forall c r, sS c -> sp_str v r -> sp_var1 v (String c r).

  Lemma sp_var1_ok : forall v s, sp_var1 v s -> val_var1 fl2 s = Ok v.
  Proof.
    intros v s [c r z C H I|c r C H|c r C H]; unfold val_var1, split_val; cbn [rbind].
    - destruct (sp_fnum_spec z r H) as [A B].
      pfx_cases C; cbn; rewrite A, B; cbn [of_opt rbind]; unfold i2b; rewrite I; reflexivity.
    - pfx_cases C; cbn; rewrite (sp_hex_unhex _ _ H); reflexivity.
    - pfx_cases C; cbn; apply sp_str_sval; exact H.
  Qed.
  Lemma sp_var1_leaf : forall v s, sp_var1 v s -> leafb s = true.
  Proof.
    intros v s [c r z C H I|c r C H|c r C H]; [apply leaf_dx|apply leaf_dx|apply leaf_s]; auto.
    - apply (sp_fnum_ascii z); exact H.
    - apply (sp_hex_ascii v); exact H.
  Qed.

  (* OP_PUSH2: _get_OP_PUSH2_args *)
  Inductive sp_push2 (v : bytes) : string -> Prop :=
  | s2_d : forall c r z, dD c -> sp_snum z r -> int_to_bytes fl2 z = Some v -> sp_push2 v (String c r)
  | s2_x : forall c r, xX c -> sp_hex v r -> sp_push2 v (String c r)
  | s2_s : forall c r, sS c -> sp_str v r -> sp_push2 v (String c r).

  Lemma sp_push2_ok : forall v s, sp_push2 v s -> val_push2 fl2 s = Ok v.
  Proof.
    intros v s [c r z C H I|c r C H|c r C H]; unfold val_push2, split_val; cbn [rbind].
    - destruct (sp_snum_spec z r H) as (sg & d & E & G & L & V & S).
      assert (SD : split_dot r = r).
      { rewrite E. apply (proj1 (split_dot_sign sg d S (proj2 G) "")). }
      pfx_cases C; cbn; rewrite L; unfold isnumeric; rewrite (proj1 G), (proj2 G); cbn [andb];
        rewrite SD, V; cbn [of_opt rbind]; unfold i2b; rewrite I; reflexivity.
    - pfx_cases C; cbn; rewrite (sp_hex_unhex _ _ H); reflexivity.
    - pfx_cases C; cbn; apply sp_str_sval; exact H.
  Qed.
  Lemma sp_push2_leaf : forall v s, sp_push2 v s -> leafb s = true.
  Proof.
    intros v s [c r z C H I|c r C H|c r C H]; [apply leaf_dx|apply leaf_dx|apply leaf_s]; auto.
    - apply (sp_snum_ascii z); exact H.
    - apply (sp_hex_ascii v); exact H.
  Qed.

  (* the PUSH pseudo-instruction: _get_OP_PUSH_args (no + sign) *)
  Inductive sp_pushv (v : bytes) : string -> Prop :=
  | sp_d : forall c r z, dD c -> sp_num z r -> int_to_bytes fl2 z = Some v -> sp_pushv v (String c r)
  | sp_dm : forall c r z, dD c -> sp_num (- z) r -> int_to_bytes fl2 z = Some v ->
      sp_pushv v (String c (String "-" r))
  | sp_x : forall c r, xX c -> sp_hex v r -> sp_pushv v (String c r)
  | sp_s : forall c r, sS c -> sp_str v r -> sp_pushv v (String c r).

  Lemma sp_pushv_ok : forall v s, sp_pushv v s -> val_push fl2 s = Ok v.
  Proof.
    intros v s [c r z C H I|c r z C H I|c r C H|c r C H]; unfold val_push, split_val; cbn [rbind].
    - pose proof (sp_num_digs _ _ H) as G. destruct (sp_num_spec _ _ H) as (_ & D & V).
      pfx_cases C; cbn; rewrite (sp_num_isnumeric _ _ H); cbn [orb];
        rewrite digs_split_dot, digs_py_int, V by assumption; cbn [of_opt rbind]; unfold i2b; rewrite I; reflexivity.
    - pose proof (sp_snum_spec z _ (sn_minus z r H)) as (sg & d & E & G & L & V & S).
      assert (SD : split_dot (String "-" r) = String "-" r).
      { rewrite E. apply (proj1 (split_dot_sign sg d S (proj2 G) "")). }
      pfx_cases C; cbn - [split_dot py_int]; rewrite (sp_num_isnumeric _ _ H);
        rewrite SD, V; cbn [of_opt rbind]; unfold i2b; rewrite I; reflexivity.
    - pfx_cases C; cbn; rewrite (sp_hex_unhex _ _ H); reflexivity.
    - pfx_cases C; cbn; apply sp_str_sval; exact H.
  Qed.
  Lemma sp_pushv_leaf : forall v s, sp_pushv v s -> leafb s = true.
  Proof.
    intros v s [c r z C H I|c r z C H I|c r C H|c r C H]; [apply leaf_dx|apply leaf_dx|apply leaf_dx|apply leaf_s]; auto.
    - apply digs_ascii. apply (sp_num_digs z r H).
    - apply (sp_snum_ascii z). apply sn_minus. exact H.
    - apply (sp_hex_ascii v); exact H.
  Qed.

  (* OP_WRITE_CACHE key: unsigned d-form (below 2^40), x, s *)
  Inductive sp_key (k : bytes) : string -> Prop :=
  | sk_d : forall c r z, dD c -> sp_num z r -> ukey z = Ok k -> sp_key k (String c r)
  | sk_x : forall c r, xX c -> sp_hex k r -> sp_key k (String c r)
  | sk_s : forall c r, sS c -> sp_str k r -> sp_key k (String c r).

  Lemma sp_key_ok : forall k s, sp_key k s -> val_key s = Ok k.
  Proof.
    intros k s [c r z C H I|c r C H|c r C H]; unfold val_key, split_val; cbn [rbind].
    - destruct (sp_num_spec _ _ H) as (_ & _ & V).
      pfx_cases C; cbn - [ukey]; rewrite (sp_num_isnumeric _ _ H), V; cbn [of_opt rbind]; exact I.
    - pfx_cases C; cbn; rewrite (sp_hex_unhex _ _ H); reflexivity.
    - pfx_cases C; cbn; apply sp_str_sval; exact H.
  Qed.
  Lemma sp_key_leaf : forall v s, sp_key v s -> leafb s = true.
  Proof.
    intros v s [c r z C H I|c r C H|c r C H]; [apply leaf_dx|apply leaf_dx|apply leaf_s]; auto.
    - apply digs_ascii. apply (sp_num_digs z r H).
    - apply (sp_hex_ascii v); exact H.
  Qed.

  (* OP_WRITE_CACHE count: d-form, or x-form of any length (oddity O7) *)
  Inductive sp_count (cb : byte) : string -> Prop :=
  | sc_d : forall c r, dD c -> sp_num (b2z cb) r -> sp_count cb (String c r)
  | sc_x : forall c r v, xX c -> sp_hex v r -> be_to_Z v = b2z cb -> sp_count cb (String c r).

  Lemma z2b_b2z : forall b, z2b (b2z b) = b.
  Proof. destruct b; reflexivity. Qed.
  Lemma b2z_lt : forall b, b2z b < 256.
  Proof. destruct b; reflexivity. Qed.

  Lemma sp_count_ok : forall cb s, sp_count cb s -> val_count s = Ok (b2z cb).
  Proof.
    intros cb s [c r C H|c r v C H E]; unfold val_count, split_val; cbn [rbind].
    - destruct (sp_num_spec _ _ H) as (_ & _ & V).
      pfx_cases C; cbn; rewrite (sp_num_isnumeric _ _ H), V; reflexivity.
    - pfx_cases C; cbn; rewrite (sp_hex_unhex _ _ H); cbn [of_opt rbind]; rewrite E; reflexivity.
  Qed.
  Lemma sp_count_leaf : forall v s, sp_count v s -> leafb s = true.
  Proof.
    intros v s [c r C H|c r w C H E]; apply leaf_dx; auto.
    - apply digs_ascii. apply (sp_num_digs _ r H).
    - apply (sp_hex_ascii w); exact H.
  Qed.

  (* OP_SWAP / OP_CHECK_MULTISIG operands *)
  Inductive sp_index (b : byte) : string -> Prop :=
  | si_d : forall c r, dD c -> sp_num (b2z b) r -> sp_index b (String c r)
  | si_x : forall c r, xX c -> sp_hex [b] r -> sp_index b (String c r).

  Lemma sp_index_ok : forall b s, sp_index b s -> val_index s = Ok [b].
  Proof.
    intros b s [c r C H|c r C H]; unfold val_index, split_val; cbn [rbind].
    - destruct (sp_num_spec _ _ H) as (_ & _ & V). pose proof (b2z_lt b) as L. apply Z.ltb_lt in L.
      pfx_cases C; cbn - [Z.ltb]; rewrite (sp_num_isnumeric _ _ H), V; cbn [of_opt rbind]; rewrite L, z2b_b2z; reflexivity.
    - pose proof (sp_hex_length _ _ H) as Len. cbn [List.length] in Len.
      pfx_cases C; cbn - [Nat.eqb]; rewrite Len; cbn [Nat.eqb Nat.mul Nat.add]; rewrite (sp_hex_unhex _ _ H); reflexivity.
  Qed.
  Lemma sp_index_leaf : forall v s, sp_index v s -> leafb s = true.
  Proof.
    intros v s [c r C H|c r C H]; apply leaf_dx; auto.
    - apply digs_ascii. apply (sp_num_digs _ r H).
    - apply (sp_hex_ascii [v]); exact H.
  Qed.

  (* fixed-width hexadecimal operands: OP_DIV_FLOAT / OP_MOD_FLOAT (4 bytes), OP_MERKLEVAL (32) *)
  Inductive sp_xval (v : bytes) : string -> Prop :=
  | sx_x : forall c r, xX c -> sp_hex v r -> sp_xval v (String c r).
  Lemma sp_xval_leaf : forall v s, sp_xval v s -> leafb s = true.
  Proof. intros v s [c r C H]. apply leaf_dx; auto. apply (sp_hex_ascii v); exact H. Qed.

  (* the def number: bare digits, d + digits (lower-case d only), x + two hex digits (lower-case x) *)
  Inductive sp_handle (h : byte) : string -> Prop :=
  | sh_bare : forall r, sp_num (b2z h) r -> sp_handle h r
  | sh_d : forall r, sp_snum (b2z h) r -> sp_handle h (String "d" r)
  | sh_x : forall r, sp_hex [h] r -> sp_handle h (String "x" r).

  Lemma b2z_range' : forall b, (0 <=? b2z b) && (b2z b <? 256) = true.
  Proof. destruct b; reflexivity. Qed.

  Lemma sp_handle_ok : forall h s, sp_handle h s -> def_handle s = Ok h.
  Proof.
    intros h s [r H|r H|r H]; unfold def_handle.
    - pose proof (sp_num_digs _ _ H) as [N D]. destruct (sp_num_spec _ _ H) as (_ & _ & V).
      destruct r as [|c r']; [discriminate N|].
      pose proof D as D'. cbn [sall] in D'. apply andb_prop in D' as [Hc _].
      assert (Ascii.eqb c "d" = false /\ Ascii.eqb c "x" = false) as [A B].
      { destruct c as [[] [] [] [] [] [] [] []]; try discriminate Hc; split; reflexivity. }
      rewrite A, B, (sp_num_isnumeric _ _ H), V. cbn [of_opt rbind]. rewrite b2z_range', z2b_b2z. reflexivity.
    - destruct (sp_snum_spec _ _ H) as (sg & d & E & G & L & V & S).
      change (Ascii.eqb "d" "d") with true. cbv iota. rewrite V. cbn [of_opt rbind].
      rewrite b2z_range', z2b_b2z. reflexivity.
    - pose proof (sp_hex_length _ _ H) as Len. cbn [List.length] in Len.
      change (Ascii.eqb "x" "d") with false. change (Ascii.eqb "x" "x") with true. cbv iota.
      rewrite (proj2 (Nat.ltb_lt _ _)) by lia. rewrite (sp_hex_unhex _ _ H). reflexivity.
  Qed.
  Lemma sp_handle_leaf : forall h s, sp_handle h s -> leafb s = true.
  Proof.
    intros h s [r H|r H|r H].
    - apply leaf_digits. apply (sp_num_digs _ r H).
    - apply leaf_dx; [left; left; reflexivity|]. apply (sp_snum_ascii _ r H).
    - apply leaf_dx; [right; left; reflexivity|]. apply (sp_hex_ascii _ r H).
  Qed.

  (* the explicit size of "OP_PUSH1 size value" / "OP_PUSH2 size value" (_check_push_size): d + an
     integer (sign, leading zeros) or x + the hexadecimal of a non-empty big-endian byte string *)
  Inductive sp_size (n : Z) : string -> Prop :=
  | sz_d : forall c r, dD c -> sp_snum n r -> sp_size n (String c r)
  | sz_x : forall c r b, xX c -> sp_hex b r -> b <> [] -> be_to_Z b = n -> sp_size n (String c r).

  Lemma sp_size_ok : forall v a, sp_size (blen v) a -> check_push_size (Some a) v = Ok tt.
  Proof.
    intros v a [c r C H|c r b C H NE E]; unfold check_push_size.
    - destruct (sp_snum_spec _ _ H) as (sg & d & Q & G & _ & V & S).
      assert (N : nonempty r = true).
      { rewrite Q. destruct S as [->|[->| ->]]; try reflexivity. cbn [append]. apply G. }
      rewrite N. pfx_cases C; cbn - [py_int Z.eqb]; rewrite V; cbn [of_opt rbind]; rewrite Z.eqb_refl; reflexivity.
    - assert (N : nonempty r = true).
      { pose proof (sp_hex_length _ _ H) as L. destruct b; [congruence|]. cbn [List.length] in L.
        destruct r; [cbn [String.length] in L; lia|reflexivity]. }
      rewrite N. pfx_cases C; cbn - [Z.eqb]; rewrite (sp_hex_unhex _ _ H); cbn [of_opt rbind];
        rewrite E, Z.eqb_refl; reflexivity.
  Qed.
  Lemma sp_size_leaf : forall n a, sp_size n a -> leafb a = true.
  Proof.
    intros n a [c r C H|c r b C H _ _]; apply leaf_dx; auto.
    - apply (sp_snum_ascii n); exact H.
    - apply (sp_hex_ascii b); exact H.
  Qed.
End Values.

(* ====================================================================================== *)
(* Part C: names                                                                            *)
(* ====================================================================================== *)

(* where a statement stands: at top level (or in blocks at top level), directly in the body of a
   DEF (parse_def resolves the aliases itself there and refuses a DEF), or in a block nested in a
   DEF body *)
Inductive ctx := Top | DefDirect | DefNested.
Definition sub_ctx (c : ctx) : ctx := match c with Top => Top | _ => DefNested end.
Definition defpre (c : ctx) (s : string) : string :=
  match c with DefDirect => match alias_of s with Some t => t | None => s end | _ => s end.
Lemma is_alias_none : forall s, is_alias s = false -> alias_of s = None.
Proof. intros s H. unfold is_alias in H. destruct (alias_of s); [discriminate H|reflexivity]. Qed.

(* the names of an opcode: its OP_ name, and every key of the generated alias table that maps to it
   (the name without OP_, the short aliases with and without OP_), in every context (before the fix
   of finding A4 the OP_-prefixed aliases were not accepted directly in a DEF body) *)
Definition spell_name (c : ctx) (o : opcode) (s : string) : Prop :=
  s = opcode_name o \/ In (s, opcode_name o) gen_aliases.

(* symbols that end or separate blocks, and "{" *)
Definition term_syms : list string :=
  ["}"; "END_IF"; "ELSE"; "END_LOOP"; "EXCEPT"; "END_EXCEPT"; "END_DEF"; "END_TRY"; "{"; "("; ")"].

(* what every first symbol of a statement satisfies *)
Definition headb (s : string) : bool :=
  negb (is_comment s) && negb (mem s term_syms) && leafb s.

Definition alias_chk (p : string * string) : bool :=
  let '(a, t) := p in
  String.eqb (canon a) t && headb a && negb (is_comment t) && String.eqb (canon t) t
  && match alias_of a with Some t' => String.eqb t' t | None => false end.
Lemma alias_chk_all : forallb alias_chk gen_aliases = true.
Proof. vm_compute. reflexivity. Qed.

Definition opname_chk (o : opcode) : bool :=
  let n := opcode_name o in
  String.eqb (canon n) n && negb (is_alias n) && headb n
  && match opcode_index n with Some k => Nat.eqb k (Byte.to_nat (opcode_byte o)) | None => false end.
Lemma opname_chk_all : forall o, opname_chk o = true.
Proof. destruct o; vm_compute; reflexivity. Qed.

Lemma spell_name_spec : forall c o s, spell_name c o s ->
  canon (defpre c s) = opcode_name o /\ is_comment (defpre c s) = false /\ headb s = true.
Proof.
  intros c o s [->|I].
  - pose proof (opname_chk_all o) as K. unfold opname_chk in K.
    apply andb_prop in K as [K _]. apply andb_prop in K as [K H]. apply andb_prop in K as [K1 K2].
    apply String.eqb_eq in K1. apply negb_true_iff in K2. apply is_alias_none in K2.
    assert (D : defpre c (opcode_name o) = opcode_name o) by (destruct c; cbn [defpre]; rewrite ?K2; reflexivity).
    rewrite D. split; [exact K1|]. split; [|exact H].
    unfold headb in H. apply andb_prop in H as [H _]. apply andb_prop in H as [H _]. apply negb_true_iff in H. exact H.
  - pose proof (proj1 (forallb_forall _ _) alias_chk_all _ I) as K. unfold alias_chk in K.
    apply andb_prop in K as [K K5]. apply andb_prop in K as [K K4]. apply andb_prop in K as [K K3].
    apply andb_prop in K as [K1 K2]. apply String.eqb_eq in K1, K4. apply negb_true_iff in K3.
    destruct (alias_of s) as [t'|] eqn:Q; [|discriminate K5]. apply String.eqb_eq in K5. subst t'.
    assert (Hc : is_comment s = false).
    { unfold headb in K2. apply andb_prop in K2 as [K2' _]. apply andb_prop in K2' as [K2' _]. apply negb_true_iff in K2'. exact K2'. }
    split; [|split; [|exact K2]]; destruct c; cbn [defpre]; rewrite ?Q; assumption.
Qed.

Lemma opcode_index_name : forall o, opcode_index (opcode_name o) = Some (Byte.to_nat (opcode_byte o)).
Proof.
  intros o. pose proof (opname_chk_all o) as K. unfold opname_chk in K. apply andb_prop in K as [_ K].
  destruct (opcode_index (opcode_name o)); [|discriminate K]. apply Nat.eqb_eq in K. congruence.
Qed.

Lemma opcode_name_inj_def : forall o s, opcode_name o = s ->
  (s = "OP_DEF" -> o = O_DEF) /\ s <> "}" /\ s <> "END_DEF".
Proof. intros o s <-. destruct o; repeat split; try discriminate; reflexivity. Qed.

(* NOP names *)
Definition plainb (c : string) : bool :=
  match c with
  | EmptyString => false
  | String c0 _ =>
    negb (String.eqb c "@=") && negb (String.eqb c "!=") && negb (is_prefix "@#" c)
    && negb (Ascii.eqb c0 "@") && negb (Ascii.eqb c0 "!")
    && negb (String.eqb c "OP_PUSH") && negb (String.eqb c "OP_TRY")
    && negb (String.eqb c "OP_IF") && negb (String.eqb c "OP_DEF") && negb (String.eqb c "OP_LOOP")
  end.

Definition simple_op (o : opcode) : bool :=
  match o with O_IF | O_DEF | O_LOOP => false | _ => true end.
Lemma plainb_op : forall o, simple_op o = true -> plainb (opcode_name o) = true.
Proof. destruct o; intros H; try discriminate H; reflexivity. Qed.

Definition nop_chk (code : nat) : bool :=
  let n := nop_name code in
  plainb n && String.eqb (canon n) n && negb (is_alias n) && headb n
  && match opcode_index n with Some _ => false | None => true end
  && match nop_index n with Some k => Nat.eqb k code | None => false end.
Lemma nop_chk_all : forallb nop_chk (seq 92 164) = true.
Proof. vm_compute. reflexivity. Qed.
Lemma nop_chk_at : forall code, (n_opcodes <= code < 256)%nat -> nop_chk code = true.
Proof.
  intros code H. rewrite n_opcodes_val in H.
  apply (proj1 (forallb_forall _ _) nop_chk_all). apply in_seq. lia.
Qed.

Section PnNames.
  Variable fl2 : Z -> Z.
  Variable ct : bytes -> res (option bytes).
  Variable asm : list string -> res bytes.
  Variable pn : string -> list string -> res (nat * bytes).
  Variable macs : macros.
  Variable compile : string -> res bytes.

  Lemma pn_plain : forall cur tail k o,
    is_comment cur = false -> plainb (canon cur) = true ->
    opcode_index (canon cur) = Some k -> opcode_of_nat k = Some o ->
    parse_next fl2 asm pn macs compile cur tail =
    rbind (get_args fl2 o (tl tail)) (fun '(adv, args) => Ok (adv, z2b (Z.of_nat k) :: args)).
  Proof.
    intros cur tail k o Hc Hp Hi Ho. unfold parse_next. rewrite Hc, Hi, Ho.
    destruct (canon cur) as [|c0 cr]; [discriminate Hp|]. unfold plainb in Hp.
    repeat (apply andb_prop in Hp as [Hp ?]).
    repeat match goal with H : negb _ = true |- _ => apply negb_true_iff in H; rewrite H end.
    reflexivity.
  Qed.

  Lemma pn_opcode : forall c cur tail o, spell_name c o cur -> simple_op o = true ->
    parse_next fl2 asm pn macs compile (defpre c cur) tail =
    rbind (get_args fl2 o (tl tail)) (fun '(adv, args) => Ok (adv, opcode_byte o :: args)).
  Proof.
    intros c cur tail o S P. destruct (spell_name_spec c o cur S) as (E & Hc & _).
    rewrite (pn_plain _ tail (Byte.to_nat (opcode_byte o)) o Hc).
    - rewrite z2b_to_nat. reflexivity.
    - rewrite E. apply plainb_op. exact P.
    - rewrite E. apply opcode_index_name.
    - apply opcode_of_byte.
  Qed.

  Lemma pn_nop : forall c code tail, (n_opcodes <= code < 256)%nat ->
    parse_next fl2 asm pn macs compile (defpre c (nop_name code)) tail =
    rbind (args_push0 fl2 (tl tail)) (fun '(adv, args) => Ok (adv, z2b (Z.of_nat code) :: args)).
  Proof.
    intros c code tail R. pose proof (nop_chk_at code R) as K. unfold nop_chk in K.
    apply andb_prop in K as [K K6]. apply andb_prop in K as [K K5]. apply andb_prop in K as [K K4].
    apply andb_prop in K as [K K3]. apply andb_prop in K as [K1 K2].
    apply String.eqb_eq in K2. apply negb_true_iff in K3.
    assert (D : defpre c (nop_name code) = nop_name code) by (destruct c; cbn [defpre]; rewrite ?(is_alias_none _ K3); reflexivity).
    rewrite D. unfold headb in K4. apply andb_prop in K4 as [K4 _]. apply andb_prop in K4 as [K4 _].
    apply negb_true_iff in K4. unfold parse_next. rewrite K4, K2.
    destruct (opcode_index (nop_name code)); [discriminate K5|].
    destruct (nop_index (nop_name code)) as [k|]; [|discriminate K6]. apply Nat.eqb_eq in K6. subst k.
    destruct (nop_name code) as [|c0 cr]; [discriminate K1|]. unfold plainb in K1.
    repeat (apply andb_prop in K1 as [K1 ?]).
    repeat match goal with H : negb _ = true |- _ => apply negb_true_iff in H; rewrite H end.
    reflexivity.
  Qed.
End PnNames.

(* ====================================================================================== *)
(* Part D: the spellings of a program                                                       *)
(* ====================================================================================== *)

Definition braces (sb : list string) : list string := "{" :: sb ++ ["}"].
Definition hd_or (nx : option string) (l : list string) : option string :=
  match l with t :: _ => Some t | [] => nx end.
Definition push_name (n : string) : Prop := n = "PUSH" \/ n = "OP_PUSH".
Definition try_name (n : string) : Prop := n = "TRY" \/ n = "OP_TRY".

Section Spells.
  Variable fl2 : Z -> Z.
  Variable ct : bytes -> res (option bytes).

  (* [stmt c nx is ss]: in context c, followed by the symbol nx (None: by the end of the source), the
     symbols ss are ONE statement that assembles to the instructions is (one instruction, except
     that a hoisted condition adds its instructions in front of the IF);
     [iftail c nx i ts]: ts is what follows IF [( cond )] for the instruction i;
     [seq c nx p ss]: ss is a sequence of statements for the program p. *)
  Inductive stmt : ctx -> option string -> list instr -> list string -> Prop :=
  (* instructions without nested bodies: any name, any value form *)
  | st_op0 : forall c nx o n, spell_name c o n -> shape_of o = ShNone -> stmt c nx [IOp0 o] [n]
  | st_op1 : forall c nx o n b v, spell_name c o n -> is_sh1 (shape_of o) = true -> sp_byte fl2 b v ->
      stmt c nx [IOp1 o b] [n; v]
  | st_nop : forall c nx code cb v, sp_byte fl2 cb v -> stmt c nx [INop code cb] [nop_name code; v]
  | st_var1 : forall c nx o n v s, spell_name c o n -> shape_of o = ShVar1 \/ shape_of o = ShVar1Int ->
      sp_var1 fl2 v s -> stmt c nx [IVar1 o v] [n; s]
  (* OP_PUSH1 / OP_PUSH2 (oddity O1): "name size value" where the size symbol denotes the length of
     the value and the value must not look like a name; or "name value" when the next symbol looks
     like a name *)
  | st_push1_2 : forall c nx n a v s, spell_name c O_PUSH1 n -> sp_size (blen v) a -> sp_var1 fl2 v s ->
      oplike s = false -> stmt c nx [IVar1 O_PUSH1 v] [n; a; s]
  | st_push1_1 : forall c t n v s, spell_name c O_PUSH1 n -> sp_var1 fl2 v s -> oplike t = true ->
      stmt c (Some t) [IVar1 O_PUSH1 v] [n; s]
  | st_push2_2 : forall c nx n a v s, spell_name c O_PUSH2 n -> sp_size (blen v) a -> sp_push2 fl2 v s ->
      oplike s = false -> stmt c nx [IPush2 v] [n; a; s]
  | st_push2_1 : forall c t n v s, spell_name c O_PUSH2 n -> sp_push2 fl2 v s -> oplike t = true ->
      stmt c (Some t) [IPush2 v] [n; s]
  | st_wc : forall c nx n k cb s1 s2, spell_name c O_WRITE_CACHE n -> sp_key k s1 -> sp_count cb s2 ->
      stmt c nx [IWriteCache k cb] [n; s1; s2]
  | st_fix : forall c nx o n v s, spell_name c o n -> sp_xval v s -> stmt c nx [IFix o v] [n; s]
  | st_swap : forall c nx n a b sa sb, spell_name c O_SWAP n -> sp_index a sa -> sp_index b sb ->
      stmt c nx [ISwap a b] [n; sa; sb]
  | st_ms : forall c nx o n f m k sf sm sk, spell_name c o n -> sp_index f sf -> sp_index m sm ->
      sp_index k sk -> stmt c nx [IMultisig o f m k] [n; sf; sm; sk]
  (* the PUSH pseudo-instruction *)
  | st_pushp : forall c nx n v s i, push_name n -> sp_pushv fl2 v s -> push_instr v = Some i ->
      stmt c nx [i] [n; s]
  (* @= k n   @k   @#k *)
  | st_setvar : forall c nx k cb cnt, isalnum k = true -> sp_num (b2z cb) cnt ->
      stmt c nx [IWriteCache (str k) cb] ["@="; k; cnt]
  | st_loadvar : forall c nx k, isalnum k = true -> stmt c nx [IVar1 O_READ_CACHE (str k)] [String "@" k]
  | st_sizevar : forall c nx k, isalnum k = true ->
      stmt c nx [IVar1 O_READ_CACHE_SIZE (str k)] [String "@" (String "#" k)]
  (* IF, with the condition inline (before the IF) or hoisted in parentheses *)
  | st_if : forall c nx n i ts, spell_name c O_IF n -> iftail c nx i ts -> stmt c nx [i] (n :: ts)
  | st_ifh : forall c nx n cond sc i ts, spell_name c O_IF n -> seq (sub_ctx c) None cond sc ->
      iftail c nx i ts -> stmt c nx (cond ++ [i]) (n :: "(" :: sc ++ ")" :: ts)
  (* TRY (END_TRY does not exist: oddity O4) *)
  | st_try_b : forall c nx n b1 sb1, try_name n -> seq (sub_ctx c) (Some "}") b1 sb1 ->
      nx <> Some "EXCEPT" -> stmt c nx [ITry b1 []] (n :: braces sb1)
  | st_try_bb : forall c nx n b1 sb1 b2 sb2, try_name n -> seq (sub_ctx c) (Some "}") b1 sb1 ->
      seq (sub_ctx c) (Some "}") b2 sb2 ->
      stmt c nx [ITry b1 b2] (n :: braces sb1 ++ "EXCEPT" :: braces sb2)
  | st_try_be : forall c nx n b1 sb1 b2 sb2, try_name n -> seq (sub_ctx c) (Some "}") b1 sb1 ->
      seq (sub_ctx c) (Some "END_EXCEPT") b2 sb2 ->
      stmt c nx [ITry b1 b2] (n :: braces sb1 ++ "EXCEPT" :: sb2 ++ ["END_EXCEPT"])
  | st_try_eb : forall c nx n b1 sb1 b2 sb2, try_name n -> seq (sub_ctx c) (Some "EXCEPT") b1 sb1 ->
      seq (sub_ctx c) (Some "}") b2 sb2 ->
      stmt c nx [ITry b1 b2] (n :: sb1 ++ "EXCEPT" :: braces sb2)
  | st_try_ee : forall c nx n b1 sb1 b2 sb2, try_name n -> seq (sub_ctx c) (Some "EXCEPT") b1 sb1 ->
      seq (sub_ctx c) (Some "END_EXCEPT") b2 sb2 ->
      stmt c nx [ITry b1 b2] (n :: sb1 ++ "EXCEPT" :: sb2 ++ ["END_EXCEPT"])
  (* LOOP *)
  | st_loop_b : forall c nx n b sb, spell_name c O_LOOP n -> seq (sub_ctx c) (Some "}") b sb ->
      stmt c nx [ILoop b] (n :: braces sb)
  | st_loop_e : forall c nx n b sb, spell_name c O_LOOP n -> seq (sub_ctx c) (Some "END_LOOP") b sb ->
      stmt c nx [ILoop b] (n :: sb ++ ["END_LOOP"])
  (* DEF: not directly in a DEF body; with END_DEF only outside any DEF *)
  | st_def_b : forall c nx n h hs b sb, c <> DefDirect -> spell_name c O_DEF n -> sp_handle h hs ->
      seq DefDirect (Some "}") b sb -> stmt c nx [IDef h b] (n :: hs :: braces sb)
  | st_def_e : forall nx n h hs b sb, spell_name Top O_DEF n -> sp_handle h hs ->
      seq DefDirect (Some "END_DEF") b sb -> stmt Top nx [IDef h b] (n :: hs :: sb ++ ["END_DEF"])

  with iftail : ctx -> option string -> instr -> list string -> Prop :=
  | it_b : forall c nx b sb, seq (sub_ctx c) (Some "}") b sb -> nx <> Some "ELSE" ->
      iftail c nx (IIf b) (braces sb)
  | it_e : forall c nx b sb, seq (sub_ctx c) (Some "END_IF") b sb -> iftail c nx (IIf b) (sb ++ ["END_IF"])
  | ite_bb : forall c nx b1 sb1 b2 sb2, seq (sub_ctx c) (Some "}") b1 sb1 -> seq (sub_ctx c) (Some "}") b2 sb2 ->
      iftail c nx (IIfElse b1 b2) (braces sb1 ++ "ELSE" :: braces sb2)
  | ite_be : forall c nx b1 sb1 b2 sb2, seq (sub_ctx c) (Some "}") b1 sb1 ->
      seq (sub_ctx c) (Some "END_IF") b2 sb2 ->
      iftail c nx (IIfElse b1 b2) (braces sb1 ++ "ELSE" :: sb2 ++ ["END_IF"])
  | ite_ee : forall c nx b1 sb1 b2 sb2, seq (sub_ctx c) (Some "ELSE") b1 sb1 ->
      seq (sub_ctx c) (Some "END_IF") b2 sb2 ->
      iftail c nx (IIfElse b1 b2) (sb1 ++ "ELSE" :: sb2 ++ ["END_IF"])

  with seq : ctx -> option string -> list instr -> list string -> Prop :=
  | sq_nil : forall c nx, seq c nx [] []
  | sq_cons : forall c nx is ss p sp, stmt c (hd_or nx sp) is ss -> seq c nx p sp ->
      seq c nx (is ++ p) (ss ++ sp).

  Scheme stmt_mind := Minimality for stmt Sort Prop
    with iftail_mind := Minimality for iftail Sort Prop
    with seq_mind := Minimality for seq Sort Prop.
  Combined Scheme spells_mutind from stmt_mind, iftail_mind, seq_mind.

  (* the spellings of a whole program *)
  Definition spells (p : list instr) (syms : list string) : Prop := seq Top None p syms.
End Spells.

(* ====================================================================================== *)
(* Part E: invariants of spellings (balance, modelled symbols, END_DEF)                     *)
(* ====================================================================================== *)

(* nesting depth of op/cl after the symbols; None if it would go below zero *)
Fixpoint scan (op cl : string) (l : list string) (k : nat) : option nat :=
  match l with
  | [] => Some k
  | s :: t =>
    if String.eqb s cl then match k with O => None | S k' => scan op cl t k' end
    else scan op cl t (if String.eqb s op then S k else k)
  end.

Lemma scan_app : forall op cl a b k,
  scan op cl (a ++ b) k = match scan op cl a k with Some k' => scan op cl b k' | None => None end.
Proof.
  induction a as [|s a IH]; intros b k; [reflexivity|]. cbn [app scan].
  destruct (String.eqb s cl); [destruct k; [reflexivity|apply IH]|apply IH].
Qed.

(* _find_matching_brace runs over a balanced stretch *)
Lemma fmb_scan : forall op cl ss k k' opens closes idx r,
  scan op cl ss k = Some k' -> opens = (closes + 1 + k)%nat ->
  exists opens' closes',
    fmb_go op cl opens closes idx (ss ++ r) = fmb_go op cl opens' closes' (idx + List.length ss)%nat r /\
    opens' = (closes' + 1 + k')%nat.
Proof.
  induction ss as [|s ss IH]; intros k k' opens closes idx r H E.
  - cbn in H. injection H as <-. exists opens, closes. rewrite Nat.add_0_r. split; [reflexivity|exact E].
  - cbn [scan] in H. cbn [app fmb_go List.length]. destruct (String.eqb s cl).
    + destruct k as [|k1]; [discriminate H|].
      rewrite (proj2 (Nat.leb_gt _ _)) by lia.
      destruct (IH k1 k' opens (S closes) (S idx) r H ltac:(lia)) as (o' & c' & A & B).
      exists o', c'. rewrite A. split; [f_equal; lia|exact B].
    + destruct (IH _ k' (if String.eqb s op then S opens else opens) closes (S idx) r H) as (o' & c' & A & B).
      { destruct (String.eqb s op); lia. }
      exists o', c'. rewrite A. split; [f_equal; lia|exact B].
Qed.

Lemma fmb_balanced : forall op cl ss r idx,
  (forall k, scan op cl ss k = Some k) ->
  fmb_go op cl 1 0 idx (ss ++ cl :: r) = Some (idx + List.length ss)%nat.
Proof.
  intros op cl ss r idx B.
  destruct (fmb_scan op cl ss 0 0 1 0 idx (cl :: r) (B 0%nat) eq_refl)%nat as (o2 & c2 & A2 & B2).
  rewrite A2. cbn [fmb_go]. rewrite String.eqb_refl. rewrite (proj2 (Nat.leb_le _ _)) by lia. reflexivity.
Qed.

(* d = true: END_DEF must not occur *)
Definition good (d : bool) (ss : list string) : Prop :=
  (forall k, scan "{" "}" ss k = Some k) /\ (forall k, scan "(" ")" ss k = Some k) /\
  existsb bad_symbol ss = false /\ (d = true -> mem "END_DEF" ss = false).

Lemma mem_app : forall s a b, mem s (a ++ b) = mem s a || mem s b.
Proof. intros. unfold mem. apply existsb_app. Qed.

Lemma good_nil : forall d, good d [].
Proof. intros d. repeat split; reflexivity. Qed.

Lemma leafb_spec : forall s, leafb s = true ->
  bad_symbol s = false /\ String.eqb s "{" = false /\ String.eqb s "}" = false /\
  String.eqb s "(" = false /\ String.eqb s ")" = false /\ String.eqb "END_DEF" s = false.
Proof.
  intros s H. unfold leafb in H. apply andb_prop in H as [H1 H2].
  apply negb_true_iff in H1, H2. split; [exact H1|]. unfold mem, struct_syms in H2. cbn [existsb] in H2.
  repeat (apply orb_false_elim in H2 as [? H2]). repeat split; try assumption.
  rewrite String.eqb_sym. assumption.
Qed.

Lemma good_leaf : forall d s t, leafb s = true -> good d t -> good d (s :: t).
Proof.
  intros d s t L (A & B & C & D). destruct (leafb_spec s L) as (U & E1 & E2 & E3 & E4 & E5).
  repeat split.
  - intros k. cbn [scan]. rewrite E2, E1. apply A.
  - intros k. cbn [scan]. rewrite E4, E3. apply B.
  - cbn [existsb]. rewrite U, C. reflexivity.
  - intros Hd. unfold mem. cbn [existsb]. rewrite E5. apply D. exact Hd.
Qed.

Lemma good_app : forall d a b, good d a -> good d b -> good d (a ++ b).
Proof.
  intros d a b (A1 & B1 & C1 & D1) (A2 & B2 & C2 & D2). repeat split.
  - intros k. rewrite scan_app, A1. apply A2.
  - intros k. rewrite scan_app, B1. apply B2.
  - rewrite existsb_app, C1, C2. reflexivity.
  - intros Hd. rewrite mem_app, D1, D2 by exact Hd. reflexivity.
Qed.

Lemma good_braces : forall d a, good d a -> good d (braces a).
Proof.
  intros d a (A & B & C & D). unfold braces. repeat split.
  - intros k. cbn [scan String.eqb Ascii.eqb Bool.eqb]. rewrite scan_app, A. reflexivity.
  - intros k. cbn [scan String.eqb Ascii.eqb Bool.eqb]. rewrite scan_app, B. reflexivity.
  - cbn [existsb]. rewrite existsb_app, C. reflexivity.
  - intros Hd. unfold mem. cbn [existsb]. fold (mem "END_DEF" (a ++ ["}"])). rewrite mem_app, D by exact Hd. reflexivity.
Qed.

Lemma good_parens : forall d a t, good d a -> good d t -> good d ("(" :: a ++ ")" :: t).
Proof.
  intros d a t (A & B & C & D) (A' & B' & C' & D'). repeat split.
  - intros k. cbn [scan String.eqb Ascii.eqb Bool.eqb]. rewrite scan_app, A. cbn [scan String.eqb Ascii.eqb Bool.eqb]. apply A'.
  - intros k. cbn [scan String.eqb Ascii.eqb Bool.eqb]. rewrite scan_app, B. cbn [scan String.eqb Ascii.eqb Bool.eqb]. apply B'.
  - cbn [existsb]. rewrite existsb_app, C. cbn [existsb]. rewrite C'. reflexivity.
  - intros Hd. unfold mem. cbn [existsb]. fold (mem "END_DEF" (a ++ ")" :: t)). rewrite mem_app, D by exact Hd.
    unfold mem. cbn [existsb]. apply D'. exact Hd.
Qed.

Lemma good_weaken : forall d ss, good d ss -> good false ss.
Proof. intros d ss (A & B & C & _). repeat split; try assumption. discriminate. Qed.

Lemma good_enddef : forall a, good false a -> good false (a ++ ["END_DEF"]).
Proof.
  intros a (A & B & C & _). repeat split.
  - intros k. rewrite scan_app, A. reflexivity.
  - intros k. rewrite scan_app, B. reflexivity.
  - rewrite existsb_app, C. reflexivity.
  - discriminate.
Qed.

Definition in_def (c : ctx) : bool := match c with Top => false | _ => true end.
Lemma in_def_sub : forall c, in_def (sub_ctx c) = in_def c.
Proof. destruct c; reflexivity. Qed.

Lemma isalnum_ascii : forall k, isalnum k = true -> is_ascii_s k = true.
Proof.
  intros k H. unfold isalnum in H. apply andb_prop in H as [_ H]. revert H. apply sall_imp.
  intros c. destruct c as [[] [] [] [] [] [] [] []]; intros H; try discriminate H; reflexivity.
Qed.
Lemma leaf_at : forall k, is_ascii_s k = true -> leafb (String "@" k) = true.
Proof. intros k H. unfold leafb, bad_symbol, unmodelled_symbol. cbn [is_ascii_s sall]. fold (is_ascii_s k). rewrite H. reflexivity. Qed.
Lemma leaf_at_hash : forall k, is_ascii_s k = true -> leafb (String "@" (String "#" k)) = true.
Proof. intros k H. unfold leafb, bad_symbol, unmodelled_symbol. cbn [is_ascii_s sall]. fold (is_ascii_s k). rewrite H. reflexivity. Qed.
Lemma mem_In : forall s l, mem s l = true -> In s l.
Proof.
  intros s l H. unfold mem in H. apply existsb_exists in H as (x & I & E). apply String.eqb_eq in E. subst. exact I.
Qed.
Lemma leaf_alnum : forall k, isalnum k = true -> leafb k = true.
Proof.
  intros k H. pose proof (isalnum_ascii k H) as A.
  unfold leafb, bad_symbol, unmodelled_symbol. rewrite A. cbn [negb andb]. rewrite orb_false_r.
  destruct (mem k ["~"; "~!"; "!="]) eqn:E1.
  { apply mem_In in E1. cbn [In] in E1. destruct E1 as [<-|[<-|[<-|[]]]]; discriminate H. }
  destruct (mem k struct_syms) eqn:E2; [|reflexivity].
  apply mem_In in E2. cbn [In struct_syms] in E2. destruct E2 as [<-|[<-|[<-|[<-|[<-|[]]]]]]; discriminate H.
Qed.

Lemma spell_name_leaf : forall c o n, spell_name c o n -> leafb n = true.
Proof.
  intros c o n S. destruct (spell_name_spec c o n S) as (_ & _ & H). unfold headb in H.
  apply andb_prop in H as [_ H]. exact H.
Qed.
Lemma nop_name_leaf : forall code, (n_opcodes <= code < 256)%nat -> leafb (nop_name code) = true.
Proof.
  intros code R. pose proof (nop_chk_at code R) as K. unfold nop_chk in K.
  apply andb_prop in K as [K _]. apply andb_prop in K as [K _]. apply andb_prop in K as [_ K].
  unfold headb in K. apply andb_prop in K as [_ K]. exact K.
Qed.

Ltac wfs :=
  repeat match goal with
  | H : wf_prog [_] = true |- _ => cbn [wf_prog forallb] in H; rewrite andb_true_r in H
  | H : wf_prog (_ ++ _) = true |- _ => unfold wf_prog in H; rewrite forallb_app in H
  | H : forallb wf [_] = true |- _ => cbn [forallb] in H; rewrite andb_true_r in H
  | H : wf (IIf _) = true |- _ => cbn [wf] in H
  | H : wf (IIfElse _ _) = true |- _ => cbn [wf] in H
  | H : wf (ITry _ _) = true |- _ => cbn [wf] in H
  | H : wf (ILoop _) = true |- _ => cbn [wf] in H
  | H : wf (IDef _ _) = true |- _ => cbn [wf] in H
  | H : _ && _ = true |- _ => apply andb_prop in H as [? ?]
  end.

Section Invariants.
  Variable fl2 : Z -> Z.
  Variable ct : bytes -> res (option bytes).

  Local Ltac leafp :=
    first [ eapply spell_name_leaf; eassumption
          | eapply sp_byte_leaf; eassumption | eapply sp_var1_leaf; eassumption
          | eapply sp_push2_leaf; eassumption | eapply sp_pushv_leaf; eassumption
          | eapply sp_key_leaf; eassumption | eapply sp_count_leaf; eassumption
          | eapply sp_index_leaf; eassumption | eapply sp_xval_leaf; eassumption
          | eapply sp_handle_leaf; eassumption | eapply sp_size_leaf; eassumption
          | assumption | reflexivity ].
  Local Ltac gd :=
    repeat first
      [ apply good_nil
      | assumption
      | match goal with H : _ -> good ?d ?x |- good ?d ?x => apply H; assumption end
      | apply good_leaf; [leafp|]
      | apply good_braces
      | apply good_parens
      | apply good_app ].

  (* wf is needed for the NOP code range only *)
  Lemma good_all :
    (forall c nx is ss, stmt fl2 c nx is ss -> wf_prog is = true -> good (in_def c) ss) /\
    (forall c nx i ts, iftail fl2 c nx i ts -> wf i = true -> good (in_def c) ts) /\
    (forall c nx p ss, seq fl2 c nx p ss -> wf_prog p = true -> good (in_def c) ss).
  Proof.
    apply spells_mutind; intros; rewrite ?in_def_sub in *; wfs; try solve [gd].
    - (* nop *) apply good_leaf; [|gd]. apply nop_name_leaf.
      match goal with H : wf (INop _ _) = true |- _ => cbn [wf] in H; apply andb_prop in H as [A B] end.
      apply Nat.leb_le in A. apply Nat.ltb_lt in B. lia.
    - (* pushp *) match goal with H : push_name _ |- _ => destruct H as [->| ->] end; gd.
    - (* setvar *) apply good_leaf; [reflexivity|]. apply good_leaf; [apply leaf_alnum; assumption|].
      apply good_leaf; [|apply good_nil]. apply leaf_digits. eapply sp_num_digs; eassumption.
    - apply good_leaf; [|apply good_nil]. apply leaf_at. apply isalnum_ascii. assumption.
    - apply good_leaf; [|apply good_nil]. apply leaf_at_hash. apply isalnum_ascii. assumption.
    - match goal with H : try_name _ |- _ => destruct H as [->| ->] end; gd.
    - match goal with H : try_name _ |- _ => destruct H as [->| ->] end; gd.
    - match goal with H : try_name _ |- _ => destruct H as [->| ->] end; gd.
    - match goal with H : try_name _ |- _ => destruct H as [->| ->] end; gd.
    - match goal with H : try_name _ |- _ => destruct H as [->| ->] end; gd.
    - (* def, braces *)
      assert (G : good (in_def c) sb).
      { destruct c; [apply (good_weaken true)| |]; apply H3; assumption. }
      gd.
    - (* def, END_DEF *)
      cbn [in_def]. apply good_leaf; [leafp|]. apply good_leaf; [leafp|]. apply good_enddef.
      apply (good_weaken true). apply H2. assumption.
  Qed.

  Definition good_stmt := proj1 good_all.
  Definition good_iftail := proj1 (proj2 good_all).
  Definition good_seq := proj2 (proj2 good_all).
End Invariants.

(* ====================================================================================== *)
(* Part F: the statement loops over a run of statements                                     *)
(* ====================================================================================== *)

Lemma skipn_app_len : forall (A : Type) (a b : list A), skipn (List.length a) (a ++ b) = b.
Proof. induction a; intros; [reflexivity|]. cbn [List.length app skipn]. apply IHa. Qed.

Lemma skipn_stmt : forall (A : Type) (h : A) ss l', skipn (S (List.length ss)) (h :: ss ++ l') = l'.
Proof. intros. cbn [skipn]. apply skipn_app_len. Qed.

Lemma headb_spec : forall h, headb h = true ->
  is_comment h = false /\ mem h term_syms = false /\ leafb h = true.
Proof.
  intros h H. unfold headb in H. apply andb_prop in H as [H H3]. apply andb_prop in H as [H1 H2].
  apply negb_true_iff in H1, H2. auto.
Qed.
Lemma not_term : forall h t, mem h term_syms = false -> In t term_syms -> String.eqb h t = false.
Proof.
  intros h t H I. destruct (String.eqb h t) eqn:E; [|reflexivity]. apply String.eqb_eq in E. subst t.
  assert (K : mem h term_syms = true); [|congruence].
  unfold mem. apply existsb_exists. exists h. split; [exact I|apply String.eqb_refl].
Qed.
Ltac nt H := rewrite ?(not_term _ _ H) by (cbn; tauto).

Section Run.
  Variable pn : string -> list string -> res (nat * bytes).

  (* what the loops need to know about the first symbol of a statement *)
  Definition head_ok (c : ctx) (h : string) : Prop :=
    headb h = true /\
    (c = DefDirect -> is_comment (defpre c h) = false /\ String.eqb (defpre c h) "OP_DEF" = false /\
                      mem (defpre c h) ["}"; "END_DEF"] = false).

  (* [run c l r code k]: from the symbols l, statements are parsed one after the other (k symbols in
     all, producing code) and r remains *)
  Inductive run (c : ctx) : list string -> list string -> bytes -> nat -> Prop :=
  | run_nil : forall r, run c r r [] 0
  | run_step : forall h ss l' r code code' k,
      head_ok c h -> pn (defpre c h) ((h :: ss) ++ l') = Ok (S (List.length ss), code) ->
      run c l' r code' k -> run c ((h :: ss) ++ l') r (code ++ code') (S (List.length ss) + k).

  Lemma run_length : forall c l r code k, run c l r code k -> List.length l = (k + List.length r)%nat.
  Proof.
    induction 1; [reflexivity|]. rewrite app_length, IHrun. cbn [List.length]. lia.
  Qed.

  Lemma defpre_id : forall c h, c <> DefDirect -> defpre c h = h.
  Proof. intros [] h H; try reflexivity. congruence. Qed.

  (* assemble's loop *)
  Lemma asm_loop_run : forall c l code k, run c l [] code k -> c <> DefDirect ->
    forall n, (List.length l <= n)%nat -> asm_loop pn n l = Ok code.
  Proof.
    intros c l code k R C. remember [] as r eqn:Er. induction R as [r|h ss l' r code code' k Hh P R IH]; intros n L.
    - subst r. destruct n; reflexivity.
    - rewrite app_length in L. cbn [List.length] in L. destruct n as [|n']; [lia|].
      cbn [app asm_loop]. rewrite (defpre_id c h C) in P. cbn [app] in P. rewrite P. cbn [rbind].
      rewrite skipn_stmt.
      rewrite (IH Er) by lia. reflexivity.
  Qed.

  (* parse_else / parse_except / parse_loop *)
  Lemma body_loop_run : forall terms forbid,
    (forall h, mem h term_syms = false -> mem h terms = false /\ mem h forbid = false) ->
    forall c l r code k, run c l r code k -> c <> DefDirect ->
    forall n idx i code', (List.length l <= n)%nat ->
    (forall n', (List.length r <= n')%nat -> body_loop pn terms forbid n' (idx + k) r = Ok (i, code')) ->
    body_loop pn terms forbid n idx l = Ok (i, code ++ code').
  Proof.
    intros terms forbid T c l r code k R C.
    induction R as [r|h ss l' r code code2 k Hh P R IH]; intros n idx i code' L F.
    - rewrite Nat.add_0_r in F. apply F. exact L.
    - rewrite app_length in L. cbn [List.length] in L. destruct n as [|n']; [lia|].
      destruct Hh as [Hh _]. destruct (headb_spec h Hh) as (_ & M & _). destruct (T h M) as [T1 T2].
      cbn [app body_loop]. rewrite T1, T2. rewrite (defpre_id c h C) in P. cbn [app] in P. rewrite P. cbn [rbind].
      rewrite skipn_stmt.
      rewrite (IH n' (idx + S (List.length ss))%nat i code') by (try lia; intros; rewrite <- Nat.add_assoc; apply F; assumption).
      cbn [rbind]. rewrite app_assoc. reflexivity.
  Qed.

  (* parse_if *)
  Lemma if_loop_run : forall c l r code k, run c l r code k -> c <> DefDirect ->
    forall n idx i code' e, (List.length l <= n)%nat ->
    (forall n', (List.length r <= n')%nat -> if_loop pn n' (idx + k) r = Ok (i, code', e)) ->
    if_loop pn n idx l = Ok (i, code ++ code', e).
  Proof.
    intros c l r code k R C.
    induction R as [r|h ss l' r code code2 k Hh P R IH]; intros n idx i code' e L F.
    - rewrite Nat.add_0_r in F. apply F. exact L.
    - rewrite app_length in L. cbn [List.length] in L. destruct n as [|n']; [lia|].
      destruct Hh as [Hh _]. destruct (headb_spec h Hh) as (_ & M & _).
      cbn [app if_loop]. nt M. rewrite (defpre_id c h C) in P. cbn [app] in P. rewrite P. cbn [rbind].
      rewrite skipn_stmt.
      rewrite (IH n' (idx + S (List.length ss))%nat i code' e) by (try lia; intros; rewrite <- Nat.add_assoc; apply F; assumption).
      cbn [rbind]. rewrite app_assoc. reflexivity.
  Qed.

  (* parse_try *)
  Lemma try_loop_run : forall c l r code k, run c l r code k -> c <> DefDirect ->
    forall n idx i code' e, (List.length l <= n)%nat ->
    (forall n', (List.length r <= n')%nat -> try_loop pn n' (idx + k) r = Ok (i, code', e)) ->
    try_loop pn n idx l = Ok (i, code ++ code', e).
  Proof.
    intros c l r code k R C.
    induction R as [r|h ss l' r code code2 k Hh P R IH]; intros n idx i code' e L F.
    - rewrite Nat.add_0_r in F. apply F. exact L.
    - rewrite app_length in L. cbn [List.length] in L. destruct n as [|n']; [lia|].
      destruct Hh as [Hh _]. destruct (headb_spec h Hh) as (_ & M & _).
      cbn [app try_loop]. nt M. rewrite (defpre_id c h C) in P. cbn [app] in P. rewrite P. cbn [rbind].
      rewrite skipn_stmt.
      rewrite (IH n' (idx + S (List.length ss))%nat i code' e) by (try lia; intros; rewrite <- Nat.add_assoc; apply F; assumption).
      cbn [rbind]. rewrite app_assoc. reflexivity.
  Qed.

  (* parse_def *)
  Lemma def_loop_run : forall l r code k, run DefDirect l r code k ->
    forall n idx sidx code', (List.length l <= n)%nat -> (idx + k <= sidx)%nat ->
    (forall n', (List.length r <= n')%nat -> def_loop pn n' (idx + k) sidx r = Ok code') ->
    def_loop pn n idx sidx l = Ok (code ++ code').
  Proof.
    intros l r code k R.
    induction R as [r|h ss l' r code code2 k Hh P R IH]; intros n idx sidx code' L B F.
    - rewrite Nat.add_0_r in F. apply F. exact L.
    - rewrite app_length in L. cbn [List.length] in L. destruct n as [|n']; [lia|].
      destruct Hh as [Hh Hd]. destruct (headb_spec h Hh) as (Hc & _ & _).
      destruct (Hd eq_refl) as (_ & D1 & D2).
      cbn [app def_loop]. rewrite (proj2 (Nat.ltb_ge _ _)) by lia. rewrite Hc.
      cbn [defpre] in P, D1, D2. rewrite D1, D2. cbn [app] in P. rewrite P. cbn [rbind].
      rewrite skipn_stmt.
      rewrite (IH n' (idx + S (List.length ss))%nat sidx code') by (try lia; intros; rewrite <- Nat.add_assoc; apply F; assumption).
      cbn [rbind]. rewrite app_assoc. reflexivity.
  Qed.
End Run.

(* ====================================================================================== *)
(* Part G: the block parsers on well-formed blocks                                          *)
(* ====================================================================================== *)

Lemma mem_mid : forall x a b, mem x (a ++ x :: b) = true.
Proof. intros. rewrite mem_app. unfold mem at 2. cbn [existsb]. rewrite String.eqb_refl, orb_true_r. reflexivity. Qed.
Lemma braces_app : forall sb r, braces sb ++ r = "{" :: sb ++ "}" :: r.
Proof. intros. unfold braces. cbn [app]. rewrite <- app_assoc. reflexivity. Qed.
Lemma length_braces : forall sb, List.length (braces sb) = (List.length sb + 2)%nat.
Proof. intros. unfold braces. cbn [List.length]. rewrite app_length. cbn [List.length]. lia. Qed.
Lemma len2_r_ok : forall code, fits2 code = true -> len2_r code = Ok (len2 code).
Proof. intros code H. unfold len2_r. unfold fits2 in H. rewrite H. reflexivity. Qed.

Section Blocks.
  Variable pn : string -> list string -> res (nat * bytes).

  Lemma run_hd : forall c l r code k, run pn c l r code k ->
    (l = r /\ k = 0%nat) \/ (exists h t, l = h :: t /\ headb h = true).
  Proof.
    intros c l r code k [r'|h ss l' r' c1 c2 k' [Hh _] _ _]; [left; auto|right].
    exists h, (ss ++ l'). split; [reflexivity|exact Hh].
  Qed.

  Lemma run_hd_nb : forall c l e r code k, run pn c l (e :: r) code k -> String.eqb e "{" = false ->
    exists s1 t, l = s1 :: t /\ String.eqb s1 "{" = false.
  Proof.
    intros c l e r code k R E. destruct (run_hd _ _ _ _ _ R) as [[-> _]|(h & t & -> & H)].
    - eauto.
    - exists h, t. split; [reflexivity|]. destruct (headb_spec h H) as (_ & M & _). nt M. reflexivity.
  Qed.

  (* conditions on the terminator sets of body_loop *)
  Definition tsets (terms forbid : list string) : Prop :=
    forall h, mem h term_syms = false -> mem h terms = false /\ mem h forbid = false.
  Lemma tsets_else : tsets ["}"; "END_IF"] [].
  Proof. intros h M. unfold mem. cbn [existsb]. nt M. split; reflexivity. Qed.
  Lemma tsets_except : tsets ["}"; "END_EXCEPT"] ["EXCEPT"].
  Proof. intros h M. unfold mem. cbn [existsb]. nt M. split; reflexivity. Qed.
  Lemma tsets_loop : tsets ["}"; "END_LOOP"] [].
  Proof. intros h M. unfold mem. cbn [existsb]. nt M. split; reflexivity. Qed.

  Lemma body_loop_term : forall terms forbid n idx t r, mem t terms = true -> (1 <= n)%nat ->
    body_loop pn terms forbid n idx (t :: r) = Ok (S idx, []).
  Proof. intros terms forbid [|n] idx t r M L; [lia|]. cbn [body_loop]. rewrite M. reflexivity. Qed.

  (* "{" body "}" *)
  Lemma body_braces : forall terms forbid c sb r code, tsets terms forbid -> mem "}" terms = true ->
    c <> DefDirect -> run pn c (sb ++ "}" :: r) ("}" :: r) code (List.length sb) ->
    forall kw ends,
    block_start ends (kw :: braces sb ++ r) = Ok 2%nat /\
    body_loop pn terms forbid (List.length (kw :: braces sb ++ r)) 2 (skipn 2 (kw :: braces sb ++ r))
      = Ok ((List.length sb + 3)%nat, code).
  Proof.
    intros terms forbid c sb r code T M C R kw ends. rewrite braces_app. split.
    - cbn [block_start String.eqb Ascii.eqb Bool.eqb]. change ("{" :: sb ++ "}" :: r) with (["{"] ++ sb ++ "}" :: r).
      rewrite app_assoc, mem_mid. reflexivity.
    - cbn [skipn]. rewrite <- (app_nil_r code).
      apply (body_loop_run pn terms forbid T c _ _ _ _ R C).
      + cbn [List.length]. lia.
      + intros n' L. rewrite body_loop_term by (try assumption; cbn [List.length] in L; lia). f_equal. f_equal. lia.
  Qed.

  (* body END_x *)
  Lemma body_ended : forall terms forbid c sb e r code, tsets terms forbid -> mem e terms = true ->
    String.eqb e "{" = false ->
    c <> DefDirect -> run pn c (sb ++ e :: r) (e :: r) code (List.length sb) ->
    forall kw ends, mem e ends = true ->
    block_start ends (kw :: sb ++ e :: r) = Ok 1%nat /\
    body_loop pn terms forbid (List.length (kw :: sb ++ e :: r)) 1 (skipn 1 (kw :: sb ++ e :: r))
      = Ok ((List.length sb + 2)%nat, code).
  Proof.
    intros terms forbid c sb e r code T M E C R kw ends I. split.
    - destruct (run_hd_nb _ _ _ _ _ _ R E) as (s1 & t & Q & N).
      pose proof (mem_mid e sb r) as K. rewrite Q in *. cbn [block_start]. rewrite N.
      replace (existsb (fun e0 => mem e0 (s1 :: t)) ends) with true; [reflexivity|].
      symmetry. apply existsb_exists. exists e. split; [apply mem_In; exact I|exact K].
    - cbn [skipn]. rewrite <- (app_nil_r code).
      apply (body_loop_run pn terms forbid T c _ _ _ _ R C).
      + cbn [List.length]. lia.
      + intros n' L. rewrite body_loop_term by (try assumption; cbn [List.length] in L; lia). f_equal. f_equal. lia.
  Qed.

  (* ELSE / EXCEPT clauses *)
  Lemma clause_braces : forall ends terms forbid c sb r code, tsets terms forbid -> mem "}" terms = true ->
    c <> DefDirect -> run pn c (sb ++ "}" :: r) ("}" :: r) code (List.length sb) -> fits2 code = true ->
    forall kw, parse_clause pn ends terms forbid (kw :: braces sb ++ r)
               = Ok ((List.length sb + 3)%nat, len2 code ++ code).
  Proof.
    intros ends terms forbid c sb r code T M C R F kw.
    destruct (body_braces terms forbid c sb r code T M C R kw ends) as [A B].
    unfold parse_clause. rewrite A. cbn [rbind]. rewrite B. cbn [rbind]. rewrite len2_r_ok by exact F. reflexivity.
  Qed.
  Lemma clause_ended : forall ends terms forbid c sb e r code, tsets terms forbid -> mem e terms = true ->
    String.eqb e "{" = false -> mem e ends = true ->
    c <> DefDirect -> run pn c (sb ++ e :: r) (e :: r) code (List.length sb) -> fits2 code = true ->
    forall kw, parse_clause pn ends terms forbid (kw :: sb ++ e :: r)
               = Ok ((List.length sb + 2)%nat, len2 code ++ code).
  Proof.
    intros ends terms forbid c sb e r code T M E I C R F kw.
    destruct (body_ended terms forbid c sb e r code T M E C R kw ends I) as [A B].
    unfold parse_clause. rewrite A. cbn [rbind]. rewrite B. cbn [rbind]. rewrite len2_r_ok by exact F. reflexivity.
  Qed.

  (* LOOP *)
  Lemma loop_braces : forall c sb r code,
    c <> DefDirect -> run pn c (sb ++ "}" :: r) ("}" :: r) code (List.length sb) -> fits2 code = true ->
    forall kw, parse_loop pn (kw :: braces sb ++ r)
               = Ok ((List.length sb + 3)%nat, opcode_byte O_LOOP :: len2 code ++ code).
  Proof.
    intros c sb r code C R F kw.
    destruct (body_braces _ _ c sb r code tsets_loop eq_refl C R kw ["END_LOOP"]) as [A B].
    unfold parse_loop. rewrite A. cbn [rbind]. rewrite B. cbn [rbind]. rewrite len2_r_ok by exact F. reflexivity.
  Qed.
  Lemma loop_ended : forall c sb r code,
    c <> DefDirect -> run pn c (sb ++ "END_LOOP" :: r) ("END_LOOP" :: r) code (List.length sb) -> fits2 code = true ->
    forall kw, parse_loop pn (kw :: sb ++ "END_LOOP" :: r)
               = Ok ((List.length sb + 2)%nat, opcode_byte O_LOOP :: len2 code ++ code).
  Proof.
    intros c sb r code C R F kw.
    destruct (body_ended _ _ c sb "END_LOOP" r code tsets_loop eq_refl eq_refl C R kw ["END_LOOP"] eq_refl) as [A B].
    unfold parse_loop. rewrite A. cbn [rbind]. rewrite B. cbn [rbind]. rewrite len2_r_ok by exact F. reflexivity.
  Qed.
End Blocks.

Definition if_rest (pn : string -> list string -> res (nat * bytes)) (h : nat) (hc : bytes)
  (symbols : list string) : res (nat * bytes) :=
  rbind (block_start ["END_IF"] symbols) (fun start =>
  rbind (if_loop pn (List.length symbols) start (skipn start symbols)) (fun '(i, code, e) =>
  rbind (len2_r code) (fun l =>
    let o := match e with Some _ => O_IF_ELSE | None => O_IF end in
    let parts := match e with Some p => p | None => [] end in
    Ok ((i + h)%nat, hc ++ opcode_byte o :: l ++ code ++ parts)))).

Lemma index_of_mid : forall x a b, mem x a = false -> index_of x (a ++ x :: b) = Some (List.length a).
Proof.
  induction a as [|y a IH]; intros b H.
  - cbn [app index_of]. rewrite String.eqb_refl. reflexivity.
  - unfold mem in H. cbn [existsb] in H. apply orb_false_elim in H as [H1 H2].
    cbn [app index_of List.length]. rewrite String.eqb_sym, H1. rewrite IH by exact H2. reflexivity.
Qed.

Section Blocks2.
  Variable asm : list string -> res bytes.
  Variable pn : string -> list string -> res (nat * bytes).

  Lemma bs_braces : forall ends kw sb r, block_start ends (kw :: braces sb ++ r) = Ok 2%nat.
  Proof.
    intros. rewrite braces_app. cbn [block_start String.eqb Ascii.eqb Bool.eqb].
    change ("{" :: sb ++ "}" :: r) with (["{"] ++ sb ++ "}" :: r). rewrite app_assoc, mem_mid. reflexivity.
  Qed.
  Lemma bs_ended : forall ends kw l e, (exists s1 t, l = s1 :: t /\ String.eqb s1 "{" = false) ->
    mem e ends = true -> mem e l = true -> block_start ends (kw :: l) = Ok 1%nat.
  Proof.
    intros ends kw l e (s1 & t & -> & N) I M. cbn [block_start]. rewrite N.
    replace (existsb (fun e0 => mem e0 (s1 :: t)) ends) with true; [reflexivity|].
    symmetry. apply existsb_exists. exists e. split; [apply mem_In; exact I|exact M].
  Qed.

  Lemma parse_if_nohoist : forall kw s1 t, String.eqb s1 "(" = false ->
    parse_if asm pn (kw :: s1 :: t) = if_rest pn 0 [] (kw :: s1 :: t).
  Proof. intros kw s1 t H. unfold parse_if, if_rest. rewrite H. reflexivity. Qed.

  Lemma firstn_app_len : forall (A : Type) (a b : list A), firstn (List.length a) (a ++ b) = a.
  Proof. induction a; intros; [reflexivity|]. cbn [List.length app firstn]. rewrite IHa. reflexivity. Qed.

  Lemma parse_if_hoist : forall kw sc rest,
    String.eqb kw "(" = false -> String.eqb kw ")" = false -> (forall k, scan "(" ")" sc k = Some k) ->
    parse_if asm pn (kw :: "(" :: sc ++ ")" :: rest) =
    rbind (asm sc) (fun hc => if_rest pn (List.length sc + 2) hc (kw :: rest)).
  Proof.
    intros kw sc rest K1 K2 B. unfold parse_if.
    change (String.eqb "(" "(") with true. cbv iota.
    assert (F : find_matching_brace (kw :: "(" :: sc ++ ")" :: rest) "(" ")" = Some (List.length sc + 2)%nat).
    { unfold find_matching_brace. cbn [fmb_go]. rewrite K2, K1. cbn [String.eqb Ascii.eqb Bool.eqb].
      rewrite (fmb_balanced "(" ")" sc rest 2 B). f_equal. lia. }
    rewrite F. cbn [of_opt rbind].
    replace (List.length sc + 2 - 2)%nat with (List.length sc) by lia.
    cbn [skipn]. rewrite firstn_app_len.
    destruct (asm sc) as [hc| |]; try reflexivity. cbn [rbind].
    replace (skipn (List.length sc + 2) ("(" :: sc ++ ")" :: rest)) with rest; [reflexivity|].
    replace (List.length sc + 2)%nat with (S (List.length sc + 1)) by lia. cbn [skipn].
    replace (List.length sc + 1)%nat with (List.length (sc ++ [")"])) by (rewrite app_length; reflexivity).
    change (sc ++ ")" :: rest) with (sc ++ [")"] ++ rest). rewrite app_assoc, skipn_app_len. reflexivity.
  Qed.

  (* the last iterations of the loop of parse_if *)
  Lemma if_loop_close : forall n idx r, (1 <= n)%nat -> hd_error r <> Some "ELSE" ->
    if_loop pn n idx ("}" :: r) = Ok (S idx, [], None).
  Proof.
    intros [|n] idx r L H; [lia|]. cbn [if_loop String.eqb Ascii.eqb Bool.eqb]. destruct r as [|e r']; [reflexivity|].
    destruct (String.eqb e "ELSE") eqn:E; [|reflexivity]. apply String.eqb_eq in E. subst e. exfalso. apply H. reflexivity.
  Qed.
  Lemma if_loop_endif : forall n idx r, (1 <= n)%nat -> if_loop pn n idx ("END_IF" :: r) = Ok (S idx, [], None).
  Proof. intros [|n] idx r L; [lia|]. reflexivity. Qed.
  Lemma if_loop_close_else : forall n idx R adv parts, (1 <= n)%nat ->
    parse_else pn ("ELSE" :: R) = Ok (adv, parts) ->
    if_loop pn n idx ("}" :: "ELSE" :: R) = Ok ((S idx + adv)%nat, [], Some parts).
  Proof.
    intros [|n] idx R adv parts L H; [lia|]. cbn [if_loop String.eqb Ascii.eqb Bool.eqb]. rewrite H. reflexivity.
  Qed.
  Lemma if_loop_else : forall n idx R adv parts, (1 <= n)%nat ->
    parse_else pn ("ELSE" :: R) = Ok (adv, parts) ->
    if_loop pn n idx ("ELSE" :: R) = Ok ((idx + adv)%nat, [], Some parts).
  Proof.
    intros [|n] idx R adv parts L H; [lia|]. cbn [if_loop String.eqb Ascii.eqb Bool.eqb]. rewrite H. reflexivity.
  Qed.

  Section IfForms.
    Variable c : ctx.
    Hypothesis C : c <> DefDirect.
    Variables (h : nat) (hc : bytes) (kw : string).

    Lemma if_b : forall sb r code,
      run pn c (sb ++ "}" :: r) ("}" :: r) code (List.length sb) -> fits2 code = true ->
      hd_error r <> Some "ELSE" ->
      if_rest pn h hc (kw :: braces sb ++ r) =
      Ok ((List.length sb + 3 + h)%nat, hc ++ opcode_byte O_IF :: len2 code ++ code).
    Proof.
      intros sb r code R F N. unfold if_rest. rewrite bs_braces. cbn [rbind].
      rewrite braces_app. cbn [skipn].
      rewrite (if_loop_run pn c _ _ _ _ R C _ 2%nat (S (2 + List.length sb)) [] None).
      - cbn [rbind]. rewrite app_nil_r, len2_r_ok by exact F. cbn [rbind]. rewrite app_nil_r. do 2 f_equal. lia.
      - cbn [List.length]. lia.
      - intros n' L. apply if_loop_close; [cbn [List.length] in L; lia|exact N].
    Qed.

    Lemma if_e : forall sb r code,
      run pn c (sb ++ "END_IF" :: r) ("END_IF" :: r) code (List.length sb) -> fits2 code = true ->
      if_rest pn h hc (kw :: sb ++ "END_IF" :: r) =
      Ok ((List.length sb + 2 + h)%nat, hc ++ opcode_byte O_IF :: len2 code ++ code).
    Proof.
      intros sb r code R F. unfold if_rest.
      rewrite (bs_ended ["END_IF"] kw _ "END_IF" (run_hd_nb pn _ _ _ _ _ _ R eq_refl) eq_refl (mem_mid _ _ _)).
      cbn [rbind skipn].
      rewrite (if_loop_run pn c _ _ _ _ R C _ 1%nat (S (1 + List.length sb)) [] None).
      - cbn [rbind]. rewrite app_nil_r, len2_r_ok by exact F. cbn [rbind]. rewrite app_nil_r. do 2 f_equal. lia.
      - cbn [List.length]. lia.
      - intros n' L. apply if_loop_endif. cbn [List.length] in L; lia.
    Qed.

    Lemma ifelse_b : forall sb1 R code1 adv parts,
      run pn c (sb1 ++ "}" :: "ELSE" :: R) ("}" :: "ELSE" :: R) code1 (List.length sb1) -> fits2 code1 = true ->
      parse_else pn ("ELSE" :: R) = Ok (adv, parts) ->
      if_rest pn h hc (kw :: braces sb1 ++ "ELSE" :: R) =
      Ok ((List.length sb1 + 3 + adv + h)%nat, hc ++ opcode_byte O_IF_ELSE :: len2 code1 ++ code1 ++ parts).
    Proof.
      intros sb1 R code1 adv parts R1 F P. unfold if_rest. rewrite bs_braces. cbn [rbind].
      rewrite braces_app. cbn [skipn].
      rewrite (if_loop_run pn c _ _ _ _ R1 C _ 2%nat (S (2 + List.length sb1) + adv)%nat [] (Some parts)).
      - cbn [rbind]. rewrite app_nil_r, len2_r_ok by exact F. cbn [rbind]. do 2 f_equal. lia.
      - cbn [List.length]. lia.
      - intros n' L. apply if_loop_close_else; [cbn [List.length] in L; lia|exact P].
    Qed.

    Lemma ifelse_e : forall sb1 R code1 adv parts,
      run pn c (sb1 ++ "ELSE" :: R) ("ELSE" :: R) code1 (List.length sb1) -> fits2 code1 = true ->
      mem "END_IF" R = true ->
      parse_else pn ("ELSE" :: R) = Ok (adv, parts) ->
      if_rest pn h hc (kw :: sb1 ++ "ELSE" :: R) =
      Ok ((List.length sb1 + 1 + adv + h)%nat, hc ++ opcode_byte O_IF_ELSE :: len2 code1 ++ code1 ++ parts).
    Proof.
      intros sb1 R code1 adv parts R1 F M P. unfold if_rest.
      rewrite (bs_ended ["END_IF"] kw _ "END_IF" (run_hd_nb pn _ _ _ _ _ _ R1 eq_refl) eq_refl).
      2:{ rewrite mem_app. unfold mem at 2. cbn [existsb]. fold (mem "END_IF" R). rewrite M, !orb_true_r. reflexivity. }
      cbn [rbind skipn].
      rewrite (if_loop_run pn c _ _ _ _ R1 C _ 1%nat (1 + List.length sb1 + adv)%nat [] (Some parts)).
      - cbn [rbind]. rewrite app_nil_r, len2_r_ok by exact F. cbn [rbind]. do 2 f_equal. lia.
      - cbn [List.length]. lia.
      - intros n' L. apply if_loop_else; [cbn [List.length] in L; lia|exact P].
    Qed.
  End IfForms.

  (* the last iterations of the loop of parse_try *)
  Lemma try_loop_close : forall n idx r, (1 <= n)%nat -> hd_error r <> Some "EXCEPT" ->
    try_loop pn n idx ("}" :: r) = Ok (S idx, [], None).
  Proof.
    intros [|n] idx r L H; [lia|]. cbn [try_loop String.eqb Ascii.eqb Bool.eqb]. destruct r as [|e [|e2 r']]; try reflexivity.
    destruct (String.eqb e "EXCEPT") eqn:E; [|reflexivity]. apply String.eqb_eq in E. subst e. exfalso. apply H. reflexivity.
  Qed.
  Lemma try_loop_close_except : forall n idx R adv parts, (1 <= n)%nat -> R <> [] ->
    parse_except pn ("EXCEPT" :: R) = Ok (adv, parts) ->
    try_loop pn n idx ("}" :: "EXCEPT" :: R) = Ok ((S idx + adv)%nat, [], Some parts).
  Proof.
    intros [|n] idx [|x R] adv parts L N H; [lia|lia|congruence|].
    cbn [try_loop String.eqb Ascii.eqb Bool.eqb]. rewrite H. reflexivity.
  Qed.
  Lemma try_loop_except : forall n idx R adv parts, (1 <= n)%nat ->
    parse_except pn ("EXCEPT" :: R) = Ok (adv, parts) ->
    try_loop pn n idx ("EXCEPT" :: R) = Ok ((idx + adv)%nat, [], Some parts).
  Proof.
    intros [|n] idx R adv parts L H; [lia|]. cbn [try_loop String.eqb Ascii.eqb Bool.eqb]. rewrite H. reflexivity.
  Qed.

  Section TryForms.
    Variable c : ctx.
    Hypothesis C : c <> DefDirect.
    Variable kw : string.

    Lemma try_b : forall sb r code,
      run pn c (sb ++ "}" :: r) ("}" :: r) code (List.length sb) -> fits2 code = true ->
      hd_error r <> Some "EXCEPT" ->
      parse_try pn (kw :: braces sb ++ r) =
      Ok ((List.length sb + 3)%nat, opcode_byte O_TRY_EXCEPT :: len2 code ++ code ++ [x00; x00]).
    Proof.
      intros sb r code R F N. unfold parse_try. rewrite bs_braces. cbn [rbind].
      rewrite braces_app. cbn [skipn].
      rewrite (try_loop_run pn c _ _ _ _ R C _ 2%nat (S (2 + List.length sb)) [] None).
      - cbn [rbind]. rewrite app_nil_r, len2_r_ok by exact F. cbn [rbind]. do 2 f_equal. lia.
      - cbn [List.length]. lia.
      - intros n' L. apply try_loop_close; [cbn [List.length] in L; lia|exact N].
    Qed.

    Lemma try_bx : forall sb1 R code1 adv parts, R <> [] ->
      run pn c (sb1 ++ "}" :: "EXCEPT" :: R) ("}" :: "EXCEPT" :: R) code1 (List.length sb1) ->
      fits2 code1 = true -> parse_except pn ("EXCEPT" :: R) = Ok (adv, parts) ->
      parse_try pn (kw :: braces sb1 ++ "EXCEPT" :: R) =
      Ok ((List.length sb1 + 3 + adv)%nat, opcode_byte O_TRY_EXCEPT :: len2 code1 ++ code1 ++ parts).
    Proof.
      intros sb1 R code1 adv parts NE R1 F P. unfold parse_try. rewrite bs_braces. cbn [rbind].
      rewrite braces_app. cbn [skipn].
      rewrite (try_loop_run pn c _ _ _ _ R1 C _ 2%nat (S (2 + List.length sb1) + adv)%nat [] (Some parts)).
      - cbn [rbind]. rewrite app_nil_r, len2_r_ok by exact F. cbn [rbind]. do 2 f_equal. lia.
      - cbn [List.length]. lia.
      - intros n' L. apply try_loop_close_except; [cbn [List.length] in L; lia|exact NE|exact P].
    Qed.

    Lemma try_ex : forall sb1 R code1 adv parts,
      run pn c (sb1 ++ "EXCEPT" :: R) ("EXCEPT" :: R) code1 (List.length sb1) ->
      fits2 code1 = true -> parse_except pn ("EXCEPT" :: R) = Ok (adv, parts) ->
      parse_try pn (kw :: sb1 ++ "EXCEPT" :: R) =
      Ok ((List.length sb1 + 1 + adv)%nat, opcode_byte O_TRY_EXCEPT :: len2 code1 ++ code1 ++ parts).
    Proof.
      intros sb1 R code1 adv parts R1 F P. unfold parse_try.
      rewrite (bs_ended ["END_TRY"; "EXCEPT"] kw _ "EXCEPT" (run_hd_nb pn _ _ _ _ _ _ R1 eq_refl) eq_refl (mem_mid _ _ _)).
      cbn [rbind skipn].
      rewrite (try_loop_run pn c _ _ _ _ R1 C _ 1%nat (1 + List.length sb1 + adv)%nat [] (Some parts)).
      - cbn [rbind]. rewrite app_nil_r, len2_r_ok by exact F. cbn [rbind]. do 2 f_equal. lia.
      - cbn [List.length]. lia.
      - intros n' L. apply try_loop_except; [cbn [List.length] in L; lia|exact P].
    Qed.
  End TryForms.

  (* DEF *)
  Lemma def_loop_end : forall n sidx t r, (1 <= n)%nat -> In t ["}"; "END_DEF"] ->
    def_loop pn n sidx sidx (t :: r) = Ok [].
  Proof.
    intros [|n] sidx t r L I; [lia|]. cbn [def_loop]. rewrite Nat.ltb_irrefl.
    destruct I as [<-|[<-|[]]]; reflexivity.
  Qed.

  Lemma def_braces : forall kw hs h sb r code,
    def_handle hs = Ok h -> (forall k, scan "{" "}" sb k = Some k) ->
    run pn DefDirect (sb ++ "}" :: r) ("}" :: r) code (List.length sb) -> fits2 code = true ->
    parse_def pn (kw :: hs :: braces sb ++ r) =
    Ok ((List.length sb + 4)%nat, opcode_byte O_DEF :: h :: len2 code ++ code).
  Proof.
    intros kw hs h sb r code H B R F. rewrite braces_app. unfold parse_def. rewrite H. cbn [rbind].
    change (String.eqb "{" "{") with true. cbv iota.
    assert (M : mem "}" (kw :: hs :: "{" :: sb ++ "}" :: r) = true).
    { change (kw :: hs :: "{" :: sb ++ "}" :: r) with ([kw; hs; "{"] ++ sb ++ "}" :: r). rewrite app_assoc. apply mem_mid. }
    rewrite M. cbn [skipn]. unfold find_matching_brace. cbn [fmb_go String.eqb Ascii.eqb Bool.eqb].
    rewrite (fmb_balanced "{" "}" sb r 1 B). cbn [of_opt rbind].
    rewrite (def_loop_run pn _ _ _ _ R _ 3%nat _ []).
    - cbn [rbind]. rewrite app_nil_r, len2_r_ok by exact F. cbn [rbind]. do 2 f_equal. lia.
    - cbn [List.length]. lia.
    - lia.
    - intros n' L. replace (3 + List.length sb)%nat with (1 + List.length sb + 2)%nat by lia.
      apply def_loop_end; [cbn [List.length] in L; lia|cbn; tauto].
  Qed.

  Lemma def_ended : forall kw hs h sb r code,
    def_handle hs = Ok h -> String.eqb kw "END_DEF" = false -> String.eqb hs "END_DEF" = false ->
    mem "END_DEF" sb = false ->
    run pn DefDirect (sb ++ "END_DEF" :: r) ("END_DEF" :: r) code (List.length sb) -> fits2 code = true ->
    parse_def pn (kw :: hs :: sb ++ "END_DEF" :: r) =
    Ok ((List.length sb + 3)%nat, opcode_byte O_DEF :: h :: len2 code ++ code).
  Proof.
    intros kw hs h sb r code H K1 K2 M R F.
    destruct (run_hd_nb pn _ _ _ _ _ _ R eq_refl) as (s2 & t & Q & N).
    assert (I : index_of "END_DEF" (kw :: hs :: sb ++ "END_DEF" :: r) = Some (2 + List.length sb)%nat).
    { cbn [index_of]. rewrite K1, K2, index_of_mid by exact M. reflexivity. }
    unfold parse_def. rewrite Q in *. rewrite H. cbn [rbind]. rewrite N, I. cbn [of_opt rbind skipn].
    rewrite <- Q in *.
    rewrite (def_loop_run pn _ _ _ _ R _ 2%nat _ []).
    - cbn [rbind]. rewrite app_nil_r, len2_r_ok by exact F. cbn [rbind]. do 2 f_equal. lia.
    - cbn [List.length]. lia.
    - lia.
    - intros n' L. apply def_loop_end; [cbn [List.length] in L; lia|cbn; tauto].
  Qed.
End Blocks2.

(* ====================================================================================== *)
(* Part H: every spelling assembles to the encoding                                         *)
(* ====================================================================================== *)

Lemma encode_one : forall i, encode [i] = encode1 i.
Proof. intros. unfold encode. cbn [flat_map]. apply app_nil_r. Qed.

Lemma sub_ctx_nd : forall c, sub_ctx c <> DefDirect.
Proof. destruct c; discriminate. Qed.

Lemma hd_error_app : forall (sp r : list string) nx, hd_error r = nx -> hd_error (sp ++ r) = hd_or nx sp.
Proof. intros [|s sp] r nx H; [exact H|reflexivity]. Qed.

Lemma alias_of_at : forall k, alias_of (String "@" k) = None.
Proof. intros k. vm_compute. reflexivity. Qed.

Lemma name_head_ok : forall c o n, spell_name c o n -> (c = DefDirect -> o <> O_DEF) -> head_ok c n.
Proof.
  intros c o n S D. destruct (spell_name_spec c o n S) as (E & Hc & Hh). split; [exact Hh|].
  intros ->. specialize (D eq_refl). split; [exact Hc|].
  destruct (opcode_name_inj_def o _ eq_refl) as (A1 & A2 & A3). split.
  - destruct (String.eqb (defpre DefDirect n) "OP_DEF") eqn:Q; [|reflexivity].
    apply String.eqb_eq in Q. rewrite Q in E. exfalso. apply D. apply A1. rewrite <- E. reflexivity.
  - unfold mem. cbn [existsb]. rewrite orb_false_r.
    destruct (String.eqb (defpre DefDirect n) "}") eqn:Q1.
    { apply String.eqb_eq in Q1. rewrite Q1 in E. exfalso. apply A2. rewrite <- E. reflexivity. }
    destruct (String.eqb (defpre DefDirect n) "END_DEF") eqn:Q2; [|reflexivity].
    apply String.eqb_eq in Q2. rewrite Q2 in E. exfalso. apply A3. rewrite <- E. reflexivity.
Qed.

Lemma plain_head_ok : forall c n, headb n = true -> is_alias n = false ->
  String.eqb n "OP_DEF" = false -> head_ok c n.
Proof.
  intros c n H A D. split; [exact H|]. intros ->. cbn [defpre]. rewrite (is_alias_none n A).
  destruct (headb_spec n H) as (Hc & M & _). split; [exact Hc|]. split; [exact D|].
  unfold mem. cbn [existsb]. nt M. reflexivity.
Qed.

Lemma shape_simple : forall o, simple_op o = false ->
  shape_of o = ShIf \/ shape_of o = ShDef \/ shape_of o = ShLoop.
Proof. destruct o; intros H; try discriminate H; cbn; tauto. Qed.

Lemma simple_by_shape : forall o,
  match shape_of o with ShIf | ShDef | ShLoop => False | _ => True end -> simple_op o = true.
Proof. destruct o; cbn; intros H; try reflexivity; destruct H. Qed.

Lemma digs_not_bracket : forall r, digs r -> String.eqb r "[" = false.
Proof.
  intros [|c r] [N D]; [discriminate N|]. cbn [sall] in D. apply andb_prop in D as [Hc _].
  destruct c as [[] [] [] [] [] [] [] []]; try discriminate Hc; reflexivity.
Qed.

Lemma bad_symbol_spec : forall s, bad_symbol s = false ->
  String.eqb s "!=" = false /\ String.eqb s "~" = false /\ String.eqb s "~!" = false /\
  unmodelled_symbol s = false.
Proof.
  intros s H. unfold bad_symbol in H. apply orb_false_elim in H as [H U].
  unfold mem in H. cbn [existsb] in H. repeat (apply orb_false_elim in H as [? H]). auto.
Qed.

(* parse_comptime is the identity on symbols without "~", "~!", "!=" *)
Lemma comptime_id : forall ct asm syms, existsb bad_symbol syms = false ->
  forall n m, (List.length syms <= n)%nat -> comptime ct asm n m syms = Ok (m, syms).
Proof.
  intros ct asm. induction syms as [|s syms IH]; intros B n m L; [destruct n; reflexivity|].
  cbn [existsb] in B. apply orb_false_elim in B as [B1 B2].
  destruct (bad_symbol_spec s B1) as (E1 & E2 & E3 & _).
  cbn [List.length] in L. destruct n as [|n']; [lia|].
  cbn [comptime]. rewrite E1, E2, E3. cbn [orb]. rewrite (IH B2 n' m) by lia. reflexivity.
Qed.

Lemma bad_unmodelled : forall syms, existsb bad_symbol syms = false -> existsb unmodelled_symbol syms = false.
Proof.
  induction syms as [|s syms IH]; intros B; [reflexivity|]. cbn [existsb] in *.
  apply orb_false_elim in B as [B1 B2]. destruct (bad_symbol_spec s B1) as (_ & _ & _ & U).
  rewrite U, IH by exact B2. reflexivity.
Qed.

Section Main.
  Variable fl2 : Z -> Z.
  Variable ct : bytes -> res (option bytes).
  Variable mtab : macros.
  Notation PN := (fun f => pn_at fl2 ct f mtab).
  Definition ASM (f : nat) (syms : list string) : res bytes := code_of (asm_fuel fl2 ct f mtab syms).
  Definition COMPILE (f : nat) (text : string) : res bytes :=
    rbind (get_symbols text) (fun syms => code_of (asm_fuel fl2 ct f [] syms)).

  Lemma PN_S : forall f, PN (S f) = parse_next fl2 (ASM f) (PN f) mtab (COMPILE f).
  Proof. reflexivity. Qed.

  Lemma ASM_free : forall f sc, existsb bad_symbol sc = false ->
    ASM (S f) sc = asm_loop (PN f) (List.length sc) sc.
  Proof.
    intros f sc B. unfold ASM, code_of. cbn [asm_fuel]. rewrite comptime_id by (try exact B; apply le_n).
    cbn [rbind]. destruct (asm_loop _ _ sc); reflexivity.
  Qed.

  Definition P_stmt (c : ctx) (nx : option string) (is : list instr) (ss : list string) : Prop :=
    wf_prog is = true -> forall f r, (List.length ss <= f)%nat -> hd_error r = nx ->
    exists h t, ss = h :: t /\ head_ok c h /\
                PN f (defpre c h) (ss ++ r) = Ok (List.length ss, encode is).
  Definition P_iftail (c : ctx) (nx : option string) (i : instr) (ts : list string) : Prop :=
    wf i = true -> forall f r h hc kw, (List.length ts <= f)%nat -> hd_error r = nx ->
    (exists s1 t, ts ++ r = s1 :: t /\ String.eqb s1 "(" = false) /\
    if_rest (PN f) h hc (kw :: ts ++ r) = Ok ((S (List.length ts) + h)%nat, hc ++ encode1 i).
  Definition P_seq (c : ctx) (nx : option string) (p : list instr) (sp : list string) : Prop :=
    wf_prog p = true -> forall f r, (List.length sp <= f)%nat -> hd_error r = nx ->
    run (PN f) c (sp ++ r) r (encode p) (List.length sp).

  (* ----- instructions without bodies ----- *)

  Ltac start n rest :=
    intros W f r L Hr; destruct f as [|f']; [cbn [List.length] in L; lia|];
    exists n, rest; split; [reflexivity|].

  Ltac simple_shape S :=
    match goal with
    | |- simple_op ?o = true =>
      destruct (simple_op o) eqn:Q; [reflexivity|];
      destruct (shape_simple o Q) as [Q1|[Q1|Q1]]; rewrite Q1 in S; try discriminate S;
      try (destruct S as [S|S]; discriminate S)
    end.

  Lemma L_op0 : forall c nx o n, spell_name c o n -> shape_of o = ShNone -> P_stmt c nx [IOp0 o] [n].
  Proof.
    intros c nx o n N S. start n (@nil string).
    split. { apply (name_head_ok c o); [exact N|]. intros _ ->. discriminate S. }
    rewrite PN_S, (pn_opcode fl2 _ _ _ _ c n _ o N) by simple_shape S.
    unfold get_args. rewrite S. cbn [rbind]. rewrite encode_one. reflexivity.
  Qed.

  Lemma L_op1 : forall c nx o n b v, spell_name c o n -> is_sh1 (shape_of o) = true -> sp_byte fl2 b v ->
    P_stmt c nx [IOp1 o b] [n; v].
  Proof.
    intros c nx o n b v N S V. start n [v].
    split. { apply (name_head_ok c o); [exact N|]. intros _ ->. discriminate S. }
    assert (SO : simple_op o = true).
    { destruct (simple_op o) eqn:Q; [reflexivity|].
      destruct (shape_simple o Q) as [Q1|[Q1|Q1]]; rewrite Q1 in S; discriminate S. }
    rewrite PN_S, (pn_opcode fl2 _ _ _ _ c n _ o N SO).
    cbn [app tl]. unfold get_args.
    destruct (shape_of o); try discriminate S; unfold args_push0; rewrite (sp_byte_ok fl2 b v V);
      cbn [rbind]; rewrite encode_one; reflexivity.
  Qed.

  Lemma L_nop : forall c nx code cb v, sp_byte fl2 cb v -> P_stmt c nx [INop code cb] [nop_name code; v].
  Proof.
    intros c nx code cb v V. start (nop_name code) [v].
    assert (R : (n_opcodes <= code < 256)%nat).
    { cbn [wf_prog forallb wf] in W. rewrite andb_true_r in W. apply andb_prop in W as [A B].
      apply Nat.leb_le in A. apply Nat.ltb_lt in B. lia. }
    pose proof (nop_chk_at code R) as K. unfold nop_chk in K.
    apply andb_prop in K as [K _]. apply andb_prop in K as [K _]. apply andb_prop in K as [K K4].
    apply andb_prop in K as [K K3]. apply andb_prop in K as [K1 _]. apply negb_true_iff in K3.
    assert (D : String.eqb (nop_name code) "OP_DEF" = false).
    { destruct (nop_name code) as [|c0 cr]; [discriminate K1|]. unfold plainb in K1.
      repeat (apply andb_prop in K1 as [K1 ?]).
      match goal with H : negb (String.eqb _ "OP_DEF") = true |- _ => apply negb_true_iff in H; exact H end. }
    split; [apply plain_head_ok; assumption|].
    rewrite PN_S, (pn_nop fl2 _ _ _ _ c code _ R). cbn [app tl]. unfold args_push0.
    rewrite (sp_byte_ok fl2 cb v V). cbn [rbind]. rewrite encode_one. reflexivity.
  Qed.

  Lemma L_var1 : forall c nx o n v s, spell_name c o n -> shape_of o = ShVar1 \/ shape_of o = ShVar1Int ->
    sp_var1 fl2 v s -> P_stmt c nx [IVar1 o v] [n; s].
  Proof.
    intros c nx o n v s N S V. start n [s].
    split. { apply (name_head_ok c o); [exact N|]. intros _ ->. destruct S as [S|S]; discriminate S. }
    assert (SO : simple_op o = true) by (apply simple_by_shape; destruct S as [S|S]; rewrite S; exact I).
    cbn [wf_prog forallb wf] in W. rewrite andb_true_r in W. apply andb_prop in W as [_ W].
    rewrite PN_S, (pn_opcode fl2 _ _ _ _ c n _ o N SO). cbn [app tl]. unfold get_args.
    destruct S as [S|S]; rewrite S; unfold args_push1; cbn [pick_val rbind];
      rewrite (sp_var1_ok fl2 v s V); cbn [rbind]; unfold len1_r; rewrite W; cbn [rbind check_push_size];
      rewrite encode_one; reflexivity.
  Qed.

  Lemma L_push1_2 : forall c nx n a v s, spell_name c O_PUSH1 n -> sp_size (blen v) a -> sp_var1 fl2 v s ->
    oplike s = false -> P_stmt c nx [IVar1 O_PUSH1 v] [n; a; s].
  Proof.
    intros c nx n a v s N A V O. start n [a; s].
    split. { apply (name_head_ok c O_PUSH1); [exact N|]. intros _; discriminate. }
    cbn [wf_prog forallb wf] in W. rewrite andb_true_r in W. apply andb_prop in W as [_ W].
    rewrite PN_S, (pn_opcode fl2 _ _ _ _ c n _ O_PUSH1 N eq_refl). cbn [app tl]. unfold get_args. cbn [shape_of].
    unfold args_push1. cbn [pick_val]. rewrite O. cbn [rbind].
    rewrite (sp_var1_ok fl2 v s V); cbn [rbind]; unfold len1_r; rewrite W; cbn [rbind].
    rewrite (sp_size_ok v a A); cbn [rbind]. rewrite encode_one. reflexivity.
  Qed.

  Lemma L_push1_1 : forall c t n v s, spell_name c O_PUSH1 n -> sp_var1 fl2 v s -> oplike t = true ->
    P_stmt c (Some t) [IVar1 O_PUSH1 v] [n; s].
  Proof.
    intros c t n v s N V O. start n [s].
    split. { apply (name_head_ok c O_PUSH1); [exact N|]. intros _; discriminate. }
    destruct r as [|t' r']; [discriminate Hr|]. cbn [hd_error] in Hr. injection Hr as ->.
    cbn [wf_prog forallb wf] in W. rewrite andb_true_r in W. apply andb_prop in W as [_ W].
    rewrite PN_S, (pn_opcode fl2 _ _ _ _ c n _ O_PUSH1 N eq_refl). cbn [app tl]. unfold get_args. cbn [shape_of].
    unfold args_push1. cbn [pick_val]. rewrite O. cbn [rbind].
    rewrite (sp_var1_ok fl2 v s V); cbn [rbind]; unfold len1_r; rewrite W; cbn [rbind check_push_size].
    rewrite encode_one. reflexivity.
  Qed.

  Lemma L_push2_2 : forall c nx n a v s, spell_name c O_PUSH2 n -> sp_size (blen v) a -> sp_push2 fl2 v s ->
    oplike s = false -> P_stmt c nx [IPush2 v] [n; a; s].
  Proof.
    intros c nx n a v s N A V O. start n [a; s].
    split. { apply (name_head_ok c O_PUSH2); [exact N|]. intros _; discriminate. }
    cbn [wf_prog forallb wf] in W. rewrite andb_true_r in W.
    rewrite PN_S, (pn_opcode fl2 _ _ _ _ c n _ O_PUSH2 N eq_refl). cbn [app tl]. unfold get_args. cbn [shape_of].
    unfold args_push2. cbn [pick_val]. rewrite O. cbn [rbind].
    rewrite (sp_push2_ok fl2 v s V); cbn [rbind]; unfold len2_r; rewrite W; cbn [rbind].
    rewrite (sp_size_ok v a A); cbn [rbind]. rewrite encode_one. reflexivity.
  Qed.

  Lemma L_push2_1 : forall c t n v s, spell_name c O_PUSH2 n -> sp_push2 fl2 v s -> oplike t = true ->
    P_stmt c (Some t) [IPush2 v] [n; s].
  Proof.
    intros c t n v s N V O. start n [s].
    split. { apply (name_head_ok c O_PUSH2); [exact N|]. intros _; discriminate. }
    destruct r as [|t' r']; [discriminate Hr|]. cbn [hd_error] in Hr. injection Hr as ->.
    cbn [wf_prog forallb wf] in W. rewrite andb_true_r in W.
    rewrite PN_S, (pn_opcode fl2 _ _ _ _ c n _ O_PUSH2 N eq_refl). cbn [app tl]. unfold get_args. cbn [shape_of].
    unfold args_push2. cbn [pick_val]. rewrite O. cbn [rbind].
    rewrite (sp_push2_ok fl2 v s V); cbn [rbind]; unfold len2_r; rewrite W; cbn [rbind check_push_size].
    rewrite encode_one. reflexivity.
  Qed.

  Lemma L_wc : forall c nx n k cb s1 s2, spell_name c O_WRITE_CACHE n -> sp_key k s1 -> sp_count cb s2 ->
    P_stmt c nx [IWriteCache k cb] [n; s1; s2].
  Proof.
    intros c nx n k cb s1 s2 N K Cn. start n [s1; s2].
    split. { apply (name_head_ok c O_WRITE_CACHE); [exact N|]. intros _; discriminate. }
    cbn [wf_prog forallb wf] in W. rewrite andb_true_r in W.
    rewrite PN_S, (pn_opcode fl2 _ _ _ _ c n _ O_WRITE_CACHE N eq_refl). cbn [app tl]. unfold get_args. cbn [shape_of].
    unfold args_write_cache. rewrite (sp_key_ok k s1 K), (sp_count_ok cb s2 Cn). cbn [rbind].
    rewrite W, (proj2 (Z.ltb_lt _ _) (b2z_lt cb)). cbn [andb rbind]. rewrite z2b_b2z, encode_one. reflexivity.
  Qed.

  Lemma L_fix : forall c nx o n v s, spell_name c o n -> sp_xval v s -> P_stmt c nx [IFix o v] [n; s].
  Proof.
    intros c nx o n v s N V. start n [s].
    cbn [wf_prog forallb wf] in W. rewrite andb_true_r in W.
    destruct V as [ch r0 X H]. pose proof (sp_hex_length _ _ H) as Len.
    destruct (shape_of o) eqn:S; cbn [fix_len] in W; try discriminate W;
      apply Z.eqb_eq in W; unfold blen in W;
      (split; [apply (name_head_ok c o); [exact N|]; intros _ ->; discriminate S|]);
      (assert (SO : simple_op o = true) by (apply simple_by_shape; rewrite S; exact I));
      rewrite PN_S, (pn_opcode fl2 _ _ _ _ c n _ o N SO); cbn [app tl]; unfold get_args; rewrite S, encode_one.
    - unfold args_div_float, split_val. cbn [rbind].
      replace (String.length r0) with 8%nat by lia.
      destruct X as [->| ->]; cbn; rewrite (sp_hex_unhex _ _ H); reflexivity.
    - unfold args_merkleval, split_val. cbn [rbind String.length].
      replace (String.length r0) with 64%nat by lia.
      destruct X as [->| ->]; cbn; rewrite (sp_hex_unhex _ _ H); reflexivity.
  Qed.

  Lemma L_swap : forall c nx n a b sa sb, spell_name c O_SWAP n -> sp_index a sa -> sp_index b sb ->
    P_stmt c nx [ISwap a b] [n; sa; sb].
  Proof.
    intros c nx n a b sa sb N A B. start n [sa; sb].
    split. { apply (name_head_ok c O_SWAP); [exact N|]. intros _; discriminate. }
    rewrite PN_S, (pn_opcode fl2 _ _ _ _ c n _ O_SWAP N eq_refl). cbn [app tl]. unfold get_args. cbn [shape_of].
    unfold args_swap. rewrite (sp_index_ok a sa A), (sp_index_ok b sb B). cbn [rbind]. rewrite encode_one. reflexivity.
  Qed.

  Lemma L_ms : forall c nx o n f m k sf sm sk, spell_name c o n -> sp_index f sf -> sp_index m sm ->
    sp_index k sk -> P_stmt c nx [IMultisig o f m k] [n; sf; sm; sk].
  Proof.
    intros c nx o n fg m k sf sm sk N A B K. start n [sf; sm; sk].
    cbn [wf_prog forallb wf] in W. rewrite andb_true_r in W.
    destruct (shape_of o) eqn:S; try discriminate W.
    split. { apply (name_head_ok c o); [exact N|]. intros _ ->. discriminate S. }
    assert (SO : simple_op o = true) by (apply simple_by_shape; rewrite S; exact I).
    rewrite PN_S, (pn_opcode fl2 _ _ _ _ c n _ o N SO). cbn [app tl]. unfold get_args. rewrite S.
    unfold args_multisig. rewrite (sp_index_ok _ _ A), (sp_index_ok _ _ B), (sp_index_ok _ _ K). cbn [rbind].
    rewrite encode_one. reflexivity.
  Qed.

  Lemma L_pushp : forall c nx n v s i, push_name n -> sp_pushv fl2 v s -> push_instr v = Some i ->
    P_stmt c nx [i] [n; s].
  Proof.
    intros c nx n v s i N V P. start n [s].
    split. { destruct N as [->| ->]; apply plain_head_ok; reflexivity. }
    rewrite PN_S.
    assert (E : parse_next fl2 (ASM f') (PN f') mtab (COMPILE f') (defpre c n) ([n; s] ++ r) = instr_push fl2 (tl ([n; s] ++ r))).
    { destruct N as [->| ->]; destruct c; reflexivity. }
    rewrite E. cbn [app tl]. unfold instr_push. rewrite (sp_pushv_ok fl2 v s V). cbn [rbind]. rewrite P.
    cbn [of_opt rbind]. rewrite encode_one. reflexivity.
  Qed.

  Lemma alnum_first : forall k, isalnum k = true ->
    exists c0 k', k = String c0 k' /\ Ascii.eqb c0 "=" = false /\ Ascii.eqb c0 "#" = false.
  Proof.
    intros [|c0 k'] H; [discriminate H|]. exists c0, k'. split; [reflexivity|].
    unfold isalnum in H. cbn [nonempty sall andb] in H. apply andb_prop in H as [H _].
    destruct c0 as [[] [] [] [] [] [] [] []]; try discriminate H; split; reflexivity.
  Qed.

  Lemma L_setvar : forall c nx k cb cnt, isalnum k = true -> sp_num (b2z cb) cnt ->
    P_stmt c nx [IWriteCache (str k) cb] ["@="; k; cnt].
  Proof.
    intros c nx k cb cnt K Cn. start "@=" [k; cnt].
    split. { apply plain_head_ok; reflexivity. }
    cbn [wf_prog forallb wf] in W. rewrite andb_true_r in W.
    rewrite PN_S.
    assert (E : forall tail, parse_next fl2 (ASM f') (PN f') mtab (COMPILE f') (defpre c "@=") tail = set_variable tail).
    { intros tail. destruct c; reflexivity. }
    rewrite E. cbn [app]. unfold set_variable. rewrite (isalnum_ascii k K), K. cbn [negb].
    pose proof (sp_num_digs _ _ Cn) as G. destruct (sp_num_spec _ _ Cn) as (_ & _ & V).
    rewrite (digs_not_bracket cnt G), (sp_num_isnumeric _ _ Cn), V. cbn [of_opt rbind].
    rewrite W, (proj2 (Z.ltb_lt _ _) (b2z_lt cb)). cbn [andb]. rewrite z2b_b2z, encode_one. reflexivity.
  Qed.

  Lemma is_comment_at : forall k, is_comment (String "@" k) = false.
  Proof. reflexivity. Qed.
  Lemma canon_at : forall k, canon (String "@" k) = String "@" k.
  Proof. intros k. unfold canon. rewrite alias_of_at. reflexivity. Qed.
  Lemma defpre_at : forall c k, defpre c (String "@" k) = String "@" k.
  Proof. intros [] k; cbn [defpre]; rewrite ?alias_of_at; reflexivity. Qed.

  Lemma at_head_ok : forall c k, is_ascii_s k = true -> head_ok c (String "@" k).
  Proof.
    intros c k A. apply plain_head_ok.
    - unfold headb. rewrite is_comment_at. cbn [negb andb]. rewrite (leaf_at k A). reflexivity.
    - unfold is_alias. rewrite alias_of_at. reflexivity.
    - reflexivity.
  Qed.

  Lemma prefix_at_hash : forall c0 k', Ascii.eqb c0 "#" = false ->
    is_prefix "@#" (String "@" (String c0 k')) = false.
  Proof.
    intros c0 k' H. unfold is_prefix. cbn [prefix].
    destruct (ascii_dec "@" "@") as [_|N]; [|congruence].
    destruct (ascii_dec "#" c0) as [<-|_]; [discriminate H|reflexivity].
  Qed.

  Lemma prefix_at_hash_true : forall k, is_prefix "@#" (String "@" (String "#" k)) = true.
  Proof.
    intros k. unfold is_prefix. cbn [prefix].
    destruct (ascii_dec "@" "@") as [_|N]; [|congruence].
    destruct (ascii_dec "#" "#") as [_|N]; [|congruence]. destruct k; reflexivity.
  Qed.

  Lemma L_loadvar : forall c nx k, isalnum k = true -> P_stmt c nx [IVar1 O_READ_CACHE (str k)] [String "@" k].
  Proof.
    intros c nx k K. start (String "@" k) (@nil string).
    split. { apply at_head_ok. apply isalnum_ascii. exact K. }
    cbn [wf_prog forallb wf] in W. rewrite andb_true_r in W. apply andb_prop in W as [_ W].
    rewrite PN_S, defpre_at. unfold parse_next. rewrite is_comment_at, canon_at.
    destruct (alnum_first k K) as (c0 & k' & -> & E1 & E2).
    rewrite (prefix_at_hash c0 k' E2).
    cbn [String.eqb Ascii.eqb Bool.eqb]. rewrite E1. cbn [andb]. rewrite K.
    unfold read_variable, len1_r. rewrite W. cbn [rbind]. rewrite encode_one. reflexivity.
  Qed.

  Lemma L_sizevar : forall c nx k, isalnum k = true ->
    P_stmt c nx [IVar1 O_READ_CACHE_SIZE (str k)] [String "@" (String "#" k)].
  Proof.
    intros c nx k K. start (String "@" (String "#" k)) (@nil string).
    split. { apply at_head_ok. cbn [is_ascii_s sall]. fold (is_ascii_s k). rewrite (isalnum_ascii k K). reflexivity. }
    cbn [wf_prog forallb wf] in W. rewrite andb_true_r in W. apply andb_prop in W as [_ W].
    rewrite PN_S, defpre_at. unfold parse_next. rewrite is_comment_at, canon_at.
    rewrite prefix_at_hash_true. cbn [String.eqb Ascii.eqb Bool.eqb sdrop]. rewrite K.
    unfold read_variable, len1_r. rewrite W. cbn [rbind]. rewrite encode_one. reflexivity.
  Qed.

  (* ----- keywords ----- *)

  Lemma pn_kw : forall asm pn macs compile c o n tail kwname, spell_name c o n -> opcode_name o = kwname ->
    forall (body : res (nat * bytes)),
    (forall cur, is_comment cur = false -> canon cur = kwname ->
                 parse_next fl2 asm pn macs compile cur tail = body) ->
    parse_next fl2 asm pn macs compile (defpre c n) tail = body.
  Proof.
    intros asm pn macs compile c o n tail kwname N E body H. destruct (spell_name_spec c o n N) as (A & B & _).
    apply H; [exact B|]. rewrite A. exact E.
  Qed.

  Lemma pn_if_kw : forall asm pn macs compile c n tail, spell_name c O_IF n ->
    parse_next fl2 asm pn macs compile (defpre c n) tail = parse_if asm pn tail.
  Proof.
    intros. apply (pn_kw asm pn macs compile c O_IF n tail "OP_IF" H eq_refl).
    intros cur Hc E. unfold parse_next. rewrite Hc, E. reflexivity.
  Qed.
  Lemma pn_loop_kw : forall asm pn macs compile c n tail, spell_name c O_LOOP n ->
    parse_next fl2 asm pn macs compile (defpre c n) tail = parse_loop pn tail.
  Proof.
    intros. apply (pn_kw asm pn macs compile c O_LOOP n tail "OP_LOOP" H eq_refl).
    intros cur Hc E. unfold parse_next. rewrite Hc, E. reflexivity.
  Qed.
  Lemma pn_def_kw : forall asm pn macs compile c n tail, spell_name c O_DEF n ->
    parse_next fl2 asm pn macs compile (defpre c n) tail = parse_def pn tail.
  Proof.
    intros. apply (pn_kw asm pn macs compile c O_DEF n tail "OP_DEF" H eq_refl).
    intros cur Hc E. unfold parse_next. rewrite Hc, E. reflexivity.
  Qed.
  Lemma pn_try_kw : forall asm pn macs compile c n tail, try_name n ->
    parse_next fl2 asm pn macs compile (defpre c n) tail = parse_try pn tail.
  Proof. intros asm pn macs compile c n tail [->| ->]; destruct c; reflexivity. Qed.
  Lemma try_head_ok : forall c n, try_name n -> head_ok c n.
  Proof. intros c n [->| ->]; apply plain_head_ok; reflexivity. Qed.

  (* ----- IF tails ----- *)

  Lemma enc_if : forall b, encode1 (IIf b) = opcode_byte O_IF :: len2 (encode b) ++ encode b.
  Proof. reflexivity. Qed.
  Lemma enc_ifelse : forall b1 b2, encode1 (IIfElse b1 b2) =
    opcode_byte O_IF_ELSE :: len2 (encode b1) ++ encode b1 ++ len2 (encode b2) ++ encode b2.
  Proof. reflexivity. Qed.
  Lemma enc_try : forall b1 b2, encode1 (ITry b1 b2) =
    opcode_byte O_TRY_EXCEPT :: len2 (encode b1) ++ encode b1 ++ len2 (encode b2) ++ encode b2.
  Proof. reflexivity. Qed.
  Lemma enc_loop : forall b, encode1 (ILoop b) = opcode_byte O_LOOP :: len2 (encode b) ++ encode b.
  Proof. reflexivity. Qed.
  Lemma enc_def : forall h b, encode1 (IDef h b) = opcode_byte O_DEF :: h :: len2 (encode b) ++ encode b.
  Proof. reflexivity. Qed.

  Lemma LI_b : forall c nx b sb, P_seq (sub_ctx c) (Some "}") b sb -> nx <> Some "ELSE" ->
    P_iftail c nx (IIf b) (braces sb).
  Proof.
    intros c nx b sb IH N W f r h hc kw L Hr. wfs. rewrite length_braces in L.
    pose proof (IH H f ("}" :: r) ltac:(lia) eq_refl) as R. split.
    - rewrite braces_app. eauto.
    - rewrite (if_b (PN f) (sub_ctx c) (sub_ctx_nd c) h hc kw sb r (encode b) R H0) by (rewrite Hr; exact N).
      rewrite enc_if, length_braces. do 2 f_equal. lia.
  Qed.

  Lemma run_hd_nt : forall f c l e r code k x, run (PN f) c l (e :: r) code k ->
    String.eqb e x = false -> In x term_syms ->
    exists s1 t, l = s1 :: t /\ String.eqb s1 x = false.
  Proof.
    intros f c l e r code k x R E I. destruct (run_hd _ _ _ _ _ _ R) as [[-> _]|(h0 & t0 & -> & H)].
    - eauto.
    - exists h0, t0. split; [reflexivity|]. destruct (headb_spec _ H) as (_ & M & _). apply not_term; assumption.
  Qed.

  Lemma LI_e : forall c nx b sb, P_seq (sub_ctx c) (Some "END_IF") b sb -> P_iftail c nx (IIf b) (sb ++ ["END_IF"]).
  Proof.
    intros c nx b sb IH W f r h hc kw L Hr. wfs. rewrite app_length in L. cbn [List.length] in L.
    pose proof (IH H f ("END_IF" :: r) ltac:(lia) eq_refl) as R. split.
    - rewrite <- app_assoc. cbn [app]. apply (run_hd_nt f _ _ _ _ _ _ "(" R eq_refl). cbn; tauto.
    - rewrite <- app_assoc. cbn [app].
      rewrite (if_e (PN f) (sub_ctx c) (sub_ctx_nd c) h hc kw sb r (encode b) R H0).
      rewrite enc_if, app_length. cbn [List.length]. do 2 f_equal. lia.
  Qed.

  Lemma LI_bb : forall c nx b1 sb1 b2 sb2, P_seq (sub_ctx c) (Some "}") b1 sb1 ->
    P_seq (sub_ctx c) (Some "}") b2 sb2 ->
    P_iftail c nx (IIfElse b1 b2) (braces sb1 ++ "ELSE" :: braces sb2).
  Proof.
    intros c nx b1 sb1 b2 sb2 IH1 IH2 W f r h hc kw L Hr. wfs.
    rewrite app_length in L. cbn [List.length] in L. rewrite !length_braces in L.
    rewrite <- app_assoc. cbn [app].
    pose proof (IH1 H f ("}" :: "ELSE" :: braces sb2 ++ r) ltac:(lia) eq_refl) as R1.
    pose proof (IH2 H1 f ("}" :: r) ltac:(lia) eq_refl) as R2. split.
    - rewrite braces_app. eauto.
    - rewrite (ifelse_b (PN f) (sub_ctx c) (sub_ctx_nd c) h hc kw sb1 _ (encode b1) _ _ R1 H2
                 (clause_braces (PN f) _ _ _ (sub_ctx c) sb2 r (encode b2) (tsets_else (PN f)) eq_refl (sub_ctx_nd c) R2 H0 "ELSE")).
      rewrite enc_ifelse, app_length. cbn [List.length]. rewrite !length_braces. do 2 f_equal. lia.
  Qed.

  Lemma LI_be : forall c nx b1 sb1 b2 sb2, P_seq (sub_ctx c) (Some "}") b1 sb1 ->
    P_seq (sub_ctx c) (Some "END_IF") b2 sb2 ->
    P_iftail c nx (IIfElse b1 b2) (braces sb1 ++ "ELSE" :: sb2 ++ ["END_IF"]).
  Proof.
    intros c nx b1 sb1 b2 sb2 IH1 IH2 W f r h hc kw L Hr. wfs.
    rewrite app_length in L. cbn [List.length] in L. rewrite app_length, length_braces in L. cbn [List.length] in L.
    rewrite <- app_assoc. cbn [app]. rewrite <- app_assoc. cbn [app].
    pose proof (IH1 H f ("}" :: "ELSE" :: sb2 ++ "END_IF" :: r) ltac:(lia) eq_refl) as R1.
    pose proof (IH2 H1 f ("END_IF" :: r) ltac:(lia) eq_refl) as R2. split.
    - rewrite braces_app. eauto.
    - rewrite (ifelse_b (PN f) (sub_ctx c) (sub_ctx_nd c) h hc kw sb1 _ (encode b1) _ _ R1 H2
                 (clause_ended (PN f) ["END_IF"] _ _ (sub_ctx c) sb2 "END_IF" r (encode b2) (tsets_else (PN f)) eq_refl eq_refl eq_refl
                    (sub_ctx_nd c) R2 H0 "ELSE")).
      rewrite enc_ifelse, app_length. cbn [List.length]. rewrite app_length, length_braces. cbn [List.length].
      do 2 f_equal. lia.
  Qed.

  Lemma LI_ee : forall c nx b1 sb1 b2 sb2, P_seq (sub_ctx c) (Some "ELSE") b1 sb1 ->
    P_seq (sub_ctx c) (Some "END_IF") b2 sb2 ->
    P_iftail c nx (IIfElse b1 b2) (sb1 ++ "ELSE" :: sb2 ++ ["END_IF"]).
  Proof.
    intros c nx b1 sb1 b2 sb2 IH1 IH2 W f r h hc kw L Hr. wfs.
    rewrite app_length in L. cbn [List.length] in L. rewrite app_length in L. cbn [List.length] in L.
    pose proof (IH1 H f ("ELSE" :: sb2 ++ "END_IF" :: r) ltac:(lia) eq_refl) as R1.
    pose proof (IH2 H1 f ("END_IF" :: r) ltac:(lia) eq_refl) as R2. split.
    - rewrite <- app_assoc. cbn [app]. rewrite <- app_assoc. cbn [app].
      apply (run_hd_nt f _ _ _ _ _ _ "(" R1 eq_refl). cbn; tauto.
    - rewrite <- app_assoc. cbn [app]. rewrite <- app_assoc. cbn [app].
      rewrite (ifelse_e (PN f) (sub_ctx c) (sub_ctx_nd c) h hc kw sb1 _ (encode b1) _ _ R1 H2 (mem_mid _ _ _)
                 (clause_ended (PN f) ["END_IF"] _ _ (sub_ctx c) sb2 "END_IF" r (encode b2) (tsets_else (PN f)) eq_refl eq_refl eq_refl
                    (sub_ctx_nd c) R2 H0 "ELSE")).
      rewrite enc_ifelse, app_length. cbn [List.length]. rewrite app_length. cbn [List.length].
      do 2 f_equal. lia.
  Qed.

  (* ----- IF ----- *)

  Lemma L_if : forall c nx n i ts, spell_name c O_IF n -> P_iftail c nx i ts -> P_stmt c nx [i] (n :: ts).
  Proof.
    intros c nx n i ts N IH. start n ts.
    split. { apply (name_head_ok c O_IF); [exact N|]. intros _; discriminate. }
    wfs. cbn [List.length] in L.
    destruct (IH W f' r 0%nat [] n ltac:(lia) Hr) as ((s1 & t & Q & E) & R).
    rewrite PN_S, pn_if_kw by exact N. cbn [app]. rewrite Q, (parse_if_nohoist _ _ n s1 t E), <- Q, R.
    rewrite encode_one. cbn [List.length app]. f_equal. f_equal. lia.
  Qed.

  Lemma L_ifh : forall c nx n cond sc i ts, spell_name c O_IF n ->
    seq fl2 (sub_ctx c) None cond sc -> P_seq (sub_ctx c) None cond sc -> P_iftail c nx i ts ->
    P_stmt c nx (cond ++ [i]) (n :: "(" :: sc ++ ")" :: ts).
  Proof.
    intros c nx n cond sc i ts N S IHc IH. start n ("(" :: sc ++ ")" :: ts).
    split. { apply (name_head_ok c O_IF); [exact N|]. intros _; discriminate. }
    wfs. cbn [List.length] in L. rewrite app_length in L. cbn [List.length] in L.
    destruct (leafb_spec n (spell_name_leaf c O_IF n N)) as (_ & _ & _ & K1 & K2 & _).
    destruct (good_seq fl2 _ _ _ _ S H) as (_ & B & U & _).
    rewrite PN_S, pn_if_kw by exact N. cbn [app]. rewrite <- app_assoc. cbn [app].
    rewrite (parse_if_hoist _ _ n sc (ts ++ r) K1 K2 B).
    destruct f' as [|f'']; [lia|].
    pose proof (IHc H f'' [] ltac:(lia) eq_refl) as Rc. rewrite app_nil_r in Rc.
    rewrite (ASM_free f'' sc U). rewrite (asm_loop_run (PN f'') _ _ _ _ Rc (sub_ctx_nd c) _ (le_n _)). cbn [rbind].
    set (f' := Datatypes.S f'') in *.
    destruct (IH H0 f' r (List.length sc + 2)%nat (encode cond) n ltac:(lia) Hr) as (_ & R). rewrite R.
    unfold encode. rewrite flat_map_app. cbn [flat_map]. rewrite app_nil_r.
    cbn [List.length]. rewrite app_length. cbn [List.length]. f_equal. f_equal. lia.
  Qed.

  (* ----- TRY ----- *)

  Lemma L_try_b : forall c nx n b1 sb1, try_name n -> P_seq (sub_ctx c) (Some "}") b1 sb1 ->
    nx <> Some "EXCEPT" -> P_stmt c nx [ITry b1 []] (n :: braces sb1).
  Proof.
    intros c nx n b1 sb1 N IH NX. start n (braces sb1).
    split; [apply try_head_ok; exact N|]. wfs. cbn [List.length] in L. rewrite length_braces in L.
    pose proof (IH H f' ("}" :: r) ltac:(lia) eq_refl) as R.
    rewrite PN_S, pn_try_kw by exact N. cbn [app].
    rewrite (try_b (PN f') (sub_ctx c) (sub_ctx_nd c) n sb1 r (encode b1) R H2) by (rewrite Hr; exact NX).
    rewrite encode_one, enc_try. cbn [List.length]. rewrite length_braces. f_equal. f_equal. lia.
  Qed.

  Lemma L_try_bb : forall c nx n b1 sb1 b2 sb2, try_name n -> P_seq (sub_ctx c) (Some "}") b1 sb1 ->
    P_seq (sub_ctx c) (Some "}") b2 sb2 ->
    P_stmt c nx [ITry b1 b2] (n :: braces sb1 ++ "EXCEPT" :: braces sb2).
  Proof.
    intros c nx n b1 sb1 b2 sb2 N IH1 IH2. start n (braces sb1 ++ "EXCEPT" :: braces sb2).
    split; [apply try_head_ok; exact N|]. wfs.
    cbn [List.length] in L. rewrite app_length in L. cbn [List.length] in L. rewrite !length_braces in L.
    pose proof (IH1 H f' ("}" :: "EXCEPT" :: braces sb2 ++ r) ltac:(lia) eq_refl) as R1.
    pose proof (IH2 H1 f' ("}" :: r) ltac:(lia) eq_refl) as R2.
    rewrite PN_S, pn_try_kw by exact N. cbn [app]. rewrite <- app_assoc. cbn [app].
    rewrite (try_bx (PN f') (sub_ctx c) (sub_ctx_nd c) n sb1 (braces sb2 ++ r) (encode b1) _ _
               ltac:(rewrite braces_app; discriminate) R1 H2
               (clause_braces (PN f') _ _ _ (sub_ctx c) sb2 r (encode b2) (tsets_except (PN f')) eq_refl (sub_ctx_nd c) R2 H0 "EXCEPT")).
    rewrite encode_one, enc_try. cbn [List.length]. rewrite app_length. cbn [List.length]. rewrite !length_braces.
    f_equal. f_equal. lia.
  Qed.

  Lemma L_try_be : forall c nx n b1 sb1 b2 sb2, try_name n -> P_seq (sub_ctx c) (Some "}") b1 sb1 ->
    P_seq (sub_ctx c) (Some "END_EXCEPT") b2 sb2 ->
    P_stmt c nx [ITry b1 b2] (n :: braces sb1 ++ "EXCEPT" :: sb2 ++ ["END_EXCEPT"]).
  Proof.
    intros c nx n b1 sb1 b2 sb2 N IH1 IH2. start n (braces sb1 ++ "EXCEPT" :: sb2 ++ ["END_EXCEPT"]).
    split; [apply try_head_ok; exact N|]. wfs.
    cbn [List.length] in L. rewrite app_length in L. cbn [List.length] in L.
    rewrite app_length, length_braces in L. cbn [List.length] in L.
    pose proof (IH1 H f' ("}" :: "EXCEPT" :: sb2 ++ "END_EXCEPT" :: r) ltac:(lia) eq_refl) as R1.
    pose proof (IH2 H1 f' ("END_EXCEPT" :: r) ltac:(lia) eq_refl) as R2.
    rewrite PN_S, pn_try_kw by exact N. cbn [app]. rewrite <- app_assoc. cbn [app]. rewrite <- app_assoc. cbn [app].
    rewrite (try_bx (PN f') (sub_ctx c) (sub_ctx_nd c) n sb1 (sb2 ++ "END_EXCEPT" :: r) (encode b1) _ _
               ltac:(destruct sb2; discriminate) R1 H2
               (clause_ended (PN f') ["END_EXCEPT"] _ _ (sub_ctx c) sb2 "END_EXCEPT" r (encode b2) (tsets_except (PN f'))
                  eq_refl eq_refl eq_refl (sub_ctx_nd c) R2 H0 "EXCEPT")).
    rewrite encode_one, enc_try. cbn [List.length]. rewrite app_length. cbn [List.length].
    rewrite app_length, length_braces. cbn [List.length]. f_equal. f_equal. lia.
  Qed.

  Lemma L_try_eb : forall c nx n b1 sb1 b2 sb2, try_name n -> P_seq (sub_ctx c) (Some "EXCEPT") b1 sb1 ->
    P_seq (sub_ctx c) (Some "}") b2 sb2 ->
    P_stmt c nx [ITry b1 b2] (n :: sb1 ++ "EXCEPT" :: braces sb2).
  Proof.
    intros c nx n b1 sb1 b2 sb2 N IH1 IH2. start n (sb1 ++ "EXCEPT" :: braces sb2).
    split; [apply try_head_ok; exact N|]. wfs.
    cbn [List.length] in L. rewrite app_length in L. cbn [List.length] in L. rewrite length_braces in L.
    pose proof (IH1 H f' ("EXCEPT" :: braces sb2 ++ r) ltac:(lia) eq_refl) as R1.
    pose proof (IH2 H1 f' ("}" :: r) ltac:(lia) eq_refl) as R2.
    rewrite PN_S, pn_try_kw by exact N. cbn [app]. rewrite <- app_assoc. cbn [app].
    rewrite (try_ex (PN f') (sub_ctx c) (sub_ctx_nd c) n sb1 (braces sb2 ++ r) (encode b1) _ _ R1 H2
               (clause_braces (PN f') _ _ _ (sub_ctx c) sb2 r (encode b2) (tsets_except (PN f')) eq_refl (sub_ctx_nd c) R2 H0 "EXCEPT")).
    rewrite encode_one, enc_try. cbn [List.length]. rewrite app_length. cbn [List.length]. rewrite length_braces.
    f_equal. f_equal. lia.
  Qed.

  Lemma L_try_ee : forall c nx n b1 sb1 b2 sb2, try_name n -> P_seq (sub_ctx c) (Some "EXCEPT") b1 sb1 ->
    P_seq (sub_ctx c) (Some "END_EXCEPT") b2 sb2 ->
    P_stmt c nx [ITry b1 b2] (n :: sb1 ++ "EXCEPT" :: sb2 ++ ["END_EXCEPT"]).
  Proof.
    intros c nx n b1 sb1 b2 sb2 N IH1 IH2. start n (sb1 ++ "EXCEPT" :: sb2 ++ ["END_EXCEPT"]).
    split; [apply try_head_ok; exact N|]. wfs.
    cbn [List.length] in L. rewrite app_length in L. cbn [List.length] in L.
    rewrite app_length in L. cbn [List.length] in L.
    pose proof (IH1 H f' ("EXCEPT" :: sb2 ++ "END_EXCEPT" :: r) ltac:(lia) eq_refl) as R1.
    pose proof (IH2 H1 f' ("END_EXCEPT" :: r) ltac:(lia) eq_refl) as R2.
    rewrite PN_S, pn_try_kw by exact N. cbn [app]. rewrite <- app_assoc. cbn [app]. rewrite <- app_assoc. cbn [app].
    rewrite (try_ex (PN f') (sub_ctx c) (sub_ctx_nd c) n sb1 (sb2 ++ "END_EXCEPT" :: r) (encode b1) _ _ R1 H2
               (clause_ended (PN f') ["END_EXCEPT"] _ _ (sub_ctx c) sb2 "END_EXCEPT" r (encode b2) (tsets_except (PN f'))
                  eq_refl eq_refl eq_refl (sub_ctx_nd c) R2 H0 "EXCEPT")).
    rewrite encode_one, enc_try. cbn [List.length]. rewrite app_length. cbn [List.length].
    rewrite app_length. cbn [List.length]. f_equal. f_equal. lia.
  Qed.

  (* ----- LOOP ----- *)

  Lemma L_loop_b : forall c nx n b sb, spell_name c O_LOOP n -> P_seq (sub_ctx c) (Some "}") b sb ->
    P_stmt c nx [ILoop b] (n :: braces sb).
  Proof.
    intros c nx n b sb N IH. start n (braces sb).
    split. { apply (name_head_ok c O_LOOP); [exact N|]. intros _; discriminate. }
    wfs. cbn [List.length] in L. rewrite length_braces in L.
    pose proof (IH H f' ("}" :: r) ltac:(lia) eq_refl) as R.
    rewrite PN_S, pn_loop_kw by exact N. cbn [app].
    rewrite (loop_braces (PN f') (sub_ctx c) sb r (encode b) (sub_ctx_nd c) R H0).
    rewrite encode_one, enc_loop. cbn [List.length]. rewrite length_braces. f_equal. f_equal. lia.
  Qed.

  Lemma L_loop_e : forall c nx n b sb, spell_name c O_LOOP n -> P_seq (sub_ctx c) (Some "END_LOOP") b sb ->
    P_stmt c nx [ILoop b] (n :: sb ++ ["END_LOOP"]).
  Proof.
    intros c nx n b sb N IH. start n (sb ++ ["END_LOOP"]).
    split. { apply (name_head_ok c O_LOOP); [exact N|]. intros _; discriminate. }
    wfs. cbn [List.length] in L. rewrite app_length in L. cbn [List.length] in L.
    pose proof (IH H f' ("END_LOOP" :: r) ltac:(lia) eq_refl) as R.
    rewrite PN_S, pn_loop_kw by exact N. cbn [app]. rewrite <- app_assoc. cbn [app].
    rewrite (loop_ended (PN f') (sub_ctx c) sb r (encode b) (sub_ctx_nd c) R H0).
    rewrite encode_one, enc_loop. cbn [List.length]. rewrite app_length. cbn [List.length]. f_equal. f_equal. lia.
  Qed.

  (* ----- DEF ----- *)

  Lemma L_def_b : forall c nx n h hs b sb, c <> DefDirect -> spell_name c O_DEF n -> sp_handle h hs ->
    seq fl2 DefDirect (Some "}") b sb -> P_seq DefDirect (Some "}") b sb ->
    P_stmt c nx [IDef h b] (n :: hs :: braces sb).
  Proof.
    intros c nx n h hs b sb C N Hh S IH. start n (hs :: braces sb).
    split. { apply (name_head_ok c O_DEF); [exact N|]. intros ->. congruence. }
    wfs. cbn [List.length] in L. rewrite length_braces in L.
    pose proof (IH H f' ("}" :: r) ltac:(lia) eq_refl) as R.
    destruct (good_seq fl2 _ _ _ _ S H) as (B & _).
    rewrite PN_S, pn_def_kw by exact N. cbn [app].
    rewrite (def_braces (ASM f') (PN f') n hs h sb r (encode b) (sp_handle_ok h hs Hh) B R H0).
    rewrite encode_one, enc_def. cbn [List.length]. rewrite length_braces. f_equal. f_equal. lia.
  Qed.

  Lemma L_def_e : forall nx n h hs b sb, spell_name Top O_DEF n -> sp_handle h hs ->
    seq fl2 DefDirect (Some "END_DEF") b sb -> P_seq DefDirect (Some "END_DEF") b sb ->
    P_stmt Top nx [IDef h b] (n :: hs :: sb ++ ["END_DEF"]).
  Proof.
    intros nx n h hs b sb N Hh S IH. start n (hs :: sb ++ ["END_DEF"]).
    split. { apply (name_head_ok Top O_DEF); [exact N|]. discriminate. }
    wfs. cbn [List.length] in L. rewrite app_length in L. cbn [List.length] in L.
    pose proof (IH H f' ("END_DEF" :: r) ltac:(lia) eq_refl) as R.
    destruct (good_seq fl2 _ _ _ _ S H) as (_ & _ & _ & M).
    destruct (leafb_spec n (spell_name_leaf Top O_DEF n N)) as (_ & _ & _ & _ & _ & K1).
    destruct (leafb_spec hs (sp_handle_leaf h hs Hh)) as (_ & _ & _ & _ & _ & K2).
    rewrite String.eqb_sym in K1, K2.
    rewrite PN_S, pn_def_kw by exact N. cbn [app]. rewrite <- app_assoc. cbn [app].
    rewrite (def_ended (ASM f') (PN f') n hs h sb r (encode b) (sp_handle_ok h hs Hh) K1 K2 (M eq_refl) R H0).
    rewrite encode_one, enc_def. cbn [List.length]. rewrite app_length. cbn [List.length]. f_equal. f_equal. lia.
  Qed.

  (* ----- sequences ----- *)

  Lemma L_nil : forall c nx, P_seq c nx [] [].
  Proof. intros c nx W f r L Hr. cbn [app List.length]. apply run_nil. Qed.

  Lemma L_cons : forall c nx is ss p sp, P_stmt c (hd_or nx sp) is ss -> P_seq c nx p sp ->
    P_seq c nx (is ++ p) (ss ++ sp).
  Proof.
    intros c nx is ss p sp IH1 IH2 W f r L Hr.
    unfold wf_prog in W. rewrite forallb_app in W. apply andb_prop in W as [W1 W2].
    rewrite app_length in L.
    destruct (IH1 W1 f (sp ++ r) ltac:(lia) (hd_error_app sp r nx Hr)) as (h & t & -> & Hh & P).
    pose proof (IH2 W2 f r ltac:(lia) Hr) as R.
    rewrite <- app_assoc. unfold encode. rewrite flat_map_app. fold (encode is) (encode p).
    rewrite app_length. cbn [List.length] in *.
    apply (run_step (PN f) c h t (sp ++ r) r (encode is) (encode p) (List.length sp) Hh P R).
  Qed.

  Theorem spells_correct :
    (forall c nx is ss, stmt fl2 c nx is ss -> P_stmt c nx is ss) /\
    (forall c nx i ts, iftail fl2 c nx i ts -> P_iftail c nx i ts) /\
    (forall c nx p ss, seq fl2 c nx p ss -> P_seq c nx p ss).
  Proof.
    apply spells_mutind; intros.
    - apply L_op0; assumption.
    - apply L_op1; assumption.
    - apply L_nop; assumption.
    - apply L_var1; assumption.
    - apply L_push1_2; assumption.
    - apply L_push1_1; assumption.
    - apply L_push2_2; assumption.
    - apply L_push2_1; assumption.
    - apply L_wc; assumption.
    - apply L_fix; assumption.
    - apply L_swap; assumption.
    - apply L_ms; assumption.
    - eapply L_pushp; eassumption.
    - apply L_setvar; assumption.
    - apply L_loadvar; assumption.
    - apply L_sizevar; assumption.
    - apply L_if; assumption.
    - apply L_ifh; assumption.
    - apply L_try_b; assumption.
    - apply L_try_bb; assumption.
    - apply L_try_be; assumption.
    - apply L_try_eb; assumption.
    - apply L_try_ee; assumption.
    - apply L_loop_b; assumption.
    - apply L_loop_e; assumption.
    - apply L_def_b; assumption.
    - apply L_def_e; assumption.
    - apply LI_b; assumption.
    - apply LI_e; assumption.
    - apply LI_bb; assumption.
    - apply LI_be; assumption.
    - apply LI_ee; assumption.
    - apply L_nil.
    - apply L_cons; assumption.
  Qed.
End Main.

(* ====================================================================================== *)
(* Main theorem: every spelling of a well-formed program assembles to its encoding          *)
(* ====================================================================================== *)

Lemma asm_fuel_free : forall fl2 ct f m syms, existsb bad_symbol syms = false ->
  asm_fuel fl2 ct (Datatypes.S f) m syms =
  rbind (asm_loop (pn_at fl2 ct f m) (List.length syms) syms) (fun code => Ok (m, code)).
Proof.
  intros fl2 ct f m syms B. cbn [asm_fuel]. rewrite comptime_id by (try exact B; apply le_n). reflexivity.
Qed.

(* the loop of assemble on a spelling, whatever the macro table and with any sufficient fuel *)
Lemma spells_loop : forall fl2 ct p syms, spells fl2 p syms -> wf_prog p = true ->
  forall m f n, (List.length syms <= f)%nat -> (List.length syms <= n)%nat ->
  asm_loop (pn_at fl2 ct f m) n syms = Ok (encode p).
Proof.
  intros fl2 ct p syms S W m f n Lf Ln.
  pose proof (proj2 (proj2 (spells_correct fl2 ct m)) _ _ _ _ S W f [] Lf eq_refl) as R.
  rewrite app_nil_r in R.
  apply (asm_loop_run _ Top _ _ _ R); [discriminate|exact Ln].
Qed.

Lemma asm_fuel_spells : forall fl2 ct p syms, spells fl2 p syms -> wf_prog p = true ->
  forall m f, (List.length syms <= f)%nat -> asm_fuel fl2 ct (Datatypes.S f) m syms = Ok (m, encode p).
Proof.
  intros fl2 ct p syms S W m f L. destruct (good_seq fl2 _ _ _ _ S W) as (_ & _ & U & _).
  rewrite asm_fuel_free by exact U. rewrite (spells_loop fl2 ct p syms S W m f _ L (le_n _)). reflexivity.
Qed.

Theorem assemble_r_spells : forall fl2 ct p syms,
  spells fl2 p syms -> wf_prog p = true -> assemble_r fl2 ct syms = Ok (encode p).
Proof.
  intros fl2 ct p syms S W. unfold assemble_r.
  destruct (good_seq fl2 _ _ _ _ S W) as (_ & _ & U & _). rewrite (bad_unmodelled syms U).
  replace (2 * List.length syms + 2)%nat with (Datatypes.S (2 * List.length syms + 1)) by lia.
  rewrite (asm_fuel_spells fl2 ct p syms S W) by lia. reflexivity.
Qed.

Theorem assemble_spells : forall fl2 ct p syms,
  spells fl2 p syms -> wf_prog p = true -> assemble fl2 ct syms = Some (encode p).
Proof. intros fl2 ct p syms S W. unfold assemble. rewrite (assemble_r_spells fl2 ct p syms S W). reflexivity. Qed.


(* ====================================================================================== *)
(* The decompiler's listing is one of the spellings                                         *)
(* ====================================================================================== *)

(* math.log2 is exact on the magnitudes of one-byte integers *)
Definition fl2_small (fl2 : Z -> Z) : Prop := forall a, 0 < a <= 128 -> fl2 a = Z.log2 a.

Lemma fl2_exact_small : fl2_small fl2_exact.
Proof. intros a _. reflexivity. Qed.

Lemma s8_range : forall b, -128 <= s8 b <= 127.
Proof. destruct b; vm_compute; split; discriminate. Qed.
Lemma i2b_s8_exact : forall b, int_to_bytes fl2_exact (s8 b) = Some [b].
Proof. destruct b; vm_compute; reflexivity. Qed.
Lemma i2b_s8 : forall fl2, fl2_small fl2 -> forall b, int_to_bytes fl2 (s8 b) = Some [b].
Proof.
  intros fl2 F b. rewrite <- (i2b_s8_exact b). pose proof (s8_range b) as R. unfold int_to_bytes.
  destruct (Z.abs (s8 b) =? 0) eqn:E; [reflexivity|]. apply Z.eqb_neq in E.
  rewrite F by lia. reflexivity.
Qed.

Lemma lower_nib : forall a b c d, lower_c (nib a b c d) = nib a b c d.
Proof. intros [] [] [] []; reflexivity. Qed.
Lemma lower_hex : forall v, lower_s (hex v) = hex v.
Proof.
  induction v as [|x t IH]; [reflexivity|]. cbn [hex].
  destruct (Byte.to_bits x) as (b0 & b1 & b2 & b3 & b4 & b5 & b6 & b7).
  unfold lower_s in *. cbn [smap]. rewrite !lower_nib, IH. reflexivity.
Qed.
Lemma sp_hex_hex : forall v, sp_hex v (hex v).
Proof. intros v. apply lower_hex. Qed.

Lemma sp_snum_dec : forall z, sp_snum z (dec z).
Proof.
  intros z. destruct (Z.ltb_spec z 0) as [H|H].
  - rewrite (dec_neg z H). apply sn_minus. apply num_dec. lia.
  - apply sn_plain. apply num_dec. exact H.
Qed.

Lemma oplike_x : forall r, oplike (String "x" r) = false.
Proof. intros r. vm_compute. reflexivity. Qed.

Lemma leaf_tok_d : forall z, leafb (tok_d z) = true.
Proof.
  intros z. unfold tok_d. apply leaf_dx; [left; left; reflexivity|]. apply (sp_snum_ascii z). apply sp_snum_dec.
Qed.

Lemma b2z_nonneg : forall b, 0 <= b2z b.
Proof. destruct b; vm_compute; discriminate. Qed.

(* no DEF directly in the body of a DEF (the compiler refuses it: parse_def) *)
Fixpoint ldef_ok (direct : bool) (i : instr) : bool :=
  match i with
  | IDef _ body => negb direct && forallb (ldef_ok true) body
  | IIf body | ILoop body => forallb (ldef_ok false) body
  | IIfElse b1 b2 | ITry b1 b2 => forallb (ldef_ok false) b1 && forallb (ldef_ok false) b2
  | _ => true
  end.
Definition is_direct (c : ctx) : bool := match c with DefDirect => true | _ => false end.
Lemma is_direct_sub : forall c, is_direct (sub_ctx c) = false.
Proof. destruct c; reflexivity. Qed.

Section Listing.
  Variable fl2 : Z -> Z.
  Variable ct : bytes -> res (option bytes).
  Hypothesis F : fl2_small fl2.

  Definition nxok (nx : option string) : Prop := nx <> Some "ELSE" /\ nx <> Some "EXCEPT".

  Definition LP (i : instr) : Prop := forall c nx, wf i = true -> ldef_ok (is_direct c) i = true -> nxok nx ->
    stmt fl2 c nx [i] (ptoks1 fl2 i).
  Definition LPs (p : list instr) : Prop := forall c nx, wf_prog p = true ->
    forallb (ldef_ok (is_direct c)) p = true -> nxok nx -> seq fl2 c nx p (ptoks fl2 p).

  Lemma nxok_head : forall p nx, wf_prog p = true -> nxok nx -> nxok (hd_or nx (ptoks fl2 p)).
  Proof.
    intros [|i p] nx W N; [exact N|]. rewrite wf_prog_cons in W. apply andb_prop in W as [Wi _].
    destruct (ptoks1_head fl2 i Wi) as (t & r0 & E & _ & B).
    unfold ptoks. cbn [flat_map]. rewrite E. cbn [app hd_or].
    split; intros Q; injection Q as ->; apply B; reflexivity.
  Qed.

  Lemma LPs_of : forall p, Forall LP p -> LPs p.
  Proof.
    induction 1 as [|i p Hi Hp IH]; intros c nx W D N.
    - apply sq_nil.
    - rewrite wf_prog_cons in W. apply andb_prop in W as [Wi Wp].
      cbn [forallb] in D. apply andb_prop in D as [Di Dp].
      change (i :: p) with ([i] ++ p). change (ptoks fl2 ([i] ++ p)) with (ptoks1 fl2 i ++ ptoks fl2 p).
      apply sq_cons; [|apply IH; assumption].
      apply Hi; try assumption. apply nxok_head; assumption.
  Qed.

  Lemma name_self : forall c o, spell_name c o (opcode_name o).
  Proof. intros. left. reflexivity. Qed.

  Lemma sp_byte_tok_d : forall b, sp_byte fl2 b (tok_d (s8 b)).
  Proof. intros b. apply (sb_d fl2 b "d" _ (s8 b)); [left; reflexivity|apply sp_snum_dec|apply i2b_s8; exact F]. Qed.
  Lemma sp_byte_tok_x : forall b, sp_byte fl2 b (tok_x [b]).
  Proof. intros b. apply sb_x; [left; reflexivity|apply sp_hex_hex]. Qed.
  Lemma sp_index_tok_d : forall b, sp_index b (tok_d (b2z b)).
  Proof. intros b. apply si_d; [left; reflexivity|]. apply num_dec. apply b2z_nonneg. Qed.
  Lemma sp_index_tok_x : forall b, sp_index b (tok_x [b]).
  Proof. intros b. apply si_x; [left; reflexivity|apply sp_hex_hex]. Qed.
  Lemma sp_var1_tok_x : forall v, sp_var1 fl2 v (tok_x v).
  Proof. intros v. apply sv_x; [left; reflexivity|apply sp_hex_hex]. Qed.

  Lemma sp_size_tok_d : forall z, sp_size z (tok_d z).
  Proof. intros z. apply sz_d; [left; reflexivity|apply sp_snum_dec]. Qed.

  Lemma sp_var1_int_tok : forall v, sp_var1 fl2 v (int_tok fl2 v).
  Proof.
    intros v. unfold int_tok. destruct v as [|x t]; [apply sp_var1_tok_x|].
    destruct (bytes_to_int (x :: t)) as [z|]; [|apply sp_var1_tok_x].
    destruct (int_to_bytes fl2 z) as [v'|] eqn:E; [|apply sp_var1_tok_x].
    destruct (bytes_eqb v' (x :: t)) eqn:B; [|apply sp_var1_tok_x].
    apply bytes_eqb_eq in B. subst v'.
    apply (sv_d fl2 _ "d" _ z); [left; reflexivity| |exact E]. apply fn_int. apply sp_snum_dec.
  Qed.

  Lemma braces_eq : forall sb, "{" :: sb ++ ["}"] = braces sb.
  Proof. reflexivity. Qed.

  Lemma LP_all : forall i, LP i.
  Proof.
    induction i using instr_ind'; intros cx nx W D N; cbn [wf] in W; cbn [ptoks1 simple_toks].
    - (* IOp0 *) destruct (shape_of o) eqn:S; try discriminate W. apply st_op0; [apply name_self|exact S].
    - (* IOp1 *)
      destruct (shape_of o) eqn:S; try discriminate W; apply st_op1; try apply name_self; try (rewrite S; reflexivity).
      + apply sp_byte_tok_d.
      + apply sp_byte_tok_x.
    - (* IVar1 *)
      apply andb_prop in W as [W1 W2]. destruct (shape_of o) eqn:S; try discriminate W1.
      + pose proof (shape_push1 o S) as ->.
        apply st_push1_2; [apply name_self|apply sp_size_tok_d|apply sp_var1_tok_x|apply oplike_x].
      + apply st_var1; [apply name_self|left; exact S|apply sp_var1_tok_x].
      + apply st_var1; [apply name_self|right; exact S|apply sp_var1_int_tok].
    - (* IWriteCache *)
      apply st_wc; [apply name_self|apply sk_x; [left; reflexivity|apply sp_hex_hex]|].
      apply sc_d; [left; reflexivity|]. apply num_dec. apply b2z_nonneg.
    - (* IPush2 *)
      apply st_push2_2; [apply name_self|apply sp_size_tok_d| |apply oplike_x].
      apply s2_x; [left; reflexivity|apply sp_hex_hex].
    - (* IFix *) apply st_fix; [apply name_self|]. apply sx_x; [left; reflexivity|apply sp_hex_hex].
    - (* ISwap *) apply st_swap; [apply name_self|apply sp_index_tok_d|apply sp_index_tok_d].
    - (* IMultisig *) apply st_ms; [apply name_self|apply sp_index_tok_x|apply sp_index_tok_d|apply sp_index_tok_d].
    - (* IDef *)
      apply andb_prop in W as [W _]. cbn [ldef_ok] in D. apply andb_prop in D as [D1 D2].
      apply negb_true_iff in D1.
      change (flat_map (ptoks1 fl2) body) with (ptoks fl2 body). rewrite braces_eq.
      apply st_def_b.
      + intros ->. discriminate D1.
      + apply name_self.
      + apply sh_bare. apply num_dec. apply b2z_nonneg.
      + apply (LPs_of _ H DefDirect); [exact W|exact D2|split; discriminate].
    - (* IIf *)
      apply andb_prop in W as [W _]. cbn [ldef_ok] in D.
      change (flat_map (ptoks1 fl2) body) with (ptoks fl2 body). rewrite braces_eq.
      apply st_if; [apply name_self|]. apply it_b; [|apply N].
      apply (LPs_of _ H (sub_ctx cx)); [exact W|rewrite is_direct_sub; exact D|split; discriminate].
    - (* IIfElse *)
      apply andb_prop in W as [W _]. apply andb_prop in W as [W W3]. apply andb_prop in W as [W1 _].
      cbn [ldef_ok] in D. apply andb_prop in D as [D1 D2].
      change (flat_map (ptoks1 fl2) b1) with (ptoks fl2 b1). change (flat_map (ptoks1 fl2) b2) with (ptoks fl2 b2).
      replace ("{" :: ptoks fl2 b1 ++ "}" :: "ELSE" :: "{" :: ptoks fl2 b2 ++ ["}"])
        with (braces (ptoks fl2 b1) ++ "ELSE" :: braces (ptoks fl2 b2))
        by (unfold braces; cbn [app]; rewrite <- app_assoc; reflexivity).
      apply st_if; [apply name_self|]. apply ite_bb.
      + apply (LPs_of _ H (sub_ctx cx)); [exact W1|rewrite is_direct_sub; exact D1|split; discriminate].
      + apply (LPs_of _ H0 (sub_ctx cx)); [exact W3|rewrite is_direct_sub; exact D2|split; discriminate].
    - (* ITry *)
      apply andb_prop in W as [W _]. apply andb_prop in W as [W W3]. apply andb_prop in W as [W1 _].
      cbn [ldef_ok] in D. apply andb_prop in D as [D1 D2].
      change (flat_map (ptoks1 fl2) b1) with (ptoks fl2 b1). change (flat_map (ptoks1 fl2) b2) with (ptoks fl2 b2).
      pose proof (LPs_of _ H (sub_ctx cx) (Some "}") W1 ltac:(rewrite is_direct_sub; exact D1)
                    ltac:(split; discriminate)) as S1.
      pose proof (LPs_of _ H0 (sub_ctx cx) (Some "}") W3 ltac:(rewrite is_direct_sub; exact D2)
                    ltac:(split; discriminate)) as S2.
      destruct (ptoks fl2 b2) as [|t2 ts2] eqn:E2.
      + assert (b2 = []) as ->.
        { destruct b2 as [|i2 b2']; [reflexivity|]. exfalso. unfold ptoks in E2. cbn [flat_map] in E2.
          apply app_eq_nil in E2 as [E2 _]. exact (ptoks1_nonempty _ _ E2). }
        cbn [app]. rewrite braces_eq. apply st_try_b; [right; reflexivity|exact S1|apply N].
      + rewrite <- E2 in *.
        replace ("OP_TRY" :: "{" :: ptoks fl2 b1 ++ ("}" :: "EXCEPT" :: "{" :: ptoks fl2 b2) ++ ["}"])
          with ("OP_TRY" :: braces (ptoks fl2 b1) ++ "EXCEPT" :: braces (ptoks fl2 b2))
          by (unfold braces; cbn [app]; rewrite <- app_assoc; reflexivity).
        apply st_try_bb; [right; reflexivity|exact S1|exact S2].
    - (* ILoop *)
      apply andb_prop in W as [W _]. cbn [ldef_ok] in D.
      change (flat_map (ptoks1 fl2) body) with (ptoks fl2 body). rewrite braces_eq.
      apply st_loop_b; [apply name_self|].
      apply (LPs_of _ H (sub_ctx cx)); [exact W|rewrite is_direct_sub; exact D|split; discriminate].
    - (* INop *) apply st_nop. apply sp_byte_tok_d.
  Qed.

  Theorem listing_spells : forall p, wf_prog p = true -> forallb (ldef_ok false) p = true ->
    spells fl2 p (ptoks fl2 p).
  Proof.
    intros p W D. apply (LPs_of p); [|exact W|exact D|split; discriminate].
    apply Forall_forall. intros i _. apply LP_all.
  Qed.

  (* assemble generalises the reader of the decompiler's listing (Asm.parse_listing) *)
  Theorem assemble_listing : forall p ind, wf_prog p = true -> forallb (ldef_ok false) p = true ->
    assemble fl2 ct (tokens_of (print fl2 ind p)) = Some (encode p).
  Proof.
    intros p ind W D. rewrite tokens_print. apply assemble_spells; [apply listing_spells; assumption|exact W].
  Qed.

  Corollary assemble_parse_listing : forall p ind, wf_prog p = true -> forallb (ldef_ok false) p = true ->
    assemble fl2 ct (tokens_of (print fl2 ind p)) =
    option_map encode (parse_listing fl2 (tokens_of (print fl2 ind p))).
  Proof.
    intros p ind W D. rewrite assemble_listing, listing_roundtrip by assumption. reflexivity.
  Qed.

  (* on what the decompiler lists for valid byte code *)
  Corollary assemble_decompile : forall b ls, decompile fl2 b = Some ls ->
    (forall p, decode b = Some p -> forallb (ldef_ok false) p = true) ->
    assemble fl2 ct (tokens_of ls) = Some b.
  Proof.
    intros b ls H D. destruct (decompile_sound fl2 b ls H) as (p & -> & E & W & _).
    rewrite assemble_listing; [congruence|exact W|]. apply D. rewrite <- E. apply decode_encode. exact W.
  Qed.
End Listing.


(* ====================================================================================== *)
(* Rejections: after any well-spelled prefix, a malformed statement makes the Python raise  *)
(* ====================================================================================== *)

Lemma asm_loop_run_gen : forall pn c l r code k, run pn c l r code k -> c <> DefDirect ->
  forall n X, (List.length l <= n)%nat ->
  (forall n', (List.length r <= n')%nat -> asm_loop pn n' r = X) ->
  asm_loop pn n l = rbind X (fun code' => Ok (code ++ code')).
Proof.
  intros pn c l r code k R C. induction R as [r|h ss l' r code code' k Hh P R IH]; intros n X L F.
  - rewrite (F n L). destruct X; reflexivity.
  - rewrite app_length in L. cbn [List.length] in L. destruct n as [|n']; [lia|].
    cbn [app asm_loop]. rewrite (defpre_id c h C) in P. cbn [app] in P. rewrite P. cbn [rbind].
    rewrite skipn_stmt. rewrite (IH n' X) by (try lia; exact F).
    destruct X; cbn [rbind]; try reflexivity. rewrite app_assoc. reflexivity.
Qed.

Section Rejections.
  Variable fl2 : Z -> Z.
  Variable ct : bytes -> res (option bytes).
  Notation PN := (fun f => pn_at fl2 ct f []).
  Lemma PN0_S : forall f, PN (S f) = parse_next fl2 (ASM fl2 ct [] f) (PN f) [] (COMPILE fl2 ct f).
  Proof. reflexivity. Qed.

  (* the general form: a prefix that is a spelling, then symbols on which parse_next raises *)
  Theorem reject_after : forall nx p sp rest,
    seq fl2 Top nx p sp -> wf_prog p = true -> hd_error rest = nx ->
    existsb bad_symbol rest = false ->
    (forall f n', asm_loop (PN (S f)) (S n') rest = Err) ->
    assemble_r fl2 ct (sp ++ rest) = Err.
  Proof.
    intros nx p sp rest S W Hr U E. unfold assemble_r.
    destruct (good_seq fl2 _ _ _ _ S W) as (_ & _ & U1 & _).
    assert (UU : existsb bad_symbol (sp ++ rest) = false) by (rewrite existsb_app, U1, U; reflexivity).
    rewrite (bad_unmodelled _ UU).
    replace (2 * List.length (sp ++ rest) + 2)%nat with (Datatypes.S (2 * List.length (sp ++ rest) + 1)) by lia.
    rewrite asm_fuel_free by exact UU.
    pose proof (proj2 (proj2 (spells_correct fl2 ct [])) _ _ _ _ S W (2 * List.length (sp ++ rest) + 1)%nat rest
                  ltac:(rewrite app_length; lia) Hr) as R.
    rewrite (asm_loop_run_gen _ Top _ _ _ _ R ltac:(discriminate) _ Err (le_n _)); [reflexivity|].
    intros n' L. replace (2 * List.length (sp ++ rest) + 1)%nat with (Datatypes.S (2 * List.length (sp ++ rest))) by lia.
    destruct rest as [|x rest']; [|destruct n'; [cbn [List.length] in L; lia|apply E]].
    (* rest = []: the hypothesis E is then false *)
    specialize (E O O). destruct n'; discriminate E.
  Qed.

  Lemma asm_loop_err : forall f n' c rest, PN (S f) c (c :: rest) = Err ->
    asm_loop (PN (S f)) (S n') (c :: rest) = Err.
  Proof. intros f n' c rest H. cbn [asm_loop]. rewrite H. reflexivity. Qed.

  (* 1. operand missing at the end of the source *)
  Lemma get_args_nil : forall o, shape_of o <> ShNone -> get_args fl2 o [] = Err.
  Proof. intros o H. unfold get_args. destruct (shape_of o); try reflexivity. congruence. Qed.

  Theorem reject_operand_missing : forall p sp o n,
    seq fl2 Top (Some n) p sp -> wf_prog p = true ->
    spell_name Top o n -> simple_op o = true -> shape_of o <> ShNone ->
    assemble_r fl2 ct (sp ++ [n]) = Err.
  Proof.
    intros p sp o n S W N SO SH. apply (reject_after (Some n) p sp [n] S W eq_refl).
    - cbn [existsb]. destruct (leafb_spec n (spell_name_leaf Top o n N)) as (U & _). rewrite U. reflexivity.
    - intros f n'. apply asm_loop_err. rewrite PN0_S.
      change n with (defpre Top n) at 1. rewrite (pn_opcode fl2 _ _ _ _ Top n _ o N SO).
      cbn [tl]. rewrite get_args_nil by exact SH. reflexivity.
  Qed.

  Theorem reject_operand_missing_nop : forall p sp code,
    seq fl2 Top (Some (nop_name code)) p sp -> wf_prog p = true -> (n_opcodes <= code < 256)%nat ->
    assemble_r fl2 ct (sp ++ [nop_name code]) = Err.
  Proof.
    intros p sp code S W R. apply (reject_after _ p sp [nop_name code] S W eq_refl).
    - cbn [existsb]. destruct (leafb_spec _ (nop_name_leaf code R)) as (U & _). rewrite U. reflexivity.
    - intros f n'. apply asm_loop_err. rewrite PN0_S.
      change (nop_name code) with (defpre Top (nop_name code)) at 1. rewrite (pn_nop fl2 _ _ _ _ Top code _ R).
      reflexivity.
  Qed.

  Theorem reject_operand_missing_push : forall p sp n,
    seq fl2 Top (Some n) p sp -> wf_prog p = true -> push_name n ->
    assemble_r fl2 ct (sp ++ [n]) = Err.
  Proof.
    intros p sp n S W N. apply (reject_after (Some n) p sp [n] S W eq_refl).
    - destruct N as [->| ->]; reflexivity.
    - intros f n'. apply asm_loop_err. rewrite PN0_S. destruct N as [->| ->]; reflexivity.
  Qed.

  (* the second operand of two, the third of three *)
  Theorem reject_second_operand_missing : forall p sp o n v,
    seq fl2 Top (Some n) p sp -> wf_prog p = true -> spell_name Top o n ->
    shape_of o = ShSwap \/ shape_of o = ShMultisig \/ shape_of o = ShWriteCache ->
    bad_symbol v = false ->
    assemble_r fl2 ct (sp ++ [n; v]) = Err.
  Proof.
    intros p sp o n v S W N SH U. apply (reject_after (Some n) p sp [n; v] S W eq_refl).
    - cbn [existsb]. destruct (leafb_spec n (spell_name_leaf Top o n N)) as (U' & _). rewrite U', U. reflexivity.
    - intros f n'. apply asm_loop_err. rewrite PN0_S.
      assert (SO : simple_op o = true) by (apply simple_by_shape; destruct SH as [H|[H|H]]; rewrite H; exact I).
      change n with (defpre Top n) at 1. rewrite (pn_opcode fl2 _ _ _ _ Top n _ o N SO).
      cbn [tl]. unfold get_args. destruct SH as [H|[H|H]]; rewrite H; reflexivity.
  Qed.

  (* 2. value out of range for its operand *)
  Lemma i2b_one_byte_range : CodecProofs.fl2_ok fl2 -> forall z b, int_to_bytes fl2 z = Some [b] -> -128 <= z <= 127.
  Proof.
    intros F z b H. destruct (int_roundtrip fl2 F z) as (b' & E & D & _). rewrite H in E. injection E as <-.
    rewrite s8_spec in D. injection D as <-. apply s8_range.
  Qed.

  Lemma val_byte_out_of_range : CodecProofs.fl2_ok fl2 -> forall c r z, dD c -> sp_snum z r ->
    ~ (-128 <= z <= 127) -> val_byte fl2 (String c r) = Err.
  Proof.
    intros F c r z C H R. unfold val_byte, split_val. cbn [rbind].
    destruct (sp_snum_spec z r H) as (sg & d & E & G & L & V & S).
    assert (SD : split_dot r = r).
    { rewrite E. apply (proj1 (split_dot_sign sg d S (proj2 G) "")). }
    assert (K : rbind (i2b fl2 z) (fun v => match v with [_] => Ok v | _ => Err end) = Err).
    { unfold i2b. destruct (int_to_bytes fl2 z) as [[|b [|b2 t]]|] eqn:I; try reflexivity.
      exfalso. apply R. apply (i2b_one_byte_range F z b I). }
    destruct C as [->| ->]; cbn [lower_c is_upper asc_between]; cbn [N_of_ascii N.leb]; cbv iota;
      change (Ascii.eqb (lower_c "D") "d") with true; change (Ascii.eqb "d" "d") with true; cbv iota;
      rewrite L; unfold isnumeric; rewrite (proj1 G), (proj2 G); cbn [andb];
      rewrite SD, V; cbn [of_opt rbind]; exact K.
  Qed.

  Lemma val_byte_hex_too_long : forall c r, xX c -> (2 < String.length r)%nat -> val_byte fl2 (String c r) = Err.
  Proof.
    intros c r C L. unfold val_byte, split_val. cbn [rbind].
    rewrite (proj2 (Nat.leb_gt _ _)) by lia. destruct C as [->| ->]; reflexivity.
  Qed.

  Lemma val_index_out_of_range : forall c r z, dD c -> sp_num z r -> 256 <= z -> val_index (String c r) = Err.
  Proof.
    intros c r z C H R. unfold val_index, split_val. cbn [rbind].
    destruct (sp_num_spec _ _ H) as (_ & _ & V).
    destruct C as [->| ->]; cbn - [Z.ltb]; rewrite (sp_num_isnumeric _ _ H), V; cbn [of_opt rbind];
      rewrite (proj2 (Z.ltb_ge _ _)) by lia; reflexivity.
  Qed.

  Theorem reject_bad_byte_operand : forall p sp o n v rest,
    seq fl2 Top (Some n) p sp -> wf_prog p = true -> spell_name Top o n -> is_sh1 (shape_of o) = true ->
    val_byte fl2 v = Err -> existsb bad_symbol (v :: rest) = false ->
    assemble_r fl2 ct (sp ++ n :: v :: rest) = Err.
  Proof.
    intros p sp o n v rest S W N SH E U. apply (reject_after (Some n) p sp (n :: v :: rest) S W eq_refl).
    - cbn [existsb] in *. destruct (leafb_spec n (spell_name_leaf Top o n N)) as (U' & _). rewrite U'. exact U.
    - intros f n'. apply asm_loop_err. rewrite PN0_S.
      assert (SO : simple_op o = true).
      { destruct (simple_op o) eqn:Q; [reflexivity|].
        destruct (shape_simple o Q) as [Q1|[Q1|Q1]]; rewrite Q1 in SH; discriminate SH. }
      change n with (defpre Top n) at 1. rewrite (pn_opcode fl2 _ _ _ _ Top n _ o N SO).
      cbn [tl]. unfold get_args. destruct (shape_of o); try discriminate SH; unfold args_push0; rewrite E; reflexivity.
  Qed.

  Theorem reject_bad_swap_operand : forall p sp n a b rest,
    seq fl2 Top (Some n) p sp -> wf_prog p = true -> spell_name Top O_SWAP n ->
    val_index a = Err \/ (exists va, val_index a = Ok va /\ val_index b = Err) ->
    existsb bad_symbol (a :: b :: rest) = false ->
    assemble_r fl2 ct (sp ++ n :: a :: b :: rest) = Err.
  Proof.
    intros p sp n a b rest S W N E U. apply (reject_after (Some n) p sp (n :: a :: b :: rest) S W eq_refl).
    - cbn [existsb] in *. destruct (leafb_spec n (spell_name_leaf Top _ n N)) as (U' & _). rewrite U'. exact U.
    - intros f n'. apply asm_loop_err. rewrite PN0_S.
      change n with (defpre Top n) at 1. rewrite (pn_opcode fl2 _ _ _ _ Top n _ O_SWAP N eq_refl).
      cbn [tl]. unfold get_args. cbn [shape_of]. unfold args_swap.
      destruct E as [E|(va & E1 & E2)]; [rewrite E; reflexivity|]. rewrite E1, E2. reflexivity.
  Qed.

  (* 2b. the explicit size of OP_PUSH1 / OP_PUSH2 does not denote the length of the value
     (_check_push_size; before that fix these sources were mis-assembled: findings A1, A2) *)
  Lemma sp_size_mismatch : forall m a v, sp_size m a -> m <> blen v -> check_push_size (Some a) v = Err.
  Proof.
    intros m a v [c r C H|c r b C H NE E] D; unfold check_push_size.
    - destruct (sp_snum_spec _ _ H) as (sg & d & Q & G & _ & V & S).
      assert (N : nonempty r = true).
      { rewrite Q. destruct S as [->|[->| ->]]; try reflexivity. cbn [append]. apply G. }
      rewrite N. apply Z.eqb_neq in D.
      destruct C as [->| ->]; cbn - [py_int Z.eqb]; rewrite V; cbn [of_opt rbind]; rewrite D; reflexivity.
    - assert (N : nonempty r = true).
      { pose proof (sp_hex_length _ _ H) as L. destruct b; [congruence|]. cbn [List.length] in L.
        destruct r; [cbn [String.length] in L; lia|reflexivity]. }
      rewrite N. subst m. apply Z.eqb_neq in D.
      destruct C as [->| ->]; cbn - [Z.eqb]; rewrite (sp_hex_unhex _ _ H); cbn [of_opt rbind]; rewrite D; reflexivity.
  Qed.

  Theorem reject_push1_size : forall p sp n a v s rest,
    seq fl2 Top (Some n) p sp -> wf_prog p = true -> spell_name Top O_PUSH1 n ->
    sp_var1 fl2 v s -> oplike s = false -> check_push_size (Some a) v = Err ->
    existsb bad_symbol (a :: rest) = false ->
    assemble_r fl2 ct (sp ++ n :: a :: s :: rest) = Err.
  Proof.
    intros p sp n a v s rest S W N V O E U.
    apply (reject_after (Some n) p sp (n :: a :: s :: rest) S W eq_refl).
    - cbn [existsb] in *. destruct (leafb_spec n (spell_name_leaf Top _ n N)) as (U1 & _).
      destruct (leafb_spec s (sp_var1_leaf fl2 v s V)) as (U2 & _).
      apply orb_false_elim in U as [Ua Ur]. rewrite U1, U2, Ua, Ur. reflexivity.
    - intros f n'. apply asm_loop_err. rewrite PN0_S.
      change n with (defpre Top n) at 1. rewrite (pn_opcode fl2 _ _ _ _ Top n _ O_PUSH1 N eq_refl).
      cbn [tl]. unfold get_args. cbn [shape_of]. unfold args_push1. cbn [pick_val]. rewrite O. cbn [rbind].
      rewrite (sp_var1_ok fl2 v s V). cbn [rbind]. unfold len1_r.
      destruct (blen v <? 256); [|reflexivity]. cbn [rbind]. rewrite E. reflexivity.
  Qed.

  Theorem reject_push2_size : forall p sp n a v s rest,
    seq fl2 Top (Some n) p sp -> wf_prog p = true -> spell_name Top O_PUSH2 n ->
    sp_push2 fl2 v s -> oplike s = false -> check_push_size (Some a) v = Err ->
    existsb bad_symbol (a :: rest) = false ->
    assemble_r fl2 ct (sp ++ n :: a :: s :: rest) = Err.
  Proof.
    intros p sp n a v s rest S W N V O E U.
    apply (reject_after (Some n) p sp (n :: a :: s :: rest) S W eq_refl).
    - cbn [existsb] in *. destruct (leafb_spec n (spell_name_leaf Top _ n N)) as (U1 & _).
      destruct (leafb_spec s (sp_push2_leaf fl2 v s V)) as (U2 & _).
      apply orb_false_elim in U as [Ua Ur]. rewrite U1, U2, Ua, Ur. reflexivity.
    - intros f n'. apply asm_loop_err. rewrite PN0_S.
      change n with (defpre Top n) at 1. rewrite (pn_opcode fl2 _ _ _ _ Top n _ O_PUSH2 N eq_refl).
      cbn [tl]. unfold get_args. cbn [shape_of]. unfold args_push2. cbn [pick_val]. rewrite O. cbn [rbind].
      rewrite (sp_push2_ok fl2 v s V). cbn [rbind]. unfold len2_r.
      destruct (blen v <? 65536); [|reflexivity]. cbn [rbind]. rewrite E. reflexivity.
  Qed.

  (* 3. unknown name (this covers 4a: a closing brace, END_ word, ELSE, EXCEPT, parenthesis without
     its opening statement) *)
  Definition unknown_name (n : string) : Prop :=
    is_comment n = false /\ opcode_index (canon n) = None /\ nop_index (canon n) = None /\
    String.eqb (canon n) "OP_PUSH" = false /\ String.eqb (canon n) "OP_TRY" = false /\
    match canon n with String c _ => Ascii.eqb c "@" = false /\ Ascii.eqb c "!" = false | EmptyString => True end.

  Lemma pn_unknown : forall asm pn macs compile n tail, unknown_name n -> parse_next fl2 asm pn macs compile n tail = Err.
  Proof.
    intros asm pn macs compile n tail (A & B & C & D & E & G). unfold parse_next. rewrite A.
    destruct (canon n) as [|c0 cr] eqn:Q; [reflexivity|]. destruct G as [G1 G2].
    rewrite B, C, D, E, G1, G2.
    assert (X1 : String.eqb (String c0 cr) "@=" = false).
    { cbn [String.eqb]. rewrite G1. reflexivity. }
    assert (X2 : String.eqb (String c0 cr) "!=" = false).
    { cbn [String.eqb]. rewrite G2. reflexivity. }
    assert (X3 : is_prefix "@#" (String c0 cr) = false).
    { unfold is_prefix. cbn [prefix]. destruct (ascii_dec "@" c0) as [<-|_]; [discriminate G1|reflexivity]. }
    rewrite X1, X2, X3. reflexivity.
  Qed.

  Theorem reject_unknown_name : forall nx p sp n rest,
    seq fl2 Top nx p sp -> wf_prog p = true -> nx = Some n -> unknown_name n ->
    existsb bad_symbol (n :: rest) = false ->
    assemble_r fl2 ct (sp ++ n :: rest) = Err.
  Proof.
    intros nx p sp n rest S W -> K U. apply (reject_after _ p sp (n :: rest) S W eq_refl U).
    intros f n'. apply asm_loop_err. rewrite PN0_S. apply pn_unknown. exact K.
  Qed.

  Lemma unknown_specials : Forall unknown_name
    ["}"; "{"; "("; ")"; "ELSE"; "END_IF"; "END_DEF"; "END_LOOP"; "END_TRY"; "EXCEPT"; "END_EXCEPT";
     "OP_NOP92"; "NOP91"; "NOP256"; "NOP092"; "FOO"; "OP_FOO"; "true"; "op_true"].
  Proof. repeat (apply Forall_cons; [repeat split; reflexivity|]). apply Forall_nil. Qed.

  (* 4. unbalanced braces *)
  (* 4a. a closing brace that closes nothing *)
  Corollary reject_extra_close : forall p sp rest,
    seq fl2 Top (Some "}") p sp -> wf_prog p = true -> existsb bad_symbol rest = false ->
    assemble_r fl2 ct (sp ++ "}" :: rest) = Err.
  Proof.
    intros p sp rest S W U. apply (reject_unknown_name _ p sp "}" rest S W eq_refl); [|exact U].
    repeat split; reflexivity.
  Qed.

  (* 4b. an opening brace and no closing brace in the rest of the source *)
  Lemma block_start_unclosed : forall ends kw t, mem "}" t = false ->
    block_start ends (kw :: "{" :: t) = Err.
  Proof.
    intros ends kw t H. cbn [block_start]. change (String.eqb "{" "{") with true. cbv iota.
    assert (mem "}" ("{" :: t) = false) as ->; [|reflexivity].
    unfold mem in *. cbn [existsb]. rewrite H. reflexivity.
  Qed.

  Theorem reject_unclosed_block : forall p sp n rest,
    seq fl2 Top (Some n) p sp -> wf_prog p = true ->
    spell_name Top O_IF n \/ spell_name Top O_LOOP n \/ try_name n ->
    mem "}" rest = false -> existsb bad_symbol rest = false ->
    assemble_r fl2 ct (sp ++ n :: "{" :: rest) = Err.
  Proof.
    intros p sp n rest S W N M U. apply (reject_after (Some n) p sp (n :: "{" :: rest) S W eq_refl).
    - cbn [existsb]. rewrite U.
      assert (bad_symbol n = false) as ->; [|reflexivity].
      destruct N as [N|[N|[->| ->]]]; try reflexivity;
        destruct (leafb_spec n (spell_name_leaf Top _ n N)) as (U' & _); exact U'.
    - intros f n'. apply asm_loop_err. rewrite PN0_S. destruct N as [N|[N|N]].
      + change n with (defpre Top n) at 1. rewrite pn_if_kw by exact N.
        rewrite parse_if_nohoist by reflexivity. unfold if_rest. rewrite block_start_unclosed by exact M. reflexivity.
      + change n with (defpre Top n) at 1. rewrite pn_loop_kw by exact N.
        unfold parse_loop. rewrite block_start_unclosed by exact M. reflexivity.
      + change n with (defpre Top n) at 1. rewrite pn_try_kw by exact N.
        unfold parse_try. rewrite block_start_unclosed by exact M. reflexivity.
  Qed.

  Theorem reject_unclosed_def : forall p sp n h hs rest,
    seq fl2 Top (Some n) p sp -> wf_prog p = true -> spell_name Top O_DEF n -> sp_handle h hs ->
    mem "}" rest = false -> existsb bad_symbol rest = false ->
    assemble_r fl2 ct (sp ++ n :: hs :: "{" :: rest) = Err.
  Proof.
    intros p sp n h hs rest S W N Hh M U.
    apply (reject_after (Some n) p sp (n :: hs :: "{" :: rest) S W eq_refl).
    - cbn [existsb]. rewrite U.
      destruct (leafb_spec n (spell_name_leaf Top _ n N)) as (U1 & _).
      destruct (leafb_spec hs (sp_handle_leaf h hs Hh)) as (U2 & _). rewrite U1, U2. reflexivity.
    - intros f n'. apply asm_loop_err. rewrite PN0_S.
      change n with (defpre Top n) at 1. rewrite pn_def_kw by exact N.
      unfold parse_def. rewrite (sp_handle_ok h hs Hh). cbn [rbind].
      change (String.eqb "{" "{") with true. cbv iota.
      destruct (leafb_spec n (spell_name_leaf Top _ n N)) as (_ & _ & K1 & _).
      destruct (leafb_spec hs (sp_handle_leaf h hs Hh)) as (_ & _ & K2 & _).
      assert (mem "}" (n :: hs :: "{" :: rest) = false) as ->; [|reflexivity].
      unfold mem in *. cbn [existsb]. rewrite (String.eqb_sym "}" n), (String.eqb_sym "}" hs), K1, K2, M. reflexivity.
  Qed.
End Rejections.

(* ====================================================================================== *)
(* Names are case-insensitive in the source: get_symbols upper-cases every spelling of a    *)
(* name (norm_token), and assemble compares the upper-case names                             *)
(* ====================================================================================== *)

Definition keyword_syms : list string :=
  ["PUSH"; "OP_PUSH"; "TRY"; "OP_TRY"; "{"; "}"; "("; ")"; "ELSE"; "END_IF"; "END_DEF"; "END_LOOP";
   "EXCEPT"; "END_EXCEPT"].
Definition all_names : list string :=
  gen_opcode_names ++ map fst gen_aliases ++ map nop_name gen_nop_codes ++ keyword_syms.

(* a name does not look like a value after upper-casing *)
Definition not_valuelike (n : string) : bool :=
  match n with
  | EmptyString => true
  | String c r =>
    negb (Ascii.eqb c "D" && isnumeric r) && negb (Ascii.eqb c "X" && is_hex_s r)
    && negb (Ascii.eqb c "S" && match r with String q _ => Ascii.eqb q dquote || Ascii.eqb q squote | _ => true end)
    && negb (Ascii.eqb c "!") && negb (Ascii.eqb c "@")
    && negb (Ascii.eqb c "d") && negb (Ascii.eqb c "x") && negb (Ascii.eqb c "s")
  end.
Lemma names_not_valuelike : forallb not_valuelike all_names = true.
Proof. vm_compute. reflexivity. Qed.

Lemma upper_digit : forall c, is_digit c = true -> upper_c c = c.
Proof. intros c. destruct c as [[] [] [] [] [] [] [] []]; intros H; try discriminate H; reflexivity. Qed.
Lemma upper_digits : forall r, sall is_digit r = true -> upper_s r = r.
Proof.
  induction r as [|c r IH]; intros H; [reflexivity|]. cbn [sall] in H. apply andb_prop in H as [H1 H2].
  unfold upper_s in *. cbn [smap]. rewrite upper_digit, IH by assumption. reflexivity.
Qed.
Lemma hex_upper : forall c, is_hexlow (lower_c c) = true -> is_hexlow (lower_c (upper_c c)) = true.
Proof. intros c. destruct c as [[] [] [] [] [] [] [] []]; intros H; try discriminate H; reflexivity. Qed.
Lemma is_hex_upper : forall r, is_hex_s r = true -> is_hex_s (upper_s r) = true.
Proof.
  induction r as [|c r IH]; intros H; [reflexivity|]. unfold is_hex_s in *. cbn [sall] in H.
  apply andb_prop in H as [H1 H2]. unfold upper_s. cbn [smap sall]. fold (upper_s r).
  rewrite IH by exact H2. fold (is_hexlow (lower_c c)) in H1. fold (is_hexlow (lower_c (upper_c c))).
  rewrite hex_upper by exact H1. reflexivity.
Qed.

Theorem names_case_insensitive : forall n t, In n all_names -> upper_s t = n -> norm_token t = n.
Proof.
  intros n t I E. pose proof (proj1 (forallb_forall _ _) names_not_valuelike n I) as K.
  subst n. destruct t as [|c r]; [reflexivity|]. unfold norm_token.
  unfold upper_s in K. cbn [smap not_valuelike] in K. fold (upper_s r) in K.
  repeat (apply andb_prop in K as [K ?]).
  repeat match goal with H : negb _ = true |- _ => apply negb_true_iff in H end.
  destruct (Ascii.eqb c "d") eqn:Ed.
  { apply Ascii.eqb_eq in Ed. subst c. destruct (isnumeric r) eqn:N; [|reflexivity].
    exfalso. unfold isnumeric in N. apply andb_prop in N as [N1 N2].
    rewrite (upper_digits r N2) in K. unfold isnumeric in K. rewrite N1, N2 in K. discriminate K. }
  destruct (Ascii.eqb c "x") eqn:Ex.
  { apply Ascii.eqb_eq in Ex. subst c. destruct (is_hex_s r) eqn:N; [|reflexivity].
    exfalso. rewrite (is_hex_upper r N) in *.
    match goal with H : Ascii.eqb (upper_c "x") "X" && true = false |- _ => discriminate H end. }
  destruct (Ascii.eqb c "s") eqn:Es.
  { apply Ascii.eqb_eq in Es. subst c. destruct r as [|q r']; [exfalso|].
    - match goal with H : Ascii.eqb (upper_c "s") "S" && _ = false |- _ => discriminate H end.
    - destruct (Ascii.eqb q dquote || Ascii.eqb q squote) eqn:Q; [|reflexivity]. exfalso.
      assert (upper_c q = q) as Uq.
      { apply orb_prop in Q as [Q|Q]; apply Ascii.eqb_eq in Q; subst q; reflexivity. }
      match goal with H : Ascii.eqb (upper_c "s") "S" && _ = false |- _ =>
        unfold upper_s in H; cbn [smap] in H; rewrite Uq, Q in H; discriminate H end. }
  destruct (Ascii.eqb c "!") eqn:E1.
  { apply Ascii.eqb_eq in E1. subst c. exfalso.
    match goal with H : Ascii.eqb (upper_c "!") "!" = false |- _ => discriminate H end. }
  destruct (Ascii.eqb c "@") eqn:E2.
  { apply Ascii.eqb_eq in E2. subst c. exfalso.
    match goal with H : Ascii.eqb (upper_c "@") "@" = false |- _ => discriminate H end. }
  reflexivity.
Qed.

(* every key of the generated alias table is a name of an opcode, and so is every OP_ name *)
Lemma alias_targets : forallb (fun p => match opcode_index (snd p) with Some _ => true | None => false end)
                        gen_aliases = true.
Proof. vm_compute. reflexivity. Qed.

Theorem every_alias_spells : forall a t, In (a, t) gen_aliases -> exists o, t = opcode_name o /\ spell_name Top o a.
Proof.
  intros a t I. pose proof (proj1 (forallb_forall _ _) alias_targets _ I) as K. cbn [snd] in K.
  destruct (opcode_index t) as [k|] eqn:E; [|discriminate K].
  unfold opcode_index in E. rewrite <- opcode_names_match in E.
  assert (X : exists o, t = opcode_name o).
  { clear -E. revert k E. generalize all_opcodes. induction l as [|o l IH]; intros k E; [discriminate E|].
    cbn [map index_of] in E. destruct (String.eqb (opcode_name o) t) eqn:Q.
    - apply String.eqb_eq in Q. eauto.
    - destruct (index_of t (map opcode_name l)) eqn:E2; [|discriminate E]. eapply IH. reflexivity. }
  destruct X as (o & ->). exists o. split; [reflexivity|]. right. exact I.
Qed.

(* ====================================================================================== *)
(* Findings: behaviours of the compiler that look like defects, as computations of the      *)
(* model; every source below was run through the real compiler (parsing.compile_script)      *)
(* with the same outcome (see also the self-tests at the end of model/Assembler.v)           *)
(* ====================================================================================== *)

Definition asm (syms : list string) : res bytes := assemble_r fl2_exact ct0 syms.
Definition enc (p : list instr) : res bytes := Ok (encode p).

(* A1, A2 (oddity O1) -- FIXED in the implementation by _check_push_size.  Before the fix the size
   operand of "OP_PUSH1 size value" / "OP_PUSH2 size value" was never looked at:
   "push1 d99 x0102 true" assembled to 03 02 0102 01, and "push1 x0102 x0304 true" MIS-ASSEMBLED to
   03 02 0304 01 (the first value dropped silently, because the second symbol does not look like a
   name).  Both are now rejected, as is every size form that does not denote the length of the value
   ([reject_push1_size], [reject_push2_size] with [sp_size_mismatch]); the sizes that do are accepted. *)
Theorem fixed_push1_size_checked :
  asm ["PUSH1"; "d99"; "x0102"; "TRUE"] = Err /\
  asm ["PUSH2"; "d99"; "x0102"; "TRUE"] = Err /\
  asm ["PUSH1"; "x0102"; "x0304"; "TRUE"] = Err /\
  asm ["PUSH1"; "x2"; "x0102"; "TRUE"] = Err /\
  asm ["PUSH1"; "d2.0"; "x0102"; "TRUE"] = Err /\
  asm ["PUSH1"; "x"; "x"; "TRUE"] = Err /\
  asm ["PUSH1"; "d2"; "x0102"; "TRUE"] = enc [IVar1 O_PUSH1 [x01; x02]; IOp0 O_TRUE] /\
  asm ["PUSH1"; "D+2"; "x0102"; "TRUE"] = enc [IVar1 O_PUSH1 [x01; x02]; IOp0 O_TRUE] /\
  asm ["PUSH1"; "d0"; "x"; "TRUE"] = enc [IVar1 O_PUSH1 []; IOp0 O_TRUE] /\
  asm ["PUSH2"; "x0002"; "x0102"; "TRUE"] = enc [IPush2 [x01; x02]; IOp0 O_TRUE].
Proof. repeat split; vm_compute; reflexivity. Qed.

(* A3 (O1).  the one-operand form "push1 value" is rejected at the end of the source and before
   END_LOOP, EXCEPT, END_EXCEPT, TRY, PUSH, @k, a comment -- which are not in the list that the
   lookahead consults -- while it is accepted before a closing brace, END_IF, an opcode name *)
Theorem finding_push1_lookahead :
  asm ["PUSH1"; "x0102"] = Err /\
  asm ["LOOP"; "PUSH1"; "x01"; "END_LOOP"] = Err /\
  asm ["LOOP"; "{"; "PUSH1"; "x01"; "}"] = enc [ILoop [IVar1 O_PUSH1 [x01]]] /\
  asm ["TRY"; "PUSH1"; "x01"; "EXCEPT"; "TRUE"; "END_EXCEPT"] = Err /\
  asm ["PUSH1"; "x01"; "TRY"; "{"; "TRUE"; "}"] = Err /\
  asm ["PUSH1"; "x01"; "PUSH"; "x02"] = Err /\
  asm ["PUSH1"; "x01"; "@k"] = Err /\
  asm ["PUSH1"; "x01"; "#"; "C"; "#"] = Err /\
  asm ["PUSH1"; "x01"; "TRUE"] = enc [IVar1 O_PUSH1 [x01]; IOp0 O_TRUE].
Proof. repeat split; vm_compute; reflexivity. Qed.

(* A4 (O2) -- FIXED in the implementation: an alias directly inside a DEF body is now resolved
   through the alias table as everywhere else.  Before the fix parse_def turned OP_RCZ into
   OP_OP_RCZ and "def 0 { op_rcz x01 }" was rejected.  [spell_name] is now the same in every context. *)
Theorem fixed_def_alias :
  asm ["DEF"; "0"; "{"; "OP_RCZ"; "x01"; "}"] = enc [IDef x00 [IVar1 O_READ_CACHE_SIZE [x01]]] /\
  asm ["DEF"; "0"; "{"; "RCZ"; "x01"; "}"] = enc [IDef x00 [IVar1 O_READ_CACHE_SIZE [x01]]] /\
  asm ["DEF"; "0"; "{"; "ADD"; "d2"; "}"] = enc [IDef x00 [IOp1 O_ADD_INTS x02]] /\
  asm ["OP_RCZ"; "x01"] = enc [IVar1 O_READ_CACHE_SIZE [x01]] /\
  asm ["DEF"; "0"; "{"; "DEF"; "1"; "{"; "TRUE"; "}"; "}"] = Err.
Proof. repeat split; vm_compute; reflexivity. Qed.

(* the names accepted directly in a DEF body are those accepted everywhere *)
Theorem spell_name_any_context : forall c c' o s, spell_name c o s <-> spell_name c' o s.
Proof. intros. unfold spell_name. tauto. Qed.

(* A5 (O4).  "try true end_try": END_TRY is announced by parse_try's own check (and error message)
   but never handled *)
Theorem finding_end_try :
  asm ["TRY"; "TRUE"; "END_TRY"] = Err /\
  asm ["TRY"; "{"; "TRUE"; "}"] = enc [ITry [IOp0 O_TRUE] []].
Proof. split; vm_compute; reflexivity. Qed.

(* A6 (O3).  unbalanced or mismatched block terminators are accepted: "if { if { true }" (one brace
   missing), "loop { if { true end_if }" (END_IF closes a brace block) *)
Theorem finding_unbalanced_accepted :
  asm ["IF"; "{"; "IF"; "{"; "TRUE"; "}"] = enc [IIf [IIf [IOp0 O_TRUE]]] /\
  asm ["LOOP"; "{"; "IF"; "{"; "TRUE"; "END_IF"; "}"] = enc [ILoop [IIf [IOp0 O_TRUE]]].
Proof. split; vm_compute; reflexivity. Qed.

(* A7.  OP_DEF inside an OP_DEF body is refused only at the first level: "def 0 { def 1 { true } }"
   is rejected, "def 0 { if { def 1 { true } } }" is accepted; and the decompiler's listing of byte
   code with a DEF directly in a DEF body cannot be compiled again, so the premise [ldef_ok] of
   [assemble_listing] is necessary *)
Theorem finding_def_in_def :
  asm ["DEF"; "0"; "{"; "DEF"; "1"; "{"; "TRUE"; "}"; "}"] = Err /\
  asm ["DEF"; "0"; "{"; "IF"; "{"; "DEF"; "1"; "{"; "TRUE"; "}"; "}"; "}"]
    = enc [IDef x00 [IIf [IDef x01 [IOp0 O_TRUE]]]].
Proof. split; vm_compute; reflexivity. Qed.

Theorem assemble_listing_needs_ldef_ok :
  exists p, wf_prog p = true /\ decode (encode p) = Some p /\
            assemble fl2_exact ct0 (tokens_of (print fl2_exact 0 p)) = None /\
            parse_listing fl2_exact (tokens_of (print fl2_exact 0 p)) = Some p.
Proof. exists [IDef x00 [IDef x01 [IOp0 O_TRUE]]]. repeat split; vm_compute; reflexivity. Qed.

(* A8.  an ELSE after a brace block always belongs to that block: in
   "if if { true } else false end_if" the inner IF takes the ELSE and the END_IF, and the outer IF
   just ends with the source *)
Theorem finding_dangling_else :
  asm ["IF"; "IF"; "{"; "TRUE"; "}"; "ELSE"; "FALSE"; "END_IF"]
    = enc [IIf [IIfElse [IOp0 O_TRUE] [IOp0 O_FALSE]]].
Proof. vm_compute. reflexivity. Qed.

(* ====================================================================================== *)
(* The relation is inhabited: the example source of the task                                 *)
(*   if ( true ) { push d1 } else { push x0102 } @= k 1 @k                                   *)
(* ====================================================================================== *)

Lemma assoc_In : forall a t l, assoc a l = Some t -> In (a, t) l.
Proof.
  induction l as [|[k v] l IH]; intros H; [discriminate H|]. cbn [assoc] in H.
  destruct (String.eqb k a) eqn:E.
  - apply String.eqb_eq in E. injection H as ->. subst. left. reflexivity.
  - right. apply IH. exact H.
Qed.
Lemma alias_name : forall c a o, alias_of a = Some (opcode_name o) -> is_prefix "OP_" a = false -> spell_name c o a.
Proof. intros c a o H P. right. apply assoc_In; exact H. Qed.

Definition example_prog : list instr :=
  [IOp0 O_TRUE; IIfElse [IOp1 O_PUSH0 x01] [IVar1 O_PUSH1 [x01; x02]];
   IWriteCache (str "k") x01; IVar1 O_READ_CACHE (str "k")].
Definition example_syms : list string :=
  ["IF"; "("; "TRUE"; ")"; "{"; "PUSH"; "d1"; "}"; "ELSE"; "{"; "PUSH"; "x0102"; "}"; "@="; "k"; "1"; "@k"].

Example example_spells : spells fl2_exact example_prog example_syms.
Proof.
  unfold spells, example_prog, example_syms.
  apply (sq_cons fl2_exact Top None [IOp0 O_TRUE; IIfElse [IOp1 O_PUSH0 x01] [IVar1 O_PUSH1 [x01; x02]]]
           ["IF"; "("; "TRUE"; ")"; "{"; "PUSH"; "d1"; "}"; "ELSE"; "{"; "PUSH"; "x0102"; "}"]
           [IWriteCache (str "k") x01; IVar1 O_READ_CACHE (str "k")] ["@="; "k"; "1"; "@k"]).
  - apply (st_ifh fl2_exact Top _ "IF" [IOp0 O_TRUE] ["TRUE"] (IIfElse [IOp1 O_PUSH0 x01] [IVar1 O_PUSH1 [x01; x02]])
             (braces ["PUSH"; "d1"] ++ "ELSE" :: braces ["PUSH"; "x0102"])).
    + apply alias_name; reflexivity.
    + apply (sq_cons fl2_exact _ None [IOp0 O_TRUE] ["TRUE"] [] []); [|apply sq_nil].
      apply st_op0; [apply alias_name; reflexivity|reflexivity].
    + apply ite_bb.
      * apply (sq_cons fl2_exact _ _ [IOp1 O_PUSH0 x01] ["PUSH"; "d1"] [] []); [|apply sq_nil].
        apply (st_pushp fl2_exact _ _ "PUSH" [x01] "d1"); [left; reflexivity| |reflexivity].
        apply (sp_d fl2_exact _ "d" "1" 1); [left; reflexivity| |reflexivity].
        apply (num_dec 1). discriminate.
      * apply (sq_cons fl2_exact _ _ [IVar1 O_PUSH1 [x01; x02]] ["PUSH"; "x0102"] [] []); [|apply sq_nil].
        apply (st_pushp fl2_exact _ _ "PUSH" [x01; x02] "x0102"); [left; reflexivity| |reflexivity].
        apply sp_x; [left; reflexivity|reflexivity].
  - apply (sq_cons fl2_exact Top None [IWriteCache (str "k") x01] ["@="; "k"; "1"] [IVar1 O_READ_CACHE (str "k")] ["@k"]).
    + apply st_setvar; [reflexivity|]. apply (num_dec 1). discriminate.
    + apply (sq_cons fl2_exact Top None [IVar1 O_READ_CACHE (str "k")] ["@k"] [] []); [|apply sq_nil].
      apply st_loadvar. reflexivity.
Qed.

Example example_assembles : assemble fl2_exact ct0 example_syms = Some (encode example_prog).
Proof. apply assemble_spells; [apply example_spells|reflexivity]. Qed.

(* ====================================================================================== *)
(* Macros and comptime blocks                                                               *)
(* ====================================================================================== *)

(* != name [ args ] { template } *)
Definition defsyms (name : string) (args tmpl : list string) : list string :=
  "!=" :: name :: "[" :: args ++ "]" :: "{" :: tmpl ++ ["}"].
Definition def_ok (name : string) (args tmpl : list string) : Prop :=
  is_ascii_s name = true /\ isalnum (lower_s name) = true /\
  Forall (fun a => isalnum a = true) args /\ (forall k, scan "{" "}" tmpl k = Some k) /\
  existsb unmodelled_symbol tmpl = false.
Definition mac_of (args tmpl : list string) : macro := {| m_args := args; m_template := tmpl |}.

Lemma alnum_not : forall a x, isalnum a = true -> isalnum x = false -> String.eqb a x = false.
Proof.
  intros a x A X. destruct (String.eqb a x) eqn:E; [|reflexivity]. apply String.eqb_eq in E. subst. congruence.
Qed.
Lemma lower_alnum_not : forall a x, isalnum (lower_s a) = true -> isalnum (lower_s x) = false -> String.eqb a x = false.
Proof.
  intros a x A X. destruct (String.eqb a x) eqn:E; [|reflexivity]. apply String.eqb_eq in E. subst. congruence.
Qed.

Lemma scan_neutral : forall op cl l, Forall (fun a => String.eqb a cl = false /\ String.eqb a op = false) l ->
  forall k, scan op cl l k = Some k.
Proof.
  induction 1 as [|a l [A B] F IH]; intros k; [reflexivity|]. cbn [scan]. rewrite A, B. apply IH.
Qed.
Lemma alnum_scan : forall op cl l, isalnum op = false -> isalnum cl = false ->
  Forall (fun a => isalnum a = true) l -> forall k, scan op cl l k = Some k.
Proof.
  intros op cl l O C F. apply scan_neutral. revert F. apply Forall_impl. intros a A.
  split; apply alnum_not; assumption.
Qed.
Lemma all_alnum_ok : forall l, Forall (fun a => isalnum a = true) l -> all_alnum_r l = Ok tt.
Proof.
  induction 1 as [|a l A F IH]; [reflexivity|]. cbn [all_alnum_r]. unfold alnum_r.
  rewrite (isalnum_ascii a A), A. cbn [negb rbind]. exact IH.
Qed.
Lemma alnum_unmodelled : forall l, Forall (fun a => isalnum a = true) l -> existsb unmodelled_symbol l = false.
Proof.
  induction 1 as [|a l A F IH]; [reflexivity|]. cbn [existsb]. rewrite IH, orb_false_r.
  unfold unmodelled_symbol. rewrite (isalnum_ascii a A). reflexivity.
Qed.

Lemma nth_error_mid : forall (A : Type) (a : list A) x b, nth_error (a ++ x :: b) (List.length a) = Some x.
Proof. induction a; intros; [reflexivity|]. cbn [app List.length nth_error]. apply IHa. Qed.
Lemma firstn_skipn_mid : forall (A : Type) (a b c : list A),
  firstn (List.length b) (skipn (List.length a) (a ++ b ++ c)) = b.
Proof. intros. rewrite skipn_app_len. induction b; [reflexivity|]. cbn [List.length app firstn]. rewrite IHb. reflexivity. Qed.

Lemma skipn_app_plus : forall (A : Type) (a b : list A) k, skipn (List.length a + k) (a ++ b) = skipn k b.
Proof. induction a; intros; [reflexivity|]. cbn [List.length plus app skipn]. apply IHa. Qed.

Lemma define_macro_ok : forall name args tmpl rest, def_ok name args tmpl ->
  define_macro (defsyms name args tmpl ++ rest) =
  Ok (List.length (defsyms name args tmpl), lower_s name, mac_of args tmpl).
Proof.
  intros name args tmpl rest (A & N & FA & B & _). unfold defsyms. cbn [app]. unfold define_macro.
  assert (An : is_ascii_s (lower_s name) = true) by (apply isalnum_ascii; exact N).
  unfold alnum_r at 1. rewrite An, N. cbn [negb rbind]. change (String.eqb "[" "[") with true. cbv iota.
  assert (N1 : String.eqb name "]" = false) by (apply lower_alnum_not; [exact N|reflexivity]).
  assert (N2 : String.eqb name "[" = false) by (apply lower_alnum_not; [exact N|reflexivity]).
  assert (N3 : String.eqb name "}" = false) by (apply lower_alnum_not; [exact N|reflexivity]).
  assert (N4 : String.eqb name "{" = false) by (apply lower_alnum_not; [exact N|reflexivity]).
  (* the closing bracket *)
  assert (F1 : find_matching_brace ("!=" :: name :: "[" :: (args ++ "]" :: "{" :: tmpl ++ ["}"]) ++ rest) "[" "]"
               = Some (3 + List.length args)%nat).
  { unfold find_matching_brace. cbn [fmb_go String.eqb Ascii.eqb Bool.eqb]. rewrite N1, N2.
    cbn [String.eqb Ascii.eqb Bool.eqb]. rewrite <- app_assoc. cbn [app].
    apply (fmb_balanced "[" "]" args). apply alnum_scan; [reflexivity|reflexivity|exact FA]. }
  rewrite F1. cbn [of_opt rbind].
  replace (3 + List.length args - 3)%nat with (List.length args) by lia.
  cbn [skipn]. rewrite <- app_assoc. cbn [app].
  rewrite firstn_app_len. rewrite (all_alnum_ok args FA). cbn [rbind].
  assert (E2 : nth_error ("!=" :: name :: "[" :: args ++ "]" :: "{" :: (tmpl ++ ["}"]) ++ rest)
                 (Datatypes.S (3 + List.length args)) = Some "{").
  { replace (Datatypes.S (3 + List.length args)) with (3 + List.length (args ++ ["]"]))%nat
      by (rewrite app_length; cbn [List.length]; lia).
    change (args ++ "]" :: "{" :: (tmpl ++ ["}"]) ++ rest)
      with (args ++ ["]"] ++ "{" :: (tmpl ++ ["}"]) ++ rest). rewrite app_assoc.
    cbn [plus nth_error]. apply nth_error_mid. }
  rewrite E2. change (String.eqb "{" "{") with true. cbv iota.
  assert (F2 : find_matching_brace ("!=" :: name :: "[" :: args ++ "]" :: "{" :: (tmpl ++ ["}"]) ++ rest) "{" "}"
               = Some (5 + List.length args + List.length tmpl)%nat).
  { unfold find_matching_brace. cbn [fmb_go String.eqb Ascii.eqb Bool.eqb]. rewrite N3, N4.
    cbn [String.eqb Ascii.eqb Bool.eqb].
    assert (G : forall l o c i r, Forall (fun a => isalnum a = true) l ->
                fmb_go "{" "}" o c i (l ++ r) = fmb_go "{" "}" o c (i + List.length l) r).
    { induction l as [|a l IH]; intros o c i r F; [rewrite Nat.add_0_r; reflexivity|].
      inversion F as [|a' l' Ha Fl]; subst. cbn [app fmb_go List.length].
      rewrite (alnum_not a "}" Ha eq_refl), (alnum_not a "{" Ha eq_refl). rewrite IH by exact Fl. f_equal. lia. }
    rewrite (G args 0 0 3 _ FA)%nat. cbn [fmb_go String.eqb Ascii.eqb Bool.eqb].
    rewrite <- app_assoc. cbn [app].
    rewrite (fmb_balanced "{" "}" tmpl rest _ B). f_equal; lia. }
  rewrite F2. cbn [of_opt rbind]. f_equal. f_equal.
  - f_equal. cbn [List.length]. rewrite app_length. cbn [List.length]. rewrite app_length. cbn [List.length]. lia.
  - unfold mac_of. f_equal.
    replace (5 + List.length args + List.length tmpl - (3 + List.length args + 2))%nat with (List.length tmpl) by lia.
    replace (3 + List.length args + 2)%nat with (3 + (List.length args + 2))%nat by lia.
    cbn [plus skipn]. rewrite skipn_app_plus. cbn [skipn]. rewrite <- app_assoc. apply firstn_app_len.
Qed.

Definition def3 : Type := (string * list string * list string)%type.
Definition def3_ok (d : def3) : Prop := let '(n, a, t) := d in def_ok n a t.
Definition defs_syms (ds : list def3) : list string := flat_map (fun '(n, a, t) => defsyms n a t) ds.
(* the macro table after the definitions (newest first) *)
Fixpoint table_of (ds : list def3) (m : macros) : macros :=
  match ds with
  | [] => m
  | (n, a, t) :: r => table_of r ((lower_s n, mac_of a t) :: m)
  end.

Section MacroTheorems.
  Variable fl2 : Z -> Z.
  Variable ct : bytes -> res (option bytes).
  Variable asm : macros -> list string -> res (macros * bytes).

  Lemma comptime_pass : forall s1, existsb bad_symbol s1 = false -> forall n m rest,
    comptime ct asm (List.length s1 + n) m (s1 ++ rest) =
    rbind (comptime ct asm n m rest) (fun '(m', new) => Ok (m', s1 ++ new)).
  Proof.
    induction s1 as [|s s1 IH]; intros B n m rest.
    - cbn [List.length plus app]. destruct (comptime ct asm n m rest) as [[m' new]| |]; reflexivity.
    - cbn [existsb] in B. apply orb_false_elim in B as [B1 B2].
      destruct (bad_symbol_spec s B1) as (E1 & E2 & E3 & _).
      cbn [List.length plus app comptime]. rewrite E1, E2, E3. cbn [orb]. rewrite (IH B2 n m rest).
      destruct (comptime ct asm n m rest) as [[m' new]| |]; reflexivity.
  Qed.

  Lemma comptime_def : forall n m name args tmpl rest, def_ok name args tmpl ->
    comptime ct asm (Datatypes.S n) m (defsyms name args tmpl ++ rest) =
    comptime ct asm n ((lower_s name, mac_of args tmpl) :: m) rest.
  Proof.
    intros n m name args tmpl rest D.
    pose proof (define_macro_ok name args tmpl rest D) as E. unfold defsyms in *. cbn [app] in *.
    cbn [comptime]. change (String.eqb "!=" "!=") with true. cbv iota. rewrite E. cbn [rbind].
    change ("!=" :: name :: "[" :: (args ++ "]" :: "{" :: tmpl ++ ["}"]) ++ rest)
      with (("!=" :: name :: "[" :: args ++ "]" :: "{" :: tmpl ++ ["}"]) ++ rest).
    rewrite skipn_app_len. reflexivity.
  Qed.

  Lemma comptime_defs : forall ds, Forall def3_ok ds -> forall n m rest,
    comptime ct asm (List.length ds + n) m (defs_syms ds ++ rest) = comptime ct asm n (table_of ds m) rest.
  Proof.
    induction 1 as [|[[nm a] t] ds D F IH]; intros n m rest; [reflexivity|].
    unfold defs_syms. cbn [flat_map List.length plus table_of]. rewrite <- app_assoc.
    rewrite (comptime_def _ m nm a t _ D). apply IH.
  Qed.
End MacroTheorems.

Lemma def_unmodelled : forall name args tmpl, def_ok name args tmpl ->
  existsb unmodelled_symbol (defsyms name args tmpl) = false.
Proof.
  intros name args tmpl (A & _ & FA & _ & U). unfold defsyms. cbn [existsb].
  rewrite existsb_app. cbn [existsb]. rewrite existsb_app. cbn [existsb].
  rewrite (alnum_unmodelled args FA), U. unfold unmodelled_symbol at 2. rewrite A. reflexivity.
Qed.
Lemma defs_unmodelled : forall ds, Forall def3_ok ds -> existsb unmodelled_symbol (defs_syms ds) = false.
Proof.
  induction 1 as [|[[nm a] t] ds D F IH]; [reflexivity|]. unfold defs_syms. cbn [flat_map].
  rewrite existsb_app, (def_unmodelled nm a t D). exact IH.
Qed.
Lemma defs_length : forall ds, (List.length ds <= List.length (defs_syms ds))%nat.
Proof.
  induction ds as [|[[nm a] t] ds IH]; [apply le_n|]. unfold defs_syms in *. cbn [flat_map List.length].
  rewrite app_length. unfold defsyms at 1. cbn [List.length]. lia.
Qed.

(* (d) definitions do not emit code *)
Theorem definitions_emit_no_code : forall fl2 ct ds, Forall def3_ok ds -> assemble_r fl2 ct (defs_syms ds) = Ok [].
Proof.
  intros fl2 ct ds F. unfold assemble_r. rewrite (defs_unmodelled ds F).
  set (L := List.length (defs_syms ds)). pose proof (defs_length ds) as Ld. fold L in Ld.
  assert (E : forall a, comptime ct a L [] (defs_syms ds) = Ok (table_of ds [], [])).
  { intros a. replace L with (List.length ds + (L - List.length ds))%nat by lia.
    rewrite <- (app_nil_r (defs_syms ds)). rewrite (comptime_defs _ _ ds F).
    destruct (L - List.length ds)%nat; reflexivity. }
  replace (2 * L + 2)%nat with (Datatypes.S (2 * L + 1)) by lia. cbn [asm_fuel]. fold L.
  rewrite E. reflexivity.
Qed.

(* adding an unused definition anywhere at top level does not change the result *)
Theorem unused_definition : forall fl2 ct p s1 s2 name args tmpl,
  spells fl2 p (s1 ++ s2) -> wf_prog p = true -> def_ok name args tmpl ->
  assemble_r fl2 ct (s1 ++ defsyms name args tmpl ++ s2) = Ok (encode p) /\
  assemble_r fl2 ct (s1 ++ s2) = Ok (encode p).
Proof.
  intros fl2 ct p s1 s2 name args tmpl S W D. split; [|apply assemble_r_spells; assumption].
  destruct (good_seq fl2 _ _ _ _ S W) as (_ & _ & U & _).
  rewrite existsb_app in U. apply orb_false_elim in U as [U1 U2].
  unfold assemble_r.
  rewrite existsb_app, (bad_unmodelled s1 U1), existsb_app, (def_unmodelled _ _ _ D), (bad_unmodelled s2 U2).
  cbn [orb].
  set (L := List.length (s1 ++ defsyms name args tmpl ++ s2)).
  assert (EL : L = (List.length s1 + Datatypes.S (List.length args + List.length tmpl + 5 + List.length s2))%nat).
  { unfold L, defsyms. rewrite app_length. cbn [app List.length]. rewrite !app_length. cbn [List.length].
    rewrite !app_length. cbn [List.length]. lia. }
  assert (E : forall a, comptime ct a L [] (s1 ++ defsyms name args tmpl ++ s2) =
                        Ok ([(lower_s name, mac_of args tmpl)], s1 ++ s2)).
  { intros a. rewrite EL. rewrite (comptime_pass _ _ s1 U1). rewrite (comptime_def _ _ _ _ name args tmpl s2 D).
    rewrite comptime_id by (try exact U2; lia). reflexivity. }
  replace (2 * L + 2)%nat with (Datatypes.S (2 * L + 1)) by lia. cbn [asm_fuel]. fold L.
  rewrite E. cbn [rbind].
  rewrite (spells_loop fl2 ct p (s1 ++ s2) S W) by (rewrite ?app_length in *; lia). reflexivity.
Qed.

Lemma skipn_block : forall (A : Type) (a b x : A) l post,
  skipn (Datatypes.S (2 + List.length l)) (a :: b :: l ++ x :: post) = post.
Proof.
  intros. replace (Datatypes.S (2 + List.length l)) with (List.length (a :: b :: l ++ [x]))
    by (cbn [List.length]; rewrite app_length; cbn [List.length]; lia).
  change (a :: b :: l ++ x :: post) with (a :: b :: l ++ [x] ++ post).
  rewrite app_assoc. change (a :: b :: (l ++ [x]) ++ post) with ((a :: b :: l ++ [x]) ++ post).
  apply skipn_app_len.
Qed.

(* (c) a comptime block in an operand position is the value symbol x<hex of its code> *)
Theorem comptime_block : forall fl2 ct pS S p pre post,
  spells fl2 pS S -> wf_prog pS = true ->
  spells fl2 p (pre ++ tok_x (encode pS) :: post) -> wf_prog p = true ->
  assemble_r fl2 ct (pre ++ "~" :: "{" :: S ++ "}" :: post) = Ok (encode p).
Proof.
  intros fl2 ct pS S p pre post SS WS SP WP.
  destruct (good_seq fl2 _ _ _ _ SS WS) as (BS & _ & US & _).
  destruct (good_seq fl2 _ _ _ _ SP WP) as (_ & _ & UP & _).
  rewrite existsb_app in UP. apply orb_false_elim in UP as [U1 U2].
  cbn [existsb] in U2. apply orb_false_elim in U2 as [_ U2].
  unfold assemble_r.
  assert (UU : existsb unmodelled_symbol (pre ++ "~" :: "{" :: S ++ "}" :: post) = false).
  { rewrite existsb_app, (bad_unmodelled pre U1). cbn [existsb]. rewrite existsb_app, (bad_unmodelled S US).
    cbn [existsb]. rewrite (bad_unmodelled post U2). reflexivity. }
  rewrite UU.
  set (L := List.length (pre ++ "~" :: "{" :: S ++ "}" :: post)).
  assert (EL : L = (List.length pre + Datatypes.S (List.length S + 2 + List.length post))%nat).
  { unfold L. rewrite app_length. cbn [List.length]. rewrite app_length. cbn [List.length]. lia. }
  assert (E : comptime ct (asm_fuel fl2 ct (2 * L + 1)) L [] (pre ++ "~" :: "{" :: S ++ "}" :: post) =
              Ok ([], pre ++ tok_x (encode pS) :: post)).
  { rewrite EL at 2. rewrite (comptime_pass _ _ pre U1). cbn [comptime String.eqb Ascii.eqb Bool.eqb orb].
    assert (F : find_matching_brace ("~" :: "{" :: S ++ "}" :: post) "{" "}" = Some (2 + List.length S)%nat).
    { unfold find_matching_brace. cbn [fmb_go String.eqb Ascii.eqb Bool.eqb]. apply (fmb_balanced "{" "}" S post 2 BS). }
    rewrite F. cbn [of_opt rbind].
    replace (2 + List.length S - 2)%nat with (List.length S) by lia.
    change (skipn 2 ("~" :: "{" :: S ++ "}" :: post)) with (S ++ "}" :: post). rewrite firstn_app_len.
    replace (2 * L + 1)%nat with (Datatypes.S (2 * L)) by lia.
    rewrite (asm_fuel_spells fl2 ct pS S SS WS) by lia. cbn [rbind].
    rewrite skipn_block.
    rewrite comptime_id by (try exact U2; lia). reflexivity. }
  replace (2 * L + 2)%nat with (Datatypes.S (2 * L + 1)) by lia. cbn [asm_fuel]. fold L.
  rewrite E. cbn [rbind].
  rewrite (spells_loop fl2 ct p _ SP WP) by (rewrite ?app_length in *; cbn [List.length] in *; lia). reflexivity.
Qed.

(* e.g. push ~ { S } is the PUSH of the assembled bytes of S *)
Corollary push_comptime : forall fl2 ct pS S i, spells fl2 pS S -> wf_prog pS = true ->
  push_instr (encode pS) = Some i ->
  assemble_r fl2 ct ("PUSH" :: "~" :: "{" :: S ++ ["}"]) = Ok (encode1 i).
Proof.
  intros fl2 ct pS S i SS WS P. rewrite <- encode_one.
  apply (comptime_block fl2 ct pS S [i] ["PUSH"] [] SS WS).
  - apply (sq_cons fl2 Top None [i] ["PUSH"; tok_x (encode pS)] [] []); [|apply sq_nil].
    apply (st_pushp fl2 Top _ "PUSH" (encode pS) _ i); [left; reflexivity| |exact P].
    apply sp_x; [left; reflexivity|apply sp_hex_hex].
  - cbn [wf_prog forallb]. rewrite andb_true_r. apply (push_minimal _ _ P).
Qed.

(* ---------- "~! { ops }": run-time blocks, through the parameter ct ---------- *)

Lemma comptime_run_core : forall fl2 ct pS S pre post F n,
  spells fl2 pS S -> wf_prog pS = true -> existsb bad_symbol pre = false -> (List.length S <= F)%nat ->
  comptime ct (asm_fuel fl2 ct (Datatypes.S F)) (List.length pre + Datatypes.S n) []
    (pre ++ "~!" :: "{" :: S ++ "}" :: post) =
  rbind (ct (encode pS)) (fun top =>
  rbind (comptime ct (asm_fuel fl2 ct (Datatypes.S F)) n [] post) (fun '(m2, new) =>
    Ok (m2, pre ++ match top with Some v => tok_x v :: new | None => new end))).
Proof.
  intros fl2 ct pS S pre post F n SS WS U1 LF.
  destruct (good_seq fl2 _ _ _ _ SS WS) as (BS & _ & US & _).
  rewrite (comptime_pass _ _ pre U1). cbn [comptime String.eqb Ascii.eqb Bool.eqb orb].
  assert (Fm : find_matching_brace ("~!" :: "{" :: S ++ "}" :: post) "{" "}" = Some (2 + List.length S)%nat).
  { unfold find_matching_brace. cbn [fmb_go String.eqb Ascii.eqb Bool.eqb]. apply (fmb_balanced "{" "}" S post 2 BS). }
  rewrite Fm. cbn [of_opt rbind].
  replace (2 + List.length S - 2)%nat with (List.length S) by lia.
  change (skipn 2 ("~!" :: "{" :: S ++ "}" :: post)) with (S ++ "}" :: post). rewrite firstn_app_len.
  rewrite (asm_fuel_spells fl2 ct pS S SS WS) by exact LF. cbn [rbind]. rewrite skipn_block.
  destruct (ct (encode pS)) as [[v|]| |]; cbn [rbind]; try reflexivity;
    destruct (comptime ct (asm_fuel fl2 ct (Datatypes.S F)) n [] post) as [[m2 new]| |]; reflexivity.
Qed.

Lemma run_block_unmodelled : forall fl2 pS S pre post, spells fl2 pS S -> wf_prog pS = true ->
  existsb unmodelled_symbol pre = false -> existsb unmodelled_symbol post = false ->
  existsb unmodelled_symbol (pre ++ "~!" :: "{" :: S ++ "}" :: post) = false.
Proof.
  intros fl2 pS S pre post SS WS U1 U2. destruct (good_seq fl2 _ _ _ _ SS WS) as (_ & _ & US & _).
  rewrite existsb_app, U1. cbn [existsb]. rewrite existsb_app, (bad_unmodelled S US). cbn [existsb].
  rewrite U2. reflexivity.
Qed.

Lemma run_block_length : forall (S pre post : list string),
  List.length (pre ++ "~!" :: "{" :: S ++ "}" :: post) =
  (List.length pre + Datatypes.S (List.length S + 2 + List.length post))%nat.
Proof. intros. rewrite app_length. cbn [List.length]. rewrite app_length. cbn [List.length]. lia. Qed.

(* (a) a run-time block in an operand position is the value symbol x<hex of the top stack item> *)
Theorem comptime_run_block : forall fl2 ct pS S v p pre post,
  spells fl2 pS S -> wf_prog pS = true -> ct (encode pS) = Ok (Some v) ->
  spells fl2 p (pre ++ tok_x v :: post) -> wf_prog p = true ->
  assemble_r fl2 ct (pre ++ "~!" :: "{" :: S ++ "}" :: post) = Ok (encode p).
Proof.
  intros fl2 ct pS S v p pre post SS WS C SP WP.
  destruct (good_seq fl2 _ _ _ _ SP WP) as (_ & _ & UP & _).
  rewrite existsb_app in UP. apply orb_false_elim in UP as [U1 U2].
  cbn [existsb] in U2. apply orb_false_elim in U2 as [_ U2].
  unfold assemble_r.
  rewrite (run_block_unmodelled fl2 pS S pre post SS WS (bad_unmodelled pre U1) (bad_unmodelled post U2)).
  set (L := List.length (pre ++ "~!" :: "{" :: S ++ "}" :: post)).
  pose proof (run_block_length S pre post) as EL. fold L in EL.
  assert (E : comptime ct (asm_fuel fl2 ct (2 * L + 1)) L [] (pre ++ "~!" :: "{" :: S ++ "}" :: post) =
              Ok ([], pre ++ tok_x v :: post)).
  { rewrite EL at 2. replace (2 * L + 1)%nat with (Datatypes.S (2 * L)) by lia.
    rewrite (comptime_run_core fl2 ct pS S pre post _ _ SS WS U1) by lia. rewrite C. cbn [rbind].
    rewrite comptime_id by (try exact U2; lia). reflexivity. }
  replace (2 * L + 2)%nat with (Datatypes.S (2 * L + 1)) by lia. cbn [asm_fuel]. fold L.
  rewrite E. cbn [rbind].
  rewrite (spells_loop fl2 ct p _ SP WP) by (rewrite ?app_length in *; cbn [List.length] in *; lia). reflexivity.
Qed.

(* e.g. push ~! { S } is the PUSH of the top stack item *)
Corollary push_comptime_run : forall fl2 ct pS S v i, spells fl2 pS S -> wf_prog pS = true ->
  ct (encode pS) = Ok (Some v) -> push_instr v = Some i ->
  assemble_r fl2 ct ("PUSH" :: "~!" :: "{" :: S ++ ["}"]) = Ok (encode1 i).
Proof.
  intros fl2 ct pS S v i SS WS C P. rewrite <- encode_one.
  apply (comptime_run_block fl2 ct pS S v [i] ["PUSH"] [] SS WS C).
  - apply (sq_cons fl2 Top None [i] ["PUSH"; tok_x v] [] []); [|apply sq_nil].
    apply (st_pushp fl2 Top _ "PUSH" v _ i); [left; reflexivity| |exact P].
    apply sp_x; [left; reflexivity|apply sp_hex_hex].
  - cbn [wf_prog forallb]. rewrite andb_true_r. apply (push_minimal _ _ P).
Qed.

(* oddity C1: when the run leaves an empty stack the block contributes NO symbol (and no error) *)
Theorem comptime_run_empty : forall fl2 ct pS S p pre post,
  spells fl2 pS S -> wf_prog pS = true -> ct (encode pS) = Ok None ->
  spells fl2 p (pre ++ post) -> wf_prog p = true ->
  assemble_r fl2 ct (pre ++ "~!" :: "{" :: S ++ "}" :: post) = Ok (encode p).
Proof.
  intros fl2 ct pS S p pre post SS WS C SP WP.
  destruct (good_seq fl2 _ _ _ _ SP WP) as (_ & _ & UP & _).
  rewrite existsb_app in UP. apply orb_false_elim in UP as [U1 U2].
  unfold assemble_r.
  rewrite (run_block_unmodelled fl2 pS S pre post SS WS (bad_unmodelled pre U1) (bad_unmodelled post U2)).
  set (L := List.length (pre ++ "~!" :: "{" :: S ++ "}" :: post)).
  pose proof (run_block_length S pre post) as EL. fold L in EL.
  assert (E : comptime ct (asm_fuel fl2 ct (2 * L + 1)) L [] (pre ++ "~!" :: "{" :: S ++ "}" :: post) =
              Ok ([], pre ++ post)).
  { rewrite EL at 2. replace (2 * L + 1)%nat with (Datatypes.S (2 * L)) by lia.
    rewrite (comptime_run_core fl2 ct pS S pre post _ _ SS WS U1) by lia. rewrite C. cbn [rbind].
    rewrite comptime_id by (try exact U2; lia). reflexivity. }
  replace (2 * L + 2)%nat with (Datatypes.S (2 * L + 1)) by lia. cbn [asm_fuel]. fold L.
  rewrite E. cbn [rbind].
  rewrite (spells_loop fl2 ct p _ SP WP) by (rewrite ?app_length in *; lia). reflexivity.
Qed.

(* (b) when the run raises, the whole assembly raises, whatever follows the block *)
Theorem comptime_run_error : forall fl2 ct pS S pre post,
  spells fl2 pS S -> wf_prog pS = true -> ct (encode pS) = Err ->
  existsb bad_symbol pre = false -> existsb unmodelled_symbol post = false ->
  assemble_r fl2 ct (pre ++ "~!" :: "{" :: S ++ "}" :: post) = Err.
Proof.
  intros fl2 ct pS S pre post SS WS C U1 U2. unfold assemble_r.
  rewrite (run_block_unmodelled fl2 pS S pre post SS WS (bad_unmodelled pre U1) U2).
  set (L := List.length (pre ++ "~!" :: "{" :: S ++ "}" :: post)).
  pose proof (run_block_length S pre post) as EL. fold L in EL.
  assert (E : comptime ct (asm_fuel fl2 ct (2 * L + 1)) L [] (pre ++ "~!" :: "{" :: S ++ "}" :: post) = Err).
  { rewrite EL at 2. replace (2 * L + 1)%nat with (Datatypes.S (2 * L)) by lia.
    rewrite (comptime_run_core fl2 ct pS S pre post _ _ SS WS U1) by lia. rewrite C. reflexivity. }
  replace (2 * L + 2)%nat with (Datatypes.S (2 * L + 1)) by lia. cbn [asm_fuel]. fold L.
  rewrite E. reflexivity.
Qed.

(* any number of run-time blocks: [ctsrc w a]: w is the symbol list as written, a the list after
   parse_comptime (each "~! { S }" replaced by x<hex of the top item of the run of S>) *)
Section RunBlocks.
  Variable fl2 : Z -> Z.
  Variable ct : bytes -> res (option bytes).

  Inductive ctsrc : list string -> list string -> Prop :=
  | cs_plain : forall s, existsb bad_symbol s = false -> ctsrc s s
  | cs_block : forall pre pS S v rest rest', existsb bad_symbol pre = false ->
      spells fl2 pS S -> wf_prog pS = true -> ct (encode pS) = Ok (Some v) -> ctsrc rest rest' ->
      ctsrc (pre ++ "~!" :: "{" :: S ++ "}" :: rest) (pre ++ tok_x v :: rest').

  Lemma ctsrc_facts : forall w a, ctsrc w a ->
    (List.length a <= List.length w)%nat /\ existsb unmodelled_symbol w = false /\
    forall F n, (List.length w <= F)%nat -> (List.length w <= n)%nat ->
    comptime ct (asm_fuel fl2 ct (Datatypes.S F)) n [] w = Ok ([], a).
  Proof.
    induction 1 as [s U|pre pS S v rest rest' U SS WS C R (IL & IU & IH)].
    - split; [apply le_n|]. split; [apply bad_unmodelled; exact U|].
      intros F n _ Ln. apply comptime_id; assumption.
    - split; [|split].
      + rewrite run_block_length, app_length. cbn [List.length]. lia.
      + apply (run_block_unmodelled fl2 pS S pre rest SS WS (bad_unmodelled pre U) IU).
      + intros F n LF Ln. rewrite run_block_length in LF, Ln.
        replace n with (List.length pre + Datatypes.S (n - List.length pre - 1))%nat by lia.
        rewrite (comptime_run_core fl2 ct pS S pre rest _ _ SS WS U) by lia. rewrite C. cbn [rbind].
        rewrite IH by lia. reflexivity.
  Qed.

  (* what the statement loop does on the symbols after parse_comptime decides the result *)
  Theorem comptime_run_rewrite : forall w a code, ctsrc w a ->
    (forall m f n, (List.length a <= f)%nat -> (List.length a <= n)%nat ->
                   asm_loop (pn_at fl2 ct f m) n a = Ok code) ->
    assemble_r fl2 ct w = Ok code.
  Proof.
    intros w a code Cs Lp. destruct (ctsrc_facts w a Cs) as (La & U & E). unfold assemble_r. rewrite U.
    pose proof (E (2 * List.length w)%nat (List.length w) ltac:(lia) (le_n _)) as E1.
    replace (Datatypes.S (2 * List.length w)) with (2 * List.length w + 1)%nat in E1 by lia.
    replace (2 * List.length w + 2)%nat with (Datatypes.S (2 * List.length w + 1)) by lia.
    cbn [asm_fuel]. rewrite E1. cbn [rbind]. rewrite Lp by lia. reflexivity.
  Qed.
End RunBlocks.

(* ---------- (b) macro expansion ---------- *)

(* changing the symbol that follows a statement *)
Definition renx_ok (nx nx' : option string) : Prop :=
  nx' = nx \/ ((forall t, nx = Some t -> oplike t = false) /\ nx' <> Some "ELSE" /\ nx' <> Some "EXCEPT").

Section Renx.
  Variable fl2 : Z -> Z.
  Variable ct : bytes -> res (option bytes).

  Lemma iftail_renx : forall c nx i ts, iftail fl2 c nx i ts -> forall nx', renx_ok nx nx' -> iftail fl2 c nx' i ts.
  Proof.
    intros c nx i ts H nx' R. inversion H; subst; try (econstructor; eassumption).
    apply it_b; [assumption|]. destruct R as [->|(_ & R & _)]; assumption.
  Qed.

  Lemma stmt_renx : forall c nx is ss, stmt fl2 c nx is ss -> forall nx', renx_ok nx nx' -> stmt fl2 c nx' is ss.
  Proof.
    intros c nx is ss H nx' R. inversion H; subst; try (econstructor; eassumption).
    - (* push1, one operand *)
      destruct R as [->|(R & _)]; [apply st_push1_1; assumption|].
      rewrite (R t eq_refl) in *. discriminate.
    - destruct R as [->|(R & _)]; [apply st_push2_1; assumption|].
      rewrite (R t eq_refl) in *. discriminate.
    - apply st_if; [assumption|]. eapply iftail_renx; eassumption.
    - apply st_ifh; [assumption|assumption|]. eapply iftail_renx; eassumption.
    - apply st_try_b; [assumption|assumption|]. destruct R as [->|(_ & _ & R)]; assumption.
  Qed.

  Lemma seq_renx : forall c nx p sp, seq fl2 c nx p sp -> forall nx', renx_ok nx nx' -> seq fl2 c nx' p sp.
  Proof.
    assert (G : (forall c nx is ss, stmt fl2 c nx is ss -> True) /\
                (forall c nx i ts, iftail fl2 c nx i ts -> True) /\
                (forall c nx p ss, seq fl2 c nx p ss -> forall nx', renx_ok nx nx' -> seq fl2 c nx' p ss)).
    { apply spells_mutind; intros; auto.
      - apply sq_nil.
      - apply sq_cons; [|auto]. destruct sp as [|t sp']; [|assumption].
        cbn [hd_or] in *. eapply stmt_renx; eassumption. }
    intros c nx p sp S. apply (proj2 (proj2 G) _ _ _ _ S).
  Qed.

  Lemma seq_app : forall c nx p1 s1, seq fl2 c nx p1 s1 -> forall nx' p2 s2, seq fl2 c nx' p2 s2 ->
    nx = hd_or nx' s2 -> seq fl2 c nx' (p1 ++ p2) (s1 ++ s2).
  Proof.
    assert (G : (forall c nx is ss, stmt fl2 c nx is ss -> True) /\
                (forall c nx i ts, iftail fl2 c nx i ts -> True) /\
                (forall c nx p ss, seq fl2 c nx p ss -> forall nx' p2 s2, seq fl2 c nx' p2 s2 ->
                   nx = hd_or nx' s2 -> seq fl2 c nx' (p ++ p2) (ss ++ s2))).
    { apply spells_mutind; intros; auto; try (cbn [app]; assumption).
      rewrite <- !app_assoc. apply sq_cons; [|auto].
      destruct sp as [|t sp']; [|assumption]. cbn [hd_or app] in *. subst nx. assumption. }
    intros c nx p1 s1 S. apply (proj2 (proj2 G) _ _ _ _ S).
  Qed.
End Renx.

(* !name [ vals ] *)
Definition invocation (nm : string) (vals : list string) : list string :=
  String "!" nm :: "[" :: vals ++ ["]"].

Lemma alias_of_bang : forall k, alias_of (String "!" k) = None.
Proof. intros k. vm_compute. reflexivity. Qed.

Section MacroExpansion.
  Variable fl2 : Z -> Z.
  Variable ct : bytes -> res (option bytes).

  (* a top-level source with invocations of the macros of the table M (second list), the same
     source with every invocation textually replaced by the instantiated template (third list),
     and the program both stand for.  An invocation: the name is alphanumeric and in the table, the
     argument symbols are ordinary symbols other than brackets, as many as the macro has
     parameters; the instantiated template is left unchanged by the re-tokenisation
     (compile_script(' '.join(src))) and is a spelling of a program [pi] on its own.
     B bounds the length of the instantiated templates (for the fuel). *)
  Inductive mseq (B : nat) (M : macros) : list instr -> list string -> list string -> Prop :=
  | mq_nil : mseq B M [] [] []
  | mq_stmt : forall is ss p msp esp, stmt fl2 Top (hd_or None msp) is ss -> mseq B M p msp esp ->
      mseq B M (is ++ p) (ss ++ msp) (ss ++ esp)
  | mq_inv : forall nm vals mac pi p msp esp,
      isalnum nm = true -> macro_lookup (lower_s nm) M = Some mac ->
      List.length vals = List.length (m_args mac) ->
      Forall (fun v => leafb v = true /\ String.eqb v "[" = false /\ String.eqb v "]" = false) vals ->
      get_symbols (join_spaces (instantiate mac vals)) = Ok (instantiate mac vals) ->
      spells fl2 pi (instantiate mac vals) -> (List.length (instantiate mac vals) + 2 <= B)%nat ->
      mseq B M p msp esp ->
      mseq B M (pi ++ p) (invocation nm vals ++ msp) (instantiate mac vals ++ esp).

  Lemma bang_facts : forall nm, isalnum nm = true ->
    is_comment (String "!" nm) = false /\ canon (String "!" nm) = String "!" nm /\
    String.eqb (String "!" nm) "!=" = false /\ is_prefix "@#" (String "!" nm) = false /\
    bad_symbol (String "!" nm) = false.
  Proof.
    intros nm A. split; [reflexivity|]. split; [unfold canon; rewrite alias_of_bang; reflexivity|].
    assert (E : String.eqb nm "=" = false) by (apply alnum_not; [exact A|reflexivity]).
    split; [cbn [String.eqb Ascii.eqb Bool.eqb]; exact E|].
    split; [unfold is_prefix; cbn [prefix]; destruct (ascii_dec "@" "!") as [Q|_]; [discriminate Q|reflexivity]|].
    unfold bad_symbol, unmodelled_symbol. cbn [is_ascii_s sall]. fold (is_ascii_s nm).
    rewrite (isalnum_ascii nm A). unfold mem. cbn [existsb String.eqb Ascii.eqb Bool.eqb]. rewrite E. reflexivity.
  Qed.

  Lemma pn_invoke : forall f M nm vals mac pi msp,
    isalnum nm = true -> macro_lookup (lower_s nm) M = Some mac ->
    List.length vals = List.length (m_args mac) ->
    Forall (fun v => leafb v = true /\ String.eqb v "[" = false /\ String.eqb v "]" = false) vals ->
    get_symbols (join_spaces (instantiate mac vals)) = Ok (instantiate mac vals) ->
    spells fl2 pi (instantiate mac vals) -> wf_prog pi = true ->
    (List.length (instantiate mac vals) + 2 <= f)%nat ->
    pn_at fl2 ct f M (String "!" nm) (invocation nm vals ++ msp) =
    Ok (List.length (invocation nm vals), encode pi).
  Proof.
    intros f M nm vals mac pi msp A Lk Ln Fv G S W Lf.
    destruct f as [|[|f'']]; [lia|lia|].
    destruct (bang_facts nm A) as (C1 & C2 & C3 & C4 & _).
    rewrite (PN_S fl2 ct M). unfold parse_next. rewrite C1, C2, C3, C4.
    cbn [String.eqb Ascii.eqb Bool.eqb]. rewrite A.
    unfold invocation. cbn [app]. unfold invoke_macro. cbn [sdrop]. rewrite Lk.
    change (String.eqb "[" "[") with true. cbv iota.
    assert (F : find_matching_brace (String "!" nm :: "[" :: (vals ++ ["]"]) ++ msp) "[" "]"
                = Some (2 + List.length vals)%nat).
    { unfold find_matching_brace. cbn [fmb_go String.eqb Ascii.eqb Bool.eqb].
      rewrite <- app_assoc. cbn [app]. apply (fmb_balanced "[" "]" vals msp 2).
      apply scan_neutral. revert Fv. apply Forall_impl. intros v (_ & V1 & V2). split; assumption. }
    rewrite F. cbn [of_opt rbind].
    replace (2 + List.length vals - 2)%nat with (List.length vals) by lia.
    change (skipn 2 (String "!" nm :: "[" :: (vals ++ ["]"]) ++ msp)) with ((vals ++ ["]"]) ++ msp).
    rewrite <- app_assoc. rewrite firstn_app_len. rewrite Ln, Nat.eqb_refl.
    unfold COMPILE. rewrite G. cbn [rbind].
    rewrite (asm_fuel_spells fl2 ct pi _ S W) by lia. cbn [code_of rbind].
    f_equal. f_equal. cbn [List.length]. rewrite app_length. cbn [List.length]. lia.
  Qed.

  (* the macro source *)
  Lemma mseq_loop : forall B M p msrc esrc, mseq B M p msrc esrc -> wf_prog p = true ->
    existsb bad_symbol msrc = false /\
    forall f n, (List.length msrc <= f)%nat -> (B <= f)%nat -> (List.length msrc <= n)%nat ->
    asm_loop (pn_at fl2 ct f M) n msrc = Ok (encode p).
  Proof.
    induction 1 as [|is ss p msp esp S T IH|nm vals mac pi p msp esp A Lk Ln Fv G S LB T IH]; intros W.
    - split; [reflexivity|]. intros f n _ _ _. destruct n; reflexivity.
    - unfold wf_prog in W. rewrite forallb_app in W. apply andb_prop in W as [W1 W2].
      destruct (IH W2) as [U2 R2]. split.
      + destruct (good_stmt fl2 _ _ _ _ S W1) as (_ & _ & U1 & _). rewrite existsb_app, U1, U2. reflexivity.
      + intros f n Lf LB Lnn. rewrite app_length in Lf, Lnn.
        assert (Hh : hd_error msp = hd_or None msp) by (destruct msp; reflexivity).
        destruct (proj1 (spells_correct fl2 ct M) _ _ _ _ S W1 f msp ltac:(lia) Hh) as (h & t & -> & _ & P).
        cbn [defpre] in P. cbn [List.length] in *. destruct n as [|n']; [lia|].
        cbn [app asm_loop]. cbn [app] in P. rewrite P. cbn [rbind]. rewrite skipn_stmt.
        rewrite (R2 f n') by lia. cbn [rbind]. unfold encode. rewrite flat_map_app. reflexivity.
    - unfold wf_prog in W. rewrite forallb_app in W. apply andb_prop in W as [W1 W2].
      destruct (IH W2) as [U2 R2]. split.
      + unfold invocation. cbn [app existsb]. destruct (bang_facts nm A) as (_ & _ & _ & _ & Cb).
        rewrite Cb. rewrite <- app_assoc, existsb_app. cbn [app existsb]. rewrite U2.
        assert (Uv : existsb bad_symbol vals = false).
        { clear -Fv. induction Fv as [|v vals (Lv & _) _ IHv]; [reflexivity|]. cbn [existsb].
          destruct (leafb_spec v Lv) as (Bv & _). rewrite Bv, IHv. reflexivity. }
        rewrite Uv. reflexivity.
      + intros f n Lf LBf Lnn. rewrite app_length in Lf, Lnn.
        pose proof (pn_invoke f M nm vals mac pi msp A Lk Ln Fv G S W1 ltac:(lia)) as P.
        unfold invocation in *. cbn [app List.length] in *. destruct n as [|n']; [lia|].
        cbn [asm_loop]. rewrite P. cbn [rbind].
        change (String "!" nm :: "[" :: (vals ++ ["]"]) ++ msp) with (String "!" nm :: ("[" :: vals ++ ["]"]) ++ msp).
        change (Datatypes.S (Datatypes.S (List.length (vals ++ ["]"])))) with (Datatypes.S (List.length ("[" :: vals ++ ["]"]))).
        rewrite skipn_stmt. rewrite (R2 f n') by lia. cbn [rbind]. unfold encode. rewrite flat_map_app. reflexivity.
  Qed.

  (* the expanded source is a spelling of the same program *)
  Lemma stmt_head : forall c nx is ss, stmt fl2 c nx is ss -> wf_prog is = true ->
    exists h t, ss = h :: t /\ headb h = true.
  Proof.
    intros c nx is ss S W.
    destruct (proj1 (spells_correct fl2 ct []) _ _ _ _ S W (List.length ss)
                (match nx with Some t => [t] | None => [] end) (le_n _) ltac:(destruct nx; reflexivity))
      as (h & t & E & [Hh _] & _).
    eauto.
  Qed.
  Lemma seq_head : forall c nx p sp, seq fl2 c nx p sp -> wf_prog p = true ->
    sp = [] \/ exists h t, sp = h :: t /\ headb h = true.
  Proof.
    intros c nx p sp S W. inversion S as [|c' nx' is ss p' sp' St Sq]; subst; [left; reflexivity|right].
    unfold wf_prog in W. rewrite forallb_app in W. apply andb_prop in W as [W1 _].
    destruct (stmt_head _ _ _ _ St W1) as (h & t & -> & Hh). exists h, (t ++ sp'). split; [reflexivity|exact Hh].
  Qed.
  Lemma headb_not_else : forall h, headb h = true -> Some h <> Some "ELSE" /\ Some h <> Some "EXCEPT".
  Proof.
    intros h H. destruct (headb_spec h H) as (_ & M & _).
    split; intros Q; injection Q as ->; discriminate M.
  Qed.

  Definition nice_nx (nx : option string) : Prop := nx <> Some "ELSE" /\ nx <> Some "EXCEPT".

  Lemma mseq_expanded : forall B M p msrc esrc, mseq B M p msrc esrc -> wf_prog p = true ->
    seq fl2 Top None p esrc /\ nice_nx (hd_or None esrc) /\
    renx_ok (hd_or None msrc) (hd_or None esrc).
  Proof.
    induction 1 as [|is ss p msp esp S T IH|nm vals mac pi p msp esp A Lk Ln Fv G S LB T IH]; intros W.
    - split; [apply sq_nil|]. split; [split; discriminate|left; reflexivity].
    - unfold wf_prog in W. rewrite forallb_app in W. apply andb_prop in W as [W1 W2].
      destruct (IH W2) as (Sq & Nn & Rn). destruct (stmt_head _ _ _ _ S W1) as (h & t & -> & Hh).
      split; [|split].
      + apply sq_cons; [|exact Sq]. eapply stmt_renx; [exact S|exact Rn].
      + cbn [app hd_or]. apply headb_not_else. exact Hh.
      + left. reflexivity.
    - unfold wf_prog in W. rewrite forallb_app in W. apply andb_prop in W as [W1 W2].
      destruct (IH W2) as (Sq & Nn & Rn).
      assert (Sq1 : seq fl2 Top (hd_or None esp) pi (instantiate mac vals)).
      { apply (seq_renx fl2 Top None _ _ S). right. split; [intros t Q; discriminate Q|exact Nn]. }
      split; [|split].
      + apply (seq_app fl2 Top _ _ _ Sq1 None p esp Sq). reflexivity.
      + destruct (seq_head _ _ _ _ S W1) as [E|(h & t & E & Hh)]; rewrite E; cbn [app hd_or].
        * exact Nn.
        * apply headb_not_else. exact Hh.
      + right. unfold invocation. cbn [app hd_or]. split; [|].
        * intros t Q. injection Q as <-. vm_compute. reflexivity.
        * destruct (seq_head _ _ _ _ S W1) as [E|(h & t & E & Hh)]; rewrite E; cbn [app hd_or].
          -- exact Nn.
          -- apply headb_not_else. exact Hh.
  Qed.

  (* (b) a macro defined once and invoked k times: the source assembles to the same bytes as the
     source with each invocation textually replaced by the instantiated template *)
  Theorem macro_expansion : forall name args tmpl p msrc esrc,
    def_ok name args tmpl ->
    mseq (List.length tmpl + 2) [(lower_s name, mac_of args tmpl)] p msrc esrc -> wf_prog p = true ->
    assemble_r fl2 ct (defsyms name args tmpl ++ msrc) = Ok (encode p) /\
    assemble_r fl2 ct esrc = Ok (encode p).
  Proof.
    intros name args tmpl p msrc esrc D Mq W.
    destruct (mseq_loop _ _ _ _ _ Mq W) as [U R]. destruct (mseq_expanded _ _ _ _ _ Mq W) as (Sq & _).
    split; [|apply assemble_r_spells; assumption].
    unfold assemble_r. rewrite existsb_app, (def_unmodelled _ _ _ D), (bad_unmodelled msrc U). cbn [orb].
    set (L := List.length (defsyms name args tmpl ++ msrc)).
    assert (EL : L = (Datatypes.S (List.length args + List.length tmpl + 5 + List.length msrc))%nat).
    { unfold L, defsyms. cbn [app List.length]. rewrite !app_length. cbn [List.length].
      rewrite !app_length. cbn [List.length]. lia. }
    assert (E : forall a, comptime ct a L [] (defsyms name args tmpl ++ msrc) =
                          Ok ([(lower_s name, mac_of args tmpl)], msrc)).
    { intros a. rewrite EL. rewrite (comptime_def _ a _ _ name args tmpl msrc D).
      rewrite comptime_id by (try exact U; lia). reflexivity. }
    replace (2 * L + 2)%nat with (Datatypes.S (2 * L + 1)) by lia. cbn [asm_fuel]. fold L.
    rewrite E. cbn [rbind]. rewrite R by lia. reflexivity.
  Qed.
End MacroExpansion.

(* the relation is inhabited:  != m [ a ] { push a } !m [ d1 ] !m [ x0102 ] true
   (symbols as get_symbols gives them) against  push d1 push x0102 true *)
Example macro_expansion_example :
  assemble_r fl2_exact ct0 (defsyms "m" ["A"] ["PUSH"; "A"] ++ invocation "m" ["d1"] ++ invocation "m" ["x0102"] ++ ["TRUE"])
    = Ok (encode [IOp1 O_PUSH0 x01; IVar1 O_PUSH1 [x01; x02]; IOp0 O_TRUE]) /\
  assemble_r fl2_exact ct0 ["PUSH"; "d1"; "PUSH"; "x0102"; "TRUE"]
    = Ok (encode [IOp1 O_PUSH0 x01; IVar1 O_PUSH1 [x01; x02]; IOp0 O_TRUE]).
Proof.
  apply (macro_expansion fl2_exact ct0 "m" ["A"] ["PUSH"; "A"]
           ([IOp1 O_PUSH0 x01] ++ [IVar1 O_PUSH1 [x01; x02]] ++ [IOp0 O_TRUE] ++ [])
           (invocation "m" ["d1"] ++ invocation "m" ["x0102"] ++ ["TRUE"] ++ [])
           (["PUSH"; "d1"] ++ ["PUSH"; "x0102"] ++ ["TRUE"] ++ [])).
  - repeat split; try reflexivity. repeat constructor.
  - apply (mq_inv fl2_exact _ _ "m" ["d1"] (mac_of ["A"] ["PUSH"; "A"]));
      [reflexivity|reflexivity|reflexivity|repeat constructor|reflexivity| |cbn; lia|].
    + apply (sq_cons fl2_exact Top None [IOp1 O_PUSH0 x01] ["PUSH"; "d1"] [] []); [|apply sq_nil].
      apply (st_pushp fl2_exact _ _ "PUSH" [x01] "d1"); [left; reflexivity| |reflexivity].
      apply (sp_d fl2_exact _ "d" "1" 1); [left; reflexivity| |reflexivity]. apply (num_dec 1). discriminate.
    + apply (mq_inv fl2_exact _ _ "m" ["x0102"] (mac_of ["A"] ["PUSH"; "A"]));
        [reflexivity|reflexivity|reflexivity|repeat constructor|reflexivity| |cbn; lia|].
      * apply (sq_cons fl2_exact Top None [IVar1 O_PUSH1 [x01; x02]] ["PUSH"; "x0102"] [] []); [|apply sq_nil].
        apply (st_pushp fl2_exact _ _ "PUSH" [x01; x02] "x0102"); [left; reflexivity| |reflexivity].
        apply sp_x; [left; reflexivity|reflexivity].
      * apply (mq_stmt fl2_exact _ _ [IOp0 O_TRUE] ["TRUE"] [] [] []); [|apply mq_nil].
        apply st_op0; [apply alias_name; reflexivity|reflexivity].
  - reflexivity.
Qed.

(* oddities of macros and comptime blocks (each checked on the real compiler) *)
Theorem macro_oddities :
  (* M1: a template is compiled by compile_script with a FRESH macro table: a macro cannot invoke a
     macro defined outside its own template ... *)
  asm ["!="; "m"; "["; "A"; "]"; "{"; "PUSH"; "A"; "}"; "!="; "n"; "["; "B"; "]"; "{"; "!m"; "["; "B"; "]"; "}";
       "!n"; "["; "d1"; "]"] = Err /\
  (* ... but one defined inside it *)
  asm ["!="; "m"; "["; "A"; "]"; "{"; "!="; "n"; "["; "B"; "]"; "{"; "PUSH"; "B"; "}"; "!n"; "["; "A"; "]"; "}";
       "!m"; "["; "d1"; "]"] = enc [IOp1 O_PUSH0 x01] /\
  (* M2: parse_comptime scans the flat symbol list: a definition inside an IF body is taken out of
     it and is visible everywhere; use before the definition works in the main code but not inside
     a comptime block that precedes the definition; "!=" inside a comment is a definition *)
  asm ["IF"; "{"; "!="; "m"; "["; "]"; "{"; "TRUE"; "}"; "}"; "!m"; "["; "]"] = enc [IIf []; IOp0 O_TRUE] /\
  asm ["!m"; "["; "]"; "!="; "m"; "["; "]"; "{"; "TRUE"; "}"] = enc [IOp0 O_TRUE] /\
  asm ["PUSH"; "~"; "{"; "!m"; "["; "]"; "}"; "!="; "m"; "["; "]"; "{"; "TRUE"; "}"] = Err /\
  asm ["#"; "!="; "#"; "TRUE"] = Err /\
  (* M3: a repeated parameter name: the last argument wins; M4: a redefinition replaces silently;
     names are case-insensitive *)
  asm ["!="; "m"; "["; "A"; "A"; "]"; "{"; "PUSH"; "A"; "}"; "!m"; "["; "d1"; "d2"; "]"] = enc [IOp1 O_PUSH0 x02] /\
  asm ["!="; "m"; "["; "]"; "{"; "TRUE"; "}"; "!="; "m"; "["; "]"; "{"; "FALSE"; "}"; "!M"; "["; "]"] = enc [IOp0 O_FALSE] /\
  (* M5: a comptime block is only meaningful in an operand position *)
  asm ["~"; "{"; "TRUE"; "}"] = Err.
Proof. repeat split; vm_compute; reflexivity. Qed.

(* run-time blocks on a small oracle (the four runs below were done on the real VM):
   the empty script leaves an empty stack; 03 00 (push1 d0 x) leaves the empty item;
   02 02 02 03 0e 02 (push d2 push d3 add_ints d2) leaves 05; 06 (pop0 on an empty stack) raises *)
Definition ct_example (code : bytes) : res (option bytes) :=
  if bytes_eqb code [] then Ok None
  else if bytes_eqb code [x03; x00] then Ok (Some [])
  else if bytes_eqb code [x02; x02; x02; x03; x0e; x02] then Ok (Some [x05])
  else if bytes_eqb code [x06] then Err
  else Unm.
Example run_block_examples :
  (* C1: an empty stack contributes no symbol: the operand of PUSH is the next symbol *)
  assemble_r fl2_exact ct_example ["PUSH"; "~!"; "{"; "}"; "d5"] = enc [IOp1 O_PUSH0 x05] /\
  (* an empty top item is the symbol x: 00 for a 1-byte operand (O6), an error for PUSH *)
  assemble_r fl2_exact ct_example ["ADD_INTS"; "~!"; "{"; "PUSH1"; "d0"; "x"; "}"] = enc [IOp1 O_ADD_INTS x00] /\
  assemble_r fl2_exact ct_example ["PUSH"; "~!"; "{"; "PUSH1"; "d0"; "x"; "}"] = Err /\
  assemble_r fl2_exact ct_example ["PUSH"; "~!"; "{"; "PUSH"; "d2"; "PUSH"; "d3"; "ADD_INTS"; "d2"; "}"]
    = enc [IOp1 O_PUSH0 x05] /\
  assemble_r fl2_exact ct_example ["PUSH"; "~!"; "{"; "POP0"; "}"] = Err /\
  (* "~" never asks the oracle *)
  assemble_r fl2_exact (fun _ => Err) ["PUSH"; "~"; "{"; "TRUE"; "FALSE"; "}"] = enc [IVar1 O_PUSH1 [x01; x00]].
Proof. repeat split; vm_compute; reflexivity. Qed.

Print Assumptions assemble_spells.
Print Assumptions assemble_r_spells.
Print Assumptions assemble_listing.
Print Assumptions assemble_parse_listing.
Print Assumptions assemble_decompile.
Print Assumptions reject_after.
Print Assumptions reject_operand_missing.
Print Assumptions reject_operand_missing_nop.
Print Assumptions reject_operand_missing_push.
Print Assumptions reject_second_operand_missing.
Print Assumptions val_byte_out_of_range.
Print Assumptions reject_bad_byte_operand.
Print Assumptions reject_bad_swap_operand.
Print Assumptions reject_unknown_name.
Print Assumptions reject_extra_close.
Print Assumptions reject_unclosed_block.
Print Assumptions reject_unclosed_def.
Print Assumptions names_case_insensitive.
Print Assumptions every_alias_spells.
Print Assumptions assemble_listing_needs_ldef_ok.
Print Assumptions reject_push1_size.
Print Assumptions reject_push2_size.
Print Assumptions fixed_push1_size_checked.
Print Assumptions definitions_emit_no_code.
Print Assumptions unused_definition.
Print Assumptions comptime_block.
Print Assumptions push_comptime.
Print Assumptions macro_expansion.
Print Assumptions macro_expansion_example.
Print Assumptions macro_oddities.
Print Assumptions fixed_def_alias.
Print Assumptions comptime_run_block.
Print Assumptions push_comptime_run.
Print Assumptions comptime_run_empty.
Print Assumptions comptime_run_error.
Print Assumptions run_block_examples.
Print Assumptions comptime_run_rewrite.
