(* C03 link: the program-level greedy loop of OP_CHECK_MULTISIG ([ms_find] / [ms_go] in model/Ops.v,
   which pushes signature and key, runs [check_sig_body] and pops the verdict) computes exactly the
   pure loop [pfind] / [pgo] of MultisigPure.v, so the combinatorial theorems proved there apply to
   the instruction. *)
From Coq Require Import ZArith List Bool Arith Lia.
From Coq.Sorting Require Import Permutation.
From Coq.Strings Require Import Byte String.
From TS Require Import Bytes Codec State Prog Ops Interp StateLemmas InterpLemmas SigSpec NopSpec MultisigPure.
Import ListNotations.
Local Open Scope nat_scope.

Section Link.
Variable orc : oracle.
Variable cfg : config.
Variable run : nat -> state -> outcome unit.
Variable allowed : Z.
Variable chk : bytes -> bytes -> bool.

Definition boolb (b : bool) : bytes := if b then [xff] else [x00].

(* the signature check is well behaved on (s, k): with k on top of s on top of rest it ends normally,
   replaces the two items by the verdict byte and changes nothing else *)
Definition chk_ok (rest : list bytes) (s k : bytes) : Prop :=
  forall fr st, st_stack st = k :: s :: rest ->
    interp orc cfg run (check_sig_body allowed) fr st = Done tt fr (with_stack st (boolb (chk s k) :: rest)).

Definition pushable (rest : list bytes) (s k : bytes) : Prop :=
  (List.length s <= c_max_item_size cfg)%nat /\ (List.length k <= c_max_item_size cfg)%nat /\
  (List.length rest + 2 <= c_max_items cfg)%nat.

Lemma bytes_to_bool_boolb b : bytes_to_bool (boolb b) = b.
Proof. destruct b; reflexivity. Qed.

Lemma with_stack_back st rest : st_stack st = rest -> with_stack st rest = st.
Proof. intros <-. apply with_stack_same. Qed.

(* State-specific form of [chk_ok]: the check is only required to behave at the states the loop actually
   visits, i.e. [st0] with another stack (same cache, tapes, log ...).  [chk_ok] implies it for every st0;
   unlike [chk_ok] it can be established from facts about the cache of st0 (see [chk_ok_at_real] below). *)
Definition chk_ok_at (st0 : state) (rest : list bytes) (s k : bytes) : Prop :=
  forall fr, interp orc cfg run (check_sig_body allowed) fr (with_stack st0 (k :: s :: rest))
             = Done tt fr (with_stack st0 (boolb (chk s k) :: rest)).

Lemma chk_ok_chk_ok_at st0 rest s k : chk_ok rest s k -> chk_ok_at st0 rest s k.
Proof. intros H fr. apply (H fr (with_stack st0 (k :: s :: rest))). reflexivity. Qed.

(* ---------- 1. the inner loop ---------- *)

Lemma ms_find_pure_at : forall sig keys fr st rest,
  st_stack st = rest ->
  (forall k, In k keys -> chk_ok_at st rest sig k /\ pushable rest sig k) ->
  interp orc cfg run (ms_find allowed sig keys) fr st = Done (pfind chk sig keys) fr st.
Proof.
  intros sig keys. induction keys as [|k t IH]; intros fr st rest Hs H; cbn [ms_find pfind]; [reflexivity|].
  destruct (H k (or_introl eq_refl)) as [Hc [Hp1 [Hp2 Hp3]]].
  unfold put, act. cbn [bind].
  rewrite (put_ok orc cfg run fr st rest sig) by (try exact Hs; split; lia).
  rewrite (put_ok orc cfg run fr _ (sig :: rest) k) by (try reflexivity; split; simpl; lia).
  change (with_stack (with_stack st (sig :: rest)) (k :: sig :: rest)) with (with_stack st (k :: sig :: rest)).
  rewrite interp_bind. rewrite Hc.
  unfold get, act. cbn [bind interp step st_stack with_stack].
  rewrite bytes_to_bool_boolb.
  change (with_stack (with_stack st (boolb (chk sig k) :: rest)) rest) with (with_stack st rest).
  rewrite (with_stack_back st rest Hs).
  destruct (chk sig k); [reflexivity|].
  apply (IH fr st rest Hs). intros k' Hk'. apply H. right. exact Hk'.
Qed.

Lemma ms_find_pure : forall sig keys fr st rest,
  st_stack st = rest ->
  (forall k, In k keys -> chk_ok rest sig k /\ pushable rest sig k) ->
  interp orc cfg run (ms_find allowed sig keys) fr st = Done (pfind chk sig keys) fr st.
Proof.
  intros sig keys fr st rest Hs H. apply (ms_find_pure_at sig keys fr st rest Hs).
  intros k Hk. destruct (H k Hk) as [Hc Hp]. split; [apply chk_ok_chk_ok_at; exact Hc | exact Hp].
Qed.

(* ---------- 2. the outer loop ---------- *)

Lemma ms_go_pure_at : forall sigs keys confirmed fr st rest,
  st_stack st = rest ->
  (forall s k, In s sigs -> In k keys -> chk_ok_at st rest s k /\ pushable rest s k) ->
  interp orc cfg run (ms_go allowed sigs keys confirmed) fr st = Done (pgo chk sigs keys confirmed) fr st.
Proof.
  induction sigs as [|s t IH]; intros keys confirmed fr st rest Hs H; cbn [ms_go pgo]; [reflexivity|].
  rewrite interp_bind.
  rewrite (ms_find_pure_at s keys fr st rest Hs) by (intros k Hk; apply H; [left; reflexivity | exact Hk]).
  destruct (pfind chk s keys) as [k|].
  - apply (IH _ _ fr st rest Hs). intros s' k' Hs' Hk'. apply H; [right; exact Hs'|].
    eapply remove_first_incl. exact Hk'.
  - apply (IH _ _ fr st rest Hs). intros s' k' Hs' Hk'. apply H; [right; exact Hs' | exact Hk'].
Qed.

Lemma ms_go_pure : forall sigs keys confirmed fr st rest,
  st_stack st = rest ->
  (forall s k, In s sigs -> In k keys -> chk_ok rest s k /\ pushable rest s k) ->
  interp orc cfg run (ms_go allowed sigs keys confirmed) fr st = Done (pgo chk sigs keys confirmed) fr st.
Proof.
  intros sigs keys confirmed fr st rest Hs H. apply (ms_go_pure_at sigs keys confirmed fr st rest Hs).
  intros s k Hs' Hk. destruct (H s k Hs' Hk) as [Hc Hp]. split; [apply chk_ok_chk_ok_at; exact Hc | exact Hp].
Qed.

(* ---------- 3. the instruction after its operands have been read ---------- *)

Definition multisig_tail (n m : nat) : prog unit :=
  vkeys <- repeat_get n ;; sgs <- repeat_get m ;;
  confirmed <- ms_go allowed sgs vkeys [] ;;
  put_bool (Nat.eqb (List.length confirmed) (List.length sgs)).

Lemma firstn_len_app {A} (l r : list A) : firstn (List.length l) (l ++ r) = l.
Proof. rewrite firstn_app, Nat.sub_diag, firstn_all. simpl. apply app_nil_r. Qed.
Lemma skipn_len_app {A} (l r : list A) : skipn (List.length l) (l ++ r) = r.
Proof. rewrite skipn_app, Nat.sub_diag, skipn_all. reflexivity. Qed.

Theorem check_multisig_core_at : forall n m keys sigs rest fr st,
  st_stack st = keys ++ sigs ++ rest ->
  List.length keys = n -> List.length sigs = m ->
  (forall s k, In s sigs -> In k keys -> chk_ok_at st rest s k /\ pushable rest s k) ->
  (List.length rest < c_max_items cfg)%nat /\ (1 <= c_max_item_size cfg)%nat ->
  interp orc cfg run
    (vkeys <- repeat_get n ;; sgs <- repeat_get m ;;
     confirmed <- ms_go allowed sgs vkeys [] ;;
     put_bool (Nat.eqb (List.length confirmed) (List.length sgs))) fr st
  = Done tt fr (with_stack st (boolb (ms_verdict chk sigs keys) :: rest)).
Proof.
  intros n m keys sigs rest fr st Hs Hn Hm H [Hr1 Hr2]. subst n m.
  rewrite interp_bind, repeat_get_ok by (rewrite Hs, !app_length; lia).
  rewrite Hs, firstn_len_app, skipn_len_app.
  rewrite interp_bind, repeat_get_ok by (cbn [st_stack with_stack]; rewrite app_length; lia).
  cbn [st_stack with_stack]. rewrite firstn_len_app, skipn_len_app.
  rewrite interp_bind.
  change (with_stack (with_stack st (sigs ++ rest)) rest) with (with_stack st rest).
  rewrite (ms_go_pure_at sigs keys [] fr (with_stack st rest) rest) by (try reflexivity; exact H).
  unfold put_bool, put, act.
  rewrite (put_ok orc cfg run fr _ rest).
  - cbn [interp]. unfold ms_verdict, boolb. reflexivity.
  - split; [|exact Hr1]. destruct (Nat.eqb _ _); simpl; lia.
  - reflexivity.
Qed.

Theorem check_multisig_core : forall n m keys sigs rest fr st,
  st_stack st = keys ++ sigs ++ rest ->
  List.length keys = n -> List.length sigs = m ->
  (forall s k, In s sigs -> In k keys -> chk_ok rest s k /\ pushable rest s k) ->
  (List.length rest < c_max_items cfg)%nat /\ (1 <= c_max_item_size cfg)%nat ->
  interp orc cfg run
    (vkeys <- repeat_get n ;; sgs <- repeat_get m ;;
     confirmed <- ms_go allowed sgs vkeys [] ;;
     put_bool (Nat.eqb (List.length confirmed) (List.length sgs))) fr st
  = Done tt fr (with_stack st (boolb (ms_verdict chk sigs keys) :: rest)).
Proof.
  intros n m keys sigs rest fr st Hs Hn Hm H Hr.
  apply (check_multisig_core_at n m keys sigs rest fr st Hs Hn Hm); [|exact Hr].
  intros s k Hs' Hk. destruct (H s k Hs' Hk) as [Hc Hp]. split; [apply chk_ok_chk_ok_at; exact Hc | exact Hp].
Qed.

(* ---------- 3'. the whole instruction, including run_sig_ext and the three operand bytes ---------- *)

(* run_sig_ext only appends one log event per configured plugin *)
Definition sigext_log (st : state) : state :=
  with_log st (rev (map EvSigExt (c_sigext cfg)) ++ st_log st).

Lemma log_sigext_ok l : forall fr st,
  interp orc cfg run (log_sigext l) fr st = Done tt fr (with_log st (rev (map EvSigExt l) ++ st_log st)).
Proof.
  induction l as [|i t IH]; intros fr st; cbn [log_sigext].
  - cbn. destruct st; reflexivity.
  - unfold act. cbn [bind interp step]. rewrite IH. cbn [map rev st_log with_log].
    rewrite <- app_assoc. reflexivity.
Qed.

Lemma run_sig_ext_ok fr st :
  interp orc cfg run run_sig_ext fr st = Done tt fr (sigext_log st).
Proof. unfold run_sig_ext, config_, act. cbn [bind interp step]. apply log_sigext_ok. Qed.

Lemma sigext_log_stack st : st_stack (sigext_log st) = st_stack st.
Proof. reflexivity. Qed.

Lemma skipn_succ {A} p : forall (l : list A) b tl, skipn p l = b :: tl -> skipn (p + 1) l = tl.
Proof.
  induction p as [|p IH]; intros l b tl H.
  - simpl in H. subst l. reflexivity.
  - destruct l as [|x l]; [discriminate|]. simpl in *. apply (IH l b tl H).
Qed.

Lemma data_at_adv fr st b tl : data_at fr st = b :: tl -> data_at (adv fr 1) st = tl.
Proof.
  unfold data_at, adv, cur. cbn [fr_tid fr_ptr]. intro H.
  apply (skipn_succ _ _ b tl H).
Qed.

Theorem check_multisig_full_at : forall a mb nb tl keys sigs rest fr st,
  data_at fr st = a :: mb :: nb :: tl ->
  be_to_Z [a] = allowed ->
  st_stack st = keys ++ sigs ++ rest ->
  List.length keys = nat_of (be_to_Z [nb]) -> List.length sigs = nat_of (be_to_Z [mb]) ->
  (forall s k, In s sigs -> In k keys -> chk_ok_at (sigext_log st) rest s k /\ pushable rest s k) ->
  (List.length rest < c_max_items cfg)%nat /\ (1 <= c_max_item_size cfg)%nat ->
  interp orc cfg run OP_CHECK_MULTISIG fr st
  = Done tt (adv (adv (adv fr 1) 1) 1)
         (with_stack (sigext_log st) (boolb (ms_verdict chk sigs keys) :: rest)).
Proof.
  intros a mb nb tl keys sigs rest fr st Hd Ha Hs Hn Hm H Hr.
  unfold OP_CHECK_MULTISIG. rewrite interp_bind, run_sig_ext_ok.
  unfold read_u8, read, act. cbn [bind].
  assert (Hd0 : data_at fr (sigext_log st) = a :: mb :: nb :: tl) by exact Hd.
  rewrite (read1 orc cfg run fr _ a (mb :: nb :: tl)) by exact Hd0.
  pose proof (data_at_adv _ _ _ _ Hd0) as Hd1.
  rewrite (read1 orc cfg run _ _ mb (nb :: tl)) by exact Hd1.
  pose proof (data_at_adv _ _ _ _ Hd1) as Hd2.
  rewrite (read1 orc cfg run _ _ nb tl) by exact Hd2.
  rewrite Ha.
  apply (check_multisig_core_at _ _ keys sigs rest); auto.
Qed.

Theorem check_multisig_full : forall a mb nb tl keys sigs rest fr st,
  data_at fr st = a :: mb :: nb :: tl ->
  be_to_Z [a] = allowed ->
  st_stack st = keys ++ sigs ++ rest ->
  List.length keys = nat_of (be_to_Z [nb]) -> List.length sigs = nat_of (be_to_Z [mb]) ->
  (forall s k, In s sigs -> In k keys -> chk_ok rest s k /\ pushable rest s k) ->
  (List.length rest < c_max_items cfg)%nat /\ (1 <= c_max_item_size cfg)%nat ->
  interp orc cfg run OP_CHECK_MULTISIG fr st
  = Done tt (adv (adv (adv fr 1) 1) 1)
         (with_stack (sigext_log st) (boolb (ms_verdict chk sigs keys) :: rest)).
Proof.
  intros a mb nb tl keys sigs rest fr st Hd Ha Hs Hn Hm H Hr.
  apply (check_multisig_full_at a mb nb tl keys sigs rest fr st Hd Ha Hs Hn Hm); [|exact Hr].
  intros s k Hs' Hk. destruct (H s k Hs' Hk) as [Hc Hp]. split; [apply chk_ok_chk_ok_at; exact Hc | exact Hp].
Qed.

(* ---------- 4. the pure theorems, stated about the byte the instruction pushes ---------- *)

Lemma boolb_xff b : boolb b = [xff] -> b = true.
Proof. destruct b; [reflexivity|discriminate]. Qed.

(* the stack left by [multisig_tail]: the verdict byte on top of [rest] *)
Definition ms_result (sigs keys : list bytes) : bytes := boolb (ms_verdict chk sigs keys).

(* a pushed xff means: pairwise different signatures, each valid under a different POSITION of the key list *)
Corollary check_multisig_true_sound : forall n m keys sigs rest fr st fr' st',
  st_stack st = keys ++ sigs ++ rest ->
  List.length keys = n -> List.length sigs = m ->
  (forall s k, In s sigs -> In k keys -> chk_ok rest s k /\ pushable rest s k) ->
  (List.length rest < c_max_items cfg)%nat /\ (1 <= c_max_item_size cfg)%nat ->
  interp orc cfg run (multisig_tail n m) fr st = Done tt fr' st' ->
  st_stack st' = [xff] :: rest ->
  NoDup sigs /\
  exists ks unused, List.length ks = List.length sigs /\
                    Forall2 (fun s k => chk s k = true) sigs ks /\
                    Permutation keys (ks ++ unused).
Proof.
  intros n m keys sigs rest fr st fr' st' Hs Hn Hm H Hr Hi Ht.
  unfold multisig_tail in Hi.
  rewrite (check_multisig_core n m keys sigs rest fr st Hs Hn Hm H Hr) in Hi.
  injection Hi as _ <-. cbn [st_stack with_stack] in Ht. injection Ht as Ht.
  apply multisig_sound. apply boolb_xff. exact Ht.
Qed.

Corollary check_multisig_true_sigs_le_keys : forall n m keys sigs rest fr st fr' st',
  st_stack st = keys ++ sigs ++ rest ->
  List.length keys = n -> List.length sigs = m ->
  (forall s k, In s sigs -> In k keys -> chk_ok rest s k /\ pushable rest s k) ->
  (List.length rest < c_max_items cfg)%nat /\ (1 <= c_max_item_size cfg)%nat ->
  interp orc cfg run (multisig_tail n m) fr st = Done tt fr' st' ->
  st_stack st' = [xff] :: rest ->
  m <= n.
Proof.
  intros n m keys sigs rest fr st fr' st' Hs Hn Hm H Hr Hi Ht.
  destruct (check_multisig_true_sound n m keys sigs rest fr st fr' st' Hs Hn Hm H Hr Hi Ht)
    as [_ [ks [unused [Hl [_ P]]]]].
  subst n m. rewrite (Permutation_length P), app_length. lia.
Qed.

(* a repeated signature makes the instruction push x00 *)
Corollary check_multisig_repeated_sig_false : forall n m keys sigs rest fr st,
  st_stack st = keys ++ sigs ++ rest ->
  List.length keys = n -> List.length sigs = m ->
  (forall s k, In s sigs -> In k keys -> chk_ok rest s k /\ pushable rest s k) ->
  (List.length rest < c_max_items cfg)%nat /\ (1 <= c_max_item_size cfg)%nat ->
  ~ NoDup sigs ->
  interp orc cfg run (multisig_tail n m) fr st = Done tt fr (with_stack st ([x00] :: rest)).
Proof.
  intros n m keys sigs rest fr st Hs Hn Hm H Hr Hnd. unfold multisig_tail.
  rewrite (check_multisig_core n m keys sigs rest fr st Hs Hn Hm H Hr).
  rewrite (multisig_repeated_sig_fails chk sigs keys Hnd). reflexivity.
Qed.

(* under exclusivity and NoDup, permuting the keys and the signatures on the stack does not change the
   pushed byte *)
Corollary check_multisig_order_invariant : forall n m keys sigs keys' sigs' rest fr st fr2 st2,
  st_stack st = keys ++ sigs ++ rest ->
  st_stack st2 = keys' ++ sigs' ++ rest ->
  List.length keys = n -> List.length sigs = m ->
  (forall s k, In s sigs -> In k keys -> chk_ok rest s k /\ pushable rest s k) ->
  (List.length rest < c_max_items cfg)%nat /\ (1 <= c_max_item_size cfg)%nat ->
  (forall s k1 k2, In s sigs -> In k1 keys -> In k2 keys ->
                   chk s k1 = true -> chk s k2 = true -> k1 = k2) ->
  NoDup sigs -> NoDup keys ->
  Permutation sigs sigs' -> Permutation keys keys' ->
  exists v,
    interp orc cfg run (multisig_tail n m) fr st = Done tt fr (with_stack st (v :: rest)) /\
    interp orc cfg run (multisig_tail n m) fr2 st2 = Done tt fr2 (with_stack st2 (v :: rest)).
Proof.
  intros n m keys sigs keys' sigs' rest fr st fr2 st2 Hs Hs2 Hn Hm H Hr excl NDs NDk Ps Pk.
  exists (ms_result sigs keys). unfold multisig_tail, ms_result. split.
  - apply check_multisig_core; assumption.
  - rewrite <- (multisig_order_invariant chk sigs keys sigs' keys' excl NDs NDk Ps Pk).
    apply check_multisig_core; try assumption.
    + rewrite <- Hn. symmetry. apply Permutation_length. exact Pk.
    + rewrite <- Hm. symmetry. apply Permutation_length. exact Ps.
    + intros s k Hs' Hk'. apply H.
      * apply (Permutation_in _ (Permutation_sym Ps)). exact Hs'.
      * apply (Permutation_in _ (Permutation_sym Pk)). exact Hk'.
Qed.

(* completeness at the instruction level: under the premises of [multisig_complete] the pushed byte is xff *)
Corollary check_multisig_complete : forall n m keys sigs rest fr st,
  st_stack st = keys ++ sigs ++ rest ->
  List.length keys = n -> List.length sigs = m ->
  (forall s k, In s sigs -> In k keys -> chk_ok rest s k /\ pushable rest s k) ->
  (List.length rest < c_max_items cfg)%nat /\ (1 <= c_max_item_size cfg)%nat ->
  (forall s k1 k2, In s sigs -> In k1 keys -> In k2 keys ->
                   chk s k1 = true -> chk s k2 = true -> k1 = k2) ->
  NoDup sigs -> NoDup keys ->
  (forall s, In s sigs -> exists k, In k keys /\ chk s k = true) ->
  (forall s1 s2 k, In s1 sigs -> In s2 sigs -> In k keys ->
                   chk s1 k = true -> chk s2 k = true -> s1 = s2) ->
  interp orc cfg run (multisig_tail n m) fr st = Done tt fr (with_stack st ([xff] :: rest)).
Proof.
  intros n m keys sigs rest fr st Hs Hn Hm H Hr excl NDs NDk Hall Hinj. unfold multisig_tail.
  rewrite (check_multisig_core n m keys sigs rest fr st Hs Hn Hm H Hr).
  rewrite (multisig_complete chk sigs keys excl NDs NDk Hall Hinj). reflexivity.
Qed.

End Link.

(* ---------- 5. the premise is met by the real signature check ---------- *)

(* the verdict of the model's signature check for signature s under key k, as a function of oracle and cache *)
Definition real_chk (orc : oracle) (c : cache) (s k : bytes) : bool :=
  match msg_of (sig_flag s) c with
  | Some m => match orc PVerify [k; m; firstn 64 s] with OOk [x] => bytes_to_bool x | _ => false end
  | None => false
  end.

(* well-formed inputs: right lengths, permitted flag, a message that fits on the stack, and an oracle that
   answers with one item; then the check at (any state sharing the cache of) st0 is [real_chk] *)
Theorem chk_ok_at_real : forall orc cfg run allowed st0 rest s k m x,
  (blen k = 32)%Z -> (blen s = 64 \/ blen s = 65)%Z ->
  flags_permitted (sig_flag s) allowed = true ->
  msg_of (sig_flag s) (st_cache st0) = Some m ->
  (List.length m <= c_max_item_size cfg)%nat -> (1 <= c_max_item_size cfg)%nat ->
  (List.length rest < c_max_items cfg)%nat ->
  orc PVerify [k; m; firstn 64 s] = OOk [x] ->
  chk_ok_at orc cfg run allowed (real_chk orc (st_cache st0)) st0 rest s k.
Proof.
  intros orc cfg run allowed st0 rest s k m x Hk Hsl Hf Hm Hml H1 Hr Ho fr.
  rewrite (check_sig_body_exact orc cfg run allowed fr _ k s rest) by reflexivity.
  cbv zeta. cbn [st_cache with_stack]. unfold real_chk.
  rewrite Hk. cbn [Z.eqb Pos.eqb negb].
  replace ((blen s =? 64)%Z || (blen s =? 65)%Z) with true
    by (destruct Hsl as [-> | ->]; reflexivity).
  cbn [negb]. rewrite Hf. cbn [negb]. rewrite Hm.
  replace (c_max_item_size cfg <? List.length m) with false by (symmetry; apply Nat.ltb_ge; lia).
  replace (c_max_items cfg <=? List.length rest) with false by (symmetry; apply Nat.leb_gt; lia).
  cbn [orb]. rewrite Ho.
  replace (c_max_item_size cfg <? 1) with false by (symmetry; apply Nat.ltb_ge; lia).
  unfold boolb. reflexivity.
Qed.

(* end to end: the whole instruction on well-formed operands, with no abstract premise left *)
Theorem check_multisig_real : forall orc cfg run a mb nb tl keys sigs rest fr st,
  data_at fr st = a :: mb :: nb :: tl ->
  st_stack st = keys ++ sigs ++ rest ->
  List.length keys = nat_of (be_to_Z [nb]) -> List.length sigs = nat_of (be_to_Z [mb]) ->
  (forall s k, In s sigs -> In k keys ->
     (blen k = 32)%Z /\ (blen s = 64 \/ blen s = 65)%Z /\
     flags_permitted (sig_flag s) (be_to_Z [a]) = true /\
     exists m x, msg_of (sig_flag s) (st_cache st) = Some m /\
                 (List.length m <= c_max_item_size cfg)%nat /\
                 orc PVerify [k; m; firstn 64 s] = OOk [x]) ->
  (65 <= c_max_item_size cfg)%nat -> (List.length rest + 2 <= c_max_items cfg)%nat ->
  interp orc cfg run OP_CHECK_MULTISIG fr st
  = Done tt (adv (adv (adv fr 1) 1) 1)
         (with_stack (sigext_log cfg st)
                     (boolb (ms_verdict (real_chk orc (st_cache st)) sigs keys) :: rest)).
Proof.
  intros orc cfg run a mb nb tl keys sigs rest fr st Hd Hs Hn Hm H Hsz Hit.
  apply (check_multisig_full_at orc cfg run (be_to_Z [a]) (real_chk orc (st_cache st))
           a mb nb tl keys sigs rest fr st Hd eq_refl Hs Hn Hm); [|lia].
  intros s k Hs' Hk. destruct (H s k Hs' Hk) as [Hk32 [Hsl [Hf [m [x [Hmsg [Hml Ho]]]]]]].
  split.
  - apply (chk_ok_at_real orc cfg run (be_to_Z [a]) (sigext_log cfg st) rest s k m x); auto; lia.
  - unfold pushable, blen in *. lia.
Qed.

Print Assumptions ms_find_pure.
Print Assumptions ms_go_pure.
Print Assumptions check_multisig_core.
Print Assumptions check_multisig_full.
Print Assumptions check_multisig_full_at.
Print Assumptions chk_ok_at_real.
Print Assumptions check_multisig_real.
Print Assumptions check_multisig_true_sound.
Print Assumptions check_multisig_repeated_sig_false.
Print Assumptions check_multisig_order_invariant.
Print Assumptions check_multisig_complete.
