(* A relation between states that every action respects is respected by every instruction,
   every nesting of sub-tapes and every script: one induction over programs, one over fuel. *)
From Coq Require Import ZArith List Bool Lia.
From Coq.Strings Require Import Byte String.
From TS Require Import Bytes Codec State Prog Ops Interp StateLemmas.
Import ListNotations.
Local Open Scope nat_scope.

Section Closure.
Variable orc : oracle.
Variable cfg : config.
Variable R : state -> state -> Prop.
Hypothesis R_refl : forall s, R s s.
Hypothesis R_trans : forall a b c, R a b -> R b c -> R a c.

Definition R_out {A} (s : state) (o : outcome A) : Prop :=
  match o with Done _ _ s' | Raised _ _ s' => R s s' | _ => True end.
Definition R_sres {X} (s : state) (r : sres X) : Prop :=
  match r with SOk _ _ s' | SRaise _ _ s' => R s s' | _ => True end.

Definition run_ok (run : nat -> state -> outcome unit) : Prop := forall tid s, R_out s (run tid s).

Definition step_closed : Prop :=
  forall run, run_ok run -> forall X (a : action X) fr st, R_sres st (step orc cfg run a fr st).

Hypothesis Hstep : step_closed.

Lemma interp_closed run (Hrun : run_ok run) A (p : prog A) :
  forall fr st, R_out st (interp orc cfg run p fr st).
Proof.
  induction p as [a|e|w|X a k IH]; intros fr st; simpl.
  - apply R_refl.
  - apply R_refl.
  - exact I.
  - pose proof (Hstep run Hrun X a fr st) as Hs.
    destruct (step orc cfg run a fr st) as [x fr' st'|e fr' st'| |w]; simpl in *; try exact I; try exact Hs.
    specialize (IH x fr' st').
    destruct (interp orc cfg run (k x) fr' st'); simpl in *; try exact I; eapply R_trans; eauto.
Qed.

Lemma run_tape_closed : forall fuel tid ptr st, R_out st (run_tape orc cfg fuel tid ptr st).
Proof.
  induction fuel as [|f IH]; intros tid ptr st; simpl; [exact I|].
  destruct (List.length (to_data (nth_tape st tid)) <=? ptr); simpl; [apply R_refl|].
  assert (Hrun : run_ok (fun t s => run_tape orc cfg f t 0 s)) by (intros t s; apply IH).
  pose proof (interp_closed _ Hrun unit
                (dispatch (N.to_nat (Byte.to_N (nth ptr (to_data (nth_tape st tid)) x00))))
                {| fr_tid := tid; fr_ptr := S ptr |} st) as Hi.
  destruct (interp orc cfg _ _ _ st) as [a fr' st'|e fr' st'| |w]; simpl in *; try exact I; try exact Hi.
  specialize (IH tid (fr_ptr fr') st').
  destruct (run_tape orc cfg f tid (fr_ptr fr') st'); simpl in *; try exact I; eapply R_trans; eauto.
Qed.

End Closure.
