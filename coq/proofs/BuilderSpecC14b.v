(* C14 (continued): make_delegate_key_chain_lock / make_delegate_key_chain_witness - the delegate-key CHAIN
   lock on its real bytes, by induction on the length of the certificate chain.
     0. delegate_key_chain_lock / delegate_key_chain_witness through Asm.encode; Examples against the bytes
        printed by the Python builders (chain_lock_bytes_real, chain_witness_bytes_real);
     1-2. the bytes spelled out; OP_AND;
     3. body_straight: the 28 instructions of definition 0 before OP_IF_ELSE;
     4. call_arm_runs / call_arm_over / sig_arm_runs: the two arms, each run as a new tape object;
     5. body_step (+ body_step_over_budget, next_state_facts): ONE activation of definition 0;
     6. chain_runs (induction on the certificates before the last one), chain_over;
     7. the witness, the lock as a whole, run_auth_scripts: chain_lock_exact (every n >= 1),
        chain_lock_true_iff, chain_lock_over_budget (the budget n <= callstack_limit is exact),
        chain_lock_exact_1, chain_lock_exact_2;
     8. finding hunt (toy oracle, vm_compute): dk_last_can_ignored, dk_terminal_cannot_delegate,
        dk_can_01_delegates, dk_budget, dk_cache_overwritten, dk_flag_lies. *)
From Coq Require Import ZArith List Bool Lia.
From Coq.Strings Require Import Byte String.
From TS Require Import Bytes Codec State Prog Ops Interp StateLemmas InterpLemmas NopSpec StackLemmas
  BytesLemmas TapeLemmas SigSpec ConfigSpec AuthSpec TimeSpec Asm Builders BuilderSpec TapeSteps
  Closure Pointer BuilderSpecC13 BuilderSpecC15 TaprootNonNative BuilderSpecC13b BuilderSpecC14.
Import ListNotations.
Local Open Scope nat_scope.

(* ============================================================================================== *)
(* 0. the emitted bytes                                                                            *)
(* ============================================================================================== *)

(* def 0 { ... } of tools.make_delegate_key_chain_lock:  "@= k n" = OP_WRITE_CACHE k n, "@k" = OP_READ_CACHE k,
   "if ( cond ) { a } else { b }" = cond ; OP_IF_ELSE a b *)
(* chain_call_arm, chain_sig_arm, chain_body, delegate_key_chain_lock, delegate_key_chain_witness: model/Builders.v
   (extracted; compared with the real builders on every run by the BLD correspondence) *)

(* python: make_delegate_key_chain_lock(bytes(SigningKey(bytes(range(32))).verify_key), '05').bytes.hex() *)
Example chain_lock_bytes_real :
  delegate_key_chain_lock (of_hex "03a107bff3ce10be1d70dd18e74bc09967e4d6309ba50d5f1ddc8664125531b8") x05 =
  of_hex "2900004b09017201022938090173011d022838090163010224380901650102203809016201090164010a0162260a0165252e200a0173350a01724a200a0163582c00050a01642a0000050a01642305032003a107bff3ce10be1d70dd18e74bc09967e4d6309ba50d5f1ddc8664125531b82a00".
Proof. vm_compute. reflexivity. Qed.

(* ============================================================================================== *)
(* 1. the bytes, spelled out                                                                       *)
(* ============================================================================================== *)

(* the 28 instructions before the OP_IF_ELSE of the definition *)
Definition body_pre : bytes :=
  [x09;x01;x72;x01; x02;x29; x38; x09;x01;x73;x01; x1d; x02;x28; x38; x09;x01;x63;x01;
   x02;x24; x38; x09;x01;x65;x01; x02;x20; x38; x09;x01;x62;x01; x09;x01;x64;x01;
   x0a;x01;x62; x26; x0a;x01;x65; x25; x2e; x20; x0a;x01;x73; x35; x0a;x01;x72; x4a; x20;
   x0a;x01;x63; x58].
Definition call_arm : bytes := [x0a;x01;x64; x2a;x00].               (* @d call d0 *)
Definition sig_arm (fl : byte) : bytes := [x0a;x01;x64; x23;fl].     (* @d check_sig fl *)
Definition body_bytes (fl : byte) : bytes := body_pre ++ x2c :: ifelse_ops call_arm (sig_arm fl).

Lemma chain_body_bytes fl : encode (chain_body fl) = body_bytes fl.
Proof. reflexivity. Qed.
Lemma body_bytes_length fl : List.length (body_bytes fl) = 75.
Proof. reflexivity. Qed.

Definition lock_hdr : bytes := [x29; x00; x00; x4b].
Lemma chain_lock_bytes root fl :
  delegate_key_chain_lock root fl = lock_hdr ++ body_bytes fl ++ push1_bytes root ++ [x2a; x00].
Proof. reflexivity. Qed.

Lemma chain_witness_bytes sig c0 cs :
  delegate_key_chain_witness sig c0 cs =
    push1_bytes sig ++ [x00] ++ push1_bytes c0 ++ flat_map (fun c => x01 :: push1_bytes c) cs.
Proof.
  unfold delegate_key_chain_witness, encode. cbn [flat_map encode1 P1 app].
  unfold push1_bytes, len1. cbn [app].
  change (opcode_byte O_FALSE) with x00. change (opcode_byte O_PUSH1) with x03.
  do 3 f_equal. do 4 f_equal.
  induction cs as [|c cs IH]; [reflexivity|].
  cbn [flat_map app encode1 P1]. rewrite IH. reflexivity.
Qed.

(* ============================================================================================== *)
(* 2. OP_AND                                                                                       *)
(* ============================================================================================== *)

Lemma map2_length f : forall a b, List.length (map2 f a b) = Nat.min (List.length a) (List.length b).
Proof. induction a as [|x a IH]; intros [|y b]; cbn [map2 List.length Nat.min]; try reflexivity. rewrite IH. reflexivity. Qed.

Lemma pad_to_length n a : List.length a <= n -> List.length (pad_to n a) = n.
Proof. intro H. unfold pad_to. rewrite app_length, repeat_length. lia. Qed.

Lemma zip_pad_length f a b : List.length (zip_pad f a b) = Nat.max (List.length a) (List.length b).
Proof. unfold zip_pad. rewrite map2_length, !pad_to_length by lia. lia. Qed.

Lemma and_exec orc cfg run fr st a b s :
  st_stack st = a :: b :: s -> fits cfg a -> fits cfg b -> space cfg s ->
  interp orc cfg run OP_AND fr st = Done tt fr (with_stack st (zip_pad byte_and a b :: s)).
Proof.
  intros Hs Fa Fb Hsp. unfold OP_AND, get, put, act. cbn [bind].
  erewrite get_step by exact Hs. cbn [bind].
  erewrite get_step by reflexivity. cbn [bind].
  erewrite put_step; [reflexivity|reflexivity| |exact Hsp].
  unfold fits in *. rewrite zip_pad_length. lia.
Qed.

(* the can-delegate byte ANDed with the flag the witness pushed beneath the certificate *)
Lemma and_true (can : byte) : zip_pad byte_and [can] [xff] = [can].
Proof. destruct can; reflexivity. Qed.
Lemma and_false (can : byte) : zip_pad byte_and [can] [x00] = [x00].
Proof. destruct can; reflexivity. Qed.
Lemma bool_of_byte (can : byte) : bytes_to_bool [can] = negb (Byte.eqb can x00).
Proof. destruct can; reflexivity. Qed.

(* ============================================================================================== *)
(* 3. one activation of definition 0: the 28 instructions before OP_IF_ELSE                        *)
(* ============================================================================================== *)

Definition kR : ckey := KBytes [x72].
Definition kS : ckey := KBytes [x73].
Definition kC : ckey := KBytes [x63].
Definition kE : ckey := KBytes [x65].
Definition kB : ckey := KBytes [x62].
Definition kD : ckey := KBytes [x64].
Definition one (x : bytes) : cval := VMany [ABytes x].

(* the 41 signed bytes of a certificate *)
Definition cpre (D b e : bytes) (can : byte) : bytes := D ++ b ++ e ++ [can].

(* the cache after the six WRITE_CACHE of one activation *)
Definition act_cache (c : cache) (K D b e : bytes) (can : byte) (csig : bytes) : cache :=
  cache_set (cache_set (cache_set (cache_set (cache_set (cache_set c kR (one K)) kS (one csig))
    kC (one [can])) kE (one e)) kB (one b)) kD (one D).

Section Straight.
Variable orc : oracle.
Variable cfg : config.
Hypothesis Hsize : 105 <= c_max_item_size cfg.
Variable fl : byte.
Variables ts thr : Z.
Hypothesis Hthr : flag_get (c_flags cfg) thr_key = Some (FVInt thr).

(* what one activation checks about the certificate on top of the stack, K being the authorising key *)
Definition cert_good (K D b e : bytes) (can : byte) (csig : bytes) : bool :=
  ts_verdict cfg (be_to_Z b) ts thr && negb (ts_verdict cfg (be_to_Z e) ts thr) &&
  css_verdict orc K (cpre D b e can) csig.

Variables K D b e csig more : bytes.
Variable can : byte.
Variable rest : list bytes.
Hypothesis LK : List.length K = 32.
Hypothesis LD : List.length D = 32.
Hypothesis Lb : List.length b = 4.
Hypothesis Le : List.length e = 4.
Hypothesis Lc : List.length csig = 64.
Hypothesis Fm : fits cfg more.
Hypothesis Hitems : List.length rest + 4 <= c_max_items cfg.

Ltac side :=
  unfold StackLemmas.fits, StackLemmas.space, room, cpre in *; cbn [st_stack List.length];
  repeat rewrite app_length; cbn [List.length]; blia.

Ltac t_push0 Hd :=
  erewrite run_tape_step; [|exact Hd|reflexivity|
    let Hda := fresh "Hda" in intro Hda; change (dispatch _) with OP_PUSH0;
    eapply BuilderSpecC14.push0_exec; [exact Hda|reflexivity|side|side]]; norm.
Ltac t_wc Hd :=
  erewrite run_tape_step; [|exact Hd|reflexivity|
    let Hda := fresh "Hda" in intro Hda; change (dispatch _) with OP_WRITE_CACHE;
    eapply write_cache1_exec; [exact Hda|reflexivity]]; norm.
Ltac t_rc Hd :=
  erewrite run_tape_step; [|exact Hd|reflexivity|
    let Hda := fresh "Hda" in intro Hda; change (dispatch _) with OP_READ_CACHE;
    eapply read_cache1_exec; [exact Hda|cache_here|reflexivity|side|side]]; norm.
Ltac t_ts Hts :=
  cbn [st_cache]; repeat (rewrite cache_get_set_other by reflexivity); exact Hts.

(* the state in which OP_IF_ELSE is fetched *)
Definition st28 (st : state) : state :=
  with_cache (with_stack st (zip_pad byte_and [can] more :: rest))
             (act_cache (st_cache st) K D b e can csig).

Lemma body_straight g T st :
  tdata st T = body_bytes fl ->
  st_stack st = K :: (cpre D b e can ++ csig) :: more :: rest ->
  cache_get (st_cache st) ts_key = Some (VOne (AInt ts)) ->
  (cert_good K D b e can csig = true /\
   run_tape orc cfg (28 + g) T 0 st = run_tape orc cfg g T 60 (st28 st)) \/
  (cert_good K D b e can csig = false /\
   exists err fr st', run_tape orc cfg (28 + g) T 0 st = Raised err fr st').
Proof.
  intros Hd Hst Hts. unfold cert_good, st28, act_cache, kR, kS, kC, kE, kB, kD, one.
  cbn [Nat.add].
  destruct st as [stk0 c0 T0 D0 L0 R0]. cbn [st_stack st_cache] in Hst, Hts |- *. subst stk0.
  (* 1: WRITE_CACHE r 1 *)
  t_wc Hd.
  (* 2: PUSH0 41 ; 3: SPLIT ; 4: WRITE_CACHE s 1 *)
  t_push0 Hd.
  erewrite run_tape_step; [|exact Hd|reflexivity|].
  2:{ intros _. change (dispatch _) with OP_SPLIT.
      eapply (split_exec orc cfg _ _ _ x29 (cpre D b e can) csig (more :: rest));
        [reflexivity|reflexivity| | |side|side|side].
      - unfold cpre. rewrite !app_length, LD, Lb, Le. reflexivity.
      - intro E. rewrite E in Lc. discriminate. }
  norm.
  t_wc Hd.
  (* 5: DUP *)
  erewrite run_tape_step; [|exact Hd|reflexivity|].
  2:{ intros _. change (dispatch _) with OP_DUP. eapply BuilderSpecC14.dup_exec; [reflexivity|side|side]. }
  norm.
  (* 6: PUSH0 40 ; 7: SPLIT ; 8: WRITE_CACHE c 1 *)
  t_push0 Hd.
  erewrite run_tape_step; [|exact Hd|reflexivity|].
  2:{ intros _. change (dispatch _) with OP_SPLIT.
      eapply (split_exec_eq orc cfg _ _ _ x28 (cpre D b e can) (D ++ b ++ e) [can] (cpre D b e can :: more :: rest));
        [reflexivity| |reflexivity| |discriminate|side|side|side].
      - unfold cpre. rewrite <- !app_assoc. reflexivity.
      - rewrite !app_length, LD, Lb, Le. reflexivity. }
  norm.
  t_wc Hd.
  (* 9: PUSH0 36 ; 10: SPLIT ; 11: WRITE_CACHE e 1 *)
  t_push0 Hd.
  erewrite run_tape_step; [|exact Hd|reflexivity|].
  2:{ intros _. change (dispatch _) with OP_SPLIT.
      eapply (split_exec_eq orc cfg _ _ _ x24 (D ++ b ++ e) (D ++ b) e (cpre D b e can :: more :: rest));
        [reflexivity| |reflexivity| | |side|side|side].
      - rewrite <- !app_assoc. reflexivity.
      - rewrite !app_length, LD, Lb. reflexivity.
      - intro E. rewrite E in Le. discriminate. }
  norm.
  t_wc Hd.
  (* 12: PUSH0 32 ; 13: SPLIT ; 14: WRITE_CACHE b 1 ; 15: WRITE_CACHE d 1 *)
  t_push0 Hd.
  erewrite run_tape_step; [|exact Hd|reflexivity|].
  2:{ intros _. change (dispatch _) with OP_SPLIT.
      eapply (split_exec orc cfg _ _ _ x20 D b (cpre D b e can :: more :: rest));
        [reflexivity|reflexivity| | |side|side|side].
      - rewrite LD. reflexivity.
      - intro E. rewrite E in Lb. discriminate. }
  norm.
  t_wc Hd. t_wc Hd.
  (* 16: READ_CACHE b ; 17: CHECK_TIMESTAMP_VERIFY *)
  t_rc Hd.
  erewrite run_tape_fetch_at; [|exact Hd|reflexivity].
  change (dispatch _) with OP_CHECK_TIMESTAMP_VERIFY.
  rewrite (check_timestamp_verify_spec orc cfg _ _ _ b (cpre D b e can :: more :: rest) ts thr);
    [|reflexivity|intro E; rewrite E in Lb; discriminate|t_ts Hts|exact Hthr|side].
  destruct (ts_verdict cfg (be_to_Z b) ts thr) eqn:V1.
  2:{ right. split; [reflexivity|]. eexists _, _, _. reflexivity. }
  norm.
  (* 18: READ_CACHE e ; 19: CHECK_TIMESTAMP ; 20: NOT ; 21: VERIFY *)
  t_rc Hd.
  erewrite run_tape_step; [|exact Hd|reflexivity|].
  2:{ intros _. change (dispatch _) with OP_CHECK_TIMESTAMP.
      apply (check_timestamp_spec orc cfg _ _ _ e (cpre D b e can :: more :: rest) ts thr);
        [reflexivity|intro E; rewrite E in Le; discriminate|t_ts Hts|exact Hthr|side]. }
  norm.
  erewrite run_tape_step; [|exact Hd|reflexivity|].
  2:{ intros _. change (dispatch _) with OP_NOT. eapply BuilderSpecC14.not_exec; [reflexivity|side]. }
  norm.
  erewrite run_tape_fetch_at; [|exact Hd|reflexivity].
  change (dispatch _) with OP_VERIFY.
  erewrite BuilderSpecC14.verify_exec by reflexivity. rewrite bytes_to_bool_boolb.
  destruct (ts_verdict cfg (be_to_Z e) ts thr) eqn:V2; cbn [negb andb].
  { right. split; [reflexivity|]. eexists _, _, _. reflexivity. }
  norm.
  (* 22: READ_CACHE s ; 23: SWAP2 ; 24: READ_CACHE r ; 25: CHECK_SIG_STACK ; 26: VERIFY *)
  t_rc Hd.
  erewrite run_tape_step; [|exact Hd|reflexivity|].
  2:{ intros _. change (dispatch _) with OP_SWAP2. eapply swap2_exec; [reflexivity|side|side|side]. }
  norm.
  t_rc Hd.
  erewrite run_tape_step; [|exact Hd|reflexivity|].
  2:{ intros _. change (dispatch _) with OP_CHECK_SIG_STACK.
      eapply check_sig_stack_exec; [reflexivity|exact LK|exact Lc|side]. }
  norm.
  erewrite run_tape_fetch_at; [|exact Hd|reflexivity].
  change (dispatch _) with OP_VERIFY.
  erewrite BuilderSpecC14.verify_exec by reflexivity. rewrite bytes_to_bool_boolb.
  destruct (css_verdict orc K (cpre D b e can) csig) eqn:V3.
  2:{ right. split; [reflexivity|]. eexists _, _, _. reflexivity. }
  norm.
  (* 27: READ_CACHE c ; 28: AND *)
  t_rc Hd.
  erewrite run_tape_step; [|exact Hd|reflexivity|].
  2:{ intros _. change (dispatch _) with OP_AND. eapply and_exec; [reflexivity|side|exact Fm|side]. }
  norm.
  left. split; reflexivity.
Qed.

End Straight.

(* ============================================================================================== *)
(* 4. the two arms of the OP_IF_ELSE, each run as a new tape object                                *)
(* ============================================================================================== *)

(* what `@d call d0` (tape A, call count c) makes of the outcome of the called definition *)
Definition call_wrap (A : nat) (o : outcome unit) : outcome unit :=
  match o with
  | Done _ _ st' =>
      Done tt {| fr_tid := A; fr_ptr := 5 |} (with_cache st' (cache_del (st_cache st') returned_key))
  | Raised e _ st' => Raised e {| fr_tid := A; fr_ptr := 5 |} st'
  | OutOfFuel => OutOfFuel
  | Unmodelled w => Unmodelled w
  end.

(* the state in which the called definition (tape object T) starts: both tape objects carry the count c + 1 *)
Definition call_state (sA : state) (A T : nat) (c : Z) (stk : list bytes) : state :=
  set_count (set_count (with_stack sA stk) A (c + 1)) T (c + 1).

Section Arms.
Variable orc : oracle.
Variable cfg : config.
Notation sub f := (fun t s0 => run_tape orc cfg f t 0 s0).

Lemma call_arm_runs g A T sA D s c :
  tdata sA A = call_arm -> st_stack sA = s ->
  cache_get (st_cache sA) kD = Some (one D) -> fits cfg D -> space cfg s ->
  A < List.length (st_tapes sA) -> T < List.length (st_tapes sA) -> T <> A ->
  to_count (nth_tape sA A) = c -> (c <? c_limit cfg)%Z = true ->
  defs_get (nth_defs sA (to_defs (nth_tape sA A))) x00 = Some T ->
  run_tape orc cfg (S (S (S g))) A 0 sA =
    call_wrap A (run_tape orc cfg (S g) T 0 (call_state sA A T c (D :: s))).
Proof.
  intros Hd Hs Hk FD Hsp HA HT Hne Hc Hlim Hg.
  (* READ_CACHE d *)
  erewrite run_tape_step; [|exact Hd|reflexivity|].
  2:{ intro Hda. change (dispatch _) with OP_READ_CACHE.
      eapply read_cache1_exec; [exact Hda|exact Hk|exact Hs|exact FD|exact Hsp]. }
  unfold fwd. cbn [fr_ptr fr_tid Nat.add].
  set (s1 := with_stack sA (D :: s)).
  assert (Hd1 : tdata s1 A = [x0a;x01;x64;x2a] ++ [x00] ++ []) by exact Hd.
  (* CALL 0 *)
  erewrite run_tape_fetch_at; [|exact Hd|reflexivity].
  change (dispatch _) with OP_CALL.
  assert (H1 : nth_tape (set_count s1 A (c + 1)) A =
               {| to_data := to_data (nth_tape s1 A); to_count := (c + 1)%Z; to_defs := to_defs (nth_tape s1 A) |})
    by (apply nth_tape_set_count_same; exact HA).
  rewrite (call_exec orc cfg _ A s1 4 [x0a;x01;x64;x2a] x00 [] T Hd1 eq_refl).
  2:{ change (nth_tape s1 A) with (nth_tape sA A). rewrite Hc. exact Hlim. }
  2:{ cbv zeta. change (to_count (nth_tape s1 A)) with (to_count (nth_tape sA A)). rewrite Hc, H1.
      cbn [to_defs]. exact Hg. }
  cbv zeta. change (to_count (nth_tape s1 A)) with (to_count (nth_tape sA A)). rewrite Hc, H1. cbn [to_count].
  change (set_count (set_count s1 A (c + 1)) T (c + 1)) with (call_state sA A T c (D :: s)).
  pose proof (data_kept orc cfg (S g) T 0 (call_state sA A T c (D :: s)) A _ eq_refl) as Hk2.
  destruct (run_tape orc cfg (S g) T 0 (call_state sA A T c (D :: s))) as [[] fr' st'|e fr' st'| |w];
    cbn [call_wrap]; try reflexivity.
  cbn [fr_ptr Nat.add]. apply run_tape_end.
  change (tdata (with_cache st' (cache_del (st_cache st') returned_key)) A) with (tdata st' A).
  rewrite Hk2.
  - unfold call_state. rewrite !tdata_set_count. change (tdata (with_stack sA (D :: s)) A) with (tdata sA A).
    rewrite Hd. simpl. lia.
  - unfold call_state. rewrite !tapes_set_count_length. exact HA.
Qed.

(* the call budget is used up: OP_CALL raises before the definition is looked up *)
Lemma call_arm_over g A sA D s c :
  tdata sA A = call_arm -> st_stack sA = s ->
  cache_get (st_cache sA) kD = Some (one D) -> fits cfg D -> space cfg s ->
  to_count (nth_tape sA A) = c -> (c <? c_limit cfg)%Z = false ->
  run_tape orc cfg (S (S (S g))) A 0 sA =
    Raised ScriptExecutionError {| fr_tid := A; fr_ptr := 4 |} (with_stack sA (D :: s)).
Proof.
  intros Hd Hs Hk FD Hsp Hc Hlim.
  erewrite run_tape_step; [|exact Hd|reflexivity|].
  2:{ intro Hda. change (dispatch _) with OP_READ_CACHE.
      eapply read_cache1_exec; [exact Hda|exact Hk|exact Hs|exact FD|exact Hsp]. }
  unfold fwd. cbn [fr_ptr fr_tid Nat.add].
  erewrite run_tape_fetch_at; [|exact Hd|reflexivity].
  change (dispatch _) with OP_CALL.
  unfold OP_CALL, config_, read, act, sert. cbn [bind].
  rewrite config_step, count_step. cbn [fr_tid].
  change (nth_tape (with_stack sA (D :: s)) A) with (nth_tape sA A). rewrite Hc, Hlim. reflexivity.
Qed.

(* what `@d check_sig fl` (tape A) makes of the outcome of the signature check *)
Definition sig_wrap (A : nat) (o : outcome unit) : outcome unit :=
  match o with
  | Done _ _ st' => Done tt {| fr_tid := A; fr_ptr := 5 |} st'
  | Raised e fr st' => Raised e fr st'
  | OutOfFuel => OutOfFuel
  | Unmodelled w => Unmodelled w
  end.

Lemma sig_arm_runs g A sA fl D s :
  tdata sA A = sig_arm fl -> st_stack sA = s ->
  cache_get (st_cache sA) kD = Some (one D) -> fits cfg D -> space cfg s ->
  A < List.length (st_tapes sA) ->
  run_tape orc cfg (S (S (S g))) A 0 sA =
    sig_wrap A (interp orc cfg (sub (S g)) (check_sig_body (b2z fl)) {| fr_tid := A; fr_ptr := 5 |}
                       (sigext_log cfg (with_stack sA (D :: s)))).
Proof.
  intros Hd Hs Hk FD Hsp HA.
  erewrite run_tape_step; [|exact Hd|reflexivity|].
  2:{ intro Hda. change (dispatch _) with OP_READ_CACHE.
      eapply read_cache1_exec; [exact Hda|exact Hk|exact Hs|exact FD|exact Hsp]. }
  unfold fwd. cbn [fr_ptr fr_tid Nat.add].
  set (s1 := with_stack sA (D :: s)).
  erewrite run_tape_fetch_at; [|exact Hd|reflexivity].
  change (dispatch _) with OP_CHECK_SIG.
  assert (Hda : data_at {| fr_tid := A; fr_ptr := 4 |} s1 = [fl])
    by exact (data_at_next A 3 s1 _ x23 [fl] Hd eq_refl).
  rewrite (check_sig_decomposed orc cfg _ _ s1 fl [] Hda).
  unfold adv. cbn [fr_tid fr_ptr Nat.add].
  assert (Hrun : run_ok R_heap (sub (S g))) by (intros t s0; apply run_tape_heap).
  pose proof (interp_ptr orc cfg _ Hrun unit (check_sig_body (b2z fl)) {| fr_tid := A; fr_ptr := 5 |}
                (sigext_log cfg s1)) as Hp.
  destruct (interp orc cfg (sub (S g)) (check_sig_body (b2z fl)) {| fr_tid := A; fr_ptr := 5 |} (sigext_log cfg s1))
    as [[] fr' st'|e fr' st'| |w]; cbn [sig_wrap]; try reflexivity.
  cbn [ptr_out] in Hp. destruct Hp as (Ht & [_ Hh] & Hb). cbn [fr_tid fr_ptr] in Ht, Hb.
  assert (Hdata : data_of st' A = sig_arm fl).
  { rewrite Hh by exact HA. exact Hd. }
  destruct Hb as [B1 B2]; [exact HA|change (data_of (sigext_log cfg s1) A) with (tdata sA A); rewrite Hd; simpl; lia|].
  rewrite Ht, Hdata in B2. simpl in B2.
  assert (fr_ptr fr' = 5) by lia.
  rewrite H. apply run_tape_end. change (tdata st' A) with (data_of st' A). rewrite Hdata. simpl. lia.
Qed.

End Arms.

(* ============================================================================================== *)
(* 5. body_step: one activation of definition 0                                                    *)
(* ============================================================================================== *)

(* the state in which the selected arm starts (a new tape object, a new copy of the definition table) *)
Definition arm_start (st : state) (T : nat) (K D b e csig more : bytes) (can : byte) (rest : list bytes)
    (arm : bytes) : state :=
  sub_start (with_stack (st28 K D b e csig more can rest st) rest) T arm.

(* the state in which the recursive activation starts *)
Definition next_state (st : state) (T : nat) (c : Z) (K D b e csig more : bytes) (can : byte) (rest : list bytes)
    : state :=
  call_state (arm_start st T K D b e csig more can rest call_arm) (List.length (st_tapes st)) T c (D :: rest).

Lemma nth_snoc {A} (l : list A) x d : nth (List.length l) (l ++ [x]) d = x.
Proof. rewrite app_nth2 by lia. rewrite Nat.sub_diag. reflexivity. Qed.

Section Step.
Variable orc : oracle.
Variable cfg : config.
Hypothesis Hsize : 105 <= c_max_item_size cfg.
Variable fl : byte.
Variables ts thr : Z.
Hypothesis Hthr : flag_get (c_flags cfg) thr_key = Some (FVInt thr).
Notation sub f := (fun t s0 => run_tape orc cfg f t 0 s0).

Variables K D b e csig more : bytes.
Variable can : byte.
Variable rest : list bytes.
Hypothesis LK : List.length K = 32.
Hypothesis LD : List.length D = 32.
Hypothesis Lb : List.length b = 4.
Hypothesis Le : List.length e = 4.
Hypothesis Lc : List.length csig = 64.
Hypothesis Fm : fits cfg more.
Hypothesis Hitems : List.length rest + 4 <= c_max_items cfg.

Variable T : nat.
Variable st : state.
Variable c : Z.
Hypothesis Hd : tdata st T = body_bytes fl.
Hypothesis HT : T < List.length (st_tapes st).
Hypothesis Hc : to_count (nth_tape st T) = c.
Hypothesis Hdid : to_defs (nth_tape st T) < List.length (st_defs st).
Hypothesis Hg : defs_get (nth_defs st (to_defs (nth_tape st T))) x00 = Some T.
Hypothesis Hst : st_stack st = K :: (cpre D b e can ++ csig) :: more :: rest.
Hypothesis Hts : cache_get (st_cache st) ts_key = Some (VOne (AInt ts)).

Notation A := (List.length (st_tapes st)).
Notation good := (cert_good orc cfg ts thr K D b e can csig).
Notation arm0 := (arm_start st T K D b e csig more can rest).

Lemma arm_facts arm :
  tdata (arm0 arm) A = arm /\ A < List.length (st_tapes (arm0 arm)) /\ T < List.length (st_tapes (arm0 arm)) /\
  T <> A /\ to_count (nth_tape (arm0 arm) A) = c /\
  defs_get (nth_defs (arm0 arm) (to_defs (nth_tape (arm0 arm) A))) x00 = Some T /\
  st_stack (arm0 arm) = rest /\
  st_cache (arm0 arm) = act_cache (st_cache st) K D b e can csig.
Proof.
  split; [exact (tdata_sub_new (with_stack (st28 K D b e csig more can rest st) rest) T arm)|].
  unfold arm_start, st28.
  unfold sub_start, nth_tape, nth_defs. cbn [st_tapes st_defs st_stack st_cache with_tapes with_defs with_stack with_cache].
  rewrite app_length. cbn [List.length].
  split; [lia|]. split; [lia|]. split; [lia|].
  rewrite !nth_snoc. cbn [to_count to_defs]. rewrite nth_snoc.
  split; [exact Hc|]. split; [exact Hg|]. split; reflexivity.
Qed.

Lemma cache_d arm : cache_get (st_cache (arm0 arm)) kD = Some (one D).
Proof. destruct (arm_facts arm) as (_ & _ & _ & _ & _ & _ & _ & ->). apply cache_get_set_same. Qed.

Theorem body_step g :
  (* (a) a certificate outside its window, or not signed by the authorising key: the activation raises *)
  (good = false -> exists err fr st', run_tape orc cfg (32 + g) T 0 st = Raised err fr st') /\
  (* (b) good certificate, can-delegate AND flag truthy: definition 0 is called again (same tape object T,
         call count + 1) with D as authorising key on the remaining stack *)
  (good = true -> bytes_to_bool (zip_pad byte_and [can] more) = true -> (c <? c_limit cfg)%Z = true ->
     run_tape orc cfg (32 + g) T 0 st =
       ifelse_last_outcome T 75
         (call_wrap A (run_tape orc cfg (S g) T 0 (next_state st T c K D b e csig more can rest)))) /\
  (* (c) good certificate, can-delegate AND flag falsy: CHECK_SIG fl with key D on the remaining stack *)
  (good = true -> bytes_to_bool (zip_pad byte_and [can] more) = false ->
     run_tape orc cfg (32 + g) T 0 st =
       ifelse_last_outcome T 75
         (sig_wrap A (interp orc cfg (sub (S g)) (check_sig_body (b2z fl)) {| fr_tid := A; fr_ptr := 5 |}
                             (sigext_log cfg (with_stack (arm0 (sig_arm fl)) (D :: rest)))))).
Proof.
  change (32 + g) with (28 + S (S (S (S g)))).
  destruct (body_straight orc cfg Hsize fl ts thr Hthr K D b e csig more can rest LK LD Lb Le Lc Fm Hitems
              (S (S (S (S g)))) T st Hd Hst Hts) as [[G Heq]|[G (err & fr & st' & Heq)]].
  2:{ split; [intros _; eauto|]. split; intros G'; rewrite G in G'; discriminate. }
  split; [intro G'; rewrite G in G'; discriminate|].
  rewrite Heq.
  assert (Hif : run_tape orc cfg (S (S (S (S g)))) T 60 (st28 K D b e csig more can rest st) =
    ifelse_last_outcome T 75
      (run_tape orc cfg (S (S (S g))) A 0
         (arm0 (if bytes_to_bool (zip_pad byte_and [can] more) then call_arm else sig_arm fl)))).
  { apply (if_else_last orc cfg (S (S g)) T (st28 K D b e csig more can rest st) 60 body_pre call_arm (sig_arm fl)
             (zip_pad byte_and [can] more) rest); try reflexivity.
    - exact Hd.
    - exact HT. }
  rewrite Hif. clear Hif Heq.
  split.
  - intros _ Hb Hlim. rewrite Hb.
    destruct (arm_facts call_arm) as (F1 & F2 & F3 & F4 & F5 & F6 & F7 & F8).
    rewrite (call_arm_runs orc cfg g A T _ D rest c F1 F7 (cache_d call_arm)); try assumption.
    + reflexivity.
    + unfold fits. lia.
    + unfold space. lia.
  - intros _ Hb. rewrite Hb.
    destruct (arm_facts (sig_arm fl)) as (F1 & F2 & F3 & F4 & F5 & F6 & F7 & F8).
    rewrite (sig_arm_runs orc cfg g A _ fl D rest F1 F7 (cache_d (sig_arm fl))); try assumption.
    + reflexivity.
    + unfold fits. lia.
    + unfold space. lia.
Qed.

(* (b') good certificate, can-delegate AND flag truthy, but the call budget is used up: the activation raises *)
Theorem body_step_over_budget g :
  good = true -> bytes_to_bool (zip_pad byte_and [can] more) = true -> (c <? c_limit cfg)%Z = false ->
  exists err fr st', run_tape orc cfg (32 + g) T 0 st = Raised err fr st'.
Proof.
  intros G Hb Hlim.
  change (32 + g) with (28 + S (S (S (S g)))).
  destruct (body_straight orc cfg Hsize fl ts thr Hthr K D b e csig more can rest LK LD Lb Le Lc Fm Hitems
              (S (S (S (S g)))) T st Hd Hst Hts) as [[_ Heq]|[G' _]]; [|rewrite G in G'; discriminate].
  rewrite Heq.
  assert (Hif : run_tape orc cfg (S (S (S (S g)))) T 60 (st28 K D b e csig more can rest st) =
    ifelse_last_outcome T 75
      (run_tape orc cfg (S (S (S g))) A 0
         (arm0 (if bytes_to_bool (zip_pad byte_and [can] more) then call_arm else sig_arm fl)))).
  { apply (if_else_last orc cfg (S (S g)) T (st28 K D b e csig more can rest st) 60 body_pre call_arm (sig_arm fl)
             (zip_pad byte_and [can] more) rest); try reflexivity.
    - exact Hd.
    - exact HT. }
  rewrite Hif, Hb.
  destruct (arm_facts call_arm) as (F1 & F2 & F3 & F4 & F5 & F6 & F7 & F8).
  rewrite (call_arm_over orc cfg g A _ D rest c F1 F7 (cache_d call_arm));
    [|unfold fits; lia|unfold space; lia|exact F5|exact Hlim].
  cbn [ifelse_last_outcome]. eexists _, _, _. reflexivity.
Qed.

(* the recursive activation starts in a state of the same shape: same tape object, count + 1, key D *)
Lemma next_state_facts :
  let s' := next_state st T c K D b e csig more can rest in
  tdata s' T = body_bytes fl /\ T < List.length (st_tapes s') /\
  to_count (nth_tape s' T) = (c + 1)%Z /\
  to_defs (nth_tape s' T) < List.length (st_defs s') /\
  defs_get (nth_defs s' (to_defs (nth_tape s' T))) x00 = Some T /\
  st_stack s' = D :: rest /\
  st_cache s' = act_cache (st_cache st) K D b e can csig.
Proof.
  cbv zeta. unfold next_state, call_state.
  destruct (arm_facts call_arm) as (F1 & F2 & F3 & F4 & F5 & F6 & F7 & F8).
  set (sA := arm0 call_arm) in *.
  assert (Hold : nth_tape sA T = nth_tape st T).
  { unfold sA, arm_start, sub_start, nth_tape. cbn [st_tapes with_tapes]. apply app_nth1. exact HT. }
  assert (H1 : nth_tape (set_count (set_count (with_stack sA (D :: rest)) A (c + 1)) T (c + 1)) T =
               {| to_data := to_data (nth_tape st T); to_count := (c + 1)%Z; to_defs := to_defs (nth_tape st T) |}).
  { rewrite nth_tape_set_count_same by (rewrite tapes_set_count_length; exact F3).
    rewrite nth_tape_set_count_other by (intro E; apply F4; symmetry; exact E).
    change (nth_tape (with_stack sA (D :: rest)) T) with (nth_tape sA T). rewrite Hold. reflexivity. }
  split; [rewrite !tdata_set_count; change (tdata (with_stack sA (D :: rest)) T) with (to_data (nth_tape sA T));
          rewrite Hold; exact Hd|].
  split; [rewrite !tapes_set_count_length; exact F3|].
  rewrite H1. cbn [to_count to_defs].
  split; [reflexivity|].
  assert (Hdefs : st_defs (set_count (set_count (with_stack sA (D :: rest)) A (c + 1)) T (c + 1)) =
                  st_defs st ++ [nth_defs st (to_defs (nth_tape st T))]) by reflexivity.
  unfold nth_defs. rewrite Hdefs, app_length. cbn [List.length].
  split; [lia|]. rewrite app_nth1 by exact Hdid.
  split; [exact Hg|]. split; [reflexivity|exact F8].
Qed.

End Step.

(* ============================================================================================== *)
(* 6. the chain: induction on the certificates that precede the last one                           *)
(* ============================================================================================== *)

(* a certificate: delegate key, begin, end, can-delegate byte, signature of the authorising key *)
Record cert := { cD : bytes; cb : bytes; ce : bytes; ccan : byte; ccsig : bytes }.
Definition cert_wf (x : cert) : Prop :=
  List.length (cD x) = 32 /\ List.length (cb x) = 4 /\ List.length (ce x) = 4 /\ List.length (ccsig x) = 64.
(* Certificate.pack *)
Definition pack (x : cert) : bytes := cD x ++ cb x ++ ce x ++ [ccan x] ++ ccsig x.

Lemma pack_eq x : pack x = cpre (cD x) (cb x) (ce x) (ccan x) ++ ccsig x.
Proof. unfold pack, cpre. rewrite <- !app_assoc. reflexivity. Qed.
Lemma pack_length x : cert_wf x -> List.length (pack x) = 105.
Proof. intros (H1 & H2 & H3 & H4). unfold pack. rewrite !app_length, H1, H2, H3, H4. reflexivity. Qed.

(* the stack the witness leaves beneath the authorising key: the certificates in the order in which the
   lock consumes them (the first one is signed by the root), `true` beneath every certificate that is
   followed by another one, `false` beneath the last one, then the signature of the last delegate *)
Fixpoint chain_stack (init : list cert) (cn : cert) (sig : bytes) : list bytes :=
  match init with
  | [] => [pack cn; [x00]; sig]
  | ci :: init' => pack ci :: [xff] :: chain_stack init' cn sig
  end.

Lemma chain_stack_length init cn sig : List.length (chain_stack init cn sig) = 2 * List.length init + 3.
Proof. induction init as [|ci init IH]; [reflexivity|]. cbn [chain_stack List.length]. rewrite IH. lia. Qed.

(* outcome of one activation of the definition, in terms of an acceptance condition P and the condition U
   under which the run leaves the model (oracle answering PVerify with <> 1 items) *)
Definition def_outcome (P U : Prop) (r : outcome unit) : Prop :=
  match r with
  | Done _ _ st' => exists v, st_stack st' = [boolb v] /\ (v = true <-> P)
  | Raised _ _ _ => ~ P
  | OutOfFuel => False
  | Unmodelled _ => U
  end.

Lemma def_outcome_iff (P P' U U' : Prop) r :
  (P <-> P') -> (U -> U') -> def_outcome P U r -> def_outcome P' U' r.
Proof.
  intros H1 H2. destruct r as [[] fr st'|e fr st'| |w]; cbn [def_outcome]; try tauto.
  intros (v & Hs & Hv). exists v. split; [exact Hs|]. tauto.
Qed.

Lemma def_outcome_wrap (P U : Prop) T A r :
  def_outcome P U r -> def_outcome P U (ifelse_last_outcome T 75 (call_wrap A r)).
Proof.
  destruct r as [[] fr st'|e fr st'| |w]; cbn [def_outcome call_wrap ifelse_last_outcome]; try tauto.
  intros (v & Hs & Hv). exists v. split; [|exact Hv]. rewrite stack_prop_cache. exact Hs.
Qed.

Section Chain.
Variable orc : oracle.
Variable cfg : config.
Hypothesis Hsize : 105 <= c_max_item_size cfg.
Variable fl : byte.
Variables ts thr : Z.
Hypothesis Hthr : flag_get (c_flags cfg) thr_key = Some (FVInt thr).
Notation sub f := (fun t s0 => run_tape orc cfg f t 0 s0).

(* the certificate is inside its window at ts and its signature verifies under the authorising key K *)
Definition cert_ok (K : bytes) (x : cert) : Prop :=
  ts_verdict cfg (be_to_Z (cb x)) ts thr = true /\
  ts_verdict cfg (be_to_Z (ce x)) ts thr = false /\
  exists r, orc PVerify [K; cpre (cD x) (cb x) (ce x) (ccan x); ccsig x] = OOk [r] /\ bytes_to_bool r = true.

Lemma cert_good_ok K x :
  cert_good orc cfg ts thr K (cD x) (cb x) (ce x) (ccan x) (ccsig x) = true <-> cert_ok K x.
Proof.
  unfold cert_good, cert_ok. rewrite !andb_true_iff, negb_true_iff, css_verdict_true. tauto.
Qed.

(* every certificate is good for the key that the previous one delegated to (the root for the first one);
   every certificate that is followed by another one has a non-zero can-delegate byte; Q holds of the key
   the last certificate delegates to *)
Fixpoint chain_pred (Q : bytes -> Prop) (K : bytes) (init : list cert) (cn : cert) : Prop :=
  match init with
  | [] => cert_ok K cn /\ Q (cD cn)
  | ci :: init' => cert_ok K ci /\ ccan ci <> x00 /\ chain_pred Q (cD ci) init' cn
  end.

Definition final_unmod (sig : bytes) (c0 : cache) (pk : bytes) : Prop :=
  exists m l, msg_of (sig_flag sig) c0 = Some m /\
              orc PVerify [pk; m; firstn 64 sig] = OOk l /\ List.length l <> 1.

Variable sig : bytes.
Hypothesis Lsig : List.length sig = 64 \/ List.length sig = 65.
Variable c0 : cache.

Notation accepts := (chain_pred (fun Dn => sig_accepts orc cfg Dn sig (b2z fl) c0)).
Notation unmod := (chain_pred (final_unmod sig c0)).

(* the closing OP_CHECK_SIG of the last activation *)
Lemma final_check run fr s Dn :
  st_stack s = [Dn; sig] -> List.length Dn = 32 -> 1 <= c_max_items cfg ->
  (forall g, msg_of g (st_cache s) = msg_of g c0) ->
  forall T A,
  def_outcome (sig_accepts orc cfg Dn sig (b2z fl) c0) (final_unmod sig c0 Dn)
    (ifelse_last_outcome T 75
       (sig_wrap A (interp orc cfg run (check_sig_body (b2z fl)) fr (sigext_log cfg s)))).
Proof.
  intros Hs LD Hit Hmsg T A.
  rewrite (check_sig_body_exact orc cfg _ (b2z fl) _ (sigext_log cfg s) Dn sig []) by exact Hs.
  cbv zeta. unfold blen. rewrite LD. change (Z.of_nat 32 =? 32)%Z with true. cbn [negb].
  assert (Hs2 : ((Z.of_nat (List.length sig) =? 64) || (Z.of_nat (List.length sig) =? 65))%Z = true).
  { destruct Lsig as [->| ->]; reflexivity. }
  rewrite Hs2. cbn [negb].
  change (st_cache (sigext_log cfg s)) with (st_cache s). rewrite Hmsg.
  unfold sig_accepts, final_unmod.
  destruct (flags_permitted (sig_flag sig) (b2z fl)) eqn:Ef; cbn [negb].
  2:{ cbn. intros [H _]. discriminate. }
  destruct (msg_of (sig_flag sig) c0) as [m|] eqn:Em.
  2:{ cbn. intros (_ & m & x & H & _). discriminate. }
  cbn [List.length].
  replace (c_max_items cfg <=? 0) with false by (symmetry; apply Nat.leb_gt; lia).
  rewrite orb_false_r.
  destruct (c_max_item_size cfg <? List.length m) eqn:El.
  { apply Nat.ltb_lt in El. cbn. intros (_ & m' & x & H & Hlen & _). injection H as <-. lia. }
  apply Nat.ltb_ge in El.
  match goal with |- context [orc PVerify ?a] => destruct (orc PVerify a) as [[|x [|y l]]|err] eqn:Eo end.
  - cbn. exists m, []. split; [reflexivity|]. split; [exact Eo|]. simpl. lia.
  - replace (c_max_item_size cfg <? 1) with false by (symmetry; apply Nat.ltb_ge; lia).
    cbn [sig_wrap ifelse_last_outcome def_outcome]. rewrite stack_prop_cache. cbn [st_stack with_stack].
    exists (bytes_to_bool x). split; [reflexivity|]. split.
    + intro Hb. split; [reflexivity|]. exists m, x. split; [reflexivity|]. split; [exact El|]. split; [exact Eo|exact Hb].
    + intros (_ & m' & x' & H1 & _ & H2 & H3). injection H1 as <-.
      assert (Hx : OOk [x'] = OOk [x]) by (rewrite <- H2; exact Eo). injection Hx as <-. exact H3.
  - cbn. exists m, (x :: y :: l). split; [reflexivity|]. split; [exact Eo|]. simpl. lia.
  - cbn. intros (_ & m' & x & H1 & _ & H2 & _). injection H1 as <-.
    assert (Hx : OOk [x] = OErr err) by (rewrite <- H2; exact Eo). discriminate.
Qed.

(* a certificate where a signature is expected: OP_CHECK_SIG raises ValueError (105 bytes) *)
Lemma cert_as_sig run fr s Dk x tl T A :
  st_stack s = Dk :: pack x :: tl -> List.length Dk = 32 -> cert_wf x ->
  exists err fr' st',
    ifelse_last_outcome T 75
      (sig_wrap A (interp orc cfg run (check_sig_body (b2z fl)) fr (sigext_log cfg s))) = Raised err fr' st'.
Proof.
  intros Hs LD Hwf.
  rewrite (check_sig_body_exact orc cfg _ (b2z fl) _ (sigext_log cfg s) Dk (pack x) tl) by exact Hs.
  cbv zeta. unfold blen. rewrite LD, (pack_length x Hwf).
  change (Z.of_nat 32 =? 32)%Z with true. change ((Z.of_nat 105 =? 64) || (Z.of_nat 105 =? 65))%Z with false.
  cbn [negb sig_wrap ifelse_last_outcome]. eexists _, _, _. reflexivity.
Qed.

Lemma chain_stack_head init cn :
  Forall cert_wf init -> cert_wf cn ->
  exists x tl, chain_stack init cn sig = pack x :: tl /\ cert_wf x.
Proof.
  intros Hi Hn. destruct init as [|ci init].
  - exists cn, [[x00]; sig]. split; [reflexivity|exact Hn].
  - exists ci, ([xff] :: chain_stack init cn sig). split; [reflexivity|]. inversion Hi; assumption.
Qed.

Lemma ts_through_act c K D b e can csig :
  cache_get c ts_key = Some (VOne (AInt ts)) ->
  cache_get (act_cache c K D b e can csig) ts_key = Some (VOne (AInt ts)).
Proof. intro H. unfold act_cache. rewrite !cache_get_set_other by reflexivity. exact H. Qed.

Lemma msg_through_act c K D b e can csig g : msg_of g (act_cache c K D b e can csig) = msg_of g c.
Proof. unfold act_cache, kR, kS, kC, kE, kB, kD. rewrite !msg_of_set_bytes. reflexivity. Qed.

(* the activation of definition 0 (tape object T, call count c) with authorising key K on top of the stack the
   witness built for the certificates init ++ [cn] *)
Lemma chain_runs cn :
  cert_wf cn ->
  forall init K st T c g,
  Forall cert_wf init -> List.length K = 32 ->
  2 * List.length init + 5 <= c_max_items cfg ->
  (c + Z.of_nat (List.length init) <= c_limit cfg)%Z ->
  tdata st T = body_bytes fl -> T < List.length (st_tapes st) ->
  to_count (nth_tape st T) = c ->
  to_defs (nth_tape st T) < List.length (st_defs st) ->
  defs_get (nth_defs st (to_defs (nth_tape st T))) x00 = Some T ->
  st_stack st = K :: chain_stack init cn sig ->
  cache_get (st_cache st) ts_key = Some (VOne (AInt ts)) ->
  (forall f, msg_of f (st_cache st) = msg_of f c0) ->
  def_outcome (accepts K init cn) (unmod K init cn)
    (run_tape orc cfg (31 * S (List.length init) + 1 + g) T 0 st).
Proof.
  intros Hwn. induction init as [|ci init IH]; intros K st T c g Hwf LK Hit Hbud Hd HT Hc Hdid Hg Hst Hts Hmsg.
  - (* the last certificate: `false` lies beneath it *)
    destruct Hwn as (L1 & L2 & L3 & L4).
    cbn [chain_stack] in Hst. rewrite pack_eq in Hst.
    change (31 * S (List.length (@nil cert)) + 1 + g) with (32 + g).
    destruct (body_step orc cfg Hsize fl ts thr Hthr K (cD cn) (cb cn) (ce cn) (ccsig cn) [x00] (ccan cn) [sig]
                LK L1 L2 L3 L4 ltac:(unfold fits; simpl; lia) ltac:(simpl in *; lia)
                T st c Hd HT Hc Hdid Hg Hst Hts g) as (Sa & _ & Sc).
    cbn [chain_pred].
    destruct (cert_good orc cfg ts thr K (cD cn) (cb cn) (ce cn) (ccan cn) (ccsig cn)) eqn:G.
    2:{ destruct (Sa eq_refl) as (err & fr & st' & ->). cbn [def_outcome].
        intros [H _]. apply cert_good_ok in H. congruence. }
    apply cert_good_ok in G.
    rewrite (Sc eq_refl) by (rewrite and_false; reflexivity).
    eapply def_outcome_iff; [| |eapply final_check].
    + split; [intro H; split; [exact G|exact H]|intros [_ H]; exact H].
    + intro H. split; [exact G|exact H].
    + reflexivity.
    + exact L1.
    + lia.
    + intro f. cbn [st_cache with_stack]. unfold arm_start, sub_start, st28.
      cbn [st_cache with_stack with_cache with_tapes with_defs]. rewrite msg_through_act. apply Hmsg.
  - (* a certificate followed by another one: `true` lies beneath it *)
    pose proof (Forall_inv Hwf) as Hwi. pose proof (Forall_inv_tail Hwf) as Hwf'.
    destruct Hwi as (L1 & L2 & L3 & L4).
    cbn [chain_stack] in Hst. rewrite pack_eq in Hst.
    cbn [List.length] in *.
    replace (31 * S (S (List.length init)) + 1 + g) with (32 + (31 * S (List.length init) + g)) by lia.
    assert (Hrest : List.length (chain_stack init cn sig) + 4 <= c_max_items cfg)
      by (rewrite chain_stack_length; lia).
    destruct (body_step orc cfg Hsize fl ts thr Hthr K (cD ci) (cb ci) (ce ci) (ccsig ci) [xff] (ccan ci)
                (chain_stack init cn sig)
                LK L1 L2 L3 L4 ltac:(unfold fits; simpl; lia) Hrest
                T st c Hd HT Hc Hdid Hg Hst Hts (31 * S (List.length init) + g)) as (Sa & Sb & Sc).
    cbn [chain_pred].
    destruct (cert_good orc cfg ts thr K (cD ci) (cb ci) (ce ci) (ccan ci) (ccsig ci)) eqn:G.
    2:{ destruct (Sa eq_refl) as (err & fr & st' & ->). cbn [def_outcome].
        intros [H _]. apply cert_good_ok in H. congruence. }
    apply cert_good_ok in G.
    rewrite and_true, bool_of_byte in Sb, Sc.
    destruct (Byte.eqb (ccan ci) x00) eqn:Ecan; cbn [negb] in Sb, Sc.
    + (* can-delegate byte 00: CHECK_SIG is given the next certificate as signature *)
      apply byte_eqb_eq in Ecan.
      rewrite (Sc eq_refl eq_refl).
      destruct (chain_stack_head init cn Hwf' Hwn) as (x & tl & Ex & Wx).
      edestruct (cert_as_sig (sub (S (31 * S (List.length init) + g)))
                   {| fr_tid := List.length (st_tapes st); fr_ptr := 5 |}
                   (with_stack (arm_start st T K (cD ci) (cb ci) (ce ci) (ccsig ci) [xff] (ccan ci)
                                  (chain_stack init cn sig) (sig_arm fl))
                               (cD ci :: chain_stack init cn sig))
                   (cD ci) x tl T (List.length (st_tapes st))) as (err & fr' & st' & E).
      * cbn [st_stack with_stack]. rewrite Ex. reflexivity.
      * exact L1.
      * exact Wx.
      * rewrite E. cbn [def_outcome]. intros (_ & H & _). contradiction.
    + (* the recursive call *)
      assert (Hlim : (c <? c_limit cfg)%Z = true) by (apply Z.ltb_lt; lia).
      rewrite (Sb eq_refl eq_refl Hlim).
      apply def_outcome_wrap.
      pose proof (next_state_facts cfg Hsize fl K (cD ci) (cb ci) (ce ci) (ccsig ci) [xff] (ccan ci)
                    (chain_stack init cn sig) LK L1 L2 L3 L4 Hrest T st c Hd HT Hc Hdid Hg) as NF.
      cbv zeta in NF. destruct NF as (N1 & N2 & N3 & N4 & N5 & N6 & N7).
      assert (Hnz : ccan ci <> x00).
      { intro E. rewrite E in Ecan. discriminate. }
      eapply def_outcome_iff;
        [| |replace (S (31 * S (List.length init) + g)) with (31 * S (List.length init) + 1 + g) by lia;
            apply (IH (cD ci) _ T (c + 1)%Z g Hwf' L1)].
      * split; [intro H; split; [exact G|split; [exact Hnz|exact H]]|intros (_ & _ & H); exact H].
      * intro H. split; [exact G|split; [exact Hnz|exact H]].
      * lia.
      * lia.
      * exact N1.
      * exact N2.
      * exact N3.
      * exact N4.
      * exact N5.
      * exact N6.
      * rewrite N7. apply ts_through_act. exact Hts.
      * intro f. rewrite N7, msg_through_act. apply Hmsg.
Qed.

(* more certificates than call levels left: whatever the certificates, the activation never accepts *)
Lemma chain_over cn :
  cert_wf cn ->
  forall init K st T c g,
  Forall cert_wf init -> List.length K = 32 ->
  2 * List.length init + 5 <= c_max_items cfg ->
  (c <= c_limit cfg)%Z -> (c_limit cfg < c + Z.of_nat (List.length init))%Z ->
  tdata st T = body_bytes fl -> T < List.length (st_tapes st) ->
  to_count (nth_tape st T) = c ->
  to_defs (nth_tape st T) < List.length (st_defs st) ->
  defs_get (nth_defs st (to_defs (nth_tape st T))) x00 = Some T ->
  st_stack st = K :: chain_stack init cn sig ->
  cache_get (st_cache st) ts_key = Some (VOne (AInt ts)) ->
  def_outcome False False (run_tape orc cfg (31 * S (List.length init) + 1 + g) T 0 st).
Proof.
  intros Hwn. induction init as [|ci init IH]; intros K st T c g Hwf LK Hit Hle Hbud Hd HT Hc Hdid Hg Hst Hts.
  - cbn [List.length] in Hbud. lia.
  - pose proof (Forall_inv Hwf) as Hwi. pose proof (Forall_inv_tail Hwf) as Hwf'.
    destruct Hwi as (L1 & L2 & L3 & L4).
    cbn [chain_stack] in Hst. rewrite pack_eq in Hst.
    cbn [List.length] in *.
    replace (31 * S (S (List.length init)) + 1 + g) with (32 + (31 * S (List.length init) + g)) by lia.
    assert (Hrest : List.length (chain_stack init cn sig) + 4 <= c_max_items cfg)
      by (rewrite chain_stack_length; lia).
    pose proof (body_step_over_budget orc cfg Hsize fl ts thr Hthr K (cD ci) (cb ci) (ce ci) (ccsig ci) [xff] (ccan ci)
                (chain_stack init cn sig)
                LK L1 L2 L3 L4 ltac:(unfold fits; simpl; lia) Hrest
                T st c Hd HT Hc Hdid Hg Hst Hts (31 * S (List.length init) + g)) as So.
    destruct (body_step orc cfg Hsize fl ts thr Hthr K (cD ci) (cb ci) (ce ci) (ccsig ci) [xff] (ccan ci)
                (chain_stack init cn sig)
                LK L1 L2 L3 L4 ltac:(unfold fits; simpl; lia) Hrest
                T st c Hd HT Hc Hdid Hg Hst Hts (31 * S (List.length init) + g)) as (Sa & Sb & Sc).
    destruct (cert_good orc cfg ts thr K (cD ci) (cb ci) (ce ci) (ccan ci) (ccsig ci)) eqn:G.
    2:{ destruct (Sa eq_refl) as (err & fr & st' & ->). cbn [def_outcome]. tauto. }
    rewrite and_true, bool_of_byte in So, Sb, Sc.
    destruct (Byte.eqb (ccan ci) x00) eqn:Ecan; cbn [negb] in So, Sb, Sc.
    + rewrite (Sc eq_refl eq_refl).
      destruct (chain_stack_head init cn Hwf' Hwn) as (x & tl & Ex & Wx).
      edestruct (cert_as_sig (sub (S (31 * S (List.length init) + g)))
                   {| fr_tid := List.length (st_tapes st); fr_ptr := 5 |}
                   (with_stack (arm_start st T K (cD ci) (cb ci) (ce ci) (ccsig ci) [xff] (ccan ci)
                                  (chain_stack init cn sig) (sig_arm fl))
                               (cD ci :: chain_stack init cn sig))
                   (cD ci) x tl T (List.length (st_tapes st))) as (err & fr' & st' & E).
      * cbn [st_stack with_stack]. rewrite Ex. reflexivity.
      * exact L1.
      * exact Wx.
      * rewrite E. cbn [def_outcome]. tauto.
    + destruct (c <? c_limit cfg)%Z eqn:Hlim.
      2:{ destruct (So eq_refl eq_refl eq_refl) as (err & fr & st' & ->). cbn [def_outcome]. tauto. }
      apply Z.ltb_lt in Hlim.
      rewrite (Sb eq_refl eq_refl eq_refl).
      apply def_outcome_wrap.
      pose proof (next_state_facts cfg Hsize fl K (cD ci) (cb ci) (ce ci) (ccsig ci) [xff] (ccan ci)
                    (chain_stack init cn sig) LK L1 L2 L3 L4 Hrest T st c Hd HT Hc Hdid Hg) as NF.
      cbv zeta in NF. destruct NF as (N1 & N2 & N3 & N4 & N5 & N6 & N7).
      replace (S (31 * S (List.length init) + g)) with (31 * S (List.length init) + 1 + g) by lia.
      apply (IH (cD ci) _ T (c + 1)%Z g Hwf' L1); try assumption; try lia.
      rewrite N7. apply ts_through_act. exact Hts.
Qed.

End Chain.

(* ============================================================================================== *)
(* 7. the witness, the lock as a whole, run_auth_scripts                                           *)
(* ============================================================================================== *)

Definition push_flagged (s : list bytes) (x : bytes) : list bytes := x :: [xff] :: s.

Lemma witness_stack_is_chain_stack init cn sig :
  fold_left push_flagged (map pack (rev init)) [pack cn; [x00]; sig] = chain_stack init cn sig.
Proof.
  induction init as [|ci init IH]; [reflexivity|].
  cbn [rev chain_stack]. rewrite map_app, fold_left_app. cbn [map fold_left]. rewrite IH. reflexivity.
Qed.

Section Whole.
Variable orc : oracle.
Variable cfg : config.
Hypothesis Hsize : 105 <= c_max_item_size cfg.
Variable fl : byte.
Variables ts thr : Z.
Hypothesis Hthr : flag_get (c_flags cfg) thr_key = Some (FVInt thr).
Notation sub f := (fun t s0 => run_tape orc cfg f t 0 s0).

(* "true ; push x" repeated *)
Lemma true_push_steps : forall (cs : list bytes) f tid st (pre tail : bytes) s,
  tdata st tid = pre ++ flat_map (fun x => x01 :: push1_bytes x) cs ++ tail ->
  (forall v, In v cs -> List.length v < 256 /\ fits cfg v) ->
  st_stack st = s -> List.length s + 2 * List.length cs <= c_max_items cfg ->
  run_tape orc cfg (2 * List.length cs + f) tid (List.length pre) st =
    run_tape orc cfg f tid (List.length (pre ++ flat_map (fun x => x01 :: push1_bytes x) cs))
             (with_stack st (fold_left push_flagged cs s)).
Proof.
  induction cs as [|v cs IH]; intros f tid st pre tail s Hd Hv Hs Hsp.
  - cbn [flat_map fold_left List.length Nat.mul Nat.add]. rewrite app_nil_r.
    rewrite <- Hs, with_stack_same. reflexivity.
  - cbn [List.length]. replace (2 * S (List.length cs) + f) with (S (S (2 * List.length cs + f))) by lia.
    destruct (Hv v (or_introl eq_refl)) as [Hl Hf].
    assert (Hd0 : tdata st tid = pre ++ x01 :: (push1_bytes v ++ flat_map (fun x => x01 :: push1_bytes x) cs ++ tail)).
    { rewrite Hd. cbn [flat_map]. rewrite <- app_assoc. reflexivity. }
    rewrite (op0_done orc cfg _ tid st pre x01 _ (with_stack st ([xff] :: s)) Hd0).
    2:{ intros run fr. change (dispatch _) with OP_TRUE.
        apply true_exec; [exact Hs|lia|unfold space; cbn [List.length] in Hsp; lia]. }
    assert (Hd1 : tdata (with_stack st ([xff] :: s)) tid =
                  (pre ++ [x01]) ++ push1_bytes v ++ (flat_map (fun x => x01 :: push1_bytes x) cs ++ tail)).
    { rewrite tdata_with_stack, Hd0, <- app_assoc. reflexivity. }
    rewrite (push1_step orc cfg _ tid _ (pre ++ [x01]) v _ ([xff] :: s) Hd1 Hl eq_refl Hf)
      by (unfold space; cbn [List.length] in *; lia).
    rewrite (IH f tid _ ((pre ++ [x01]) ++ push1_bytes v) tail (v :: [xff] :: s)).
    + cbn [flat_map fold_left]. unfold push_flagged at 2. rewrite <- !app_assoc. reflexivity.
    + rewrite !tdata_with_stack, Hd0, <- !app_assoc. reflexivity.
    + intros v' Hv'. apply Hv. right. exact Hv'.
    + reflexivity.
    + cbn [List.length] in *. lia.
Qed.

Lemma chain_witness_runs f sig c0 cs vals :
  (List.length sig = 64 \/ List.length sig = 65) ->
  List.length c0 < 256 -> fits cfg c0 ->
  (forall v, In v cs -> List.length v < 256 /\ fits cfg v) ->
  3 + 2 * List.length cs <= c_max_items cfg ->
  exists fr,
  run_script orc cfg (4 + 2 * List.length cs + f) (delegate_key_chain_witness sig c0 cs) vals =
    Done tt fr (with_stack (init_state cfg (delegate_key_chain_witness sig c0 cs) vals)
                           (fold_left push_flagged cs [c0; [x00]; sig])).
Proof.
  intros Ls L0 F0 Hv Hit. unfold run_script.
  set (w := delegate_key_chain_witness sig c0 cs).
  set (st0 := init_state cfg w vals).
  set (tl := flat_map (fun x => x01 :: push1_bytes x) cs).
  assert (Hd : tdata st0 0 = [] ++ push1_bytes sig ++ ([x00] ++ push1_bytes c0 ++ tl ++ [])).
  { unfold tdata, st0, init_state, nth_tape. cbn [st_tapes nth to_data app].
    unfold w. rewrite chain_witness_bytes, app_nil_r. reflexivity. }
  replace (4 + 2 * List.length cs + f) with (S (S (S (2 * List.length cs + S f)))) by lia.
  change 0 with (List.length (@nil byte)) at 2.
  rewrite (push1_step orc cfg _ 0 st0 [] sig _ [] Hd);
    [|lia|reflexivity|unfold fits; lia|unfold space; simpl; lia].
  set (st1 := with_stack st0 [sig]).
  assert (Hd1 : tdata st1 0 = ([] ++ push1_bytes sig) ++ x00 :: (push1_bytes c0 ++ tl ++ [])) by exact Hd.
  rewrite (op0_done orc cfg _ 0 st1 _ x00 _ (with_stack st1 [[x00]; sig]) Hd1).
  2:{ intros run fr. change (dispatch _) with OP_FALSE. unfold OP_FALSE, put, act.
      erewrite put_step; [reflexivity|reflexivity|unfold fits; simpl; lia|unfold space; simpl; lia]. }
  set (st2 := with_stack st1 [[x00]; sig]).
  assert (Hd2 : tdata st2 0 = (([] ++ push1_bytes sig) ++ [x00]) ++ push1_bytes c0 ++ (tl ++ [])).
  { change (tdata st2 0) with (tdata st1 0). rewrite Hd1. exact (app_assoc _ [x00] _). }
  rewrite (push1_step orc cfg _ 0 st2 _ c0 _ [[x00]; sig] Hd2 L0 eq_refl F0) by (unfold space; simpl; lia).
  set (st3 := with_stack st2 _).
  assert (Hd3 : tdata st3 0 = ((([] ++ push1_bytes sig) ++ [x00]) ++ push1_bytes c0) ++ tl ++ []).
  { change (tdata st3 0) with (tdata st2 0). rewrite Hd2. apply app_assoc. }
  change (@List.length (list byte) cs) with (@List.length bytes cs).
  rewrite (true_push_steps cs (S f) 0 st3 _ [] [c0; [x00]; sig] Hd3 Hv eq_refl) by (simpl; blia).
  rewrite run_tape_end.
  - eexists. reflexivity.
  - rewrite tdata_with_stack, Hd3, app_nil_r. unfold tl. lia.
Qed.

Variable sig : bytes.
Hypothesis Lsig : List.length sig = 64 \/ List.length sig = 65.
Variable c0 : cache.
Variable root : bytes.
Hypothesis LR : List.length root = 32.

Notation accepts := (chain_pred orc cfg ts thr (fun Dn => sig_accepts orc cfg Dn sig (b2z fl) c0)).
Notation unmod := (chain_pred orc cfg ts thr (final_unmod orc sig c0)).

(* def 0 { ... } ; push root ; call d0   run as tape object L (call count c) on the stack [stack]: the outcome is
   that of definition 0 (a new tape object T holding the 75 body bytes, bound to handle 0 in the definition
   table of L) started with the call count c + 1 on root :: stack *)
Lemma lock_to_def (P U : Prop) (stack : list bytes) F L st c :
  tdata st L = delegate_key_chain_lock root fl -> L < List.length (st_tapes st) ->
  to_count (nth_tape st L) = c -> (c <? c_limit cfg)%Z = true ->
  to_defs (nth_tape st L) < List.length (st_defs st) ->
  st_stack st = stack -> List.length stack < c_max_items cfg ->
  (forall s3 T,
     tdata s3 T = body_bytes fl -> T < List.length (st_tapes s3) ->
     to_count (nth_tape s3 T) = (c + 1)%Z ->
     to_defs (nth_tape s3 T) < List.length (st_defs s3) ->
     defs_get (nth_defs s3 (to_defs (nth_tape s3 T))) x00 = Some T ->
     st_stack s3 = root :: stack -> st_cache s3 = st_cache st ->
     def_outcome P U (run_tape orc cfg (S F) T 0 s3)) ->
  def_outcome P U (run_tape orc cfg (S (S (S (S F)))) L 0 st).
Proof.
  intros Hd HL Hc Hlim Hdid Hst Hsp Hcallee.
  rewrite chain_lock_bytes in Hd.
  set (body := body_bytes fl) in *.
  set (T := List.length (st_tapes st)).
  (* DEF 0 *)
  assert (Hd0 : tdata st L = [] ++ x29 :: (x00 :: len2 body ++ body ++ push1_bytes root ++ [x2a; x00])) by exact Hd.
  rewrite (fetch_at orc cfg _ L st 0 [] x29 _ Hd0 eq_refl).
  change (dispatch (N.to_nat (Byte.to_N x29))) with OP_DEF.
  assert (Hd0' : tdata st L = [x29] ++ [x00] ++ len2 body ++ body ++ (push1_bytes root ++ [x2a; x00])) by exact Hd.
  rewrite (def_exec orc cfg _ L st 1 [x29] x00 body _ Hd0' eq_refl) by reflexivity.
  cbn [fr_ptr]. change (1 + 3 + List.length body) with 79.
  set (s1 := def_state st L x00 body).
  assert (T1 : st_tapes s1 = st_tapes st ++ [{| to_data := body; to_count := 0%Z; to_defs := to_defs (nth_tape st L) |}])
    by reflexivity.
  assert (Hold : nth_tape s1 L = nth_tape st L).
  { unfold nth_tape. rewrite T1. apply app_nth1. exact HL. }
  assert (Hnew : nth_tape s1 T = {| to_data := body; to_count := 0%Z; to_defs := to_defs (nth_tape st L) |}).
  { unfold nth_tape. rewrite T1. apply nth_snoc. }
  (* PUSH1 root *)
  assert (Hd1 : tdata s1 L = (lock_hdr ++ body) ++ push1_bytes root ++ [x2a; x00]).
  { unfold tdata. rewrite Hold. fold (tdata st L). rewrite Hd, <- app_assoc. reflexivity. }
  change 79 with (List.length (lock_hdr ++ body)).
  rewrite (push1_step orc cfg _ L s1 _ root _ stack Hd1);
    [|lia|exact Hst|unfold fits; lia|exact Hsp].
  set (s2 := with_stack s1 (root :: stack)).
  (* CALL 0 *)
  assert (Hd2 : tdata s2 L = ((lock_hdr ++ body) ++ push1_bytes root) ++ x2a :: [x00]).
  { change (tdata s2 L) with (tdata s1 L). rewrite Hd1, <- !app_assoc. reflexivity. }
  rewrite (fetch_at orc cfg _ L s2 _ _ x2a _ Hd2 eq_refl).
  change (dispatch (N.to_nat (Byte.to_N x2a))) with OP_CALL.
  assert (Hd3 : tdata s2 L = (((lock_hdr ++ body) ++ push1_bytes root) ++ [x2a]) ++ [x00] ++ []).
  { rewrite Hd2, <- !app_assoc. reflexivity. }
  assert (HL2 : L < List.length (st_tapes s2)).
  { change (st_tapes s2) with (st_tapes s1). rewrite T1, app_length. lia. }
  assert (HT2 : T < List.length (st_tapes s2)).
  { change (st_tapes s2) with (st_tapes s1). rewrite T1, app_length. simpl. unfold T. lia. }
  assert (HcL : to_count (nth_tape s2 L) = c).
  { change (nth_tape s2 L) with (nth_tape s1 L). rewrite Hold. exact Hc. }
  assert (H1 : nth_tape (set_count s2 L (c + 1)) L =
               {| to_data := to_data (nth_tape s2 L); to_count := (c + 1)%Z; to_defs := to_defs (nth_tape s2 L) |})
    by (apply nth_tape_set_count_same; exact HL2).
  assert (Hdefs : nth_defs s2 (to_defs (nth_tape st L)) = defs_put (nth_defs st (to_defs (nth_tape st L))) x00 T).
  { unfold nth_defs, s2, s1, def_state. cbn [st_defs with_stack with_defs with_tapes].
    apply nth_list_set_same. exact Hdid. }
  rewrite (call_exec orc cfg _ L s2 _ _ x00 [] T Hd3).
  2:{ rewrite (app_length _ [x2a]). simpl. lia. }
  2:{ rewrite HcL. exact Hlim. }
  2:{ cbv zeta. rewrite HcL, H1. cbn [to_defs]. change (nth_tape s2 L) with (nth_tape s1 L). rewrite Hold.
      change (nth_defs (set_count s2 L (c + 1)) (to_defs (nth_tape st L))) with (nth_defs s2 (to_defs (nth_tape st L))).
      rewrite Hdefs. apply defs_get_put_same. }
  cbv zeta. rewrite HcL, H1. cbn [to_count].
  set (s3 := set_count (set_count s2 L (c + 1)) T (c + 1)).
  assert (HneTL : L <> T) by (unfold T; lia).
  assert (H3 : nth_tape s3 T = {| to_data := body; to_count := (c + 1)%Z; to_defs := to_defs (nth_tape st L) |}).
  { unfold s3. rewrite nth_tape_set_count_same by (rewrite tapes_set_count_length; exact HT2).
    rewrite nth_tape_set_count_other by exact HneTL.
    change (nth_tape s2 T) with (nth_tape s1 T). rewrite Hnew. reflexivity. }
  pose proof (data_kept orc cfg (S F) T 0 s3 L _ eq_refl) as Hk.
  assert (R' : def_outcome P U (run_tape orc cfg (S F) T 0 s3)).
  { apply Hcallee.
    - unfold tdata. rewrite H3. reflexivity.
    - unfold s3. rewrite !tapes_set_count_length. exact HT2.
    - rewrite H3. reflexivity.
    - rewrite H3. cbn [to_defs]. unfold s3, s2, s1, def_state.
      cbn [st_defs set_count with_stack with_defs with_tapes]. rewrite list_set_length. exact Hdid.
    - rewrite H3. cbn [to_defs].
      change (nth_defs s3 (to_defs (nth_tape st L))) with (nth_defs s2 (to_defs (nth_tape st L))).
      rewrite Hdefs. apply defs_get_put_same.
    - reflexivity.
    - reflexivity. }
  destruct (run_tape orc cfg (S F) T 0 s3) as [[] fr' st'|e fr' st'| |w]; cbn [def_outcome] in R' |- *; try exact R'.
  cbn [fr_ptr].
  rewrite run_tape_end.
  - cbn [def_outcome]. exact R'.
  - change (tdata (with_cache st' (cache_del (st_cache st') returned_key)) L) with (tdata st' L).
    rewrite Hk.
    + unfold s3. rewrite !tdata_set_count, Hd3, !app_length. simpl. lia.
    + unfold s3. rewrite !tapes_set_count_length. exact HL2.
Qed.

(* the top-level `call d0` with the budget already used up *)
Lemma lock_over (stack : list bytes) F L st c :
  tdata st L = delegate_key_chain_lock root fl -> L < List.length (st_tapes st) ->
  to_count (nth_tape st L) = c -> (c <? c_limit cfg)%Z = false ->
  st_stack st = stack -> List.length stack < c_max_items cfg ->
  exists err fr st', run_tape orc cfg (S (S (S F))) L 0 st = Raised err fr st'.
Proof.
  intros Hd HL Hc Hlim Hst Hsp.
  rewrite chain_lock_bytes in Hd.
  set (body := body_bytes fl) in *.
  assert (Hd0 : tdata st L = [] ++ x29 :: (x00 :: len2 body ++ body ++ push1_bytes root ++ [x2a; x00])) by exact Hd.
  rewrite (fetch_at orc cfg _ L st 0 [] x29 _ Hd0 eq_refl).
  change (dispatch (N.to_nat (Byte.to_N x29))) with OP_DEF.
  assert (Hd0' : tdata st L = [x29] ++ [x00] ++ len2 body ++ body ++ (push1_bytes root ++ [x2a; x00])) by exact Hd.
  rewrite (def_exec orc cfg _ L st 1 [x29] x00 body _ Hd0' eq_refl) by reflexivity.
  cbn [fr_ptr]. change (1 + 3 + List.length body) with 79.
  set (s1 := def_state st L x00 body).
  assert (T1 : st_tapes s1 = st_tapes st ++ [{| to_data := body; to_count := 0%Z; to_defs := to_defs (nth_tape st L) |}])
    by reflexivity.
  assert (Hold : nth_tape s1 L = nth_tape st L).
  { unfold nth_tape. rewrite T1. apply app_nth1. exact HL. }
  assert (Hd1 : tdata s1 L = (lock_hdr ++ body) ++ push1_bytes root ++ [x2a; x00]).
  { unfold tdata. rewrite Hold. fold (tdata st L). rewrite Hd, <- app_assoc. reflexivity. }
  change 79 with (List.length (lock_hdr ++ body)).
  rewrite (push1_step orc cfg _ L s1 _ root _ stack Hd1);
    [|lia|exact Hst|unfold fits; lia|exact Hsp].
  set (s2 := with_stack s1 (root :: stack)).
  assert (Hd2 : tdata s2 L = ((lock_hdr ++ body) ++ push1_bytes root) ++ x2a :: [x00]).
  { change (tdata s2 L) with (tdata s1 L). rewrite Hd1, <- !app_assoc. reflexivity. }
  rewrite (fetch_at orc cfg _ L s2 _ _ x2a _ Hd2 eq_refl).
  change (dispatch (N.to_nat (Byte.to_N x2a))) with OP_CALL.
  unfold OP_CALL, config_, read, act, sert. cbn [bind].
  rewrite config_step, count_step. cbn [fr_tid].
  change (nth_tape s2 L) with (nth_tape s1 L). rewrite Hold, Hc, Hlim.
  eexists _, _, _. reflexivity.
Qed.

Lemma chain_lock_runs init cn g L st c :
  Forall cert_wf init -> cert_wf cn ->
  2 * List.length init + 5 <= c_max_items cfg ->
  (c + 1 + Z.of_nat (List.length init) <= c_limit cfg)%Z ->
  tdata st L = delegate_key_chain_lock root fl -> L < List.length (st_tapes st) ->
  to_count (nth_tape st L) = c ->
  to_defs (nth_tape st L) < List.length (st_defs st) ->
  st_stack st = chain_stack init cn sig ->
  cache_get (st_cache st) ts_key = Some (VOne (AInt ts)) ->
  (forall f, msg_of f (st_cache st) = msg_of f c0) ->
  def_outcome (accepts root init cn) (unmod root init cn)
    (run_tape orc cfg (31 * S (List.length init) + 4 + g) L 0 st).
Proof.
  intros Hwf Hwn Hit Hbud Hd HL Hc Hdid Hst Hts Hmsg.
  replace (31 * S (List.length init) + 4 + g) with (S (S (S (S (31 * S (List.length init) + g))))) by lia.
  apply (lock_to_def _ _ (chain_stack init cn sig) _ L st c Hd HL Hc); try assumption.
  - apply Z.ltb_lt. lia.
  - rewrite chain_stack_length. lia.
  - intros s3 T N1 N2 N3 N4 N5 N6 N7.
    replace (S (31 * S (List.length init) + g)) with (31 * S (List.length init) + 1 + g) by lia.
    apply (chain_runs orc cfg Hsize fl ts thr Hthr sig Lsig c0 cn Hwn init root s3 T (c + 1)%Z g Hwf LR Hit);
      try assumption; try lia.
    + rewrite N7. exact Hts.
    + intro f. rewrite N7. apply Hmsg.
Qed.

(* over budget: more certificates than call levels left *)
Lemma chain_lock_over init cn g L st c :
  Forall cert_wf init -> cert_wf cn ->
  2 * List.length init + 5 <= c_max_items cfg ->
  (c_limit cfg < c + 1 + Z.of_nat (List.length init))%Z ->
  tdata st L = delegate_key_chain_lock root fl -> L < List.length (st_tapes st) ->
  to_count (nth_tape st L) = c ->
  to_defs (nth_tape st L) < List.length (st_defs st) ->
  st_stack st = chain_stack init cn sig ->
  cache_get (st_cache st) ts_key = Some (VOne (AInt ts)) ->
  def_outcome False False (run_tape orc cfg (31 * S (List.length init) + 4 + g) L 0 st).
Proof.
  intros Hwf Hwn Hit Hbud Hd HL Hc Hdid Hst Hts.
  replace (31 * S (List.length init) + 4 + g) with (S (S (S (S (31 * S (List.length init) + g))))) by lia.
  assert (Hsp : List.length (chain_stack init cn sig) < c_max_items cfg) by (rewrite chain_stack_length; lia).
  destruct (c <? c_limit cfg)%Z eqn:Hlim.
  - apply Z.ltb_lt in Hlim.
    apply (lock_to_def _ _ (chain_stack init cn sig) _ L st c Hd HL Hc); try assumption.
    + apply Z.ltb_lt. exact Hlim.
    + intros s3 T N1 N2 N3 N4 N5 N6 N7.
      replace (S (31 * S (List.length init) + g)) with (31 * S (List.length init) + 1 + g) by lia.
      apply (chain_over orc cfg Hsize fl ts thr Hthr sig Lsig cn Hwn init root s3 T (c + 1)%Z g Hwf LR Hit);
        try assumption; try lia.
      rewrite N7. exact Hts.
  - destruct (lock_over (chain_stack init cn sig) (S (31 * S (List.length init) + g)) L st c Hd HL Hc Hlim Hst Hsp)
      as (err & fr & st' & ->).
    cbn [def_outcome]. tauto.
Qed.

End Whole.

Section Main.
Variable orc : oracle.
Variable cfg : config.
Hypothesis Hsize : 105 <= c_max_item_size cfg.
Variable fl : byte.
Variables ts thr : Z.
Hypothesis Hthr : flag_get (c_flags cfg) thr_key = Some (FVInt thr).
Variable sig : bytes.
Hypothesis Lsig : List.length sig = 64 \/ List.length sig = 65.
Variable root : bytes.
Hypothesis LR : List.length root = 32.

(* acceptance condition / the only way to leave the model, for the cache c0 the scripts start with *)
Definition chain_accepts (c0 : cache) : list cert -> cert -> Prop :=
  chain_pred orc cfg ts thr (fun Dn => sig_accepts orc cfg Dn sig (b2z fl) c0) root.
Definition chain_unmod (c0 : cache) : list cert -> cert -> Prop :=
  chain_pred orc cfg ts thr (final_unmod orc sig c0) root.

(* THE PAIR (witness of make_delegate_key_chain_witness, lock of make_delegate_key_chain_lock) for a chain of
   n = length init + 1 certificates: every outcome.  [init] are the certificates that are followed by another
   one, in the order in which the lock consumes them (the first is signed by the root); [cn] is the last one
   (it authorises the key that signed [sig]).  Budget: n <= callstack_limit; room for 2n + 3 stack items. *)
Theorem chain_lock_exact init cn f vals :
  Forall cert_wf init -> cert_wf cn ->
  2 * S (List.length init) + 3 <= c_max_items cfg ->
  (Z.of_nat (S (List.length init)) <= c_limit cfg)%Z ->
  cache_get (init_cache cfg vals) ts_key = Some (VOne (AInt ts)) ->
  match run_auth_scripts orc cfg (31 * S (List.length init) + 4 + f)
          [delegate_key_chain_witness sig (pack cn) (map pack (rev init)); delegate_key_chain_lock root fl] vals with
  | AuthVerdict v _ => v = true <-> chain_accepts (init_cache cfg vals) init cn
  | AuthFuel => False
  | AuthUnmod _ => chain_unmod (init_cache cfg vals) init cn
  end.
Proof.
  intros Hwf Hwn Hit Hbud Hts. unfold chain_accepts, chain_unmod.
  set (c0 := init_cache cfg vals).
  unfold run_auth_scripts.
  destruct (chain_witness_runs orc cfg Hsize (29 * List.length init + 31 + f) sig (pack cn) (map pack (rev init)) vals Lsig) as [fr0 Hw].
  { rewrite pack_length by exact Hwn. lia. }
  { unfold fits. rewrite pack_length by exact Hwn. lia. }
  { intros v Hv. apply in_map_iff in Hv. destruct Hv as (x & <- & Hx). apply in_rev in Hx.
    rewrite Forall_forall in Hwf. unfold fits. rewrite (pack_length x (Hwf x Hx)). split; lia. }
  { rewrite map_length, rev_length. lia. }
  rewrite map_length, rev_length in Hw.
  replace (31 * S (List.length init) + 4 + f) with (4 + 2 * List.length init + (29 * List.length init + 31 + f)) by lia.
  rewrite Hw. rewrite witness_stack_is_chain_stack, auth_rest_unfold.
  replace (4 + 2 * List.length init + (29 * List.length init + 31 + f)) with (31 * S (List.length init) + 4 + f) by lia.
  match goal with |- context [next_start ?s 0 _] => set (st1 := s) end.
  set (L := fst (next_start st1 0 (delegate_key_chain_lock root fl))).
  set (st2 := snd (next_start st1 0 (delegate_key_chain_lock root fl))).
  assert (R : def_outcome (chain_pred orc cfg ts thr (fun Dn => sig_accepts orc cfg Dn sig (b2z fl) c0) root init cn)
                          (chain_pred orc cfg ts thr (final_unmod orc sig c0) root init cn)
                (run_tape orc cfg (31 * S (List.length init) + 4 + f) L 0 st2)).
  { apply (chain_lock_runs orc cfg Hsize fl ts thr Hthr sig Lsig c0 root LR init cn f L st2 0%Z Hwf Hwn); try reflexivity.
    - lia.
    - lia.
    - unfold L, st2, next_start. cbn [fst snd st_tapes with_cache with_tapes]. rewrite app_length. simpl. lia.
    - simpl. lia.
    - change (st_cache st2) with (cache_del (init_cache cfg vals) returned_key).
      rewrite cache_get_del_other by reflexivity. exact Hts.
    - intro g. change (st_cache st2) with (cache_del (init_cache cfg vals) returned_key).
      apply msg_of_del_returned. }
  destruct (run_tape orc cfg (31 * S (List.length init) + 4 + f) L 0 st2) as [[] fr' st'|e fr' st'| |w];
    cbn [def_outcome] in R.
  - destruct R as (v & Hs & Hv). cbn [auth_rest]. rewrite Hs.
    replace (bytes_eqb (boolb v) [xff]) with v by (destruct v; reflexivity). exact Hv.
  - split; [discriminate|]. intro Ha. contradiction.
  - exact R.
  - exact R.
Qed.

(* verdict True  <->  the chain condition *)
Corollary chain_lock_true_iff init cn f vals :
  Forall cert_wf init -> cert_wf cn ->
  2 * S (List.length init) + 3 <= c_max_items cfg ->
  (Z.of_nat (S (List.length init)) <= c_limit cfg)%Z ->
  cache_get (init_cache cfg vals) ts_key = Some (VOne (AInt ts)) ->
  ((exists stf, run_auth_scripts orc cfg (31 * S (List.length init) + 4 + f)
       [delegate_key_chain_witness sig (pack cn) (map pack (rev init)); delegate_key_chain_lock root fl] vals
       = AuthVerdict true stf)
   <-> chain_accepts (init_cache cfg vals) init cn).
Proof.
  intros Hwf Hwn Hit Hbud Hts. pose proof (chain_lock_exact init cn f vals Hwf Hwn Hit Hbud Hts) as H.
  destruct (run_auth_scripts orc cfg _ _ vals) as [v st| |w].
  - split.
    + intros (stf & E). injection E as -> _. apply H. reflexivity.
    + intro Ha. apply H in Ha. subst v. exists st. reflexivity.
  - contradiction.
  - split; [intros (stf & E); discriminate|].
    unfold chain_accepts, chain_unmod in *. revert H. generalize root.
    induction init as [|ci init IH]; intros K; cbn [chain_pred].
    + intros (_ & m' & l & Hm' & Ho' & Hl) (_ & _ & m & x & Hm & _ & Ho & _).
      rewrite Hm in Hm'. injection Hm' as <-. rewrite Ho in Ho'. injection Ho' as <-. simpl in Hl. congruence.
    + intros (_ & _ & H1) (_ & _ & H2). pose proof (Forall_inv_tail Hwf) as Hwf'.
      apply (IH Hwf' ltac:(cbn [List.length] in *; lia) ltac:(cbn [List.length] in *; lia) (cD ci) H1 H2).
Qed.

(* the budget condition is exact: a chain of more than callstack_limit certificates is never accepted,
   whatever the certificates and the signature *)
Theorem chain_lock_over_budget init cn f vals :
  Forall cert_wf init -> cert_wf cn ->
  2 * S (List.length init) + 3 <= c_max_items cfg ->
  (c_limit cfg < Z.of_nat (S (List.length init)))%Z ->
  cache_get (init_cache cfg vals) ts_key = Some (VOne (AInt ts)) ->
  match run_auth_scripts orc cfg (31 * S (List.length init) + 4 + f)
          [delegate_key_chain_witness sig (pack cn) (map pack (rev init)); delegate_key_chain_lock root fl] vals with
  | AuthVerdict v _ => v = false
  | AuthFuel => False
  | AuthUnmod _ => False
  end.
Proof.
  intros Hwf Hwn Hit Hbud Hts.
  unfold run_auth_scripts.
  destruct (chain_witness_runs orc cfg Hsize (29 * List.length init + 31 + f) sig (pack cn) (map pack (rev init)) vals Lsig) as [fr0 Hw].
  { rewrite pack_length by exact Hwn. lia. }
  { unfold fits. rewrite pack_length by exact Hwn. lia. }
  { intros v Hv. apply in_map_iff in Hv. destruct Hv as (x & <- & Hx). apply in_rev in Hx.
    rewrite Forall_forall in Hwf. unfold fits. rewrite (pack_length x (Hwf x Hx)). split; lia. }
  { rewrite map_length, rev_length. lia. }
  rewrite map_length, rev_length in Hw.
  replace (31 * S (List.length init) + 4 + f) with (4 + 2 * List.length init + (29 * List.length init + 31 + f)) by lia.
  rewrite Hw. rewrite witness_stack_is_chain_stack, auth_rest_unfold.
  replace (4 + 2 * List.length init + (29 * List.length init + 31 + f)) with (31 * S (List.length init) + 4 + f) by lia.
  match goal with |- context [next_start ?s 0 _] => set (st1 := s) end.
  set (L := fst (next_start st1 0 (delegate_key_chain_lock root fl))).
  set (st2 := snd (next_start st1 0 (delegate_key_chain_lock root fl))).
  assert (R : def_outcome False False (run_tape orc cfg (31 * S (List.length init) + 4 + f) L 0 st2)).
  { apply (chain_lock_over orc cfg Hsize fl ts thr Hthr sig Lsig root LR init cn f L st2 0%Z Hwf Hwn); try reflexivity.
    - lia.
    - lia.
    - unfold L, st2, next_start. cbn [fst snd st_tapes with_cache with_tapes]. rewrite app_length. simpl. lia.
    - simpl. lia.
    - change (st_cache st2) with (cache_del (init_cache cfg vals) returned_key).
      rewrite cache_get_del_other by reflexivity. exact Hts. }
  destruct (run_tape orc cfg (31 * S (List.length init) + 4 + f) L 0 st2) as [[] fr' st'|e fr' st'| |w];
    cbn [def_outcome] in R.
  - destruct R as (v & Hs & Hv). cbn [auth_rest]. rewrite Hs.
    destruct v; [exfalso; apply Hv; reflexivity|reflexivity].
  - reflexivity.
  - exact R.
  - exact R.
Qed.

(* n = 1: one certificate (signed by the root), `false` beneath it *)
Corollary chain_lock_exact_1 cn f vals :
  cert_wf cn -> 5 <= c_max_items cfg -> (1 <= c_limit cfg)%Z ->
  cache_get (init_cache cfg vals) ts_key = Some (VOne (AInt ts)) ->
  match run_auth_scripts orc cfg (35 + f)
          [delegate_key_chain_witness sig (pack cn) []; delegate_key_chain_lock root fl] vals with
  | AuthVerdict v _ =>
      v = true <-> cert_ok orc cfg ts thr root cn /\ sig_accepts orc cfg (cD cn) sig (b2z fl) (init_cache cfg vals)
  | AuthFuel => False
  | AuthUnmod _ => cert_ok orc cfg ts thr root cn /\ final_unmod orc sig (init_cache cfg vals) (cD cn)
  end.
Proof.
  intros Hwn Hit Hbud Hts.
  exact (chain_lock_exact [] cn f vals (Forall_nil _) Hwn Hit Hbud Hts).
Qed.

(* n = 2: c1 signed by the root delegates to D1 = cD c1; c2 signed by D1 delegates to the signer of sig *)
Corollary chain_lock_exact_2 c1 c2 f vals :
  cert_wf c1 -> cert_wf c2 -> 7 <= c_max_items cfg -> (2 <= c_limit cfg)%Z ->
  cache_get (init_cache cfg vals) ts_key = Some (VOne (AInt ts)) ->
  match run_auth_scripts orc cfg (66 + f)
          [delegate_key_chain_witness sig (pack c2) [pack c1]; delegate_key_chain_lock root fl] vals with
  | AuthVerdict v _ =>
      v = true <-> cert_ok orc cfg ts thr root c1 /\ ccan c1 <> x00 /\
                   cert_ok orc cfg ts thr (cD c1) c2 /\
                   sig_accepts orc cfg (cD c2) sig (b2z fl) (init_cache cfg vals)
  | AuthFuel => False
  | AuthUnmod _ => cert_ok orc cfg ts thr root c1 /\ ccan c1 <> x00 /\
                   cert_ok orc cfg ts thr (cD c1) c2 /\ final_unmod orc sig (init_cache cfg vals) (cD c2)
  end.
Proof.
  intros Hw1 Hw2 Hit Hbud Hts.
  exact (chain_lock_exact [c1] c2 f vals (Forall_cons _ Hw1 (Forall_nil _)) Hw2 Hit Hbud Hts).
Qed.

End Main.

(* ============================================================================================== *)
(* 8. finding hunt: concrete runs with a toy oracle                                                *)
(* ============================================================================================== *)

(* toy signature scheme: key i = 32 bytes i; a signature by key i = 64 bytes i (any message) *)
Definition dk_orc : oracle := fun p args =>
  match p, args with
  | PVerify, [k; m; s] => OOk [[if Byte.eqb (hd x00 k) (hd x00 s) then x01 else x00]]
  | _, _ => OErr OtherError
  end.
Definition dk_cfg (limit : Z) : config :=
  {| c_max_items := 1024; c_max_item_size := 1024; c_limit := limit;
     c_flags := [(thr_key, FVInt 60)]; c_sigext := []; c_ctplugins := []; c_contracts := []; c_now := 100 |}.
Definition dk_key (i : byte) : bytes := repeat i 32.
Definition dk_sig (i : byte) : bytes := repeat i 64.
(* certificate signed by key i for key j, valid from 50 to 200 (the cache timestamp is c_now = 100) *)
Definition dk_cert (i j can : byte) : cert :=
  {| cD := dk_key j; cb := [x00;x00;x00;x32]; ce := [x00;x00;x00;xc8]; ccan := can; ccsig := dk_sig i |}.
Definition dk_verdict (r : auth_result) : option bool :=
  match r with AuthVerdict v _ => Some v | _ => None end.
(* root = key 1; certs in the order of make_delegate_key_chain_witness (the root-signed one last) *)
Definition dk_run (limit : Z) (sig c0 : bytes) (cs : list bytes) : option bool :=
  dk_verdict (run_auth_scripts dk_orc (dk_cfg limit) 200
                [delegate_key_chain_witness sig c0 cs; delegate_key_chain_lock (dk_key x01) x00] []).

(* sanity: root 1 -> key 2 -> key 3, key 3 signs *)
Example dk_chain2_accepted :
  dk_run 128 (dk_sig x03) (pack (dk_cert x02 x03 xff)) [pack (dk_cert x01 x02 xff)] = Some true.
Proof. vm_compute. reflexivity. Qed.
Example dk_chain2_wrong_signer :
  dk_run 128 (dk_sig x04) (pack (dk_cert x02 x03 xff)) [pack (dk_cert x01 x02 xff)] = Some false.
Proof. vm_compute. reflexivity. Qed.
Example dk_chain2_broken_link :
  dk_run 128 (dk_sig x03) (pack (dk_cert x04 x03 xff)) [pack (dk_cert x01 x02 xff)] = Some false.
Proof. vm_compute. reflexivity. Qed.

(* (i) the can-delegate byte of the LAST certificate is never tested (`false` lies beneath it): a terminal
   certificate (can = 00) authorises the signature of its own delegate *)
Example dk_last_can_ignored :
  dk_run 128 (dk_sig x03) (pack (dk_cert x02 x03 x00)) [pack (dk_cert x01 x02 xff)] = Some true /\
  dk_run 128 (dk_sig x02) (pack (dk_cert x01 x02 x00)) [] = Some true.
Proof. vm_compute. split; reflexivity. Qed.

(* (ii) a NON-final certificate with can = 00: the lock falls to CHECK_SIG with the next certificate in the
   place of the signature (105 bytes: ValueError) -> rejected, so a terminal certificate cannot delegate *)
Example dk_terminal_cannot_delegate :
  dk_run 128 (dk_sig x03) (pack (dk_cert x02 x03 xff)) [pack (dk_cert x01 x02 x00)] = Some false.
Proof. vm_compute. reflexivity. Qed.

(* (iii) can bytes other than 00 / ff: `can AND true` is truthy for every non-zero byte, so the lock lets the
   delegate of such a certificate delegate further, while Certificate.unpack (BuilderSpecC14.cert_unpack)
   reads the same certificate as can_further_delegate = False (it tests == 0xff) *)
Example dk_can_01_delegates :
  dk_run 128 (dk_sig x03) (pack (dk_cert x02 x03 xff)) [pack (dk_cert x01 x02 x01)] = Some true /\
  (exists D b e cs, cert_unpack (pack (dk_cert x01 x02 x01)) = Some (D, b, e, false, cs)).
Proof. split; [vm_compute; reflexivity|]. vm_compute. eexists _, _, _, _. reflexivity. Qed.

(* (iv) the budget: a chain of n certificates needs n <= callstack_limit (one OP_CALL per certificate) *)
Example dk_budget :
  dk_run 2 (dk_sig x03) (pack (dk_cert x02 x03 xff)) [pack (dk_cert x01 x02 xff)] = Some true /\
  dk_run 1 (dk_sig x03) (pack (dk_cert x02 x03 xff)) [pack (dk_cert x01 x02 xff)] = Some false /\
  dk_run 1 (dk_sig x02) (pack (dk_cert x01 x02 xff)) [] = Some true /\
  dk_run 0 (dk_sig x02) (pack (dk_cert x01 x02 xff)) [] = Some false.
Proof. vm_compute. repeat split; reflexivity. Qed.

(* (v) the recursive activation overwrites the cache keys r s c e b d (one cache for all activations); every
   activation reads them only after its own writes, and nothing is read after the recursive call returns,
   so this is harmless: after the run the keys hold the values of the LAST activation *)
Definition dk_final_cache (sig c0 : bytes) (cs : list bytes) (k : ckey) : option cval :=
  match run_auth_scripts dk_orc (dk_cfg 128) 200
          [delegate_key_chain_witness sig c0 cs; delegate_key_chain_lock (dk_key x01) x00] [] with
  | AuthVerdict _ st => cache_get (st_cache st) k
  | _ => None
  end.
Example dk_cache_overwritten :
  let c0 := pack (dk_cert x02 x03 xff) in let cs := [pack (dk_cert x01 x02 xff)] in
  dk_final_cache (dk_sig x03) c0 cs kR = Some (one (dk_key x02)) /\
  dk_final_cache (dk_sig x03) c0 cs kD = Some (one (dk_key x03)) /\
  dk_final_cache (dk_sig x03) c0 cs kS = Some (one (dk_sig x02)).
Proof. vm_compute. repeat split; reflexivity. Qed.

(* (vi) the flag beneath a certificate is chosen by the witness, not signed: it cannot turn a rejected chain
   into an accepted one.  `true` beneath the last certificate makes the lock read the signature as a
   certificate; the witness of the SINGLE-certificate lock (no flag at all) is rejected as well *)
Definition dk_run_raw (w : bytes) : option bool :=
  dk_verdict (run_auth_scripts dk_orc (dk_cfg 128) 200 [w; delegate_key_chain_lock (dk_key x01) x00] []).
Example dk_flag_lies :
  dk_run_raw (encode [P1 (dk_sig x02); IOp0 O_TRUE; P1 (pack (dk_cert x01 x02 xff))]) = Some false /\
  dk_run_raw (delegate_key_witness (dk_sig x02) (pack (dk_cert x01 x02 xff))) = Some false.
Proof. vm_compute. split; reflexivity. Qed.

(* the witness bytes, against the real builder:
   sk_i = SigningKey(bytes([i])*32); c1 = make_delegate_key_cert(sk_1, vk_2, 1, 2**31-1);
   c2 = make_delegate_key_cert(sk_2, vk_3, 1, 2**31-1, False);
   make_delegate_key_chain_witness(sk_3, [c2, c1], {'sigfield1': b'hello'}).bytes.hex() *)
Example chain_witness_bytes_real :
  delegate_key_chain_witness
    (of_hex "5a9f2ac8aecbd4356c229f2880cd8755909e4ba3cf341a1fea463a3eedf306df92374d2141d5dea702bb2c3c9354531ee3776ac0d8f166c833fea7d8f0114c06")
    (of_hex "ed4928c628d1c2c6eae90338905995612959273a5c63f93636c14614ac8737d1000000017fffffff00d1736f63c237ac4c4a12adeb6c100ce07b918025abddb964a428131678c60a5662637937a97e810307efa657387db8bc37b70ba5f57b0a7b9fd717385e675d0b")
    [of_hex "8139770ea87d175f56a35466c34c7ecccb8d8a91b4ee37a25df60f5b8fc9b394000000017ffffffffffadcc6de00025e89c23575019ba9ae18c4ba7dd850b50ff3a7d58f787d36a3738ab828be9ec5e58ab6c013614253d6705e1f19d4c1e0c795df99570aa38d7208"]
  = of_hex "03405a9f2ac8aecbd4356c229f2880cd8755909e4ba3cf341a1fea463a3eedf306df92374d2141d5dea702bb2c3c9354531ee3776ac0d8f166c833fea7d8f0114c06000369ed4928c628d1c2c6eae90338905995612959273a5c63f93636c14614ac8737d1000000017fffffff00d1736f63c237ac4c4a12adeb6c100ce07b918025abddb964a428131678c60a5662637937a97e810307efa657387db8bc37b70ba5f57b0a7b9fd717385e675d0b0103698139770ea87d175f56a35466c34c7ecccb8d8a91b4ee37a25df60f5b8fc9b394000000017ffffffffffadcc6de00025e89c23575019ba9ae18c4ba7dd850b50ff3a7d58f787d36a3738ab828be9ec5e58ab6c013614253d6705e1f19d4c1e0c795df99570aa38d7208".
Proof. vm_compute. reflexivity. Qed.

(* ============================================================================================== *)
(* assumptions                                                                                     *)
(* ============================================================================================== *)
Print Assumptions chain_lock_bytes_real.
Print Assumptions chain_witness_bytes_real.
Print Assumptions body_step.
Print Assumptions body_step_over_budget.
Print Assumptions next_state_facts.
Print Assumptions chain_runs.
Print Assumptions chain_lock_runs.
Print Assumptions chain_lock_exact_1.
Print Assumptions chain_lock_exact_2.
Print Assumptions chain_lock_exact.
Print Assumptions chain_lock_true_iff.
Print Assumptions chain_lock_over_budget.
Print Assumptions dk_last_can_ignored.
Print Assumptions dk_terminal_cannot_delegate.
Print Assumptions dk_can_01_delegates.
Print Assumptions dk_budget.
Print Assumptions dk_cache_overwritten.
Print Assumptions dk_flag_lies.
