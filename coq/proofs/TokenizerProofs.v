(* Theorems about the tokenizer (model/Tokenizer.v: parsing.get_symbols) and about compile_script as
   get_symbols followed by assemble:
     - [split_rend]: str.split() of a rendering of raw tokens gives back the raw tokens;
     - [gs_posts], [tokenise]: the symbols of a rendering are the post-processing [posts] of its raw
       tokens (casing of ordinary tokens, "@=" / "!=" taking the next token, string values re-joined
       with single spaces);
     - [whitespace_irrelevant]: two renderings of the same raw tokens give the same symbols;
     - [compile_spells] (for C11): every text that renders raw tokens whose post-processing is a
       spelling of p compiles to encode p; [posts_name] etc.: which raw variations that covers;
     - [assemble_tops], [compile_tops]: comments between top-level statements change nothing;
     - [retokenise_stable]: the re-tokenisation of an instantiated macro template made of symbols that
       get_symbols leaves alone gives the template back (premise of AssemblerProofs.macro_expansion). *)
From Coq Require Import ZArith List Bool Lia NArith String Ascii.
From Coq.Strings Require Import Byte.
From TS Require Import Bytes Codec Ops Names Asm Tables BytesLemmas CodecProofs AsmProofs Tokenizer Assembler
  AssemblerProofs.
Import ListNotations.
Open Scope string_scope.
Open Scope list_scope.

(* ====================================================================================== *)
(* 1. str.split() on renderings                                                             *)
(* ====================================================================================== *)

(* a raw token: non-empty, without whitespace *)
Definition tokenb (t : string) : bool := nonempty t && sall (fun c => negb (is_ws c)) t.

(* [rend raw text]: text is the raw tokens separated by non-empty runs of whitespace characters
   (blank, \t, \n, \x0b, \x0c, \r, \x1c..\x1f), with optional whitespace before and after *)
Inductive rend : list string -> string -> Prop :=
| rd_nil : forall w, sall is_ws w = true -> rend [] w
| rd_last : forall w t w', sall is_ws w = true -> tokenb t = true -> sall is_ws w' = true ->
    rend [t] (w ++ t ++ w')
| rd_cons : forall w t sep raw rest, sall is_ws w = true -> tokenb t = true ->
    sall is_ws sep = true -> nonempty sep = true -> rend raw rest ->
    rend (t :: raw) (w ++ t ++ sep ++ rest).

Lemma split_py_ws_char : forall c s, is_ws c = true -> split_py (String c s) = split_py s.
Proof.
  intros c s H. unfold split_py. cbn [split_go]. destruct (split_go s) as [w ts]. rewrite H.
  reflexivity.
Qed.
Lemma split_py_ws : forall w s, sall is_ws w = true -> split_py (w ++ s) = split_py s.
Proof.
  induction w as [|c w IH]; intros s H; [reflexivity|]. cbn [sall] in H. apply andb_prop in H as [H1 H2].
  cbn [append]. rewrite split_py_ws_char by exact H1. apply IH. exact H2.
Qed.
Lemma split_py_allws : forall w, sall is_ws w = true -> split_py w = [].
Proof. intros w H. rewrite <- (AsmProofs.append_nil_r w), split_py_ws by exact H. reflexivity. Qed.

(* the text after a token: empty, or starting with a whitespace character *)
Definition breaks (s : string) : Prop := s = "" \/ exists c s', s = String c s' /\ is_ws c = true.

Lemma split_go_break : forall s, breaks s -> fst (split_go s) = "".
Proof.
  intros s [->|(c & s' & -> & H)]; [reflexivity|]. cbn [split_go]. destruct (split_go s'). rewrite H. reflexivity.
Qed.
Lemma split_go_tok : forall t s, sall (fun c => negb (is_ws c)) t = true ->
  split_go (t ++ s) = ((t ++ fst (split_go s))%string, snd (split_go s)).
Proof.
  induction t as [|c t IH]; intros s H.
  - cbn [append]. destruct (split_go s); reflexivity.
  - cbn [sall] in H. apply andb_prop in H as [H1 H2]. apply negb_true_iff in H1.
    cbn [append split_go]. rewrite (IH s H2). rewrite H1. reflexivity.
Qed.
Lemma split_py_tok : forall t s, tokenb t = true -> breaks s -> split_py (t ++ s) = t :: split_py s.
Proof.
  intros t s H B. unfold tokenb in H. apply andb_prop in H as [N H]. unfold split_py.
  rewrite (split_go_tok t s H). pose proof (split_go_break s B) as E. destruct (split_go s) as [w ts].
  cbn [fst snd] in *. subst w. rewrite AsmProofs.append_nil_r. destruct t; [discriminate N|reflexivity].
Qed.

Lemma breaks_ws : forall w s, sall is_ws w = true -> nonempty w = true -> breaks (w ++ s).
Proof.
  intros [|c w] s H N; [discriminate N|]. cbn [sall] in H. apply andb_prop in H as [H _].
  right. exists c, (w ++ s)%string. split; [reflexivity|exact H].
Qed.
Lemma breaks_allws : forall w, sall is_ws w = true -> breaks w.
Proof.
  intros [|c w] H; [left; reflexivity|]. cbn [sall] in H. apply andb_prop in H as [H _].
  right. exists c, w. split; [reflexivity|exact H].
Qed.

Theorem split_rend : forall raw text, rend raw text -> split_py text = raw.
Proof.
  induction 1 as [w H|w t w' H T H'|w t sep raw rest H T Hs Ns R IH].
  - apply split_py_allws. exact H.
  - rewrite split_py_ws by exact H. rewrite split_py_tok by (try assumption; apply breaks_allws; exact H').
    rewrite split_py_allws by exact H'. reflexivity.
  - rewrite split_py_ws by exact H. rewrite split_py_tok by (try assumption; apply breaks_ws; assumption).
    rewrite split_py_ws by exact Hs. rewrite IH. reflexivity.
Qed.

(* ====================================================================================== *)
(* 2. the loop of get_symbols                                                               *)
(* ====================================================================================== *)

(* ' '.join(parts) *)
Definition join_from (acc : string) (l : list string) : string :=
  fold_left (fun a t => (a ++ String " " t)%string) l acc.
Definition join_sp (l : list string) : string :=
  match l with [] => "" | t :: r => join_from t r end.

(* an ordinary token: not the start of a string value, not @=... / !=..., not "s" alone *)
Definition plain_tok (t : string) : Prop :=
  str_start t = None /\ takes_next t = false /\ String.eqb t "s" = false.

(* the effect of the loop on the raw tokens *)
Inductive posts : list string -> list string -> Prop :=
| ps_nil : posts [] []
| ps_tok : forall t raw syms, plain_tok t -> posts raw syms -> posts (t :: raw) (norm_token t :: syms)
| ps_next : forall t x raw syms, str_start t = None -> takes_next t = true -> posts raw syms ->
    posts (t :: x :: raw) (t :: x :: syms)
| ps_str1 : forall t q raw syms, str_start t = Some q -> has_char q (sdrop 3 t) = true ->
    posts raw syms -> posts (t :: raw) (t :: syms)
| ps_strn : forall t q mids last raw syms, str_start t = Some q -> has_char q (sdrop 3 t) = false ->
    Forall (fun m => has_char q m = false) mids -> has_char q last = true -> posts raw syms ->
    posts (t :: mids ++ last :: raw) (join_sp (t :: mids ++ [last]) :: syms).

Lemma gs_instr : forall q mids last raw acc,
  Forall (fun m => has_char q m = false) mids -> has_char q last = true ->
  gs_loop (GInStr q acc) (mids ++ last :: raw) =
  rbind (gs_loop GNormal raw) (fun l => Ok (join_from acc (mids ++ [last]) :: l)).
Proof.
  induction mids as [|m mids IH]; intros last raw acc F H.
  - cbn [app gs_loop]. rewrite H. reflexivity.
  - inversion F as [|m' mids' Hm Fm]; subst. cbn [app gs_loop]. rewrite Hm. rewrite (IH last raw _ Fm H).
    reflexivity.
Qed.

Theorem gs_posts : forall raw syms, posts raw syms -> gs_loop GNormal raw = Ok syms.
Proof.
  induction 1 as [|t raw syms (A & B & C) P IH|t x raw syms A B P IH|t q raw syms A B P IH
                  |t q mids last raw syms A B F L P IH].
  - reflexivity.
  - cbn [gs_loop]. rewrite A, B. unfold ordinary. rewrite C. cbn [rbind]. rewrite IH. reflexivity.
  - cbn [gs_loop]. rewrite A, B, IH. reflexivity.
  - cbn [gs_loop]. rewrite A, B, IH. reflexivity.
  - cbn [gs_loop]. rewrite A, B. rewrite (gs_instr q mids last raw t F L), IH. reflexivity.
Qed.

Theorem tokenise : forall raw syms text,
  rend raw text -> all_ascii text = true -> posts raw syms -> get_symbols text = Ok syms.
Proof.
  intros raw syms text R A P. unfold get_symbols. rewrite A, (split_rend raw text R). apply gs_posts. exact P.
Qed.

(* whatever the loop does with the raw tokens, only they matter *)
Theorem whitespace_irrelevant : forall raw text1 text2,
  rend raw text1 -> rend raw text2 -> all_ascii text1 = true -> all_ascii text2 = true ->
  get_symbols text1 = get_symbols text2 /\
  forall fl2 ct, compile_text fl2 ct text1 = compile_text fl2 ct text2.
Proof.
  intros raw t1 t2 R1 R2 A1 A2.
  assert (E : get_symbols t1 = get_symbols t2).
  { unfold get_symbols. rewrite A1, A2, (split_rend raw t1 R1), (split_rend raw t2 R2). reflexivity. }
  split; [exact E|]. intros fl2 ct. unfold compile_text. rewrite E. reflexivity.
Qed.

(* ====================================================================================== *)
(* 3. which raw tokens give which symbols                                                   *)
(* ====================================================================================== *)

Lemma not_valuelike_plain : forall n t, not_valuelike n = true -> upper_s t = n -> plain_tok t.
Proof.
  intros n t K E. subst n. destruct t as [|c r].
  { repeat split. }
  unfold upper_s in K. cbn [smap not_valuelike] in K. fold (upper_s r) in K.
  repeat (apply andb_prop in K as [K ?]).
  repeat match goal with H : negb _ = true |- _ => apply negb_true_iff in H end.
  assert (Cs : Ascii.eqb c "s" = true -> r <> "" /\
               match r with String q _ => Ascii.eqb q dquote || Ascii.eqb q squote = false | _ => True end).
  { intros Q. apply Ascii.eqb_eq in Q. subst c.
    match goal with H : Ascii.eqb (upper_c "s") "S" && _ = false |- _ => rename H into HS end.
    change (Ascii.eqb (upper_c "s") "S") with true in HS. cbn [andb] in HS.
    destruct r as [|q r']; [discriminate HS|]. split; [discriminate|].
    unfold upper_s in HS. cbn [smap] in HS.
    destruct (Ascii.eqb q dquote || Ascii.eqb q squote) eqn:Q2; [|reflexivity]. exfalso.
    assert (upper_c q = q) as Uq.
    { apply orb_prop in Q2 as [Q2|Q2]; apply Ascii.eqb_eq in Q2; subst q; reflexivity. }
    rewrite Uq, Q2 in HS. discriminate HS. }
  repeat split.
  - (* str_start *)
    unfold str_start. destruct r as [|q r']; [reflexivity|].
    destruct (Ascii.eqb c "s") eqn:Q; [|reflexivity]. destruct (Cs eq_refl) as [_ Q2]. rewrite Q2. reflexivity.
  - (* takes_next *)
    unfold takes_next, is_prefix. cbn [prefix].
    destruct (ascii_dec "@" c) as [<-|_].
    { match goal with H : Ascii.eqb (upper_c "@") "@" = false |- _ => discriminate H end. }
    destruct (ascii_dec "!" c) as [<-|_]; [|reflexivity].
    match goal with H : Ascii.eqb (upper_c "!") "!" = false |- _ => discriminate H end.
  - (* not "s" *)
    cbn [String.eqb]. destruct (Ascii.eqb c "s") eqn:Q; [|reflexivity].
    destruct (Cs eq_refl) as [N _]. destruct r; [congruence|reflexivity].
Qed.

(* any letter-casing of a name (opcode names with and without OP_, aliases, NOPn, PUSH, TRY, the
   braces and parentheses, ELSE, END_IF, END_DEF, END_LOOP, EXCEPT, END_EXCEPT) *)
Theorem posts_name : forall n t raw syms, In n all_names -> upper_s t = n -> posts raw syms ->
  posts (t :: raw) (n :: syms).
Proof.
  intros n t raw syms I E P. rewrite <- (names_case_insensitive n t I E). apply ps_tok; [|exact P].
  apply (not_valuelike_plain n t); [|exact E]. apply (proj1 (forallb_forall _ _) names_not_valuelike n I).
Qed.

(* a token that get_symbols leaves as it is *)
Definition stable_tok (t : string) : Prop := plain_tok t /\ norm_token t = t.
Theorem posts_stable : forall t raw syms, stable_tok t -> posts raw syms -> posts (t :: raw) (t :: syms).
Proof. intros t raw syms [A B] P. rewrite <- B at 2. apply ps_tok; assumption. Qed.

(* d + digits, x + hexadecimal digits (either case): unchanged *)
Lemma stable_d : forall r, isnumeric r = true -> stable_tok (String "d" r).
Proof.
  intros r H. split; [|unfold norm_token; change (Ascii.eqb "d" "d") with true; cbv iota; rewrite H; reflexivity].
  repeat split; try reflexivity. cbn [String.eqb]. destruct r; [discriminate H|reflexivity].
Qed.
Lemma stable_x : forall r, is_hex_s r = true -> stable_tok (String "x" r).
Proof.
  intros r H. split.
  - repeat split; destruct r; reflexivity.
  - unfold norm_token. change (Ascii.eqb "x" "d") with false. change (Ascii.eqb "x" "x") with true. cbv iota.
    rewrite H. reflexivity.
Qed.
Lemma prefix2 : forall a b c e k,
  is_prefix (String a (String b "")) (String c (String e k)) = Ascii.eqb a c && Ascii.eqb b e.
Proof.
  intros a b c e k. unfold is_prefix. cbn [prefix].
  destruct (ascii_dec a c) as [->|N].
  - rewrite Ascii.eqb_refl. destruct (ascii_dec b e) as [->|N2].
    + rewrite Ascii.eqb_refl. destruct k; reflexivity.
    + apply Ascii.eqb_neq in N2. rewrite N2. reflexivity.
  - apply Ascii.eqb_neq in N. rewrite N. reflexivity.
Qed.
Lemma prefix2_short : forall a b c, is_prefix (String a (String b "")) (String c "") = false.
Proof. intros. unfold is_prefix. cbn [prefix]. destruct (ascii_dec a c); reflexivity. Qed.

(* @k, @#k and !m (not starting with @= or !=): unchanged *)
Lemma stable_at : forall c k, c = "@"%char \/ c = "!"%char ->
  match k with String e _ => Ascii.eqb e "=" = false | EmptyString => True end ->
  stable_tok (String c k).
Proof.
  intros c k C K. split.
  - repeat split.
    + destruct C as [->| ->]; destruct k; reflexivity.
    + unfold takes_next. destruct k as [|e k'].
      * rewrite !prefix2_short. reflexivity.
      * rewrite !prefix2. rewrite (Ascii.eqb_sym "=" e), K, !andb_false_r. reflexivity.
    + destruct C as [->| ->]; reflexivity.
  - destruct C as [->| ->]; reflexivity.
Qed.
(* a token in upper case whose first character is not s d x ! @ (e.g. D-1, X0A, 12, OP_TRUE): unchanged *)
Lemma stable_upper : forall c r, upper_s (String c r) = String c r ->
  Ascii.eqb c "s" = false -> Ascii.eqb c "d" = false -> Ascii.eqb c "x" = false ->
  Ascii.eqb c "!" = false -> Ascii.eqb c "@" = false -> stable_tok (String c r).
Proof.
  intros c r U S D X B A. split.
  - repeat split.
    + unfold str_start. destruct r; [reflexivity|]. rewrite S. reflexivity.
    + unfold takes_next, is_prefix. cbn [prefix].
      destruct (ascii_dec "@" c) as [<-|_]; [discriminate A|].
      destruct (ascii_dec "!" c) as [<-|_]; [discriminate B|]. reflexivity.
    + cbn [String.eqb]. rewrite S. reflexivity.
  - unfold norm_token. rewrite D, X, S, B, A. cbn [orb]. exact U.
Qed.

(* ====================================================================================== *)
(* 4. compile_script on the spellings of a program (C11)                                    *)
(* ====================================================================================== *)

Theorem compile_spells : forall fl2 ct p syms raw text,
  spells fl2 p syms -> wf_prog p = true ->
  posts raw syms -> rend raw text -> all_ascii text = true ->
  compile_text fl2 ct text = Ok (encode p).
Proof.
  intros fl2 ct p syms raw text S W P R A. unfold compile_text.
  rewrite (tokenise raw syms text R A P). cbn [rbind]. apply assemble_r_spells; assumption.
Qed.

(* ====================================================================================== *)
(* 5. comments between top-level statements                                                 *)
(* ====================================================================================== *)

Section Comments.
  Variable fl2 : Z -> Z.
  Variable ct : bytes -> res (option bytes).

  (* top-level statements and comments: a comment is one of the three symbols # / single quote /
     double quote, then symbols other than that one, then the same symbol again *)
  Inductive tops : list instr -> list string -> Prop :=
  | tp_nil : tops [] []
  | tp_stmt : forall is ss p sp, stmt fl2 Top (hd_or None sp) is ss -> tops p sp ->
      tops (is ++ p) (ss ++ sp)
  | tp_comment : forall q body p sp, is_comment q = true -> mem q body = false ->
      existsb bad_symbol body = false -> tops p sp -> tops p (q :: body ++ q :: sp).

  Lemma spells_tops : forall p syms, spells fl2 p syms -> tops p syms.
  Proof.
    intros p syms S. unfold spells in S.
    assert (G : (forall c nx is ss, stmt fl2 c nx is ss -> True) /\
                (forall c nx i ts, iftail fl2 c nx i ts -> True) /\
                (forall c nx p ss, seq fl2 c nx p ss -> c = Top -> nx = None -> tops p ss)).
    { apply spells_mutind; intros; auto.
      - apply tp_nil.
      - subst. apply tp_stmt; auto. }
    apply (proj2 (proj2 G) _ _ _ _ S); reflexivity.
  Qed.

  Lemma hd_error_hd_or : forall l : list string, hd_error l = hd_or None l.
  Proof. destruct l; reflexivity. Qed.

  Lemma comment_unmodelled : forall q, is_comment q = true -> bad_symbol q = false.
  Proof.
    intros q H. apply mem_In in H. cbn [In] in H. destruct H as [<-|[<-|[<-|[]]]]; reflexivity.
  Qed.

  Lemma tops_run : forall p syms, tops p syms -> wf_prog p = true ->
    existsb bad_symbol syms = false /\
    forall m F n, (List.length syms <= F)%nat -> (List.length syms <= n)%nat ->
    asm_loop (pn_at fl2 ct F m) n syms = Ok (encode p).
  Proof.
    induction 1 as [|is ss p sp S T IH|q body p sp Q M U T IH]; intros W.
    - split; [reflexivity|]. intros m F n _ _. destruct n; reflexivity.
    - unfold wf_prog in W. rewrite forallb_app in W. apply andb_prop in W as [W1 W2].
      destruct (IH W2) as [U2 R2]. split.
      + destruct (good_stmt fl2 _ _ _ _ S W1) as (_ & _ & U1 & _). rewrite existsb_app, U1, U2. reflexivity.
      + intros m F n LF Ln. rewrite app_length in LF, Ln.
        destruct (proj1 (spells_correct fl2 ct m) _ _ _ _ S W1 F sp ltac:(lia) (hd_error_hd_or sp))
          as (h & t & -> & _ & P).
        cbn [defpre] in P. cbn [List.length] in *. destruct n as [|n']; [lia|].
        cbn [app asm_loop]. cbn [app] in P. rewrite P. cbn [rbind]. rewrite skipn_stmt.
        rewrite (R2 m F n') by lia. cbn [rbind]. unfold encode. rewrite flat_map_app. reflexivity.
    - destruct (IH W) as [U2 R2]. split.
      + cbn [existsb]. rewrite (comment_unmodelled q Q), existsb_app, U. cbn [existsb orb].
        rewrite (comment_unmodelled q Q), U2. reflexivity.
      + intros m F n LF Ln. cbn [List.length] in LF, Ln. rewrite app_length in LF, Ln. cbn [List.length] in LF, Ln.
        destruct F as [|f']; [lia|]. destruct n as [|n']; [lia|].
        assert (E : pn_at fl2 ct (Datatypes.S f') m q (q :: body ++ q :: sp) = Ok ((List.length body + 2)%nat, [])).
        { rewrite (PN_S fl2 ct m). unfold parse_next. rewrite Q. cbn [tl]. rewrite (index_of_mid q body sp M). reflexivity. }
        cbn [asm_loop]. rewrite E. cbn [rbind].
        replace (List.length body + 2)%nat with (Datatypes.S (List.length (body ++ [q])))
          by (rewrite app_length; cbn [List.length]; lia).
        change (q :: body ++ q :: sp) with (q :: body ++ [q] ++ sp). rewrite app_assoc, skipn_stmt.
        rewrite (R2 m (Datatypes.S f') n') by lia. reflexivity.
  Qed.

  Theorem assemble_tops : forall p syms, tops p syms -> wf_prog p = true ->
    assemble_r fl2 ct syms = Ok (encode p).
  Proof.
    intros p syms T W. destruct (tops_run p syms T W) as [U R]. unfold assemble_r.
    rewrite (bad_unmodelled syms U).
    replace (2 * List.length syms + 2)%nat with (Datatypes.S (2 * List.length syms + 1)) by lia.
    rewrite asm_fuel_free by exact U. rewrite (R [] (2 * List.length syms + 1)%nat) by lia. reflexivity.
  Qed.

  (* comments do not change the result: removing them from a commented program gives a text (a
     symbol list) with the same code *)
  Theorem compile_tops : forall p syms raw text, tops p syms -> wf_prog p = true ->
    posts raw syms -> rend raw text -> all_ascii text = true ->
    compile_text fl2 ct text = Ok (encode p).
  Proof.
    intros p syms raw text T W P R A. unfold compile_text.
    rewrite (tokenise raw syms text R A P). cbn [rbind]. apply assemble_tops; assumption.
  Qed.

  (* in particular: a spelled program, a comment, then more statements and comments *)
  Lemma seq_tops_app : forall nx p1 s1, seq fl2 Top nx p1 s1 ->
    forall p2 rest, tops p2 rest -> hd_error rest = nx -> tops (p1 ++ p2) (s1 ++ rest).
  Proof.
    assert (G : (forall c nx is ss, stmt fl2 c nx is ss -> True) /\
                (forall c nx i ts, iftail fl2 c nx i ts -> True) /\
                (forall c nx p ss, seq fl2 c nx p ss -> c = Top ->
                   forall p2 rest, tops p2 rest -> hd_error rest = nx -> tops (p ++ p2) (ss ++ rest))).
    { apply spells_mutind; intros; auto; try (cbn [app]; assumption).
      subst c. rewrite <- !app_assoc. apply tp_stmt.
      - rewrite <- hd_error_hd_or, (hd_error_app sp rest nx H5). exact H.
      - apply H2; auto. }
    intros nx p1 s1 S p2 rest T E. apply (proj2 (proj2 G) _ _ _ _ S eq_refl p2 rest T E).
  Qed.

  Corollary comment_between : forall p1 s1 p2 s2 q body,
    seq fl2 Top (Some q) p1 s1 -> tops p2 s2 -> wf_prog p1 = true -> wf_prog p2 = true ->
    is_comment q = true -> mem q body = false -> existsb bad_symbol body = false ->
    assemble_r fl2 ct (s1 ++ q :: body ++ q :: s2) = Ok (encode (p1 ++ p2)).
  Proof.
    intros p1 s1 p2 s2 q body S T W1 W2 Q M U. apply assemble_tops.
    - apply (seq_tops_app (Some q) p1 s1 S); [|reflexivity]. apply tp_comment; assumption.
    - unfold wf_prog. rewrite forallb_app. unfold wf_prog in W1, W2. rewrite W1, W2. reflexivity.
  Qed.
End Comments.

(* ====================================================================================== *)
(* 6. the same statements on the text's own tokens (no rendering needed: usable by          *)
(*    computation on a concrete text), and a worked example                                 *)
(* ====================================================================================== *)

Theorem tokenise_split : forall text syms, all_ascii text = true -> posts (split_py text) syms ->
  get_symbols text = Ok syms.
Proof. intros text syms A P. unfold get_symbols. rewrite A. apply gs_posts. exact P. Qed.

Theorem compile_tops_split : forall fl2 ct p syms text, tops fl2 p syms -> wf_prog p = true ->
  all_ascii text = true -> posts (split_py text) syms -> compile_text fl2 ct text = Ok (encode p).
Proof.
  intros fl2 ct p syms text T W A P. unfold compile_text. rewrite (tokenise_split text syms A P). cbn [rbind].
  apply assemble_tops; assumption.
Qed.

(* the example source of the assembler task, in mixed case, over several lines, with a comment:
     If ( tRue ) {<newline><tab>push d1 }<newline>else { PUSH x0102 }  # set and load #  @= k 1 @k<newline> *)
Definition nl : string := String (ascii_of_nat 10) "".
Definition tab : string := String (ascii_of_nat 9) "".
Definition example_text : string :=
  "If ( tRue ) {" ++ nl ++ tab ++ "push d1 }" ++ nl ++ "else { PUSH x0102 }  # set and load #  @= k 1 @k" ++ nl.

Lemma in_names : forall n, mem n all_names = true -> In n all_names.
Proof. intros n H. apply mem_In. exact H. Qed.

Example example_text_compiles : compile_text fl2_exact ct0 example_text = Ok (encode example_prog).
Proof.
  apply (compile_tops_split fl2_exact ct0 example_prog
           ["IF"; "("; "TRUE"; ")"; "{"; "PUSH"; "d1"; "}"; "ELSE"; "{"; "PUSH"; "x0102"; "}";
            "#"; "SET"; "AND"; "LOAD"; "#"; "@="; "k"; "1"; "@k"]).
  - (* the symbols: the if statement, a comment, the rest *)
    change example_prog with
      ([IOp0 O_TRUE; IIfElse [IOp1 O_PUSH0 x01] [IVar1 O_PUSH1 [x01; x02]]] ++
       [IWriteCache (str "k") x01; IVar1 O_READ_CACHE (str "k")]).
    apply (seq_tops_app fl2_exact (Some "#")
             [IOp0 O_TRUE; IIfElse [IOp1 O_PUSH0 x01] [IVar1 O_PUSH1 [x01; x02]]]
             ["IF"; "("; "TRUE"; ")"; "{"; "PUSH"; "d1"; "}"; "ELSE"; "{"; "PUSH"; "x0102"; "}"]);
      [| |reflexivity].
    + apply (sq_cons fl2_exact Top (Some "#") [IOp0 O_TRUE; IIfElse [IOp1 O_PUSH0 x01] [IVar1 O_PUSH1 [x01; x02]]]
               ["IF"; "("; "TRUE"; ")"; "{"; "PUSH"; "d1"; "}"; "ELSE"; "{"; "PUSH"; "x0102"; "}"] [] []);
        [|apply sq_nil].
      apply (st_ifh fl2_exact Top _ "IF" [IOp0 O_TRUE] ["TRUE"] (IIfElse [IOp1 O_PUSH0 x01] [IVar1 O_PUSH1 [x01; x02]])
               (braces ["PUSH"; "d1"] ++ "ELSE" :: braces ["PUSH"; "x0102"])).
      * apply alias_name; reflexivity.
      * apply (sq_cons fl2_exact _ None [IOp0 O_TRUE] ["TRUE"] [] []); [|apply sq_nil].
        apply st_op0; [apply alias_name; reflexivity|reflexivity].
      * apply ite_bb.
        -- apply (sq_cons fl2_exact _ _ [IOp1 O_PUSH0 x01] ["PUSH"; "d1"] [] []); [|apply sq_nil].
           apply (st_pushp fl2_exact _ _ "PUSH" [x01] "d1"); [left; reflexivity| |reflexivity].
           apply (sp_d fl2_exact _ "d" "1" 1%Z); [left; reflexivity| |reflexivity].
           apply (num_dec 1%Z). discriminate.
        -- apply (sq_cons fl2_exact _ _ [IVar1 O_PUSH1 [x01; x02]] ["PUSH"; "x0102"] [] []); [|apply sq_nil].
           apply (st_pushp fl2_exact _ _ "PUSH" [x01; x02] "x0102"); [left; reflexivity| |reflexivity].
           apply sp_x; [left; reflexivity|reflexivity].
    + apply (tp_comment fl2_exact "#" ["SET"; "AND"; "LOAD"]); try reflexivity.
      apply (tp_stmt fl2_exact [IWriteCache (str "k") x01] ["@="; "k"; "1"] [IVar1 O_READ_CACHE (str "k")] ["@k"]).
      * apply st_setvar; [reflexivity|]. apply (num_dec 1%Z). discriminate.
      * apply (tp_stmt fl2_exact [IVar1 O_READ_CACHE (str "k")] ["@k"] [] []); [|apply tp_nil].
        apply st_loadvar. reflexivity.
  - reflexivity.
  - reflexivity.
  - (* the tokens of the text and their post-processing *)
    change (split_py example_text) with
      ["If"; "("; "tRue"; ")"; "{"; "push"; "d1"; "}"; "else"; "{"; "PUSH"; "x0102"; "}";
       "#"; "set"; "and"; "load"; "#"; "@="; "k"; "1"; "@k"].
    apply posts_name; [apply in_names; reflexivity|reflexivity|].
    apply posts_name; [apply in_names; reflexivity|reflexivity|].
    apply posts_name; [apply in_names; reflexivity|reflexivity|].
    apply posts_name; [apply in_names; reflexivity|reflexivity|].
    apply posts_name; [apply in_names; reflexivity|reflexivity|].
    apply posts_name; [apply in_names; reflexivity|reflexivity|].
    apply posts_stable; [apply stable_d; reflexivity|].
    apply posts_name; [apply in_names; reflexivity|reflexivity|].
    apply posts_name; [apply in_names; reflexivity|reflexivity|].
    apply posts_name; [apply in_names; reflexivity|reflexivity|].
    apply posts_name; [apply in_names; reflexivity|reflexivity|].
    apply posts_stable; [apply stable_x; reflexivity|].
    apply posts_name; [apply in_names; reflexivity|reflexivity|].
    apply posts_stable; [apply stable_upper; reflexivity|].
    apply (ps_tok "set"); [repeat split|]. apply (ps_tok "and"); [repeat split|].
    apply (ps_tok "load"); [repeat split|].
    apply posts_stable; [apply stable_upper; reflexivity|].
    apply ps_next; [reflexivity|reflexivity|].
    apply posts_stable; [apply stable_upper; reflexivity|].
    apply posts_stable; [apply stable_at; [left; reflexivity|reflexivity]|].
    apply ps_nil.
Qed.

(* a string value written over several blanks and a tab: one symbol, with single spaces (oddity T2) *)
Example example_string_value :
  get_symbols ("push  s""a  " ++ tab ++ " b""  true") = Ok ["PUSH"; "s""a b"""; "TRUE"].
Proof.
  apply tokenise_split; [reflexivity|].
  change (split_py ("push  s""a  " ++ tab ++ " b""  true")) with (["push"] ++ "s""a" :: [] ++ "b""" :: ["true"]).
  cbn [app]. apply posts_name; [apply in_names; reflexivity|reflexivity|].
  apply (ps_strn "s""a" dquote [] "b""" ["true"] ["TRUE"]); try reflexivity; [apply Forall_nil|].
  apply posts_name; [apply in_names; reflexivity|reflexivity|apply ps_nil].
Qed.

(* oddity T1: the empty string value cannot be written *)
Example empty_string_value_unterminated :
  get_symbols "push s"""" true" = Err /\ get_symbols "push s"""" x"" true" = Ok ["PUSH"; "s"""" x"""; "TRUE"].
Proof. split; vm_compute; reflexivity. Qed.

(* ====================================================================================== *)
(* 7. re-tokenisation of an instantiated macro template                                      *)
(* ====================================================================================== *)

(* invoke_macro compiles ' '.join(src): symbols that are whitespace-free, ASCII and left unchanged
   by get_symbols come back as they are *)
Lemma rend_join : forall l, Forall (fun t => tokenb t = true) l -> rend l (join_spaces l).
Proof.
  induction l as [|t l IH]; intros F; [apply (rd_nil ""); reflexivity|].
  inversion F as [|t' l' Ht Fl]; subst. destruct l as [|u l].
  - cbn [join_spaces]. rewrite <- (AsmProofs.append_nil_r t) at 2.
    apply (rd_last "" t ""); [reflexivity|exact Ht|reflexivity].
  - change (join_spaces (t :: u :: l)) with ("" ++ t ++ " " ++ join_spaces (u :: l))%string.
    apply rd_cons; try reflexivity; [exact Ht|]. apply IH. exact Fl.
Qed.
Lemma all_ascii_app : forall a b, all_ascii (a ++ b)%string = all_ascii a && all_ascii b.
Proof. intros. apply sall_app. Qed.
Lemma all_ascii_join : forall l, Forall (fun t => all_ascii t = true) l -> all_ascii (join_spaces l) = true.
Proof.
  induction l as [|t l IH]; intros F; [reflexivity|]. inversion F as [|t' l' Ht Fl]; subst.
  destruct l as [|u l]; [exact Ht|].
  change (join_spaces (t :: u :: l)) with (t ++ String " " (join_spaces (u :: l)))%string.
  rewrite all_ascii_app, Ht. cbn [all_ascii sall]. fold (all_ascii (join_spaces (u :: l))). rewrite IH by exact Fl. reflexivity.
Qed.
Lemma posts_all_stable : forall l, Forall stable_tok l -> posts l l.
Proof. induction 1; [apply ps_nil|apply posts_stable; assumption]. Qed.

Theorem retokenise_stable : forall l,
  Forall (fun t => tokenb t = true /\ all_ascii t = true /\ stable_tok t) l ->
  get_symbols (join_spaces l) = Ok l.
Proof.
  intros l F. apply (tokenise l l).
  - apply rend_join. revert F. apply Forall_impl. intros t H. apply H.
  - apply all_ascii_join. revert F. apply Forall_impl. intros t H. apply H.
  - apply posts_all_stable. revert F. apply Forall_impl. intros t H. apply H.
Qed.

Print Assumptions split_rend.
Print Assumptions gs_posts.
Print Assumptions tokenise.
Print Assumptions whitespace_irrelevant.
Print Assumptions posts_name.
Print Assumptions compile_spells.
Print Assumptions assemble_tops.
Print Assumptions compile_tops.
Print Assumptions comment_between.
Print Assumptions compile_tops_split.
Print Assumptions example_text_compiles.
Print Assumptions example_string_value.
Print Assumptions retokenise_stable.
