(* C13 (continued): make_scripthash_lock and make_graftroot_lock with their witnesses — the authorisation
   result, exactly, on the bytes the builders emit (model/Builders.v).
     0. the emitted bytes;
     1. OP_EVAL at a tape position (eval_exec), and as the last instruction of a tape (eval_last);
     2. the script-hash lock: a wrong script never starts; the committed script runs as a NEW tape object
        (call count 1, a new copy of the definitions) on the EMPTY stack, and the verdict is read from
        the stack it leaves;
     3. the graftroot lock, key path: the verdict is that of the single-signature lock;
     4. the graftroot lock, surrogate path: the surrogate script runs (on the EMPTY stack) exactly when the
        oracle verifies (pk, surrogate, ssig); otherwise the verdict is False and the surrogate never
        starts. *)
From Coq Require Import ZArith List Bool Lia.
From Coq.Strings Require Import Byte String.
From TS Require Import Bytes Codec State Prog Ops Interp StateLemmas InterpLemmas NopSpec StackLemmas
  BytesLemmas TapeLemmas SigSpec ConfigSpec AuthSpec TimeSpec Asm Builders BuilderSpec TapeSteps
  Closure Pointer BuilderSpecC13 BuilderSpecC14 BuilderSpecC15 TablesCheck.
Import ListNotations.
Local Open Scope nat_scope.

(* ================= 0. the bytes of the builders ================= *)

Definition sh_witness (script : bytes) : bytes := encode [scripthash_witness script].
Definition graftroot_key_witness (sig : bytes) : bytes := encode [P1 sig; IOp0 O_FALSE].
Definition graftroot_surrogate_witness (ssig surrogate : bytes) : bytes :=
  encode [P1 ssig; P1 surrogate; IOp0 O_TRUE].

(* the two arms of the graftroot lock *)
Definition surr_arm : bytes := [x1d; x34; x01; x02; x0a; x01; x6b; x4a; x20; x2d].
Definition key_arm (fl : byte) : bytes := [x0a; x01; x6b; x23; fl].
Definition wc_k : bytes := [x09; x01; x6b; x01].

Lemma surr_arm_encoding :
  surr_arm = encode [IOp0 O_DUP; ISwap x01 x02; RC [x6b]; IOp0 O_CHECK_SIG_STACK; IOp0 O_VERIFY; IOp0 O_EVAL].
Proof. reflexivity. Qed.
Lemma key_arm_encoding fl : key_arm fl = encode [RC [x6b]; IOp1 O_CHECK_SIG fl].
Proof. reflexivity. Qed.

Lemma sh_witness_bytes script : sh_witness script = push1_bytes script.
Proof. unfold sh_witness, scripthash_witness, encode. cbn [flat_map encode1 P1]. rewrite app_nil_r. reflexivity. Qed.

Lemma scripthash_lock_bytes h n :
  scripthash_lock h n = [x1d] ++ [x1f; n] ++ push1_bytes h ++ [x22] ++ [x2d].
Proof. reflexivity. Qed.

Lemma graftroot_lock_bytes pk fl :
  graftroot_lock pk fl = push1_bytes pk ++ wc_k ++ x2c :: ifelse_ops surr_arm (key_arm fl).
Proof. reflexivity. Qed.

Lemma graftroot_key_witness_bytes sig : graftroot_key_witness sig = pushes_bytes [sig] ++ [x00].
Proof.
  unfold graftroot_key_witness, pushes_bytes, encode. cbn [flat_map encode1 P1]. rewrite !app_nil_r. reflexivity.
Qed.

Lemma graftroot_surrogate_witness_bytes ssig surrogate :
  graftroot_surrogate_witness ssig surrogate = pushes_bytes [ssig; surrogate] ++ [x01].
Proof.
  unfold graftroot_surrogate_witness, pushes_bytes, encode. cbn [flat_map encode1 P1].
  rewrite !app_nil_r, <- !app_assoc. reflexivity.
Qed.

(* the same facts with every byte spelled out *)
Lemma scripthash_bytes (script h : bytes) (n : byte) :
  scripthash_lock h n = [x1d; x1f; n; x03; z2b (blen h)] ++ h ++ [x22; x2d] /\
  sh_witness script = x03 :: z2b (blen script) :: script.
Proof. split; [reflexivity|apply sh_witness_bytes]. Qed.

Lemma graftroot_bytes (pk sig ssig surrogate : bytes) (fl : byte) :
  graftroot_lock pk fl =
    (x03 :: z2b (blen pk) :: pk) ++
    [x09; x01; x6b; x01; x2c; x00; x0a; x1d; x34; x01; x02; x0a; x01; x6b; x4a; x20; x2d;
     x00; x05; x0a; x01; x6b; x23; fl] /\
  graftroot_key_witness sig = (x03 :: z2b (blen sig) :: sig) ++ [x00] /\
  graftroot_surrogate_witness ssig surrogate =
    (x03 :: z2b (blen ssig) :: ssig) ++ (x03 :: z2b (blen surrogate) :: surrogate) ++ [x01].
Proof.
  split; [reflexivity|]. split.
  - rewrite graftroot_key_witness_bytes. unfold pushes_bytes. cbn [flat_map]. rewrite app_nil_r. reflexivity.
  - rewrite graftroot_surrogate_witness_bytes. unfold pushes_bytes. cbn [flat_map].
    rewrite app_nil_r, <- app_assoc. reflexivity.
Qed.

(* ================= 1. OP_EVAL ================= *)

Section Eval.
Variable orc : oracle.
Variable cfg : config.

Definition no_eval_ban : Prop := flag_get (c_flags cfg) (FKStr (str "disallow_OP_EVAL")) = None.
Definition eval_ret : bool := flag_on (c_flags cfg) (FKStr (str "eval_return")).

(* the state in which an EVALuated script starts: a NEW tape object (call count + 1) holding the script,
   with a NEW copy of the definition table of the calling tape *)
Definition eval_start (st : state) (tid : nat) (body : bytes) : state :=
  with_tapes (with_defs st (st_defs st ++ [nth_defs st (to_defs (nth_tape st tid))]))
    (st_tapes st ++ [{| to_data := body; to_count := (to_count (nth_tape st tid) + 1)%Z;
                        to_defs := List.length (st_defs st) |}]).

(* what OP_EVAL does with the control flag once the script has ended normally: with the flag
   "eval_return" the flag stays set (and the calling tape ends), otherwise it is cleared *)
Definition eval_cache (st' : state) : state :=
  match cache_get (st_cache st') returned_key with
  | Some _ =>
    if eval_ret then with_cache st' (cache_set (st_cache st') returned_key (VOne (ABool true)))
    else with_cache st' (cache_del (st_cache st') returned_key)
  | None => st'
  end.

Definition eval_finish (tid ptr : nat) (o : outcome unit) : outcome unit :=
  match o with
  | Done _ _ st' =>
    Done tt {| fr_tid := tid;
               fr_ptr := match cache_get (st_cache st') returned_key with
                         | Some _ => if eval_ret then List.length (tdata st' tid) else ptr
                         | None => ptr
                         end |} (eval_cache st')
  | Raised e _ st' => Raised e {| fr_tid := tid; fr_ptr := ptr |} st'
  | OutOfFuel => OutOfFuel
  | Unmodelled w => Unmodelled w
  end.

(* OP_EVAL, the pointer standing just behind the opcode *)
Lemma eval_exec run tid ptr st script rest :
  no_eval_ban -> st_stack st = script :: rest ->
  (to_count (nth_tape st tid) < c_limit cfg)%Z -> script <> [] ->
  interp orc cfg run OP_EVAL {| fr_tid := tid; fr_ptr := ptr |} st =
    eval_finish tid ptr (run (List.length (st_tapes st)) (eval_start (with_stack st rest) tid script)).
Proof.
  intros Hfl Hs Hc Hne.
  unfold OP_EVAL, eval_body, config_, get, act. cbn [bind interp step].
  unfold no_eval_ban in Hfl. rewrite Hfl. unfold sert at 1. cbn [bind interp step].
  unfold cur. cbn [fr_tid].
  replace (to_count (nth_tape st tid) <? c_limit cfg)%Z with true by (symmetry; apply Z.ltb_lt; exact Hc).
  unfold sert at 1. cbn [bind interp step]. rewrite Hs. cbn [bind interp step].
  replace (0 <? blen script)%Z with true by (symmetry; apply nonempty_blen; exact Hne).
  unfold vert at 1. cbn [bind interp step].
  match goal with |- match ?X with _ => _ end = _ =>
    change X with (after_run {| fr_tid := tid; fr_ptr := ptr |}
                     (run (List.length (st_tapes st)) (eval_start (with_stack st rest) tid script))) end.
  destruct (run _ _) as [[] fr' st'|e fr' st'| |w]; cbn [after_run eval_finish]; try reflexivity.
  unfold eval_cache, eval_ret.
  destruct (cache_get (st_cache st') returned_key); [|reflexivity].
  destruct (flag_on _ _); reflexivity.
Qed.

(* the refusals of OP_EVAL *)
Lemma eval_exec_banned run fr st v :
  flag_get (c_flags cfg) (FKStr (str "disallow_OP_EVAL")) = Some v ->
  interp orc cfg run OP_EVAL fr st = Raised ScriptExecutionError fr st.
Proof. apply eval_disallowed. Qed.

Lemma eval_exec_limit run tid ptr st :
  no_eval_ban -> (c_limit cfg <= to_count (nth_tape st tid))%Z ->
  interp orc cfg run OP_EVAL {| fr_tid := tid; fr_ptr := ptr |} st =
    Raised ScriptExecutionError {| fr_tid := tid; fr_ptr := ptr |} st.
Proof.
  intros Hfl Hc. unfold OP_EVAL, eval_body, config_, get, act. cbn [bind interp step].
  unfold no_eval_ban in Hfl. rewrite Hfl. unfold sert at 1. cbn [bind interp step].
  unfold cur. cbn [fr_tid].
  replace (to_count (nth_tape st tid) <? c_limit cfg)%Z with false by (symmetry; apply Z.ltb_ge; exact Hc).
  reflexivity.
Qed.

Lemma tdata_eval_cache st' t : tdata (eval_cache st') t = tdata st' t.
Proof.
  unfold eval_cache. destruct (cache_get _ _); [|reflexivity]. destruct eval_ret; reflexivity.
Qed.

Lemma stack_eval_cache st' : st_stack (eval_cache st') = st_stack st'.
Proof.
  unfold eval_cache. destruct (cache_get _ _); [|reflexivity]. destruct eval_ret; reflexivity.
Qed.

Lemma tapes_eval_cache st' : st_tapes (eval_cache st') = st_tapes st'.
Proof.
  unfold eval_cache. destruct (cache_get _ _); [|reflexivity]. destruct eval_ret; reflexivity.
Qed.

Lemma tdata_eval_new st tid body : tdata (eval_start st tid body) (List.length (st_tapes st)) = body.
Proof.
  unfold tdata, nth_tape, eval_start. cbn [st_tapes with_tapes].
  rewrite app_nth2 by lia. rewrite Nat.sub_diag. reflexivity.
Qed.

Lemma tdata_eval_old st tid body t :
  t < List.length (st_tapes st) -> tdata (eval_start st tid body) t = tdata st t.
Proof.
  intro Hlt. unfold tdata, nth_tape, eval_start. cbn [st_tapes with_tapes with_defs].
  rewrite app_nth1 by exact Hlt. reflexivity.
Qed.

Lemma count_eval_new st tid body :
  to_count (nth_tape (eval_start st tid body) (List.length (st_tapes st))) = (to_count (nth_tape st tid) + 1)%Z.
Proof.
  unfold nth_tape, eval_start. cbn [st_tapes with_tapes].
  rewrite app_nth2 by lia. rewrite Nat.sub_diag. reflexivity.
Qed.

(* tape data are immutable: whatever the EVALuated script does, the calling tape still holds its bytes *)
Lemma data_kept F t p st0 tid (o : outcome unit) :
  o = run_tape orc cfg F t p st0 -> tid < List.length (st_tapes st0) ->
  match o with
  | Done _ _ st' | Raised _ _ st' => tdata st' tid = tdata st0 tid
  | _ => True
  end.
Proof.
  intros -> Hlt. pose proof (run_tape_heap orc cfg F t p st0) as Hh.
  destruct (run_tape orc cfg F t p st0) as [[] fr' st'|e fr' st'| |w]; try exact I;
    cbn [R_out] in Hh; destruct Hh as [_ Hh]; exact (Hh tid Hlt).
Qed.

(* the outcome of a tape whose LAST instruction is OP_EVAL, from the outcome of the EVALuated script *)
Definition eval_last_outcome (tid ptr : nat) (o : outcome unit) : outcome unit :=
  match o with
  | Done _ _ st' => Done tt {| fr_tid := tid; fr_ptr := ptr |} (eval_cache st')
  | Raised e _ st' => Raised e {| fr_tid := tid; fr_ptr := ptr |} st'
  | OutOfFuel => OutOfFuel
  | Unmodelled w => Unmodelled w
  end.

Lemma eval_last f tid st ptr (pre : bytes) script rest :
  tdata st tid = pre ++ [x2d] -> ptr = List.length pre -> tid < List.length (st_tapes st) ->
  no_eval_ban -> st_stack st = script :: rest ->
  (to_count (nth_tape st tid) < c_limit cfg)%Z -> script <> [] ->
  run_tape orc cfg (S (S f)) tid ptr st =
    eval_last_outcome tid (S ptr)
      (run_tape orc cfg (S f) (List.length (st_tapes st)) 0 (eval_start (with_stack st rest) tid script)).
Proof.
  intros Hd Hp Hlt Hfl Hs Hc Hne.
  assert (Hd0 : tdata st tid = pre ++ x2d :: []) by exact Hd.
  rewrite (fetch_at orc cfg (S f) tid st ptr pre x2d [] Hd0 Hp).
  change (dispatch (N.to_nat (Byte.to_N x2d))) with OP_EVAL.
  rewrite (eval_exec _ tid (S ptr) st script rest Hfl Hs Hc Hne).
  set (st1 := eval_start (with_stack st rest) tid script).
  pose proof (data_kept (S f) (List.length (st_tapes st)) 0 st1 tid _ eq_refl) as Hk.
  destruct (run_tape orc cfg (S f) (List.length (st_tapes st)) 0 st1) as [[] fr' st'|e fr' st'| |w];
    cbn [eval_finish eval_last_outcome]; try reflexivity.
  assert (Hdata : tdata st' tid = pre ++ [x2d]).
  { rewrite Hk.
    - unfold st1. rewrite tdata_eval_old by exact Hlt. exact Hd.
    - unfold st1, eval_start. cbn [st_tapes with_tapes]. rewrite app_length. simpl.
      change (st_tapes (with_stack st rest)) with (st_tapes st). lia. }
  cbn [fr_ptr].
  assert (Hp' : match cache_get (st_cache st') returned_key with
                | Some _ => if eval_ret then List.length (tdata st' tid) else S ptr
                | None => S ptr
                end = S ptr).
  { rewrite Hdata, app_length, Hp. cbn [List.length].
    destruct (cache_get _ _); [destruct eval_ret|]; lia. }
  rewrite Hp'.
  apply run_tape_end. rewrite tdata_eval_cache, Hdata, app_length, Hp. simpl. lia.
Qed.

End Eval.

(* ================= 2. two scripts: witness, then lock ================= *)

(* the verdict of run_auth_scripts once the last script has produced [o]; [post] is what the instructions
   that enclose the last sub-tape still do to the state (they never touch the stack) *)
Definition verdict_after (post : state -> state) (o : outcome unit) : auth_result :=
  match o with
  | Done _ _ st'' =>
    match st_stack st'' with
    | [item] => AuthVerdict (bytes_eqb item [xff]) (with_stack (post st'') [])
    | _ => AuthVerdict false (post st'')
    end
  | Raised _ _ st'' => AuthVerdict false st''
  | OutOfFuel => AuthFuel
  | Unmodelled w => AuthUnmod w
  end.

(* the second script of a pair runs as tape object 1; name its start state *)
Ltac lock_state st2 :=
  match goal with |- context [next_start ?s 0 ?l] =>
    change (fst (next_start s 0 l)) with 1; set (st2 := snd (next_start s 0 l)) end.

Section Pair.
Variable orc : oracle.
Variable cfg : config.

Lemma auth_pair F w l vals fr st1 :
  run_script orc cfg F w vals = Done tt fr st1 ->
  run_auth_scripts orc cfg F [w; l] vals =
    verdict_after (fun s => s) (run_tape orc cfg F (fst (next_start st1 0 l)) 0 (snd (next_start st1 0 l))).
Proof.
  intro H. unfold run_auth_scripts. rewrite H, auth_rest_unfold.
  destruct (run_tape orc cfg F _ 0 _) as [[] fr' st'|e fr' st'| |w']; reflexivity.
Qed.

Lemma verdict_after_eval_last tid p o :
  verdict_after (fun s => s) (eval_last_outcome cfg tid p o) = verdict_after (eval_cache cfg) o.
Proof.
  destruct o as [[] fr' st'|e fr' st'| |w']; try reflexivity.
  cbn [eval_last_outcome verdict_after]. rewrite stack_eval_cache. reflexivity.
Qed.

(* a witness made of PUSH1 instructions followed by OP_TRUE / OP_FALSE *)
Lemma flagged_witness_runs f (vs : list bytes) op v vals :
  dispatch (N.to_nat (Byte.to_N op)) = put [v] ->
  (forall x, In x vs -> List.length x < 256 /\ fits cfg x) ->
  List.length vs < c_max_items cfg -> 1 <= c_max_item_size cfg ->
  run_script orc cfg (List.length vs + S (S f)) (pushes_bytes vs ++ [op]) vals =
    Done tt {| fr_tid := 0; fr_ptr := S (List.length (pushes_bytes vs)) |}
         (with_stack (init_state cfg (pushes_bytes vs ++ [op]) vals) ([v] :: rev vs)).
Proof.
  intros Hop Hv Hit Hsz. unfold run_script.
  set (st0 := init_state cfg (pushes_bytes vs ++ [op]) vals).
  assert (Hd : tdata st0 0 = [] ++ pushes_bytes vs ++ [op]) by reflexivity.
  start_tape.
  rewrite (pushes_step orc cfg vs (S (S f)) 0 st0 [] [op] [] Hd Hv eq_refl) by (simpl; lia).
  rewrite app_nil_r. cbn [app].
  assert (Hd1 : tdata (with_stack st0 (rev vs)) 0 = pushes_bytes vs ++ op :: []) by exact Hd.
  rewrite (step_done orc cfg (S f) 0 _ (pushes_bytes vs) op []
             {| fr_tid := 0; fr_ptr := S (List.length (pushes_bytes vs)) |}
             (with_stack st0 ([v] :: rev vs)) Hd1).
  - cbn [fr_ptr]. apply run_tape_end.
    change (tdata (with_stack st0 ([v] :: rev vs)) 0) with (pushes_bytes vs ++ [op]).
    rewrite app_length. simpl. lia.
  - rewrite Hop. unfold put, act.
    rewrite (put_step orc cfg _ _ _ _ _ [v] (rev vs)); [reflexivity|reflexivity|unfold fits; simpl; lia|].
    unfold space. rewrite rev_length. exact Hit.
Qed.

(* OP_SHAKE256 n under the pointer *)
Lemma shake_at f tid st (pre tail : bytes) n x s :
  tdata st tid = pre ++ x1f :: n :: tail -> st_stack st = x :: s -> space cfg s ->
  run_tape orc cfg (S f) tid (List.length pre) st =
    match orc PShake256 [x; [n]] with
    | OOk [d] =>
      if c_max_item_size cfg <? List.length d
      then Raised ScriptExecutionError {| fr_tid := tid; fr_ptr := S (List.length pre) + 1 |} (with_stack st s)
      else run_tape orc cfg f tid (List.length (pre ++ [x1f; n])) (with_stack st (d :: s))
    | OOk _ => Unmodelled "oracle arity"
    | OErr e => Raised e {| fr_tid := tid; fr_ptr := S (List.length pre) + 1 |} (with_stack st s)
    end.
Proof.
  intros Hd Hs Hsp.
  rewrite (run_tape_fetch orc cfg f tid st pre x1f (n :: tail) Hd).
  change (dispatch (N.to_nat (Byte.to_N x1f))) with OP_SHAKE256.
  rewrite (shake_exec orc cfg _ _ st n tail x s (data_at_after tid st pre x1f (n :: tail) Hd) Hs Hsp).
  destruct (orc PShake256 [x; [n]]) as [[|d [|d' l]]|e]; try reflexivity.
  destruct (c_max_item_size cfg <? List.length d); [reflexivity|].
  unfold adv. cbn [fr_tid fr_ptr]. f_equal. rewrite app_length. simpl. lia.
Qed.

End Pair.

(* ================= 3. the script-hash lock ================= *)

Section ScriptHash.
Variable orc : oracle.
Variable cfg : config.

Lemma sh_witness_runs f script vals :
  List.length script < 256 -> fits cfg script -> 1 <= c_max_items cfg ->
  run_script orc cfg (S (S f)) (sh_witness script) vals =
    Done tt {| fr_tid := 0; fr_ptr := 2 + List.length script |}
         (with_stack (init_state cfg (sh_witness script) vals) [script]).
Proof.
  intros Hl Hf Hit. unfold run_script.
  apply (push1_tape_runs orc cfg f 0 _ script []); try assumption; try reflexivity.
  change (sh_witness script = push1_bytes script). apply sh_witness_bytes.
Qed.

(* DUP ; SHAKE256 n : the state in front of PUSH1 h *)
Lemma sh_prefix f tid st script h n d :
  tdata st tid = scripthash_lock h n -> st_stack st = [script] ->
  fits cfg script -> 3 <= c_max_items cfg ->
  orc PShake256 [script; [n]] = OOk [d] ->
  run_tape orc cfg (S (S f)) tid 0 st =
    if c_max_item_size cfg <? List.length d
    then Raised ScriptExecutionError {| fr_tid := tid; fr_ptr := 3 |} (with_stack st [script])
    else run_tape orc cfg f tid 3 (with_stack st [d; script]).
Proof.
  intros Hd Hs Hf Hit Ho. rewrite scripthash_lock_bytes in Hd.
  start_tape.
  rewrite (op0_done orc cfg _ tid st [] x1d _ (with_stack st [script; script]) Hd).
  2:{ intros run fr. change (dispatch (N.to_nat (Byte.to_N x1d))) with OP_DUP.
      apply (dup_exec orc cfg run fr st script [] Hs Hf). simpl. lia. }
  rewrite (shake_at orc cfg _ tid _ ([] ++ [x1d]) (push1_bytes h ++ [x22] ++ [x2d]) n script [script]);
    [|rewrite tdata_with_stack, Hd; reflexivity|reflexivity|unfold space; simpl; lia].
  rewrite Ho. reflexivity.
Qed.

(* a script whose hash is not the committed one: EQUAL_VERIFY raises, nothing else happens *)
Lemma sh_lock_mismatch f tid st script h n d :
  tdata st tid = scripthash_lock h n -> st_stack st = [script] ->
  script <> [] -> fits cfg script -> List.length h < 256 -> fits cfg h -> 3 <= c_max_items cfg ->
  orc PShake256 [script; [n]] = OOk [d] -> d <> h ->
  exists fr, run_tape orc cfg (S (S (S (S (S (S f)))))) tid 0 st =
             Raised ScriptExecutionError fr (with_stack st [script]).
Proof.
  intros Hd Hs Hne Hf Lh Fh Hit Ho Hdh.
  assert (Hsz : 1 <= c_max_item_size cfg).
  { unfold fits in Hf. destruct script; [congruence|]. simpl in Hf. lia. }
  rewrite (sh_prefix _ tid st script h n d Hd Hs Hf Hit Ho).
  destruct (c_max_item_size cfg <? List.length d) eqn:Ed; [eexists; reflexivity|].
  rewrite scripthash_lock_bytes in Hd.
  change 3 with (List.length (([] ++ [x1d]) ++ [x1f; n])).
  rewrite (push1_step orc cfg _ tid _ (([] ++ [x1d]) ++ [x1f; n]) h ([x22] ++ [x2d]) [d; script]);
    [|rewrite tdata_with_stack, Hd; reflexivity|exact Lh|reflexivity|exact Fh|unfold space; simpl; lia].
  set (pre4 := (([] ++ [x1d]) ++ [x1f; n]) ++ push1_bytes h).
  set (st5 := with_stack (with_stack st [d; script]) [h; d; script]).
  assert (Hd5 : tdata st5 tid = pre4 ++ x22 :: [x2d]).
  { unfold st5, pre4. rewrite !tdata_with_stack, Hd, <- !app_assoc. reflexivity. }
  rewrite (op0_raised orc cfg _ tid st5 pre4 x22 _ ScriptExecutionError (with_stack st5 [script]) Hd5).
  - eexists. reflexivity.
  - intros run fr. change (dispatch (N.to_nat (Byte.to_N x22))) with OP_EQUAL_VERIFY.
    rewrite (equal_verify_exec orc cfg run fr st5 h d [script]);
      [|reflexivity|exact Hsz|unfold space; simpl; lia].
    rewrite bytes_eqb_neq by congruence. reflexivity.
Qed.

(* the committed script: it starts as a new tape object, on the empty stack *)
Lemma sh_lock_match f tid st script h n :
  tdata st tid = scripthash_lock h n -> tid < List.length (st_tapes st) -> st_stack st = [script] ->
  script <> [] -> fits cfg script -> List.length h < 256 -> fits cfg h -> 3 <= c_max_items cfg ->
  no_eval_ban cfg -> (to_count (nth_tape st tid) < c_limit cfg)%Z ->
  orc PShake256 [script; [n]] = OOk [h] ->
  run_tape orc cfg (S (S (S (S (S (S f)))))) tid 0 st =
    eval_last_outcome cfg tid (List.length (scripthash_lock h n))
      (run_tape orc cfg (S f) (List.length (st_tapes st)) 0 (eval_start (with_stack st []) tid script)).
Proof.
  intros Hd Hlt Hs Hne Hf Lh Fh Hit Hban Hcnt Ho.
  assert (Hsz : 1 <= c_max_item_size cfg).
  { unfold fits in Hf. destruct script; [congruence|]. simpl in Hf. lia. }
  rewrite (sh_prefix _ tid st script h n h Hd Hs Hf Hit Ho).
  replace (c_max_item_size cfg <? List.length h) with false by (symmetry; apply Nat.ltb_ge; exact Fh).
  rewrite scripthash_lock_bytes in Hd.
  change 3 with (List.length (([] ++ [x1d]) ++ [x1f; n])).
  rewrite (push1_step orc cfg _ tid _ (([] ++ [x1d]) ++ [x1f; n]) h ([x22] ++ [x2d]) [h; script]);
    [|rewrite tdata_with_stack, Hd; reflexivity|exact Lh|reflexivity|exact Fh|unfold space; simpl; lia].
  set (pre4 := (([] ++ [x1d]) ++ [x1f; n]) ++ push1_bytes h).
  set (st5 := with_stack (with_stack st [h; script]) [h; h; script]).
  assert (Hd5 : tdata st5 tid = pre4 ++ x22 :: [x2d]).
  { unfold st5, pre4. rewrite !tdata_with_stack, Hd, <- !app_assoc. reflexivity. }
  rewrite (op0_done orc cfg _ tid st5 pre4 x22 _ (with_stack st5 [script]) Hd5).
  2:{ intros run fr. change (dispatch (N.to_nat (Byte.to_N x22))) with OP_EQUAL_VERIFY.
      rewrite (equal_verify_exec orc cfg run fr st5 h h [script]);
        [|reflexivity|exact Hsz|unfold space; simpl; lia].
      rewrite bytes_eqb_refl. reflexivity. }
  rewrite (eval_last orc cfg f tid (with_stack st5 [script]) _ (pre4 ++ [x22]) script []);
    try assumption; try reflexivity.
  - f_equal. rewrite scripthash_lock_bytes. unfold pre4. rewrite !app_length. simpl. lia.
  - rewrite tdata_with_stack, Hd5, <- app_assoc. reflexivity.
Qed.

(* --- the theorems --- *)

(* the tape objects of the two scripts *)
Definition sh_tapes (script h : bytes) (n : byte) : list tapeobj :=
  [{| to_data := sh_witness script; to_count := 0; to_defs := 0 |};
   {| to_data := scripthash_lock h n; to_count := 0; to_defs := 0 |}].

(* (a) a script with another hash does not start: verdict False, no sub-tape, empty log *)
Theorem scripthash_wrong_script f (script h : bytes) n d vals :
  0 < List.length script < 256 -> List.length script <= c_max_item_size cfg ->
  List.length h < 256 -> List.length h <= c_max_item_size cfg -> 3 <= c_max_items cfg ->
  orc PShake256 [script; [n]] = OOk [d] -> d <> h ->
  exists st,
    run_auth_scripts orc cfg (S (S (S (S (S (S f)))))) [sh_witness script; scripthash_lock h n] vals
      = AuthVerdict false st /\
  st_tapes st = sh_tapes script h n /\
  st_log st = st_log (init_state cfg (sh_witness script) vals) /\ st_log st = [].
Proof.
  intros Ls Fs Lh Fh Hit Ho Hdh.
  assert (Hne : script <> []) by (intro E; subst script; simpl in Ls; lia).
  rewrite (auth_pair orc cfg _ _ _ vals _ _ (sh_witness_runs (S (S (S (S f)))) script vals ltac:(lia) Fs ltac:(lia))).
  lock_state st2.
  assert (Hd : tdata st2 1 = scripthash_lock h n) by reflexivity.
  assert (Hs : st_stack st2 = [script]) by reflexivity.
  assert (Htapes : st_tapes st2 = sh_tapes script h n) by reflexivity.
  assert (Hlog : st_log st2 = []) by reflexivity.
  destruct (sh_lock_mismatch f 1 st2 script h n d Hd Hs Hne Fs Lh Fh Hit Ho Hdh) as [fr ->].
  cbn [verdict_after]. eexists. split; [reflexivity|].
  split; [exact Htapes|]. split; [exact Hlog|exact Hlog].
Qed.

(* the state in which the committed script starts *)
Definition sh_eval_state (script h : bytes) (n : byte) (vals : cache) : state :=
  {| st_stack := [];
     st_cache := cache_del (init_cache cfg vals) returned_key;
     st_tapes := sh_tapes script h n ++ [{| to_data := script; to_count := 1; to_defs := 1 |}];
     st_defs := [[]; []];
     st_log := [];
     st_rand := 0 |}.

Lemma sh_eval_state_facts script h n vals :
  let st' := sh_eval_state script h n vals in
  tdata st' 2 = script /\ st_stack st' = [] /\ List.length (st_tapes st') = 3 /\
  to_count (nth_tape st' 2) = 1%Z /\ nth_defs st' (to_defs (nth_tape st' 2)) = [] /\
  cache_get (st_cache st') returned_key = None /\
  (forall g, msg_of g (st_cache st') = msg_of g (init_cache cfg vals)).
Proof.
  cbv zeta. repeat split.
  - apply cache_get_del_same.
  - intro g. apply msg_of_del_returned.
Qed.

(* (b) the committed script: the result is exactly the continuation of OP_EVAL on it — the script runs from
   offset 0 of a new tape object on the empty stack; the verdict is read from the stack it leaves *)
Theorem scripthash_committed_script f (script h : bytes) n vals :
  0 < List.length script < 256 -> List.length script <= c_max_item_size cfg ->
  List.length h < 256 -> List.length h <= c_max_item_size cfg -> 3 <= c_max_items cfg ->
  no_eval_ban cfg -> (0 < c_limit cfg)%Z ->
  orc PShake256 [script; [n]] = OOk [h] ->
  run_auth_scripts orc cfg (S (S (S (S (S (S f)))))) [sh_witness script; scripthash_lock h n] vals =
    verdict_after (eval_cache cfg) (run_tape orc cfg (S f) 2 0 (sh_eval_state script h n vals)).
Proof.
  intros Ls Fs Lh Fh Hit Hban Hlim Ho.
  assert (Hne : script <> []) by (intro E; subst script; simpl in Ls; lia).
  rewrite (auth_pair orc cfg _ _ _ vals _ _ (sh_witness_runs (S (S (S (S f)))) script vals ltac:(lia) Fs ltac:(lia))).
  lock_state st2.
  assert (Hd : tdata st2 1 = scripthash_lock h n) by reflexivity.
  assert (Hs : st_stack st2 = [script]) by reflexivity.
  rewrite (sh_lock_match f 1 st2 script h n Hd ltac:(simpl; lia) Hs Hne Fs Lh Fh Hit Hban Hlim Ho).
  rewrite verdict_after_eval_last. reflexivity.
Qed.

End ScriptHash.

(* ================= 4. OP_IF_ELSE as the last instruction of a tape ================= *)

(* what propagate_return (the end of OP_IF / OP_IF_ELSE / OP_TRY_EXCEPT) does to the state *)
Definition prop_cache (st : state) : state :=
  match cache_get (st_cache st) returned_key with
  | Some _ => with_cache st (cache_set (st_cache st) returned_key (VOne (ABool true)))
  | None => st
  end.

Lemma stack_prop_cache st : st_stack (prop_cache st) = st_stack st.
Proof. unfold prop_cache. destruct (cache_get _ _); reflexivity. Qed.
Lemma tapes_prop_cache st : st_tapes (prop_cache st) = st_tapes st.
Proof. unfold prop_cache. destruct (cache_get _ _); reflexivity. Qed.
Lemma tdata_prop_cache st t : tdata (prop_cache st) t = tdata st t.
Proof. unfold prop_cache. destruct (cache_get _ _); reflexivity. Qed.
Lemma prop_cache_none st : cache_get (st_cache st) returned_key = None -> prop_cache st = st.
Proof. intro H. unfold prop_cache. rewrite H. reflexivity. Qed.

Definition ifelse_last_outcome (tid ptr : nat) (o : outcome unit) : outcome unit :=
  match o with
  | Done _ _ st' => Done tt {| fr_tid := tid; fr_ptr := ptr |} (prop_cache st')
  | Raised e _ st' => Raised e {| fr_tid := tid; fr_ptr := ptr |} st'
  | OutOfFuel => OutOfFuel
  | Unmodelled w => Unmodelled w
  end.

Section IfElseLast.
Variable orc : oracle.
Variable cfg : config.

Lemma propagate_exec run tid ptr st :
  interp orc cfg run propagate_return {| fr_tid := tid; fr_ptr := ptr |} st =
    Done tt {| fr_tid := tid;
               fr_ptr := match cache_get (st_cache st) returned_key with
                         | Some _ => List.length (tdata st tid)
                         | None => ptr
                         end |} (prop_cache st).
Proof.
  unfold propagate_return, OP_RETURN, act, prop_cache. cbn [bind interp step].
  destruct (cache_get (st_cache st) returned_key); reflexivity.
Qed.

Lemma if_else_last f tid st ptr (pre b1 b2 cond : bytes) s :
  tdata st tid = pre ++ x2c :: ifelse_ops b1 b2 -> ptr = List.length pre ->
  tid < List.length (st_tapes st) ->
  (blen b1 < 65536)%Z -> (blen b2 < 65536)%Z -> st_stack st = cond :: s ->
  run_tape orc cfg (S (S f)) tid ptr st =
    ifelse_last_outcome tid (List.length (pre ++ x2c :: ifelse_ops b1 b2))
      (run_tape orc cfg (S f) (List.length (st_tapes st)) 0
         (sub_start (with_stack st s) tid (if bytes_to_bool cond then b1 else b2))).
Proof.
  intros Hd Hp Hlt H1 H2 Hs.
  rewrite (fetch_at orc cfg (S f) tid st ptr pre x2c _ Hd Hp).
  change (dispatch (N.to_nat (Byte.to_N x2c))) with OP_IF_ELSE.
  assert (Hd1 : tdata st tid = (pre ++ [x2c]) ++ ifelse_ops b1 b2 ++ []).
  { rewrite Hd, app_nil_r, <- app_assoc. reflexivity. }
  rewrite (if_else_exec orc cfg _ tid st (S ptr) (pre ++ [x2c]) b1 b2 [] cond s Hd1
             ltac:(rewrite app_length; simpl; lia) H1 H2 Hs).
  cbv zeta.
  set (st1 := sub_start (with_stack st s) tid (if bytes_to_bool cond then b1 else b2)).
  pose proof (data_kept orc cfg (S f) (List.length (st_tapes st)) 0 st1 tid _ eq_refl) as Hk.
  destruct (run_tape orc cfg (S f) (List.length (st_tapes st)) 0 st1) as [[] fr' st'|e fr' st'| |w];
    cbn [ifelse_last_outcome]; try reflexivity.
  - assert (Hdata : tdata st' tid = pre ++ x2c :: ifelse_ops b1 b2).
    { rewrite Hk.
      - unfold st1. rewrite tdata_sub_old by exact Hlt. exact Hd.
      - unfold st1, sub_start. cbn [st_tapes with_tapes]. rewrite app_length. simpl.
        change (st_tapes (with_stack st s)) with (st_tapes st). lia. }
    rewrite propagate_exec. cbn [fr_ptr].
    assert (Hp' : match cache_get (st_cache st') returned_key with
                  | Some _ => List.length (tdata st' tid)
                  | None => S ptr + List.length (ifelse_ops b1 b2)
                  end = List.length (pre ++ x2c :: ifelse_ops b1 b2)).
    { rewrite Hdata, app_length, Hp. cbn [List.length]. destruct (cache_get _ _); lia. }
    rewrite Hp'.
    apply run_tape_end. rewrite tdata_prop_cache, Hdata. lia.
  - f_equal. f_equal. rewrite app_length, Hp. cbn [List.length]. lia.
Qed.

End IfElseLast.

(* ================= 5. the graftroot lock ================= *)

Section Graft.
Variable orc : oracle.
Variable cfg : config.

(* OP_SWAP 1 2 on a stack of at least three items (index 0 is the top) *)
Lemma swap12_exec run fr st rest a b c s :
  data_at fr st = x01 :: x02 :: rest -> st_stack st = a :: b :: c :: s ->
  interp orc cfg run OP_SWAP fr st = Done tt (fwd fr 2) (with_stack st (a :: c :: b :: s)).
Proof.
  intros Hd Hs. unfold OP_SWAP, read_u8, read, act. cbn [bind].
  rewrite (read1 orc cfg run fr st _ _ _ _ Hd). cbn [bind].
  pose proof (data_at_adv1 _ _ _ _ Hd) as Hd2.
  rewrite (read1 orc cfg run _ st _ _ _ _ Hd2). cbn [bind].
  change (be_to_Z [x01]) with 1%Z. change (be_to_Z [x02]) with 2%Z.
  unfold swap_core. change (1 =? 2)%Z with false. cbv iota. unfold act, sert. cbn [bind].
  rewrite depth_step. rewrite Hs. change (Z.max 1 2) with 2%Z.
  replace (2 <? Z.of_nat (List.length (a :: b :: c :: s)))%Z with true
    by (symmetry; apply Z.ltb_lt; cbn [List.length]; lia).
  cbn [bind].
  rewrite swap_step by (rewrite Hs; cbn [List.length]; simpl; lia).
  rewrite Hs. cbn [interp]. rewrite adv_adv. reflexivity.
Qed.

(* --- the head of the lock: PUSH1 pk ; WRITE_CACHE "k" 1 --- *)

Definition gr_keyed (st : state) (pk : bytes) (stk : list bytes) : state :=
  with_cache (with_stack st stk) (cache_set (st_cache st) (KBytes [x6b]) (VMany [ABytes pk])).

Lemma gr_head f tid st pk fl stk :
  tdata st tid = graftroot_lock pk fl -> st_stack st = stk ->
  List.length pk < 256 -> fits cfg pk -> List.length stk < c_max_items cfg ->
  run_tape orc cfg (S (S f)) tid 0 st =
    run_tape orc cfg f tid (List.length (push1_bytes pk ++ wc_k)) (gr_keyed st pk stk).
Proof.
  intros Hd Hs Lpk Fpk Hsp. rewrite graftroot_lock_bytes in Hd.
  start_tape.
  rewrite (push1_step orc cfg _ tid st [] pk (wc_k ++ x2c :: ifelse_ops surr_arm (key_arm fl)) stk Hd Lpk Hs Fpk Hsp).
  set (st1 := with_stack st (pk :: stk)).
  assert (Hd1 : tdata st1 tid = ([] ++ push1_bytes pk) ++ x09 :: ([x01; x6b; x01] ++ x2c :: ifelse_ops surr_arm (key_arm fl))).
  { unfold st1. rewrite tdata_with_stack, Hd. reflexivity. }
  rewrite (step_done orc cfg f tid st1 _ x09 _
             (fwd {| fr_tid := tid; fr_ptr := S (List.length ([] ++ push1_bytes pk)) |} 3)
             (gr_keyed st pk stk) Hd1).
  - f_equal. unfold fwd. cbn [fr_ptr]. rewrite !app_length. simpl. lia.
  - change (dispatch (N.to_nat (Byte.to_N x09))) with OP_WRITE_CACHE.
    rewrite (write_cache1_exec orc cfg _ _ st1 x6b (x2c :: ifelse_ops surr_arm (key_arm fl)) pk stk
               (data_at_after tid st1 _ x09 _ Hd1) eq_refl).
    reflexivity.
Qed.

Lemma gr_keyed_facts st pk stk tid :
  tdata (gr_keyed st pk stk) tid = tdata st tid /\ st_stack (gr_keyed st pk stk) = stk /\
  st_tapes (gr_keyed st pk stk) = st_tapes st /\
  cache_get (st_cache (gr_keyed st pk stk)) (KBytes [x6b]) = Some (VMany [ABytes pk]) /\
  (forall g, msg_of g (st_cache (gr_keyed st pk stk)) = msg_of g (st_cache st)).
Proof.
  repeat split.
  - apply cache_get_set_same.
  - intro g. apply msg_of_set_bytes.
Qed.

Lemma arms_small fl : (blen surr_arm < 65536)%Z /\ (blen (key_arm fl) < 65536)%Z.
Proof. split; reflexivity. Qed.

(* --- the key arm: READ_CACHE "k" ; CHECK_SIG fl --- *)

Lemma key_arm_run f tid st pk sig fl c0 :
  65 <= c_max_item_size cfg -> 2 <= c_max_items cfg ->
  tdata st tid = key_arm fl -> st_stack st = [sig] ->
  cache_get (st_cache st) (KBytes [x6b]) = Some (VMany [ABytes pk]) ->
  (forall g, msg_of g (st_cache st) = msg_of g c0) ->
  List.length pk = 32 -> (List.length sig = 64 \/ List.length sig = 65) ->
  match run_tape orc cfg (S (S (S f))) tid 0 st with
  | Done _ _ st' => exists v : bool, st' = with_stack (sigext_log cfg st) [boolb v] /\
                                     (v = true <-> sig_accepts orc cfg pk sig (b2z fl) c0)
  | Raised _ _ _ => ~ sig_accepts orc cfg pk sig (b2z fl) c0
  | OutOfFuel => False
  | Unmodelled _ => bad_arity orc pk sig c0
  end.
Proof.
  intros Hsize Hitems Hd Hst Hk Hmsg Lpk Lsig.
  (* READ_CACHE k *)
  erewrite run_tape_step; [|exact Hd|reflexivity|].
  2:{ intro Hda. change (dispatch _) with OP_READ_CACHE.
      eapply read_cache1_exec; [exact Hda|exact Hk|exact Hst|unfold fits; lia|unfold space; simpl; lia]. }
  unfold fwd. cbn [fr_ptr fr_tid Nat.add].
  set (st1 := with_stack st [pk; sig]).
  assert (Hd1 : tdata st1 tid = key_arm fl) by exact Hd.
  (* CHECK_SIG fl *)
  erewrite run_tape_fetch_at; [|exact Hd1|reflexivity].
  change (dispatch _) with OP_CHECK_SIG.
  assert (Hda : data_at {| fr_tid := tid; fr_ptr := 4 |} st1 = [fl])
    by exact (data_at_next tid 3 st1 _ x23 [fl] Hd1 eq_refl).
  rewrite (check_sig_decomposed orc cfg _ _ st1 fl [] Hda).
  rewrite (check_sig_body_exact orc cfg _ (b2z fl) _ (sigext_log cfg st1) pk sig []) by reflexivity.
  cbv zeta. unfold blen. rewrite Lpk. change (Z.of_nat 32 =? 32)%Z with true. cbn [negb].
  assert (Hs2 : ((Z.of_nat (List.length sig) =? 64) || (Z.of_nat (List.length sig) =? 65))%Z = true).
  { destruct Lsig as [->| ->]; reflexivity. }
  rewrite Hs2. cbn [negb].
  change (st_cache (sigext_log cfg st1)) with (st_cache st). rewrite Hmsg.
  unfold sig_accepts, bad_arity.
  destruct (flags_permitted (sig_flag sig) (b2z fl)) eqn:Ef; cbn [negb].
  2:{ intros [H _]. discriminate. }
  destruct (msg_of (sig_flag sig) c0) as [m|] eqn:Em.
  2:{ intros (_ & m & x & H & _). discriminate. }
  cbn [List.length].
  replace (c_max_items cfg <=? 0) with false by (symmetry; apply Nat.leb_gt; lia).
  rewrite orb_false_r.
  destruct (c_max_item_size cfg <? List.length m) eqn:El.
  { apply Nat.ltb_lt in El. intros (_ & m' & x & H & Hlen & _). injection H as <-. lia. }
  apply Nat.ltb_ge in El.
  destruct (orc PVerify [pk; m; firstn 64 sig]) as [[|x [|y l]]|err] eqn:Eo.
  - exists m, []. split; [reflexivity|]. split; [exact Eo|]. simpl. lia.
  - replace (c_max_item_size cfg <? 1) with false by (symmetry; apply Nat.ltb_ge; lia).
    rewrite run_tape_end.
    2:{ match goal with |- List.length (tdata ?s tid) <= _ => change (tdata s tid) with (tdata st1 tid) end.
        rewrite Hd1. unfold adv. cbn [fr_ptr]. simpl. lia. }
    exists (bytes_to_bool x). split; [reflexivity|]. split.
    + intro Hb. split; [reflexivity|]. exists m, x.
      split; [reflexivity|]. split; [exact El|]. split; [exact Eo|exact Hb].
    + intros (_ & m' & x' & H1 & _ & H2 & H3).
      injection H1 as <-. rewrite Eo in H2. injection H2 as <-. exact H3.
  - exists m, (x :: y :: l). split; [reflexivity|]. split; [exact Eo|]. simpl. lia.
  - intros (_ & m' & x & H1 & _ & H2 & _). injection H1 as <-. rewrite Eo in H2. discriminate.
Qed.

(* the lock on the stack [ [x00]; sig ] *)
Lemma graftroot_key_run f tid st pk sig fl c0 :
  65 <= c_max_item_size cfg -> 3 <= c_max_items cfg ->
  tdata st tid = graftroot_lock pk fl -> tid < List.length (st_tapes st) ->
  st_stack st = [[x00]; sig] ->
  (forall g, msg_of g (st_cache st) = msg_of g c0) ->
  List.length pk = 32 -> (List.length sig = 64 \/ List.length sig = 65) ->
  match run_tape orc cfg (S (S (S (S (S (S f)))))) tid 0 st with
  | Done _ _ st' => exists v : bool, st_stack st' = [boolb v] /\
                                     (v = true <-> sig_accepts orc cfg pk sig (b2z fl) c0)
  | Raised _ _ _ => ~ sig_accepts orc cfg pk sig (b2z fl) c0
  | OutOfFuel => False
  | Unmodelled _ => bad_arity orc pk sig c0
  end.
Proof.
  intros Hsize Hitems Hd Hlt Hst Hmsg Lpk Lsig.
  rewrite (gr_head _ tid st pk fl [[x00]; sig] Hd Hst) by (unfold fits; simpl; lia).
  destruct (gr_keyed_facts st pk [[x00]; sig] tid) as (Kd & Ks & Kt & Kk & Km).
  set (st1 := gr_keyed st pk [[x00]; sig]) in *.
  destruct (arms_small fl) as [S1 S2].
  rewrite (if_else_last orc cfg (S (S f)) tid st1 _ (push1_bytes pk ++ wc_k) surr_arm (key_arm fl) [x00] [sig]);
    [|rewrite Kd, Hd, graftroot_lock_bytes, <- app_assoc; reflexivity|reflexivity|rewrite Kt; exact Hlt
     |exact S1|exact S2|exact Ks].
  change (bytes_to_bool [x00]) with false. cbv iota.
  set (st2 := sub_start (with_stack st1 [sig]) tid (key_arm fl)).
  pose proof (key_arm_run f (List.length (st_tapes st1)) st2 pk sig fl c0 Hsize ltac:(lia)
                (tdata_sub_new (with_stack st1 [sig]) tid (key_arm fl)) eq_refl Kk
                (fun g => eq_trans (Km g) (Hmsg g)) Lpk Lsig) as T.
  destruct (run_tape orc cfg (S (S (S f))) (List.length (st_tapes st1)) 0 st2) as [[] fr' st'|e fr' st'| |w];
    cbn [ifelse_last_outcome]; try exact T.
  destruct T as (v & -> & Hv). exists v. split; [|exact Hv].
  rewrite stack_prop_cache. reflexivity.
Qed.

(* --- the surrogate arm: DUP ; SWAP 1 2 ; READ_CACHE "k" ; CHECK_SIG_STACK ; VERIFY ; EVAL --- *)

Lemma surr_arm_run f tid st pk ssig surrogate :
  65 <= c_max_item_size cfg -> 4 <= c_max_items cfg ->
  tdata st tid = surr_arm -> tid < List.length (st_tapes st) -> st_stack st = [surrogate; ssig] ->
  cache_get (st_cache st) (KBytes [x6b]) = Some (VMany [ABytes pk]) ->
  List.length pk = 32 -> List.length ssig = 64 -> surrogate <> [] -> fits cfg surrogate ->
  no_eval_ban cfg -> (to_count (nth_tape st tid) < c_limit cfg)%Z ->
  run_tape orc cfg (S (S (S (S (S (S (S f))))))) tid 0 st =
    if css_verdict orc pk surrogate ssig
    then eval_last_outcome cfg tid 10
           (run_tape orc cfg (S f) (List.length (st_tapes st)) 0 (eval_start (with_stack st []) tid surrogate))
    else Raised ScriptExecutionError {| fr_tid := tid; fr_ptr := 9 |} (with_stack st [surrogate]).
Proof.
  intros Hsize Hitems Hd Hlt Hst Hk Lpk Lss Hne Fs Hban Hcnt.
  (* DUP *)
  erewrite run_tape_step; [|exact Hd|reflexivity|].
  2:{ intros _. change (dispatch _) with OP_DUP. eapply dup_exec; [exact Hst|exact Fs|simpl; lia]. }
  cbn [fr_ptr].
  (* SWAP 1 2 *)
  erewrite run_tape_step; [|exact Hd|reflexivity|].
  2:{ intro Hda. change (dispatch _) with OP_SWAP. eapply swap12_exec; [exact Hda|reflexivity]. }
  unfold fwd. cbn [fr_ptr fr_tid Nat.add].
  (* READ_CACHE k *)
  erewrite run_tape_step; [|exact Hd|reflexivity|].
  2:{ intro Hda. change (dispatch _) with OP_READ_CACHE.
      eapply read_cache1_exec; [exact Hda|exact Hk|reflexivity|unfold fits; lia|unfold space; simpl; lia]. }
  unfold fwd. cbn [fr_ptr fr_tid Nat.add].
  (* CHECK_SIG_STACK *)
  erewrite run_tape_step; [|exact Hd|reflexivity|].
  2:{ intros _. change (dispatch _) with OP_CHECK_SIG_STACK.
      eapply check_sig_stack_exec; [reflexivity|exact Lpk|exact Lss|split; simpl; lia]. }
  cbn [fr_ptr].
  (* VERIFY *)
  erewrite run_tape_fetch_at; [|exact Hd|reflexivity].
  change (dispatch _) with OP_VERIFY.
  erewrite verify_exec by reflexivity. rewrite bytes_to_bool_boolb.
  destruct (css_verdict orc pk surrogate ssig); [|reflexivity].
  cbn [fr_ptr].
  (* EVAL *)
  rewrite (eval_last orc cfg f tid _ 9 [x1d; x34; x01; x02; x0a; x01; x6b; x4a; x20] surrogate []);
    try assumption; reflexivity.
Qed.

(* the lock on the stack [ [xff]; surrogate; ssig ] *)
Definition gr_surr_start (st : state) (tid : nat) (pk ssig surrogate : bytes) : state :=
  eval_start (with_stack (sub_start (with_stack (gr_keyed st pk [[xff]; surrogate; ssig]) [surrogate; ssig]) tid surr_arm) [])
             (List.length (st_tapes st)) surrogate.

Lemma graftroot_surr_run f tid st pk fl ssig surrogate :
  65 <= c_max_item_size cfg -> 4 <= c_max_items cfg ->
  tdata st tid = graftroot_lock pk fl -> tid < List.length (st_tapes st) ->
  st_stack st = [[xff]; surrogate; ssig] ->
  List.length pk = 32 -> List.length ssig = 64 -> surrogate <> [] -> fits cfg surrogate ->
  no_eval_ban cfg -> (to_count (nth_tape st tid) < c_limit cfg)%Z ->
  run_tape orc cfg (S (S (S (S (S (S (S (S (S (S f)))))))))) tid 0 st =
    if css_verdict orc pk surrogate ssig
    then ifelse_last_outcome tid (List.length (graftroot_lock pk fl))
           (eval_last_outcome cfg (List.length (st_tapes st)) 10
              (run_tape orc cfg (S f) (S (List.length (st_tapes st))) 0 (gr_surr_start st tid pk ssig surrogate)))
    else Raised ScriptExecutionError {| fr_tid := tid; fr_ptr := List.length (graftroot_lock pk fl) |}
           (with_stack (sub_start (with_stack (gr_keyed st pk [[xff]; surrogate; ssig]) [surrogate; ssig]) tid surr_arm)
                       [surrogate]).
Proof.
  intros Hsize Hitems Hd Hlt Hst Lpk Lss Hne Fs Hban Hcnt.
  rewrite (gr_head _ tid st pk fl [[xff]; surrogate; ssig] Hd Hst) by (unfold fits; simpl; lia).
  destruct (gr_keyed_facts st pk [[xff]; surrogate; ssig] tid) as (Kd & Ks & Kt & Kk & _).
  unfold gr_surr_start.
  set (st1 := gr_keyed st pk [[xff]; surrogate; ssig]) in *.
  destruct (arms_small fl) as [S1 S2].
  assert (Hlen : List.length ((push1_bytes pk ++ wc_k) ++ x2c :: ifelse_ops surr_arm (key_arm fl))
                 = List.length (graftroot_lock pk fl)).
  { rewrite graftroot_lock_bytes, <- app_assoc. reflexivity. }
  rewrite (if_else_last orc cfg (S (S (S (S (S (S f)))))) tid st1 _ (push1_bytes pk ++ wc_k) surr_arm (key_arm fl)
             [xff] [surrogate; ssig]);
    [|rewrite Kd, Hd, graftroot_lock_bytes, <- app_assoc; reflexivity|reflexivity|rewrite Kt; exact Hlt
     |exact S1|exact S2|exact Ks].
  change (bytes_to_bool [xff]) with true. cbv iota. rewrite Hlen, Kt.
  set (st2 := sub_start (with_stack st1 [surrogate; ssig]) tid surr_arm).
  rewrite (surr_arm_run f (List.length (st_tapes st)) st2 pk ssig surrogate Hsize Hitems).
  - destruct (css_verdict orc pk surrogate ssig); [|reflexivity].
    f_equal. f_equal. f_equal.
    unfold st2, sub_start. cbn [st_tapes with_tapes with_stack]. rewrite Kt, app_length. simpl. lia.
  - rewrite <- Kt. exact (tdata_sub_new (with_stack st1 [surrogate; ssig]) tid surr_arm).
  - unfold st2, sub_start. cbn [st_tapes with_tapes with_stack]. rewrite Kt, app_length. simpl. lia.
  - reflexivity.
  - exact Kk.
  - exact Lpk.
  - exact Lss.
  - exact Hne.
  - exact Fs.
  - exact Hban.
  - unfold st2, sub_start, nth_tape. cbn [st_tapes with_tapes with_stack]. rewrite Kt.
    rewrite app_nth2 by lia. rewrite Nat.sub_diag. cbn [nth to_count]. exact Hcnt.
Qed.

End Graft.

(* ================= 6. the graftroot theorems ================= *)

Section GraftTheorems.
Variable orc : oracle.
Variable cfg : config.

Lemma verdict_after_ifelse_eval tid p tid' p' o :
  verdict_after (fun s => s) (ifelse_last_outcome tid p (eval_last_outcome cfg tid' p' o)) =
    verdict_after (fun s => prop_cache (eval_cache cfg s)) o.
Proof.
  destruct o as [[] fr' st'|e fr' st'| |w']; try reflexivity.
  cbn [eval_last_outcome ifelse_last_outcome verdict_after].
  rewrite stack_prop_cache, stack_eval_cache. reflexivity.
Qed.

(* (a) key path: witness PUSH1 sig ; FALSE.  Same right-hand side as the single-signature lock: the key
   written into the cache under the bytes key "k" is not part of any signed message *)
Theorem graftroot_key_exact f (pk sig : bytes) fl vals :
  65 <= c_max_item_size cfg -> 3 <= c_max_items cfg ->
  List.length pk = 32 -> (List.length sig = 64 \/ List.length sig = 65) ->
  match run_auth_scripts orc cfg (S (S (S (S (S (S f))))))
          [graftroot_key_witness sig; graftroot_lock pk fl] vals with
  | AuthVerdict b _ => b = true <-> sig_accepts orc cfg pk sig (b2z fl) (init_cache cfg vals)
  | AuthFuel => False
  | AuthUnmod _ => exists m l, msg_of (sig_flag sig) (init_cache cfg vals) = Some m /\
                               orc PVerify [pk; m; firstn 64 sig] = OOk l /\ List.length l <> 1
  end.
Proof.
  intros Hsize Hitems Lpk Lsig.
  rewrite graftroot_key_witness_bytes.
  change (S (S (S (S (S (S f)))))) with (List.length [sig] + S (S (S (S (S f))))).
  rewrite (auth_pair orc cfg _ _ _ vals _ _
             (flagged_witness_runs orc cfg (S (S (S f))) [sig] x00 x00 vals eq_refl
                ltac:(intros x [<-|[]]; unfold fits; lia) ltac:(simpl; lia) ltac:(lia))).
  lock_state st2.
  assert (Hd : tdata st2 1 = graftroot_lock pk fl) by reflexivity.
  assert (Hs : st_stack st2 = [[x00]; sig]) by reflexivity.
  assert (Hmsg : forall g, msg_of g (st_cache st2) = msg_of g (init_cache cfg vals)).
  { intro g. change (st_cache st2) with (cache_del (init_cache cfg vals) returned_key).
    apply msg_of_del_returned. }
  pose proof (graftroot_key_run orc cfg f 1 st2 pk sig fl (init_cache cfg vals) Hsize Hitems Hd
                ltac:(simpl; lia) Hs Hmsg Lpk Lsig) as T.
  change (List.length [sig] + S (S (S (S (S f))))) with (S (S (S (S (S (S f)))))).
  destruct (run_tape orc cfg (S (S (S (S (S (S f)))))) 1 0 st2) as [[] fr' st'|e fr' st'| |w];
    cbn [verdict_after].
  - destruct T as (v & Hv & Hiff). rewrite Hv.
    replace (bytes_eqb (boolb v) [xff]) with v by (destruct v; reflexivity). exact Hiff.
  - split; [discriminate|]. intro Ha. contradiction.
  - exact T.
  - exact T.
Qed.

(* the tape objects of the two scripts, and the one of the arm chosen by OP_IF_ELSE *)
Definition gr_tapes (w : bytes) (pk : bytes) (fl : byte) (arm : bytes) : list tapeobj :=
  [{| to_data := w; to_count := 0; to_defs := 0 |};
   {| to_data := graftroot_lock pk fl; to_count := 0; to_defs := 0 |};
   {| to_data := arm; to_count := 0; to_defs := 1 |}].

(* the state in which the surrogate script starts: tape object 3 (call count 1, its own copy of the
   definitions), the EMPTY stack (ssig and both copies of the surrogate have been consumed), the cache of
   the lock with the key under "k" *)
Definition gr_eval_state (pk : bytes) (fl : byte) (ssig surrogate : bytes) (vals : cache) : state :=
  {| st_stack := [];
     st_cache := cache_set (cache_del (init_cache cfg vals) returned_key) (KBytes [x6b]) (VMany [ABytes pk]);
     st_tapes := gr_tapes (graftroot_surrogate_witness ssig surrogate) pk fl surr_arm ++
                 [{| to_data := surrogate; to_count := 1; to_defs := 2 |}];
     st_defs := [[]; []; []];
     st_log := [];
     st_rand := 0 |}.

Lemma gr_eval_state_facts pk fl ssig surrogate vals :
  let st' := gr_eval_state pk fl ssig surrogate vals in
  tdata st' 3 = surrogate /\ st_stack st' = [] /\ List.length (st_tapes st') = 4 /\
  to_count (nth_tape st' 3) = 1%Z /\ nth_defs st' (to_defs (nth_tape st' 3)) = [] /\
  cache_get (st_cache st') returned_key = None /\
  cache_get (st_cache st') (KBytes [x6b]) = Some (VMany [ABytes pk]) /\
  (forall g, msg_of g (st_cache st') = msg_of g (init_cache cfg vals)).
Proof.
  cbv zeta. repeat split.
  - cbn [gr_eval_state st_cache]. rewrite cache_get_set_other by reflexivity. apply cache_get_del_same.
  - apply cache_get_set_same.
  - intro g. cbn [gr_eval_state st_cache]. rewrite msg_of_set_bytes. apply msg_of_del_returned.
Qed.

Definition surrogate_verifies (pk surrogate ssig : bytes) : Prop :=
  exists x, orc PVerify [pk; surrogate; ssig] = OOk [x] /\ bytes_to_bool x = true.

Lemma surrogate_witness_runs f ssig surrogate vals :
  65 <= c_max_item_size cfg -> 3 <= c_max_items cfg ->
  List.length ssig = 64 -> List.length surrogate < 256 -> List.length surrogate <= c_max_item_size cfg ->
  run_script orc cfg (List.length [ssig; surrogate] + S (S f))
    (pushes_bytes [ssig; surrogate] ++ [x01]) vals =
    Done tt {| fr_tid := 0; fr_ptr := S (List.length (pushes_bytes [ssig; surrogate])) |}
         (with_stack (init_state cfg (pushes_bytes [ssig; surrogate] ++ [x01]) vals)
                     [[xff]; surrogate; ssig]).
Proof.
  intros Hsize Hitems Lss Ls Fs.
  apply (flagged_witness_runs orc cfg f [ssig; surrogate] x01 xff vals eq_refl).
  - intros x [<-|[<-|[]]]; unfold fits; lia.
  - simpl. lia.
  - lia.
Qed.

(* (b) surrogate path, the oracle verifies (pk, surrogate, ssig): the result is exactly the continuation of
   OP_EVAL on the surrogate script, then the flag handling of OP_EVAL and of the enclosing OP_IF_ELSE *)
Theorem graftroot_surrogate_runs f (pk ssig surrogate : bytes) fl vals :
  65 <= c_max_item_size cfg -> 4 <= c_max_items cfg ->
  List.length pk = 32 -> List.length ssig = 64 ->
  0 < List.length surrogate < 256 -> List.length surrogate <= c_max_item_size cfg ->
  no_eval_ban cfg -> (0 < c_limit cfg)%Z ->
  surrogate_verifies pk surrogate ssig ->
  run_auth_scripts orc cfg (S (S (S (S (S (S (S (S (S (S f))))))))))
    [graftroot_surrogate_witness ssig surrogate; graftroot_lock pk fl] vals =
    verdict_after (fun s => prop_cache (eval_cache cfg s))
      (run_tape orc cfg (S f) 3 0 (gr_eval_state pk fl ssig surrogate vals)).
Proof.
  intros Hsize Hitems Lpk Lss Ls Fs Hban Hlim Hver.
  assert (Hne : surrogate <> []) by (intro E; subst surrogate; simpl in Ls; lia).
  apply css_verdict_true in Hver.
  unfold gr_eval_state, gr_tapes. rewrite graftroot_surrogate_witness_bytes.
  change (S (S (S (S (S (S (S (S (S (S f))))))))))
    with (List.length [ssig; surrogate] + S (S (S (S (S (S (S (S f)))))))).
  rewrite (auth_pair orc cfg _ _ _ vals _ _
             (surrogate_witness_runs (S (S (S (S (S (S f)))))) ssig surrogate vals Hsize ltac:(lia) Lss
                ltac:(lia) Fs)).
  lock_state st2.
  assert (Hd : tdata st2 1 = graftroot_lock pk fl) by reflexivity.
  assert (Hs : st_stack st2 = [[xff]; surrogate; ssig]) by reflexivity.
  change (List.length [ssig; surrogate] + S (S (S (S (S (S (S (S f))))))))
    with (S (S (S (S (S (S (S (S (S (S f)))))))))).
  rewrite (graftroot_surr_run orc cfg f 1 st2 pk fl ssig surrogate Hsize Hitems Hd ltac:(simpl; lia) Hs
             Lpk Lss Hne Fs Hban Hlim).
  rewrite Hver. rewrite verdict_after_ifelse_eval. reflexivity.
Qed.

(* (c) surrogate path, the oracle does not verify: verdict False; the only sub-tape is the arm of the
   OP_IF_ELSE — the surrogate script never starts; the log is empty *)
Theorem graftroot_surrogate_rejected f (pk ssig surrogate : bytes) fl vals :
  65 <= c_max_item_size cfg -> 4 <= c_max_items cfg ->
  List.length pk = 32 -> List.length ssig = 64 ->
  0 < List.length surrogate < 256 -> List.length surrogate <= c_max_item_size cfg ->
  no_eval_ban cfg -> (0 < c_limit cfg)%Z ->
  ~ surrogate_verifies pk surrogate ssig ->
  exists st,
    run_auth_scripts orc cfg (S (S (S (S (S (S (S (S (S (S f))))))))))
      [graftroot_surrogate_witness ssig surrogate; graftroot_lock pk fl] vals = AuthVerdict false st /\
    st_tapes st = gr_tapes (graftroot_surrogate_witness ssig surrogate) pk fl surr_arm /\
    st_log st = [].
Proof.
  intros Hsize Hitems Lpk Lss Ls Fs Hban Hlim Hver.
  assert (Hne : surrogate <> []) by (intro E; subst surrogate; simpl in Ls; lia).
  assert (Hv : css_verdict orc pk surrogate ssig = false).
  { destruct (css_verdict orc pk surrogate ssig) eqn:E; [|reflexivity].
    apply css_verdict_true in E. contradiction. }
  unfold gr_tapes. rewrite graftroot_surrogate_witness_bytes.
  change (S (S (S (S (S (S (S (S (S (S f))))))))))
    with (List.length [ssig; surrogate] + S (S (S (S (S (S (S (S f)))))))).
  rewrite (auth_pair orc cfg _ _ _ vals _ _
             (surrogate_witness_runs (S (S (S (S (S (S f)))))) ssig surrogate vals Hsize ltac:(lia) Lss
                ltac:(lia) Fs)).
  lock_state st2.
  assert (Hd : tdata st2 1 = graftroot_lock pk fl) by reflexivity.
  assert (Hs : st_stack st2 = [[xff]; surrogate; ssig]) by reflexivity.
  change (List.length [ssig; surrogate] + S (S (S (S (S (S (S (S f))))))))
    with (S (S (S (S (S (S (S (S (S (S f)))))))))).
  rewrite (graftroot_surr_run orc cfg f 1 st2 pk fl ssig surrogate Hsize Hitems Hd ltac:(simpl; lia) Hs
             Lpk Lss Hne Fs Hban Hlim).
  rewrite Hv. cbn [verdict_after].
  eexists. split; [reflexivity|]. split; reflexivity.
Qed.

End GraftTheorems.

(* ================= 7. the premises are satisfiable ================= *)

(* toy oracle of BuilderSpecC13: PShake256 answers 20 bytes x07, PVerify answers [x01]; default configuration *)
Definition h_toy : bytes := repeat x07 20.

Lemma toy_premises :
  no_eval_ban toy_cfg /\ (0 < c_limit toy_cfg)%Z /\ 65 <= c_max_item_size toy_cfg /\ 4 <= c_max_items toy_cfg /\
  toy PShake256 [[x01]; [x14]] = OOk [h_toy].
Proof. vm_compute. repeat split; try reflexivity; try discriminate; repeat constructor. Qed.

(* (1) with d = h and the committed script [x01] (OP_TRUE): the theorem applies, and the verdict is True *)
Example scripthash_example :
  run_auth_scripts toy toy_cfg 7 [sh_witness [x01]; scripthash_lock h_toy x14] [] =
    verdict_after (eval_cache toy_cfg) (run_tape toy toy_cfg 2 2 0 (sh_eval_state toy_cfg [x01] h_toy x14 [])) /\
  verdict_of (run_auth_scripts toy toy_cfg 7 [sh_witness [x01]; scripthash_lock h_toy x14] []) = Some true.
Proof.
  split.
  - apply (scripthash_committed_script toy toy_cfg 1 [x01] h_toy x14 []); try (vm_compute; lia);
      try (vm_compute; reflexivity).
  - vm_compute. reflexivity.
Qed.

(* (1) a script with another hash (the toy oracle answers h_toy, the lock commits to 20 bytes x08) *)
Example scripthash_example_wrong :
  verdict_of (run_auth_scripts toy toy_cfg 7 [sh_witness [x01]; scripthash_lock (repeat x08 20) x14] []) = Some false.
Proof. vm_compute. reflexivity. Qed.

(* (2) both paths of the graftroot lock, the surrogate script being [x01] (OP_TRUE) *)
Example graftroot_examples :
  verdict_of (run_auth_scripts toy toy_cfg 7
                [graftroot_key_witness (repeat x05 64); graftroot_lock (repeat x06 32) x00] []) = Some true /\
  verdict_of (run_auth_scripts toy toy_cfg 11
                [graftroot_surrogate_witness (repeat x05 64) [x01]; graftroot_lock (repeat x06 32) x00] [])
    = Some true /\
  run_auth_scripts toy toy_cfg 11
    [graftroot_surrogate_witness (repeat x05 64) [x01]; graftroot_lock (repeat x06 32) x00] [] =
    verdict_after (fun s => prop_cache (eval_cache toy_cfg s))
      (run_tape toy toy_cfg 2 3 0 (gr_eval_state toy_cfg (repeat x06 32) x00 (repeat x05 64) [x01] [])).
Proof.
  split; [vm_compute; reflexivity|]. split; [vm_compute; reflexivity|].
  apply (graftroot_surrogate_runs toy toy_cfg 1 (repeat x06 32) (repeat x05 64) [x01] x00 []);
    try (vm_compute; lia); try (vm_compute; reflexivity).
  exists [x01]. split; reflexivity.
Qed.

Print Assumptions eval_exec.
Print Assumptions eval_last.
Print Assumptions if_else_last.
Print Assumptions scripthash_wrong_script.
Print Assumptions scripthash_committed_script.
Print Assumptions graftroot_key_exact.
Print Assumptions graftroot_surrogate_runs.
Print Assumptions graftroot_surrogate_rejected.
Print Assumptions scripthash_example.
Print Assumptions graftroot_examples.
