(* C05: in WHAT exactly the two start states of the committed script differ (script path of the non-native taproot lock
   against the native OP_TAPROOT lock).  TaprootNonNative.script_path_pair: on the script path the non-native lock runs the
   committed script as sub-tape tid + 3 from sN := nn_eval_state cfg s0N tid root key script rest point, the native lock
   runs it as sub-tape tid + 1 from sT := native_eval_state s0T tid script rest, where s0N / s0T are the states in which
   the two locks start (next_start st1 0 lock) and tid = length (st_tapes st1).
   Here: the two start states are compared field by field, as equations.
   - same code, stack, log, random counter                          (same_code_stack_log_rand)
   - cache: st_cache sT = st_cache st1 minus the control flag; st_cache sN = st_cache sT, with the tweak point stored
     under the bytes key "X" when flag 2 is on                      (cache_exact and its corollaries)
   - call count: one more under the non-native lock                 (count_exact)
   - definitions: handle 0 bound to the tape [PUSH1 root] (tape tid + 1) under the non-native lock, every other
     handle as the witness left it under both                       (defs_exact)
   - footprints_exact bundles them; footprints_exact_witness: the same after ANY witness script (run_script).
   The only side condition (used for the definitions only): the definition table of the witness tape exists,
   to_defs (nth_tape st1 prev) < length (st_defs st1), which witness_defs_ok provides after every first script. *)
From Coq Require Import ZArith List Bool Lia.
From Coq.Strings Require Import Byte String.
From TS Require Import Bytes Codec State Prog Ops Interp StateLemmas InterpLemmas NopSpec StackLemmas
  BytesLemmas TapeLemmas SigSpec ConfigSpec AuthSpec TimeSpec Asm Builders BuilderSpec TapeSteps
  BuilderSpecC15 TaprootSpec Closure Pointer TaprootNonNative.
Import ListNotations.
Local Open Scope nat_scope.

(* ---------- small facts ---------- *)

Lemma defs_get_put_other d h h' t : h' <> h -> defs_get (defs_put d h t) h' = defs_get d h'.
Proof.
  intro Hne.
  assert (Hf : Byte.eqb h h' = false).
  { destruct (Byte.eqb h h') eqn:E; [|reflexivity]. apply byte_eqb_eq in E. congruence. }
  induction d as [|[a ta] r IH]; cbn [defs_put defs_get].
  - rewrite Hf. reflexivity.
  - destruct (Byte.eqb a h) eqn:E; cbn [defs_get].
    + apply byte_eqb_eq in E. subst a. rewrite Hf. reflexivity.
    + destruct (Byte.eqb a h'); [reflexivity|exact IH].
Qed.

Lemma ckey_neq_eqb (a k : ckey) : k <> a -> ckey_eqb a k = false.
Proof.
  intro H. destruct (ckey_eqb a k) eqn:E; [|reflexivity]. apply ckey_eqb_eq in E. congruence.
Qed.

Definition xkey : ckey := KBytes (str "X").

Lemma xkey_not_returned : ckey_eqb xkey returned_key = false.
Proof. reflexivity. Qed.

(* deleting the control flag from a cache that does not hold it, after storing under X: nothing happens *)
Lemma del_returned_after_setX c v :
  cache_del (cache_set (cache_del c returned_key) xkey v) returned_key = cache_set (cache_del c returned_key) xkey v.
Proof.
  apply cache_del_absent. rewrite cache_get_set_other by exact xkey_not_returned. apply cache_get_del_same.
Qed.

Lemma next_start_tapes_len st0 prev lock :
  List.length (st_tapes (snd (next_start st0 prev lock))) = List.length (st_tapes st0) + 1.
Proof. unfold next_start. cbn [snd st_tapes with_cache with_tapes]. rewrite app_length. reflexivity. Qed.

(* ---------- the native start state, field by field (no side condition; any lock bytes) ---------- *)

Lemma native_start_exact st0 prev lock script rest :
  let tid := List.length (st_tapes st0) in
  let sT := native_eval_state (snd (next_start st0 prev lock)) tid script rest in
  nth_tape sT (tid + 1) =
    {| to_data := script; to_count := (to_count (nth_tape st0 prev) + 1)%Z; to_defs := List.length (st_defs st0) |} /\
  nth_defs sT (List.length (st_defs st0)) = nth_defs st0 (to_defs (nth_tape st0 prev)) /\
  st_stack sT = rest /\ st_cache sT = cache_del (st_cache st0) returned_key /\
  st_log sT = st_log st0 /\ st_rand sT = st_rand st0.
Proof.
  intros tid sT.
  destruct (start_facts st0 prev lock) as (S1 & S2 & S3 & S4 & S5 & S6 & S7 & S8 & S9).
  pose proof (next_start_tapes_len st0 prev lock) as Hlen.
  set (st := snd (next_start st0 prev lock)) in *.
  rewrite S9 in *. fold tid in S1, S2, S4, S5, Hlen.
  split.
  { unfold sT, native_eval_state, nth_tape, eval_start. cbn [st_tapes with_tapes with_defs with_stack].
    rewrite app_nth2 by lia. rewrite Hlen, Nat.sub_diag. cbn [nth].
    change (nth_tape (with_stack st rest) tid) with (nth_tape st tid). rewrite S4.
    change (st_defs (with_stack st rest)) with (st_defs st). rewrite S6. reflexivity. }
  split.
  { unfold nth_defs, sT, native_eval_state, eval_start. cbn [st_defs with_tapes with_defs with_stack].
    rewrite <- S6. rewrite app_nth2 by lia. rewrite Nat.sub_diag. cbn [nth].
    change (nth_defs st (to_defs (nth_tape st tid)) = nth (to_defs (nth_tape st0 prev)) (st_defs st) []).
    unfold nth_defs. rewrite S5. reflexivity. }
  repeat split; reflexivity.
Qed.

(* ---------- the non-native start state, field by field ---------- *)
Section NonNative.
Variable cfg : config.

(* everything but the definition table: no side condition; any lock bytes *)
Lemma nonnative_start_exact st0 prev lock root key script rest point :
  let tid := List.length (st_tapes st0) in
  let sN := nn_eval_state cfg (snd (next_start st0 prev lock)) tid root key script rest point in
  nth_tape sN (tid + 3) =
    {| to_data := script; to_count := (to_count (nth_tape st0 prev) + 1 + 1)%Z;
       to_defs := List.length (st_defs st0) + 1 |} /\
  to_data (nth_tape sN (tid + 1)) = push1_bytes root /\
  st_stack sN = rest /\
  st_cache sN = (if flagon cfg 2
                 then cache_set (cache_del (st_cache st0) returned_key) xkey (VOne (ABytes point))
                 else cache_del (st_cache st0) returned_key) /\
  st_log sN = st_log st0 /\ st_rand sN = st_rand st0.
Proof.
  intros tid sN.
  destruct (start_facts st0 prev lock) as (S1 & S2 & S3 & S4 & S5 & S6 & S7 & S8 & S9).
  pose proof (next_start_tapes_len st0 prev lock) as Hlen.
  set (st := snd (next_start st0 prev lock)) in *.
  rewrite S9 in *. fold tid in S1, S2, S4, S5, Hlen.
  unfold sN, nn_eval_state. cbv zeta.
  set (s1 := def_state st tid x00 (push1_bytes root)).
  set (A := List.length (st_tapes s1)).
  set (T := List.length (st_tapes st)).
  set (sA := sub_start (with_stack s1 (key :: script :: rest)) tid sarm).
  set (c := to_count (nth_tape st tid)).
  set (sX := xstate cfg sA point).
  set (sC := after_call sX A T c).
  assert (HT : T = tid + 1) by exact Hlen.
  assert (HA : A = tid + 2).
  { unfold A, s1, def_state. cbn [st_tapes with_tapes with_defs]. rewrite app_length. fold T. simpl. lia. }
  assert (HlenA : List.length (st_tapes sA) = tid + 3).
  { unfold sA, sub_start. cbn [st_tapes with_tapes with_defs with_stack]. rewrite app_length. fold A. simpl. lia. }
  assert (Hn1 : nth_tape s1 tid = nth_tape st tid).
  { unfold nth_tape, s1, def_state. cbn [st_tapes with_tapes with_defs]. apply app_nth1. exact S2. }
  assert (Hd1 : List.length (st_defs s1) = List.length (st_defs st0)).
  { unfold s1, def_state. cbn [st_defs with_tapes with_defs]. rewrite list_set_length. rewrite S6. reflexivity. }
  assert (HnA : nth_tape sA A = {| to_data := sarm; to_count := c; to_defs := List.length (st_defs st0) |}).
  { unfold nth_tape, sA, sub_start. cbn [st_tapes with_tapes with_defs with_stack].
    rewrite app_nth2 by (unfold A; lia). unfold A. rewrite Nat.sub_diag. cbn [nth].
    change (nth_tape (with_stack s1 (key :: script :: rest)) tid) with (nth_tape s1 tid).
    change (st_defs (with_stack s1 (key :: script :: rest))) with (st_defs s1).
    rewrite Hn1, Hd1. reflexivity. }
  assert (HAX : A < List.length (st_tapes sX)) by (unfold sX; rewrite xstate_tapes; lia).
  assert (HnC : nth_tape sC A = {| to_data := sarm; to_count := (c + 1)%Z; to_defs := List.length (st_defs st0) |}).
  { unfold sC. rewrite (nth_tape_after_call_A sX A T c HAX) by lia.
    unfold sX. rewrite xstate_nth_tape, HnA. reflexivity. }
  assert (HlenC : List.length (st_tapes sC) = tid + 3).
  { unfold sC. rewrite after_call_tapes_len. unfold sX. rewrite xstate_tapes. exact HlenA. }
  assert (HdC : List.length (st_defs sC) = List.length (st_defs st0) + 1).
  { change (st_defs sC) with (st_defs sX). unfold sX. rewrite xstate_defs.
    unfold sA, sub_start. cbn [st_defs with_tapes with_defs with_stack]. rewrite app_length, Hd1. reflexivity. }
  split.
  { unfold nth_tape, eval_start. cbn [st_tapes with_tapes with_defs with_stack].
    rewrite app_nth2 by lia. rewrite HlenC, Nat.sub_diag. cbn [nth].
    change (nth_tape (with_stack sC rest) A) with (nth_tape sC A).
    change (st_defs (with_stack sC rest)) with (st_defs sC).
    rewrite HnC, HdC. cbn [to_count]. unfold c. rewrite S4. reflexivity. }
  split.
  { change (tdata (eval_start (with_stack sC rest) A script) (tid + 1) = push1_bytes root).
    unfold tdata, nth_tape, eval_start. cbn [st_tapes with_tapes with_defs with_stack].
    rewrite app_nth1 by lia.
    fold (nth_tape sC (tid + 1)). fold (tdata sC (tid + 1)). unfold sC. rewrite tdata_after_call.
    unfold sX. rewrite xstate_tdata.
    unfold sA. rewrite tdata_sub_old by (cbn [st_tapes with_stack]; fold A; lia).
    unfold tdata, nth_tape, s1, def_state. cbn [st_tapes with_tapes with_defs with_stack].
    rewrite app_nth2 by (fold T; lia). fold T. rewrite <- HT, Nat.sub_diag. reflexivity. }
  split; [reflexivity|].
  split.
  { change (st_cache (eval_start (with_stack sC rest) A script)) with (cache_del (st_cache sX) returned_key).
    unfold sX, xstate. destruct (flagon cfg 2).
    - change (cache_del (cache_set (cache_del (st_cache st0) returned_key) xkey (VOne (ABytes point))) returned_key =
              cache_set (cache_del (st_cache st0) returned_key) xkey (VOne (ABytes point))).
      apply del_returned_after_setX.
    - change (cache_del (cache_del (st_cache st0) returned_key) returned_key = cache_del (st_cache st0) returned_key).
      apply cache_del_twice. }
  split.
  - change (st_log (eval_start (with_stack sC rest) A script)) with (st_log sX).
    unfold sX, xstate. destruct (flagon cfg 2); reflexivity.
  - change (st_rand (eval_start (with_stack sC rest) A script)) with (st_rand sX).
    unfold sX, xstate. destruct (flagon cfg 2); reflexivity.
Qed.

End NonNative.

(* ---------- the comparison ---------- *)
Section Compare.
Variable cfg : config.
Variables (st1 : state) (prev : nat) (root : bytes) (fl : byte) (key script : bytes) (rest : list bytes) (point : bytes).

Notation tid := (List.length (st_tapes st1)).
Notation sN := (nn_eval_state cfg (snd (next_start st1 prev (nonnative_taproot_lock root fl))) tid root key script rest point).
Notation sT := (native_eval_state (snd (next_start st1 prev (taproot_lock root fl))) tid script rest).

(* 1. same code, same stack, same log, same random counter *)
Theorem same_code_stack_log_rand :
  (to_data (nth_tape sN (tid + 3)) = script /\ to_data (nth_tape sT (tid + 1)) = script) /\
  (st_stack sN = rest /\ st_stack sT = rest) /\
  st_log sN = st_log sT /\ st_rand sN = st_rand sT.
Proof.
  destruct (nonnative_start_exact cfg st1 prev (nonnative_taproot_lock root fl) root key script rest point)
    as (N1 & N2 & N3 & N4 & N5 & N6).
  destruct (native_start_exact st1 prev (taproot_lock root fl) script rest) as (T1 & T2 & T3 & T4 & T5 & T6).
  cbv zeta in *.
  rewrite N1, T1, N3, T3, N5, T5, N6, T6. repeat split; reflexivity.
Qed.

(* 2. the cache, as equations *)
Theorem cache_exact :
  st_cache sT = cache_del (st_cache st1) returned_key /\
  st_cache sN = (if flagon cfg 2 then cache_set (st_cache sT) xkey (VOne (ABytes point)) else st_cache sT).
Proof.
  destruct (nonnative_start_exact cfg st1 prev (nonnative_taproot_lock root fl) root key script rest point)
    as (N1 & N2 & N3 & N4 & N5 & N6).
  destruct (native_start_exact st1 prev (taproot_lock root fl) script rest) as (T1 & T2 & T3 & T4 & T5 & T6).
  cbv zeta in *.
  rewrite N4, T4. split; reflexivity.
Qed.

(* every key other than the bytes key X reads the same in both caches (the control flag included: next) *)
Theorem cache_same_off_X k : k <> xkey -> cache_get (st_cache sN) k = cache_get (st_cache sT) k.
Proof.
  intro Hk. destruct cache_exact as [_ ->].
  destruct (flagon cfg 2); [|reflexivity].
  apply cache_get_set_other. apply ckey_neq_eqb. exact Hk.
Qed.

(* the control flag is absent on BOTH sides: next_start deleted it when each lock started; the second deletion
   that `call d0` performs under the non-native lock (after_call) finds nothing to delete *)
Theorem cache_control_flag_absent :
  cache_get (st_cache sN) returned_key = None /\ cache_get (st_cache sT) returned_key = None.
Proof.
  assert (HT : cache_get (st_cache sT) returned_key = None).
  { destruct cache_exact as [-> _]. apply cache_get_del_same. }
  split; [|exact HT].
  rewrite cache_same_off_X by discriminate. exact HT.
Qed.

(* flag 2 off: the two caches are EQUAL (as association lists, hence on every key) *)
Theorem cache_equal_flag2_off : flagon cfg 2 = false -> st_cache sN = st_cache sT.
Proof. intro Hf. destruct cache_exact as [_ ->]. rewrite Hf. reflexivity. Qed.

(* flag 2 on: key X holds the tweak point under the non-native lock, whatever the witness had left there *)
Theorem cache_X_flag2_on :
  flagon cfg 2 = true -> cache_get (st_cache sN) xkey = Some (VOne (ABytes point)).
Proof. intro Hf. destruct cache_exact as [_ ->]. rewrite Hf. apply cache_get_set_same. Qed.

(* 3. call counts *)
Theorem count_exact :
  to_count (nth_tape sN (tid + 3)) = (to_count (nth_tape sT (tid + 1)) + 1)%Z /\
  to_count (nth_tape sT (tid + 1)) = (to_count (nth_tape st1 prev) + 1)%Z.
Proof.
  destruct (nonnative_start_exact cfg st1 prev (nonnative_taproot_lock root fl) root key script rest point)
    as (N1 & _).
  destruct (native_start_exact st1 prev (taproot_lock root fl) script rest) as (T1 & _).
  cbv zeta in *. rewrite N1, T1. split; reflexivity.
Qed.

(* 4. definitions.  Side condition: the definition table of the witness tape exists. *)
Theorem defs_exact :
  to_defs (nth_tape st1 prev) < List.length (st_defs st1) ->
  let dN := nth_defs sN (to_defs (nth_tape sN (tid + 3))) in
  let dT := nth_defs sT (to_defs (nth_tape sT (tid + 1))) in
  dT = nth_defs st1 (to_defs (nth_tape st1 prev)) /\
  dN = defs_put dT x00 (tid + 1) /\
  defs_get dN x00 = Some (tid + 1) /\
  to_data (nth_tape sN (tid + 1)) = push1_bytes root /\
  (forall h, h <> x00 -> defs_get dN h = defs_get dT h).
Proof.
  intros Hdid dN dT.
  destruct (script_path_subtapes cfg prev st1 root fl fl key script rest point Hdid)
    as (_ & _ & _ & (D1 & D2) & _).
  cbv zeta in D1, D2. fold dN in D1. fold dT in D2.
  destruct (nonnative_start_exact cfg st1 prev (nonnative_taproot_lock root fl) root key script rest point)
    as (_ & N2 & _).
  cbv zeta in N2.
  split; [exact D2|]. split; [rewrite D1, D2; reflexivity|].
  split; [rewrite D1; apply defs_get_put_same|]. split; [exact N2|].
  intros h Hh. rewrite D1, D2. apply defs_get_put_other. exact Hh.
Qed.

(* the witness's own handle 0, if any, is overwritten under the non-native lock and kept under the native one *)
Corollary defs_handle0_shadowed t :
  to_defs (nth_tape st1 prev) < List.length (st_defs st1) ->
  defs_get (nth_defs st1 (to_defs (nth_tape st1 prev))) x00 = Some t ->
  defs_get (nth_defs sT (to_defs (nth_tape sT (tid + 1)))) x00 = Some t /\
  defs_get (nth_defs sN (to_defs (nth_tape sN (tid + 3)))) x00 = Some (tid + 1).
Proof.
  intros Hdid Ht. destruct (defs_exact Hdid) as (D1 & _ & D3 & _). cbv zeta in D1, D3.
  split; [rewrite D1; exact Ht|exact D3].
Qed.

(* 5. the summary *)
Theorem footprints_exact_prev :
  to_defs (nth_tape st1 prev) < List.length (st_defs st1) ->
  let dN := nth_defs sN (to_defs (nth_tape sN (tid + 3))) in
  let dT := nth_defs sT (to_defs (nth_tape sT (tid + 1))) in
  (* 1 *)
  (to_data (nth_tape sN (tid + 3)) = script /\ to_data (nth_tape sT (tid + 1)) = script) /\
  (st_stack sN = rest /\ st_stack sT = rest) /\
  st_log sN = st_log sT /\ st_rand sN = st_rand sT /\
  (* 2 *)
  st_cache sT = cache_del (st_cache st1) returned_key /\
  st_cache sN = (if flagon cfg 2 then cache_set (st_cache sT) xkey (VOne (ABytes point)) else st_cache sT) /\
  (forall k, k <> xkey -> cache_get (st_cache sN) k = cache_get (st_cache sT) k) /\
  (cache_get (st_cache sN) returned_key = None /\ cache_get (st_cache sT) returned_key = None) /\
  (flagon cfg 2 = false -> st_cache sN = st_cache sT) /\
  (flagon cfg 2 = true -> cache_get (st_cache sN) xkey = Some (VOne (ABytes point))) /\
  (* 3 *)
  to_count (nth_tape sN (tid + 3)) = (to_count (nth_tape sT (tid + 1)) + 1)%Z /\
  (* 4 *)
  dN = defs_put dT x00 (tid + 1) /\
  defs_get dN x00 = Some (tid + 1) /\
  to_data (nth_tape sN (tid + 1)) = push1_bytes root /\
  (forall h, h <> x00 -> defs_get dN h = defs_get dT h).
Proof.
  intros Hdid dN dT.
  destruct same_code_stack_log_rand as (A1 & A2 & A3 & A4).
  destruct cache_exact as (B1 & B2).
  destruct count_exact as (C1 & _).
  destruct (defs_exact Hdid) as (_ & D2 & D3 & D4 & D5). cbv zeta in D2, D3, D5. fold dN dT in D2, D3, D5.
  split; [exact A1|]. split; [exact A2|]. split; [exact A3|]. split; [exact A4|].
  split; [exact B1|]. split; [exact B2|]. split; [exact cache_same_off_X|].
  split; [exact cache_control_flag_absent|]. split; [exact cache_equal_flag2_off|].
  split; [exact cache_X_flag2_on|]. split; [exact C1|].
  split; [exact D2|]. split; [exact D3|]. split; [exact D4|exact D5].
Qed.

End Compare.

(* the summary for the pair (witness, lock) of run_auth_scripts: st1 is the state the witness left, prev = 0 *)
Theorem footprints_exact cfg st1 root fl key script rest point :
  to_defs (nth_tape st1 0) < List.length (st_defs st1) ->
  let tid := List.length (st_tapes st1) in
  let tN := tid + 3 in
  let tT := tid + 1 in
  let sN := nn_eval_state cfg (snd (next_start st1 0 (nonnative_taproot_lock root fl))) tid root key script rest point in
  let sT := native_eval_state (snd (next_start st1 0 (taproot_lock root fl))) tid script rest in
  let dN := nth_defs sN (to_defs (nth_tape sN tN)) in
  let dT := nth_defs sT (to_defs (nth_tape sT tT)) in
  (* 1. same code, stack, log, random counter *)
  (to_data (nth_tape sN tN) = script /\ to_data (nth_tape sT tT) = script) /\
  (st_stack sN = rest /\ st_stack sT = rest) /\
  st_log sN = st_log sT /\ st_rand sN = st_rand sT /\
  (* 2. cache *)
  st_cache sT = cache_del (st_cache st1) returned_key /\
  st_cache sN = (if flagon cfg 2 then cache_set (st_cache sT) (KBytes (str "X")) (VOne (ABytes point)) else st_cache sT) /\
  (forall k, k <> KBytes (str "X") -> cache_get (st_cache sN) k = cache_get (st_cache sT) k) /\
  (cache_get (st_cache sN) returned_key = None /\ cache_get (st_cache sT) returned_key = None) /\
  (flagon cfg 2 = false -> st_cache sN = st_cache sT) /\
  (flagon cfg 2 = true -> cache_get (st_cache sN) (KBytes (str "X")) = Some (VOne (ABytes point))) /\
  (* 3. call counts *)
  to_count (nth_tape sN tN) = (to_count (nth_tape sT tT) + 1)%Z /\
  (* 4. definitions *)
  dN = defs_put dT x00 (tid + 1) /\
  defs_get dN x00 = Some (tid + 1) /\
  to_data (nth_tape sN (tid + 1)) = push1_bytes root /\
  (forall h, h <> x00 -> defs_get dN h = defs_get dT h).
Proof.
  intros Hdid. cbv zeta.
  exact (footprints_exact_prev cfg st1 0 root fl key script rest point Hdid).
Qed.

(* ... after ANY witness script: the side condition is discharged by witness_defs_ok *)
Theorem footprints_exact_witness orc cfg F w vals fr st1 root fl key script rest point :
  run_script orc cfg F w vals = Done tt fr st1 ->
  let tid := List.length (st_tapes st1) in
  let tN := tid + 3 in
  let tT := tid + 1 in
  let sN := nn_eval_state cfg (snd (next_start st1 0 (nonnative_taproot_lock root fl))) tid root key script rest point in
  let sT := native_eval_state (snd (next_start st1 0 (taproot_lock root fl))) tid script rest in
  let dN := nth_defs sN (to_defs (nth_tape sN tN)) in
  let dT := nth_defs sT (to_defs (nth_tape sT tT)) in
  (to_data (nth_tape sN tN) = script /\ to_data (nth_tape sT tT) = script) /\
  (st_stack sN = rest /\ st_stack sT = rest) /\
  st_log sN = st_log sT /\ st_rand sN = st_rand sT /\
  st_cache sT = cache_del (st_cache st1) returned_key /\
  st_cache sN = (if flagon cfg 2 then cache_set (st_cache sT) (KBytes (str "X")) (VOne (ABytes point)) else st_cache sT) /\
  (forall k, k <> KBytes (str "X") -> cache_get (st_cache sN) k = cache_get (st_cache sT) k) /\
  (cache_get (st_cache sN) returned_key = None /\ cache_get (st_cache sT) returned_key = None) /\
  (flagon cfg 2 = false -> st_cache sN = st_cache sT) /\
  (flagon cfg 2 = true -> cache_get (st_cache sN) (KBytes (str "X")) = Some (VOne (ABytes point))) /\
  to_count (nth_tape sN tN) = (to_count (nth_tape sT tT) + 1)%Z /\
  dN = defs_put dT x00 (tid + 1) /\
  defs_get dN x00 = Some (tid + 1) /\
  to_data (nth_tape sN (tid + 1)) = push1_bytes root /\
  (forall h, h <> x00 -> defs_get dN h = defs_get dT h).
Proof.
  intro Hw. exact (footprints_exact cfg st1 root fl key script rest point (witness_defs_ok orc cfg F w vals fr st1 Hw)).
Qed.

Print Assumptions same_code_stack_log_rand.
Print Assumptions cache_exact.
Print Assumptions cache_same_off_X.
Print Assumptions cache_control_flag_absent.
Print Assumptions cache_equal_flag2_off.
Print Assumptions cache_X_flag2_on.
Print Assumptions count_exact.
Print Assumptions defs_exact.
Print Assumptions defs_handle0_shadowed.
Print Assumptions footprints_exact.
Print Assumptions footprints_exact_witness.
