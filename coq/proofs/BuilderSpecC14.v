(* C14: make_delegate_key_lock / its witness — the authorisation verdict of the real bytes, exactly;
   Certificate.pack / unpack round trip. *)
From Coq Require Import ZArith List Bool Lia.
From Coq.Strings Require Import Byte String.
From TS Require Import Bytes Codec State Prog Ops Interp StateLemmas InterpLemmas NopSpec StackLemmas
  BytesLemmas CodecProofs TapeLemmas SigSpec ConfigSpec AuthSpec TimeSpec Asm Builders BuilderSpec.
Import ListNotations.
Local Open Scope nat_scope.

(* lia, insensitive to the spelling [bytes] / [list byte] of the type argument of [length] *)
Ltac blia := unfold bytes in *; lia.

(* ---------------------------------------------------------------------------------------------- *)
(* list facts                                                                                     *)
(* ---------------------------------------------------------------------------------------------- *)

Lemma firstn_len_app {A} (a r : list A) n : List.length a = n -> firstn n (a ++ r) = a.
Proof. intros <-. rewrite firstn_app, Nat.sub_diag, firstn_all. simpl. apply app_nil_r. Qed.

Lemma skipn_len_app {A} (a r : list A) n : List.length a = n -> skipn n (a ++ r) = r.
Proof. intros <-. rewrite skipn_app, Nat.sub_diag, skipn_all. reflexivity. Qed.

Lemma skipn_add {A} (l : list A) : forall n m, skipn (n + m) l = skipn m (skipn n l).
Proof.
  induction l as [|x l IH]; intros n m.
  - rewrite !skipn_nil. reflexivity.
  - destruct n as [|n]; [reflexivity|]. cbn [Nat.add skipn]. apply IH.
Qed.

Lemma skipn_S_of {A} (l : list A) p c tail : skipn p l = c :: tail -> skipn (S p) l = tail.
Proof. intro H. replace (S p) with (p + 1) by lia. rewrite skipn_add, H. reflexivity. Qed.

(* ---------------------------------------------------------------------------------------------- *)
(* 1. step lemmas: exact result of one instruction on a known stack / tape prefix                  *)
(* ---------------------------------------------------------------------------------------------- *)

Definition fwd (fr : frame) (n : nat) : frame := {| fr_tid := fr_tid fr; fr_ptr := fr_ptr fr + n |}.

Section Steps.
Variable orc : oracle.
Variable cfg : config.
Variable run : nat -> state -> outcome unit.

Notation fits := (fits cfg).
Notation space := (space cfg).
Notation interp := (interp orc cfg run).

Lemma data_at_adv fr st pre rest :
  data_at fr st = pre ++ rest -> data_at (adv fr (List.length pre)) st = rest.
Proof.
  unfold data_at, adv, cur. cbn [fr_tid fr_ptr]. intro H.
  rewrite skipn_add, H. apply skipn_len_app. reflexivity.
Qed.

Lemma data_at_adv1 fr st b rest : data_at fr st = b :: rest -> data_at (adv fr 1) st = rest.
Proof. intro H. exact (data_at_adv fr st [b] rest H). Qed.

Lemma adv_adv fr n m : adv (adv fr n) m = fwd fr (n + m).
Proof. unfold adv, fwd. cbn [fr_tid fr_ptr]. f_equal. lia. Qed.
Lemma adv_fwd fr n : adv fr n = fwd fr n.
Proof. reflexivity. Qed.

Lemma be1_01 : be_to_Z [x01] = 1%Z.
Proof. reflexivity. Qed.

(* OP_PUSH0 b : push the one operand byte *)
Lemma push0_exec fr st b rest s :
  data_at fr st = b :: rest -> st_stack st = s -> fits [b] -> space s ->
  interp OP_PUSH0 fr st = Done tt (fwd fr 1) (with_stack st ([b] :: s)).
Proof.
  intros Hd Hs Hf Hsp. unfold OP_PUSH0, read, put, act. cbn [bind].
  rewrite (read1 orc cfg run fr st b rest) by exact Hd. cbn [bind].
  rewrite (put_step orc cfg run) with (s := s) by assumption.
  reflexivity.
Qed.

(* OP_PUSH1 <len> v with the pointer at the length byte *)
Lemma push1_at fr st v tail s :
  data_at fr st = z2b (blen v) :: v ++ tail -> List.length v < 256 -> st_stack st = s ->
  fits v -> space s ->
  interp OP_PUSH1 fr st = Done tt (fwd fr (1 + List.length v)) (with_stack st (v :: s)).
Proof.
  intros Hd Hl Hs Hf Hsp.
  unfold OP_PUSH1, read_u8, read, put, act. cbn [bind].
  rewrite (read1 orc cfg run fr st _ _ _ _ Hd). cbn [bind].
  rewrite be1, b2z_z2b_small by (unfold blen; lia).
  pose proof (data_at_adv1 _ _ _ _ Hd) as Hd2.
  destruct v as [|v0 v'] eqn:Ev.
  - cbn [interp step]. unfold data_at in Hd2. cbn [app] in Hd2.
    change (Z.to_nat (blen [])) with 0.
    destruct (_ <? _) eqn:E.
    { apply Nat.ltb_lt in E.
      assert (Hlen : List.length (skipn (fr_ptr fr) (to_data (cur fr st))) = S (List.length tail))
        by (unfold data_at in Hd; rewrite Hd; reflexivity).
      rewrite skipn_length in Hlen. change (cur (adv fr 1) st) with (cur fr st) in *.
      unfold adv in E. cbn [fr_ptr] in E. lia. }
    cbn [firstn]. rewrite Hs.
    unfold StackLemmas.fits, StackLemmas.space in *. cbn [List.length] in *.
    destruct (c_max_item_size cfg <? 0) eqn:E1; [apply Nat.ltb_lt in E1; lia|].
    destruct (c_max_items cfg <=? List.length s) eqn:E2; [apply Nat.leb_le in E2; lia|].
    unfold adv, fwd. cbn [fr_tid fr_ptr]. do 2 f_equal. lia.
  - rewrite <- Ev in *.
    rewrite (read_n orc cfg run _ _ _ st v tail (blen v) Hd2)
      by (unfold blen; rewrite ?Nat2Z.id; subst v; simpl; lia).
    cbn [bind].
    rewrite (put_step orc cfg run) with (s := s) by assumption.
    cbn [Interp.interp]. rewrite adv_adv. reflexivity.
Qed.

(* OP_SPLIT with the index given by a one-byte item < 128 that equals the length of the first part *)
Lemma split_exec fr st i a r s :
  st_stack st = [i] :: (a ++ r) :: s ->
  (b2z i < 128)%Z -> Z.to_nat (b2z i) = List.length a -> r <> [] ->
  fits a -> fits r -> S (List.length s) < c_max_items cfg ->
  interp OP_SPLIT fr st = Done tt fr (with_stack st (r :: a :: s)).
Proof.
  intros Hs Hi Hn Hr Fa Fr Hsp.
  unfold OP_SPLIT, get_int, b2i, get, put, act, sert. cbn [bind].
  erewrite get_step by exact Hs. cbn [bind].
  rewrite b2i_single. unfold signed8.
  replace (b2z i <? 128)%Z with true by (symmetry; apply Z.ltb_lt; exact Hi).
  cbn [bind].
  erewrite get_step by reflexivity. cbn [bind].
  pose proof (b2z_range i) as Hb.
  replace (0 <=? b2z i)%Z with true by (symmetry; apply Z.leb_le; lia).
  cbn [bind].
  assert (Hlt : (b2z i <? blen (a ++ r))%Z = true).
  { apply Z.ltb_lt. unfold blen. rewrite app_length, <- Hn. destruct r; [congruence|]. simpl List.length.
    rewrite Nat2Z.inj_add, Z2Nat.id by lia. lia. }
  rewrite Hlt. cbn [bind].
  unfold firstn_z, skipn_z. rewrite Hn.
  rewrite firstn_len_app, skipn_len_app by reflexivity.
  erewrite put_step; [|reflexivity|exact Fa|unfold StackLemmas.space; simpl; blia]. cbn [bind].
  erewrite put_step; [|reflexivity|exact Fr|unfold StackLemmas.space; simpl; blia].
  reflexivity.
Qed.

Lemma split_exec_eq fr st i item a r s :
  st_stack st = [i] :: item :: s -> item = a ++ r ->
  (b2z i < 128)%Z -> Z.to_nat (b2z i) = List.length a -> r <> [] ->
  fits a -> fits r -> S (List.length s) < c_max_items cfg ->
  interp OP_SPLIT fr st = Done tt fr (with_stack st (r :: a :: s)).
Proof. intros Hs ->. apply split_exec. exact Hs. Qed.

(* OP_WRITE_CACHE <1> k <1> : one item moved from the stack into cache[k] as a one-item list *)
Lemma write_cache1_exec fr st k rest x s :
  data_at fr st = x01 :: k :: x01 :: rest -> st_stack st = x :: s ->
  interp OP_WRITE_CACHE fr st =
    Done tt (fwd fr 3)
         (with_cache (with_stack st s) (cache_set (st_cache st) (KBytes [k]) (VMany [ABytes x]))).
Proof.
  intros Hd Hs.
  unfold OP_WRITE_CACHE, read_u8, read, cache_items, get, act. cbn [bind].
  rewrite (read1 orc cfg run fr st _ _ _ _ Hd). cbn [bind]. rewrite be1_01.
  pose proof (data_at_adv1 _ _ _ _ Hd) as Hd2.
  rewrite (read1 orc cfg run _ st _ _ _ _ Hd2). cbn [bind].
  pose proof (data_at_adv1 _ _ _ _ Hd2) as Hd3.
  rewrite (read1 orc cfg run _ st _ _ _ _ Hd3). cbn [bind]. rewrite be1_01.
  change (nat_of 1) with 1. cbn [repeat_get bind]. unfold get, act. cbn [bind].
  erewrite get_step by exact Hs. cbn [bind].
  cbn [Interp.interp step map st_cache with_stack].
  rewrite !adv_adv. reflexivity.
Qed.

(* OP_READ_CACHE <1> k with cache[k] a one-item list *)
Lemma read_cache1_exec fr st k rest v s :
  data_at fr st = x01 :: k :: rest ->
  cache_get (st_cache st) (KBytes [k]) = Some (VMany [ABytes v]) ->
  st_stack st = s -> fits v -> space s ->
  interp OP_READ_CACHE fr st = Done tt (fwd fr 2) (with_stack st (v :: s)).
Proof.
  intros Hd Hc Hs Fv Hsp.
  unfold OP_READ_CACHE, read_u8, read, read_cache_key, act. cbn [bind].
  rewrite (read1 orc cfg run fr st _ _ _ _ Hd). cbn [bind]. rewrite be1_01.
  pose proof (data_at_adv1 _ _ _ _ Hd) as Hd2.
  rewrite (read1 orc cfg run _ st _ _ _ _ Hd2). cbn [bind].
  cbn [Interp.interp step]. rewrite Hc. cbn [cval_items put_atoms].
  unfold put, act. cbn [bind].
  erewrite put_step; [|exact Hs|exact Fv|exact Hsp].
  cbn [Interp.interp]. rewrite adv_adv. reflexivity.
Qed.

Lemma dup_exec fr st x s :
  st_stack st = x :: s -> fits x -> S (List.length s) < c_max_items cfg ->
  interp OP_DUP fr st = Done tt fr (with_stack st (x :: x :: s)).
Proof.
  intros Hs Fx Hsp. unfold OP_DUP, get, put, act. cbn [bind].
  erewrite get_step by exact Hs. cbn [bind].
  erewrite put_step; [|reflexivity|exact Fx|unfold StackLemmas.space; simpl; blia]. cbn [bind].
  erewrite put_step; [|reflexivity|exact Fx|unfold StackLemmas.space; simpl; blia].
  reflexivity.
Qed.

Definition pop_key : ckey := KBytes [x50].      (* b"P" *)

Lemma pop0_exec fr st x s :
  st_stack st = x :: s ->
  interp OP_POP0 fr st =
    Done tt fr (with_cache (with_stack st s) (cache_set (st_cache st) pop_key (VMany [ABytes x]))).
Proof.
  intro Hs. unfold OP_POP0, cache_items, get, act. cbn [bind].
  erewrite get_step by exact Hs. cbn [bind]. reflexivity.
Qed.

Lemma swap2_exec fr st a b s :
  st_stack st = a :: b :: s -> fits a -> fits b -> S (List.length s) < c_max_items cfg ->
  interp OP_SWAP2 fr st = Done tt fr (with_stack st (b :: a :: s)).
Proof.
  intros Hs Fa Fb Hsp. unfold OP_SWAP2, get, put, act. cbn [bind].
  erewrite get_step by exact Hs. cbn [bind].
  erewrite get_step by reflexivity. cbn [bind].
  erewrite put_step; [|reflexivity|exact Fa|unfold StackLemmas.space; simpl; blia]. cbn [bind].
  erewrite put_step; [|reflexivity|exact Fb|unfold StackLemmas.space; simpl; blia].
  reflexivity.
Qed.

(* OP_NOT on a canonical boolean: [xff] <-> [x00] *)
Lemma not_exec fr st v s :
  st_stack st = boolb v :: s -> room cfg s ->
  interp OP_NOT fr st = Done tt fr (with_stack st (boolb (negb v) :: s)).
Proof.
  intros Hs [H1 H2]. unfold OP_NOT, get, put, act. cbn [bind].
  erewrite get_step by exact Hs. cbn [bind].
  erewrite put_step; [|reflexivity| |exact H1].
  - destruct v; reflexivity.
  - unfold StackLemmas.fits. rewrite map_length. destruct v; simpl; lia.
Qed.

Lemma verify_exec fr st x s :
  st_stack st = x :: s ->
  interp OP_VERIFY fr st =
    if bytes_to_bool x then Done tt fr (with_stack st s)
    else Raised ScriptExecutionError fr (with_stack st s).
Proof.
  intro Hs. unfold OP_VERIFY, get, sert, act. cbn [bind].
  erewrite get_step by exact Hs. destruct (bytes_to_bool x); reflexivity.
Qed.

Lemma bytes_to_bool_boolb v : bytes_to_bool (boolb v) = v.
Proof. destruct v; reflexivity. Qed.

(* OP_CHECK_SIG_STACK: the verdict is the oracle's, and every malformed answer is False *)
Definition css_verdict (vkey msg sig : bytes) : bool :=
  match orc PVerify [vkey; msg; sig] with OOk [x] => bytes_to_bool x | _ => false end.

Lemma check_sig_stack_exec fr st vkey msg sig s :
  st_stack st = vkey :: msg :: sig :: s -> List.length vkey = 32 -> List.length sig = 64 -> room cfg s ->
  interp OP_CHECK_SIG_STACK fr st = Done tt fr (with_stack st (boolb (css_verdict vkey msg sig) :: s)).
Proof.
  intros Hs Lk Ls Hr. unfold OP_CHECK_SIG_STACK, put_bool, get, vert, act. cbn [bind].
  erewrite get_step by exact Hs. unfold blen. rewrite Lk. change (Z.of_nat 32 =? 32)%Z with true. cbn [bind].
  erewrite get_step by reflexivity. cbn [bind].
  erewrite get_step by reflexivity. rewrite Ls. change (Z.of_nat 64 =? 64)%Z with true. cbn [bind].
  rewrite prim_act_step. unfold css_verdict.
  assert (P : forall v : bool, Interp.interp orc cfg run (put (if v then [xff] else [x00])) fr (with_stack (with_stack (with_stack st (msg :: sig :: s)) (sig :: s)) s)
             = Done tt fr (with_stack st (boolb v :: s))).
  { intro v. unfold put, act. destruct v; (rewrite put1 with (rest := s); [reflexivity|exact Hr|reflexivity]). }
  destruct (orc PVerify [vkey; msg; sig]) as [[|x [|y l]]|e];
    first [apply (P false) | apply (P (bytes_to_bool x))].
Qed.

End Steps.

(* ---------------------------------------------------------------------------------------------- *)
(* stepping run_tape at a pointer given by [skipn]                                                 *)
(* ---------------------------------------------------------------------------------------------- *)

Lemma nth_of_skipn {A} (d : A) : forall p (l : list A) c tail,
  skipn p l = c :: tail -> nth p l d = c /\ p < List.length l.
Proof.
  induction p as [|p IH]; intros [|x l] c tail H; try discriminate.
  - injection H as -> _. split; [reflexivity|simpl; lia].
  - cbn [skipn] in H. destruct (IH l c tail H) as [H1 H2]. split; [exact H1|simpl; lia].
Qed.

Section Run.
Variable orc : oracle.
Variable cfg : config.

Lemma run_tape_fetch_at f tid p st data c tail :
  tdata st tid = data -> skipn p data = c :: tail ->
  run_tape orc cfg (S f) tid p st =
    match interp orc cfg (fun t s => run_tape orc cfg f t 0 s) (dispatch (N.to_nat (Byte.to_N c)))
                 {| fr_tid := tid; fr_ptr := S p |} st with
    | Done _ fr' st' => run_tape orc cfg f tid (fr_ptr fr') st'
    | Raised e fr' st' => Raised e fr' st'
    | OutOfFuel => OutOfFuel
    | Unmodelled w => Unmodelled w
    end.
Proof.
  intros Hd Hs. cbn [run_tape]. unfold tdata in Hd. rewrite Hd.
  destruct (nth_of_skipn x00 p data c tail Hs) as [Hn Hl].
  destruct (List.length data <=? p) eqn:E; [apply Nat.leb_le in E; lia|].
  rewrite Hn. reflexivity.
Qed.

Lemma data_at_next tid p st data c tail :
  tdata st tid = data -> skipn p data = c :: tail ->
  data_at {| fr_tid := tid; fr_ptr := S p |} st = tail.
Proof.
  intros Hd Hs. unfold data_at, cur. cbn [fr_tid fr_ptr]. unfold tdata in Hd. rewrite Hd.
  exact (skipn_S_of data p c tail Hs).
Qed.

(* an instruction that completes normally *)
Lemma run_tape_step f tid p st data c tail fr' st' :
  tdata st tid = data -> skipn p data = c :: tail ->
  (data_at {| fr_tid := tid; fr_ptr := S p |} st = tail ->
   interp orc cfg (fun t s => run_tape orc cfg f t 0 s) (dispatch (N.to_nat (Byte.to_N c)))
          {| fr_tid := tid; fr_ptr := S p |} st = Done tt fr' st') ->
  run_tape orc cfg (S f) tid p st = run_tape orc cfg f tid (fr_ptr fr') st'.
Proof.
  intros Hd Hs Hi. rewrite (run_tape_fetch_at f tid p st data c tail Hd Hs).
  rewrite (Hi (data_at_next tid p st data c tail Hd Hs)). reflexivity.
Qed.

End Run.

(* ---------------------------------------------------------------------------------------------- *)
(* 2. the delegate-key lock                                                                        *)
(* ---------------------------------------------------------------------------------------------- *)

(* the bytes of make_delegate_key_lock(root, fl), spelled out *)
Definition lock_pre : bytes :=
  [x02;x29; x38; x09;x01;x73;x01; x1d; x02;x28; x38; x06; x02;x24; x38; x09;x01;x65;x01;
   x02;x20; x38; x09;x01;x62;x01; x09;x01;x64;x01; x0a;x01;x62; x26; x0a;x01;x65; x25; x2e; x20;
   x0a;x01;x73; x35; x03].
Definition lock_tail (fl : byte) : bytes := [x4a; x20; x0a;x01;x64; x23;fl].
Definition lock_bytes (root : bytes) (fl : byte) : bytes :=
  lock_pre ++ z2b (blen root) :: root ++ lock_tail fl.

Lemma delegate_key_lock_bytes root fl : delegate_key_lock root fl = lock_bytes root fl.
Proof. reflexivity. Qed.

Lemma delegate_key_witness_bytes sig cert :
  delegate_key_witness sig cert = x03 :: z2b (blen sig) :: sig ++ x03 :: z2b (blen cert) :: cert.
Proof. unfold delegate_key_witness, encode. cbn. rewrite app_nil_r. reflexivity. Qed.

Lemma lock_skip78 root fl : List.length root = 32 -> skipn 78 (lock_bytes root fl) = lock_tail fl.
Proof.
  intro LR. unfold lock_bytes. change 78 with (45 + (1 + 32)).
  rewrite skipn_add, (skipn_len_app lock_pre) by reflexivity.
  exact (skipn_len_app root (lock_tail fl) 32 LR).
Qed.

Lemma lock_skip79 root fl : List.length root = 32 ->
  skipn 79 (lock_bytes root fl) = [x20; x0a;x01;x64; x23;fl].
Proof. intro LR. exact (skipn_S_of _ _ _ _ (lock_skip78 root fl LR)). Qed.
Lemma lock_skip80 root fl : List.length root = 32 ->
  skipn 80 (lock_bytes root fl) = [x0a;x01;x64; x23;fl].
Proof. intro LR. exact (skipn_S_of _ _ _ _ (lock_skip79 root fl LR)). Qed.
Lemma lock_skip83 root fl : List.length root = 32 -> skipn 83 (lock_bytes root fl) = [x23;fl].
Proof.
  intro LR. exact (skipn_S_of _ _ _ _ (skipn_S_of _ _ _ _ (skipn_S_of _ _ _ _ (lock_skip80 root fl LR)))).
Qed.
Lemma lock_length root fl : List.length root = 32 -> List.length (lock_bytes root fl) = 85.
Proof. intro LR. unfold lock_bytes. rewrite app_length. cbn [List.length]. rewrite app_length, LR. reflexivity. Qed.

Lemma msg_of_set_bytes f c k v : msg_of f (cache_set c (KBytes k) v) = msg_of f c.
Proof.
  apply excluded_fields_irrelevant. intros i _ _. apply cache_get_set_other. reflexivity.
Qed.

Lemma css_verdict_true orc k m s :
  css_verdict orc k m s = true <-> exists x, orc PVerify [k; m; s] = OOk [x] /\ bytes_to_bool x = true.
Proof.
  unfold css_verdict. destruct (orc PVerify [k; m; s]) as [[|x [|y l]]|err]; split; try discriminate;
    try (intros (x' & H & _); discriminate).
  - intro H. exists x. split; [reflexivity|exact H].
  - intros (x' & H & Hb). injection H as <-. exact Hb.
Qed.

Ltac norm :=
  unfold with_stack, with_cache, fwd, adv;
  cbn [st_stack st_cache st_tapes st_defs st_log st_rand fr_ptr fr_tid Nat.add].

Ltac cache_here :=
  cbn [st_cache]; repeat (rewrite cache_get_set_other by reflexivity); apply cache_get_set_same.

Section Witness.
Variable orc : oracle.
Variable cfg : config.

Lemma dk_witness_runs f sig cert vals :
  List.length sig < 256 -> List.length cert < 256 ->
  fits cfg sig -> fits cfg cert -> 2 <= c_max_items cfg ->
  exists fr,
  run_script orc cfg (S (S (S f))) (delegate_key_witness sig cert) vals =
    Done tt fr (with_stack (init_state cfg (delegate_key_witness sig cert) vals) [cert; sig]).
Proof.
  intros Ls Lc Fs Fc Hit. unfold run_script.
  set (st0 := init_state cfg (delegate_key_witness sig cert) vals).
  assert (Hd : tdata st0 0 = x03 :: z2b (blen sig) :: sig ++ x03 :: z2b (blen cert) :: cert ++ []).
  { unfold tdata, st0, init_state, nth_tape. cbn [st_tapes nth to_data].
    rewrite delegate_key_witness_bytes, app_nil_r. reflexivity. }
  erewrite run_tape_step; [|exact Hd|reflexivity|].
  2:{ intro Hda. change (dispatch _) with OP_PUSH1.
      eapply (push1_at orc cfg _ _ _ sig _ []); [exact Hda|exact Ls|reflexivity|exact Fs|].
      unfold StackLemmas.space. simpl. lia. }
  norm.
  erewrite run_tape_step; [|exact Hd| |].
  2:{ cbn [skipn]. apply skipn_after. }
  2:{ intro Hda. change (dispatch _) with OP_PUSH1.
      eapply (push1_at orc cfg _ _ _ cert [] [sig]); [exact Hda|exact Lc|reflexivity|exact Fc|].
      unfold StackLemmas.space. simpl. lia. }
  norm.
  rewrite run_tape_end.
  - eexists. reflexivity.
  - change (tdata _ 0) with (tdata st0 0). rewrite Hd. rewrite app_nil_r. simpl. rewrite !app_length. simpl. lia.
Qed.

End Witness.

Section Lock.
Variable orc : oracle.
Variable cfg : config.
Hypothesis Hsize : 105 <= c_max_item_size cfg.
Hypothesis Hitems : 4 <= c_max_items cfg.

Variables root D b e csig sig : bytes.
Variables can fl : byte.
Variables ts thr : Z.
Hypothesis LR : List.length root = 32.
Hypothesis LD : List.length D = 32.
Hypothesis Lb : List.length b = 4.
Hypothesis Le : List.length e = 4.
Hypothesis Lc : List.length csig = 64.
Hypothesis Lsig : List.length sig = 64 \/ List.length sig = 65.
Hypothesis Hthr : flag_get (c_flags cfg) thr_key = Some (FVInt thr).

Definition preimage : bytes := D ++ b ++ e ++ [can].

(* the certificate's signature verifies under the root key, over the 41-byte preimage *)
Definition cert_ok : Prop :=
  exists x, orc PVerify [root; preimage; csig] = OOk [x] /\ bytes_to_bool x = true.

Definition delegate_accepts (c : cache) : Prop :=
  ts_verdict cfg (be_to_Z b) ts thr = true /\
  ts_verdict cfg (be_to_Z e) ts thr = false /\
  cert_ok /\
  sig_accepts orc cfg D sig (b2z fl) c.

(* the only way to leave the model: the oracle answers the final verification with <> 1 items *)
Definition delegate_unmod (c : cache) : Prop :=
  ts_verdict cfg (be_to_Z b) ts thr = true /\
  ts_verdict cfg (be_to_Z e) ts thr = false /\
  cert_ok /\
  exists m l, msg_of (sig_flag sig) c = Some m /\
              orc PVerify [D; m; firstn 64 sig] = OOk l /\ List.length l <> 1.

Ltac side :=
  unfold StackLemmas.fits, StackLemmas.space, room, preimage; cbn [st_stack List.length];
  repeat rewrite app_length; cbn [List.length]; blia.

Ltac t_push0 Hd :=
  erewrite run_tape_step; [|exact Hd|reflexivity|
    let Hda := fresh "Hda" in intro Hda; change (dispatch _) with OP_PUSH0;
    eapply push0_exec; [exact Hda|reflexivity|side|side]]; norm.
Ltac t_wc Hd :=
  erewrite run_tape_step; [|exact Hd|reflexivity|
    let Hda := fresh "Hda" in intro Hda; change (dispatch _) with OP_WRITE_CACHE;
    eapply write_cache1_exec; [exact Hda|reflexivity]]; norm.
Ltac t_rc Hd :=
  erewrite run_tape_step; [|exact Hd|reflexivity|
    let Hda := fresh "Hda" in intro Hda; change (dispatch _) with OP_READ_CACHE;
    eapply read_cache1_exec; [exact Hda|cache_here|reflexivity|side|side]]; norm.

Ltac t_ts Hts :=
  cbn [st_cache]; repeat (rewrite cache_get_set_other by reflexivity); exact Hts.

Definition lock_outcome (c : cache) (r : outcome unit) : Prop :=
  match r with
  | Done _ _ st' => exists v, st_stack st' = [boolb v] /\ (v = true <-> delegate_accepts c)
  | Raised _ _ _ => ~ delegate_accepts c
  | OutOfFuel => False
  | Unmodelled _ => delegate_unmod c
  end.

Lemma lock_runs f st0 tid c :
  tdata st0 tid = lock_bytes root fl ->
  st_stack st0 = [preimage ++ csig; sig] ->
  cache_get (st_cache st0) ts_key = Some (VOne (AInt ts)) ->
  (forall g, msg_of g (st_cache st0) = msg_of g c) ->
  lock_outcome c (run_tape orc cfg (28 + f) tid 0 st0).
Proof.
  intros Hd Hst Hts Hmsg.
  cbn [Nat.add].
  destruct st0 as [stk0 c0 T0 D0 L0 R0]. cbn [st_stack st_cache] in Hst, Hts, Hmsg. subst stk0.
  (* 1: PUSH0 41 *)
  erewrite run_tape_step; [|exact Hd|reflexivity|].
  2:{ intro Hda. change (dispatch _) with OP_PUSH0.
      eapply push0_exec; [exact Hda|reflexivity|side|side]. }
  norm.
  (* 2: SPLIT *)
  erewrite run_tape_step; [|exact Hd|reflexivity|].
  2:{ intros _. change (dispatch _) with OP_SPLIT.
      eapply (split_exec orc cfg _ _ _ x29 preimage csig [sig]); [reflexivity|reflexivity| | |side|side|side].
      - unfold preimage. rewrite !app_length, LD, Lb, Le. reflexivity.
      - intro E. rewrite E in Lc. discriminate. }
  norm.
  (* 3: WRITE_CACHE s 1 *)
  t_wc Hd.
  (* 4: DUP *)
  erewrite run_tape_step; [|exact Hd|reflexivity|].
  2:{ intros _. change (dispatch _) with OP_DUP. eapply dup_exec; [reflexivity|side|side]. }
  norm.
  (* 5: PUSH0 40 ; 6: SPLIT *)
  t_push0 Hd.
  erewrite run_tape_step; [|exact Hd|reflexivity|].
  2:{ intros _. change (dispatch _) with OP_SPLIT.
      eapply (split_exec_eq orc cfg _ _ _ x28 preimage (D ++ b ++ e) [can] [preimage; sig]);
        [reflexivity| |reflexivity| |discriminate|side|side|side].
      - unfold preimage. rewrite <- !app_assoc. reflexivity.
      - rewrite !app_length, LD, Lb, Le. reflexivity. }
  norm.
  (* 7: POP0 *)
  erewrite run_tape_step; [|exact Hd|reflexivity|].
  2:{ intros _. change (dispatch _) with OP_POP0. eapply pop0_exec. reflexivity. }
  norm.
  (* 8: PUSH0 36 ; 9: SPLIT ; 10: WRITE_CACHE e 1 *)
  t_push0 Hd.
  erewrite run_tape_step; [|exact Hd|reflexivity|].
  2:{ intros _. change (dispatch _) with OP_SPLIT.
      eapply (split_exec_eq orc cfg _ _ _ x24 (D ++ b ++ e) (D ++ b) e [preimage; sig]);
        [reflexivity| |reflexivity| | |side|side|side].
      - rewrite <- !app_assoc. reflexivity.
      - rewrite !app_length, LD, Lb. reflexivity.
      - intro E. rewrite E in Le. discriminate. }
  norm.
  t_wc Hd.
  (* 11: PUSH0 32 ; 12: SPLIT ; 13: WRITE_CACHE b 1 ; 14: WRITE_CACHE d 1 *)
  t_push0 Hd.
  erewrite run_tape_step; [|exact Hd|reflexivity|].
  2:{ intros _. change (dispatch _) with OP_SPLIT.
      eapply (split_exec orc cfg _ _ _ x20 D b [preimage; sig]);
        [reflexivity|reflexivity| | |side|side|side].
      - rewrite LD. reflexivity.
      - intro E. rewrite E in Lb. discriminate. }
  norm.
  t_wc Hd. t_wc Hd.
  (* 15: READ_CACHE b *)
  t_rc Hd.
  (* 16: CHECK_TIMESTAMP_VERIFY *)
  erewrite run_tape_fetch_at; [|exact Hd|reflexivity].
  change (dispatch _) with OP_CHECK_TIMESTAMP_VERIFY.
  rewrite (check_timestamp_verify_spec orc cfg _ _ _ b [preimage; sig] ts thr);
    [|reflexivity|intro E; rewrite E in Lb; discriminate|t_ts Hts|exact Hthr|side].
  destruct (ts_verdict cfg (be_to_Z b) ts thr) eqn:V1.
  2:{ cbn [lock_outcome]. intros (H & _). congruence. }
  norm.
  (* 17: READ_CACHE e ; 18: CHECK_TIMESTAMP ; 19: NOT *)
  t_rc Hd.
  erewrite run_tape_step; [|exact Hd|reflexivity|].
  2:{ intros _. change (dispatch _) with OP_CHECK_TIMESTAMP.
      apply (check_timestamp_spec orc cfg _ _ _ e [preimage; sig] ts thr);
        [reflexivity|intro E; rewrite E in Le; discriminate|t_ts Hts|exact Hthr|side]. }
  norm.
  erewrite run_tape_step; [|exact Hd|reflexivity|].
  2:{ intros _. change (dispatch _) with OP_NOT. eapply not_exec; [reflexivity|side]. }
  norm.
  (* 20: VERIFY *)
  erewrite run_tape_fetch_at; [|exact Hd|reflexivity].
  change (dispatch _) with OP_VERIFY.
  erewrite verify_exec by reflexivity. rewrite bytes_to_bool_boolb.
  destruct (ts_verdict cfg (be_to_Z e) ts thr) eqn:V2; cbn [negb].
  { cbn [lock_outcome]. intros (_ & H & _). congruence. }
  norm.
  (* 21: READ_CACHE s ; 22: SWAP2 ; 23: PUSH1 root *)
  t_rc Hd.
  erewrite run_tape_step; [|exact Hd|reflexivity|].
  2:{ intros _. change (dispatch _) with OP_SWAP2. eapply swap2_exec; [reflexivity|side|side|side]. }
  norm.
  erewrite run_tape_step; [|exact Hd|reflexivity|].
  2:{ intro Hda. change (dispatch _) with OP_PUSH1.
      eapply (push1_at orc cfg _ _ _ root (lock_tail fl)); [exact Hda|blia|reflexivity|side|side]. }
  rewrite LR. norm.
  (* 24: CHECK_SIG_STACK *)
  erewrite run_tape_step; [|exact Hd|apply (lock_skip78 root fl LR)|].
  2:{ intros _. change (dispatch _) with OP_CHECK_SIG_STACK.
      eapply check_sig_stack_exec; [reflexivity|exact LR|exact Lc|side]. }
  norm.
  (* 25: VERIFY *)
  erewrite run_tape_fetch_at; [|exact Hd|apply (lock_skip79 root fl LR)].
  change (dispatch _) with OP_VERIFY.
  erewrite verify_exec by reflexivity. rewrite bytes_to_bool_boolb.
  destruct (css_verdict orc root preimage csig) eqn:V3.
  2:{ cbn [lock_outcome]. intros (_ & _ & H & _). apply css_verdict_true in H. congruence. }
  apply css_verdict_true in V3.
  norm.
  (* 26: READ_CACHE d *)
  erewrite run_tape_step; [|exact Hd|apply (lock_skip80 root fl LR)|].
  2:{ intro Hda. change (dispatch _) with OP_READ_CACHE.
      eapply read_cache1_exec; [exact Hda|cache_here|reflexivity|side|side]. }
  norm.
  (* 27: CHECK_SIG fl *)
  match goal with |- context [run_tape _ _ _ _ 83 ?s] => set (st26 := s) end.
  erewrite run_tape_fetch_at; [|exact Hd|apply (lock_skip83 root fl LR)].
  change (dispatch _) with OP_CHECK_SIG.
  assert (Hda : data_at {| fr_tid := tid; fr_ptr := 84 |} st26 = [fl])
    by exact (data_at_next tid 83 st26 _ x23 [fl] Hd (lock_skip83 root fl LR)).
  rewrite (check_sig_decomposed orc cfg _ _ st26 fl [] Hda).
  rewrite (check_sig_body_exact orc cfg _ (b2z fl) _ (sigext_log cfg st26) D sig []) by reflexivity.
  cbv zeta. unfold blen. rewrite LD. change (Z.of_nat 32 =? 32)%Z with true. cbn [negb].
  assert (Hs2 : ((Z.of_nat (List.length sig) =? 64) || (Z.of_nat (List.length sig) =? 65))%Z = true).
  { destruct Lsig as [->| ->]; reflexivity. }
  rewrite Hs2. cbn [negb].
  assert (Hc : msg_of (sig_flag sig) (st_cache (sigext_log cfg st26)) = msg_of (sig_flag sig) c).
  { unfold st26, pop_key. cbn [st_cache sigext_log with_log]. rewrite !msg_of_set_bytes. apply Hmsg. }
  rewrite Hc. clear Hc.
  destruct (flags_permitted (sig_flag sig) (b2z fl)) eqn:Ef; cbn [negb].
  2:{ cbn [lock_outcome]. intros (_ & _ & _ & Hf & _). congruence. }
  destruct (msg_of (sig_flag sig) c) as [m|] eqn:Em.
  2:{ cbn [lock_outcome]. intros (_ & _ & _ & _ & m & x & H & _). congruence. }
  cbn [List.length].
  replace (c_max_items cfg <=? 0) with false by (symmetry; apply Nat.leb_gt; lia).
  rewrite orb_false_r.
  destruct (c_max_item_size cfg <? List.length m) eqn:El.
  { apply Nat.ltb_lt in El. cbn [lock_outcome]. intros (_ & _ & _ & _ & m' & x & H & Hlen & _).
    rewrite Em in H. injection H as <-. lia. }
  apply Nat.ltb_ge in El.
  destruct (orc PVerify [D; m; firstn 64 sig]) as [[|x [|y l]]|err] eqn:Eo.
  - cbn [lock_outcome]. split; [exact V1|]. split; [exact V2|]. split; [exact V3|].
    exists m, []. split; [exact Em|]. split; [exact Eo|]. simpl. lia.
  - replace (c_max_item_size cfg <? 1) with false by (symmetry; apply Nat.ltb_ge; lia).
    rewrite run_tape_end.
    2:{ assert (Hd26 : tdata st26 tid = lock_bytes root fl) by exact Hd.
        match goal with |- List.length (tdata ?s tid) <= _ => change (tdata s tid) with (tdata st26 tid) end.
        rewrite Hd26, (lock_length root fl LR).
        unfold adv. cbn [fr_ptr]. lia. }
    cbn [lock_outcome]. exists (bytes_to_bool x). split; [reflexivity|].
    split.
    + intro Hb. split; [exact V1|]. split; [exact V2|]. split; [exact V3|]. split; [exact Ef|].
      exists m, x. split; [exact Em|]. split; [exact El|]. split; [exact Eo|exact Hb].
    + intros (_ & _ & _ & _ & m' & x' & H1 & _ & H2 & H3).
      rewrite Em in H1. injection H1 as <-. rewrite Eo in H2. injection H2 as <-. exact H3.
  - cbn [lock_outcome]. split; [exact V1|]. split; [exact V2|]. split; [exact V3|].
    exists m, (x :: y :: l). split; [exact Em|]. split; [exact Eo|]. simpl. lia.
  - cbn [lock_outcome]. intros (_ & _ & _ & _ & m' & x & H1 & _ & H2 & _).
    rewrite Em in H1. injection H1 as <-. rewrite Eo in H2. discriminate.
Qed.

(* the pair (witness pushing sig then cert, lock for root key with allowed-flags byte fl): every outcome *)
Theorem delegate_lock_exact f vals :
  cache_get (init_cache cfg vals) ts_key = Some (VOne (AInt ts)) ->
  match run_auth_scripts orc cfg (28 + f)
          [delegate_key_witness sig (D ++ b ++ e ++ [can] ++ csig); delegate_key_lock root fl] vals with
  | AuthVerdict v _ => v = true <-> delegate_accepts (init_cache cfg vals)
  | AuthFuel => False
  | AuthUnmod _ => delegate_unmod (init_cache cfg vals)
  end.
Proof.
  intro Hts.
  assert (Hcert : D ++ b ++ e ++ [can] ++ csig = preimage ++ csig)
    by (unfold preimage; rewrite <- !app_assoc; reflexivity).
  rewrite Hcert. unfold run_auth_scripts.
  change (28 + f) with (S (S (S (25 + f)))).
  destruct (dk_witness_runs orc cfg (25 + f) sig (preimage ++ csig) vals) as [fr0 Hw];
    [blia|unfold preimage; repeat rewrite app_length; cbn [List.length]; blia|side|side|lia|].
  rewrite Hw. rewrite auth_rest_unfold.
  match goal with |- context [next_start ?s 0 _] => set (st1 := s) end.
  set (tid := fst (next_start st1 0 (delegate_key_lock root fl))).
  set (st2 := snd (next_start st1 0 (delegate_key_lock root fl))).
  assert (Hd : tdata st2 tid = lock_bytes root fl) by reflexivity.
  assert (Hst : st_stack st2 = [preimage ++ csig; sig]) by reflexivity.
  assert (Hts2 : cache_get (st_cache st2) ts_key = Some (VOne (AInt ts))).
  { change (st_cache st2) with (cache_del (init_cache cfg vals) returned_key).
    rewrite cache_get_del_other by reflexivity. exact Hts. }
  assert (Hmsg : forall g, msg_of g (st_cache st2) = msg_of g (init_cache cfg vals)).
  { intro g. change (st_cache st2) with (cache_del (init_cache cfg vals) returned_key).
    apply msg_of_del_returned. }
  pose proof (lock_runs f st2 tid (init_cache cfg vals) Hd Hst Hts2 Hmsg) as H.
  change (S (S (S (25 + f)))) with (28 + f).
  destruct (run_tape orc cfg (28 + f) tid 0 st2) as [[] fr' st'|err fr' st'| |w]; cbn [lock_outcome] in H.
  - destruct H as (v & Hs & Hv). cbn [auth_rest]. rewrite Hs.
    replace (bytes_eqb (boolb v) [xff]) with v by (destruct v; reflexivity). exact Hv.
  - split; [discriminate|]. intro Ha. contradiction.
  - exact H.
  - exact H.
Qed.

(* verdict True  <->  the four conditions *)
Corollary delegate_lock_true_iff f vals :
  cache_get (init_cache cfg vals) ts_key = Some (VOne (AInt ts)) ->
  ((exists stf, run_auth_scripts orc cfg (28 + f)
       [delegate_key_witness sig (D ++ b ++ e ++ [can] ++ csig); delegate_key_lock root fl] vals
       = AuthVerdict true stf)
   <-> delegate_accepts (init_cache cfg vals)).
Proof.
  intro Hts. pose proof (delegate_lock_exact f vals Hts) as H.
  destruct (run_auth_scripts orc cfg (28 + f) _ vals) as [v st| |w].
  - split.
    + intros (stf & E). injection E as -> _. apply H. reflexivity.
    + intro Ha. apply H in Ha. subst v. exists st. reflexivity.
  - contradiction.
  - split; [intros (stf & E); discriminate|].
    intros (_ & _ & _ & _ & m & x & Hm & _ & Ho & _).
    destruct H as (_ & _ & _ & m' & l & Hm' & Ho' & Hl).
    rewrite Hm in Hm'. injection Hm' as <-. rewrite Ho in Ho'. injection Ho' as <-. simpl in Hl. congruence.
Qed.

End Lock.

(* given "begin <= t within the slack", the negated end test says exactly t < end (and only then: D11) *)
Lemma end_test_meaning cfg cb ce ts thr :
  ts_verdict cfg cb ts thr = true ->
  (ts_verdict cfg ce ts thr = false <-> (ts < ce)%Z).
Proof.
  unfold ts_verdict. intro H. apply andb_true_iff in H. destruct H as [_ ->].
  rewrite andb_true_r. rewrite Z.leb_gt. reflexivity.
Qed.

(* ---------------------------------------------------------------------------------------------- *)
(* 3. Certificate.preimage / pack / unpack                                                         *)
(* ---------------------------------------------------------------------------------------------- *)

Local Open Scope Z_scope.

(* "while len(x) < 4: x = b'\x00' + x" *)
Definition pad4 (l : bytes) : bytes := repeat x00 (4 - List.length l) ++ l.

Definition can_byte (can : bool) : byte := if can then xff else x00.

(* None = the method raises (ValueError / TypeError / OverflowError) *)
Definition cert_preimage (fl2 : Z -> Z) (D : bytes) (b e : Z) (can : bool) : option bytes :=
  if negb (blen D =? 32) then None
  else if negb ((0 <=? b) && (b <? 2 ^ 31)) then None
  else if negb ((0 <=? e) && (e <? 2 ^ 31)) then None
  else match int_to_bytes fl2 b, int_to_bytes fl2 e with
       | Some bb, Some eb => Some (D ++ pad4 bb ++ pad4 eb ++ [can_byte can])
       | _, _ => None
       end.

Definition cert_pack (fl2 : Z -> Z) (D : bytes) (b e : Z) (can : bool) (csig : bytes) : option bytes :=
  if negb (blen csig =? 64) then None
  else match cert_preimage fl2 D b e can with Some p => Some (p ++ csig) | None => None end.

Definition cert_unpack (data : bytes) : option (bytes * Z * Z * bool * bytes) :=
  if negb (blen data =? 105) then None
  else
    let D := firstn 32 data in let d1 := skipn 32 data in
    let bb := firstn 4 d1 in let d2 := skipn 4 d1 in
    let eb := firstn 4 d2 in let d3 := skipn 4 d2 in
    let can := b2z (nth 0 d3 x00) =? 255 in
    let csig := skipn 1 d3 in
    match bytes_to_int bb, bytes_to_int eb with
    | Some b, Some e => Some (D, b, e, can, csig)
    | _, _ => None
    end.

(* floor(log2) as computed by math.log2 is exact on the timestamps a certificate may carry *)
Definition fl2_exact_below31 (fl2 : Z -> Z) : Prop := forall a, 0 < a < 2 ^ 31 -> fl2 a = Z.log2 a.

Lemma fl2_exact_is_exact_below31 : fl2_exact_below31 fl2_exact.
Proof. intros a _. reflexivity. Qed.

(* left-padding with zero bytes does not change the big-endian value *)
Lemma be_to_Z_zero_pad n l : be_to_Z (repeat x00 n ++ l) = be_to_Z l.
Proof.
  induction n as [|n IH]; [reflexivity|].
  cbn [repeat app]. rewrite be_to_Z_cons, IH. change (b2z x00) with 0. lia.
Qed.

Lemma pad4_value l : be_to_Z (pad4 l) = be_to_Z l.
Proof. apply be_to_Z_zero_pad. Qed.

Lemma pad4_length l : (List.length l <= 4)%nat -> List.length (pad4 l) = 4%nat.
Proof. intro H. unfold pad4. rewrite app_length, repeat_length. lia. Qed.

(* a 4-byte string whose value is below 2^31 decodes to that value *)
Lemma bytes_to_int_4 l : List.length l = 4%nat -> be_to_Z l < 2 ^ 31 -> bytes_to_int l = Some (be_to_Z l).
Proof.
  intros Hl Hv. rewrite bytes_to_int_spec by (intros ->; discriminate).
  unfold blen. rewrite Hl. change (8 * Z.of_nat 4 - 1) with 31.
  replace (be_to_Z l <? 2 ^ 31) with true by (symmetry; apply Z.ltb_lt; exact Hv). reflexivity.
Qed.

(* int_to_bytes on a timestamp in range: between 1 and 4 bytes, big-endian value t *)
Lemma int_to_bytes_ts fl2 t :
  fl2_exact_below31 fl2 -> 0 <= t < 2 ^ 31 ->
  exists k, (1 <= k <= 4)%nat /\ int_to_bytes fl2 t = Some (Z_to_be k t) /\ t < 256 ^ Z.of_nat k.
Proof.
  intros Hf Ht. unfold int_to_bytes.
  replace (t <? 0) with false by (symmetry; apply Z.ltb_ge; lia).
  rewrite Z.abs_eq by lia. cbv zeta.
  set (m := if t =? 0 then 1 else fl2 t + 1).
  assert (Hm : 1 <= m <= 31 /\ t < 2 ^ m).
  { subst m. destruct (t =? 0) eqn:E.
    - apply Z.eqb_eq in E. subst t. split; [lia|reflexivity].
    - apply Z.eqb_neq in E. rewrite Hf by lia.
      assert (Hp : 0 < t) by lia.
      pose proof (Z.log2_spec t Hp) as Hs. pose proof (Z.log2_nonneg t) as Hn.
      assert (Z.log2 t < 31) by (apply Z.log2_lt_pow2; lia).
      split; [lia|]. replace (Z.log2 t + 1) with (Z.succ (Z.log2 t)) by lia. lia. }
  destruct Hm as [Hm1 Hm2].
  set (nb := if m mod 8 =? 0 then (m + 7) / 8 + 1 else (m + 7) / 8).
  assert (Hnb : 1 <= nb <= 4 /\ m <= 8 * nb - 1).
  { subst nb. destruct (m mod 8 =? 0) eqn:E; [apply Z.eqb_eq in E|apply Z.eqb_neq in E];
      Z.div_mod_to_equations; lia. }
  destruct Hnb as [Hnb1 Hnb2].
  assert (Hlt : t < 2 ^ (8 * nb)).
  { pose proof (Z.pow_le_mono_r 2 m (8 * nb) ltac:(lia) ltac:(lia)). lia. }
  unfold to_bytes.
  replace (t <? 0) with false by (symmetry; apply Z.ltb_ge; lia).
  replace (2 ^ (8 * nb) <=? t) with false by (symmetry; apply Z.leb_gt; lia).
  replace (nb <? 0) with false by (symmetry; apply Z.ltb_ge; lia).
  cbn [orb]. exists (Z.to_nat nb). split; [lia|]. split; [reflexivity|].
  rewrite Z2Nat.id by lia. rewrite pow256_2 by lia. exact Hlt.
Qed.

(* the 4-byte timestamp field produced by Certificate.preimage *)
Lemma ts_field fl2 t :
  fl2_exact_below31 fl2 -> 0 <= t < 2 ^ 31 ->
  exists x, int_to_bytes fl2 t = Some x /\ List.length (pad4 x) = 4%nat /\
            be_to_Z (pad4 x) = t /\ bytes_to_int (pad4 x) = Some t.
Proof.
  intros Hf Ht. destruct (int_to_bytes_ts fl2 t Hf Ht) as (k & Hk & Hi & Hlt).
  exists (Z_to_be k t). split; [exact Hi|].
  assert (Hl : List.length (pad4 (Z_to_be k t)) = 4%nat) by (apply pad4_length; rewrite length_Z_to_be; lia).
  assert (Hv : be_to_Z (pad4 (Z_to_be k t)) = t).
  { rewrite pad4_value, be_to_Z_Z_to_be. apply Z.mod_small. lia. }
  split; [exact Hl|]. split; [exact Hv|].
  rewrite bytes_to_int_4 by (rewrite ?Hv; lia || exact Hl). rewrite Hv. reflexivity.
Qed.

(* the serialised certificate: the five fields at the offsets the lock splits at *)
Theorem cert_pack_shape fl2 D b e can csig :
  fl2_exact_below31 fl2 ->
  List.length D = 32%nat -> List.length csig = 64%nat -> 0 <= b < 2 ^ 31 -> 0 <= e < 2 ^ 31 ->
  exists bb eb,
    cert_pack fl2 D b e can csig = Some (D ++ bb ++ eb ++ [can_byte can] ++ csig) /\
    List.length bb = 4%nat /\ List.length eb = 4%nat /\
    be_to_Z bb = b /\ be_to_Z eb = e /\ bytes_to_int bb = Some b /\ bytes_to_int eb = Some e.
Proof.
  intros Hf LD Lc Hb He.
  destruct (ts_field fl2 b Hf Hb) as (xb & Ib & Lb & Vb & Db).
  destruct (ts_field fl2 e Hf He) as (xe & Ie & Le & Ve & De).
  exists (pad4 xb), (pad4 xe).
  split; [|repeat split; assumption].
  unfold cert_pack, cert_preimage, blen. rewrite LD, Lc.
  change (Z.of_nat 64 =? 64) with true. change (Z.of_nat 32 =? 32) with true. cbn [negb].
  replace ((0 <=? b) && (b <? 2 ^ 31)) with true
    by (symmetry; apply andb_true_iff; split; [apply Z.leb_le|apply Z.ltb_lt]; lia).
  replace ((0 <=? e) && (e <? 2 ^ 31)) with true
    by (symmetry; apply andb_true_iff; split; [apply Z.leb_le|apply Z.ltb_lt]; lia).
  cbn [negb]. rewrite Ib, Ie. f_equal. rewrite <- !app_assoc. reflexivity.
Qed.

Lemma cert_unpack_fields D bb eb c csig b e :
  List.length D = 32%nat -> List.length bb = 4%nat -> List.length eb = 4%nat -> List.length csig = 64%nat ->
  bytes_to_int bb = Some b -> bytes_to_int eb = Some e ->
  cert_unpack (D ++ bb ++ eb ++ [c] ++ csig) = Some (D, b, e, b2z c =? 255, csig).
Proof.
  intros LD Lb Le Lc Db De. unfold cert_unpack, blen.
  repeat rewrite app_length. rewrite LD, Lb, Le, Lc. cbn [List.length].
  change (Z.of_nat (32 + (4 + (4 + (1 + 64)))) =? 105) with true. cbn [negb]. cbv zeta.
  rewrite (firstn_len_app D), (skipn_len_app D) by exact LD.
  rewrite (firstn_len_app bb), (skipn_len_app bb) by exact Lb.
  rewrite (firstn_len_app eb), (skipn_len_app eb) by exact Le.
  rewrite Db, De. reflexivity.
Qed.

Theorem cert_roundtrip fl2 D b e can csig :
  fl2_exact_below31 fl2 ->
  List.length D = 32%nat -> List.length csig = 64%nat -> 0 <= b < 2 ^ 31 -> 0 <= e < 2 ^ 31 ->
  exists p, cert_pack fl2 D b e can csig = Some p /\ List.length p = 105%nat /\
            cert_unpack p = Some (D, b, e, can, csig).
Proof.
  intros Hf LD Lc Hb He.
  destruct (cert_pack_shape fl2 D b e can csig Hf LD Lc Hb He) as (bb & eb & Hp & Lb & Le & _ & _ & Db & De).
  exists (D ++ bb ++ eb ++ [can_byte can] ++ csig). split; [exact Hp|]. split.
  - repeat rewrite app_length. rewrite LD, Lb, Le, Lc. reflexivity.
  - rewrite (cert_unpack_fields D bb eb (can_byte can) csig b e LD Lb Le Lc Db De).
    destruct can; reflexivity.
Qed.

Corollary cert_roundtrip_exact D b e can csig :
  List.length D = 32%nat -> List.length csig = 64%nat -> 0 <= b < 2 ^ 31 -> 0 <= e < 2 ^ 31 ->
  exists p, cert_pack fl2_exact D b e can csig = Some p /\ List.length p = 105%nat /\
            cert_unpack p = Some (D, b, e, can, csig).
Proof. apply cert_roundtrip. exact fl2_exact_is_exact_below31. Qed.

(* fl2_ok alone (floor(log2) possibly one too large, as for big arguments of math.log2) would not do: an
   over-estimate at 2^30 yields a 5-byte field, hence a 106-byte string that unpack rejects *)
Lemma fl2_ok_not_enough :
  exists fl2, fl2_ok fl2 /\
    exists p, cert_pack fl2 (repeat x00 32) (2 ^ 30) 0 true (repeat x00 64) = Some p /\ cert_unpack p = None.
Proof.
  exists (fun a => Z.log2 a + 1). split; [intros a Ha; lia|].
  eexists. split; vm_compute; reflexivity.
Qed.

Lemma cert_pack_preimage fl2 D b e can csig p :
  cert_pack fl2 D b e can csig = Some p ->
  exists pre, cert_preimage fl2 D b e can = Some pre /\ p = pre ++ csig.
Proof.
  unfold cert_pack. destruct (negb (blen csig =? 64)); [discriminate|].
  destruct (cert_preimage fl2 D b e can) as [pre|]; [|discriminate].
  intro H. injection H as <-. exists pre. split; reflexivity.
Qed.

(* ---------------------------------------------------------------------------------------------- *)
(* 2 + 3: the lock on a certificate serialised by Certificate.pack                                 *)
(* ---------------------------------------------------------------------------------------------- *)

Section Packed.
Variable orc : oracle.
Variable cfg : config.
Hypothesis Hsize : (105 <= c_max_item_size cfg)%nat.
Hypothesis Hitems : (4 <= c_max_items cfg)%nat.

(* any fuel >= 28 *)
Theorem delegate_lock_exact_fuel fuel root D b e csig sig can fl ts thr vals :
  (28 <= fuel)%nat ->
  List.length root = 32%nat -> List.length D = 32%nat -> List.length b = 4%nat -> List.length e = 4%nat ->
  List.length csig = 64%nat -> (List.length sig = 64%nat \/ List.length sig = 65%nat) ->
  flag_get (c_flags cfg) thr_key = Some (FVInt thr) ->
  cache_get (init_cache cfg vals) ts_key = Some (VOne (AInt ts)) ->
  match run_auth_scripts orc cfg fuel
          [delegate_key_witness sig (D ++ b ++ e ++ [can] ++ csig); delegate_key_lock root fl] vals with
  | AuthVerdict v _ => v = true <-> delegate_accepts orc cfg root D b e csig sig can fl ts thr (init_cache cfg vals)
  | AuthFuel => False
  | AuthUnmod _ => delegate_unmod orc cfg root D b e csig sig can ts thr (init_cache cfg vals)
  end.
Proof.
  intros Hf LR LD Lb Le Lc Ls Hthr Hts.
  replace fuel with (28 + (fuel - 28))%nat by lia.
  exact (delegate_lock_exact orc cfg Hsize Hitems root D b e csig sig can fl ts thr LR LD Lb Le Lc Ls Hthr _ vals Hts).
Qed.

Theorem delegate_lock_true_iff_fuel fuel root D b e csig sig can fl ts thr vals :
  (28 <= fuel)%nat ->
  List.length root = 32%nat -> List.length D = 32%nat -> List.length b = 4%nat -> List.length e = 4%nat ->
  List.length csig = 64%nat -> (List.length sig = 64%nat \/ List.length sig = 65%nat) ->
  flag_get (c_flags cfg) thr_key = Some (FVInt thr) ->
  cache_get (init_cache cfg vals) ts_key = Some (VOne (AInt ts)) ->
  ((exists stf, run_auth_scripts orc cfg fuel
       [delegate_key_witness sig (D ++ b ++ e ++ [can] ++ csig); delegate_key_lock root fl] vals
       = AuthVerdict true stf)
   <-> delegate_accepts orc cfg root D b e csig sig can fl ts thr (init_cache cfg vals)).
Proof.
  intros Hf LR LD Lb Le Lc Ls Hthr Hts.
  replace fuel with (28 + (fuel - 28))%nat by lia.
  exact (delegate_lock_true_iff orc cfg Hsize Hitems root D b e csig sig can fl ts thr LR LD Lb Le Lc Ls Hthr _ vals Hts).
Qed.

(* the certificate (D, begin, end, can, csig) as serialised by Certificate.pack: the lock accepts exactly when
   begin <= t within the slack, t < end, csig verifies under root over Certificate.preimage, and sig verifies
   under D over the transaction's signature fields *)
Theorem delegate_lock_packed fl2 fuel root D bts ets can csig sig fl ts thr vals :
  fl2_exact_below31 fl2 -> (28 <= fuel)%nat ->
  List.length root = 32%nat -> List.length D = 32%nat -> List.length csig = 64%nat ->
  0 <= bts < 2 ^ 31 -> 0 <= ets < 2 ^ 31 ->
  (List.length sig = 64%nat \/ List.length sig = 65%nat) ->
  flag_get (c_flags cfg) thr_key = Some (FVInt thr) ->
  cache_get (init_cache cfg vals) ts_key = Some (VOne (AInt ts)) ->
  exists pre cert,
    cert_preimage fl2 D bts ets can = Some pre /\ cert_pack fl2 D bts ets can csig = Some cert /\
    ((exists stf, run_auth_scripts orc cfg fuel [delegate_key_witness sig cert; delegate_key_lock root fl] vals
                  = AuthVerdict true stf)
     <-> ts_verdict cfg bts ts thr = true /\ ts < ets /\
         (exists x, orc PVerify [root; pre; csig] = OOk [x] /\ bytes_to_bool x = true) /\
         sig_accepts orc cfg D sig (b2z fl) (init_cache cfg vals)).
Proof.
  intros Hfl Hf LR LD Lc Hb He Ls Hthr Hts.
  destruct (cert_pack_shape fl2 D bts ets can csig Hfl LD Lc Hb He) as (bb & eb & Hp & Lb & Le & Vb & Ve & _ & _).
  destruct (cert_pack_preimage _ _ _ _ _ _ _ Hp) as (pre & Hpre & Heq).
  assert (Epre : pre = D ++ bb ++ eb ++ [can_byte can]).
  { apply (app_inv_tail csig). rewrite <- Heq. rewrite <- !app_assoc. reflexivity. }
  subst pre.
  exists (D ++ bb ++ eb ++ [can_byte can]), (D ++ bb ++ eb ++ [can_byte can] ++ csig).
  split; [exact Hpre|]. split; [exact Hp|].
  rewrite (delegate_lock_true_iff_fuel fuel root D bb eb csig sig (can_byte can) fl ts thr vals Hf LR LD Lb Le Lc Ls Hthr Hts).
  unfold delegate_accepts, cert_ok, preimage. rewrite Vb, Ve.
  split.
  - intros (H1 & H2 & H3 & H4). split; [exact H1|]. split; [|split; assumption].
    apply (end_test_meaning cfg bts ets ts thr H1). exact H2.
  - intros (H1 & H2 & H3 & H4). split; [exact H1|]. split; [|split; assumption].
    apply (end_test_meaning cfg bts ets ts thr H1). exact H2.
Qed.

End Packed.
