(* C14: make_delegate_key_lock / its witness — the authorisation verdict of the real bytes, exactly;
   Certificate.pack / unpack round trip. *)
From Coq Require Import ZArith List Bool Lia.
From Coq.Strings Require Import Byte String.
From TS Require Import Bytes Codec State Prog Ops Interp StateLemmas InterpLemmas NopSpec StackLemmas
  BytesLemmas CodecProofs TapeLemmas SigSpec ConfigSpec AuthSpec TimeSpec Asm Builders BuilderSpec.
Import ListNotations.
Local Open Scope nat_scope.

(* lia, insensitive to the spelling [bytes] / [list byte] of the type argument of [length] *)
Ltac blia := unfold bytes in *; lia.

(* ---------------------------------------------------------------------------------------------- *)
(* list facts                                                                                     *)
(* ---------------------------------------------------------------------------------------------- *)

Lemma firstn_len_app {A} (a r : list A) n : List.length a = n -> firstn n (a ++ r) = a.
Proof. intros <-. rewrite firstn_app, Nat.sub_diag, firstn_all. simpl. apply app_nil_r. Qed.

Lemma skipn_len_app {A} (a r : list A) n : List.length a = n -> skipn n (a ++ r) = r.
Proof. intros <-. rewrite skipn_app, Nat.sub_diag, skipn_all. reflexivity. Qed.

Lemma skipn_add {A} (l : list A) : forall n m, skipn (n + m) l = skipn m (skipn n l).
Proof.
  induction l as [|x l IH]; intros n m.
  - rewrite !skipn_nil. reflexivity.
  - destruct n as [|n]; [reflexivity|]. cbn [Nat.add skipn]. apply IH.
Qed.

Lemma skipn_S_of {A} (l : list A) p c tail : skipn p l = c :: tail -> skipn (S p) l = tail.
Proof. intro H. replace (S p) with (p + 1) by lia. rewrite skipn_add, H. reflexivity. Qed.

(* ---------------------------------------------------------------------------------------------- *)
(* 1. step lemmas: exact result of one instruction on a known stack / tape prefix                  *)
(* ---------------------------------------------------------------------------------------------- *)

Definition fwd (fr : frame) (n : nat) : frame := {| fr_tid := fr_tid fr; fr_ptr := fr_ptr fr + n |}.

Section Steps.
Variable orc : oracle.
Variable cfg : config.
Variable run : nat -> state -> outcome unit.

Notation fits := (fits cfg).
Notation space := (space cfg).
Notation interp := (interp orc cfg run).

Lemma data_at_adv fr st pre rest :
  data_at fr st = pre ++ rest -> data_at (adv fr (List.length pre)) st = rest.
Proof.
  unfold data_at, adv, cur. cbn [fr_tid fr_ptr]. intro H.
  rewrite skipn_add, H. apply skipn_len_app. reflexivity.
Qed.

Lemma data_at_adv1 fr st b rest : data_at fr st = b :: rest -> data_at (adv fr 1) st = rest.
Proof. intro H. exact (data_at_adv fr st [b] rest H). Qed.

Lemma adv_adv fr n m : adv (adv fr n) m = fwd fr (n + m).
Proof. unfold adv, fwd. cbn [fr_tid fr_ptr]. f_equal. lia. Qed.
Lemma adv_fwd fr n : adv fr n = fwd fr n.
Proof. reflexivity. Qed.

Lemma be1_01 : be_to_Z [x01] = 1%Z.
Proof. reflexivity. Qed.

(* OP_PUSH0 b : push the one operand byte *)
Lemma push0_exec fr st b rest s :
  data_at fr st = b :: rest -> st_stack st = s -> fits [b] -> space s ->
  interp OP_PUSH0 fr st = Done tt (fwd fr 1) (with_stack st ([b] :: s)).
Proof.
  intros Hd Hs Hf Hsp. unfold OP_PUSH0, read, put, act. cbn [bind].
  rewrite (read1 orc cfg run fr st b rest) by exact Hd. cbn [bind].
  rewrite (put_step orc cfg run) with (s := s) by assumption.
  reflexivity.
Qed.

(* OP_PUSH1 <len> v with the pointer at the length byte *)
Lemma push1_at fr st v tail s :
  data_at fr st = z2b (blen v) :: v ++ tail -> List.length v < 256 -> st_stack st = s ->
  fits v -> space s ->
  interp OP_PUSH1 fr st = Done tt (fwd fr (1 + List.length v)) (with_stack st (v :: s)).
Proof.
  intros Hd Hl Hs Hf Hsp.
  unfold OP_PUSH1, read_u8, read, put, act. cbn [bind].
  rewrite (read1 orc cfg run fr st _ _ _ _ Hd). cbn [bind].
  rewrite be1, b2z_z2b_small by (unfold blen; lia).
  pose proof (data_at_adv1 _ _ _ _ Hd) as Hd2.
  destruct v as [|v0 v'] eqn:Ev.
  - cbn [interp step]. unfold data_at in Hd2. cbn [app] in Hd2.
    change (Z.to_nat (blen [])) with 0.
    destruct (_ <? _) eqn:E.
    { apply Nat.ltb_lt in E.
      assert (Hlen : List.length (skipn (fr_ptr fr) (to_data (cur fr st))) = S (List.length tail))
        by (unfold data_at in Hd; rewrite Hd; reflexivity).
      rewrite skipn_length in Hlen. change (cur (adv fr 1) st) with (cur fr st) in *.
      unfold adv in E. cbn [fr_ptr] in E. lia. }
    cbn [firstn]. rewrite Hs.
    unfold StackLemmas.fits, StackLemmas.space in *. cbn [List.length] in *.
    destruct (c_max_item_size cfg <? 0) eqn:E1; [apply Nat.ltb_lt in E1; lia|].
    destruct (c_max_items cfg <=? List.length s) eqn:E2; [apply Nat.leb_le in E2; lia|].
    unfold adv, fwd. cbn [fr_tid fr_ptr]. do 2 f_equal. lia.
  - rewrite <- Ev in *.
    rewrite (read_n orc cfg run _ _ _ st v tail (blen v) Hd2)
      by (unfold blen; rewrite ?Nat2Z.id; subst v; simpl; lia).
    cbn [bind].
    rewrite (put_step orc cfg run) with (s := s) by assumption.
    cbn [Interp.interp]. rewrite adv_adv. reflexivity.
Qed.

(* OP_SPLIT with the index given by a one-byte item < 128 that equals the length of the first part *)
Lemma split_exec fr st i a r s :
  st_stack st = [i] :: (a ++ r) :: s ->
  (b2z i < 128)%Z -> Z.to_nat (b2z i) = List.length a -> r <> [] ->
  fits a -> fits r -> S (List.length s) < c_max_items cfg ->
  interp OP_SPLIT fr st = Done tt fr (with_stack st (r :: a :: s)).
Proof.
  intros Hs Hi Hn Hr Fa Fr Hsp.
  unfold OP_SPLIT, get_int, b2i, get, put, act, sert. cbn [bind].
  erewrite get_step by exact Hs. cbn [bind].
  rewrite b2i_single. unfold signed8.
  replace (b2z i <? 128)%Z with true by (symmetry; apply Z.ltb_lt; exact Hi).
  cbn [bind].
  erewrite get_step by reflexivity. cbn [bind].
  pose proof (b2z_range i) as Hb.
  replace (0 <=? b2z i)%Z with true by (symmetry; apply Z.leb_le; lia).
  cbn [bind].
  assert (Hlt : (b2z i <? blen (a ++ r))%Z = true).
  { apply Z.ltb_lt. unfold blen. rewrite app_length, <- Hn. destruct r; [congruence|]. simpl List.length.
    rewrite Nat2Z.inj_add, Z2Nat.id by lia. lia. }
  rewrite Hlt. cbn [bind].
  unfold firstn_z, skipn_z. rewrite Hn.
  rewrite firstn_len_app, skipn_len_app by reflexivity.
  erewrite put_step; [|reflexivity|exact Fa|unfold StackLemmas.space; simpl; blia]. cbn [bind].
  erewrite put_step; [|reflexivity|exact Fr|unfold StackLemmas.space; simpl; blia].
  reflexivity.
Qed.

(* OP_WRITE_CACHE <1> k <1> : one item moved from the stack into cache[k] as a one-item list *)
Lemma write_cache1_exec fr st k rest x s :
  data_at fr st = x01 :: k :: x01 :: rest -> st_stack st = x :: s ->
  interp OP_WRITE_CACHE fr st =
    Done tt (fwd fr 3)
         (with_cache (with_stack st s) (cache_set (st_cache st) (KBytes [k]) (VMany [ABytes x]))).
Proof.
  intros Hd Hs.
  unfold OP_WRITE_CACHE, read_u8, read, cache_items, get, act. cbn [bind].
  rewrite (read1 orc cfg run fr st _ _ _ _ Hd). cbn [bind]. rewrite be1_01.
  pose proof (data_at_adv1 _ _ _ _ Hd) as Hd2.
  rewrite (read1 orc cfg run _ st _ _ _ _ Hd2). cbn [bind].
  pose proof (data_at_adv1 _ _ _ _ Hd2) as Hd3.
  rewrite (read1 orc cfg run _ st _ _ _ _ Hd3). cbn [bind]. rewrite be1_01.
  change (nat_of 1) with 1. cbn [repeat_get bind]. unfold get, act. cbn [bind].
  erewrite get_step by exact Hs. cbn [bind].
  cbn [Interp.interp step map st_cache with_stack].
  rewrite !adv_adv. reflexivity.
Qed.

(* OP_READ_CACHE <1> k with cache[k] a one-item list *)
Lemma read_cache1_exec fr st k rest v s :
  data_at fr st = x01 :: k :: rest ->
  cache_get (st_cache st) (KBytes [k]) = Some (VMany [ABytes v]) ->
  st_stack st = s -> fits v -> space s ->
  interp OP_READ_CACHE fr st = Done tt (fwd fr 2) (with_stack st (v :: s)).
Proof.
  intros Hd Hc Hs Fv Hsp.
  unfold OP_READ_CACHE, read_u8, read, read_cache_key, act. cbn [bind].
  rewrite (read1 orc cfg run fr st _ _ _ _ Hd). cbn [bind]. rewrite be1_01.
  pose proof (data_at_adv1 _ _ _ _ Hd) as Hd2.
  rewrite (read1 orc cfg run _ st _ _ _ _ Hd2). cbn [bind].
  cbn [Interp.interp step]. rewrite Hc. cbn [cval_items put_atoms].
  unfold put, act. cbn [bind].
  erewrite put_step; [|exact Hs|exact Fv|exact Hsp].
  cbn [Interp.interp]. rewrite adv_adv. reflexivity.
Qed.

Lemma dup_exec fr st x s :
  st_stack st = x :: s -> fits x -> S (List.length s) < c_max_items cfg ->
  interp OP_DUP fr st = Done tt fr (with_stack st (x :: x :: s)).
Proof.
  intros Hs Fx Hsp. unfold OP_DUP, get, put, act. cbn [bind].
  erewrite get_step by exact Hs. cbn [bind].
  erewrite put_step; [|reflexivity|exact Fx|unfold StackLemmas.space; simpl; blia]. cbn [bind].
  erewrite put_step; [|reflexivity|exact Fx|unfold StackLemmas.space; simpl; blia].
  reflexivity.
Qed.

Definition pop_key : ckey := KBytes [x50].      (* b"P" *)

Lemma pop0_exec fr st x s :
  st_stack st = x :: s ->
  interp OP_POP0 fr st =
    Done tt fr (with_cache (with_stack st s) (cache_set (st_cache st) pop_key (VMany [ABytes x]))).
Proof.
  intro Hs. unfold OP_POP0, cache_items, get, act. cbn [bind].
  erewrite get_step by exact Hs. cbn [bind]. reflexivity.
Qed.

Lemma swap2_exec fr st a b s :
  st_stack st = a :: b :: s -> fits a -> fits b -> S (List.length s) < c_max_items cfg ->
  interp OP_SWAP2 fr st = Done tt fr (with_stack st (b :: a :: s)).
Proof.
  intros Hs Fa Fb Hsp. unfold OP_SWAP2, get, put, act. cbn [bind].
  erewrite get_step by exact Hs. cbn [bind].
  erewrite get_step by reflexivity. cbn [bind].
  erewrite put_step; [|reflexivity|exact Fa|unfold StackLemmas.space; simpl; blia]. cbn [bind].
  erewrite put_step; [|reflexivity|exact Fb|unfold StackLemmas.space; simpl; blia].
  reflexivity.
Qed.

(* OP_NOT on a canonical boolean: [xff] <-> [x00] *)
Lemma not_exec fr st v s :
  st_stack st = boolb v :: s -> room cfg s ->
  interp OP_NOT fr st = Done tt fr (with_stack st (boolb (negb v) :: s)).
Proof.
  intros Hs [H1 H2]. unfold OP_NOT, get, put, act. cbn [bind].
  erewrite get_step by exact Hs. cbn [bind].
  erewrite put_step; [|reflexivity| |exact H1].
  - destruct v; reflexivity.
  - unfold StackLemmas.fits. rewrite map_length. destruct v; simpl; lia.
Qed.

Lemma verify_exec fr st x s :
  st_stack st = x :: s ->
  interp OP_VERIFY fr st =
    if bytes_to_bool x then Done tt fr (with_stack st s)
    else Raised ScriptExecutionError fr (with_stack st s).
Proof.
  intro Hs. unfold OP_VERIFY, get, sert, act. cbn [bind].
  erewrite get_step by exact Hs. destruct (bytes_to_bool x); reflexivity.
Qed.

Lemma bytes_to_bool_boolb v : bytes_to_bool (boolb v) = v.
Proof. destruct v; reflexivity. Qed.

(* OP_CHECK_SIG_STACK: the verdict is the oracle's, and every malformed answer is False *)
Definition css_verdict (vkey msg sig : bytes) : bool :=
  match orc PVerify [vkey; msg; sig] with OOk [x] => bytes_to_bool x | _ => false end.

Lemma check_sig_stack_exec fr st vkey msg sig s :
  st_stack st = vkey :: msg :: sig :: s -> List.length vkey = 32 -> List.length sig = 64 -> room cfg s ->
  interp OP_CHECK_SIG_STACK fr st = Done tt fr (with_stack st (boolb (css_verdict vkey msg sig) :: s)).
Proof.
  intros Hs Lk Ls Hr. unfold OP_CHECK_SIG_STACK, put_bool, get, vert, act. cbn [bind].
  erewrite get_step by exact Hs. unfold blen. rewrite Lk. change (Z.of_nat 32 =? 32)%Z with true. cbn [bind].
  erewrite get_step by reflexivity. cbn [bind].
  erewrite get_step by reflexivity. rewrite Ls. change (Z.of_nat 64 =? 64)%Z with true. cbn [bind].
  rewrite prim_act_step. unfold css_verdict.
  assert (P : forall v : bool, Interp.interp orc cfg run (put (if v then [xff] else [x00])) fr (with_stack (with_stack (with_stack st (msg :: sig :: s)) (sig :: s)) s)
             = Done tt fr (with_stack st (boolb v :: s))).
  { intro v. unfold put, act. destruct v; (rewrite put1 with (rest := s); [reflexivity|exact Hr|reflexivity]). }
  destruct (orc PVerify [vkey; msg; sig]) as [[|x [|y l]]|e];
    first [apply (P false) | apply (P (bytes_to_bool x))].
Qed.

End Steps.

(* ---------------------------------------------------------------------------------------------- *)
(* stepping run_tape at a pointer given by [skipn]                                                 *)
(* ---------------------------------------------------------------------------------------------- *)

Lemma nth_of_skipn {A} (d : A) : forall p (l : list A) c tail,
  skipn p l = c :: tail -> nth p l d = c /\ p < List.length l.
Proof.
  induction p as [|p IH]; intros [|x l] c tail H; try discriminate.
  - injection H as -> _. split; [reflexivity|simpl; lia].
  - cbn [skipn] in H. destruct (IH l c tail H) as [H1 H2]. split; [exact H1|simpl; lia].
Qed.

Section Run.
Variable orc : oracle.
Variable cfg : config.

Lemma run_tape_fetch_at f tid p st data c tail :
  tdata st tid = data -> skipn p data = c :: tail ->
  run_tape orc cfg (S f) tid p st =
    match interp orc cfg (fun t s => run_tape orc cfg f t 0 s) (dispatch (N.to_nat (Byte.to_N c)))
                 {| fr_tid := tid; fr_ptr := S p |} st with
    | Done _ fr' st' => run_tape orc cfg f tid (fr_ptr fr') st'
    | Raised e fr' st' => Raised e fr' st'
    | OutOfFuel => OutOfFuel
    | Unmodelled w => Unmodelled w
    end.
Proof.
  intros Hd Hs. cbn [run_tape]. unfold tdata in Hd. rewrite Hd.
  destruct (nth_of_skipn x00 p data c tail Hs) as [Hn Hl].
  destruct (List.length data <=? p) eqn:E; [apply Nat.leb_le in E; lia|].
  rewrite Hn. reflexivity.
Qed.

Lemma data_at_next tid p st data c tail :
  tdata st tid = data -> skipn p data = c :: tail ->
  data_at {| fr_tid := tid; fr_ptr := S p |} st = tail.
Proof.
  intros Hd Hs. unfold data_at, cur. cbn [fr_tid fr_ptr]. unfold tdata in Hd. rewrite Hd.
  exact (skipn_S_of data p c tail Hs).
Qed.

(* an instruction that completes normally *)
Lemma run_tape_step f tid p st data c tail fr' st' :
  tdata st tid = data -> skipn p data = c :: tail ->
  (data_at {| fr_tid := tid; fr_ptr := S p |} st = tail ->
   interp orc cfg (fun t s => run_tape orc cfg f t 0 s) (dispatch (N.to_nat (Byte.to_N c)))
          {| fr_tid := tid; fr_ptr := S p |} st = Done tt fr' st') ->
  run_tape orc cfg (S f) tid p st = run_tape orc cfg f tid (fr_ptr fr') st'.
Proof.
  intros Hd Hs Hi. rewrite (run_tape_fetch_at f tid p st data c tail Hd Hs).
  rewrite (Hi (data_at_next tid p st data c tail Hd Hs)). reflexivity.
Qed.

End Run.
