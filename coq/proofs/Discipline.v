(* The discipline of the control flag 'returned' (OP_RETURN).

   OP_RETURN moves the pointer to the end of its tape and sets cache['returned'].  IF / IF_ELSE /
   TRY_EXCEPT propagate the flag to the enclosing tape, CALL / LOOP clear it, EVAL clears or
   propagates.  A STALE flag (still set when a later instruction starts) would make the next
   IF / TRY body end its script although no RETURN ran in it.  This file proves the invariant
   that excludes it:

   (D) in a run started with the flag clear, whenever an instruction is about to be fetched the
       flag is clear, every raise happens in a state where the flag is clear, and a sub-tape or
       script that ends normally ends either with the flag clear or with its pointer at the end
       of its tape. *)
From Coq Require Import ZArith List Bool Lia.
From Coq.Strings Require Import Byte String.
From TS Require Import Bytes Codec State Prog Ops Interp StateLemmas Closure Pointer InterpLemmas.
Import ListNotations.
Local Open Scope nat_scope.

(* ------------------------------------------------------------------------------------------ *)
(* Definitions                                                                                *)
(* ------------------------------------------------------------------------------------------ *)

Definition flag_clear (st : state) : Prop := cache_get (st_cache st) returned_key = None.

Definition at_end (fr : frame) (st : state) : Prop :=
  fr_ptr fr = List.length (to_data (nth_tape st (fr_tid fr))).

Inductive mode :=
| M0    (* flag clear *)
| ME    (* flag clear, pointer at end *)
| M1    (* just back from a sub-tape: flag unknown *)
| M1S   (* flag known to be set *)
| M2.   (* pointer at end; flag may be set *)

Definition sem (m : mode) (fr : frame) (st : state) : Prop :=
  match m with
  | M0 => flag_clear st
  | ME => flag_clear st /\ at_end fr st
  | M1 => True
  | M1S => ~ flag_clear st
  | M2 => at_end fr st
  end.

Definition quiet (m : mode) : Prop := m = M0 \/ m = ME.        (* a raise is allowed only here *)
Definition final (m : mode) : Prop := m = M0 \/ m = ME \/ m = M2.

Definition act_ok {X} (a : action X) (m : mode) (Q : X -> mode -> Prop) : Prop :=
  match a in action X return (X -> mode -> Prop) -> Prop with
  | AReturnedTest => fun Q =>
      match m with
      | M0 | ME => Q false m
      | M1 => Q true M1S /\ Q false M0
      | M1S => Q true M1S
      | M2 => forall b, Q b M2
      end
  | AReturnedClear => fun Q => Q tt M0
  | ASetPtrEnd => fun Q => match m with M0 | ME => Q tt ME | _ => Q tt M2 end
  | AReturnedSet => fun Q => (m = ME \/ m = M2) /\ Q tt M2
  | ACallDef _ | ARunSub _ _ | ARunLoop _ => fun Q => quiet m /\ Q tt M1
  | ATrySub _ => fun Q => quiet m /\ Q None M1 /\ forall e, Q (Some e) M0
  | _ => fun Q => quiet m /\ forall x, Q x M0
  end Q.

Fixpoint disc {A} (p : prog A) (m : mode) (post : A -> mode -> Prop) : Prop :=
  match p with
  | Ret a => post a m
  | Raise _ => quiet m
  | Unmod _ => True
  | Act a k => act_ok a m (fun x m' => disc (k x) m' post)
  end.

(* ------------------------------------------------------------------------------------------ *)
(* 1, 2: monotonicity and the bind rule                                                       *)
(* ------------------------------------------------------------------------------------------ *)

Lemma act_ok_mono X (a : action X) m (P Q : X -> mode -> Prop) :
  (forall x m', P x m' -> Q x m') -> act_ok a m P -> act_ok a m Q.
Proof.
  intros H. destruct a; cbn [act_ok]; try (destruct m); intuition auto.
Qed.

Lemma disc_mono A (p : prog A) : forall m (P Q : A -> mode -> Prop),
  (forall a m', P a m' -> Q a m') -> disc p m P -> disc p m Q.
Proof.
  induction p as [a|e|w|X a k IH]; intros m P Q HPQ H; cbn [disc] in *; auto.
  eapply act_ok_mono; [|exact H]. cbv beta. intros x m' Hx. eapply IH; eauto.
Qed.

Lemma disc_bind A B (p : prog A) (f : A -> prog B) : forall m (Q1 : A -> mode -> Prop) (Q2 : B -> mode -> Prop),
  disc p m Q1 -> (forall a m', Q1 a m' -> disc (f a) m' Q2) -> disc (bind p f) m Q2.
Proof.
  induction p as [a|e|w|X a k IH]; intros m Q1 Q2 H Hf; cbn [disc bind] in *; auto.
  eapply act_ok_mono; [|exact H]. cbv beta. intros x m' Hx. eapply IH; eauto.
Qed.

(* ------------------------------------------------------------------------------------------ *)
(* modes                                                                                      *)
(* ------------------------------------------------------------------------------------------ *)

Lemma quiet_clear m fr st : quiet m -> sem m fr st -> flag_clear st.
Proof. intros [->| ->]; simpl; intuition. Qed.

Lemma quiet_final m : quiet m -> final m.
Proof. unfold quiet, final. intuition. Qed.

(* ------------------------------------------------------------------------------------------ *)
(* 3: soundness of the judgement                                                              *)
(* ------------------------------------------------------------------------------------------ *)

(* what is assumed of the function that runs sub-tapes *)
Definition run_ok (run : nat -> state -> outcome unit) : Prop :=
  forall tid s, flag_clear s ->
    match run tid s with
    | Raised _ _ s' => flag_clear s'
    | _ => True
    end.

Section Sound.
Variable orc : oracle.
Variable cfg : config.
Variable run : nat -> state -> outcome unit.
Hypothesis Hrun : run_ok run.

Ltac sub_run Hc :=
  match goal with |- context [run ?t ?s] =>
    let Hr := fresh "Hr" in pose proof (Hrun t s Hc) as Hr; destruct (run t s) end.

Lemma step_sound X (a : action X) m (Q : X -> mode -> Prop) fr st :
  act_ok a m Q -> sem m fr st ->
  match step orc cfg run a fr st with
  | SOk x fr' st' => exists m', Q x m' /\ sem m' fr' st'
  | SRaise _ _ st' => flag_clear st'
  | _ => True
  end.
Proof.
  intros H Hs.
  destruct a; cbn [act_ok] in H;
    try (destruct H as [Hq HQ]; pose proof (quiet_clear _ _ _ Hq Hs) as Hc); simpl.
  - (* AGet *) destruct (st_stack st); [exact Hc|]. exists M0. split; [apply HQ|exact Hc].
  - (* APut *)
    destruct (_ <? _); [exact Hc|]. destruct (_ <=? _); [exact Hc|].
    exists M0. split; [apply HQ|exact Hc].
  - (* APeek *) destruct (st_stack st); [exact Hc|]. exists M0. split; [apply HQ|exact Hc].
  - (* ADepth *) exists M0. split; [apply HQ|exact Hc].
  - (* ASwapIdx *) destruct (_ && _); [|exact I]. exists M0. split; [apply HQ|exact Hc].
  - (* ARead *) destruct (_ <? _); [exact Hc|]. exists M0. split; [apply HQ|exact Hc].
  - (* ASetPtrEnd *)
    destruct m; simpl in Hs.
    + exists ME. split; [exact H|]. split; [exact Hs|reflexivity].
    + exists ME. split; [exact H|]. split; [apply Hs|reflexivity].
    + exists M2. split; [exact H|reflexivity].
    + exists M2. split; [exact H|reflexivity].
    + exists M2. split; [exact H|reflexivity].
  - (* ACount *) exists M0. split; [apply HQ|exact Hc].
  - (* ACountIncr *) exists M0. split; [apply HQ|exact Hc].
  - (* ACacheGet *) exists M0. split; [apply HQ|exact Hc].
  - (* ACacheSet: a bytes key never is the flag key *)
    exists M0. split; [apply HQ|].
    change (cache_get (cache_set (st_cache st) (KBytes k) v) returned_key = None).
    rewrite cache_get_set_other by reflexivity. exact Hc.
  - (* AReturnedSet *)
    destruct H as [Hm HQ]. exists M2. split; [exact HQ|].
    change (at_end fr st). destruct Hm as [->| ->]; simpl in Hs; apply Hs.
  - (* AReturnedClear: deleting the flag clears it *)
    exists M0. split; [exact H|]. apply cache_get_del_same.
  - (* AReturnedTest *)
    destruct m; simpl in Hs.
    + unfold flag_clear in Hs. rewrite Hs. exists M0. split; [exact H|exact Hs].
    + destruct Hs as [Hs He]. unfold flag_clear in Hs. rewrite Hs. exists ME. split; [exact H|]. split; assumption.
    + destruct H as [Ht Hf]. destruct (cache_get (st_cache st) returned_key) eqn:E.
      * exists M1S. split; [exact Ht|]. simpl. unfold flag_clear. rewrite E. discriminate.
      * exists M0. split; [exact Hf|exact E].
    + destruct (cache_get (st_cache st) returned_key) eqn:E.
      * exists M1S. split; [exact H|]. simpl. unfold flag_clear. rewrite E. discriminate.
      * exfalso. apply Hs. exact E.
    + exists M2. split; [apply H|exact Hs].
  - (* AConfig *) exists M0. split; [apply HQ|exact Hc].
  - (* APrim *) exists M0. split; [apply HQ|exact Hc].
  - (* ARandIdx *) exists M0. split; [apply HQ|exact Hc].
  - (* ADefSet *) exists M0. split; [apply HQ|exact Hc].
  - (* ADefGet *) exists M0. split; [apply HQ|exact Hc].
  - (* ACallDef *)
    unfold after_run. sub_run Hc; try exact I; [|exact Hr].
    exists M1. split; [exact HQ|exact I].
  - (* ARunSub *)
    unfold after_run. sub_run Hc; try exact I; [|exact Hr].
    exists M1. split; [exact HQ|exact I].
  - (* ATrySub *)
    sub_run Hc; try exact I.
    + exists M1. split; [apply HQ|exact I].
    + exists M0. split; [apply HQ|exact Hr].
  - (* ALoopNew *) exists M0. split; [apply HQ|exact Hc].
  - (* ARunLoop *)
    unfold after_run. sub_run Hc; try exact I; [|exact Hr].
    exists M1. split; [exact HQ|exact I].
  - (* ALog *) exists M0. split; [apply HQ|exact Hc].
Qed.

Theorem disc_sound A (p : prog A) : forall m (post : A -> mode -> Prop),
  disc p m post -> forall fr st, sem m fr st ->
  match interp orc cfg run p fr st with
  | Done a fr' st' => exists m', post a m' /\ sem m' fr' st'
  | Raised _ _ st' => flag_clear st'
  | _ => True
  end.
Proof.
  induction p as [a|e|w|X a k IH]; intros m post Hd fr st Hs; cbn [disc interp] in *.
  - exists m. split; assumption.
  - eapply quiet_clear; eauto.
  - exact I.
  - pose proof (step_sound X a m _ fr st Hd Hs) as Hstep.
    destruct (step orc cfg run a fr st) as [x fr' st'|e fr' st'| |w]; try exact I; [|exact Hstep].
    destruct Hstep as (m' & Hd' & Hs'). eapply IH; eauto.
Qed.

End Sound.

(* ------------------------------------------------------------------------------------------ *)
(* 4: every instruction is disciplined                                                        *)
(* ------------------------------------------------------------------------------------------ *)

(* programs made of actions that neither touch the flag nor run a sub-tape *)
Definition simple_act {X} (a : action X) : bool :=
  match a with
  | AReturnedTest | AReturnedClear | ASetPtrEnd | AReturnedSet
  | ACallDef _ | ARunSub _ _ | ARunLoop _ | ATrySub _ => false
  | _ => true
  end.

Fixpoint simple {A} (p : prog A) : Prop :=
  match p with
  | Act a k => simple_act a = true /\ forall x, simple (k x)
  | _ => True
  end.

Lemma simple_disc A (p : prog A) : forall m, simple p -> quiet m -> disc p m (fun _ m' => quiet m').
Proof.
  induction p as [a|e|w|X a k IH]; intros m Hs Hq; cbn [disc simple] in *; auto.
  destruct Hs as [Ha Hk].
  destruct a; cbn [act_ok simple_act] in *; try discriminate;
    (split; [exact Hq|intro x; apply IH; [apply Hk|left; reflexivity]]).
Qed.

Lemma simple_final A (p : prog A) m : simple p -> quiet m -> disc p m (fun _ m' => final m').
Proof.
  intros Hs Hq. eapply disc_mono; [|apply simple_disc; eassumption].
  cbv beta. intros _ m'. apply quiet_final.
Qed.

Lemma simple_bind A B (p : prog A) (f : A -> prog B) :
  simple p -> (forall a, simple (f a)) -> simple (bind p f).
Proof.
  intros Hp Hf. induction p as [a|e|w|X a k IH]; cbn [bind simple] in *; auto.
  destruct Hp as [Ha Hk]. split; [exact Ha|]. intro x. apply IH. apply Hk.
Qed.

Lemma simple_Act A X (a : action X) (k : X -> prog A) :
  simple_act a = true -> (forall x, simple (k x)) -> simple (Act a k).
Proof. intros; split; assumption. Qed.

Lemma simple_act_intro X (a : action X) : simple_act a = true -> simple (act a).
Proof. intro H. split; [exact H|]. intro x. exact I. Qed.

Create HintDb simple_db.

Ltac head t := lazymatch t with ?f _ => head f | _ => t end.

Ltac simp1 :=
  cbv beta zeta;
  lazymatch goal with
  | |- simple (bind _ _) => apply simple_bind; [|intro]
  | |- simple (Ret _) => exact I
  | |- simple (Raise _) => exact I
  | |- simple (Unmod _) => exact I
  | |- simple (Act _ _) => apply simple_Act; [reflexivity|intro]
  | |- simple (act _) => apply simple_act_intro; reflexivity
  | |- simple (if ?b then _ else _) => destruct b
  | |- simple (match ?x with _ => _ end) => destruct x
  | |- simple ?p => first [ solve [auto with simple_db nocore] | let h := head p in unfold h ]
  end.
Ltac simp := repeat simp1.

(* helpers of Prog.v *)
Lemma simple_sert c : simple (sert c).            Proof. simp. Qed.
Lemma simple_vert c : simple (vert c).            Proof. simp. Qed.
Lemma simple_tert c : simple (tert c).            Proof. simp. Qed.
Lemma simple_get : simple get.                    Proof. simp. Qed.
Lemma simple_put b : simple (put b).              Proof. simp. Qed.
Lemma simple_read n : simple (read n).            Proof. simp. Qed.
Lemma simple_read_u8 : simple read_u8.            Proof. simp. Qed.
Lemma simple_read_u16 : simple read_u16.          Proof. simp. Qed.
Lemma simple_config : simple config_.             Proof. simp. Qed.
Lemma simple_prim_list p l : simple (prim_list p l). Proof. simp. Qed.
#[export] Hint Resolve simple_sert simple_vert simple_tert simple_get simple_put simple_read
  simple_read_u8 simple_read_u16 simple_config simple_prim_list : simple_db.
Lemma simple_prim1 p l : simple (prim1 p l).      Proof. simp. Qed.
#[export] Hint Resolve simple_prim1 : simple_db.
Lemma simple_prim_bool p l : simple (prim_bool p l). Proof. simp. Qed.
#[export] Hint Resolve simple_prim_bool : simple_db.

Lemma simple_repeat_get n : simple (repeat_get n).
Proof. induction n; cbn [repeat_get]; simp. Qed.
Lemma simple_put_all l : simple (put_all l).
Proof. induction l; cbn [put_all]; simp. Qed.
#[export] Hint Resolve simple_repeat_get simple_put_all : simple_db.

(* helpers of Ops.v *)
Lemma simple_fl2 a : simple (fl2_prog a).         Proof. simp. Qed.
#[export] Hint Resolve simple_fl2 : simple_db.
Lemma simple_i2b n : simple (i2b n).              Proof. simp. Qed.
Lemma simple_b2i b : simple (b2i b).              Proof. simp. Qed.
#[export] Hint Resolve simple_i2b simple_b2i : simple_db.
Lemma simple_get_int : simple get_int.            Proof. simp. Qed.
Lemma simple_repeat_get_z n : simple (repeat_get_z n). Proof. simp. Qed.
Lemma simple_put_bool b : simple (put_bool b).    Proof. simp. Qed.
Lemma simple_cache_raw k v : simple (cache_raw k v). Proof. simp. Qed.
Lemma simple_cache_items k l : simple (cache_items k l). Proof. simp. Qed.
#[export] Hint Resolve simple_get_int simple_repeat_get_z simple_put_bool simple_cache_raw
  simple_cache_items : simple_db.

Lemma simple_log_sigext l : simple (log_sigext l).
Proof. induction l; cbn [log_sigext]; simp. Qed.
#[export] Hint Resolve simple_log_sigext : simple_db.
Lemma simple_run_sig_ext : simple run_sig_ext.    Proof. simp. Qed.
#[export] Hint Resolve simple_run_sig_ext : simple_db.

Lemma simple_msg_go idx flag : forall acc, simple (msg_go idx flag acc).
Proof. induction idx; intro acc; cbn [msg_go]; simp. Qed.
#[export] Hint Resolve simple_msg_go : simple_db.
Lemma simple_get_message_core f : simple (get_message_core f). Proof. simp. Qed.
#[export] Hint Resolve simple_get_message_core : simple_db.

Lemma simple_put_atoms l : simple (put_atoms l).
Proof. induction l as [|a l IH]; cbn [put_atoms]; simp. Qed.
Lemma simple_put_values l : simple (put_values l).
Proof. induction l as [|a l IH]; cbn [put_values]; simp. Qed.
#[export] Hint Resolve simple_put_atoms simple_put_values : simple_db.
Lemma simple_read_cache_key k : simple (read_cache_key k). Proof. simp. Qed.
Lemma simple_cache_size_key k : simple (cache_size_key k). Proof. simp. Qed.
#[export] Hint Resolve simple_read_cache_key simple_cache_size_key : simple_db.

Lemma simple_fold_ints n f : forall acc, simple (fold_ints n f acc).
Proof. induction n; intro acc; cbn [fold_ints]; simp. Qed.
#[export] Hint Resolve simple_fold_ints : simple_db.
Lemma simple_pydiv a b : simple (pydiv a b).      Proof. simp. Qed.
Lemma simple_pymod a b : simple (pymod a b).      Proof. simp. Qed.
#[export] Hint Resolve simple_pydiv simple_pymod : simple_db.

Lemma simple_get_float_t : simple get_float_t.    Proof. simp. Qed.
Lemma simple_bytes_to_float x : simple (bytes_to_float x). Proof. simp. Qed.
Lemma simple_check_nan d : simple (check_nan d).  Proof. simp. Qed.
Lemma simple_put_float d : simple (put_float d).  Proof. simp. Qed.
#[export] Hint Resolve simple_get_float_t simple_bytes_to_float simple_check_nan simple_put_float : simple_db.
Lemma simple_fold_floats n p : forall acc, simple (fold_floats n p acc).
Proof. induction n; intro acc; cbn [fold_floats]; simp. Qed.
#[export] Hint Resolve simple_fold_floats : simple_db.

Lemma simple_clamp_scalar s b : simple (clamp_scalar s b). Proof. simp. Qed.
#[export] Hint Resolve simple_clamp_scalar : simple_db.
Lemma simple_H_big l : simple (H_big l).          Proof. simp. Qed.
#[export] Hint Resolve simple_H_big : simple_db.
Lemma simple_H_small l : simple (H_small l).      Proof. simp. Qed.
Lemma simple_derive_key s : simple (derive_key_from_seed s). Proof. simp. Qed.
Lemma simple_derive_point x : simple (derive_point x). Proof. simp. Qed.
#[export] Hint Resolve simple_H_small simple_derive_key simple_derive_point : simple_db.
Lemma simple_check_points l : simple (check_points l).
Proof. induction l; cbn [check_points]; simp. Qed.
Lemma simple_sum_with p l : forall acc, simple (sum_with p acc l).
Proof. induction l; intro acc; cbn [sum_with]; simp. Qed.
#[export] Hint Resolve simple_check_points simple_sum_with : simple_db.
Lemma simple_aggregate_points l : simple (aggregate_points l). Proof. simp. Qed.
Lemma simple_aggregate_scalars l : simple (aggregate_scalars l). Proof. simp. Qed.
#[export] Hint Resolve simple_aggregate_points simple_aggregate_scalars : simple_db.
Lemma simple_sub_go n p : forall acc, simple (sub_go n p acc).
Proof. induction n; intro acc; cbn [sub_go]; simp. Qed.
#[export] Hint Resolve simple_sub_go : simple_db.

Lemma simple_check_sig_body a : simple (check_sig_body a). Proof. simp. Qed.
#[export] Hint Resolve simple_check_sig_body : simple_db.
Lemma simple_ms_find a sig keys : simple (ms_find a sig keys).
Proof. induction keys; cbn [ms_find]; simp. Qed.
#[export] Hint Resolve simple_ms_find : simple_db.
Lemma simple_ms_go a sigs : forall keys confirmed, simple (ms_go a sigs keys confirmed).
Proof. induction sigs; intros keys confirmed; cbn [ms_go]; simp. Qed.
#[export] Hint Resolve simple_ms_go : simple_db.

Lemma simple_ct_run l t f : simple (ct_run l t f).
Proof. induction l as [|[i p] l IH]; cbn [ct_run]; simp. Qed.
#[export] Hint Resolve simple_ct_run : simple_db.
Lemma simple_ct_go idx flag : forall valid, simple (ct_go idx flag valid).
Proof. induction idx; intro valid; cbn [ct_go]; simp. Qed.
#[export] Hint Resolve simple_ct_go : simple_db.

Lemma simple_decode_utf8 b : simple (decode_utf8 b). Proof. simp. Qed.
Lemma simple_swap_core i j : simple (swap_core i j). Proof. simp. Qed.
Lemma simple_when b p : simple p -> simple (when b p). Proof. intro. simp. Qed.
#[export] Hint Resolve simple_decode_utf8 simple_swap_core simple_when : simple_db.

Lemma simple_NOP : simple NOP. Proof. simp. Qed.

(* instructions used inside OP_MERKLEVAL *)
Lemma simple_OP_DUP : simple OP_DUP.               Proof. simp. Qed.
Lemma simple_OP_SHA256 : simple OP_SHA256.         Proof. simp. Qed.
Lemma simple_OP_SWAP2 : simple OP_SWAP2.           Proof. simp. Qed.
Lemma simple_OP_XOR : simple OP_XOR.               Proof. simp. Qed.
Lemma simple_OP_EQUAL_VERIFY : simple OP_EQUAL_VERIFY. Proof. simp. Qed.
#[export] Hint Resolve simple_OP_DUP simple_OP_SHA256 simple_OP_SWAP2 simple_OP_XOR
  simple_OP_EQUAL_VERIFY : simple_db.

(* ---- the control instructions ---- *)

(* run a simple prefix [p] of [bind p f] in a quiet mode; continue in a quiet mode *)
Ltac pre :=
  eapply disc_bind;
  [ apply simple_disc; [solve [simp]|assumption]
  | let a := fresh "a" in let m := fresh "m" in let H := fresh "Hq" in
    cbv beta; intros a m H ].

Ltac fin := unfold final, quiet in *; intuition (auto; congruence).

Lemma disc_OP_RETURN m (post : unit -> mode -> Prop) : post tt M2 -> disc OP_RETURN m post.
Proof. intro H. destruct m; cbn; auto. Qed.

Lemma disc_propagate_return : disc propagate_return M1 (fun _ m' => final m').
Proof. cbn. fin. Qed.

Lemma disc_OP_RETURN_final m : quiet m -> disc OP_RETURN m (fun _ m' => final m').
Proof. intros _. apply disc_OP_RETURN. fin. Qed.

Lemma disc_OP_CALL m : quiet m -> disc OP_CALL m (fun _ m' => final m').
Proof.
  intro Hq. unfold OP_CALL. do 6 pre.
  destruct a4 as [tid|]; cbn; fin.
Qed.

Lemma disc_OP_IF m : quiet m -> disc OP_IF m (fun _ m' => final m').
Proof.
  intro Hq. unfold OP_IF. do 3 pre.
  destruct (bytes_to_bool _); cbn; fin.
Qed.

Lemma disc_OP_IF_ELSE m : quiet m -> disc OP_IF_ELSE m (fun _ m' => final m').
Proof.
  intro Hq. unfold OP_IF_ELSE. do 5 pre. cbn. fin.
Qed.

Lemma disc_eval_body m : quiet m -> disc eval_body m (fun _ m' => final m').
Proof.
  intro Hq. unfold eval_body. do 6 pre.
  destruct (flag_on _ _); cbn; fin.
Qed.

Lemma disc_OP_MERKLEVAL m : quiet m -> disc OP_MERKLEVAL m (fun _ m' => final m').
Proof.
  intro Hq. unfold OP_MERKLEVAL. do 10 pre. apply disc_eval_body. assumption.
Qed.

Lemma disc_OP_TRY_EXCEPT m : quiet m -> disc OP_TRY_EXCEPT m (fun _ m' => final m').
Proof.
  intro Hq. unfold OP_TRY_EXCEPT. do 4 pre. cbn. fin.
Qed.

Lemma disc_loop_go n : forall i limit tid cond m,
  quiet m -> disc (loop_go n i limit tid cond) m (fun _ m' => final m').
Proof.
  induction n as [|n IH]; intros i limit tid cond m Hq; cbn [loop_go];
    (destruct (bytes_to_bool cond); [|cbn; fin]); pre.
  - exact I.
  - cbn [disc bind act act_ok]. split; [assumption|]. split; [fin|].
    split; [left; reflexivity|]. intro c. apply IH. left; reflexivity.
Qed.

Lemma disc_OP_LOOP m : quiet m -> disc OP_LOOP m (fun _ m' => final m').
Proof.
  intro Hq. unfold OP_LOOP. do 5 pre. apply disc_loop_go. assumption.
Qed.

Lemma disc_OP_TAPROOT m : quiet m -> disc OP_TAPROOT m (fun _ m' => final m').
Proof.
  intro Hq. unfold OP_TAPROOT. do 4 pre.
  destruct (_ =? _)%Z.
  - do 7 pre. destruct (bytes_eqb _ _).
    + pre. apply disc_eval_body. assumption.
    + apply simple_final; [simp|assumption].
  - apply simple_final; [simp|assumption].
Qed.

Theorem op_prog_disc (o : opcode) : disc (op_prog o) M0 (fun _ m => final m).
Proof.
  assert (Hq : quiet M0) by (left; reflexivity).
  destruct o; cbn [op_prog];
    first
      [ apply disc_OP_RETURN_final; exact Hq
      | apply disc_OP_CALL; exact Hq
      | apply disc_OP_IF; exact Hq
      | apply disc_OP_IF_ELSE; exact Hq
      | apply disc_eval_body; exact Hq
      | apply disc_OP_MERKLEVAL; exact Hq
      | apply disc_OP_TRY_EXCEPT; exact Hq
      | apply disc_OP_LOOP; exact Hq
      | apply disc_OP_TAPROOT; exact Hq
      | apply simple_final; [solve [simp]|exact Hq] ].
Qed.

(* every code: the assigned ones and the unassigned ones (NOP) *)
Theorem dispatch_disc (code : nat) : disc (dispatch code) M0 (fun _ m => final m).
Proof.
  unfold dispatch. destruct (opcode_of_nat code) as [o|].
  - apply op_prog_disc.
  - apply simple_final; [exact simple_NOP|left; reflexivity].
Qed.

(* ------------------------------------------------------------------------------------------ *)
(* 5: the fetch / dispatch loop                                                               *)
(* ------------------------------------------------------------------------------------------ *)

Section Run.
Variable orc : oracle.
Variable cfg : config.

Lemma run_tape_at_end f tid ptr st :
  ptr = List.length (to_data (nth_tape st tid)) ->
  run_tape orc cfg f tid ptr st =
    match f with O => OutOfFuel | S _ => Done tt {| fr_tid := tid; fr_ptr := ptr |} st end.
Proof.
  intro E. destruct f; simpl; [reflexivity|]. rewrite <- E. rewrite Nat.leb_refl. reflexivity.
Qed.

Definition code_at (st : state) (tid ptr : nat) : nat :=
  N.to_nat (Byte.to_N (nth ptr (to_data (nth_tape st tid)) x00)).

(* the unfolding of one iteration of run_tape *)
Lemma run_tape_unfold f tid ptr st :
  ptr < List.length (to_data (nth_tape st tid)) ->
  run_tape orc cfg (S f) tid ptr st =
    match interp orc cfg (fun t s => run_tape orc cfg f t 0 s) (dispatch (code_at st tid ptr))
                 {| fr_tid := tid; fr_ptr := S ptr |} st with
    | Done _ fr' st' => run_tape orc cfg f tid (fr_ptr fr') st'
    | Raised e fr' st' => Raised e fr' st'
    | OutOfFuel => OutOfFuel
    | Unmodelled w => Unmodelled w
    end.
Proof.
  intro H. cbn [run_tape]. apply Nat.leb_gt in H. rewrite H. reflexivity.
Qed.

(* the discipline of one activation of run_tape *)
Definition tape_post (o : outcome unit) : Prop :=
  match o with
  | Done _ fr' st' => flag_clear st' \/ at_end fr' st'
  | Raised _ _ st' => flag_clear st'
  | _ => True
  end.

Lemma tape_post_run_ok run : (forall t s, flag_clear s -> tape_post (run t s)) -> run_ok run.
Proof.
  intros H t s Hs. specialize (H t s Hs). destruct (run t s); simpl in *; auto.
Qed.

(* one instruction, run from a flag-clear state by an activation of tape [tid] *)
Lemma instr_inv f tid ptr st :
  (forall t s, flag_clear s -> tape_post (run_tape orc cfg f t 0 s)) ->
  flag_clear st ->
  match interp orc cfg (fun t s => run_tape orc cfg f t 0 s) (dispatch (code_at st tid ptr))
               {| fr_tid := tid; fr_ptr := S ptr |} st with
  | Done _ fr' st' => fr_tid fr' = tid /\ (flag_clear st' \/ at_end fr' st')
  | Raised _ _ st' => flag_clear st'
  | _ => True
  end.
Proof.
  intros IH Hc.
  pose proof (disc_sound orc cfg _ (tape_post_run_ok _ IH) unit (dispatch (code_at st tid ptr)) M0 _
                (dispatch_disc _) {| fr_tid := tid; fr_ptr := S ptr |} st Hc) as Hi.
  assert (Hheap : Closure.run_ok R_heap (fun t s => run_tape orc cfg f t 0 s))
    by (intros t s; apply run_tape_heap).
  pose proof (interp_ptr orc cfg _ Hheap unit (dispatch (code_at st tid ptr))
                {| fr_tid := tid; fr_ptr := S ptr |} st) as Hp.
  destruct (interp orc cfg _ _ _ st) as [a fr' st'|e fr' st'| |w]; try exact I; [|exact Hi].
  destruct Hi as (m' & Hf & Hs). destruct Hp as (Ht & _). simpl in Ht.
  split; [exact Ht|].
  destruct Hf as [->|[->| ->]]; simpl in Hs.
  - left. exact Hs.
  - left. apply Hs.
  - right. exact Hs.
Qed.

Theorem run_tape_inv : forall fuel tid ptr st,
  flag_clear st -> tape_post (run_tape orc cfg fuel tid ptr st).
Proof.
  induction fuel as [|f IH]; intros tid ptr st Hc; [exact I|].
  destruct (Nat.lt_ge_cases ptr (List.length (to_data (nth_tape st tid)))) as [Hlt|Hge].
  - rewrite run_tape_unfold by exact Hlt.
    pose proof (instr_inv f tid ptr st (fun t s => IH t 0 s) Hc) as Hi.
    destruct (interp orc cfg _ _ _ st) as [a fr' st'|e fr' st'| |w]; try exact I; [|exact Hi].
    destruct Hi as (Ht & [Hc'|He]).
    + apply IH. exact Hc'.
    + (* the instruction returned: the pointer is at the end, the loop stops *)
      unfold at_end in He. rewrite Ht in He.
      rewrite run_tape_at_end by exact He.
      destruct f; [exact I|]. simpl. right. exact He.
  - cbn [run_tape]. apply Nat.leb_le in Hge. rewrite Hge. simpl. left. exact Hc.
Qed.

(* item 5 *)
Theorem run_tape_discipline : forall fuel tid ptr st,
  flag_clear st ->
  match run_tape orc cfg fuel tid ptr st with
  | Done _ fr' st' => flag_clear st' \/ at_end fr' st'
  | Raised _ _ st' => flag_clear st'
  | _ => True
  end.
Proof. exact run_tape_inv. Qed.

(* ------------------------------------------------------------------------------------------ *)
(* 6a: every fetch sees a clear flag                                                          *)
(* ------------------------------------------------------------------------------------------ *)

(* In run_tape (S f) tid ptr st (see run_tape_unfold) with a clear flag and an instruction left:
   the instruction is interpreted from the flag-clear state st; if it raises, the flag is clear;
   if it ends normally and the pointer is still inside the tape -- so that run_tape will fetch
   another instruction -- the flag is clear again. *)
Theorem fetch_flag_clear f tid ptr st :
  flag_clear st -> ptr < List.length (to_data (nth_tape st tid)) ->
  match interp orc cfg (fun t s => run_tape orc cfg f t 0 s) (dispatch (code_at st tid ptr))
               {| fr_tid := tid; fr_ptr := S ptr |} st with
  | Done _ fr' st' =>
      fr_tid fr' = tid /\
      (fr_ptr fr' < List.length (to_data (nth_tape st' tid)) -> flag_clear st')
  | Raised _ _ st' => flag_clear st'
  | _ => True
  end.
Proof.
  intros Hc _.
  pose proof (instr_inv f tid ptr st (fun t s => run_tape_inv f t 0 s) Hc) as Hi.
  destruct (interp orc cfg _ _ _ st) as [a fr' st'|e fr' st'| |w]; try exact I; [|exact Hi].
  destruct Hi as (Ht & [Hc'|He]); split; try exact Ht; intro Hlt; [exact Hc'|].
  unfold at_end in He. rewrite Ht in He. lia.
Qed.

(* ------------------------------------------------------------------------------------------ *)
(* 6b: scripts of run_auth_scripts                                                            *)
(* ------------------------------------------------------------------------------------------ *)

(* the state in which auth_rest starts script [s] after the top-level tape [prev] *)
Definition next_script_state (st : state) (prev : nat) (s : bytes) : state :=
  let p := nth_tape st prev in
  let st1 := snd (new_tape st {| to_data := s; to_count := to_count p; to_defs := to_defs p |}) in
  with_cache st1 (cache_del (st_cache st1) returned_key).

Lemma auth_rest_cons fuel s rest prev st :
  auth_rest orc cfg fuel (s :: rest) prev st =
    match run_tape orc cfg fuel (List.length (st_tapes st)) 0 (next_script_state st prev s) with
    | Done _ _ st' => auth_rest orc cfg fuel rest (List.length (st_tapes st)) st'
    | Raised _ _ st' => AuthVerdict false st'
    | OutOfFuel => AuthFuel
    | Unmodelled w => AuthUnmod w
    end.
Proof. reflexivity. Qed.

Theorem auth_scripts_start_clear st prev s : flag_clear (next_script_state st prev s).
Proof. apply cache_get_del_same. Qed.

(* the discipline of every script run by auth_rest: it starts with the flag clear, a raise leaves
   the flag clear, a normal end leaves the flag clear or the pointer at the end *)
Fixpoint auth_rest_disc (fuel : nat) (scripts : list bytes) (prev : nat) (st : state) : Prop :=
  match scripts with
  | [] => True
  | s :: rest =>
    let st2 := next_script_state st prev s in
    let tid := List.length (st_tapes st) in
    flag_clear st2 /\
    match run_tape orc cfg fuel tid 0 st2 with
    | Done _ fr' st' => (flag_clear st' \/ at_end fr' st') /\ auth_rest_disc fuel rest tid st'
    | Raised _ _ st' => flag_clear st'
    | _ => True
    end
  end.

Theorem auth_rest_discipline fuel scripts : forall prev st, auth_rest_disc fuel scripts prev st.
Proof.
  induction scripts as [|s rest IH]; intros prev st; cbn [auth_rest_disc]; [exact I|].
  cbv zeta. split; [apply auth_scripts_start_clear|].
  pose proof (run_tape_inv fuel (List.length (st_tapes st)) 0 (next_script_state st prev s)
                (auth_scripts_start_clear st prev s)) as H.
  destruct (run_tape orc cfg fuel _ 0 _) as [a fr' st'|e fr' st'| |w]; simpl in H; try exact I; [|exact H].
  split; [exact H|]. apply IH.
Qed.

Lemma init_state_clear script vals :
  cache_get (init_cache cfg vals) returned_key = None -> flag_clear (init_state cfg script vals).
Proof. intro H. exact H. Qed.

(* a sufficient condition on the embedder's values *)
Lemma init_cache_clear vals :
  Forall (fun kv => ckey_eqb (fst kv) returned_key = false) vals ->
  cache_get (init_cache cfg vals) returned_key = None.
Proof.
  unfold init_cache.
  assert (H0 : cache_get [(KStr (str "timestamp"), VOne (AInt (c_now cfg)))] returned_key = None)
    by reflexivity.
  revert H0. generalize [(KStr (str "timestamp"), VOne (AInt (c_now cfg)))].
  induction vals as [|[k v] vals IH]; intros c Hc HF; simpl; [exact Hc|].
  inversion HF as [|x l Hk HF']; subst. apply IH; [|exact HF'].
  simpl. rewrite cache_get_set_other by exact Hk. exact Hc.
Qed.

Theorem run_script_discipline fuel script vals :
  cache_get (init_cache cfg vals) returned_key = None ->
  tape_post (run_script orc cfg fuel script vals).
Proof. intro H. apply run_tape_inv. apply init_state_clear. exact H. Qed.

Theorem run_auth_scripts_discipline fuel scripts vals :
  cache_get (init_cache cfg vals) returned_key = None ->
  match scripts with
  | [] => True
  | s :: rest =>
    flag_clear (init_state cfg s vals) /\
    match run_script orc cfg fuel s vals with
    | Done _ fr' st' => (flag_clear st' \/ at_end fr' st') /\ auth_rest_disc fuel rest 0 st'
    | Raised _ _ st' => flag_clear st'
    | _ => True
    end
  end.
Proof.
  intro H. destruct scripts as [|s rest]; [exact I|].
  split; [apply init_state_clear; exact H|].
  pose proof (run_script_discipline fuel s vals H) as Hr.
  destruct (run_script orc cfg fuel s vals) as [a fr' st'|e fr' st'| |w]; simpl in Hr; try exact I; [|exact Hr].
  split; [exact Hr|]. apply auth_rest_discipline.
Qed.

End Run.

Print Assumptions disc_sound.
Print Assumptions dispatch_disc.
Print Assumptions run_tape_discipline.
Print Assumptions fetch_flag_clear.
Print Assumptions auth_scripts_start_clear.
Print Assumptions auth_rest_discipline.
Print Assumptions run_auth_scripts_discipline.
