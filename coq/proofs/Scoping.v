(* C06 (control scoping): CALL and LOOP absorb a RETURN — after them the control flag is clear, so a RETURN
   executed inside a function or a loop body never ends anything outside of it. *)
From Coq Require Import ZArith List Bool Lia.
From Coq.Strings Require Import Byte String.
From TS Require Import Bytes Codec State Prog Ops Interp StateLemmas Discipline.
Import ListNotations.
Local Open Scope nat_scope.

Definition quietpost (u : unit) (m : mode) : Prop := quiet m.

Lemma disc_OP_CALL_quiet m : quiet m -> disc OP_CALL m quietpost.
Proof.
  intro Hq. unfold OP_CALL. do 6 pre.
  destruct a4 as [tid|]; cbn; unfold quietpost, quiet in *; intuition (auto; congruence).
Qed.

Lemma disc_loop_go_quiet n : forall i limit tid cond m,
  quiet m -> disc (loop_go n i limit tid cond) m quietpost.
Proof.
  induction n as [|n IH]; intros i limit tid cond m Hq; cbn [loop_go];
    (destruct (bytes_to_bool cond); [|cbn; exact Hq]); pre.
  - exact I.
  - cbn [disc bind act act_ok]. split; [assumption|]. split; [left; reflexivity|].
    split; [left; reflexivity|]. intro c. apply IH. left; reflexivity.
Qed.

Lemma disc_OP_LOOP_quiet m : quiet m -> disc OP_LOOP m quietpost.
Proof. intro Hq. unfold OP_LOOP. do 5 pre. apply disc_loop_go_quiet. assumption. Qed.

Section S.
Variable orc : oracle.
Variable cfg : config.

(* after OP_CALL / OP_LOOP (normal end or raise), started with the flag clear, the flag is clear, whatever
   the callee or the loop body did — for every fuel and every definition table *)
Theorem call_absorbs_return f fr st :
  flag_clear st ->
  match interp orc cfg (fun t s => run_tape orc cfg f t 0 s) OP_CALL fr st with
  | Done _ _ st' | Raised _ _ st' => flag_clear st'
  | _ => True
  end.
Proof.
  intro Hc.
  assert (Hrun : run_ok (fun t s => run_tape orc cfg f t 0 s)).
  { apply tape_post_run_ok. intros t s Hs. pose proof (run_tape_inv orc cfg f t 0 s Hs) as H. exact H. }
  pose proof (disc_sound orc cfg _ Hrun unit OP_CALL M0 quietpost (disc_OP_CALL_quiet M0 (or_introl eq_refl)) fr st Hc) as H.
  destruct (interp orc cfg _ OP_CALL fr st) as [a fr' st'|e fr' st'| |w]; try exact I; [|exact H].
  destruct H as (m' & Hq & Hs). destruct Hq as [-> | ->]; simpl in Hs; tauto.
Qed.

Theorem loop_absorbs_return f fr st :
  flag_clear st ->
  match interp orc cfg (fun t s => run_tape orc cfg f t 0 s) OP_LOOP fr st with
  | Done _ _ st' | Raised _ _ st' => flag_clear st'
  | _ => True
  end.
Proof.
  intro Hc.
  assert (Hrun : run_ok (fun t s => run_tape orc cfg f t 0 s)).
  { apply tape_post_run_ok. intros t s Hs. pose proof (run_tape_inv orc cfg f t 0 s Hs) as H. exact H. }
  pose proof (disc_sound orc cfg _ Hrun unit OP_LOOP M0 quietpost (disc_OP_LOOP_quiet M0 (or_introl eq_refl)) fr st Hc) as H.
  destruct (interp orc cfg _ OP_LOOP fr st) as [a fr' st'|e fr' st'| |w]; try exact I; [|exact H].
  destruct H as (m' & Hq & Hs). destruct Hq as [-> | ->]; simpl in Hs; tauto.
Qed.

End S.
