(* C15 (second HTLC layout): make_htlc2_sha256_lock / make_htlc2_shake256_lock with make_htlc2_witness —
   the authorisation verdict, exactly, at the level of the bytes the builders emit (Builders.v).
   The two keys are committed by their SHAKE256-k hashes (hr, hf); the witness supplies the key:
     witness:  PUSH1 sig ; PUSH1 key ; PUSH1 preimage          (tools.py make_htlc2_witness: sig, pubkey, preimage)
     lock:     first ; PUSH1 digest ; EQUAL ;
               IF_ELSE { DUP ; SHAKE256 k ; PUSH1 hr }
                       { PUSH1 c ; CHECK_TIMESTAMP_VERIFY ; DUP ; SHAKE256 k ; PUSH1 hf } ;
               EQUAL_VERIFY ; CHECK_SIG fl
   with first = SHA256, k = 20 (sha256 form) or first = SHAKE256 n, k = n (shake256 form).
   Reuses the IF_ELSE / sub-tape / CHECK_SIG infrastructure of BuilderSpecC15; new here: the two arms with
   DUP ; SHAKE256 k ; PUSH1, and the EQUAL_VERIFY between the IF_ELSE and the CHECK_SIG. *)
From Coq Require Import ZArith List Bool Lia.
From Coq.Strings Require Import Byte String.
From TS Require Import Bytes Codec State Prog Ops Interp StateLemmas InterpLemmas NopSpec StackLemmas
  BytesLemmas TapeLemmas SigSpec ConfigSpec AuthSpec TimeSpec Asm Builders BuilderSpec TapeSteps
  BuilderSpecC15 TablesCheck.
Import ListNotations.
Local Open Scope nat_scope.

(* ---------- the emitted bytes ---------- *)

(* 1d = DUP, 1f = SHAKE256, 03 = PUSH1, 26 = CHECK_TIMESTAMP_VERIFY, 22 = EQUAL_VERIFY, 23 = CHECK_SIG,
   1e = SHA256, 21 = EQUAL, 2c = IF_ELSE *)
Definition claim2_arm (k : byte) (hr : bytes) : bytes := x1d :: x1f :: k :: push1_bytes hr.
Definition refund2_arm (k : byte) (c hf : bytes) : bytes :=
  push1_bytes c ++ x26 :: x1d :: x1f :: k :: push1_bytes hf.

Definition htlc2_witness (sig key preimage : bytes) : bytes := encode [P1 sig; P1 key; P1 preimage].

Lemma arms2_encoding k hr c hf :
  encode [IIfElse [IOp0 O_DUP; IOp1 O_SHAKE256 k; P1 hr]
                  [P1 c; IOp0 O_CHECK_TIMESTAMP_VERIFY; IOp0 O_DUP; IOp1 O_SHAKE256 k; P1 hf]] =
    x2c :: ifelse_ops (claim2_arm k hr) (refund2_arm k c hf).
Proof.
  unfold encode, P1, ifelse_ops, claim2_arm, refund2_arm, push1_bytes, len1.
  cbn [flat_map encode1]. rewrite !app_nil_r.
  change (opcode_byte O_IF_ELSE) with x2c. change (opcode_byte O_PUSH1) with x03.
  change (opcode_byte O_CHECK_TIMESTAMP_VERIFY) with x26.
  change (opcode_byte O_DUP) with x1d. change (opcode_byte O_SHAKE256) with x1f.
  cbn [app]. rewrite <- ?app_assoc. cbn [app]. reflexivity.
Qed.

Lemma htlc2_lock_split first k digest hr c hf fl :
  htlc2_lock first k digest hr c hf fl =
    (encode1 first ++ push1_bytes digest ++ [x21; x2c]) ++
    ifelse_ops (claim2_arm k hr) (refund2_arm k c hf) ++ [x22; x23; fl].
Proof.
  unfold htlc2_lock.
  set (A := [IOp0 O_DUP; IOp1 O_SHAKE256 k; P1 hr]).
  set (B := [P1 c; IOp0 O_CHECK_TIMESTAMP_VERIFY; IOp0 O_DUP; IOp1 O_SHAKE256 k; P1 hf]).
  unfold encode. cbn [flat_map]. rewrite app_nil_r.
  pose proof (arms2_encoding k hr c hf) as E. unfold encode in E. cbn [flat_map] in E.
  rewrite app_nil_r in E. fold A B in E. rewrite E.
  change (encode1 (P1 digest)) with (push1_bytes digest).
  change (encode1 (IOp0 O_EQUAL)) with [x21]. change (encode1 (IOp0 O_EQUAL_VERIFY)) with [x22].
  change (encode1 (IOp1 O_CHECK_SIG fl)) with [x23; fl].
  rewrite <- !app_assoc. reflexivity.
Qed.

Lemma htlc2_sha256_lock_bytes digest hr c hf fl :
  htlc2_sha256_lock digest hr c hf fl =
    (x1e :: push1_bytes digest ++ [x21; x2c]) ++
    ifelse_ops (claim2_arm x14 hr) (refund2_arm x14 c hf) ++ [x22; x23; fl].
Proof. unfold htlc2_sha256_lock. rewrite htlc2_lock_split. reflexivity. Qed.

Lemma htlc2_shake256_lock_bytes n digest hr c hf fl :
  htlc2_shake256_lock n digest hr c hf fl =
    (x1f :: n :: push1_bytes digest ++ [x21; x2c]) ++
    ifelse_ops (claim2_arm n hr) (refund2_arm n c hf) ++ [x22; x23; fl].
Proof. unfold htlc2_shake256_lock. rewrite htlc2_lock_split. reflexivity. Qed.

Lemma htlc2_witness_bytes sig key pre :
  htlc2_witness sig key pre = push1_bytes sig ++ push1_bytes key ++ push1_bytes pre.
Proof. unfold htlc2_witness, encode. cbn [flat_map]. rewrite !app_nil_r. reflexivity. Qed.

(* ---------- the arms, run on their own tape object ---------- *)
Section Run2.
Variable orc : oracle.
Variable cfg : config.

(* OP_SHAKE256 with a known oracle answer of any size: an answer above the item-size limit is refused by
   the stack *)
Lemma shake256_exec_gen run tid ptr st (pre : bytes) n tail x s h :
  tdata st tid = pre ++ n :: tail -> ptr = List.length pre ->
  st_stack st = x :: s -> orc PShake256 [x; [n]] = OOk [h] -> space cfg s ->
  interp orc cfg run OP_SHAKE256 {| fr_tid := tid; fr_ptr := ptr |} st =
    if c_max_item_size cfg <? List.length h
    then Raised ScriptExecutionError {| fr_tid := tid; fr_ptr := ptr + 1 |} (with_stack st s)
    else Done tt {| fr_tid := tid; fr_ptr := ptr + 1 |} (with_stack st (h :: s)).
Proof.
  intros Hd Hp Hs Ho Hsp. unfold OP_SHAKE256, read_u8, read, get, put, act. cbn [bind].
  assert (Hd' : tdata st tid = pre ++ [n] ++ tail) by exact Hd.
  rewrite (read_at orc cfg run _ _ tid ptr st pre [n] tail 1 Hd' Hp eq_refl).
  cbn [bind List.length]. rewrite be1, z2b_b2z.
  rewrite (get_step orc cfg run _ _ _ st x s Hs).
  rewrite (prim1_step orc cfg run _ _ PShake256 [x; [n]] h _ _ Ho).
  cbn [interp step st_stack with_stack].
  destruct (c_max_item_size cfg <? List.length h); [reflexivity|].
  unfold space in Hsp.
  replace (c_max_items cfg <=? List.length s) with false by (symmetry; apply Nat.leb_gt; lia).
  reflexivity.
Qed.

(* DUP ; SHAKE256 k ; PUSH1 hx  closing a tape: the key on top of the stack is kept, its hash and the
   committed hash are pushed over it *)
Lemma dup_shake_push_runs f tid st ptr (pre0 : bytes) k hx key s hk :
  tdata st tid = pre0 ++ x1d :: x1f :: k :: push1_bytes hx ->
  ptr = List.length pre0 ->
  List.length hx < 256 -> st_stack st = key :: s ->
  fits cfg key -> fits cfg hx -> List.length s + 3 <= c_max_items cfg ->
  orc PShake256 [key; [k]] = OOk [hk] ->
  run_tape orc cfg (S (S (S (S f)))) tid ptr st =
    if c_max_item_size cfg <? List.length hk
    then Raised ScriptExecutionError {| fr_tid := tid; fr_ptr := ptr + 3 |} (with_stack st (key :: s))
    else Done tt {| fr_tid := tid; fr_ptr := ptr + 5 + List.length hx |}
              (with_stack st (hx :: hk :: key :: s)).
Proof.
  intros Hd Hp Lx Hs Fk Fx Hsp Ho.
  (* DUP *)
  rewrite (fetch_at orc cfg _ tid st ptr pre0 x1d _ Hd Hp).
  change (dispatch (N.to_nat (Byte.to_N x1d))) with OP_DUP.
  rewrite (dup_exec orc cfg _ _ st key s Hs Fk) by lia.
  cbn [fr_ptr].
  set (st1 := with_stack st (key :: key :: s)).
  (* SHAKE256 k *)
  assert (Hd1 : tdata st1 tid = (pre0 ++ [x1d]) ++ x1f :: (k :: push1_bytes hx)).
  { change (tdata st1 tid) with (tdata st tid). rewrite Hd, <- app_assoc. reflexivity. }
  rewrite (fetch_at orc cfg _ tid st1 (S ptr) (pre0 ++ [x1d]) x1f _ Hd1)
    by (rewrite app_length; simpl; lia).
  change (dispatch (N.to_nat (Byte.to_N x1f))) with OP_SHAKE256.
  assert (Hd2 : tdata st1 tid = (pre0 ++ [x1d; x1f]) ++ k :: push1_bytes hx).
  { rewrite Hd1, <- !app_assoc. reflexivity. }
  rewrite (shake256_exec_gen _ tid (S (S ptr)) st1 (pre0 ++ [x1d; x1f]) k (push1_bytes hx) key (key :: s) hk
             Hd2);
    [ | rewrite app_length; simpl; lia | reflexivity | exact Ho | unfold space; simpl; lia ].
  destruct (c_max_item_size cfg <? List.length hk) eqn:Eh.
  { change (with_stack st1 (key :: s)) with (with_stack st (key :: s)). f_equal. f_equal. lia. }
  assert (Fh : fits cfg hk) by (apply Nat.ltb_ge in Eh; exact Eh).
  cbn [fr_ptr].
  change (with_stack st1 (hk :: key :: s)) with (with_stack st (hk :: key :: s)).
  set (st2 := with_stack st (hk :: key :: s)).
  (* PUSH1 hx *)
  assert (Hd3 : tdata st2 tid = (pre0 ++ [x1d; x1f; k]) ++ x03 :: (z2b (blen hx) :: hx ++ [])).
  { change (tdata st2 tid) with (tdata st tid). rewrite Hd, <- !app_assoc, app_nil_r. reflexivity. }
  rewrite (fetch_at orc cfg _ tid st2 _ (pre0 ++ [x1d; x1f; k]) x03 _ Hd3)
    by (rewrite app_length; simpl; lia).
  change (dispatch (N.to_nat (Byte.to_N x03))) with OP_PUSH1.
  assert (Hd4 : tdata st2 tid = (pre0 ++ [x1d; x1f; k; x03]) ++ z2b (blen hx) :: hx ++ []).
  { rewrite Hd3, <- !app_assoc. reflexivity. }
  rewrite (push1_at orc cfg _ tid st2 _ _ hx [] (hk :: key :: s) Hd4);
    [ | rewrite app_length; simpl; lia | exact Lx | reflexivity | exact Fx | unfold space; simpl; lia ].
  cbn [fr_ptr].
  rewrite run_tape_end.
  - f_equal. f_equal. lia.
  - change (tdata (with_stack st2 (hx :: hk :: key :: s)) tid) with (tdata st tid).
    rewrite Hd, app_length. unfold push1_bytes. simpl. lia.
Qed.

(* the claim arm: DUP ; SHAKE256 k ; PUSH1 hr *)
Lemma claim2_arm_runs f tid st k hr key s hk :
  tdata st tid = claim2_arm k hr ->
  List.length hr < 256 -> st_stack st = key :: s ->
  fits cfg key -> fits cfg hr -> List.length s + 3 <= c_max_items cfg ->
  orc PShake256 [key; [k]] = OOk [hk] ->
  run_tape orc cfg (S (S (S (S f)))) tid 0 st =
    if c_max_item_size cfg <? List.length hk
    then Raised ScriptExecutionError {| fr_tid := tid; fr_ptr := 3 |} (with_stack st (key :: s))
    else Done tt {| fr_tid := tid; fr_ptr := List.length (claim2_arm k hr) |}
              (with_stack st (hr :: hk :: key :: s)).
Proof.
  intros Hd Lx Hs Fk Fx Hsp Ho.
  rewrite (dup_shake_push_runs f tid st 0 [] k hr key s hk Hd eq_refl Lx Hs Fk Fx Hsp Ho).
  reflexivity.
Qed.

(* the refund arm: PUSH1 c ; CHECK_TIMESTAMP_VERIFY ; DUP ; SHAKE256 k ; PUSH1 hf *)
Lemma refund2_arm_runs f tid st k c hf key s hk ts thr :
  tdata st tid = refund2_arm k c hf ->
  0 < List.length c < 256 -> List.length hf < 256 -> st_stack st = key :: s ->
  fits cfg c -> fits cfg key -> fits cfg hf ->
  List.length s + 3 <= c_max_items cfg ->
  cache_get (st_cache st) ts_key = Some (VOne (AInt ts)) ->
  flag_get (c_flags cfg) thr_key = Some (FVInt thr) ->
  orc PShake256 [key; [k]] = OOk [hk] ->
  run_tape orc cfg (S (S (S (S (S (S f)))))) tid 0 st =
    if ts_verdict cfg (be_to_Z c) ts thr
    then if c_max_item_size cfg <? List.length hk
         then Raised ScriptExecutionError {| fr_tid := tid; fr_ptr := 6 + List.length c |}
                     (with_stack st (key :: s))
         else Done tt {| fr_tid := tid; fr_ptr := List.length (refund2_arm k c hf) |}
                   (with_stack st (hf :: hk :: key :: s))
    else Raised ScriptExecutionError {| fr_tid := tid; fr_ptr := 3 + List.length c |}
              (with_stack st (key :: s)).
Proof.
  intros Hd Hc Lf Hs Fc Fk Ff Hsp Hts Hthr Ho.
  assert (Hd0 : tdata st tid = [] ++ x03 :: (z2b (blen c) :: c ++ x26 :: x1d :: x1f :: k :: push1_bytes hf)).
  { rewrite Hd. reflexivity. }
  rewrite (fetch_at orc cfg _ tid st 0 [] x03 _ Hd0 eq_refl).
  change (dispatch (N.to_nat (Byte.to_N x03))) with OP_PUSH1.
  rewrite (push1_at orc cfg _ tid st 1 [x03] c (x26 :: x1d :: x1f :: k :: push1_bytes hf) (key :: s) Hd0 eq_refl);
    [ | lia | exact Hs | exact Fc | unfold space; simpl; lia ].
  cbn [fr_ptr].
  set (st1 := with_stack st (c :: key :: s)).
  assert (Hd1 : tdata st1 tid = push1_bytes c ++ x26 :: (x1d :: x1f :: k :: push1_bytes hf)) by exact Hd.
  rewrite (fetch_at orc cfg _ tid st1 _ (push1_bytes c) x26 _ Hd1) by (unfold push1_bytes; simpl; lia).
  change (dispatch (N.to_nat (Byte.to_N x26))) with OP_CHECK_TIMESTAMP_VERIFY.
  rewrite (check_timestamp_verify_spec orc cfg _ _ st1 c (key :: s) ts thr); try assumption; try reflexivity.
  2:{ destruct c; [simpl in Hc; lia|discriminate]. }
  2:{ unfold room. unfold fits in Fc. simpl. lia. }
  destruct (ts_verdict cfg (be_to_Z c) ts thr).
  2:{ reflexivity. }
  cbn [fr_ptr]. change (with_stack st1 (key :: s)) with (with_stack st (key :: s)).
  set (st2 := with_stack st (key :: s)).
  assert (Hd2 : tdata st2 tid = (push1_bytes c ++ [x26]) ++ x1d :: x1f :: k :: push1_bytes hf).
  { change (tdata st2 tid) with (tdata st tid). rewrite Hd. unfold refund2_arm.
    rewrite <- app_assoc. reflexivity. }
  rewrite (dup_shake_push_runs f tid st2 _ (push1_bytes c ++ [x26]) k hf key s hk Hd2);
    [ | rewrite app_length; unfold push1_bytes; simpl; lia | exact Lf | reflexivity | exact Fk
      | exact Ff | exact Hsp | exact Ho ].
  change (with_stack st2 (key :: s)) with (with_stack st (key :: s)).
  change (with_stack st2 (hf :: hk :: key :: s)) with (with_stack st (hf :: hk :: key :: s)).
  destruct (c_max_item_size cfg <? List.length hk).
  - f_equal. f_equal. lia.
  - f_equal. f_equal. unfold refund2_arm, push1_bytes. rewrite app_length. simpl. lia.
Qed.

End Run2.

(* ---------- the lock tail ---------- *)
Section B2.
Variable orc : oracle.
Variable cfg : config.
Hypothesis Hsize : 65 <= c_max_item_size cfg.
Hypothesis Hitems : 4 <= c_max_items cfg.

Notation sub f := (fun t s0 => run_tape orc cfg f t 0 s0).

Lemma arms2_small k hr c hf :
  List.length hr < 256 -> List.length hf < 256 -> List.length c <= 255 ->
  (blen (claim2_arm k hr) < 65536)%Z /\ (blen (refund2_arm k c hf) < 65536)%Z.
Proof.
  intros H1 H2 H3. unfold blen, claim2_arm, refund2_arm, push1_bytes.
  rewrite app_length. cbn [List.length]. lia.
Qed.

(* IF_ELSE, condition true: the claim arm leaves [hr; hk; key] over the rest *)
Lemma lock2_ifelse_claim f tid st ptr pre tail cond key s k hr c hf hk :
  tdata st tid = pre ++ ifelse_ops (claim2_arm k hr) (refund2_arm k c hf) ++ tail ->
  ptr = List.length pre -> st_stack st = cond :: key :: s -> bytes_to_bool cond = true ->
  cache_get (st_cache st) returned_key = None ->
  List.length hr < 256 -> List.length hf < 256 -> List.length c <= 255 ->
  fits cfg key -> fits cfg hr ->
  List.length s + 3 <= c_max_items cfg ->
  orc PShake256 [key; [k]] = OOk [hk] ->
  interp orc cfg (sub (S (S (S (S f))))) OP_IF_ELSE {| fr_tid := tid; fr_ptr := ptr |} st =
    let fr' := {| fr_tid := tid;
                  fr_ptr := ptr + List.length (ifelse_ops (claim2_arm k hr) (refund2_arm k c hf)) |} in
    if c_max_item_size cfg <? List.length hk
    then Raised ScriptExecutionError fr' (with_stack (sub_start st tid (claim2_arm k hr)) (key :: s))
    else Done tt fr' (with_stack (sub_start st tid (claim2_arm k hr)) (hr :: hk :: key :: s)).
Proof.
  intros Hd Hp Hs Hb Hret L1 L2 L3 Fk Fr Hsp Ho.
  destruct (arms2_small k hr c hf L1 L2 L3) as [S1 S2].
  rewrite (if_else_exec orc cfg _ tid st ptr pre _ _ tail cond (key :: s) Hd Hp S1 S2 Hs).
  cbv zeta beta. rewrite Hb.
  rewrite (claim2_arm_runs orc cfg f _ _ k hr key s hk).
  - destruct (c_max_item_size cfg <? List.length hk); [reflexivity|].
    rewrite propagate_none by exact Hret. reflexivity.
  - exact (tdata_sub_new (with_stack st (key :: s)) tid (claim2_arm k hr)).
  - exact L1.
  - reflexivity.
  - exact Fk.
  - exact Fr.
  - exact Hsp.
  - exact Ho.
Qed.

(* IF_ELSE, condition false: the refund arm checks the time constraint, then leaves [hf; hk; key] *)
Lemma lock2_ifelse_refund f tid st ptr pre tail cond key s k hr c hf hk ts thr :
  tdata st tid = pre ++ ifelse_ops (claim2_arm k hr) (refund2_arm k c hf) ++ tail ->
  ptr = List.length pre -> st_stack st = cond :: key :: s -> bytes_to_bool cond = false ->
  cache_get (st_cache st) returned_key = None ->
  List.length hr < 256 -> List.length hf < 256 ->
  0 < List.length c <= 255 -> fits cfg c ->
  fits cfg key -> fits cfg hf ->
  List.length s + 3 <= c_max_items cfg ->
  cache_get (st_cache st) ts_key = Some (VOne (AInt ts)) ->
  flag_get (c_flags cfg) thr_key = Some (FVInt thr) ->
  orc PShake256 [key; [k]] = OOk [hk] ->
  interp orc cfg (sub (S (S (S (S (S (S f))))))) OP_IF_ELSE {| fr_tid := tid; fr_ptr := ptr |} st =
    let fr' := {| fr_tid := tid;
                  fr_ptr := ptr + List.length (ifelse_ops (claim2_arm k hr) (refund2_arm k c hf)) |} in
    if ts_verdict cfg (be_to_Z c) ts thr && negb (c_max_item_size cfg <? List.length hk)
    then Done tt fr' (with_stack (sub_start st tid (refund2_arm k c hf)) (hf :: hk :: key :: s))
    else Raised ScriptExecutionError fr' (with_stack (sub_start st tid (refund2_arm k c hf)) (key :: s)).
Proof.
  intros Hd Hp Hs Hb Hret L1 L2 L3 Fc Fk Ff Hsp Hts Hthr Ho.
  destruct (arms2_small k hr c hf L1 L2) as [S1 S2]; [lia|].
  rewrite (if_else_exec orc cfg _ tid st ptr pre _ _ tail cond (key :: s) Hd Hp S1 S2 Hs).
  cbv zeta beta. rewrite Hb.
  rewrite (refund2_arm_runs orc cfg f _ _ k c hf key s hk ts thr).
  - destruct (ts_verdict cfg (be_to_Z c) ts thr); [|reflexivity].
    destruct (c_max_item_size cfg <? List.length hk); [reflexivity|].
    cbn [andb negb]. rewrite propagate_none by exact Hret. reflexivity.
  - exact (tdata_sub_new (with_stack st (key :: s)) tid (refund2_arm k c hf)).
  - lia.
  - exact L2.
  - reflexivity.
  - exact Fc.
  - exact Fk.
  - exact Ff.
  - exact Hsp.
  - exact Hts.
  - exact Hthr.
  - exact Ho.
Qed.

(* EQUAL_VERIFY ; CHECK_SIG fl  closing the last script, on a stack [a; b; pk; sig] *)
Lemma eqv_check_sig_final F prev f tid st ptr pre fl a b pk sig c0 :
  tdata st tid = pre ++ [x22; x23; fl] -> ptr = List.length pre ->
  st_stack st = [a; b; pk; sig] -> List.length pk = 32 -> (List.length sig = 64 \/ List.length sig = 65) ->
  (forall g, msg_of g (st_cache st) = msg_of g c0) ->
  verdict_spec (finish orc cfg F prev (run_tape orc cfg (S (S (S f))) tid ptr st))
    (b = a /\ sig_accepts orc cfg pk sig (b2z fl) c0) (b = a /\ bad_arity orc pk sig c0).
Proof.
  intros Hd Hp Hs Hpk Hsig Hmsg.
  assert (Hd1 : tdata st tid = pre ++ x22 :: [x23; fl]) by exact Hd.
  rewrite (fetch_at orc cfg _ tid st ptr pre x22 _ Hd1 Hp).
  change (dispatch (N.to_nat (Byte.to_N x22))) with OP_EQUAL_VERIFY.
  rewrite (equal_verify_exec orc cfg _ _ st a b [pk; sig] Hs) by (unfold space; simpl; lia).
  destruct (bytes_eqb a b) eqn:E.
  - apply bytes_eqb_eq in E. subst b. cbn [fr_ptr].
    eapply verdict_spec_iff;
      [ | | apply (check_sig_final orc cfg Hsize Hitems F prev f tid (with_stack st [pk; sig]) (S ptr)
                     (pre ++ [x22]) fl pk sig c0) ]; try assumption.
    + tauto.
    + tauto.
    + change (tdata (with_stack st [pk; sig]) tid) with (tdata st tid). rewrite Hd, <- app_assoc. reflexivity.
    + rewrite app_length. simpl. lia.
    + reflexivity.
  - assert (b <> a) by (intro Heq; subst b; rewrite bytes_eqb_refl in E; discriminate).
    simpl. split; [discriminate|]. intros [Heq _]. contradiction.
Qed.

(* IF_ELSE ... ; EQUAL_VERIFY ; CHECK_SIG fl   run on a stack [cond; key; sig] *)
Lemma lock2_tail F prev f tid st ptr pre cond key sig k hr c hf fl hk ts thr c0 :
  tdata st tid = pre ++ x2c :: ifelse_ops (claim2_arm k hr) (refund2_arm k c hf) ++ [x22; x23; fl] ->
  ptr = List.length pre -> tid < List.length (st_tapes st) ->
  st_stack st = [cond; key; sig] ->
  cache_get (st_cache st) returned_key = None ->
  (forall g, msg_of g (st_cache st) = msg_of g c0) ->
  List.length key = 32 -> (List.length sig = 64 \/ List.length sig = 65) ->
  List.length hr < 256 -> fits cfg hr -> List.length hf < 256 -> fits cfg hf ->
  List.length c <= 255 ->
  orc PShake256 [key; [k]] = OOk [hk] ->
  (bytes_to_bool cond = false ->
     0 < List.length c /\ List.length c <= c_max_item_size cfg /\
     cache_get (st_cache st) ts_key = Some (VOne (AInt ts)) /\
     flag_get (c_flags cfg) thr_key = Some (FVInt thr)) ->
  verdict_spec (finish orc cfg F prev (run_tape orc cfg (S (S (S (S (S (S (S f))))))) tid ptr st))
    (if bytes_to_bool cond then hk = hr /\ sig_accepts orc cfg key sig (b2z fl) c0
     else ts_verdict cfg (be_to_Z c) ts thr = true /\ hk = hf /\ sig_accepts orc cfg key sig (b2z fl) c0)
    (if bytes_to_bool cond then hk = hr /\ bad_arity orc key sig c0
     else ts_verdict cfg (be_to_Z c) ts thr = true /\ hk = hf /\ bad_arity orc key sig c0).
Proof.
  intros Hd Hp Hlt Hs Hret Hmsg Lk Lsig L1 F1 L2 F2 L3 Ho Hts.
  assert (Fk : fits cfg key) by (unfold fits; lia).
  rewrite (fetch_at orc cfg _ tid st ptr pre x2c _ Hd Hp).
  change (dispatch (N.to_nat (Byte.to_N x2c))) with OP_IF_ELSE.
  set (ops := ifelse_ops (claim2_arm k hr) (refund2_arm k c hf)) in *.
  assert (Hd1 : tdata st tid = (pre ++ [x2c]) ++ ops ++ [x22; x23; fl]).
  { rewrite Hd, <- app_assoc. reflexivity. }
  assert (Hp1 : S ptr = List.length (pre ++ [x2c])) by (rewrite app_length; simpl; lia).
  assert (Hfin : forall body stk,
            tdata (with_stack (sub_start st tid body) stk) tid = ((pre ++ [x2c]) ++ ops) ++ [x22; x23; fl]).
  { intros body stk.
    change (tdata (with_stack (sub_start st tid body) stk) tid) with (tdata (sub_start st tid body) tid).
    rewrite tdata_sub_old by exact Hlt. rewrite Hd1, (app_assoc (pre ++ [x2c]) ops). reflexivity. }
  assert (Hp2 : S ptr + List.length ops = List.length ((pre ++ [x2c]) ++ ops)).
  { rewrite (app_length (pre ++ [x2c])). lia. }
  destruct (bytes_to_bool cond) eqn:Eb.
  - unfold ops in Hd1.
    rewrite (lock2_ifelse_claim _ tid st (S ptr) (pre ++ [x2c]) [x22; x23; fl] cond key [sig] k hr c hf hk
               Hd1 Hp1 Hs Eb Hret L1 L2 L3 Fk F1) by (first [ exact Ho | simpl; lia ]).
    cbv zeta. fold ops.
    destruct (c_max_item_size cfg <? List.length hk) eqn:Eh.
    { apply Nat.ltb_lt in Eh. simpl. split; [discriminate|]. intros [Heq _]. subst hk.
      unfold fits in F1. lia. }
    cbn [fr_ptr].
    apply (eqv_check_sig_final F prev _ tid _ _ ((pre ++ [x2c]) ++ ops) fl hr hk key sig c0); try assumption.
    + apply Hfin.
    + reflexivity.
  - destruct (Hts eq_refl) as (C1 & C2 & C3 & C4). unfold ops in Hd1.
    rewrite (lock2_ifelse_refund _ tid st (S ptr) (pre ++ [x2c]) [x22; x23; fl] cond key [sig] k hr c hf hk ts thr
               Hd1 Hp1 Hs Eb Hret L1 L2); try assumption; try (simpl; lia).
    cbv zeta. fold ops.
    destruct (ts_verdict cfg (be_to_Z c) ts thr) eqn:Etv.
    2:{ simpl. split; [discriminate|]. intros [H _]. discriminate. }
    destruct (c_max_item_size cfg <? List.length hk) eqn:Eh.
    { apply Nat.ltb_lt in Eh. simpl. split; [discriminate|]. intros (_ & Heq & _). subst hk.
      unfold fits in F2. lia. }
    cbn [andb negb fr_ptr].
    eapply verdict_spec_iff;
      [ | | apply (eqv_check_sig_final F prev _ tid _ _ ((pre ++ [x2c]) ++ ops) fl hf hk key sig c0);
            try assumption ].
    + tauto.
    + tauto.
    + apply Hfin.
    + reflexivity.
Qed.

End B2.

(* ---------- witness, head of the lock, theorems ---------- *)
Section C15b.
Variable orc : oracle.
Variable cfg : config.
Hypothesis Hsize : 65 <= c_max_item_size cfg.
Hypothesis Hitems : 4 <= c_max_items cfg.

(* PUSH1 sig ; PUSH1 key ; PUSH1 preimage : the preimage ends on top, the signature at the bottom *)
Lemma htlc2_witness_runs f sig key pre vals :
  (List.length sig = 64 \/ List.length sig = 65) -> List.length key = 32 ->
  List.length pre < 256 -> List.length pre <= c_max_item_size cfg ->
  run_script orc cfg (S (S (S (S f)))) (push1_bytes sig ++ push1_bytes key ++ push1_bytes pre) vals =
    Done tt {| fr_tid := 0; fr_ptr := List.length (push1_bytes sig ++ push1_bytes key ++ push1_bytes pre) |}
         (with_stack (init_state cfg (push1_bytes sig ++ push1_bytes key ++ push1_bytes pre) vals)
                     [pre; key; sig]).
Proof.
  intros Lsig Lk Lp Fp. unfold run_script.
  set (W := push1_bytes sig ++ push1_bytes key ++ push1_bytes pre).
  set (st0 := init_state cfg W vals).
  assert (Hd : tdata st0 0 = W) by reflexivity.
  start_tape.
  rewrite (push1_step orc cfg _ 0 st0 [] sig (push1_bytes key ++ push1_bytes pre) []);
    [ | exact Hd | lia | reflexivity | unfold fits; lia | unfold space; simpl; lia ].
  rewrite (push1_step orc cfg _ 0 _ ([] ++ push1_bytes sig) key (push1_bytes pre) [sig]);
    [ | rewrite tdata_with_stack, Hd; reflexivity | lia | reflexivity | unfold fits; lia
      | unfold space; simpl; lia ].
  rewrite (push1_step orc cfg _ 0 _ (([] ++ push1_bytes sig) ++ push1_bytes key) pre [] [key; sig]);
    [ | rewrite !tdata_with_stack, Hd; unfold W; cbn [app]; rewrite <- !app_assoc, app_nil_r; reflexivity
      | exact Lp | reflexivity | exact Fp | unfold space; simpl; lia ].
  rewrite tape_end.
  - cbn [app]. rewrite <- app_assoc. reflexivity.
  - rewrite !tdata_with_stack, Hd. unfold W. cbn [app]. rewrite <- app_assoc. reflexivity.
Qed.

(* PUSH1 digest ; EQUAL ; IF_ELSE ... ; EQUAL_VERIFY ; CHECK_SIG fl   run on a stack [h; key; sig] *)
Lemma htlc2_tail F prev f tid st ptr pre0 h digest key sig k hr c hf fl hk ts thr c0 :
  tdata st tid = pre0 ++ push1_bytes digest ++
                 x21 :: x2c :: ifelse_ops (claim2_arm k hr) (refund2_arm k c hf) ++ [x22; x23; fl] ->
  ptr = List.length pre0 -> tid < List.length (st_tapes st) ->
  st_stack st = [h; key; sig] ->
  cache_get (st_cache st) returned_key = None ->
  (forall g, msg_of g (st_cache st) = msg_of g c0) ->
  List.length key = 32 -> (List.length sig = 64 \/ List.length sig = 65) ->
  List.length hr < 256 -> fits cfg hr -> List.length hf < 256 -> fits cfg hf ->
  0 < List.length c <= 255 -> List.length c <= c_max_item_size cfg ->
  List.length digest < 256 -> List.length digest <= c_max_item_size cfg ->
  orc PShake256 [key; [k]] = OOk [hk] ->
  cache_get (st_cache st) ts_key = Some (VOne (AInt ts)) ->
  flag_get (c_flags cfg) thr_key = Some (FVInt thr) ->
  verdict_spec (finish orc cfg F prev (run_tape orc cfg (S (S (S (S (S (S (S (S (S f))))))))) tid ptr st))
    ((h = digest /\ hk = hr /\ sig_accepts orc cfg key sig (b2z fl) c0) \/
     (h <> digest /\ ts_verdict cfg (be_to_Z c) ts thr = true /\ hk = hf /\
      sig_accepts orc cfg key sig (b2z fl) c0))
    ((h = digest /\ hk = hr /\ bad_arity orc key sig c0) \/
     (h <> digest /\ ts_verdict cfg (be_to_Z c) ts thr = true /\ hk = hf /\ bad_arity orc key sig c0)).
Proof.
  intros Hd Hp Hlt Hs Hret Hmsg Lk Lsig L1 F1 L2 F2 L3 Fc Ld Fd Ho Hts Hthr.
  set (ops := ifelse_ops (claim2_arm k hr) (refund2_arm k c hf)) in *.
  assert (Hd0 : tdata st tid = pre0 ++ x03 :: (z2b (blen digest) :: digest ++ x21 :: x2c :: ops ++ [x22; x23; fl]))
    by exact Hd.
  rewrite (fetch_at orc cfg _ tid st ptr pre0 x03 _ Hd0 Hp).
  change (dispatch (N.to_nat (Byte.to_N x03))) with OP_PUSH1.
  assert (Hd1 : tdata st tid = (pre0 ++ [x03]) ++ z2b (blen digest) :: digest ++ x21 :: x2c :: ops ++ [x22; x23; fl]).
  { rewrite Hd0, <- app_assoc. reflexivity. }
  rewrite (push1_at orc cfg _ tid st (S ptr) _ digest _ [h; key; sig] Hd1);
    [ | rewrite app_length; simpl; lia | exact Ld | exact Hs | exact Fd | unfold space; simpl; lia ].
  cbn [fr_ptr].
  set (st1 := with_stack st [digest; h; key; sig]).
  assert (Hd2 : tdata st1 tid = (pre0 ++ push1_bytes digest) ++ x21 :: (x2c :: ops ++ [x22; x23; fl])).
  { change (tdata st1 tid) with (tdata st tid). rewrite Hd, (app_assoc pre0 (push1_bytes digest)). reflexivity. }
  rewrite (fetch_at orc cfg _ tid st1 _ (pre0 ++ push1_bytes digest) x21 _ Hd2)
    by (rewrite app_length; simpl; lia).
  change (dispatch (N.to_nat (Byte.to_N x21))) with OP_EQUAL.
  rewrite (equal_exec orc cfg _ _ st1 digest h [key; sig] eq_refl) by (unfold room; simpl; lia).
  cbn [fr_ptr].
  set (cond := if bytes_eqb digest h then [xff] else [x00]).
  change (with_stack st1 [cond; key; sig]) with (with_stack st [cond; key; sig]).
  set (st2 := with_stack st [cond; key; sig]).
  assert (Hd3 : tdata st2 tid = (pre0 ++ push1_bytes digest ++ [x21]) ++ x2c :: ops ++ [x22; x23; fl]).
  { change (tdata st2 tid) with (tdata st tid). rewrite Hd, <- !app_assoc. reflexivity. }
  eapply verdict_spec_iff;
    [ | | apply (lock2_tail orc cfg Hsize Hitems F prev f tid st2 _ (pre0 ++ push1_bytes digest ++ [x21])
                   cond key sig k hr c hf fl hk ts thr c0 Hd3); try assumption ].
  - unfold cond. destruct (bytes_eqb digest h) eqn:E.
    + apply bytes_eqb_eq in E. change (bytes_to_bool [xff]) with true. cbv iota. symmetry in E. tauto.
    + assert (h <> digest) by (intro Heq; subst h; rewrite bytes_eqb_refl in E; discriminate).
      change (bytes_to_bool [x00]) with false. cbv iota. tauto.
  - unfold cond. destruct (bytes_eqb digest h) eqn:E.
    + apply bytes_eqb_eq in E. change (bytes_to_bool [xff]) with true. cbv iota. symmetry in E. tauto.
    + assert (h <> digest) by (intro Heq; subst h; rewrite bytes_eqb_refl in E; discriminate).
      change (bytes_to_bool [x00]) with false. cbv iota. tauto.
  - rewrite !app_length. unfold push1_bytes. simpl. lia.
  - reflexivity.
  - lia.
  - intros _. repeat split; try assumption; lia.
Qed.

(* 1. HTLC, keys committed by hash, sha256 hash lock:
      witness PUSH1 sig ; PUSH1 key ; PUSH1 preimage *)
Theorem htlc2_sha256_exact fuel digest hr c hf sig key preimage h hk fl vals ts thr :
  10 <= fuel ->
  List.length key = 32 -> (List.length sig = 64 \/ List.length sig = 65) ->
  List.length hr < 256 -> List.length hr <= c_max_item_size cfg ->
  List.length hf < 256 -> List.length hf <= c_max_item_size cfg ->
  2 <= List.length c <= 255 -> List.length c <= c_max_item_size cfg ->
  List.length digest = 32 -> List.length h = 32 ->
  List.length preimage < 256 -> List.length preimage <= c_max_item_size cfg ->
  orc PSha256 [preimage] = OOk [h] ->
  orc PShake256 [key; [x14]] = OOk [hk] ->
  cache_get (init_cache cfg vals) ts_key = Some (VOne (AInt ts)) ->
  flag_get (c_flags cfg) thr_key = Some (FVInt thr) ->
  let c0 := init_cache cfg vals in
  verdict_spec
    (run_auth_scripts orc cfg fuel [htlc2_witness sig key preimage; htlc2_sha256_lock digest hr c hf fl] vals)
    ((h = digest /\ hk = hr /\ sig_accepts orc cfg key sig (b2z fl) c0) \/
     (h <> digest /\ ts_verdict cfg (be_to_Z c) ts thr = true /\ hk = hf /\
      sig_accepts orc cfg key sig (b2z fl) c0))
    ((h = digest /\ hk = hr /\ bad_arity orc key sig c0) \/
     (h <> digest /\ ts_verdict cfg (be_to_Z c) ts thr = true /\ hk = hf /\ bad_arity orc key sig c0)).
Proof.
  intros Hfuel Lk Lsig L1 F1 L2 F2 L3 Fc Ld Lh Lp Fp Ho Hok Hts Hthr c0.
  replace fuel with (S (S (S (S (S (S (S (S (S (S (fuel - 10))))))))))) by lia.
  set (f := fuel - 10).
  unfold run_auth_scripts. rewrite htlc2_witness_bytes, htlc2_sha256_lock_bytes.
  rewrite (htlc2_witness_runs _ sig key preimage vals Lsig Lk Lp Fp).
  rewrite auth_rest_one.
  destruct (lock_start cfg Hsize Hitems (push1_bytes sig ++ push1_bytes key ++ push1_bytes preimage)
              ((x1e :: push1_bytes digest ++ [x21; x2c]) ++
               ifelse_ops (claim2_arm x14 hr) (refund2_arm x14 c hf) ++ [x22; x23; fl])
              vals [preimage; key; sig]) as (Hd & Hlt & Hs & Hret & Hmsg & Hts2).
  set (tid := fst (next_start _ 0 _)) in *. set (st2 := snd (next_start _ 0 _)) in *.
  set (ops := ifelse_ops (claim2_arm x14 hr) (refund2_arm x14 c hf)) in *.
  assert (Hd0 : tdata st2 tid = [] ++ x1e :: (push1_bytes digest ++ x21 :: x2c :: ops ++ [x22; x23; fl])).
  { rewrite Hd. cbn [app]. rewrite <- app_assoc. reflexivity. }
  rewrite (fetch_at orc cfg _ tid st2 0 [] x1e _ Hd0 eq_refl).
  change (dispatch (N.to_nat (Byte.to_N x1e))) with OP_SHA256.
  rewrite (sha256_exec orc cfg _ _ st2 preimage [key; sig] h Hs Ho) by (unfold fits, space; simpl; lia).
  cbn [fr_ptr].
  apply (htlc2_tail _ _ f tid _ 1 [x1e] h digest key sig x14 hr c hf fl hk ts thr c0); try assumption;
    try reflexivity; try lia.
  all: first [ exact Hd0 | apply Hts2; exact Hts ].
Qed.

(* 2. HTLC, keys committed by hash, shake256 hash lock (digest size n, also the size of the key hashes) *)
Theorem htlc2_shake256_exact fuel n digest hr c hf sig key preimage h hk fl vals ts thr :
  10 <= fuel ->
  List.length key = 32 -> (List.length sig = 64 \/ List.length sig = 65) ->
  List.length hr < 256 -> List.length hr <= c_max_item_size cfg ->
  List.length hf < 256 -> List.length hf <= c_max_item_size cfg ->
  2 <= List.length c <= 255 -> List.length c <= c_max_item_size cfg ->
  List.length digest < 256 -> List.length digest <= c_max_item_size cfg ->
  List.length h <= c_max_item_size cfg ->
  List.length preimage < 256 -> List.length preimage <= c_max_item_size cfg ->
  orc PShake256 [preimage; [n]] = OOk [h] ->
  orc PShake256 [key; [n]] = OOk [hk] ->
  cache_get (init_cache cfg vals) ts_key = Some (VOne (AInt ts)) ->
  flag_get (c_flags cfg) thr_key = Some (FVInt thr) ->
  let c0 := init_cache cfg vals in
  verdict_spec
    (run_auth_scripts orc cfg fuel [htlc2_witness sig key preimage; htlc2_shake256_lock n digest hr c hf fl] vals)
    ((h = digest /\ hk = hr /\ sig_accepts orc cfg key sig (b2z fl) c0) \/
     (h <> digest /\ ts_verdict cfg (be_to_Z c) ts thr = true /\ hk = hf /\
      sig_accepts orc cfg key sig (b2z fl) c0))
    ((h = digest /\ hk = hr /\ bad_arity orc key sig c0) \/
     (h <> digest /\ ts_verdict cfg (be_to_Z c) ts thr = true /\ hk = hf /\ bad_arity orc key sig c0)).
Proof.
  intros Hfuel Lk Lsig L1 F1 L2 F2 L3 Fc Ld Fd Fh0 Lp Fp Ho Hok Hts Hthr c0.
  replace fuel with (S (S (S (S (S (S (S (S (S (S (fuel - 10))))))))))) by lia.
  set (f := fuel - 10).
  unfold run_auth_scripts. rewrite htlc2_witness_bytes, htlc2_shake256_lock_bytes.
  rewrite (htlc2_witness_runs _ sig key preimage vals Lsig Lk Lp Fp).
  rewrite auth_rest_one.
  destruct (lock_start cfg Hsize Hitems (push1_bytes sig ++ push1_bytes key ++ push1_bytes preimage)
              ((x1f :: n :: push1_bytes digest ++ [x21; x2c]) ++
               ifelse_ops (claim2_arm n hr) (refund2_arm n c hf) ++ [x22; x23; fl])
              vals [preimage; key; sig]) as (Hd & Hlt & Hs & Hret & Hmsg & Hts2).
  set (tid := fst (next_start _ 0 _)) in *. set (st2 := snd (next_start _ 0 _)) in *.
  set (ops := ifelse_ops (claim2_arm n hr) (refund2_arm n c hf)) in *.
  assert (Hd0 : tdata st2 tid = [] ++ x1f :: (n :: push1_bytes digest ++ x21 :: x2c :: ops ++ [x22; x23; fl])).
  { rewrite Hd. cbn [app]. rewrite <- app_assoc. reflexivity. }
  rewrite (fetch_at orc cfg _ tid st2 0 [] x1f _ Hd0 eq_refl).
  change (dispatch (N.to_nat (Byte.to_N x1f))) with OP_SHAKE256.
  assert (Hd1 : tdata st2 tid = [x1f] ++ n :: (push1_bytes digest ++ x21 :: x2c :: ops ++ [x22; x23; fl]))
    by exact Hd0.
  rewrite (shake256_exec orc cfg _ tid 1 st2 [x1f] n _ preimage [key; sig] h Hd1 eq_refl Hs Ho)
    by (unfold fits, space; simpl; lia).
  cbn [fr_ptr].
  apply (htlc2_tail _ _ f tid _ 2 [x1f; n] h digest key sig n hr c hf fl hk ts thr c0); try assumption;
    try reflexivity; try lia.
  all: first [ exact Hd0 | apply Hts2; exact Hts ].
Qed.

End C15b.

(* ---------- non-vacuity: a toy oracle, the default configuration, concrete bytes ---------- *)
Module Toy2.
  (* "verification" accepts iff key and signature start with the same byte; "hashes" repeat the first byte *)
  Definition orc : oracle := fun p args =>
    match p, args with
    | PVerify, [pk; _; s] => OOk [[if Byte.eqb (hd x00 pk) (hd x00 s) then x01 else x00]]
    | PSha256, [d] => OOk [repeat (hd x00 d) 32]
    | PShake256, [d; [n]] => OOk [repeat (hd x00 d) (Z.to_nat (b2z n))]
    | _, _ => OErr OtherError
    end.
  Definition cfg : config := default_config 1000.
  Definition vals : cache := [(KStr (str "sigfield1"), VOne (ABytes [x42]))].
  Definition RCV : bytes := repeat x01 32.
  Definition REF : bytes := repeat x02 32.
  Definition HR : bytes := repeat x01 20.       (* "shake256(RCV, 20)" *)
  Definition HF : bytes := repeat x02 20.       (* "shake256(REF, 20)" *)
  Definition SIG_RCV : bytes := repeat x01 64.
  Definition SIG_REF : bytes := repeat x02 64.
  Definition C_PAST : bytes := [x03; x84].      (* 900  <= 1000 *)
  Definition C_FUTURE : bytes := [x07; xd0].    (* 2000 >  1000 *)
  Definition DIGEST : bytes := repeat xaa 32.
  Definition DIGEST20 : bytes := repeat xaa 20.
  Definition verdict (r : auth_result) : option bool :=
    match r with AuthVerdict b _ => Some b | _ => None end.
End Toy2.
Import Toy2.

(* the premises of the theorems hold at the toy data *)
Example htlc2_premises_satisfiable :
  65 <= c_max_item_size cfg /\ 4 <= c_max_items cfg /\
  cache_get (init_cache cfg vals) ts_key = Some (VOne (AInt 1000)) /\
  flag_get (c_flags cfg) thr_key = Some (FVInt 60) /\
  orc PSha256 [[xaa; x01]] = OOk [DIGEST] /\ orc PShake256 [[xaa; x01]; [x14]] = OOk [DIGEST20] /\
  orc PShake256 [RCV; [x14]] = OOk [HR] /\ orc PShake256 [REF; [x14]] = OOk [HF] /\
  ts_verdict cfg (be_to_Z C_PAST) 1000 60 = true /\ ts_verdict cfg (be_to_Z C_FUTURE) 1000 60 = false /\
  sig_accepts orc cfg RCV SIG_RCV 0 (init_cache cfg vals) /\
  sig_accepts orc cfg REF SIG_REF 0 (init_cache cfg vals).
Proof.
  repeat split; try (vm_compute; reflexivity); try (apply Nat.leb_le; vm_compute; reflexivity).
  - exists [x42], [x01]. repeat split; try (vm_compute; reflexivity). apply Nat.leb_le. vm_compute. reflexivity.
  - exists [x42], [x01]. repeat split; try (vm_compute; reflexivity). apply Nat.leb_le. vm_compute. reflexivity.
Qed.

(* the verdicts computed by the model on the concrete bytes *)
Example htlc2_computed :
  (* claim path: right preimage, receiver's key and signature *)
  verdict (run_auth_scripts orc cfg 10
             [htlc2_witness SIG_RCV RCV [xaa; x01]; htlc2_sha256_lock DIGEST HR C_FUTURE HF x00] vals) = Some true /\
  (* right preimage, refund key: its hash is not the committed one *)
  verdict (run_auth_scripts orc cfg 10
             [htlc2_witness SIG_REF REF [xaa; x01]; htlc2_sha256_lock DIGEST HR C_PAST HF x00] vals) = Some false /\
  (* wrong preimage: refund arm, after / before the timeout, and with the receiver's key *)
  verdict (run_auth_scripts orc cfg 10
             [htlc2_witness SIG_REF REF [xbb; x01]; htlc2_sha256_lock DIGEST HR C_PAST HF x00] vals) = Some true /\
  verdict (run_auth_scripts orc cfg 10
             [htlc2_witness SIG_REF REF [xbb; x01]; htlc2_sha256_lock DIGEST HR C_FUTURE HF x00] vals) = Some false /\
  verdict (run_auth_scripts orc cfg 10
             [htlc2_witness SIG_RCV RCV [xbb; x01]; htlc2_sha256_lock DIGEST HR C_PAST HF x00] vals) = Some false /\
  (* right key, signature of the other key *)
  verdict (run_auth_scripts orc cfg 10
             [htlc2_witness SIG_REF RCV [xaa; x01]; htlc2_sha256_lock DIGEST HR C_FUTURE HF x00] vals) = Some false /\
  (* shake256 form, 20-byte digests *)
  verdict (run_auth_scripts orc cfg 10
             [htlc2_witness SIG_RCV RCV [xaa; x01]; htlc2_shake256_lock x14 DIGEST20 HR C_FUTURE HF x00] vals) = Some true /\
  verdict (run_auth_scripts orc cfg 10
             [htlc2_witness SIG_REF REF [xbb; x01]; htlc2_shake256_lock x14 DIGEST20 HR C_PAST HF x00] vals) = Some true /\
  verdict (run_auth_scripts orc cfg 10
             [htlc2_witness SIG_REF REF [xbb; x01]; htlc2_shake256_lock x14 DIGEST20 HR C_FUTURE HF x00] vals) = Some false /\
  (* 9 units of fuel are not enough for the refund path (the bound 10 of the theorems is tight) *)
  run_auth_scripts orc cfg 9
    [htlc2_witness SIG_REF REF [xbb; x01]; htlc2_sha256_lock DIGEST HR C_PAST HF x00] vals = AuthFuel.
Proof. vm_compute. repeat split; reflexivity. Qed.

(* the theorem instantiated at the toy data (claim path): every premise is discharged by computation, and
   the right-hand side holds, so the verdict is True *)
Example htlc2_sha256_claim_instance :
  exists st, run_auth_scripts orc cfg 10
               [htlc2_witness SIG_RCV RCV [xaa; x01]; htlc2_sha256_lock DIGEST HR C_FUTURE HF x00] vals
             = AuthVerdict true st.
Proof.
  eassert (T : verdict_spec
                 (run_auth_scripts orc cfg 10
                    [htlc2_witness SIG_RCV RCV [xaa; x01]; htlc2_sha256_lock DIGEST HR C_FUTURE HF x00] vals) _ _).
  { apply (htlc2_sha256_exact orc cfg) with (h := DIGEST) (hk := HR) (ts := 1000%Z) (thr := 60%Z);
      try (vm_compute; reflexivity); try (apply Nat.leb_le; vm_compute; reflexivity).
    - left. reflexivity.
    - split; apply Nat.leb_le; vm_compute; reflexivity. }
  cbv zeta in T.
  destruct (run_auth_scripts orc cfg 10 _ vals) as [b st| |w] eqn:E.
  - exists st. f_equal. apply T. left. split; [reflexivity|]. split; [reflexivity|].
    destruct htlc2_premises_satisfiable as (_ & _ & _ & _ & _ & _ & _ & _ & _ & _ & Hacc & _). exact Hacc.
  - contradiction.
  - vm_compute in E. discriminate E.
Qed.

Print Assumptions htlc2_sha256_exact.
Print Assumptions htlc2_shake256_exact.
Print Assumptions lock2_tail.
Print Assumptions claim2_arm_runs.
Print Assumptions refund2_arm_runs.
Print Assumptions htlc2_computed.
Print Assumptions htlc2_sha256_claim_instance.
