(* C13: lock / witness builder pairs — the authorisation verdict, exactly, at the level of the bytes the
   builders emit (model/Builders.v):
     A. make_single_sig_lock / _witness        (restated from BuilderSpec for the Builders.v functions)
     B. make_single_sig_lock2 / _witness2      (key committed by its SHAKE256-20 hash)
     C. make_multisig_lock with a witness of m pushed signatures (any number of keys and signatures)
   Every oracle answer shape is handled explicitly, except where a theorem states it as a premise. *)
From Coq Require Import ZArith List Bool Lia.
From Coq.Strings Require Import Byte String.
From TS Require Import Bytes Codec State Prog Ops Interp StateLemmas InterpLemmas NopSpec StackLemmas
  BytesLemmas TapeLemmas SigSpec ConfigSpec AuthSpec Asm MultisigPure MultisigLink BuilderSpec TapeSteps
  Builders TablesCheck.
Import ListNotations.
Local Open Scope nat_scope.

(* ================= A. the bytes of the builders ================= *)

Lemma single_sig_lock_bytes pk fl : Builders.single_sig_lock pk fl = BuilderSpec.single_sig_lock pk fl.
Proof. reflexivity. Qed.

Lemma single_sig_witness_bytes sig : Builders.single_sig_witness sig = BuilderSpec.single_sig_witness sig.
Proof. symmetry. apply single_sig_witness_encoding. Qed.

Lemma single_sig_witness2_bytes sig pk :
  Builders.single_sig_witness2 sig pk = push1_bytes sig ++ push1_bytes pk.
Proof.
  unfold Builders.single_sig_witness2, encode. cbn [flat_map encode1 P1]. rewrite app_nil_r. reflexivity.
Qed.

Lemma single_sig_lock2_bytes h fl :
  Builders.single_sig_lock2 h fl = [x1d] ++ [x1f; x14] ++ push1_bytes h ++ [x22] ++ [x23; fl].
Proof. reflexivity. Qed.

Lemma encode_pushes vs : encode (map P1 vs) = pushes_bytes vs.
Proof.
  unfold encode, pushes_bytes. induction vs as [|v vs IH]; [reflexivity|].
  cbn [map flat_map]. rewrite IH. reflexivity.
Qed.

Lemma multisig_lock_bytes pks fl m :
  Builders.multisig_lock pks fl m = pushes_bytes pks ++ [x46; fl; m; z2b (Z.of_nat (List.length pks))].
Proof.
  unfold Builders.multisig_lock, encode. rewrite flat_map_app. fold (encode (map P1 pks)).
  rewrite encode_pushes. reflexivity.
Qed.

(* the witness of a multisig lock: the single-signature witnesses, concatenated *)
Definition multisig_witness (sigs : list bytes) : bytes := flat_map Builders.single_sig_witness sigs.

Lemma multisig_witness_bytes sigs : multisig_witness sigs = pushes_bytes sigs.
Proof.
  unfold multisig_witness, pushes_bytes. induction sigs as [|s t IH]; [reflexivity|].
  cbn [flat_map]. rewrite IH, single_sig_witness_bytes. reflexivity.
Qed.

(* the same facts with the PUSH1 shape spelled out, one statement per builder pair *)
Lemma single_sig_bytes (pk sig : bytes) (fl : byte) :
  Builders.single_sig_lock pk fl = (x03 :: z2b (blen pk) :: pk) ++ [x23; fl] /\
  Builders.single_sig_witness sig = x03 :: z2b (blen sig) :: sig.
Proof. split; [exact (single_sig_lock_bytes pk fl)|exact (single_sig_witness_bytes sig)]. Qed.

Lemma single_sig2_bytes (pk sig h : bytes) (fl : byte) :
  Builders.single_sig_lock2 h fl = [x1d] ++ [x1f; x14] ++ (x03 :: z2b (blen h) :: h) ++ [x22] ++ [x23; fl] /\
  Builders.single_sig_witness2 sig pk = (x03 :: z2b (blen sig) :: sig) ++ (x03 :: z2b (blen pk) :: pk).
Proof. split; [exact (single_sig_lock2_bytes h fl)|exact (single_sig_witness2_bytes sig pk)]. Qed.

Lemma multisig_bytes (pks sigs : list bytes) (fl m : byte) :
  Builders.multisig_lock pks fl m =
    flat_map (fun v => x03 :: z2b (blen v) :: v) pks ++ [x46; fl; m; z2b (Z.of_nat (List.length pks))] /\
  multisig_witness sigs = flat_map (fun v => x03 :: z2b (blen v) :: v) sigs.
Proof. split; [exact (multisig_lock_bytes pks fl m)|exact (multisig_witness_bytes sigs)]. Qed.

(* the two acceptance predicates, spelled out *)
Lemma sig_accepts_meaning (orc : oracle) (cfg : config) (pk sig : bytes) (allowed : Z) (c : cache) :
  sig_accepts orc cfg pk sig allowed c <->
  (flags_permitted (sig_flag sig) allowed = true /\
   exists m x, msg_of (sig_flag sig) c = Some m /\ List.length m <= c_max_item_size cfg /\
               orc PVerify [pk; m; firstn 64 sig] = OOk [x] /\ bytes_to_bool x = true).
Proof. reflexivity. Qed.

Lemma real_chk_meaning (orc : oracle) (c : cache) (s k : bytes) :
  real_chk orc c s k =
    match msg_of (sig_flag s) c with
    | Some m => match orc PVerify [k; m; firstn 64 s] with OOk [x] => bytes_to_bool x | _ => false end
    | None => false
    end.
Proof. reflexivity. Qed.

(* a toy oracle and configuration for the non-vacuity examples of props/C13.v *)
Definition toy : oracle := fun p _ =>
  match p with
  | PVerify => OOk [[x01]]
  | PShake256 => OOk [repeat x07 20]
  | _ => OErr OtherError
  end.
Definition toy_cfg : config := default_config 1000.
Definition verdict_of (r : auth_result) : option bool :=
  match r with AuthVerdict b _ => Some b | _ => None end.

(* ================= generalities ================= *)

(* ms_verdict depends on the check only through its values *)
Lemma pfind_ext (c1 c2 : bytes -> bytes -> bool) (H : forall s k, c1 s k = c2 s k) s keys :
  pfind c1 s keys = pfind c2 s keys.
Proof. induction keys as [|k t IH]; cbn [pfind]; [reflexivity|]. rewrite H, IH. reflexivity. Qed.

Lemma pgo_ext (c1 c2 : bytes -> bytes -> bool) (H : forall s k, c1 s k = c2 s k) sigs :
  forall keys conf, pgo c1 sigs keys conf = pgo c2 sigs keys conf.
Proof.
  induction sigs as [|s t IH]; intros keys conf; cbn [pgo]; [reflexivity|].
  rewrite (pfind_ext c1 c2 H). destruct (pfind c2 s keys); apply IH.
Qed.

Lemma ms_verdict_ext (c1 c2 : bytes -> bytes -> bool) (H : forall s k, c1 s k = c2 s k) sigs keys :
  ms_verdict c1 sigs keys = ms_verdict c2 sigs keys.
Proof. unfold ms_verdict. rewrite (pgo_ext c1 c2 H). reflexivity. Qed.

Lemma real_chk_del_returned orc c s k : real_chk orc (cache_del c returned_key) s k = real_chk orc c s k.
Proof. unfold real_chk. rewrite msg_of_del_returned. reflexivity. Qed.

(* the verdict once the last script has run *)
Definition finish (o : outcome unit) : auth_result :=
  match o with
  | Done _ _ st' =>
    match st_stack st' with
    | [item] => AuthVerdict (bytes_eqb item [xff]) (with_stack st' [])
    | _ => AuthVerdict false st'
    end
  | Raised _ _ st' => AuthVerdict false st'
  | OutOfFuel => AuthFuel
  | Unmodelled w => AuthUnmod w
  end.

Section Shake.
Variable orc : oracle.
Variable cfg : config.
Variable run : nat -> state -> outcome unit.

(* OP_SHAKE256 n on a stack x :: s, by the answer of the oracle *)
Lemma shake_exec fr st n tail x s :
  data_at fr st = n :: tail -> st_stack st = x :: s -> space cfg s ->
  interp orc cfg run OP_SHAKE256 fr st =
    match orc PShake256 [x; [n]] with
    | OOk [d] =>
      if c_max_item_size cfg <? List.length d
      then Raised ScriptExecutionError (adv fr 1) (with_stack st s)
      else Done tt (adv fr 1) (with_stack st (d :: s))
    | OOk _ => Unmodelled "oracle arity"
    | OErr e => Raised e (adv fr 1) (with_stack st s)
    end.
Proof.
  intros Hd Hs Hsp. unfold OP_SHAKE256, read_u8, read, get, put, prim1, prim_list, act. cbn [bind].
  rewrite (read1 orc cfg run fr st n tail _ _ Hd). cbn [bind].
  rewrite (get_step orc cfg run _ _ _ st x s Hs). cbn [bind].
  rewrite prim_act_step. rewrite be1, z2b_b2z.
  destruct (orc PShake256 [x; [n]]) as [[|d [|d' l]]|e]; cbn [bind interp]; try reflexivity.
  cbn [interp step st_stack with_stack].
  destruct (c_max_item_size cfg <? List.length d); [reflexivity|].
  unfold space in Hsp. replace (c_max_items cfg <=? List.length s) with false
    by (symmetry; apply Nat.leb_gt; lia).
  reflexivity.
Qed.

End Shake.

Section C13.
Variable orc : oracle.
Variable cfg : config.
Hypothesis Hsize : 65 <= c_max_item_size cfg.

Lemma auth_two F w l vals fr st1 :
  run_script orc cfg F w vals = Done tt fr st1 ->
  run_auth_scripts orc cfg F [w; l] vals =
    finish (run_tape orc cfg F (fst (next_start st1 0 l)) 0 (snd (next_start st1 0 l))).
Proof.
  intro H. unfold run_auth_scripts. rewrite H, auth_rest_unfold.
  destruct (run_tape orc cfg F _ 0 _) as [[] fr' st'|e fr' st'| |w']; reflexivity.
Qed.

(* ================= A. single signature, for the Builders.v functions ================= *)

Theorem single_sig_exact' f (pk sig : bytes) fl vals :
  2 <= c_max_items cfg ->
  List.length pk = 32 -> (List.length sig = 64 \/ List.length sig = 65) ->
  match run_auth_scripts orc cfg (S (S (S f)))
          [Builders.single_sig_witness sig; Builders.single_sig_lock pk fl] vals with
  | AuthVerdict b _ => b = true <-> sig_accepts orc cfg pk sig (b2z fl) (init_cache cfg vals)
  | AuthFuel => False
  | AuthUnmod _ => exists m l, msg_of (sig_flag sig) (init_cache cfg vals) = Some m /\
                               orc PVerify [pk; m; firstn 64 sig] = OOk l /\ List.length l <> 1
  end.
Proof.
  intros Hitems. rewrite single_sig_lock_bytes, single_sig_witness_bytes.
  apply (single_sig_exact orc cfg Hsize Hitems).
Qed.

(* ================= the closing CHECK_SIG of a lock ================= *)

(* the tape ends with CHECK_SIG fl, the stack is [pk; sig], the cache is the initial one without the
   control flag: the verdict is that of the signature check *)
Lemma check_sig_tail f tid st (pre : bytes) pk sig fl c :
  1 <= c_max_items cfg ->
  tdata st tid = pre ++ [x23; fl] -> st_stack st = [pk; sig] ->
  st_cache st = cache_del c returned_key ->
  List.length pk = 32 -> (List.length sig = 64 \/ List.length sig = 65) ->
  match finish (run_tape orc cfg (S (S f)) tid (List.length pre) st) with
  | AuthVerdict b _ => b = true <-> sig_accepts orc cfg pk sig (b2z fl) c
  | AuthFuel => False
  | AuthUnmod _ => exists m l, msg_of (sig_flag sig) c = Some m /\
                               orc PVerify [pk; m; firstn 64 sig] = OOk l /\ List.length l <> 1
  end.
Proof.
  intros Hitems Hd Hs Hc Hpk Hsig.
  assert (Hd0 : tdata st tid = pre ++ x23 :: [fl]) by exact Hd.
  rewrite (run_tape_fetch orc cfg _ tid st pre x23 [fl] Hd0).
  change (dispatch (N.to_nat (Byte.to_N x23))) with OP_CHECK_SIG.
  pose proof (data_at_after tid st pre x23 [fl] Hd0) as Hda.
  rewrite (check_sig_decomposed orc cfg _ _ st fl [] Hda).
  rewrite (check_sig_body_exact orc cfg _ (b2z fl) _ (ConfigSpec.sigext_log cfg st) pk sig []) by exact Hs.
  cbv zeta. unfold blen. rewrite Hpk. change (Z.of_nat 32 =? 32)%Z with true. cbn [negb].
  assert (Hs2 : ((Z.of_nat (List.length sig) =? 64) || (Z.of_nat (List.length sig) =? 65))%Z = true).
  { destruct Hsig as [->| ->]; reflexivity. }
  rewrite Hs2. cbn [negb].
  assert (Hc' : st_cache (ConfigSpec.sigext_log cfg st) = cache_del c returned_key) by exact Hc.
  rewrite Hc', msg_of_del_returned.
  unfold sig_accepts.
  destruct (flags_permitted (sig_flag sig) (b2z fl)) eqn:Ef; cbn [negb].
  2:{ cbn [finish]. split; [discriminate|]. intros [H _]. discriminate. }
  destruct (msg_of (sig_flag sig) c) as [m|] eqn:Em.
  2:{ cbn [finish]. split; [discriminate|]. intros (_ & m & x & H & _). discriminate. }
  cbn [List.length].
  replace (c_max_items cfg <=? 0) with false by (symmetry; apply Nat.leb_gt; lia).
  rewrite orb_false_r.
  destruct (c_max_item_size cfg <? List.length m) eqn:El.
  { apply Nat.ltb_lt in El. cbn [finish]. split; [discriminate|]. intros (_ & m' & x & H & Hlen & _).
    injection H as <-. lia. }
  apply Nat.ltb_ge in El.
  match goal with |- context [orc PVerify ?a] => destruct (orc PVerify a) as [[|x [|y l]]|e] eqn:Eo end.
  - cbn [finish]. exists m, []. split; [reflexivity|]. split; [exact Eo|]. simpl. lia.
  - replace (c_max_item_size cfg <? 1) with false by (symmetry; apply Nat.ltb_ge; lia).
    match goal with |- context [run_tape orc cfg (S f) tid ?p ?s] =>
      rewrite (run_tape_end orc cfg f tid s p) end.
    2:{ match goal with |- List.length (tdata ?s tid) <= _ => change (tdata s tid) with (tdata st tid) end.
        rewrite Hd, app_length. unfold adv. simpl. lia. }
    cbn [finish st_stack with_stack].
    destruct (bytes_to_bool x) eqn:Eb.
    + split; [intros _|reflexivity]. split; [reflexivity|]. exists m, x.
      split; [reflexivity|]. split; [exact El|]. split; [exact Eo|exact Eb].
    + split; [discriminate|]. intros (_ & m' & x' & H1 & _ & H2 & H3).
      injection H1 as <-. assert (Hx : OOk [x'] = OOk [x]) by (rewrite <- H2; exact Eo).
      injection Hx as <-. congruence.
  - cbn [finish]. exists m, (x :: y :: l). split; [reflexivity|]. split; [exact Eo|]. simpl. lia.
  - cbn [finish]. split; [discriminate|]. intros (_ & m' & x & H1 & _ & H2 & _).
    injection H1 as <-. assert (Hx : OOk [x] = OErr e) by (rewrite <- H2; exact Eo). discriminate.
Qed.

(* ================= B. single signature under a hashed key ================= *)

Lemma witness2_runs f (sig pk : bytes) vals :
  2 <= c_max_items cfg ->
  List.length pk = 32 -> (List.length sig = 64 \/ List.length sig = 65) ->
  run_script orc cfg (S (S (S f))) (Builders.single_sig_witness2 sig pk) vals =
    Done tt {| fr_tid := 0; fr_ptr := List.length (push1_bytes sig ++ push1_bytes pk) |}
         (with_stack (init_state cfg (Builders.single_sig_witness2 sig pk) vals) [pk; sig]).
Proof.
  intros Hitems Hpk Hsig. unfold run_script.
  set (st0 := init_state cfg (Builders.single_sig_witness2 sig pk) vals).
  assert (Hd : tdata st0 0 = Builders.single_sig_witness2 sig pk) by reflexivity.
  rewrite single_sig_witness2_bytes in Hd.
  start_tape.
  rewrite (push1_step orc cfg (S (S f)) 0 st0 [] sig (push1_bytes pk) []);
    [|exact Hd|lia|reflexivity|unfold fits; lia|unfold space; simpl; lia].
  rewrite (push1_step orc cfg (S f) 0 _ _ pk [] [sig]);
    [|rewrite tdata_with_stack, Hd, app_nil_r; reflexivity|lia|reflexivity|unfold fits; lia
     |unfold space; simpl; lia].
  rewrite tape_end by (rewrite !tdata_with_stack, Hd; reflexivity).
  reflexivity.
Qed.

End C13.

Section C13b.
Variable orc : oracle.
Variable cfg : config.
Hypothesis Hsize : 65 <= c_max_item_size cfg.

Lemma shake_step f tid st (pre tail : bytes) n x s :
  tdata st tid = pre ++ x1f :: n :: tail -> st_stack st = x :: s -> space cfg s ->
  run_tape orc cfg (S f) tid (List.length pre) st =
    match orc PShake256 [x; [n]] with
    | OOk [d] =>
      if c_max_item_size cfg <? List.length d
      then Raised ScriptExecutionError {| fr_tid := tid; fr_ptr := S (List.length pre) + 1 |} (with_stack st s)
      else run_tape orc cfg f tid (List.length (pre ++ [x1f; n])) (with_stack st (d :: s))
    | OOk _ => Unmodelled "oracle arity"
    | OErr e => Raised e {| fr_tid := tid; fr_ptr := S (List.length pre) + 1 |} (with_stack st s)
    end.
Proof.
  intros Hd Hs Hsp.
  rewrite (run_tape_fetch orc cfg f tid st pre x1f (n :: tail) Hd).
  change (dispatch (N.to_nat (Byte.to_N x1f))) with OP_SHAKE256.
  rewrite (shake_exec orc cfg _ _ st n tail x s (data_at_after tid st pre x1f (n :: tail) Hd) Hs Hsp).
  destruct (orc PShake256 [x; [n]]) as [[|d [|d' l]]|e]; try reflexivity.
  destruct (c_max_item_size cfg <? List.length d); [reflexivity|].
  unfold adv. cbn [fr_tid fr_ptr]. f_equal. rewrite app_length. simpl. lia.
Qed.

Theorem single_sig2_exact f (pk sig h : bytes) fl vals :
  4 <= c_max_items cfg ->
  List.length pk = 32 -> (List.length sig = 64 \/ List.length sig = 65) -> List.length h = 20 ->
  match run_auth_scripts orc cfg (S (S (S (S (S (S f))))))
          [Builders.single_sig_witness2 sig pk; Builders.single_sig_lock2 h fl] vals with
  | AuthVerdict b _ =>
    b = true <-> (orc PShake256 [pk; [x14]] = OOk [h] /\
                  sig_accepts orc cfg pk sig (b2z fl) (init_cache cfg vals))
  | AuthFuel => False
  | AuthUnmod _ =>
    (exists l, orc PShake256 [pk; [x14]] = OOk l /\ List.length l <> 1) \/
    (orc PShake256 [pk; [x14]] = OOk [h] /\
     exists m l, msg_of (sig_flag sig) (init_cache cfg vals) = Some m /\
                 orc PVerify [pk; m; firstn 64 sig] = OOk l /\ List.length l <> 1)
  end.
Proof.
  intros Hitems Hpk Hsig Hh.
  rewrite (auth_two orc cfg _ _ _ vals _ _ (witness2_runs orc cfg Hsize (S (S (S f))) sig pk vals
                                             ltac:(lia) Hpk Hsig)).
  set (st1 := with_stack (init_state cfg (Builders.single_sig_witness2 sig pk) vals) [pk; sig]).
  set (lock := Builders.single_sig_lock2 h fl).
  change (fst (next_start st1 0 lock)) with 1.
  set (st2 := snd (next_start st1 0 lock)).
  assert (Hd : tdata st2 1 = lock) by reflexivity.
  unfold lock in Hd. rewrite single_sig_lock2_bytes in Hd.
  assert (Hs : st_stack st2 = [pk; sig]) by reflexivity.
  assert (Hc : st_cache st2 = cache_del (init_cache cfg vals) returned_key) by reflexivity.
  clearbody st2. clear st1 lock.
  start_tape.
  (* DUP *)
  rewrite (op0_done orc cfg _ 1 st2 [] x1d _ (with_stack st2 [pk; pk; sig]) Hd).
  2:{ intros run fr. change (dispatch (N.to_nat (Byte.to_N x1d))) with OP_DUP.
      apply (dup_exec orc cfg run fr st2 pk [sig] Hs); [unfold fits; lia|simpl; lia]. }
  (* SHAKE256 20 *)
  rewrite (shake_step _ 1 _ ([] ++ [x1d]) (push1_bytes h ++ [x22] ++ [x23; fl]) x14 pk [pk; sig]);
    [|rewrite tdata_with_stack, Hd; reflexivity|reflexivity|unfold space; simpl; lia].
  destruct (orc PShake256 [pk; [x14]]) as [[|d [|d' l]]|e] eqn:Eo.
  { cbn [finish]. left. exists []. split; [reflexivity|]. simpl. lia. }
  3:{ cbn [finish]. split; [discriminate|]. intros [H _]. discriminate. }
  2:{ cbn [finish]. left. exists (d :: d' :: l). split; [reflexivity|]. simpl. lia. }
  destruct (c_max_item_size cfg <? List.length d) eqn:Ed.
  { apply Nat.ltb_lt in Ed. cbn [finish]. split; [discriminate|]. intros [H _].
    injection H as ->. lia. }
  apply Nat.ltb_ge in Ed.
  (* PUSH1 h *)
  rewrite (push1_step orc cfg _ 1 _ (([] ++ [x1d]) ++ [x1f; x14]) h ([x22] ++ [x23; fl]) [d; pk; sig]);
    [|rewrite !tdata_with_stack, Hd; reflexivity|lia|reflexivity|unfold fits; lia|unfold space; simpl; lia].
  (* EQUAL_VERIFY *)
  set (pre4 := (([] ++ [x1d]) ++ [x1f; x14]) ++ push1_bytes h).
  set (st5 := with_stack (with_stack (with_stack st2 [pk; pk; sig]) [d; pk; sig]) [h; d; pk; sig]).
  assert (Hd5 : tdata st5 1 = pre4 ++ x22 :: [x23; fl]).
  { unfold st5, pre4. rewrite !tdata_with_stack, Hd, <- !app_assoc. reflexivity. }
  destruct (bytes_eqb h d) eqn:Ehd.
  2:{ rewrite (op0_raised orc cfg _ 1 st5 pre4 x22 _ ScriptExecutionError (with_stack st5 [pk; sig]) Hd5).
      - cbn [finish]. split; [discriminate|]. intros [H _]. injection H as ->.
        rewrite bytes_eqb_refl in Ehd. discriminate.
      - intros run fr. change (dispatch (N.to_nat (Byte.to_N x22))) with OP_EQUAL_VERIFY.
        rewrite (equal_verify_exec orc cfg run fr st5 h d [pk; sig]);
          [rewrite Ehd; reflexivity|reflexivity|lia|unfold space; simpl; lia]. }
  apply bytes_eqb_eq in Ehd. subst d.
  rewrite (op0_done orc cfg _ 1 st5 pre4 x22 _ (with_stack st5 [pk; sig]) Hd5).
  2:{ intros run fr. change (dispatch (N.to_nat (Byte.to_N x22))) with OP_EQUAL_VERIFY.
      rewrite (equal_verify_exec orc cfg run fr st5 h h [pk; sig]);
        [rewrite bytes_eqb_refl; reflexivity|reflexivity|lia|unfold space; simpl; lia]. }
  (* CHECK_SIG fl *)
  pose proof (check_sig_tail orc cfg Hsize f 1 (with_stack st5 [pk; sig]) (pre4 ++ [x22]) pk sig fl
                (init_cache cfg vals) ltac:(lia)) as T.
  specialize (T ltac:(rewrite tdata_with_stack, Hd5, <- app_assoc; reflexivity) eq_refl Hc Hpk Hsig).
  destruct (finish _) as [b stf| |w].
  - rewrite T. split; [intro H; split; [reflexivity|exact H]|intros [_ H]; exact H].
  - exact T.
  - right. split; [reflexivity|exact T].
Qed.

(* ================= C. multisig ================= *)

Lemma multisig_witness_runs F (sigs : list bytes) vals :
  List.length sigs < F -> List.length sigs <= c_max_items cfg ->
  (forall s, In s sigs -> List.length s = 64 \/ List.length s = 65) ->
  run_script orc cfg F (multisig_witness sigs) vals =
    Done tt {| fr_tid := 0; fr_ptr := List.length (pushes_bytes sigs) |}
         (with_stack (init_state cfg (multisig_witness sigs) vals) (rev sigs)).
Proof.
  intros HF Hit Hl. unfold run_script.
  set (st0 := init_state cfg (multisig_witness sigs) vals).
  assert (Hd : tdata st0 0 = multisig_witness sigs) by reflexivity.
  rewrite multisig_witness_bytes in Hd.
  replace F with (List.length sigs + S (F - List.length sigs - 1)) by lia.
  start_tape.
  rewrite (pushes_step orc cfg sigs _ 0 st0 [] [] []);
    [|rewrite Hd, app_nil_r; reflexivity| |reflexivity|simpl; lia].
  2:{ intros s Hs. destruct (Hl s Hs) as [H|H]; unfold fits; rewrite H; lia. }
  rewrite tape_end by (rewrite tdata_with_stack, Hd; reflexivity).
  rewrite app_nil_r. reflexivity.
Qed.

Lemma nat_of_byte n : n < 256 -> nat_of (be_to_Z [z2b (Z.of_nat n)]) = n.
Proof. intro H. rewrite be1, b2z_z2b_small by lia. unfold nat_of. apply Nat2Z.id. Qed.

(* keys pk_1 .. pk_n in the lock, signatures sig_1 .. sig_m pushed by the witness: at CHECK_MULTISIG the
   stack is pk_n .. pk_1 sig_m .. sig_1 (top first), so the greedy loop of the instruction sees the
   signatures and the keys in REVERSE order of the builder arguments *)
Theorem multisig_lock_exact f (pks sigs : list bytes) fl m vals :
  List.length pks < 256 -> b2z m = Z.of_nat (List.length sigs) ->
  List.length pks + List.length sigs <= c_max_items cfg -> 2 <= c_max_items cfg ->
  (forall k, In k pks -> List.length k = 32) ->
  (forall s, In s sigs -> (List.length s = 64 \/ List.length s = 65) /\
                          flags_permitted (sig_flag s) (b2z fl) = true) ->
  (forall s k, In s sigs -> In k pks ->
     exists msg x, msg_of (sig_flag s) (init_cache cfg vals) = Some msg /\
                   List.length msg <= c_max_item_size cfg /\
                   orc PVerify [k; msg; firstn 64 s] = OOk [x]) ->
  exists stf,
    run_auth_scripts orc cfg (S (S (List.length sigs + List.length pks + f)))
      [multisig_witness sigs; Builders.multisig_lock pks fl m] vals =
    AuthVerdict (ms_verdict (real_chk orc (init_cache cfg vals)) (rev sigs) (rev pks)) stf.
Proof.
  intros Hn Hm Hit Hit2 Hk Hsg Hor.
  rewrite (auth_two orc cfg _ _ _ vals _ _
             (multisig_witness_runs (S (S (List.length sigs + List.length pks + f))) sigs vals
                ltac:(lia) ltac:(lia) (fun s H => proj1 (Hsg s H)))).
  set (st1 := with_stack (init_state cfg (multisig_witness sigs) vals) (rev sigs)).
  set (lock := Builders.multisig_lock pks fl m).
  change (fst (next_start st1 0 lock)) with 1.
  set (st2 := snd (next_start st1 0 lock)).
  assert (Hd : tdata st2 1 = lock) by reflexivity.
  unfold lock in Hd. rewrite multisig_lock_bytes in Hd.
  assert (Hs : st_stack st2 = rev sigs) by reflexivity.
  assert (Hc : st_cache st2 = cache_del (init_cache cfg vals) returned_key) by reflexivity.
  clearbody st2. clear st1 lock.
  set (nb := z2b (Z.of_nat (List.length pks))) in *.
  replace (S (S (List.length sigs + List.length pks + f)))
    with (List.length pks + S (S (List.length sigs + f))) by lia.
  start_tape.
  rewrite (pushes_step orc cfg pks _ 1 st2 [] [x46; fl; m; nb] (rev sigs) Hd);
    [| |exact Hs|rewrite rev_length; lia].
  2:{ intros k Hk'. unfold fits. rewrite (Hk k Hk'). split; lia. }
  set (st3 := with_stack st2 (rev pks ++ rev sigs)).
  assert (Hd3 : tdata st3 1 = ([] ++ pushes_bytes pks) ++ x46 :: [fl; m; nb]).
  { unfold st3. rewrite tdata_with_stack, Hd, <- app_assoc. reflexivity. }
  set (v := ms_verdict (real_chk orc (st_cache st3)) (rev sigs) (rev pks)).
  rewrite (step_done orc cfg _ 1 st3 _ x46 [fl; m; nb]
             {| fr_tid := 1; fr_ptr := S (List.length ([] ++ pushes_bytes pks)) + 1 + 1 + 1 |}
             (with_stack (MultisigLink.sigext_log cfg st3) [MultisigLink.boolb v]) Hd3).
  - cbn [fr_ptr].
    rewrite run_tape_end.
    + cbn [finish st_stack with_stack]. unfold MultisigLink.boolb. rewrite verdict_byte.
      eexists. f_equal. unfold v. apply ms_verdict_ext. intros s k.
      change (st_cache st3) with (st_cache st2). rewrite Hc. apply real_chk_del_returned.
    + match goal with |- List.length (tdata ?s 1) <= _ => change (tdata s 1) with (tdata st3 1) end.
      rewrite Hd3, !app_length. simpl. lia.
  - change (dispatch (N.to_nat (Byte.to_N x46))) with OP_CHECK_MULTISIG.
    pose proof (data_at_after 1 st3 _ x46 [fl; m; nb] Hd3) as Hda.
    rewrite (check_multisig_real orc cfg _ fl m nb [] (rev pks) (rev sigs) [] _ st3 Hda).
    + reflexivity.
    + unfold st3. cbn [st_stack with_stack]. rewrite app_nil_r. reflexivity.
    + rewrite rev_length. unfold nb. symmetry. apply nat_of_byte. exact Hn.
    + rewrite rev_length, be1, Hm. unfold nat_of. rewrite Nat2Z.id. reflexivity.
    + intros s k Hs' Hk'. apply in_rev in Hs'. apply in_rev in Hk'.
      destruct (Hsg s Hs') as [Hl Hf]. destruct (Hor s k Hs' Hk') as (msg & x & Hmsg & Hlen & Ho).
      unfold blen. rewrite (Hk k Hk'). split; [reflexivity|]. split; [lia|].
      rewrite be1. split; [exact Hf|]. exists msg, x.
      change (st_cache st3) with (st_cache st2). rewrite Hc, msg_of_del_returned. auto.
    + exact Hsize.
    + simpl. lia.
Qed.

(* the same, as an iff on the verdict *)
Corollary multisig_lock_accepts_iff f (pks sigs : list bytes) fl m vals :
  List.length pks < 256 -> b2z m = Z.of_nat (List.length sigs) ->
  List.length pks + List.length sigs <= c_max_items cfg -> 2 <= c_max_items cfg ->
  (forall k, In k pks -> List.length k = 32) ->
  (forall s, In s sigs -> (List.length s = 64 \/ List.length s = 65) /\
                          flags_permitted (sig_flag s) (b2z fl) = true) ->
  (forall s k, In s sigs -> In k pks ->
     exists msg x, msg_of (sig_flag s) (init_cache cfg vals) = Some msg /\
                   List.length msg <= c_max_item_size cfg /\
                   orc PVerify [k; msg; firstn 64 s] = OOk [x]) ->
  match run_auth_scripts orc cfg (S (S (List.length sigs + List.length pks + f)))
          [multisig_witness sigs; Builders.multisig_lock pks fl m] vals with
  | AuthVerdict b _ =>
    b = true <-> ms_verdict (real_chk orc (init_cache cfg vals)) (rev sigs) (rev pks) = true
  | _ => False
  end.
Proof.
  intros Hn Hm Hit Hit2 Hk Hsg Hor.
  destruct (multisig_lock_exact f pks sigs fl m vals Hn Hm Hit Hit2 Hk Hsg Hor) as [stf ->].
  reflexivity.
Qed.

End C13b.

Print Assumptions single_sig_exact'.
Print Assumptions single_sig2_exact.
Print Assumptions multisig_lock_exact.
Print Assumptions multisig_lock_accepts_iff.
