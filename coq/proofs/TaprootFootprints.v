(* A third footprint of make_nonnative_taproot_lock that the committed script can see (finding D23; D18 = its definition 0,
   D19 = the call level it spends, both in TaprootNonNative.v): under the default flags OP_DERIVE_POINT caches the point it
   derives under the bytes key "X", so inside the non-native lock a committed script that reads cache key X finds a value,
   while under the native OP_TAPROOT nothing was cached and the read raises.  Computed on the model, replayed on the
   implementation by the C05 check. *)
From Coq Require Import ZArith List Bool.
From Coq.Strings Require Import Byte String.
From TS Require Import Bytes Codec State Prog Ops Interp Asm Builders TaprootNonNative.
Import ListNotations.
Open Scope Z_scope.

(* the toy configuration of TaprootNonNative.v with flag 2 on (its default value in functions.flags) *)
Definition toy_cfg_flag2 (limit : Z) : config :=
  {| c_max_items := 1024; c_max_item_size := 1024; c_limit := limit; c_flags := [(FKInt 2, FVBool true)]; c_sigext := [];
     c_ctplugins := []; c_contracts := []; c_now := 0 |}.

Example differ_on_cache_X :
  let script := [x0a; x01; x58; x06; x01] in    (* read_cache x58 ; pop0 ; true *)
  vres_of_auth (run_auth_scripts toy_orc (toy_cfg_flag2 64) 40 [toy_witness script; nonnative_taproot_lock toy_root x00] []) = VBool true /\
  vres_of_auth (run_auth_scripts toy_orc (toy_cfg_flag2 64) 40 [toy_witness script; taproot_lock toy_root x00] []) = VBool false.
Proof. vm_compute. split; reflexivity. Qed.

(* with flag 2 off the two locks agree on this script (both refuse: the key is absent) *)
Example agree_on_cache_X_when_flag2_off :
  let script := [x0a; x01; x58; x06; x01] in
  vres_of_auth (run_auth_scripts toy_orc (toy_cfg 64) 40 [toy_witness script; nonnative_taproot_lock toy_root x00] []) = VBool false /\
  vres_of_auth (run_auth_scripts toy_orc (toy_cfg 64) 40 [toy_witness script; taproot_lock toy_root x00] []) = VBool false.
Proof. vm_compute. split; reflexivity. Qed.

Print Assumptions differ_on_cache_X.
Print Assumptions agree_on_cache_X_when_flag2_off.
