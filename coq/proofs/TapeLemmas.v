(* Stepping run_tape over bytecode with symbolic operands: fetch, PUSH1 of a symbolic value, end of tape. *)
From Coq Require Import ZArith List Bool Lia.
From Coq.Strings Require Import Byte String.
From TS Require Import Bytes Codec State Prog Ops Interp StateLemmas InterpLemmas NopSpec StackLemmas BytesLemmas.
Import ListNotations.
Local Open Scope nat_scope.

Lemma nth_after (pre : bytes) x tail d : nth (List.length pre) (pre ++ x :: tail) d = x.
Proof. rewrite app_nth2 by lia. rewrite Nat.sub_diag. reflexivity. Qed.

Lemma skipn_after (pre tail : bytes) : skipn (List.length pre) (pre ++ tail) = tail.
Proof. rewrite skipn_app, Nat.sub_diag, skipn_all. reflexivity. Qed.

Lemma b2z_z2b_small n : (0 <= n < 256)%Z -> b2z (z2b n) = n.
Proof. intro H. rewrite b2z_z2b. apply Z.mod_small. exact H. Qed.

Lemma be1 b : be_to_Z [b] = b2z b.
Proof. unfold be_to_Z. cbn [be_acc]. rewrite Z.shiftl_0_l. reflexivity. Qed.

Section TL.
Variable orc : oracle.
Variable cfg : config.

Definition tdata (st : state) (tid : nat) : bytes := to_data (nth_tape st tid).

(* fetch: the byte at the pointer selects the instruction, which runs with the pointer behind the opcode *)
Lemma run_tape_fetch f tid st (pre : bytes) c tail :
  tdata st tid = pre ++ c :: tail ->
  run_tape orc cfg (S f) tid (List.length pre) st =
    match interp orc cfg (fun t s => run_tape orc cfg f t 0 s) (dispatch (N.to_nat (Byte.to_N c)))
                 {| fr_tid := tid; fr_ptr := S (List.length pre) |} st with
    | Done _ fr' st' => run_tape orc cfg f tid (fr_ptr fr') st'
    | Raised e fr' st' => Raised e fr' st'
    | OutOfFuel => OutOfFuel
    | Unmodelled w => Unmodelled w
    end.
Proof.
  intro H. cbn [run_tape]. unfold tdata in H. rewrite H.
  rewrite app_length. cbn [List.length].
  destruct (List.length pre + S (List.length tail) <=? List.length pre) eqn:E; [apply Nat.leb_le in E; lia|].
  rewrite nth_after. reflexivity.
Qed.

Lemma run_tape_end f tid st ptr :
  List.length (tdata st tid) <= ptr ->
  run_tape orc cfg (S f) tid ptr st = Done tt {| fr_tid := tid; fr_ptr := ptr |} st.
Proof. intro H. cbn [run_tape]. unfold tdata in H. apply Nat.leb_le in H. rewrite H. reflexivity. Qed.

Variable run : nat -> state -> outcome unit.

(* PUSH1 <len> <v> with a symbolic value v, the pointer standing just behind the opcode *)
Lemma push1_exec tid st (pre v tail : bytes) s :
  tdata st tid = pre ++ z2b (blen v) :: v ++ tail ->
  (List.length v < 256) -> st_stack st = s ->
  fits cfg v -> space cfg s ->
  interp orc cfg run OP_PUSH1 {| fr_tid := tid; fr_ptr := List.length pre |} st =
    Done tt {| fr_tid := tid; fr_ptr := List.length pre + 1 + List.length v |} (with_stack st (v :: s)).
Proof.
  intros Hd Hl Hs Hf Hsp.
  unfold OP_PUSH1, read_u8, read, put, act. cbn [bind].
  assert (D1 : data_at {| fr_tid := tid; fr_ptr := List.length pre |} st = z2b (blen v) :: v ++ tail).
  { unfold data_at, cur. cbn [fr_tid fr_ptr]. unfold tdata in Hd. rewrite Hd. apply skipn_after. }
  rewrite (read1 orc cfg run _ st _ _ _ _ D1). cbn [bind].
  rewrite be1, b2z_z2b_small by (unfold blen; lia).
  destruct v as [|v0 v'] eqn:Ev.
  - (* empty value: read 0 *)
    cbn [interp step]. unfold adv. cbn [fr_tid fr_ptr blen List.length Z.of_nat Z.to_nat].
    unfold cur. cbn [fr_tid]. unfold tdata in Hd. rewrite Hd.
    rewrite app_length. cbn [List.length app].
    destruct (_ <? _) eqn:E; [apply Nat.ltb_lt in E; lia|].
    cbn [firstn List.length]. rewrite Hs.
    unfold fits, space in *. cbn [List.length] in *.
    destruct (c_max_item_size cfg <? 0) eqn:E1; [apply Nat.ltb_lt in E1; lia|].
    destruct (c_max_items cfg <=? List.length s) eqn:E2; [apply Nat.leb_le in E2; lia|].
    reflexivity.
  - rewrite <- Ev in *.
    assert (D2 : data_at (adv {| fr_tid := tid; fr_ptr := List.length pre |} 1) st = v ++ tail).
    { unfold data_at, cur, adv. cbn [fr_tid fr_ptr]. unfold tdata in Hd. rewrite Hd.
      replace (pre ++ z2b (blen v) :: v ++ tail) with ((pre ++ [z2b (blen v)]) ++ (v ++ tail))
        by (rewrite <- app_assoc; reflexivity).
      replace (List.length pre + 1) with (List.length (pre ++ [z2b (blen v)])) by (rewrite app_length; reflexivity).
      apply skipn_after. }
    rewrite (read_n orc cfg run _ _ _ st v tail (blen v) D2) by (unfold blen; rewrite ?Nat2Z.id; subst v; simpl; lia).
    cbn [bind].
    rewrite (put_step orc cfg run) with (s := s) by assumption.
    cbn [interp]. unfold adv. cbn [fr_tid fr_ptr]. reflexivity.
Qed.

End TL.
