(* C04 / C05: nothing of a supplied script runs unless it hashes to the committed root. *)
From Coq Require Import ZArith List Bool Lia.
From Coq.Strings Require Import Byte String.
From TS Require Import Bytes Codec State Prog Ops Interp StateLemmas InterpLemmas NopSpec StackLemmas.
Import ListNotations.
Local Open Scope nat_scope.

Section MS.
Variable orc : oracle.
Variable cfg : config.
Variable run : nat -> state -> outcome unit.

Notation fits := (fits cfg).
Notation space := (space cfg).

(* the commitment check of OP_MERKLEVAL *)
Definition merkle_commit (h_script2 h_sib : bytes) : bytes := zip_pad byte_xor h_sib h_script2.

(* OP_MERKLEVAL up to (and including) EQUAL_VERIFY, for a stack  script :: sib :: rest  *)
Theorem merkleval_binding fr st root tail script sib rest h1 h2 h3 :
  data_at fr st = root ++ tail -> List.length root = 32 ->
  st_stack st = script :: sib :: rest ->
  orc PSha256 [script] = OOk [h1] -> orc PSha256 [h1] = OOk [h2] -> orc PSha256 [sib] = OOk [h3] ->
  fits script -> fits sib -> fits h1 -> fits h2 -> fits h3 -> fits (merkle_commit h2 h3) -> fits root ->
  List.length rest + 4 <= c_max_items cfg -> 1 <= c_max_item_size cfg ->
  interp orc cfg run OP_MERKLEVAL fr st =
    if bytes_eqb root (merkle_commit h2 h3)
    then interp orc cfg run eval_body (adv fr 32) (with_stack st (script :: rest))
    else Raised ScriptExecutionError (adv fr 32) (with_stack st (script :: rest)).
Proof.
  intros Hd Hr Hs O1 O2 O3 F1 F2 F3 F4 F5 F6 F7 Hsp Hone.
  assert (Fb : forall b, fits [b]) by (intro b; unfold StackLemmas.fits; simpl; lia).
  unfold OP_MERKLEVAL, OP_DUP, OP_SHA256, OP_SWAP2, OP_XOR, OP_EQUAL_VERIFY, OP_EQUAL, OP_VERIFY, swap_core,
    put_bool, prim1, prim_list, read, get, put, sert, act.
  cbn [bind].
  rewrite (read_n orc cfg run _ _ fr st root tail 32 Hd) by (rewrite Hr; reflexivity || lia).
  rewrite Hr. cbn [bind].
  Ltac sget := erewrite get_step by (first [reflexivity | eassumption]); cbn [bind].
  Ltac sput := erewrite put_step;
    [ | first [reflexivity | eassumption]
      | first [eassumption | match goal with H : forall b, StackLemmas.fits _ [b] |- _ => apply H end]
      | unfold StackLemmas.space; simpl List.length; lia ]; cbn [bind].
  sget. sput. sput.                                   (* DUP *)
  sget. rewrite prim_act_step, O1. cbn [bind]. sput.  (* SHA256 *)
  sget. rewrite prim_act_step, O2. cbn [bind]. sput.  (* SHA256 *)
  change (1 =? 2)%Z with false. cbn [bind]. rewrite depth_step. cbn [st_stack with_stack]. simpl List.length.
  replace (Z.max 1 2 <? Z.of_nat (S (S (S (List.length rest)))))%Z with true by (symmetry; apply Z.ltb_lt; lia).
  cbn [bind]. rewrite swap_step by (cbn [st_stack with_stack]; simpl; lia).
  cbn [st_stack with_stack]. change (Z.to_nat 1) with 1. change (Z.to_nat 2) with 2.
  cbn [swap_nth list_set nth bind].                   (* SWAP 1 2 *)
  sget. sget. sput. sput.                             (* SWAP2 *)
  sget. rewrite prim_act_step, O3. cbn [bind]. sput.  (* SHA256 *)
  sget. sget. sput.                                   (* XOR *)
  sput.                                               (* push root *)
  sget. sget. unfold merkle_commit.
  destruct (bytes_eqb root (zip_pad byte_xor h3 h2)); sput; sget.
  - cbn. reflexivity.
  - cbn. reflexivity.
Qed.

End MS.
