(* C09: the embedder configuration is one value [cfg] seen identically by every instruction at every
   nesting level; signature extensions run exactly once per signature instruction; disallowed EVAL. *)
From Coq Require Import ZArith List Bool Lia.
From Coq.Strings Require Import Byte String.
From TS Require Import Bytes Codec State Prog Ops Interp StateLemmas InterpLemmas NopSpec SigSpec.
Import ListNotations.
Open Scope Z_scope.

Section Cfg.
Variable orc : oracle.
Variable cfg : config.

(* reading the configuration gives the embedder's value, whatever the frame, state or interpreter of sub-tapes *)
Theorem config_everywhere run fr st : step orc cfg run AConfig fr st = SOk cfg fr st.
Proof. reflexivity. Qed.

(* every kind of sub-tape is executed by run_tape with the very same oracle and configuration *)
Theorem sub_tapes_same_config f tid ptr st :
  run_tape orc cfg (S f) tid ptr st =
    let data := to_data (nth_tape st tid) in
    if (List.length data <=? ptr)%nat then Done tt {| fr_tid := tid; fr_ptr := ptr |} st
    else match interp orc cfg (fun t s => run_tape orc cfg f t 0%nat s)
                 (dispatch (N.to_nat (Byte.to_N (nth ptr data x00)))) {| fr_tid := tid; fr_ptr := S ptr |} st with
         | Done _ fr' st' => run_tape orc cfg f tid (fr_ptr fr') st'
         | Raised e fr' st' => Raised e fr' st'
         | OutOfFuel => OutOfFuel
         | Unmodelled w => Unmodelled w
         end.
Proof. reflexivity. Qed.

Variable run : nat -> state -> outcome unit.

Definition sigext_log (st : state) : state :=
  with_log st (rev (map EvSigExt (c_sigext cfg)) ++ st_log st).

Lemma log_sigext_spec l : forall fr st,
  interp orc cfg run (log_sigext l) fr st = Done tt fr (with_log st (rev (map EvSigExt l) ++ st_log st)).
Proof.
  induction l as [|i t IH]; intros fr st; cbn [log_sigext map rev].
  - cbn. destruct st; reflexivity.
  - unfold act. cbn [bind interp step]. rewrite IH. cbn [st_log with_log].
    rewrite <- app_assoc. reflexivity.
Qed.

(* the signature-extension plugins of the embedder, each exactly once, in order *)
Theorem run_sig_ext_spec fr st : interp orc cfg run run_sig_ext fr st = Done tt fr (sigext_log st).
Proof. unfold run_sig_ext, config_, act. cbn [bind interp step]. apply log_sigext_spec. Qed.

(* OP_GET_MESSAGE: plugins once, then the flag-selected message *)
Theorem get_message_exact fr st b rest m :
  data_at fr st = b :: rest ->
  msg_of (b2z b) (st_cache st) = Some m ->
  (List.length m <= c_max_item_size cfg)%nat -> (List.length (st_stack st) < c_max_items cfg)%nat ->
  interp orc cfg run OP_GET_MESSAGE fr st =
    Done tt (adv fr 1) (with_stack (sigext_log st) (m :: st_stack st)).
Proof.
  intros Hd Hm H1 H2. unfold OP_GET_MESSAGE.
  rewrite interp_bind, run_sig_ext_spec.
  unfold read_u8, read, act. cbn [bind].
  rewrite (read1 orc cfg run fr (sigext_log st) b rest) by exact Hd.
  cbn [bind]. rewrite interp_bind, get_message_core_spec.
  cbn [st_cache sigext_log with_log].
  replace (be_to_Z [b]) with (b2z b) by (unfold be_to_Z; cbn [be_acc]; rewrite Z.shiftl_0_l; reflexivity).
  rewrite Hm. unfold put, act. cbn [interp step st_stack sigext_log with_log].
  destruct (c_max_item_size cfg <? List.length m)%nat eqn:E1; [apply Nat.ltb_lt in E1; lia|].
  destruct (c_max_items cfg <=? List.length (st_stack st))%nat eqn:E2; [apply Nat.leb_le in E2; lia|].
  reflexivity.
Qed.

(* OP_CHECK_SIG = plugins once ; read the allowed-flags operand ; the check of C02 *)
Theorem check_sig_decomposed fr st b rest :
  data_at fr st = b :: rest ->
  interp orc cfg run OP_CHECK_SIG fr st =
    interp orc cfg run (check_sig_body (b2z b)) (adv fr 1) (sigext_log st).
Proof.
  intro Hd. unfold OP_CHECK_SIG. rewrite interp_bind, run_sig_ext_spec.
  unfold read_u8, read, act. cbn [bind].
  rewrite (read1 orc cfg run fr (sigext_log st) b rest) by exact Hd.
  cbn [bind]. replace (be_to_Z [b]) with (b2z b) by (unfold be_to_Z; cbn [be_acc]; rewrite Z.shiftl_0_l; reflexivity).
  reflexivity.
Qed.

(* a disallowed instruction stays disallowed: EVAL (hence MERKLEVAL's and TAPROOT's script path) raises *)
Theorem eval_disallowed fr st v :
  flag_get (c_flags cfg) (FKStr (str "disallow_OP_EVAL")) = Some v ->
  interp orc cfg run eval_body fr st = Raised ScriptExecutionError fr st.
Proof. intro H. unfold eval_body, config_, act, sert. cbn [bind interp step]. rewrite H. reflexivity. Qed.

(* D7: OP_SET_FLAG raises for every operand; OP_UNSET_FLAG changes nothing but the pointer *)
Theorem set_flag_always_raises fr st :
  match interp orc cfg run OP_SET_FLAG fr st with
  | Raised ScriptExecutionError _ st' => st' = st
  | _ => False
  end.
Proof.
  unfold OP_SET_FLAG, read_u8, read, act. cbn [bind interp step].
  destruct (_ <? _)%nat; cbn [bind interp step]; [reflexivity|].
  destruct (_ <? _)%nat; cbn [bind interp step]; reflexivity.
Qed.

Theorem unset_flag_changes_nothing fr st :
  match interp orc cfg run OP_UNSET_FLAG fr st with
  | Done _ _ st' | Raised _ _ st' => st' = st
  | _ => False
  end.
Proof.
  unfold OP_UNSET_FLAG, read_u8, read, act. cbn [bind interp step].
  destruct (_ <? _)%nat; cbn [bind interp step]; [reflexivity|].
  destruct (_ <? _)%nat; cbn [bind interp step]; reflexivity.
Qed.

End Cfg.
