(* Basic facts about bytes and the big-endian conversions of model/Bytes.v. *)
From Coq Require Import ZArith List Bool Lia NArith.
From Coq.Strings Require Import Byte.
From TS Require Import Bytes.
Import ListNotations.
Open Scope Z_scope.

Lemma land255 z : Z.land z 255 = z mod 256.
Proof. change 255 with (Z.ones 8). rewrite Z.land_ones by lia. reflexivity. Qed.
Lemma shiftr8 v : Z.shiftr v 8 = v / 256.
Proof. rewrite Z.shiftr_div_pow2 by lia. reflexivity. Qed.
Lemma shiftl8 a : Z.shiftl a 8 = a * 256.
Proof. rewrite Z.shiftl_mul_pow2 by lia. reflexivity. Qed.

Lemma b2z_range : forall b, 0 <= b2z b < 256.
Proof.
  intros b. unfold b2z. pose proof (Byte.to_N_bounded b). lia.
Qed.

Lemma z2b_b2z : forall b, z2b (b2z b) = b.
Proof.
  intros b. unfold z2b. rewrite land255. pose proof (b2z_range b) as H.
  rewrite Z.mod_small by exact H.
  unfold b2z. rewrite N2Z.id. rewrite Byte.of_to_N. reflexivity.
Qed.

Lemma b2z_z2b : forall z, b2z (z2b z) = z mod 256.
Proof.
  intros z. unfold z2b, b2z. rewrite land255.
  assert (Hm : 0 <= z mod 256 < 256) by (apply Z.mod_pos_bound; lia).
  destruct (Byte.of_N (Z.to_N (z mod 256))) as [b|] eqn:E.
  - apply Byte.to_of_N in E. rewrite E. rewrite Z2N.id; lia.
  - apply Byte.of_N_None_iff in E. lia.
Qed.

Lemma b2z_inj : forall a b, b2z a = b2z b -> a = b.
Proof.
  intros a b H. rewrite <- (z2b_b2z a), <- (z2b_b2z b). now rewrite H.
Qed.

Lemma pow256_pos : forall k, 0 <= k -> 0 < 256 ^ k.
Proof. intros. apply Z.pow_pos_nonneg; lia. Qed.

Lemma pow256_2 : forall k, 0 <= k -> 256 ^ k = 2 ^ (8 * k).
Proof.
  intros k Hk. rewrite Z.pow_mul_r by lia. reflexivity.
Qed.

Lemma blen_nonneg : forall l, 0 <= blen l.
Proof. intros. unfold blen. lia. Qed.

Lemma blen_cons : forall x l, blen (x :: l) = blen l + 1.
Proof. intros. unfold blen. simpl List.length. lia. Qed.

Lemma blen_nil : blen [] = 0.
Proof. reflexivity. Qed.

Lemma be_acc_spec : forall l acc, be_acc acc l = acc * 256 ^ blen l + be_to_Z l.
Proof.
  unfold be_to_Z.
  induction l as [|x t IH]; intros acc.
  - simpl be_acc. rewrite blen_nil. rewrite Z.pow_0_r. lia.
  - cbn [be_acc]. rewrite !shiftl8. rewrite IH. rewrite (IH (0 * 256 + b2z x)).
    rewrite blen_cons. rewrite Z.pow_add_r by (pose proof (blen_nonneg t); lia).
    rewrite Z.pow_1_r. ring.
Qed.

Lemma be_to_Z_nil : be_to_Z [] = 0.
Proof. reflexivity. Qed.

Lemma be_to_Z_cons : forall x t, be_to_Z (x :: t) = b2z x * 256 ^ blen t + be_to_Z t.
Proof.
  intros. unfold be_to_Z at 1. cbn [be_acc]. rewrite be_acc_spec. f_equal.
Qed.

Lemma be_to_Z_range : forall l, 0 <= be_to_Z l < 256 ^ blen l.
Proof.
  induction l as [|x t IH].
  - rewrite be_to_Z_nil, blen_nil. rewrite Z.pow_0_r. lia.
  - rewrite be_to_Z_cons, blen_cons.
    rewrite Z.pow_add_r by (pose proof (blen_nonneg t); lia).
    rewrite Z.pow_1_r.
    pose proof (b2z_range x). pose proof (pow256_pos (blen t) (blen_nonneg t)).
    nia.
Qed.

Lemma be_acc_app : forall l1 l2 acc, be_acc acc (l1 ++ l2) = be_acc (be_acc acc l1) l2.
Proof.
  induction l1 as [|x t IH]; intros; simpl; auto.
Qed.

Lemma be_to_Z_snoc : forall l x, be_to_Z (l ++ [x]) = be_to_Z l * 256 + b2z x.
Proof.
  intros. unfold be_to_Z. rewrite be_acc_app. cbn [be_acc]. rewrite shiftl8. reflexivity.
Qed.

Lemma length_Z_to_be : forall len v, List.length (Z_to_be len v) = len.
Proof.
  induction len as [|k IH]; intros v; simpl; auto.
  rewrite app_length, IH. simpl. lia.
Qed.

Lemma blen_Z_to_be : forall len v, blen (Z_to_be len v) = Z.of_nat len.
Proof. intros. unfold blen. now rewrite length_Z_to_be. Qed.

Lemma be_to_Z_Z_to_be : forall len v, be_to_Z (Z_to_be len v) = v mod 256 ^ Z.of_nat len.
Proof.
  induction len as [|k IH]; intros v.
  - simpl. rewrite Z.mod_1_r. reflexivity.
  - simpl Z_to_be. rewrite shiftr8. rewrite be_to_Z_snoc, IH, b2z_z2b.
    rewrite Nat2Z.inj_succ, Z.pow_succ_r by lia.
    rewrite Z.rem_mul_r by (try apply pow256_pos; lia).
    ring.
Qed.

(* big-endian decoding is injective on strings of equal length *)
Lemma be_to_Z_inj : forall a b,
  List.length a = List.length b -> be_to_Z a = be_to_Z b -> a = b.
Proof.
  induction a as [|x a IH]; intros [|y b] Hl He; simpl in Hl; try discriminate; auto.
  injection Hl as Hl.
  rewrite !be_to_Z_cons in He.
  assert (Hb : blen a = blen b) by (unfold blen; now rewrite Hl).
  rewrite Hb in He.
  pose proof (be_to_Z_range a) as Ra. rewrite Hb in Ra.
  pose proof (be_to_Z_range b) as Rb.
  pose proof (b2z_range x). pose proof (b2z_range y).
  pose proof (pow256_pos (blen b) (blen_nonneg b)) as HP.
  set (P := 256 ^ blen b) in *.
  assert (b2z x = b2z y) by nia.
  assert (be_to_Z a = be_to_Z b) by nia.
  f_equal; [now apply b2z_inj | now apply IH].
Qed.
