(* Stepping run_tape over the bytes of the lock / witness builders: one lemma per instruction, stated so
   that the steps chain (the tape is [pre ++ instruction bytes ++ tail], the pointer moves from
   [length pre] to [length (pre ++ instruction bytes)]).  Shared by BuilderSpecC13 and LockSpecC16. *)
From Coq Require Import ZArith List Bool Lia.
From Coq.Strings Require Import Byte String.
From TS Require Import Bytes Codec State Prog Ops Interp StateLemmas InterpLemmas NopSpec StackLemmas
  BytesLemmas TapeLemmas SigSpec ConfigSpec AuthSpec Asm BuilderSpec.
Import ListNotations.
Local Open Scope nat_scope.

Lemma bytes_eqb_neq (a b : bytes) : a <> b -> bytes_eqb a b = false.
Proof.
  intro H. destruct (bytes_eqb a b) eqn:E; [|reflexivity].
  apply bytes_eqb_eq in E. contradiction.
Qed.

Lemma verdict_byte (v : bool) : bytes_eqb (if v then [xff] else [x00]) [xff] = v.
Proof. destruct v; reflexivity. Qed.

Lemma not_byte (v : bool) : map byte_not (if v then [xff] else [x00]) = if negb v then [xff] else [x00].
Proof. destruct v; vm_compute; reflexivity. Qed.

Lemma to_bool_byte (v : bool) : bytes_to_bool (if v then [xff] else [x00]) = v.
Proof. destruct v; reflexivity. Qed.

(* run_tape ... 0 st  ~>  run_tape ... (length []) st, the form expected by the step lemmas *)
Ltac start_tape :=
  match goal with
  | |- context [run_tape ?o ?c ?F ?t 0 ?s] =>
    change (run_tape o c F t 0 s) with (run_tape o c F t (List.length (@nil byte)) s)
  end.

Section Steps.
Variable orc : oracle.
Variable cfg : config.

Lemma tdata_with_stack st s tid : tdata (with_stack st s) tid = tdata st tid.
Proof. reflexivity. Qed.

Lemma data_at_after tid st (pre : bytes) c tail :
  tdata st tid = pre ++ c :: tail ->
  data_at {| fr_tid := tid; fr_ptr := S (List.length pre) |} st = tail.
Proof.
  intro H. unfold data_at, cur. cbn [fr_tid fr_ptr]. fold (tdata st tid). rewrite H.
  replace (S (List.length pre)) with (List.length (pre ++ [c])) by (rewrite app_length; simpl; lia).
  replace (pre ++ c :: tail) with ((pre ++ [c]) ++ tail) by (rewrite <- app_assoc; reflexivity).
  apply skipn_after.
Qed.

(* generic: the instruction under the pointer ends normally / raises *)
Lemma step_done f tid st (pre : bytes) c tail fr' st' :
  tdata st tid = pre ++ c :: tail ->
  interp orc cfg (fun t s => run_tape orc cfg f t 0 s) (dispatch (N.to_nat (Byte.to_N c)))
         {| fr_tid := tid; fr_ptr := S (List.length pre) |} st = Done tt fr' st' ->
  run_tape orc cfg (S f) tid (List.length pre) st = run_tape orc cfg f tid (fr_ptr fr') st'.
Proof. intros H E. rewrite (run_tape_fetch orc cfg f tid st pre c tail H), E. reflexivity. Qed.

Lemma step_raised f tid st (pre : bytes) c tail e fr' st' :
  tdata st tid = pre ++ c :: tail ->
  interp orc cfg (fun t s => run_tape orc cfg f t 0 s) (dispatch (N.to_nat (Byte.to_N c)))
         {| fr_tid := tid; fr_ptr := S (List.length pre) |} st = Raised e fr' st' ->
  run_tape orc cfg (S f) tid (List.length pre) st = Raised e fr' st'.
Proof. intros H E. rewrite (run_tape_fetch orc cfg f tid st pre c tail H), E. reflexivity. Qed.

Lemma step_unmod f tid st (pre : bytes) c tail w :
  tdata st tid = pre ++ c :: tail ->
  interp orc cfg (fun t s => run_tape orc cfg f t 0 s) (dispatch (N.to_nat (Byte.to_N c)))
         {| fr_tid := tid; fr_ptr := S (List.length pre) |} st = Unmodelled w ->
  run_tape orc cfg (S f) tid (List.length pre) st = Unmodelled w.
Proof. intros H E. rewrite (run_tape_fetch orc cfg f tid st pre c tail H), E. reflexivity. Qed.

(* an instruction without operands that does not touch the frame *)
Lemma op0_done f tid st (pre : bytes) c tail st' :
  tdata st tid = pre ++ c :: tail ->
  (forall run fr, interp orc cfg run (dispatch (N.to_nat (Byte.to_N c))) fr st = Done tt fr st') ->
  run_tape orc cfg (S f) tid (List.length pre) st = run_tape orc cfg f tid (List.length (pre ++ [c])) st'.
Proof.
  intros H E. rewrite (step_done f tid st pre c tail _ st' H (E _ _)). cbn [fr_ptr].
  rewrite app_length. simpl. f_equal. lia.
Qed.

Lemma op0_raised f tid st (pre : bytes) c tail e st' :
  tdata st tid = pre ++ c :: tail ->
  (forall run fr, interp orc cfg run (dispatch (N.to_nat (Byte.to_N c))) fr st = Raised e fr st') ->
  run_tape orc cfg (S f) tid (List.length pre) st =
    Raised e {| fr_tid := tid; fr_ptr := S (List.length pre) |} st'.
Proof. intros H E. apply (step_raised f tid st pre c tail e _ st' H (E _ _)). Qed.

(* end of the tape *)
Lemma tape_end f tid st (pre : bytes) :
  tdata st tid = pre ->
  run_tape orc cfg (S f) tid (List.length pre) st = Done tt {| fr_tid := tid; fr_ptr := List.length pre |} st.
Proof. intro H. apply run_tape_end. rewrite H. lia. Qed.

(* PUSH1 <len> <v> *)
Lemma push1_step f tid st (pre v tail : bytes) s :
  tdata st tid = pre ++ push1_bytes v ++ tail ->
  List.length v < 256 -> st_stack st = s -> fits cfg v -> space cfg s ->
  run_tape orc cfg (S f) tid (List.length pre) st =
    run_tape orc cfg f tid (List.length (pre ++ push1_bytes v)) (with_stack st (v :: s)).
Proof.
  intros Hd Hl Hs Hf Hsp.
  assert (Hd0 : tdata st tid = pre ++ x03 :: (z2b (blen v) :: v ++ tail)) by exact Hd.
  rewrite (run_tape_fetch orc cfg f tid st pre x03 _ Hd0).
  change (dispatch (N.to_nat (Byte.to_N x03))) with OP_PUSH1.
  replace (S (List.length pre)) with (List.length (pre ++ [x03])) by (rewrite app_length; simpl; lia).
  assert (Hd1 : tdata st tid = (pre ++ [x03]) ++ z2b (blen v) :: v ++ tail)
    by (rewrite <- app_assoc; exact Hd0).
  rewrite (push1_exec orc cfg _ tid st (pre ++ [x03]) v tail s Hd1 Hl Hs Hf Hsp).
  cbn [fr_ptr]. f_equal. unfold push1_bytes. rewrite !app_length. simpl. lia.
Qed.

(* a run of PUSH1 instructions pushes all the values, the last one on top *)
Definition pushes_bytes (vs : list bytes) : bytes := flat_map push1_bytes vs.

Lemma pushes_step : forall (vs : list bytes) f tid st (pre tail : bytes) s,
  tdata st tid = pre ++ pushes_bytes vs ++ tail ->
  (forall v, In v vs -> List.length v < 256 /\ fits cfg v) ->
  st_stack st = s -> List.length s + List.length vs <= c_max_items cfg ->
  run_tape orc cfg (List.length vs + f) tid (List.length pre) st =
    run_tape orc cfg f tid (List.length (pre ++ pushes_bytes vs)) (with_stack st (rev vs ++ s)).
Proof.
  induction vs as [|v vs IH]; intros f tid st pre tail s Hd Hv Hs Hsp.
  - cbn [pushes_bytes flat_map rev app List.length plus]. rewrite app_nil_r.
    rewrite <- Hs, with_stack_same. reflexivity.
  - cbn [List.length plus].
    assert (Hd0 : tdata st tid = pre ++ push1_bytes v ++ (pushes_bytes vs ++ tail)).
    { rewrite Hd. unfold pushes_bytes. cbn [flat_map]. rewrite <- app_assoc. reflexivity. }
    destruct (Hv v (or_introl eq_refl)) as [Hl Hf].
    rewrite (push1_step _ tid st pre v _ s Hd0 Hl Hs Hf) by (unfold space; simpl in Hsp; lia).
    rewrite (IH f tid (with_stack st (v :: s)) (pre ++ push1_bytes v) tail (v :: s)).
    + cbn [rev pushes_bytes flat_map]. rewrite <- !app_assoc. reflexivity.
    + rewrite tdata_with_stack, Hd0, <- app_assoc. reflexivity.
    + intros v' Hv'. apply Hv. right. exact Hv'.
    + reflexivity.
    + simpl in *. lia.
Qed.

Variable run : nat -> state -> outcome unit.

(* ---- the stack-only instructions used by the builders ---- *)

Lemma true_exec fr st s :
  st_stack st = s -> 1 <= c_max_item_size cfg -> space cfg s ->
  interp orc cfg run OP_TRUE fr st = Done tt fr (with_stack st ([xff] :: s)).
Proof.
  intros Hs H1 Hsp. unfold OP_TRUE, put, act.
  rewrite (put_step orc cfg run) with (s := s); [reflexivity|exact Hs|unfold fits; simpl; lia|exact Hsp].
Qed.

Lemma dup_exec fr st x s :
  st_stack st = x :: s -> fits cfg x -> List.length s + 2 <= c_max_items cfg ->
  interp orc cfg run OP_DUP fr st = Done tt fr (with_stack st (x :: x :: s)).
Proof.
  intros Hs Hf Hsp. unfold OP_DUP, get, put, act. cbn [bind].
  rewrite (get_step orc cfg run _ _ fr st x s Hs).
  rewrite (put_step orc cfg run) with (s := s); [|reflexivity|exact Hf|unfold space; lia].
  rewrite (put_step orc cfg run) with (s := x :: s); [|reflexivity|exact Hf|unfold space; simpl; lia].
  reflexivity.
Qed.

Lemma equal_verify_exec fr st a b s :
  st_stack st = a :: b :: s -> 1 <= c_max_item_size cfg -> space cfg s ->
  interp orc cfg run OP_EQUAL_VERIFY fr st =
    if bytes_eqb a b then Done tt fr (with_stack st s)
    else Raised ScriptExecutionError fr (with_stack st s).
Proof.
  intros Hs H1 Hsp. unfold OP_EQUAL_VERIFY, OP_EQUAL, OP_VERIFY, put_bool, get, put, sert, act. cbn [bind].
  rewrite (get_step orc cfg run _ _ fr st a (b :: s) Hs).
  rewrite (get_step orc cfg run _ _ fr _ b s) by reflexivity.
  rewrite (put_step orc cfg run) with (s := s);
    [|reflexivity|unfold fits; destruct (bytes_eqb a b); simpl; lia|exact Hsp].
  rewrite (get_step orc cfg run _ _ fr _ (if bytes_eqb a b then [xff] else [x00]) s) by reflexivity.
  rewrite to_bool_byte. destruct (bytes_eqb a b); reflexivity.
Qed.

Lemma not_exec fr st (v : bool) s :
  st_stack st = (if v then [xff] else [x00]) :: s -> 1 <= c_max_item_size cfg -> space cfg s ->
  interp orc cfg run OP_NOT fr st = Done tt fr (with_stack st ((if negb v then [xff] else [x00]) :: s)).
Proof.
  intros Hs H1 Hsp. unfold OP_NOT, get, put, act. cbn [bind].
  rewrite (get_step orc cfg run _ _ fr st _ s Hs). rewrite not_byte.
  rewrite (put_step orc cfg run) with (s := s);
    [reflexivity|reflexivity|unfold fits; destruct v; simpl; lia|exact Hsp].
Qed.

Lemma verify_exec fr st (v : bool) s :
  st_stack st = (if v then [xff] else [x00]) :: s ->
  interp orc cfg run OP_VERIFY fr st =
    if v then Done tt fr (with_stack st s) else Raised ScriptExecutionError fr (with_stack st s).
Proof.
  intros Hs. unfold OP_VERIFY, get, sert, act. cbn [bind].
  rewrite (get_step orc cfg run _ _ fr st _ s Hs). rewrite to_bool_byte. destruct v; reflexivity.
Qed.

End Steps.
