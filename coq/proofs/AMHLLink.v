(* C18 link: the byte-level model of /repo/tapescript/AMHL.py and tools.release_left_amhl_lock (model/AMHL.v)
   computes exactly the abstract functions of Algebra.v (Y_list, scalar_sum / total, prefix_sum, check_setup,
   release, verify_lock_key, release_left) whenever the oracle is interpreted by an algebraic structure through
   byte encodings.  Hence the algebraic theorems amhl_points, amhl_check_setup, amhl_final_key, amhl_release and
   amhl_cascade of Algebra.v are theorems about what AMHL.py returns.

   Scalars as byte strings.  AMHL.py feeds to libsodium byte strings that are NOT canonical encodings of reduced
   scalars: a sample is clamp(sha256(..)), any 255-bit number.  As in AdapterLink.v ([key_repr]) a byte string kb
   REPRESENTS a scalar x when the oracle's answers on kb are those of x.  Here the relation is a Section variable
   [srep : bytes -> scalar -> Prop] (for libsodium: kb is the little-endian encoding of a number congruent to x
   modulo the group order) with exactly these premises:
     R_es      every canonical encoding es a represents a;
     O_base    PBaseMult  [kb]      = ep (x G)          whenever kb represents x;
     O_sadd    PScalarAdd [ka; kb]  = es (a + b)        whenever ka represents a and kb represents b;
     O_ssub    PScalarSub [ka; kb]  = es (a - b)        whenever ka represents a and kb represents b;
     R_sample  the sample byte string  clamp (h256 (seed ++ i as 8 bytes big endian))  represents [yv seed i].
   SHA-256 stays abstract: [h256] is any function with 32-byte values that the oracle's PSha256 answers with, and
   [yv] is any family of scalars satisfying R_sample.  Points are used only through their encodings ep P
   (O_padd, O_valid). *)
From Coq Require Import ZArith List Bool Lia Ring Ring_theory.
From Coq.Strings Require Import Byte.
From TS Require Import Bytes State Prog Ops Interp StateLemmas TaprootSpec Algebra AMHL.
Import ListNotations.
Local Open Scope nat_scope.

(* ---------------------------------------------------------------------- *)
(* pure facts                                                              *)
(* ---------------------------------------------------------------------- *)

(* the pure clamp of model/AMHL.v is the clamp32 of the development ... *)
Lemma clamp_pure_clamp32 h : clamp_pure h = clamp32 h.
Proof. reflexivity. Qed.

(* ... and [clamp_false] is what the VM's clamp_scalar _ false returns *)
Lemma clamp_false_interp orc cfg run h c fr st :
  clamp_false h = Some c -> interp orc cfg run (clamp_scalar h false) fr st = Done c fr st.
Proof.
  unfold clamp_false, clamp_scalar. destruct (blen h <? 32)%Z; [discriminate|].
  intro H. injection H as <-. reflexivity.
Qed.

Lemma omap_map {A B} (f : A -> option B) (g : A -> B) l :
  (forall a, In a l -> f a = Some (g a)) -> omap f l = Some (map g l).
Proof.
  induction l as [|a l IH]; intro H; [reflexivity|].
  cbn [omap map]. rewrite (H a (or_introl eq_refl)). cbn [obind].
  rewrite IH by (intros b Hb; apply H; right; exact Hb). reflexivity.
Qed.

Lemma nth_error_map_nth {A B} (f : A -> B) l i d :
  i < List.length l -> nth_error (map f l) i = Some (f (nth i l d)).
Proof. intro H. apply map_nth_error. apply nth_error_nth'. exact H. Qed.

Lemma last_map {A B} (f : A -> B) l d d' : l <> [] -> last (map f l) d' = f (last l d).
Proof.
  induction l as [|a l IH]; intro H; [congruence|].
  destruct l as [|b l]; [reflexivity|].
  change (last (map f (a :: b :: l)) d') with (last (map f (b :: l)) d').
  change (last (a :: b :: l) d) with (last (b :: l) d). apply IH. discriminate.
Qed.

Lemma skipn_app_exact {A} (l1 l2 : list A) n : List.length l1 = n -> skipn n (l1 ++ l2) = l2.
Proof. intros <-. rewrite skipn_app, skipn_all, Nat.sub_diag. reflexivity. Qed.

Lemma firstn_app_exact {A} (l1 l2 : list A) n : List.length l1 = n -> firstn n (l1 ++ l2) = l1.
Proof. intros <-. rewrite firstn_app, firstn_all, Nat.sub_diag. cbn [firstn]. apply app_nil_r. Qed.

Lemma last_nth {A} (l : list A) d : last l d = nth (List.length l - 1) l d.
Proof.
  induction l as [|a l IH]; [reflexivity|].
  destruct l as [|b l]; [reflexivity|].
  change (last (a :: b :: l) d) with (last (b :: l) d). rewrite IH.
  cbn [List.length]. replace (S (S (List.length l)) - 1) with (S (S (List.length l) - 1)) by lia.
  reflexivity.
Qed.

(* ---------------------------------------------------------------------- *)
(* the link                                                                *)
(* ---------------------------------------------------------------------- *)

Section Link.
  (* --- the algebraic structure: the interface of Algebra.v (Section Alg), the part its AMHL theorems use --- *)
  Variable scalar : Type.
  Variables (s0 s1 : scalar) (sadd smul ssub : scalar -> scalar -> scalar) (sopp : scalar -> scalar).
  Hypothesis scalar_ring : ring_theory s0 s1 sadd smul ssub sopp (@eq scalar).
  Variable point : Type.
  Variables (p0 : point) (padd : point -> point -> point).
  Hypothesis padd_comm : forall P Q, padd P Q = padd Q P.
  Hypothesis padd_assoc : forall P Q R, padd P (padd Q R) = padd (padd P Q) R.
  Variable sact : scalar -> point -> point.          (* [act] of Algebra.v *)
  Hypothesis act_add_l : forall a b P, sact (sadd a b) P = padd (sact a P) (sact b P).
  Hypothesis act_mul : forall a b P, sact (smul a b) P = sact a (sact b P).
  Variable G : point.

  (* --- encodings --- *)
  Variables (es : scalar -> bytes) (ep : point -> bytes).
  Hypothesis len_es : forall a, List.length (es a) = 32.
  Hypothesis len_ep : forall P, List.length (ep P) = 32.
  Hypothesis ep_inj : forall P Q, ep P = ep Q -> P = Q.

  (* --- hashing (abstract) --- *)
  Variable h256 : bytes -> bytes.
  Hypothesis len_h256 : forall b, List.length (h256 b) = 32.

  (* --- byte strings representing scalars --- *)
  Variable srep : bytes -> scalar -> Prop.
  Hypothesis R_es : forall a, srep (es a) a.

  (* --- the oracle computes in the structure --- *)
  Variable orc : oracle.
  Hypothesis O_sha : forall b, orc PSha256 [b] = OOk [h256 b].
  Hypothesis O_base : forall kb x, srep kb x -> orc PBaseMult [kb] = OOk [ep (sact x G)].
  Hypothesis O_sadd : forall ka a kb b, srep ka a -> srep kb b -> orc PScalarAdd [ka; kb] = OOk [es (sadd a b)].
  Hypothesis O_ssub : forall ka a kb b, srep ka a -> srep kb b -> orc PScalarSub [ka; kb] = OOk [es (ssub a b)].
  Hypothesis O_padd : forall P Q, orc PPointAdd [ep P; ep Q] = OOk [ep (padd P Q)].
  Hypothesis O_valid : forall P, orc PValidPoint [ep P] = OOk [[x01]].

  (* --- the samples: the byte string AMHL.sample(seed, i) returns, and the scalar it represents --- *)
  Definition sampleb (seed : bytes) (i : nat) : bytes := clamp_pure (h256 (seed ++ Z_to_be 8 (Z.of_nat i))).
  Variable yv : bytes -> nat -> scalar.
  Hypothesis R_sample : forall seed i, srep (sampleb seed i) (yv seed i).

  (* the setup of n users from the (effective) seed, as byte strings and as scalars / points *)
  Definition ysb (seed : bytes) (n : nat) : list bytes := map (sampleb seed) (seq 0 n).
  Definition ysv (seed : bytes) (n : nat) : list scalar := map (yv seed) (seq 0 n).
  Definition Ysv (seed : bytes) (n : nat) : list point := Y_list padd sact G (ysv seed n).

  Notation psum := (prefix_sum s0 sadd).
  Notation totalA := (total s0 sadd).

  (* ------------------------------------------------------------------ *)
  (* single calls                                                        *)
  (* ------------------------------------------------------------------ *)

  Lemma oprim1_ok p args r : orc p args = OOk [r] -> oprim1 orc p args = Some r.
  Proof. intro H. unfold oprim1. rewrite H. reflexivity. Qed.

  Lemma oneway_ok kb x : srep kb x -> oneway orc kb = Some (ep (sact x G)).
  Proof. intro H. apply oprim1_ok, O_base, H. Qed.

  Lemma aggregate2_ok P Q : AMHL.aggregate_points orc [ep P; ep Q] = Some (ep (padd P Q)).
  Proof.
    unfold AMHL.aggregate_points. cbn [AMHL.check_points AMHL.sum_with].
    rewrite !(oprim1_ok _ _ _ (O_valid _)). cbn [obind].
    change (bytes_to_bool [x01]) with true. cbn [obind].
    rewrite (oprim1_ok _ _ _ (O_padd P Q)). reflexivity.
  Qed.

  Lemma sample_ok seed i : (Z.of_nat i < 2 ^ 64)%Z -> sample orc seed i = Some (sampleb seed i).
  Proof.
    intro Hi. unfold sample, index_bytes.
    destruct (Z.ltb_spec (Z.of_nat i) (2 ^ 64)) as [_|Hc]; [|lia]. cbn [obind].
    rewrite (oprim1_ok _ _ _ (O_sha _)). cbn [obind].
    unfold clamp_false, blen. rewrite len_h256. reflexivity.
  Qed.

  Lemma samples_ok fresh n seed : (Z.of_nat n <= 2 ^ 64)%Z ->
    samples orc fresh n seed = Some (ysb (eff_seed fresh seed) n).
  Proof.
    intro Hn. unfold samples, ysb. apply omap_map.
    intros i Hi. apply in_seq in Hi. apply sample_ok. lia.
  Qed.

  Lemma ys_length seed n : List.length (ysv seed n) = n.
  Proof. unfold ysv. rewrite map_length, seq_length. reflexivity. Qed.

  Lemma ysb_length seed n : List.length (ysb seed n) = n.
  Proof. unfold ysb. rewrite map_length, seq_length. reflexivity. Qed.

  Lemma Ys_length seed n : List.length (Ysv seed n) = n.
  Proof. unfold Ysv. rewrite Y_list_length. apply ys_length. Qed.

  Lemma ys_nth seed n i : i < n -> nth i (ysv seed n) s0 = yv seed i.
  Proof.
    intro Hi. unfold ysv.
    rewrite (nth_indep _ s0 (yv seed 0)) by (rewrite map_length, seq_length; exact Hi).
    rewrite map_nth, seq_nth by exact Hi. reflexivity.
  Qed.

  Lemma ysb_nth_error seed n i : i < n -> nth_error (ysb seed n) i = Some (sampleb seed i).
  Proof.
    intro Hi. unfold ysb. rewrite (nth_error_map_nth _ _ _ 0) by (rewrite seq_length; exact Hi).
    rewrite seq_nth by exact Hi. reflexivity.
  Qed.

  Lemma ys_ne seed n : 1 <= n -> ysv seed n <> [].
  Proof. intros Hn E. apply (f_equal (@List.length _)) in E. rewrite ys_length in E. cbn in E. lia. Qed.

  Lemma srep_samples seed l : Forall2 srep (map (sampleb seed) l) (map (yv seed) l).
  Proof. induction l as [|i l IH]; cbn [map]; constructor; [apply R_sample | exact IH]. Qed.

  (* ------------------------------------------------------------------ *)
  (* (a) setup                                                           *)
  (* ------------------------------------------------------------------ *)

  Lemma setup_loop_ok kbs : forall xs prev, Forall2 srep kbs xs ->
    setup_loop orc (ep prev) kbs = Some (map ep (Y_from padd sact G prev xs)).
  Proof.
    induction kbs as [|kb kbs IH]; intros xs prev H; inversion H as [|? x ? xs' Hx Hr]; subst.
    - reflexivity.
    - cbn [setup_loop Y_from map]. rewrite (oneway_ok kb x Hx). cbn [obind].
      rewrite aggregate2_ok. cbn [obind]. rewrite (IH xs' _ Hr). reflexivity.
  Qed.

  Theorem amhl_setup_computes fresh n seed :
    1 <= n -> (Z.of_nat n <= 2 ^ 64)%Z ->
    let sd := eff_seed fresh seed in
    AMHL.setup orc fresh n seed = Some (ysb sd n, map ep (Ysv sd n)).
  Proof.
    intros Hn Hb sd. unfold AMHL.setup. rewrite (samples_ok fresh n seed Hb). fold sd. cbn [obind].
    destruct n as [|m]; [lia|].
    unfold Ysv, ysv, ysb. cbn [seq map Y_list].
    rewrite (oneway_ok _ _ (R_sample sd 0)). cbn [obind].
    rewrite (setup_loop_ok _ _ _ (srep_samples sd (seq 1 m))). reflexivity.
  Qed.

  (* the i-th point of the setup is (y_0 + ... + y_i) G   (Algebra.amhl_points) *)
  Corollary amhl_setup_points seed n i : i < n ->
    nth i (map ep (Ysv seed n)) [] = ep (sact (psum (ysv seed n) i) G).
  Proof.
    intro Hi. rewrite (nth_indep _ [] (ep p0)) by (rewrite map_length, Ys_length; exact Hi).
    rewrite map_nth. unfold Ysv.
    rewrite (amhl_points scalar s0 sadd point p0 padd sact act_add_l G) by (rewrite ys_length; exact Hi).
    reflexivity.
  Qed.

  (* ------------------------------------------------------------------ *)
  (* scalar_sum                                                          *)
  (* ------------------------------------------------------------------ *)

  Lemma sum_with_sadd_ok kbs : forall xs accb acc, srep accb acc -> Forall2 srep kbs xs ->
    exists k, AMHL.sum_with orc PScalarAdd accb kbs = Some k /\ srep k (fold_left sadd xs acc).
  Proof.
    induction kbs as [|kb kbs IH]; intros xs accb acc Ha H; inversion H as [|? x ? xs' Hx Hr]; subst.
    - exists accb. split; [reflexivity | exact Ha].
    - cbn [AMHL.sum_with fold_left]. rewrite (oprim1_ok _ _ _ (O_sadd _ _ _ _ Ha Hx)). cbn [obind].
      apply IH; [apply R_es | exact Hr].
  Qed.

  Lemma scalar_sum_ok kbs xs : Forall2 srep kbs xs -> kbs <> [] ->
    exists k, AMHL.scalar_sum orc kbs = Some k /\ srep k (Algebra.scalar_sum s0 sadd xs).
  Proof.
    intros H Hne. inversion H as [|kb x kbs' xs' Hx Hr]; subst; [congruence|].
    cbn [AMHL.scalar_sum Algebra.scalar_sum]. apply sum_with_sadd_ok; assumption.
  Qed.

  (* ------------------------------------------------------------------ *)
  (* (b) setup_for and check_setup                                       *)
  (* ------------------------------------------------------------------ *)

  Lemma setup_for_first seed n : 1 <= n ->
    AMHL.setup_for orc (ysb seed n, map ep (Ysv seed n)) 0 = Some (VFirst (sampleb seed 0)).
  Proof.
    intro Hn. unfold AMHL.setup_for. cbn [Nat.eqb fst]. rewrite ysb_nth_error by lia. reflexivity.
  Qed.

  Lemma setup_for_mid seed n i : 0 < i < n ->
    AMHL.setup_for orc (ysb seed n, map ep (Ysv seed n)) i =
    Some (VMid (ep (nth (i - 1) (Ysv seed n) p0)) (ep (nth i (Ysv seed n) p0)) (sampleb seed i)).
  Proof.
    intro Hi. unfold AMHL.setup_for. cbn [fst snd]. rewrite ysb_length.
    destruct (Nat.eqb_spec i 0) as [E|_]; [lia|].
    destruct (Nat.eqb_spec i n) as [E|_]; [lia|].
    rewrite !(nth_error_map_nth ep _ _ p0) by (rewrite Ys_length; lia). cbn [obind].
    rewrite ysb_nth_error by lia. reflexivity.
  Qed.

  Lemma setup_for_last seed n : 1 <= n ->
    exists k, AMHL.setup_for orc (ysb seed n, map ep (Ysv seed n)) n =
                Some (VLast (ep (nth (n - 1) (Ysv seed n) p0)) k) /\
              srep k (totalA (ysv seed n)).
  Proof.
    intro Hn. unfold AMHL.setup_for. cbn [fst snd]. rewrite ysb_length.
    destruct (Nat.eqb_spec n 0) as [E|_]; [lia|]. rewrite Nat.eqb_refl.
    rewrite (nth_error_map_nth ep _ _ p0) by (rewrite Ys_length; lia). cbn [obind].
    destruct (scalar_sum_ok (ysb seed n) (ysv seed n)) as [k [E R]].
    - apply srep_samples.
    - intro E. apply (f_equal (@List.length _)) in E. rewrite ysb_length in E. cbn in E. lia.
    - exists k. rewrite E. split; [reflexivity | exact R].
  Qed.

  (* check_setup on the three shapes *)
  Lemma check_setup_first y0 n : AMHL.check_setup orc (VFirst y0) 0 n = Some true.
  Proof. reflexivity. Qed.

  Lemma check_setup_last Yl k n : 1 <= n -> AMHL.check_setup orc (VLast Yl k) n n = Some true.
  Proof.
    intro Hn. unfold AMHL.check_setup. destruct (Nat.eqb_spec n 0); [lia|]. rewrite Nat.eqb_refl. reflexivity.
  Qed.

  (* 0 < i < n: the verdict is the truth value of Algebra.check_setup *)
  Lemma check_setup_mid Yl Yr yb y i n : 0 < i < n -> srep yb y ->
    AMHL.check_setup orc (VMid (ep Yl) (ep Yr) yb) i n =
    Some (bytes_eqb (ep (padd Yl (sact y G))) (ep Yr)).
  Proof.
    intros Hi Hy. unfold AMHL.check_setup.
    destruct (Nat.eqb_spec i 0) as [E|_]; [lia|].
    destruct (Nat.eqb_spec i n) as [E|_]; [lia|].
    rewrite (oneway_ok _ _ Hy). cbn [obind]. rewrite aggregate2_ok. reflexivity.
  Qed.

  Lemma check_setup_mid_iff Yl Yr yb y i n : 0 < i < n -> srep yb y ->
    AMHL.check_setup orc (VMid (ep Yl) (ep Yr) yb) i n = Some true <-> Algebra.check_setup padd sact G Yl y Yr.
  Proof.
    intros Hi Hy. rewrite (check_setup_mid Yl Yr yb y i n Hi Hy). unfold Algebra.check_setup. split.
    - intro H. injection H as H. apply bytes_eqb_eq in H. apply ep_inj, H.
    - intros ->. rewrite bytes_eqb_refl. reflexivity.
  Qed.

  (* (b), on the explicit setup *)
  Lemma check_setup_for_ok seed n i : 1 <= n -> i <= n ->
    exists v, AMHL.setup_for orc (ysb seed n, map ep (Ysv seed n)) i = Some v /\
              AMHL.check_setup orc v i n = Some true.
  Proof.
    intros Hn Hi.
    destruct (Nat.eq_dec i 0) as [->|Hi0]; [|destruct (Nat.eq_dec i n) as [->|Hin]].
    - eexists. split; [apply setup_for_first; exact Hn | apply check_setup_first].
    - destruct (setup_for_last seed n Hn) as [k [E _]].
      eexists. split; [exact E | apply check_setup_last; exact Hn].
    - assert (Hr : 0 < i < n) by lia.
      eexists. split; [apply setup_for_mid; exact Hr|].
      apply (check_setup_mid_iff _ _ _ (yv seed i) i n Hr (R_sample seed i)).
      rewrite <- (ys_nth seed n i) by lia. unfold Ysv.
      apply (amhl_check_setup scalar s0 sadd point p0 padd sact act_add_l G). rewrite ys_length. exact Hr.
  Qed.

  (* (b): check_setup accepts the view setup_for gives to every user 0 <= i <= n of the model's setup *)
  Theorem amhl_check_setup_ok fresh n seed i :
    1 <= n -> (Z.of_nat n <= 2 ^ 64)%Z -> i <= n ->
    exists s v, AMHL.setup orc fresh n seed = Some s /\
                AMHL.setup_for orc s i = Some v /\
                AMHL.check_setup orc v i n = Some true.
  Proof.
    intros Hn Hb Hi. eexists.
    destruct (check_setup_for_ok (eff_seed fresh seed) n i Hn Hi) as [v [E1 E2]].
    exists v. split; [apply (amhl_setup_computes fresh n seed Hn Hb)|]. split; [exact E1 | exact E2].
  Qed.

  (* the three cases of (b) with the views written out *)
  Theorem amhl_check_setup_cases fresh n seed :
    1 <= n -> (Z.of_nat n <= 2 ^ 64)%Z ->
    let sd := eff_seed fresh seed in
    exists s, AMHL.setup orc fresh n seed = Some s /\
      (* i = 0 *)
      (AMHL.setup_for orc s 0 = Some (VFirst (sampleb sd 0)) /\
       AMHL.check_setup orc (VFirst (sampleb sd 0)) 0 n = Some true) /\
      (* 0 < i < n *)
      (forall i, 0 < i < n ->
         let v := VMid (ep (nth (i - 1) (Ysv sd n) p0)) (ep (nth i (Ysv sd n) p0)) (sampleb sd i) in
         AMHL.setup_for orc s i = Some v /\ AMHL.check_setup orc v i n = Some true) /\
      (* i = n *)
      (exists k, let v := VLast (ep (nth (n - 1) (Ysv sd n) p0)) k in
         AMHL.setup_for orc s n = Some v /\ AMHL.check_setup orc v n n = Some true /\
         srep k (totalA (ysv sd n))).
  Proof.
    intros Hn Hb sd. eexists. split; [apply (amhl_setup_computes fresh n seed Hn Hb)|]. fold sd.
    split; [|split].
    - split; [apply setup_for_first; exact Hn | reflexivity].
    - intros i Hr v. split; [apply setup_for_mid; exact Hr|].
      apply (check_setup_mid_iff _ _ _ (yv sd i) i n Hr (R_sample sd i)).
      rewrite <- (ys_nth sd n i) by lia. unfold Ysv.
      apply (amhl_check_setup scalar s0 sadd point p0 padd sact act_add_l G). rewrite ys_length. exact Hr.
    - destruct (setup_for_last sd n Hn) as [k [E R]]. exists k. intro v.
      split; [exact E|]. split; [apply check_setup_last; exact Hn | exact R].
  Qed.

  (* ------------------------------------------------------------------ *)
  (* (c) verify_lock_key and the final key                               *)
  (* ------------------------------------------------------------------ *)

  Lemma verify_lock_key_ok L kb k : srep kb k ->
    AMHL.verify_lock_key orc (ep L) kb = Some (bytes_eqb (ep L) (ep (sact k G))).
  Proof. intro H. unfold AMHL.verify_lock_key. rewrite (oneway_ok _ _ H). reflexivity. Qed.

  (* the verdict is the truth value of Algebra.verify_lock_key *)
  Lemma verify_lock_key_iff L kb k : srep kb k ->
    AMHL.verify_lock_key orc (ep L) kb = Some true <-> Algebra.verify_lock_key sact G L k.
  Proof.
    intro H. rewrite (verify_lock_key_ok L kb k H). unfold Algebra.verify_lock_key. split.
    - intro E. injection E as E. apply bytes_eqb_eq in E. apply ep_inj, E.
    - intros <-. rewrite bytes_eqb_refl. reflexivity.
  Qed.

  Theorem amhl_final_key_ok fresh n seed :
    1 <= n -> (Z.of_nat n <= 2 ^ 64)%Z ->
    let sd := eff_seed fresh seed in
    exists s Yl k,
      AMHL.setup orc fresh n seed = Some s /\
      AMHL.setup_for orc s n = Some (VLast Yl k) /\
      Yl = last (snd s) [] /\
      srep k (totalA (ysv sd n)) /\
      AMHL.verify_lock_key orc (last (snd s) []) k = Some true.
  Proof.
    intros Hn Hb sd.
    destruct (setup_for_last sd n Hn) as [k [E R]].
    assert (HL : last (map ep (Ysv sd n)) [] = ep (nth (n - 1) (Ysv sd n) p0)).
    { rewrite (last_map ep _ p0).
      - rewrite last_nth, Ys_length. reflexivity.
      - intro E0. apply (f_equal (@List.length _)) in E0. rewrite Ys_length in E0. cbn in E0. lia. }
    eexists. exists (ep (nth (n - 1) (Ysv sd n) p0)), k.
    split; [apply (amhl_setup_computes fresh n seed Hn Hb)|]. fold sd. cbn [snd].
    split; [exact E|]. split; [symmetry; exact HL|]. split; [exact R|].
    rewrite HL. apply (verify_lock_key_iff _ _ _ R).
    rewrite <- (Ys_length sd n) at 1. rewrite <- last_nth. unfold Ysv.
    apply (amhl_final_key scalar s0 sadd point p0 padd sact act_add_l G). apply ys_ne. exact Hn.
  Qed.

  (* ------------------------------------------------------------------ *)
  (* (d) release and release_left_amhl_lock                              *)
  (* ------------------------------------------------------------------ *)

  Theorem amhl_release_computes kb k yb y : srep kb k -> srep yb y ->
    AMHL.release orc kb yb = Some (es (Algebra.release ssub k y)).
  Proof. intros Hk Hy. unfold AMHL.release, Algebra.release. apply oprim1_ok, O_ssub; assumption. Qed.

  (* general form: the two 32-byte fields represent sa and s *)
  Theorem amhl_release_left_computes_gen w sg yb sa s y :
    List.length w = 68 -> List.length sg = 64 ->
    srep (firstn 32 (skipn 2 w)) sa -> srep (skipn 32 sg) s -> srep yb y ->
    AMHL.release_left_amhl_lock orc w sg yb = Some (es (release_left ssub sa s y)).
  Proof.
    intros Hw Hs Ra Rs Ry. unfold AMHL.release_left_amhl_lock. rewrite Hw, Hs. cbn [Nat.eqb negb]. cbv zeta.
    erewrite (oprim1_ok PScalarSub) by (apply O_ssub; eassumption). cbn [obind].
    unfold release_left, recover. apply amhl_release_computes; [apply R_es | exact Ry].
  Qed.

  (* the scalars sa, s embedded (as their encodings) in witness and signature bytes:
     witness = 2 bytes (push opcode, length) ++ es sa ++ 34 bytes ; signature = 32 bytes (R) ++ es s *)
  Theorem amhl_release_left_computes pre post Rb yb sa s y :
    List.length pre = 2 -> List.length post = 34 -> List.length Rb = 32 -> srep yb y ->
    AMHL.release_left_amhl_lock orc (pre ++ es sa ++ post) (Rb ++ es s) yb =
    Some (es (release_left ssub sa s y)).
  Proof.
    intros Hpre Hpost HR Ry.
    apply amhl_release_left_computes_gen.
    - rewrite !app_length, len_es, Hpre, Hpost. reflexivity.
    - rewrite app_length, len_es, HR. reflexivity.
    - rewrite (skipn_app_exact pre _ 2 Hpre), (firstn_app_exact (es sa) post 32 (len_es sa)). apply R_es.
    - rewrite (skipn_app_exact Rb _ 32 HR). apply R_es.
    - exact Ry.
  Qed.

  (* the length checks *)
  Lemma release_left_bad_witness w sg yb : List.length w <> 68 -> AMHL.release_left_amhl_lock orc w sg yb = None.
  Proof.
    intro H. unfold AMHL.release_left_amhl_lock. destruct (Nat.eqb_spec (List.length w) 68); [contradiction | reflexivity].
  Qed.

  Lemma release_left_bad_signature w sg yb : List.length sg <> 64 -> AMHL.release_left_amhl_lock orc w sg yb = None.
  Proof.
    intro H. unfold AMHL.release_left_amhl_lock. destruct (Nat.eqb (List.length w) 68); [|reflexivity].
    destruct (Nat.eqb_spec (List.length sg) 64); [contradiction | reflexivity].
  Qed.

  (* ------------------------------------------------------------------ *)
  (* (e) the chain: Algebra.amhl_release / amhl_cascade on bytes         *)
  (* ------------------------------------------------------------------ *)

  (* From hop i's adapter scalar sa and published signature scalar s (s - sa = the hop key y_0 + ... + y_i) and
     his own sample y_i, the left neighbour computes the encoding of y_0 + ... + y_{i-1}, and verify_lock_key of
     hop i-1's point (the (i-1)-th point returned by setup) accepts it. *)
  Theorem amhl_release_chain fresh n seed i pre post Rb sa s :
    1 <= n -> (Z.of_nat n <= 2 ^ 64)%Z -> 0 < i < n ->
    List.length pre = 2 -> List.length post = 34 -> List.length Rb = 32 ->
    let sd := eff_seed fresh seed in
    recover ssub s sa = psum (ysv sd n) i ->
    exists yb Yb kb,
      AMHL.setup orc fresh n seed = Some (yb, Yb) /\
      AMHL.release_left_amhl_lock orc (pre ++ es sa ++ post) (Rb ++ es s) (nth i yb []) = Some kb /\
      kb = es (psum (ysv sd n) (i - 1)) /\
      srep kb (psum (ysv sd n) (i - 1)) /\
      AMHL.verify_lock_key orc (nth (i - 1) Yb []) kb = Some true.
  Proof.
    intros Hn Hb Hi Hpre Hpost HR sd Hrec.
    destruct (amhl_release scalar s0 s1 sadd smul ssub sopp scalar_ring point p0 padd sact act_add_l G
                (ysv sd n) i) as [E1 E2]; [rewrite ys_length; exact Hi|].
    rewrite ys_nth in E1, E2 by lia.
    do 3 eexists. split; [apply (amhl_setup_computes fresh n seed Hn Hb)|]. fold sd.
    assert (Hy : nth i (ysb sd n) [] = sampleb sd i).
    { apply nth_error_nth. apply ysb_nth_error. lia. }
    rewrite Hy.
    assert (Hk : release_left ssub sa s (yv sd i) = psum (ysv sd n) (i - 1)).
    { unfold release_left. rewrite Hrec. exact E1. }
    split; [apply (amhl_release_left_computes pre post Rb _ sa s (yv sd i) Hpre Hpost HR (R_sample sd i))|].
    rewrite Hk. split; [reflexivity|]. split; [apply R_es|].
    rewrite (nth_indep _ [] (ep p0)) by (rewrite map_length, Ys_length; lia). rewrite map_nth.
    apply (verify_lock_key_iff _ _ _ (R_es _)). rewrite <- E1. exact E2.
  Qed.

  (* The same with hop i's adapter and signature produced as in Algebra.amhl_cascade: the adapter is made for
     T_i = Y_i by signer x with nonce r on m, and decrypted with the hop key y_0 + ... + y_i.  The released key
     also decrypts hop i-1's adapter into a valid signature. *)
  Theorem amhl_cascade_chain (msg : Type) (chal : point -> point -> msg -> scalar)
      fresh n seed i pre post x r m x' r' m' :
    1 <= n -> (Z.of_nat n <= 2 ^ 64)%Z -> 0 < i < n ->
    List.length pre = 2 -> List.length post = 34 ->
    let sd := eff_seed fresh seed in
    let Ti := nth i (Ysv sd n) p0 in
    let Tl := nth (i - 1) (Ysv sd n) p0 in
    let ad_i := make_adapter_public sadd smul padd sact G chal x r Ti m in
    let dec_i := decrypt_adapter sadd padd sact G (psum (ysv sd n) i) (fst ad_i) (snd ad_i) in
    exists yb Yb kb k,
      AMHL.setup orc fresh n seed = Some (yb, Yb) /\
      nth i Yb [] = ep Ti /\ nth (i - 1) Yb [] = ep Tl /\
      (* hop i's decrypted adapter is an ordinary signature *)
      sig_valid padd sact G chal (pub sact G x) m (fst dec_i) (snd dec_i) /\
      (* the left neighbour's computation on the witness and signature bytes *)
      AMHL.release_left_amhl_lock orc (pre ++ es (snd ad_i) ++ post) (ep (fst dec_i) ++ es (snd dec_i))
        (nth i yb []) = Some kb /\
      kb = es k /\ k = psum (ysv sd n) (i - 1) /\
      AMHL.verify_lock_key orc (nth (i - 1) Yb []) kb = Some true /\
      (* ... and k decrypts hop i-1's adapter (signer x', nonce r', message m') into a valid signature *)
      let ad_l := make_adapter_public sadd smul padd sact G chal x' r' Tl m' in
      let dec_l := decrypt_adapter sadd padd sact G k (fst ad_l) (snd ad_l) in
      sig_valid padd sact G chal (pub sact G x') m' (fst dec_l) (snd dec_l).
  Proof.
    intros Hn Hb Hi Hpre Hpost sd Ti Tl ad_i dec_i.
    destruct (amhl_cascade scalar s0 s1 sadd smul ssub sopp scalar_ring point p0 padd padd_comm padd_assoc
                sact act_add_l act_mul G msg chal (ysv sd n) i) with (x := x) (r := r) (m := m)
                (x' := x') (r' := r') (m' := m') as [C1 [C2 [C3 C4]]]; [rewrite ys_length; exact Hi|].
    fold (Ysv sd n) in C1, C2, C3, C4. fold Ti in C1, C2. fold Tl in C3, C4. fold ad_i in C1, C2. fold dec_i in C1, C2.
    assert (Hrec : recover ssub (snd dec_i) (snd ad_i) = psum (ysv sd n) i).
    { unfold dec_i, decrypt_adapter. cbn [snd].
      apply (recover_decrypt scalar s0 s1 sadd smul ssub sopp scalar_ring). }
    destruct (amhl_release_chain fresh n seed i pre post (ep (fst dec_i)) (snd ad_i) (snd dec_i)
                Hn Hb Hi Hpre Hpost (len_ep _) Hrec) as [yb [Yb [kb [S1 [S2 [S3 [_ S5]]]]]]].
    exists yb, Yb, kb, (psum (ysv sd n) (i - 1)).
    split; [exact S1|].
    rewrite (amhl_setup_computes fresh n seed Hn Hb) in S1. fold sd in S1. injection S1 as <- <-.
    split; [rewrite (nth_indep _ [] (ep p0)) by (rewrite map_length, Ys_length; lia); apply map_nth|].
    split; [rewrite (nth_indep _ [] (ep p0)) by (rewrite map_length, Ys_length; lia); apply map_nth|].
    split; [exact C1|]. split; [exact S2|]. split; [exact S3|]. split; [reflexivity|]. split; [exact S5|].
    cbv zeta. rewrite <- C2. exact C4.
  Qed.

End Link.


(* ---------------------------------------------------------------------- *)
(* Non-vacuity.  scalar = point = the field of 5 elements, a . P = a * P,   *)
(* G = 1.  A byte string represents the residue modulo 5 of its first byte *)
(* (so the representation is not injective, like libsodium's), es / ep are *)
(* injective 32-byte encodings, "sha256" is the byte sum padded to 32      *)
(* bytes, a point is valid iff it has 32 bytes.  All Section hypotheses    *)
(* hold, and setup / setup_for / check_setup / release run for n = 3.      *)
(* ---------------------------------------------------------------------- *)

Inductive F5 := f0 | f1 | f2 | f3 | f4.
Definition f2n (a : F5) : nat := match a with f0 => 0 | f1 => 1 | f2 => 2 | f3 => 3 | f4 => 4 end.
Definition n2f (n : nat) : F5 :=
  match n mod 5 with 0 => f0 | 1 => f1 | 2 => f2 | 3 => f3 | _ => f4 end.
Definition fadd (a b : F5) : F5 := n2f (f2n a + f2n b).
Definition fmul (a b : F5) : F5 := n2f (f2n a * f2n b).
Definition fopp (a : F5) : F5 := n2f (5 - f2n a).
Definition fsub (a b : F5) : F5 := fadd a (fopp b).

Lemma F5_ring : ring_theory f0 f1 fadd fmul fsub fopp (@eq F5).
Proof.
  constructor.
  - intros []; reflexivity.
  - intros [] []; reflexivity.
  - intros [] [] []; reflexivity.
  - intros []; reflexivity.
  - intros [] []; reflexivity.
  - intros [] [] []; reflexivity.
  - intros [] [] []; reflexivity.
  - intros [] []; reflexivity.
  - intros []; reflexivity.
Qed.

Lemma F5_padd_comm : forall P Q, fadd P Q = fadd Q P. Proof. intros [] []; reflexivity. Qed.
Lemma F5_padd_assoc : forall P Q R, fadd P (fadd Q R) = fadd (fadd P Q) R. Proof. intros [] [] []; reflexivity. Qed.
Lemma F5_act_add_l : forall a b P, fmul (fadd a b) P = fadd (fmul a P) (fmul b P). Proof. intros [] [] []; reflexivity. Qed.
Lemma F5_act_mul : forall a b P, fmul (fmul a b) P = fmul a (fmul b P). Proof. intros [] [] []; reflexivity. Qed.

Definition f2b (a : F5) : byte := match a with f0 => x00 | f1 => x01 | f2 => x02 | f3 => x03 | f4 => x04 end.
Definition es5 (a : F5) : bytes := f2b a :: repeat x00 31.
Definition ep5 (P : F5) : bytes := f2b P :: repeat x01 31.
Definition dec5 (b : bytes) : F5 := match b with x :: _ => n2f (N.to_nat (Byte.to_N x)) | [] => f0 end.
Definition h5 (b : bytes) : bytes := z2b (fold_left (fun acc x => (acc + b2z x)%Z) b 0%Z) :: repeat x00 31.
Definition srep5 (kb : bytes) (x : F5) : Prop := dec5 kb = x.
Definition yv5 (seed : bytes) (i : nat) : F5 := dec5 (sampleb h5 seed i).

Definition orc5 : oracle := fun p args =>
  match p, args with
  | PSha256, [b] => OOk [h5 b]
  | PBaseMult, [a] => OOk [ep5 (fmul (dec5 a) f1)]
  | PPointAdd, [P; Q] => OOk [ep5 (fadd (dec5 P) (dec5 Q))]
  | PScalarAdd, [a; b] => OOk [es5 (fadd (dec5 a) (dec5 b))]
  | PScalarSub, [a; b] => OOk [es5 (fsub (dec5 a) (dec5 b))]
  | PValidPoint, [P] => OOk [if Nat.eqb (List.length P) 32 then [x01] else [x00]]
  | _, _ => OErr OtherError
  end.

Lemma F5_len_es : forall a, List.length (es5 a) = 32. Proof. intros []; reflexivity. Qed.
Lemma F5_len_ep : forall P, List.length (ep5 P) = 32. Proof. intros []; reflexivity. Qed.
Lemma F5_ep_inj : forall P Q, ep5 P = ep5 Q -> P = Q. Proof. intros [] [] H; try reflexivity; discriminate H. Qed.
Lemma F5_len_h : forall b, List.length (h5 b) = 32. Proof. reflexivity. Qed.
Lemma F5_dec_es a : dec5 (es5 a) = a. Proof. destruct a; reflexivity. Qed.
Lemma F5_dec_ep P : dec5 (ep5 P) = P. Proof. destruct P; reflexivity. Qed.
Lemma F5_R_es : forall a, srep5 (es5 a) a. Proof. exact F5_dec_es. Qed.
Lemma F5_O_sha : forall b, orc5 PSha256 [b] = OOk [h5 b]. Proof. reflexivity. Qed.
Lemma F5_O_base : forall kb x, srep5 kb x -> orc5 PBaseMult [kb] = OOk [ep5 (fmul x f1)].
Proof. intros kb x <-. reflexivity. Qed.
Lemma F5_O_sadd : forall ka a kb b, srep5 ka a -> srep5 kb b -> orc5 PScalarAdd [ka; kb] = OOk [es5 (fadd a b)].
Proof. intros ka a kb b <- <-. reflexivity. Qed.
Lemma F5_O_ssub : forall ka a kb b, srep5 ka a -> srep5 kb b -> orc5 PScalarSub [ka; kb] = OOk [es5 (fsub a b)].
Proof. intros ka a kb b <- <-. reflexivity. Qed.
Lemma F5_O_padd : forall P Q, orc5 PPointAdd [ep5 P; ep5 Q] = OOk [ep5 (fadd P Q)].
Proof. intros P Q. cbn [orc5]. rewrite !F5_dec_ep. reflexivity. Qed.
Lemma F5_O_valid : forall P, orc5 PValidPoint [ep5 P] = OOk [[x01]].
Proof. intro P. cbn [orc5]. rewrite F5_len_ep. reflexivity. Qed.
Lemma F5_R_sample : forall seed i, srep5 (sampleb h5 seed i) (yv5 seed i). Proof. reflexivity. Qed.

(* the theorems at this model: every Section hypothesis discharged *)
Example F5_setup_computes fresh n seed :=
  amhl_setup_computes F5 F5 fadd fmul f1 ep5 h5 F5_len_h srep5 orc5
    F5_O_sha F5_O_base F5_O_padd F5_O_valid yv5 F5_R_sample fresh n seed.

Example F5_check_setup_ok fresh n seed i :=
  amhl_check_setup_ok F5 f0 fadd F5 f0 fadd fmul F5_act_add_l f1 es5 ep5 F5_ep_inj h5 F5_len_h srep5 F5_R_es orc5
    F5_O_sha F5_O_base F5_O_sadd F5_O_padd F5_O_valid yv5 F5_R_sample fresh n seed i.

Example F5_check_setup_cases fresh n seed :=
  amhl_check_setup_cases F5 f0 fadd F5 f0 fadd fmul F5_act_add_l f1 es5 ep5 F5_ep_inj h5 F5_len_h srep5 F5_R_es orc5
    F5_O_sha F5_O_base F5_O_sadd F5_O_padd F5_O_valid yv5 F5_R_sample fresh n seed.

Example F5_final_key_ok fresh n seed :=
  amhl_final_key_ok F5 f0 fadd F5 f0 fadd fmul F5_act_add_l f1 es5 ep5 F5_ep_inj h5 F5_len_h srep5 F5_R_es orc5
    F5_O_sha F5_O_base F5_O_sadd F5_O_padd F5_O_valid yv5 F5_R_sample fresh n seed.

Example F5_release_computes kb k yb y :=
  amhl_release_computes F5 fsub es5 srep5 orc5 F5_O_ssub kb k yb y.

Example F5_release_left_computes pre post Rb yb sa s y :=
  amhl_release_left_computes F5 fsub es5 F5_len_es srep5 F5_R_es orc5 F5_O_ssub pre post Rb yb sa s y.

Example F5_release_chain fresh n seed i pre post Rb sa s :=
  amhl_release_chain F5 f0 f1 fadd fmul fsub fopp F5_ring F5 f0 fadd fmul F5_act_add_l f1 es5 ep5
    F5_len_es F5_ep_inj h5 F5_len_h srep5 F5_R_es orc5
    F5_O_sha F5_O_base F5_O_ssub F5_O_padd F5_O_valid yv5 F5_R_sample fresh n seed i pre post Rb sa s.

Example F5_cascade_chain (chal : F5 -> F5 -> bytes -> F5) fresh n seed i pre post x r m x' r' m' :=
  amhl_cascade_chain F5 f0 f1 fadd fmul fsub fopp F5_ring F5 f0 fadd F5_padd_comm F5_padd_assoc fmul
    F5_act_add_l F5_act_mul f1 es5 ep5 F5_len_es F5_len_ep F5_ep_inj h5 F5_len_h srep5 F5_R_es orc5
    F5_O_sha F5_O_base F5_O_ssub F5_O_padd F5_O_valid yv5 F5_R_sample bytes chal
    fresh n seed i pre post x r m x' r' m'.

(* a concrete three-hop run, computed: seed 02, samples y = 2, 3, 4 (as non-canonical byte strings), points
   Y = 2, 0, 4, final key 4; hop 2's key 4 released with y_2 = 4 gives 0 = y_0 + y_1, the key of Y_1 = 0 *)
Definition seed5 : bytes := [x02].
Definition y5 (i : nat) : bytes := sampleb h5 seed5 i.
Definition s5 : list bytes * list bytes := ([y5 0; y5 1; y5 2], [ep5 f2; ep5 f0; ep5 f4]).
Definition pre5 : bytes := [x00; x20].
Definition post5 : bytes := repeat xaa 34.

Example F5_concrete_run :
  map (yv5 seed5) [0; 1; 2] = [f2; f3; f4] /\
  AMHL.setup orc5 [] 3 (Some seed5) = Some s5 /\
  (* an empty or absent seed is replaced by the fresh random bytes *)
  AMHL.setup orc5 seed5 3 (Some []) = Some s5 /\
  AMHL.setup orc5 seed5 3 None = Some s5 /\
  (* n = 0: IndexError *)
  AMHL.setup orc5 [] 0 (Some seed5) = None /\
  AMHL.setup_for orc5 s5 0 = Some (VFirst (y5 0)) /\
  AMHL.setup_for orc5 s5 1 = Some (VMid (ep5 f2) (ep5 f0) (y5 1)) /\
  AMHL.setup_for orc5 s5 2 = Some (VMid (ep5 f0) (ep5 f4) (y5 2)) /\
  AMHL.setup_for orc5 s5 3 = Some (VLast (ep5 f4) (es5 f4)) /\
  AMHL.setup_for orc5 s5 4 = None /\
  AMHL.check_setup orc5 (VFirst (y5 0)) 0 3 = Some true /\
  AMHL.check_setup orc5 (VMid (ep5 f2) (ep5 f0) (y5 1)) 1 3 = Some true /\
  AMHL.check_setup orc5 (VMid (ep5 f0) (ep5 f4) (y5 2)) 2 3 = Some true /\
  AMHL.check_setup orc5 (VLast (ep5 f4) (es5 f4)) 3 3 = Some true /\
  (* a wrong right point is rejected, an invalid (short) left point raises, a wrong shape raises *)
  AMHL.check_setup orc5 (VMid (ep5 f2) (ep5 f1) (y5 1)) 1 3 = Some false /\
  AMHL.check_setup orc5 (VMid [x02] (ep5 f0) (y5 1)) 1 3 = None /\
  AMHL.check_setup orc5 (VFirst (y5 0)) 1 3 = None /\
  (* i = n checks only the shape: any left point and any key pass *)
  AMHL.check_setup orc5 (VLast [] []) 3 3 = Some true /\
  AMHL.verify_lock_key orc5 (ep5 f4) (es5 f4) = Some true /\
  AMHL.verify_lock_key orc5 (ep5 f0) (es5 f4) = Some false /\
  AMHL.release orc5 (es5 f4) (y5 2) = Some (es5 f0) /\
  AMHL.verify_lock_key orc5 (ep5 f0) (es5 f0) = Some true /\
  (* adapter scalar sa = 3, signature scalar s = sa + 4 = 2 *)
  AMHL.release_left_amhl_lock orc5 (pre5 ++ es5 f3 ++ post5) (ep5 f1 ++ es5 f2) (y5 2) = Some (es5 f0) /\
  AMHL.release_left_amhl_lock orc5 (pre5 ++ es5 f3) (ep5 f1 ++ es5 f2) (y5 2) = None /\
  AMHL.release_left_amhl_lock orc5 (pre5 ++ es5 f3 ++ post5) (es5 f2) (y5 2) = None.
Proof. vm_compute. repeat split. Qed.

Print Assumptions amhl_setup_computes.
Print Assumptions amhl_setup_points.
Print Assumptions amhl_check_setup_ok.
Print Assumptions amhl_check_setup_cases.
Print Assumptions check_setup_mid_iff.
Print Assumptions verify_lock_key_iff.
Print Assumptions amhl_final_key_ok.
Print Assumptions amhl_release_computes.
Print Assumptions amhl_release_left_computes_gen.
Print Assumptions amhl_release_left_computes.
Print Assumptions amhl_release_chain.
Print Assumptions amhl_cascade_chain.
Print Assumptions F5_setup_computes.
Print Assumptions F5_check_setup_ok.
Print Assumptions F5_check_setup_cases.
Print Assumptions F5_final_key_ok.
Print Assumptions F5_release_chain.
Print Assumptions F5_cascade_chain.
Print Assumptions F5_concrete_run.
