(* The Merkle tree builders (model/TreeBuilders.v): every input script ends up as a committed, unlockable
   leaf.  Shapes checked against the real functions (Examples), places of the leaves (prioritized_paths,
   balanced_leaves), the listed unlocking scripts (prioritized_unlocks_spec, balanced_unlocks_spec), and the
   combination with MerkleTreeProofs.merkle_auth (builders_complete_prioritized / _balanced). *)
From Coq Require Import ZArith List Bool Lia Arith.
From Coq.Strings Require Import Byte String.
From TS Require Import Bytes Codec State Prog Ops Interp StateLemmas InterpLemmas NopSpec StackLemmas
  BytesLemmas TapeLemmas SigSpec ConfigSpec AuthSpec Asm Builders BuilderSpec TapeSteps MerkleSpec
  Closure Pointer BuilderSpecC15 MerkleTree MerkleTreeProofs TreeBuilders.
Import ListNotations.
Local Open Scope nat_scope.

(* ---------- 0. the shapes of the real functions (printed by running tools.py on `push d<i>`) ---------- *)
Module Shapes.
(* push d<i> *)
Definition d (i : nat) : bytes := match Byte.of_N (N.of_nat i) with Some b => [x02; b] | None => [] end.
(* the k-th filler: push x<16 bytes> return *)
Definition fl (k : nat) : bytes :=
  x03 :: x10 :: repeat (match Byte.of_N (N.of_nat (240 + k)) with Some b => b | None => x00 end) 16 ++ [x30].

Example prio_shape_1 : prioritized (map d (seq 0 1)) = Some (Node (Leaf (d 0)) (Leaf filler_false)).
Proof. vm_compute. reflexivity. Qed.
Example prio_shape_2 : prioritized (map d (seq 0 2)) = Some (Node (Leaf (d 0)) (Leaf (d 1))).
Proof. vm_compute. reflexivity. Qed.
Example prio_shape_3 : prioritized (map d (seq 0 3)) = Some (Node (Leaf (d 0)) (Node (Leaf (d 1)) (Leaf (d 2)))).
Proof. vm_compute. reflexivity. Qed.
Example prio_shape_4 : prioritized (map d (seq 0 4)) = Some (Node (Leaf (d 0)) (Node (Leaf (d 1)) (Node (Leaf (d 2)) (Leaf (d 3))))).
Proof. vm_compute. reflexivity. Qed.
Example prio_shape_5 : prioritized (map d (seq 0 5)) = Some (Node (Leaf (d 0)) (Node (Leaf (d 1)) (Node (Leaf (d 2)) (Node (Leaf (d 3)) (Leaf (d 4)))))).
Proof. vm_compute. reflexivity. Qed.
Example prio_shape_6 : prioritized (map d (seq 0 6)) = Some (Node (Leaf (d 0)) (Node (Leaf (d 1)) (Node (Leaf (d 2)) (Node (Leaf (d 3)) (Node (Leaf (d 4)) (Leaf (d 5))))))).
Proof. vm_compute. reflexivity. Qed.
Example prio_shape_7 : prioritized (map d (seq 0 7)) = Some (Node (Leaf (d 0)) (Node (Leaf (d 1)) (Node (Leaf (d 2)) (Node (Leaf (d 3)) (Node (Leaf (d 4)) (Node (Leaf (d 5)) (Leaf (d 6)))))))).
Proof. vm_compute. reflexivity. Qed.
Example prio_shape_8 : prioritized (map d (seq 0 8)) = Some (Node (Leaf (d 0)) (Node (Leaf (d 1)) (Node (Leaf (d 2)) (Node (Leaf (d 3)) (Node (Leaf (d 4)) (Node (Leaf (d 5)) (Node (Leaf (d 6)) (Leaf (d 7))))))))).
Proof. vm_compute. reflexivity. Qed.
Example prio_shape_9 : prioritized (map d (seq 0 9)) = Some (Node (Leaf (d 0)) (Node (Leaf (d 1)) (Node (Leaf (d 2)) (Node (Leaf (d 3)) (Node (Leaf (d 4)) (Node (Leaf (d 5)) (Node (Leaf (d 6)) (Node (Leaf (d 7)) (Leaf (d 8)))))))))).
Proof. vm_compute. reflexivity. Qed.
Example bal_shape_1 : balanced fl (map d (seq 0 1)) = Some (Node (Leaf (d 0)) (Leaf (fl 0))).
Proof. vm_compute. reflexivity. Qed.
Example bal_shape_2 : balanced fl (map d (seq 0 2)) = Some (Node (Leaf (d 0)) (Leaf (d 1))).
Proof. vm_compute. reflexivity. Qed.
Example bal_shape_3 : balanced fl (map d (seq 0 3)) = Some (Node (Node (Leaf (d 0)) (Leaf (d 1))) (Node (Leaf (d 2)) (Leaf (fl 0)))).
Proof. vm_compute. reflexivity. Qed.
Example bal_shape_4 : balanced fl (map d (seq 0 4)) = Some (Node (Node (Leaf (d 0)) (Leaf (d 1))) (Node (Leaf (d 2)) (Leaf (d 3)))).
Proof. vm_compute. reflexivity. Qed.
Example bal_shape_5 : balanced fl (map d (seq 0 5)) = Some (Node (Node (Node (Leaf (d 0)) (Leaf (d 1))) (Node (Leaf (d 2)) (Leaf (d 3)))) (Node (Node (Leaf (d 4)) (Leaf (fl 0))) (Node (Leaf (fl 1)) (Leaf (fl 2))))).
Proof. vm_compute. reflexivity. Qed.
Example bal_shape_6 : balanced fl (map d (seq 0 6)) = Some (Node (Node (Node (Leaf (d 0)) (Leaf (d 1))) (Node (Leaf (d 2)) (Leaf (d 3)))) (Node (Node (Leaf (d 4)) (Leaf (d 5))) (Node (Leaf (fl 0)) (Leaf (fl 1))))).
Proof. vm_compute. reflexivity. Qed.
Example bal_shape_7 : balanced fl (map d (seq 0 7)) = Some (Node (Node (Node (Leaf (d 0)) (Leaf (d 1))) (Node (Leaf (d 2)) (Leaf (d 3)))) (Node (Node (Leaf (d 4)) (Leaf (d 5))) (Node (Leaf (d 6)) (Leaf (fl 0))))).
Proof. vm_compute. reflexivity. Qed.
Example bal_shape_8 : balanced fl (map d (seq 0 8)) = Some (Node (Node (Node (Leaf (d 0)) (Leaf (d 1))) (Node (Leaf (d 2)) (Leaf (d 3)))) (Node (Node (Leaf (d 4)) (Leaf (d 5))) (Node (Leaf (d 6)) (Leaf (d 7))))).
Proof. vm_compute. reflexivity. Qed.
Example bal_shape_9 : balanced fl (map d (seq 0 9)) = Some (Node (Node (Node (Node (Leaf (d 0)) (Leaf (d 1))) (Node (Leaf (d 2)) (Leaf (d 3)))) (Node (Node (Leaf (d 4)) (Leaf (d 5))) (Node (Leaf (d 6)) (Leaf (d 7))))) (Node (Node (Node (Leaf (d 8)) (Leaf (fl 0))) (Node (Leaf (fl 1)) (Leaf (fl 2)))) (Node (Leaf (fl 3)) (Leaf (fl 4))))).
Proof. vm_compute. reflexivity. Qed.

(* make_script_tree_prioritized(['push d10','push d11','push d12'], tree=make_script_tree_prioritized(['push d0','push d1','push d2'])) *)
Example onto_shape :
  option_map (prioritized_onto (map d [10; 11; 12])) (prioritized (map d (seq 0 3))) =
  Some (Node (Leaf (d 10)) (Node (Leaf (d 11)) (Node (Leaf (d 12)) (Node (Leaf (d 0)) (Node (Leaf (d 1)) (Leaf (d 2))))))).
Proof. vm_compute. reflexivity. Qed.

Example prio_empty : prioritized [] = None.
Proof. reflexivity. Qed.
Example bal_empty : balanced fl [] = None.
Proof. reflexivity. Qed.

(* depths of the listed unlocking scripts (number of push pairs in the real output, n = 5 and n = 1..9) *)
Example prio_depth_5 : map (prio_depth 5) (seq 0 5) = [1; 2; 3; 4; 4].
Proof. reflexivity. Qed.
Example prio_depth_1 : prio_depth 1 0 = 1.
Proof. reflexivity. Qed.
End Shapes.
(* ---------- 1. make_script_tree_prioritized ---------- *)

(* the right spine: the scripts of [front] as left leaves above [base] *)
Definition spine (front : list bytes) (base : tree) : tree :=
  fold_right (fun s acc => Node (Leaf s) acc) base front.

Lemma prio_loop_app a b t : prio_loop (a ++ b) t = prio_loop b (prio_loop a t).
Proof. revert t. induction a as [|s a IH]; intro t; [reflexivity|]. cbn [app prio_loop]. apply IH. Qed.

Lemma prio_loop_spine front t : prio_loop (pops front) t = spine front t.
Proof.
  unfold pops. induction front as [|s front IH]; [reflexivity|].
  cbn [rev]. rewrite prio_loop_app, IH. reflexivity.
Qed.

(* the continuation variant, structurally *)
Lemma prioritized_onto_spine more old : prioritized_onto more old = spine more old.
Proof. apply prio_loop_spine. Qed.

Lemma pops_app {A} (a b : list A) : pops (a ++ b) = pops b ++ pops a.
Proof. apply rev_app_distr. Qed.

(* two or more leaves: the last two form the bottom node, the others the spine *)
Lemma prioritized_two front x y :
  prioritized (front ++ [x; y]) = Some (spine front (Node (Leaf x) (Leaf y))).
Proof.
  unfold prioritized.
  assert (E : match front ++ [x; y] with [_] => (front ++ [x; y]) ++ [filler_false] | _ => front ++ [x; y] end
              = front ++ [x; y]).
  { destruct front as [|a [|b front]]; reflexivity. }
  rewrite E. rewrite pops_app. cbn [pops rev app]. rewrite prio_loop_spine.
  destruct front; reflexivity.
Qed.

Lemma prioritized_one x : prioritized [x] = Some (Node (Leaf x) (Leaf filler_false)).
Proof. reflexivity. Qed.

Lemma split_last_two {A} (l : list A) : 2 <= List.length l -> exists front x y, l = front ++ [x; y].
Proof.
  intro Hl. rewrite <- (rev_involutive l). destruct (rev l) as [|y [|x r]] eqn:E.
  - apply (f_equal (@List.length A)) in E. rewrite rev_length in E. simpl in E. lia.
  - apply (f_equal (@List.length A)) in E. rewrite rev_length in E. simpl in E. lia.
  - exists (rev r), x, y. cbn [rev]. rewrite <- app_assoc. reflexivity.
Qed.

Lemma subtree_spine_base front base p :
  subtree (spine front base) (repeat R (List.length front) ++ p) = subtree base p.
Proof. induction front as [|s front IH]; [reflexivity|]. cbn [List.length repeat app spine fold_right subtree pick]. exact IH. Qed.

Lemma subtree_spine_left front base i :
  i < List.length front -> subtree (spine front base) (repeat R i ++ [L]) = Some (Leaf (nth i front [])).
Proof.
  revert i. induction front as [|s front IH]; intros i Hi; [simpl in Hi; lia|].
  destruct i as [|i]; [reflexivity|].
  cbn [repeat app spine fold_right subtree pick nth]. apply IH. simpl in Hi. lia.
Qed.

(* THEOREM 1.  Leaf i of n sits at R^i L (depth i+1), the last one at R^(n-1); the single leaf of a one-leaf
   list at L, next to the filler `false` at R. *)
Theorem prioritized_paths ls i :
  i < List.length ls ->
  exists t, prioritized ls = Some t /\
            subtree t (prio_path (List.length ls) i) = Some (Leaf (nth i ls [])).
Proof.
  intro Hi. destruct ls as [|a [|b ls]].
  - simpl in Hi. lia.
  - exists (Node (Leaf a) (Leaf filler_false)). split; [reflexivity|].
    simpl in Hi. assert (i = 0) by lia. subst i. reflexivity.
  - destruct (split_last_two (a :: b :: ls)) as (front & x & y & E); [simpl; lia|].
    rewrite E in *. rewrite prioritized_two. eexists; split; [reflexivity|].
    rewrite app_length in *. cbn [List.length] in *.
    unfold prio_path.
    replace (List.length front + 2 =? 1) with false by (symmetry; apply Nat.eqb_neq; lia).
    destruct (S i <? List.length front + 2) eqn:E1.
    + apply Nat.ltb_lt in E1. destruct (Nat.eq_dec i (List.length front)) as [->|Hne].
      * rewrite subtree_spine_base. rewrite app_nth2 by lia. rewrite Nat.sub_diag. reflexivity.
      * rewrite subtree_spine_left by lia. rewrite app_nth1 by lia. reflexivity.
    + apply Nat.ltb_ge in E1. assert (i = List.length front + 1) by lia. subst i.
      replace (List.length front + 2 - 1) with (List.length front + 1) by lia.
      rewrite repeat_app. rewrite subtree_spine_base.
      rewrite app_nth2 by lia. replace (List.length front + 1 - List.length front) with 1 by lia. reflexivity.
Qed.

Lemma prio_path_length n i : i < n -> List.length (prio_path n i) = prio_depth n i.
Proof.
  intro Hi. unfold prio_path, prio_depth. destruct (n =? 1); [reflexivity|].
  destruct (S i <? n); [rewrite app_length, repeat_length; simpl; lia|apply repeat_length].
Qed.

(* the filler of the one-leaf case *)
Lemma prioritized_one_filler x :
  exists t, prioritized [x] = Some t /\ subtree t [R] = Some (Leaf filler_false).
Proof. eexists; split; reflexivity. Qed.

(* the result is a node *)
Lemma prioritized_node ls t : prioritized ls = Some t -> exists l r, t = Node l r.
Proof.
  destruct ls as [|a [|b ls]]; [discriminate| |].
  - intro E. injection E as <-. eauto.
  - destruct (split_last_two (a :: b :: ls)) as (front & x & y & E); [simpl; lia|].
    rewrite E, prioritized_two. intro E'. injection E' as <-. destruct front; cbn [spine fold_right]; eauto.
Qed.

(* THEOREM 5.  make_script_tree_prioritized(more, tree=old): every node of old is kept, R^(length more) deeper;
   the new scripts are the left leaves above it, more[i] at R^i L *)
Theorem prioritized_onto_old more old p :
  subtree (prioritized_onto more old) (repeat R (List.length more) ++ p) = subtree old p.
Proof. rewrite prioritized_onto_spine. apply subtree_spine_base. Qed.

Theorem prioritized_onto_new more old i :
  i < List.length more ->
  subtree (prioritized_onto more old) (repeat R i ++ [L]) = Some (Leaf (nth i more [])).
Proof. rewrite prioritized_onto_spine. apply subtree_spine_left. Qed.

(* nothing else: the in-order leaves are exactly the new scripts followed by the old leaves *)
Theorem prioritized_onto_flatten more old :
  flatten (prioritized_onto more old) = more ++ flatten old.
Proof.
  rewrite prioritized_onto_spine. induction more as [|s more IH]; [reflexivity|].
  cbn [spine fold_right flatten app]. f_equal. exact IH.
Qed.

Theorem prioritized_flatten ls t :
  prioritized ls = Some t -> flatten t = match ls with [_] => ls ++ [filler_false] | _ => ls end.
Proof.
  destruct ls as [|a [|b ls]]; [discriminate| |].
  - intro E. injection E as <-. reflexivity.
  - destruct (split_last_two (a :: b :: ls)) as (front & x & y & E); [simpl; lia|].
    intro E'. change (flatten t = a :: b :: ls). rewrite E in *. rewrite prioritized_two in E'. injection E' as <-.
    clear. induction front as [|s front IH]; [reflexivity|].
    cbn [spine fold_right flatten app]. f_equal. exact IH.
Qed.

(* ---------- 2. the unlocking scripts listed by make_merklized_script_prioritized ---------- *)

Lemma spine_is_node front x y : exists l r, spine front (Node x y) = Node l r.
Proof. destruct front; cbn [spine fold_right]; eauto. Qed.

Lemma prio_walk_spine front x y pre :
  prio_walk_from (spine front (Node (Leaf x) (Leaf y))) pre =
    map (fun i => pre ++ repeat R i ++ [L]) (seq 0 (List.length front + 1)) ++
    [pre ++ repeat R (List.length front + 1)].
Proof.
  revert pre. induction front as [|s front IH]; intro pre.
  - cbn [spine fold_right prio_walk_from List.length Nat.add seq map repeat app]. reflexivity.
  - cbn [spine fold_right]. fold (spine front (Node (Leaf x) (Leaf y))).
    destruct (spine_is_node front (Leaf x) (Leaf y)) as (l & r & E).
    cbn [prio_walk_from]. rewrite E. rewrite <- E. rewrite IH.
    cbn [List.length Nat.add seq map repeat app]. f_equal.
    rewrite <- seq_shift, map_map. f_equal.
    + apply map_ext. intro i. cbn [repeat app]. rewrite <- app_assoc. reflexivity.
    + rewrite <- app_assoc. reflexivity.
Qed.

(* THEOREM 4 (prioritized), tree walk: the nodes whose unlocking_script() is listed are, in order, the leaves
   0 .. n-1 at their places prio_path n i *)
Theorem prio_walk_spec ls t :
  2 <= List.length ls -> prioritized ls = Some t ->
  prio_walk t = map (prio_path (List.length ls)) (seq 0 (List.length ls)).
Proof.
  intros Hl Ht. destruct (split_last_two ls Hl) as (front & x & y & E). subst ls.
  rewrite prioritized_two in Ht. injection Ht as <-.
  unfold prio_walk. rewrite prio_walk_spine. rewrite app_length. cbn [List.length].
  replace (List.length front + 2) with (S (List.length front + 1)) by lia.
  rewrite seq_S, map_app. cbn [map Nat.add]. f_equal.
  - apply map_ext_in. intros i Hi. apply in_seq in Hi. unfold prio_path.
    replace (S (List.length front + 1) =? 1) with false by (symmetry; apply Nat.eqb_neq; lia).
    replace (S i <? S (List.length front + 1)) with true by (symmetry; apply Nat.ltb_lt; lia). reflexivity.
  - unfold prio_path.
    replace (S (List.length front + 1) =? 1) with false by (symmetry; apply Nat.eqb_neq; lia).
    rewrite Nat.ltb_irrefl. cbn [app]. do 2 f_equal. lia.
Qed.

(* one leaf: TWO unlocking scripts are listed, that of the leaf and that of the filler `false` *)
Theorem prio_walk_one x t : prioritized [x] = Some t -> prio_walk t = [prio_path 1 0; [R]].
Proof. intro E. injection E as <-. reflexivity. Qed.

Lemma all_some_map {A} (l : list (option A)) us : all_some l = Some us -> l = map Some us.
Proof.
  revert us. induction l as [|[x|] l IH]; intros us E; cbn [all_some] in E.
  - injection E as <-. reflexivity.
  - destruct (all_some l) as [xs|]; [|discriminate]. injection E as <-. cbn [map]. f_equal. apply IH. reflexivity.
  - discriminate.
Qed.

Lemma merklized_spec H t paths lk us :
  merklized H t paths = Some (lk, us) ->
  exists l r, t = Node l r /\ lk = lock H l r /\ map (unlock H t) paths = map Some us.
Proof.
  unfold merklized. destruct t as [s|l r]; [discriminate|].
  destruct (all_some _) as [xs|] eqn:E; [|discriminate]. intro E'. injection E' as <- <-.
  exists l, r. repeat split. apply all_some_map. exact E.
Qed.

Lemma merklized_length H t paths lk us :
  merklized H t paths = Some (lk, us) -> List.length us = List.length paths.
Proof.
  intro E. destruct (merklized_spec _ _ _ _ _ E) as (l & r & _ & _ & Hm).
  apply (f_equal (@List.length _)) in Hm. rewrite !map_length in Hm. symmetry. exact Hm.
Qed.

Lemma merklized_nth H t paths lk us i p :
  merklized H t paths = Some (lk, us) -> nth_error paths i = Some p ->
  exists w, nth_error us i = Some w /\ unlock H t p = Some w.
Proof.
  intros E Hp. destruct (merklized_spec _ _ _ _ _ E) as (l & r & _ & _ & Hm).
  apply (f_equal (fun x => nth_error x i)) in Hm.
  rewrite (map_nth_error _ _ _ Hp) in Hm. rewrite nth_error_map in Hm.
  destruct (nth_error us i) as [w|]; [|discriminate]. injection Hm as Hm. exists w. split; [reflexivity|exact Hm].
Qed.

Lemma nth_error_map_seq {A} (f : nat -> A) n i : i < n -> nth_error (map f (seq 0 n)) i = Some (f i).
Proof.
  intro Hi. apply map_nth_error. rewrite (nth_error_nth' _ 0) by (rewrite seq_length; exact Hi).
  rewrite seq_nth by exact Hi. reflexivity.
Qed.

(* THEOREM 4 (prioritized): make_merklized_script_prioritized returns the lock of the tree and, in order, the
   unlocking scripts of the leaves 0 .. n-1 (n >= 2: exactly n scripts; n = 1: 2 scripts, the second one is
   the filler's) *)
Theorem prioritized_unlocks_spec H ls lk us :
  prioritized_unlocks H ls = Some (lk, us) ->
  exists l r, prioritized ls = Some (Node l r) /\ lk = lock H l r /\
    List.length us = (if List.length ls =? 1 then 2 else List.length ls) /\
    (forall i, i < List.length ls ->
       exists w, nth_error us i = Some w /\ unlock H (Node l r) (prio_path (List.length ls) i) = Some w) /\
    (List.length ls = 1 -> exists w, nth_error us 1 = Some w /\ unlock H (Node l r) [R] = Some w /\
                                     subtree (Node l r) [R] = Some (Leaf filler_false)).
Proof.
  unfold prioritized_unlocks. destruct (prioritized ls) as [t|] eqn:Ht; [|discriminate]. intro E.
  destruct (merklized_spec _ _ _ _ _ E) as (l & r & -> & Hlk & _). exists l, r.
  split; [reflexivity|]. split; [exact Hlk|].
  pose proof (merklized_length _ _ _ _ _ E) as Hlen.
  destruct ls as [|a [|b ls]]; [discriminate| |].
  - rewrite (prio_walk_one a _ Ht) in *. split; [exact Hlen|]. split.
    + intros i Hi. simpl in Hi. assert (i = 0) by lia. subst i.
      apply (merklized_nth _ _ _ _ _ 0 _ E). reflexivity.
    + intros _. destruct (merklized_nth _ _ _ _ _ 1 [R] E eq_refl) as (w & Hw1 & Hw2).
      exists w. repeat split; try assumption. injection Ht as <- <-. reflexivity.
  - assert (Hl2 : 2 <= List.length (a :: b :: ls)) by (simpl; lia).
    rewrite (prio_walk_spec _ _ Hl2 Ht) in *. rewrite map_length, seq_length in Hlen.
    split; [exact Hlen|]. split.
    + intros i Hi. apply (merklized_nth _ _ _ _ _ i _ E). apply nth_error_map_seq. exact Hi.
    + simpl. intro. lia.
Qed.

(* ---------- 3. the listed script + the lock run exactly the bytes of the leaf ---------- *)

Section Complete.
Variable orc : oracle.
Variable cfg : config.
Variable H : bytes -> bytes.
Hypothesis Horc : forall b, orc PSha256 [b] = OOk [H b].
Hypothesis Hlen : forall b, List.length (H b) = 32.

(* any builder whose result is (lock of t, unlocking scripts of the nodes at [paths]): the i-th script and
   the lock, through run_auth_scripts, run the script s of the leaf at the i-th path: merkle_auth instantiated,
   with descend_spec's description of the start *)
Lemma merklized_complete t paths lk us i p s vals f :
  merklized H t paths = Some (lk, us) -> nth_error paths i = Some p ->
  subtree t p = Some (Leaf s) -> p <> [] ->
  no_eval_ban cfg -> (Z.of_nat (List.length p) <= c_limit cfg)%Z ->
  fits cfg s -> 33 <= c_max_item_size cfg -> 2 * List.length p + 2 <= c_max_items cfg ->
  exists w,
    nth_error us i = Some w /\ unlock H t p = Some w /\
    let st2 := lock_state cfg w vals (wstack H t p) lk in
    let tid' := fst (descend H t p 1 st2) in
    let st' := snd (descend H t p 1 st2) in
    run_auth_scripts orc cfg (2 * List.length p + S f) [w; lk] vals =
      auth_finish (lock_result cfg 1 (List.length p) (run_tape orc cfg (S (List.length p + f)) tid' 0 st')) /\
    tdata st' tid' = s /\
    to_count (nth_tape st' tid') = Z.of_nat (List.length p) /\
    st_stack st' = [] /\ st_cache st' = st_cache st2 /\ st_log st' = st_log st2.
Proof.
  intros E Hp Hsub Hne Hfl Hc Hf Hsz Hsp.
  destruct (merklized_nth _ _ _ _ _ i p E Hp) as (w & Hw1 & Hw2).
  destruct (merklized_spec _ _ _ _ _ E) as (l & r & -> & -> & _).
  exists w. split; [exact Hw1|]. split; [exact Hw2|]. cbv zeta.
  split.
  - exact (merkle_auth orc cfg H Horc Hlen p l r (Leaf s) w vals f Hsub Hne Hw2 Hfl Hc Hf Hsz Hsp).
  - set (st2 := lock_state cfg w vals (wstack H (Node l r) p) (lock H l r)).
    assert (Hs2 : st_stack st2 = wstack H (Node l r) p ++ []) by (rewrite app_nil_r; reflexivity).
    assert (Hd2 : tdata st2 1 = tbytes H (Node l r)) by reflexivity.
    assert (Hlt2 : 1 < List.length (st_tapes st2)) by (simpl; lia).
    pose proof (descend_spec H p (Node l r) (Leaf s) 1 st2 [] Hsub Hs2 Hd2 Hlt2) as D. cbv zeta in D.
    destruct D as (A1 & A2 & A3 & A4 & A5 & A6 & _).
    repeat split; try assumption. 
Qed.

(* THEOREM 3 (prioritized).  For every input script i: the i-th unlocking script returned by
   make_merklized_script_prioritized followed by the returned lock runs, through run_auth_scripts, exactly the
   bytes of script i (as a tape object with call count = depth, on the empty stack), where the depth is
   i+1 (n-1 for the last; 1 for a single script) *)
Theorem builders_complete_prioritized ls lk us i vals f :
  prioritized_unlocks H ls = Some (lk, us) -> i < List.length ls ->
  let dp := prio_depth (List.length ls) i in
  no_eval_ban cfg -> (Z.of_nat dp <= c_limit cfg)%Z ->
  fits cfg (nth i ls []) -> 33 <= c_max_item_size cfg -> 2 * dp + 2 <= c_max_items cfg ->
  exists t w,
    prioritized ls = Some t /\ nth_error us i = Some w /\
    let p := prio_path (List.length ls) i in
    let st2 := lock_state cfg w vals (wstack H t p) lk in
    let tid' := fst (descend H t p 1 st2) in
    let st' := snd (descend H t p 1 st2) in
    run_auth_scripts orc cfg (2 * dp + S f) [w; lk] vals =
      auth_finish (lock_result cfg 1 dp (run_tape orc cfg (S (dp + f)) tid' 0 st')) /\
    tdata st' tid' = nth i ls [] /\
    to_count (nth_tape st' tid') = Z.of_nat dp /\
    st_stack st' = [] /\ st_cache st' = st_cache st2 /\ st_log st' = st_log st2.
Proof.
  intros E Hi dp Hfl Hc Hf Hsz Hsp.
  destruct (prioritized_paths ls i Hi) as (t & Ht & Hsub).
  pose proof (prio_path_length (List.length ls) i Hi) as Hpl. fold dp in Hpl.
  unfold prioritized_unlocks in E. rewrite Ht in E.
  assert (Hnth : nth_error (prio_walk t) i = Some (prio_path (List.length ls) i)).
  { destruct ls as [|a [|b ls]]; [simpl in Hi; lia| |].
    - simpl in Hi. assert (i = 0) by lia. subst i. rewrite (prio_walk_one a t Ht). reflexivity.
    - rewrite (prio_walk_spec (a :: b :: ls) t ltac:(simpl; lia) Ht). apply nth_error_map_seq. exact Hi. }
  assert (Hne : prio_path (List.length ls) i <> []).
  { intro E0. rewrite E0 in Hpl. unfold dp, prio_depth in Hpl. cbn [List.length] in Hpl.
    destruct (List.length ls =? 1) eqn:E1; [discriminate|]. apply Nat.eqb_neq in E1.
    destruct (S i <? List.length ls); [discriminate|]. lia. }
  destruct (merklized_complete t _ lk us i _ (nth i ls []) vals f E Hnth Hsub Hne Hfl) as (w & Hw1 & _ & Hrun);
    try rewrite Hpl; try assumption.
  exists t, w. split; [exact Ht|]. split; [exact Hw1|]. cbv zeta in *. rewrite Hpl in Hrun. exact Hrun.
Qed.

End Complete.

(* ---------- 4. make_script_tree_balanced ---------- *)

Lemma list_ind2 {A} (P : list A -> Prop) :
  P [] -> (forall a, P [a]) -> (forall a b l, P l -> P (a :: b :: l)) -> forall l, P l.
Proof. intros H0 H1 H2. fix IH 1. intros [|a [|b l]]; [exact H0|apply H1|apply H2, IH]. Qed.

Lemma div2_spec n : 2 * (n / 2) <= n < 2 * (n / 2) + 2.
Proof. pose proof (Nat.div_mod n 2 ltac:(lia)). pose proof (Nat.mod_upper_bound n 2 ltac:(lia)). lia. Qed.

Lemma odd_true n : Nat.odd n = true -> exists h, n = 2 * h + 1.
Proof. intro E. apply Nat.odd_spec in E. destruct E as [h E]. exists h. exact E. Qed.
Lemma even_true n : Nat.even n = true -> exists h, n = 2 * h.
Proof. intro E. apply Nat.even_spec in E. destruct E as [h E]. exists h. exact E. Qed.
Lemma odd_false_even n : Nat.odd n = false -> Nat.even n = true.
Proof. unfold Nat.odd. destruct (Nat.even n); [reflexivity|discriminate]. Qed.

Lemma half_SS n : S (S n) / 2 = S (n / 2).
Proof. pose proof (div2_spec n). pose proof (div2_spec (S (S n))). lia. Qed.
Lemma half_S_even n : Nat.even n = true -> S n / 2 = n / 2.
Proof. intro E. destruct (even_true n E) as [h ->]. pose proof (div2_spec (2 * h)). pose proof (div2_spec (S (2 * h))). lia. Qed.

(* reverse + pop: the pairs are taken from the front *)
Lemma pops_rev {A} (l : list A) : pops (rev l) = l.
Proof. apply rev_involutive. Qed.

Lemma pairs_length l : List.length (pairs l) = List.length l / 2.
Proof.
  induction l as [| a | a b l IH] using list_ind2; [reflexivity|reflexivity|].
  cbn [pairs List.length]. rewrite IH, half_SS. reflexivity.
Qed.

Lemma pairs_flatten l :
  Nat.even (List.length l) = true -> flat_map flatten (pairs l) = flat_map flatten l.
Proof.
  induction l as [| a | a b l IH] using list_ind2; intro He; [reflexivity|discriminate|].
  cbn [pairs flat_map flatten]. rewrite IH by exact He. rewrite <- app_assoc. reflexivity.
Qed.

(* in-order leaf paths *)
Lemma leaf_paths_from_pre t : forall pre, leaf_paths_from t pre = map (fun p => pre ++ p) (leaf_paths t).
Proof.
  unfold leaf_paths. induction t as [s|l IHl r IHr]; intro pre.
  - cbn [leaf_paths_from map]. rewrite app_nil_r. reflexivity.
  - cbn [leaf_paths_from app]. rewrite (IHl (pre ++ [L])), (IHr (pre ++ [R])), (IHl [L]), (IHr [R]).
    rewrite map_app, !map_map. f_equal; apply map_ext; intro p; rewrite <- app_assoc; reflexivity.
Qed.

Lemma leaf_paths_node l r :
  leaf_paths (Node l r) = map (cons L) (leaf_paths l) ++ map (cons R) (leaf_paths r).
Proof.
  unfold leaf_paths at 1. cbn [leaf_paths_from app]. rewrite !leaf_paths_from_pre. reflexivity.
Qed.

Lemma leaf_paths_length t : List.length (leaf_paths t) = List.length (flatten t).
Proof.
  induction t as [s|l IHl r IHr]; [reflexivity|].
  rewrite leaf_paths_node. cbn [flatten]. rewrite !app_length, !map_length, IHl, IHr. reflexivity.
Qed.

(* the k-th in-order path leads to the k-th in-order leaf *)
Lemma leaf_paths_subtree t : forall k p,
  nth_error (leaf_paths t) k = Some p -> subtree t p = Some (Leaf (nth k (flatten t) [])).
Proof.
  induction t as [s|l IHl r IHr]; intros k p Hk.
  - destruct k as [|k]; [|destruct k; discriminate]. injection Hk as <-. reflexivity.
  - rewrite leaf_paths_node in Hk. cbn [flatten].
    destruct (lt_dec k (List.length (leaf_paths l))) as [Hlt|Hge].
    + rewrite nth_error_app1 in Hk by (rewrite map_length; exact Hlt).
      rewrite nth_error_map in Hk. destruct (nth_error (leaf_paths l) k) as [p'|] eqn:E; [|discriminate].
      injection Hk as <-. cbn [subtree pick]. rewrite (IHl _ _ E).
      rewrite app_nth1 by (rewrite <- leaf_paths_length; exact Hlt). reflexivity.
    + rewrite nth_error_app2 in Hk by (rewrite map_length; lia). rewrite map_length in Hk.
      rewrite nth_error_map in Hk.
      destruct (nth_error (leaf_paths r) (k - List.length (leaf_paths l))) as [p'|] eqn:E; [|discriminate].
      injection Hk as <-. cbn [subtree pick]. rewrite (IHr _ _ E).
      rewrite app_nth2 by (rewrite <- leaf_paths_length; lia). rewrite <- leaf_paths_length. reflexivity.
Qed.

(* all leaves of a list of trees, in order, as (index of the tree, path in the tree) *)
Fixpoint lpaths_from (m : nat) (nodes : list tree) : list (nat * list dir) :=
  match nodes with
  | [] => []
  | u :: rest => map (pair m) (leaf_paths u) ++ lpaths_from (S m) rest
  end.

Lemma lpaths_from_app l l' : forall m,
  lpaths_from m (l ++ l') = lpaths_from m l ++ lpaths_from (m + List.length l) l'.
Proof.
  induction l as [|u l IH]; intro m; cbn [app lpaths_from List.length].
  - rewrite Nat.add_0_r. reflexivity.
  - rewrite IH, <- app_assoc. do 3 f_equal. lia.
Qed.

(* one pass of pairwise combination: tree m goes to tree m/2, as its left child when m is even *)
Definition up (mp : nat * list dir) : nat * list dir := (fst mp / 2, dir_of (Nat.odd (fst mp)) :: snd mp).

Lemma lpaths_pairs l : forall m,
  Nat.even m = true -> Nat.even (List.length l) = true ->
  lpaths_from (m / 2) (pairs l) = map up (lpaths_from m l).
Proof.
  induction l as [| a | a b l IH] using list_ind2; intros m Hm He; [reflexivity|discriminate|].
  cbn [pairs lpaths_from]. rewrite leaf_paths_node. rewrite !map_app, !map_map.
  rewrite <- app_assoc. f_equal; [|f_equal].
  - apply map_ext. intro p. unfold up. cbn [fst snd]. unfold Nat.odd. rewrite Hm. reflexivity.
  - apply map_ext. intro p. unfold up. cbn [fst snd]. rewrite half_S_even by exact Hm.
    rewrite Nat.odd_succ, Hm. reflexivity.
  - rewrite <- half_SS. apply IH; [exact Hm|exact He].
Qed.

(* the invariant of the level loop: after j passes real leaf i is in tree i / 2^j, at the j low bits of i *)
Definition placed (n j : nat) (nodes : list tree) : Prop :=
  forall i, i < n -> nth_error (lpaths_from 0 nodes) i = Some (i / 2 ^ j, bin_path j i).

Lemma placed_app n j nodes extra : placed n j nodes -> placed n j (nodes ++ extra).
Proof.
  intros Hp i Hi. rewrite lpaths_from_app. rewrite nth_error_app1; [apply Hp; exact Hi|].
  apply nth_error_Some. rewrite (Hp i Hi). discriminate.
Qed.

Lemma placed_pairs n j nodes :
  Nat.even (List.length nodes) = true -> placed n j nodes -> placed n (S j) (pairs nodes).
Proof.
  intros He Hp i Hi. change 0 with (0 / 2) at 1. rewrite lpaths_pairs by (first [reflexivity|exact He]).
  rewrite nth_error_map, (Hp i Hi). cbn [option_map up fst snd bin_path]. unfold bit.
  rewrite Nat.pow_succ_r', (Nat.mul_comm 2), <- Nat.div_div by (try apply Nat.pow_nonzero; lia).
  reflexivity.
Qed.

Lemma lpaths_leaves ls : forall m i,
  i < List.length ls -> nth_error (lpaths_from m (map Leaf ls)) i = Some (m + i, []).
Proof.
  induction ls as [|s ls IH]; intros m i Hi; [simpl in Hi; lia|].
  cbn [map lpaths_from]. destruct i as [|i].
  - cbn. rewrite Nat.add_0_r. reflexivity.
  - cbn [leaf_paths leaf_paths_from map app nth_error]. rewrite IH by (simpl in Hi; lia). do 2 f_equal. lia.
Qed.

Lemma placed_leaves ls : placed (List.length ls) 0 (map Leaf ls).
Proof. intros i Hi. rewrite lpaths_leaves by exact Hi. cbn [Nat.pow bin_path Nat.add]. rewrite Nat.div_1_r. reflexivity. Qed.

Lemma levels_one fuel fill k t : levels fuel fill k [t] = Some t.
Proof. destruct fuel; reflexivity. Qed.

Lemma halvings_small fuel c : c <= 1 -> halvings fuel c = 0.
Proof. intro Hc. destruct fuel; cbn [halvings]; replace (c <=? 1) with true by (symmetry; apply Nat.leb_le; exact Hc); reflexivity. Qed.

Lemma halvings_step f c : 2 <= c -> halvings (S f) c = S (halvings f ((c + 1) / 2)).
Proof. intro Hc. cbn [halvings]. replace (c <=? 1) with false by (symmetry; apply Nat.leb_gt; lia). reflexivity. Qed.

Lemma pad_nodes_spec fill k nodes :
  exists extra, snd (pad_nodes fill k nodes) = nodes ++ extra /\
    Nat.even (List.length (snd (pad_nodes fill k nodes))) = true /\
    List.length (snd (pad_nodes fill k nodes)) / 2 = (List.length nodes + 1) / 2 /\
    flat_map flatten extra = map fill (seq k (fst (pad_nodes fill k nodes) - k)) /\
    k <= fst (pad_nodes fill k nodes).
Proof.
  unfold pad_nodes. destruct (Nat.odd (List.length nodes)) eqn:E; cbn [fst snd].
  - exists [filler_node fill k]. split; [reflexivity|]. rewrite app_length. cbn [List.length].
    split; [rewrite Nat.add_1_r, Nat.even_succ; exact E|]. split; [reflexivity|].
    split; [|lia]. replace (S (S k) - k) with 2 by lia. reflexivity.
  - exists []. rewrite app_nil_r. apply odd_false_even in E. split; [reflexivity|]. split; [exact E|].
    split; [rewrite Nat.add_1_r, half_S_even by exact E; reflexivity|].
    split; [|lia]. rewrite Nat.sub_diag. reflexivity.
Qed.

Lemma pad_leaves_spec fill k nodes :
  exists extra, snd (pad_leaves fill k nodes) = nodes ++ extra /\
    Nat.even (List.length (snd (pad_leaves fill k nodes))) = true /\
    List.length (snd (pad_leaves fill k nodes)) / 2 = (List.length nodes + 1) / 2 /\
    flat_map flatten extra = map fill (seq k (fst (pad_leaves fill k nodes) - k)) /\
    k <= fst (pad_leaves fill k nodes).
Proof.
  unfold pad_leaves. destruct (Nat.odd (List.length nodes)) eqn:E; cbn [fst snd].
  - exists [Leaf (fill k)]. split; [reflexivity|]. rewrite app_length. cbn [List.length].
    split; [rewrite Nat.add_1_r, Nat.even_succ; exact E|]. split; [reflexivity|].
    split; [|lia]. replace (S k - k) with 1 by lia. reflexivity.
  - exists []. rewrite app_nil_r. apply odd_false_even in E. split; [reflexivity|]. split; [exact E|].
    split; [rewrite Nat.add_1_r, half_S_even by exact E; reflexivity|].
    split; [|lia]. rewrite Nat.sub_diag. reflexivity.
Qed.

Section Balanced.
Variable fill : nat -> bytes.
Variable n : nat.

(* the loop ends with one tree, in which the in-order leaf paths start with the binary expansions of
   0 .. n-1, all of the same length: the passes made so far + the passes still to make *)
Lemma levels_placed : forall fuel k nodes j,
  nodes <> [] -> List.length nodes <= fuel -> placed n j nodes ->
  exists t, levels fuel fill k nodes = Some t /\
    forall i, i < n -> nth_error (leaf_paths t) i = Some (bin_path (j + halvings fuel (List.length nodes)) i).
Proof.
  induction fuel as [|f IH]; intros k nodes j Hne Hlen Hp.
  - destruct nodes; [congruence|simpl in Hlen; lia].
  - destruct nodes as [|t [|t' nodes]]; [congruence| |].
    + exists t. split; [reflexivity|]. intros i Hi. rewrite halvings_small by (simpl; lia). rewrite Nat.add_0_r.
      pose proof (Hp i Hi) as Hpi. cbn [lpaths_from] in Hpi. rewrite app_nil_r, nth_error_map in Hpi.
      destruct (nth_error (leaf_paths t) i) as [p|]; [|discriminate]. injection Hpi as _ Hpi. rewrite Hpi. reflexivity.
    + set (nd := t :: t' :: nodes) in *.
      assert (Hc : 2 <= List.length nd) by (unfold nd; simpl; lia).
      change (levels (S f) fill k nd)
        with (levels f fill (fst (pad_nodes fill k nd)) (pairs (pops (rev (snd (pad_nodes fill k nd)))))).
      rewrite pops_rev.
      destruct (pad_nodes_spec fill k nd) as (extra & E1 & E2 & E3 & _).
      pose proof (div2_spec (List.length nd + 1)) as Hd.
      destruct (IH (fst (pad_nodes fill k nd)) (pairs (snd (pad_nodes fill k nd))) (S j)) as (r & Hr1 & Hr2).
      * intro E0. apply (f_equal (@List.length tree)) in E0. rewrite pairs_length, E3 in E0. cbn [List.length] in E0. lia.
      * rewrite pairs_length, E3. lia.
      * apply placed_pairs; [exact E2|]. rewrite E1. apply placed_app. exact Hp.
      * exists r. split; [exact Hr1|]. intros i Hi. rewrite (Hr2 i Hi).
        rewrite pairs_length, E3, (halvings_step f _ Hc). do 2 f_equal. lia.
Qed.

Lemma seq_fill_app a b c : a <= b -> b <= c ->
  map fill (seq a (b - a)) ++ map fill (seq b (c - b)) = map fill (seq a (c - a)).
Proof.
  intros H1 H2. rewrite <- map_app. f_equal. replace (c - a) with ((b - a) + (c - b)) by lia.
  rewrite seq_app. do 2 f_equal. lia.
Qed.

(* whenever the loop returns a tree, its in-order leaves are those it started with + the fillers made *)
Lemma levels_flatten (ls : list bytes) : forall fuel k nodes t,
  flat_map flatten nodes = ls ++ map fill (seq 0 k) -> levels fuel fill k nodes = Some t ->
  exists k', flatten t = ls ++ map fill (seq 0 k').
Proof.
  induction fuel as [|f IH]; intros k nodes t Hfl Hlv.
  - destruct nodes as [|u [|u' nodes]]; try discriminate. injection Hlv as <-. exists k.
    cbn [flat_map] in Hfl. rewrite app_nil_r in Hfl. exact Hfl.
  - destruct nodes as [|u [|u' nodes]]; [discriminate| |].
    + injection Hlv as <-. exists k. cbn [flat_map] in Hfl. rewrite app_nil_r in Hfl. exact Hfl.
    + set (nd := u :: u' :: nodes) in *.
      change (levels (S f) fill k nd)
        with (levels f fill (fst (pad_nodes fill k nd)) (pairs (pops (rev (snd (pad_nodes fill k nd)))))) in Hlv.
      rewrite pops_rev in Hlv.
      destruct (pad_nodes_spec fill k nd) as (extra & E1 & E2 & _ & E4 & E5).
      apply (IH (fst (pad_nodes fill k nd)) (pairs (snd (pad_nodes fill k nd))) t); [|exact Hlv].
      rewrite pairs_flatten by exact E2. rewrite E1, flat_map_app, Hfl, E4, <- app_assoc. f_equal.
      rewrite <- (Nat.sub_0_r k) at 1. rewrite seq_fill_app by lia. rewrite Nat.sub_0_r. reflexivity.
Qed.

End Balanced.

Lemma flat_map_leaves ls : flat_map flatten (map Leaf ls) = ls.
Proof. induction ls as [|s ls IH]; [reflexivity|]. cbn [map flat_map flatten app]. f_equal. exact IH. Qed.

Lemma bin_path_length d i : List.length (bin_path d i) = d.
Proof. induction d as [|d IH]; [reflexivity|]. cbn [bin_path List.length]. rewrite IH. reflexivity. Qed.

(* THEOREM 2.  For every filler supply and every non-empty list of scripts: make_script_tree_balanced returns
   a tree whose in-order leaves are the input scripts followed by fillers only (fill 0, fill 1, ... in order);
   input script i is the leaf at the path "binary expansion of i on d digits" (0 = left), which is also the
   i-th path of _find_leaves; so ALL input scripts are at the same depth d = bal_depth n. *)
Theorem balanced_leaves fill ls :
  ls <> [] ->
  let n := List.length ls in
  let d := bal_depth n in
  exists t k,
    balanced fill ls = Some t /\
    flatten t = ls ++ map fill (seq 0 k) /\
    forall i, i < n ->
      nth_error (leaf_paths t) i = Some (bin_path d i) /\
      subtree t (bin_path d i) = Some (Leaf (nth i ls [])) /\
      List.length (bin_path d i) = d.
Proof.
  intros Hne n d. unfold balanced.
  destruct (pad_leaves_spec fill 0 (map Leaf ls)) as (extra & E1 & E2 & E3 & E4 & _).
  set (kl := pad_leaves fill 0 (map Leaf ls)) in *. rewrite pops_rev.
  set (nodes := pairs (snd kl)).
  rewrite map_length in E3. fold n in E3.
  assert (Hn : 1 <= n) by (unfold n; destruct ls; [congruence|simpl; lia]).
  assert (Hlen : List.length nodes = (n + 1) / 2) by (unfold nodes; rewrite pairs_length; exact E3).
  pose proof (div2_spec (n + 1)) as Hd.
  assert (Hp : placed n 1 nodes).
  { apply placed_pairs; [exact E2|]. rewrite E1. apply placed_app. apply placed_leaves. }
  destruct (levels_placed fill n (List.length nodes) (fst kl) nodes 1) as (t & Ht1 & Ht2).
  { intro E0. rewrite E0 in Hlen. cbn [List.length] in Hlen. lia. }
  { lia. }
  { exact Hp. }
  destruct (levels_flatten fill ls (List.length nodes) (fst kl) nodes t) as (k & Hk).
  { unfold nodes. rewrite pairs_flatten by exact E2. rewrite E1, flat_map_app, flat_map_leaves, E4.
    rewrite Nat.sub_0_r. reflexivity. }
  { exact Ht1. }
  exists t, k. split; [exact Ht1|]. split; [exact Hk|]. intros i Hi.
  assert (Hdd : 1 + halvings (List.length nodes) (List.length nodes) = d).
  { rewrite Hlen. reflexivity. }
  pose proof (Ht2 i Hi) as Hpi. rewrite Hdd in Hpi.
  split; [exact Hpi|]. split; [|apply bin_path_length].
  rewrite (leaf_paths_subtree t i _ Hpi), Hk. rewrite app_nth1 by exact Hi. reflexivity.
Qed.

(* consequences *)
Corollary balanced_prefix fill ls t : balanced fill ls = Some t -> firstn (List.length ls) (flatten t) = ls.
Proof.
  intro Ht. destruct ls as [|s ls]; [reflexivity|].
  destruct (balanced_leaves fill (s :: ls) ltac:(discriminate)) as (t' & k & Ht' & Hk & _).
  rewrite Ht in Ht'. injection Ht' as <-. rewrite Hk.
  rewrite firstn_app, Nat.sub_diag, firstn_all. cbn [firstn]. apply app_nil_r.
Qed.

Lemma balanced_nonempty fill ls t : balanced fill ls = Some t -> ls <> [].
Proof. intros Ht E. subst ls. discriminate. Qed.

Lemma bal_depth_pos n : 1 <= bal_depth n.
Proof. unfold bal_depth. lia. Qed.

Lemma balanced_node fill ls t : balanced fill ls = Some t -> exists l r, t = Node l r.
Proof.
  intro Ht. pose proof (balanced_nonempty _ _ _ Ht) as Hne.
  destruct (balanced_leaves fill ls Hne) as (t' & k & Ht' & _ & Hall).
  rewrite Ht in Ht'. injection Ht' as <-.
  assert (H0 : 0 < List.length ls) by (destruct ls; [congruence|simpl; lia]).
  destruct (Hall 0 H0) as (_ & Hsub & _).
  unfold bal_depth in Hsub. cbn [bin_path] in Hsub. destruct t as [s|l r]; [discriminate|eauto].
Qed.

Lemma firstn_nth_error_seq {A} (f : nat -> A) : forall n l,
  (forall i, i < n -> nth_error l i = Some (f i)) -> firstn n l = map f (seq 0 n).
Proof.
  intro n. revert f. induction n as [|n IH]; intros f l Hall; [reflexivity|].
  destruct l as [|x l]; [specialize (Hall 0 ltac:(lia)); discriminate|].
  cbn [firstn seq map]. f_equal.
  - specialize (Hall 0 ltac:(lia)). injection Hall as ->. reflexivity.
  - rewrite <- seq_shift, map_map. apply IH. intros i Hi. apply (Hall (S i)). lia.
Qed.

Lemma nth_error_firstn_lt {A} : forall n (l : list A) i, i < n -> nth_error (firstn n l) i = nth_error l i.
Proof.
  induction n as [|n IH]; intros l i Hi; [lia|].
  destruct l as [|x l]; [reflexivity|]. destruct i as [|i]; [reflexivity|]. cbn [firstn nth_error]. apply IH. lia.
Qed.

(* THEOREM 4 (balanced), tree level: the first len(leaves) entries of _find_leaves are, in order, the input
   scripts 0 .. n-1 at their places bin_path d i *)
Theorem balanced_find_leaves fill ls t :
  balanced fill ls = Some t ->
  firstn (List.length ls) (leaf_paths t) = map (bin_path (bal_depth (List.length ls))) (seq 0 (List.length ls)).
Proof.
  intro Ht. pose proof (balanced_nonempty _ _ _ Ht) as Hne.
  destruct (balanced_leaves fill ls Hne) as (t' & k & Ht' & _ & Hall).
  rewrite Ht in Ht'. injection Ht' as <-.
  apply firstn_nth_error_seq. intros i Hi. apply (Hall i Hi).
Qed.

(* the depth: 1 for one script, ceil(log2 n) otherwise *)
Lemma log2_up_half c : 2 <= c -> Nat.log2_up c = S (Nat.log2_up ((c + 1) / 2)).
Proof.
  intro Hc. pose proof (div2_spec (c + 1)) as Hd. set (h := (c + 1) / 2) in *.
  destruct (Nat.eq_dec h 1) as [E|E].
  - assert (c = 2) by lia. subst c. rewrite E. reflexivity.
  - assert (Hh : 1 < h) by lia.
    pose proof (Nat.log2_up_spec h Hh) as [S1 S2]. pose proof (Nat.log2_up_pos h Hh) as Hpos.
    set (b := Nat.log2_up h) in *. apply Nat.log2_up_unique; [lia|].
    destruct b as [|b']; [lia|]. cbn [pred] in *. rewrite !Nat.pow_succ_r' in *. lia.
Qed.

Lemma halvings_log2_up : forall fuel c, c <= fuel -> halvings fuel c = Nat.log2_up c.
Proof.
  induction fuel as [|f IH]; intros c Hc.
  - assert (c = 0) by lia. subst c. reflexivity.
  - destruct (le_lt_dec c 1) as [Hs|Hb].
    + rewrite halvings_small by exact Hs. destruct c as [|[|c]]; [reflexivity|reflexivity|lia].
    + rewrite halvings_step by lia. rewrite log2_up_half by lia. f_equal. apply IH.
      pose proof (div2_spec (c + 1)). lia.
Qed.

Theorem bal_depth_log2_up n : 2 <= n -> bal_depth n = Nat.log2_up n.
Proof. intro Hn. unfold bal_depth. rewrite halvings_log2_up by lia. symmetry. apply log2_up_half. exact Hn. Qed.

Example bal_depth_1 : bal_depth 1 = 1.
Proof. reflexivity. Qed.
Example bal_depth_small : map bal_depth (seq 1 9) = [1; 1; 2; 2; 3; 3; 3; 3; 4].
Proof. vm_compute. reflexivity. Qed.

Lemma bit_testbit i j : bit i j = Nat.testbit i j.
Proof. unfold bit. rewrite Nat.testbit_odd, Nat.shiftr_div_pow2. reflexivity. Qed.

(* THEOREM 4 (balanced): make_merklized_script_balanced returns the lock of the tree and exactly n unlocking
   scripts, the i-th one that of input script i *)
Theorem balanced_unlocks_spec H fill ls lk us :
  balanced_unlocks H fill ls = Some (lk, us) ->
  exists l r, balanced fill ls = Some (Node l r) /\ lk = lock H l r /\
    List.length us = List.length ls /\
    forall i, i < List.length ls ->
      exists w, nth_error us i = Some w /\
                unlock H (Node l r) (bin_path (bal_depth (List.length ls)) i) = Some w.
Proof.
  unfold balanced_unlocks. destruct (balanced fill ls) as [t|] eqn:Ht; [|discriminate]. intro E.
  destruct (merklized_spec _ _ _ _ _ E) as (l & r & -> & Hlk & _). exists l, r.
  split; [reflexivity|]. split; [exact Hlk|].
  pose proof (merklized_length _ _ _ _ _ E) as Hlen.
  rewrite (balanced_find_leaves _ _ _ Ht) in *. rewrite map_length, seq_length in Hlen.
  split; [exact Hlen|]. intros i Hi. apply (merklized_nth _ _ _ _ _ i _ E). apply nth_error_map_seq. exact Hi.
Qed.

Section CompleteBalanced.
Variable orc : oracle.
Variable cfg : config.
Variable H : bytes -> bytes.
Hypothesis Horc : forall b, orc PSha256 [b] = OOk [H b].
Hypothesis Hlen : forall b, List.length (H b) = 32.

(* THEOREM 3 (balanced).  For every input script i: the i-th unlocking script returned by
   make_merklized_script_balanced followed by the returned lock runs, through run_auth_scripts, exactly the
   bytes of script i, as a tape object with call count d on the empty stack, d = bal_depth n for every i *)
Theorem builders_complete_balanced fill ls lk us i vals f :
  balanced_unlocks H fill ls = Some (lk, us) -> i < List.length ls ->
  let d := bal_depth (List.length ls) in
  no_eval_ban cfg -> (Z.of_nat d <= c_limit cfg)%Z ->
  fits cfg (nth i ls []) -> 33 <= c_max_item_size cfg -> 2 * d + 2 <= c_max_items cfg ->
  exists t w,
    balanced fill ls = Some t /\ nth_error us i = Some w /\
    let p := bin_path d i in
    let st2 := lock_state cfg w vals (wstack H t p) lk in
    let tid' := fst (descend H t p 1 st2) in
    let st' := snd (descend H t p 1 st2) in
    run_auth_scripts orc cfg (2 * d + S f) [w; lk] vals =
      auth_finish (lock_result cfg 1 d (run_tape orc cfg (S (d + f)) tid' 0 st')) /\
    tdata st' tid' = nth i ls [] /\
    to_count (nth_tape st' tid') = Z.of_nat d /\
    st_stack st' = [] /\ st_cache st' = st_cache st2 /\ st_log st' = st_log st2.
Proof.
  intros E Hi d Hfl Hc Hf Hsz Hsp.
  unfold balanced_unlocks in E. destruct (balanced fill ls) as [t|] eqn:Ht; [|discriminate].
  pose proof (balanced_nonempty _ _ _ Ht) as Hne.
  destruct (balanced_leaves fill ls Hne) as (t' & k & Ht' & _ & Hall).
  rewrite Ht in Ht'. injection Ht' as <-.
  destruct (Hall i Hi) as (Hnth & Hsub & Hpl). fold d in Hnth, Hsub, Hpl.
  assert (Hnth' : nth_error (firstn (List.length ls) (leaf_paths t)) i = Some (bin_path d i)).
  { rewrite nth_error_firstn_lt by exact Hi. exact Hnth. }
  assert (Hpne : bin_path d i <> []).
  { intro E0. rewrite E0 in Hpl. pose proof (bal_depth_pos (List.length ls)). fold d in H0. simpl in Hpl. lia. }
  destruct (merklized_complete orc cfg H Horc Hlen t _ lk us i _ (nth i ls []) vals f E Hnth' Hsub Hpne Hfl)
    as (w & Hw1 & _ & Hrun); try rewrite Hpl; try assumption.
  exists t, w. split; [reflexivity|]. split; [exact Hw1|]. cbv zeta in *. rewrite Hpl in Hrun. exact Hrun.
Qed.

End CompleteBalanced.

(* ---------- 5. the filler of the one-leaf prioritized tree ---------- *)

Section Filler.
Variable orc : oracle.
Variable cfg : config.
Variable H : bytes -> bytes.
Hypothesis Horc : forall b, orc PSha256 [b] = OOk [H b].
Hypothesis Hlen : forall b, List.length (H b) = 32.

Lemma stack_eval_cache st : st_stack (eval_cache cfg st) = st_stack st.
Proof. unfold eval_cache. destruct (cache_get _ _); [|reflexivity]. destruct (eval_ret cfg); reflexivity. Qed.

(* make_merklized_script_prioritized([x]) returns TWO unlocking scripts; the second one unlocks the filler
   `false`, and on its own it is rejected: OP_FALSE leaves 00 as the only item *)
Theorem prioritized_filler_rejects x lk us vals f :
  prioritized_unlocks H [x] = Some (lk, us) ->
  no_eval_ban cfg -> (1 <= c_limit cfg)%Z -> 33 <= c_max_item_size cfg -> 4 <= c_max_items cfg ->
  exists w st,
    nth_error us 1 = Some w /\
    run_auth_scripts orc cfg (2 * 1 + S (S f)) [w; lk] vals = AuthVerdict false st.
Proof.
  intros E Hfl Hc Hsz Hsp. unfold prioritized_unlocks in E. rewrite prioritized_one in E.
  destruct (merklized_complete orc cfg H Horc Hlen _ _ lk us 1 [R] filler_false vals (S f) E eq_refl eq_refl
              ltac:(discriminate) Hfl) as (w & Hw1 & _ & Hrun);
    [simpl; lia | unfold fits, filler_false; simpl; lia | lia | simpl; lia |].
  cbv zeta in Hrun. destruct Hrun as (Hrun & Hd & _ & Hs & _).
  set (st2 := lock_state cfg w vals _ lk) in *.
  set (tid' := fst (descend H _ [R] 1 st2)) in *. set (st' := snd (descend H _ [R] 1 st2)) in *.
  exists w. eexists. split; [exact Hw1|]. cbn [List.length] in Hrun. rewrite Hrun.
  assert (Hd0 : tdata st' tid' = [] ++ x00 :: []) by exact Hd.
  change (run_tape orc cfg (S (1 + S f)) tid' 0 st') with (run_tape orc cfg (S (S (S f))) tid' (List.length (@nil byte)) st').
  rewrite (op0_done orc cfg (S (S f)) tid' st' [] x00 [] (with_stack st' [[x00]]) Hd0).
  - rewrite (tape_end orc cfg (S f) tid' (with_stack st' [[x00]]) ([] ++ [x00])) by exact Hd.
    cbn [lock_result auth_finish Nat.iter nat_rect]. rewrite stack_eval_cache. cbn [st_stack with_stack].
    reflexivity.
  - intros run fr. change (dispatch (N.to_nat (Byte.to_N x00))) with OP_FALSE.
    unfold OP_FALSE, put, act.
    rewrite (put_step orc cfg run) with (s := []); [reflexivity|exact Hs|unfold fits; simpl; lia|unfold space; simpl; lia].
Qed.

End Filler.

(* ---------- non-vacuity: both builders on three scripts, with MerkleTreeProofs.Demo's oracle and
   configuration; script 1 = OP_TRUE is unlocked by the returned pair, through the theorems ---------- *)
Module BuildersDemo.
Import MerkleTreeProofs.Demo.
Definition scripts : list bytes := [[x00]; [x01]; [x00; x06; x01]].   (* false | true | false pop0 true *)
Definition fl (k : nat) : bytes := x03 :: x10 :: repeat x2a 16 ++ [x30].   (* push x2a..2a return *)

Example demo_prioritized : exists lk us w st,
  prioritized_unlocks H scripts = Some (lk, us) /\ nth_error us 1 = Some w /\
  run_auth_scripts orc cfg (2 * 2 + S 3) [w; lk] [] = AuthVerdict true st.
Proof.
  destruct (prioritized_unlocks H scripts) as [[lk us]|] eqn:E; [|vm_compute in E; discriminate].
  destruct (builders_complete_prioritized orc cfg H orc_H H_len scripts lk us 1 [] 3 E ltac:(simpl; lia)
              eq_refl ltac:(vm_compute; discriminate) ltac:(unfold fits; simpl; lia) ltac:(simpl; lia)
              ltac:(simpl; lia)) as (t & w & Ht & Hw & Hrun & _).
  exists lk, us, w. eexists. split; [reflexivity|]. split; [exact Hw|].
  change (prio_depth (List.length scripts) 1) with 2 in Hrun. rewrite Hrun. clear Hrun.
  vm_compute in E. injection E as <- <-. vm_compute in Ht. injection Ht as <-.
  vm_compute in Hw. injection Hw as <-. vm_compute. reflexivity.
Qed.

Example demo_balanced : exists lk us w st,
  balanced_unlocks H fl scripts = Some (lk, us) /\ nth_error us 1 = Some w /\
  run_auth_scripts orc cfg (2 * 2 + S 3) [w; lk] [] = AuthVerdict true st.
Proof.
  destruct (balanced_unlocks H fl scripts) as [[lk us]|] eqn:E; [|vm_compute in E; discriminate].
  destruct (builders_complete_balanced orc cfg H orc_H H_len fl scripts lk us 1 [] 3 E ltac:(simpl; lia)
              eq_refl ltac:(vm_compute; discriminate) ltac:(unfold fits; simpl; lia) ltac:(simpl; lia)
              ltac:(vm_compute; lia)) as (t & w & Ht & Hw & Hrun & _).
  exists lk, us, w. eexists. split; [reflexivity|]. split; [exact Hw|].
  change (bal_depth (List.length scripts)) with 2 in Hrun. rewrite Hrun. clear Hrun.
  vm_compute in E. injection E as <- <-. vm_compute in Ht. injection Ht as <-.
  vm_compute in Hw. injection Hw as <-. vm_compute. reflexivity.
Qed.

(* the filler leaves: the prioritized filler `false` and a balanced filler `push x.. return`, unlocked with the
   scripts the tree gives for them, are rejected *)
Example demo_filler_false : exists t w st,
  prioritized [[x01]] = Some t /\ unlock H t [R] = Some w /\
  match t with Node l r => run_auth_scripts orc cfg 9 [w; lock H l r] [] = AuthVerdict false st | _ => False end.
Proof. eexists _, _, _. split; [reflexivity|]. split; [vm_compute; reflexivity|]. vm_compute. reflexivity. Qed.

Example demo_filler_balanced : exists t w st,
  balanced fl scripts = Some t /\ subtree t [R; R] = Some (Leaf (fl 0)) /\ unlock H t [R; R] = Some w /\
  match t with Node l r => run_auth_scripts orc cfg 12 [w; lock H l r] [] = AuthVerdict false st | _ => False end.
Proof. eexists _, _, _. split; [reflexivity|]. split; [reflexivity|]. split; [vm_compute; reflexivity|]. vm_compute. reflexivity. Qed.
End BuildersDemo.

Print Assumptions prioritized_paths.
Print Assumptions prio_walk_spec.
Print Assumptions prioritized_unlocks_spec.
Print Assumptions builders_complete_prioritized.
Print Assumptions balanced_leaves.
Print Assumptions balanced_find_leaves.
Print Assumptions bal_depth_log2_up.
Print Assumptions balanced_unlocks_spec.
Print Assumptions builders_complete_balanced.
Print Assumptions prioritized_onto_old.
Print Assumptions prioritized_onto_new.
Print Assumptions prioritized_onto_flatten.
Print Assumptions prioritized_filler_rejects.
Print Assumptions BuildersDemo.demo_prioritized.
Print Assumptions BuildersDemo.demo_balanced.
