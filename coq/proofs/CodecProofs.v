(* Correctness of the integer codec (model/Codec.v): round trip, totality, injectivity. *)
From Coq Require Import ZArith List Bool Lia NArith.
From Coq.Strings Require Import Byte.
From TS Require Import Bytes Codec BytesLemmas.
Import ListNotations.
Open Scope Z_scope.

Lemma blen_pos : forall b : bytes, b <> [] -> 1 <= blen b.
Proof.
  intros [|x t] H; [congruence|]. rewrite blen_cons. pose proof (blen_nonneg t). lia.
Qed.

Lemma pow2_pos : forall k, 0 <= k -> 0 < 2 ^ k.
Proof. intros. apply Z.pow_pos_nonneg; lia. Qed.

Lemma pow2_double : forall k, 1 <= k -> 2 ^ k = 2 * 2 ^ (k - 1).
Proof.
  intros k Hk. replace k with (Z.succ (k - 1)) at 1 by lia.
  rewrite Z.pow_succ_r by lia. reflexivity.
Qed.

Lemma be_to_Z_range2 : forall b, 0 <= be_to_Z b < 2 ^ (8 * blen b).
Proof.
  intros b. rewrite <- pow256_2 by apply blen_nonneg. apply be_to_Z_range.
Qed.

(* closed form of the decoder *)
Lemma bytes_to_int_spec : forall b, b <> [] ->
  bytes_to_int b =
  Some (if be_to_Z b <? 2 ^ (8 * blen b - 1) then be_to_Z b else be_to_Z b - 2 ^ (8 * blen b)).
Proof.
  intros b Hb. pose proof (blen_pos b Hb) as Hl.
  destruct b as [|x t]; [congruence|].
  unfold bytes_to_int. f_equal.
  rewrite Z.shiftr_div_pow2 by lia.
  pose proof (be_to_Z_range2 (x :: t)) as [Hr _].
  pose proof (pow2_pos (8 * blen (x :: t) - 1) ltac:(lia)) as HP.
  set (n := be_to_Z (x :: t)) in *.
  set (P := 2 ^ (8 * blen (x :: t) - 1)) in *.
  destruct (n <? P) eqn:E.
  - apply Z.ltb_lt in E. rewrite Z.div_small by lia. reflexivity.
  - apply Z.ltb_ge in E.
    destruct (n / P =? 0) eqn:E2; [|reflexivity].
    apply Z.eqb_eq in E2. apply Z.div_small_iff in E2; lia.
Qed.

Definition fl2_ok (fl2 : Z -> Z) : Prop := forall a, 0 < a -> Z.log2 a <= fl2 a <= Z.log2 a + 1.

(* top bit of the first byte *)
Definition top_bit (b : bytes) : bool := match b with [] => false | x :: _ => 128 <=? b2z x end.

Lemma top_bit_spec : forall b, b <> [] ->
  (top_bit b = true <-> 2 ^ (8 * blen b - 1) <= be_to_Z b).
Proof.
  intros [|x t] Hb; [congruence|]. clear Hb.
  unfold top_bit. rewrite Z.leb_le.
  rewrite be_to_Z_cons, blen_cons.
  pose proof (blen_nonneg t) as Hl.
  replace (8 * (blen t + 1) - 1) with (7 + 8 * blen t) by lia.
  rewrite Z.pow_add_r by lia.
  rewrite <- pow256_2 by lia.
  pose proof (be_to_Z_range t) as Hr.
  pose proof (b2z_range x) as Hx.
  pose proof (pow256_pos (blen t) Hl) as HP.
  set (P := 256 ^ blen t) in *.
  change (2 ^ 7) with 128.
  split; intros H; nia.
Qed.

Lemma to_bytes_ok : forall nb v, 1 <= nb -> 0 <= v < 2 ^ (8 * nb) ->
  exists b, to_bytes nb v = Some b /\ b <> [] /\ blen b = nb /\ be_to_Z b = v.
Proof.
  intros nb v Hnb Hv. unfold to_bytes.
  replace (v <? 0) with false by (symmetry; apply Z.ltb_ge; lia).
  replace (2 ^ (8 * nb) <=? v) with false by (symmetry; apply Z.leb_gt; lia).
  replace (nb <? 0) with false by (symmetry; apply Z.ltb_ge; lia).
  cbn [orb].
  exists (Z_to_be (Z.to_nat nb) v).
  assert (Hlen : blen (Z_to_be (Z.to_nat nb) v) = nb)
    by (rewrite blen_Z_to_be; lia).
  split; [reflexivity|]. split; [|split].
  - intros E. rewrite E in Hlen. rewrite blen_nil in Hlen. lia.
  - exact Hlen.
  - rewrite be_to_Z_Z_to_be. rewrite Z2Nat.id by lia.
    rewrite pow256_2 by lia. apply Z.mod_small. exact Hv.
Qed.

Lemma enc_nonneg : forall nb a, 1 <= nb -> 0 <= a < 2 ^ (8 * nb - 1) ->
  exists b, to_bytes nb a = Some b /\ bytes_to_int b = Some a /\ b <> [] /\ top_bit b = false.
Proof.
  intros nb a Hnb Ha.
  pose proof (pow2_double (8 * nb) ltac:(lia)) as HD.
  pose proof (pow2_pos (8 * nb - 1) ltac:(lia)) as HP.
  destruct (to_bytes_ok nb a Hnb ltac:(lia)) as (b & Hb & Hne & Hlen & Hval).
  exists b. split; [exact Hb|]. split; [|split; [exact Hne|]].
  - rewrite bytes_to_int_spec by exact Hne. rewrite Hlen, Hval.
    replace (a <? 2 ^ (8 * nb - 1)) with true by (symmetry; apply Z.ltb_lt; lia).
    reflexivity.
  - destruct (top_bit b) eqn:E; [|reflexivity].
    apply top_bit_spec in E; [|exact Hne]. rewrite Hlen, Hval in E. lia.
Qed.

Lemma enc_neg : forall nb a, 1 <= nb -> 0 < a <= 2 ^ (nb * 8 - 1) ->
  exists b, to_bytes nb (2 ^ (nb * 8 - 1) + (2 ^ (nb * 8 - 1) - a)) = Some b /\
            bytes_to_int b = Some (- a) /\ b <> [] /\ top_bit b = true.
Proof.
  intros nb a Hnb Ha.
  replace (nb * 8 - 1) with (8 * nb - 1) in * by lia.
  pose proof (pow2_double (8 * nb) ltac:(lia)) as HD.
  pose proof (pow2_pos (8 * nb - 1) ltac:(lia)) as HP.
  set (P := 2 ^ (8 * nb - 1)) in *.
  destruct (to_bytes_ok nb (P + (P - a)) Hnb ltac:(lia)) as (b & Hb & Hne & Hlen & Hval).
  exists b. split; [exact Hb|]. split; [|split; [exact Hne|]].
  - rewrite bytes_to_int_spec by exact Hne. rewrite Hlen, Hval. fold P.
    replace (P + (P - a) <? P) with false by (symmetry; apply Z.ltb_ge; lia).
    f_equal. lia.
  - apply top_bit_spec; [exact Hne|]. rewrite Hlen, Hval. fold P. lia.
Qed.

(* pure div/mod facts about the byte count *)
Section DivMod.
  Local Ltac Zify.zify_post_hook ::= Z.div_mod_to_equations.

  Lemma nbytes_mod0 : forall m, 1 <= m -> m mod 8 = 0 ->
    1 <= (m + 7) / 8 /\ m = 8 * ((m + 7) / 8).
  Proof. intros. lia. Qed.

  Lemma nbytes_modnz : forall m, 1 <= m -> m mod 8 <> 0 ->
    1 <= (m + 7) / 8 /\ m <= 8 * ((m + 7) / 8) - 1.
  Proof. intros. lia. Qed.
End DivMod.

Lemma lt_pow2_mono : forall a m k, 0 <= a < 2 ^ m -> m <= k -> 0 <= a < 2 ^ k.
Proof.
  intros a m k Ha Hk. pose proof (Z.pow_le_mono_r 2 m k ltac:(lia) Hk). lia.
Qed.

(* the bit-length estimate bounds the magnitude *)
Lemma n_bits_bound : forall fl2, fl2_ok fl2 -> forall a, 0 <= a ->
  let m := if a =? 0 then 1 else fl2 a + 1 in
  1 <= m /\ 0 <= a < 2 ^ m.
Proof.
  intros fl2 Hf a Ha m. subst m.
  destruct (a =? 0) eqn:E.
  - apply Z.eqb_eq in E. subst a. split; [lia|]. change (2 ^ 1) with 2. lia.
  - apply Z.eqb_neq in E.
    assert (Hpos : 0 < a) by lia.
    pose proof (Hf a Hpos) as Hfl.
    pose proof (Z.log2_spec a Hpos) as Hlog.
    pose proof (Z.log2_nonneg a) as Hnn.
    split; [lia|].
    apply (lt_pow2_mono a (Z.succ (Z.log2 a))); lia.
Qed.

Theorem int_roundtrip :
  forall fl2, fl2_ok fl2 -> forall n : Z,
    exists b, int_to_bytes fl2 n = Some b /\ bytes_to_int b = Some n /\ b <> [] /\ (top_bit b = true <-> n < 0).
Proof.
  intros fl2 Hf n.
  unfold int_to_bytes.
  pose proof (n_bits_bound fl2 Hf (Z.abs n) (Z.abs_nonneg n)) as Hm. cbv zeta in Hm.
  set (m := if Z.abs n =? 0 then 1 else fl2 (Z.abs n) + 1) in *.
  destruct Hm as [Hm1 Ham].
  remember (Z.abs n) as a eqn:Ea.
  set (nb := (m + 7) / 8).
  destruct (n <? 0) eqn:Eneg.
  - (* negative *)
    apply Z.ltb_lt in Eneg.
    assert (Hn : n = - a) by lia.
    assert (Hapos : 0 < a) by lia.
    assert (Hgoal : forall nb', 1 <= nb' -> a <= 2 ^ (nb' * 8 - 1) ->
      exists b, to_bytes nb' (2 ^ (nb' * 8 - 1) + (2 ^ (nb' * 8 - 1) - a)) = Some b /\
                bytes_to_int b = Some n /\ b <> [] /\ (top_bit b = true <-> n < 0)).
    { intros nb' H1 H2.
      destruct (enc_neg nb' a H1 ltac:(lia)) as (b & Hb & Hd & Hne & Ht).
      exists b. rewrite Hn. split; [exact Hb|]. split; [exact Hd|]. split; [exact Hne|].
      split; intros; [lia|exact Ht]. }
    destruct (m mod 8 =? 0) eqn:Emod.
    + apply Z.eqb_eq in Emod.
      destruct (nbytes_mod0 m Hm1 Emod) as [Hnb1 Hnb2]. fold nb in Hnb1, Hnb2.
      destruct (2 ^ (nb * 8 - 1) <? a) eqn:Ecmp; cbn [andb].
      * apply Hgoal; [lia|].
        apply Z.lt_le_incl. apply (lt_pow2_mono a m); lia.
      * apply Z.ltb_ge in Ecmp. apply Hgoal; [lia|exact Ecmp].
    + apply Z.eqb_neq in Emod. cbn [andb].
      destruct (nbytes_modnz m Hm1 Emod) as [Hnb1 Hnb2]. fold nb in Hnb1, Hnb2.
      apply Hgoal; [lia|].
      apply Z.lt_le_incl. apply (lt_pow2_mono a m); lia.
  - (* non-negative *)
    apply Z.ltb_ge in Eneg.
    assert (Hn : a = n) by lia.
    assert (Hgoal : forall nb', 1 <= nb' -> m <= 8 * nb' - 1 ->
      exists b, to_bytes nb' a = Some b /\
                bytes_to_int b = Some n /\ b <> [] /\ (top_bit b = true <-> n < 0)).
    { intros nb' H1 H2.
      destruct (enc_nonneg nb' a H1 (lt_pow2_mono a m _ Ham H2)) as (b & Hb & Hd & Hne & Ht).
      exists b. split; [exact Hb|]. split; [rewrite <- Hn; exact Hd|]. split; [exact Hne|].
      rewrite Ht. split; intros; [discriminate|lia]. }
    destruct (m mod 8 =? 0) eqn:Emod.
    + apply Z.eqb_eq in Emod.
      destruct (nbytes_mod0 m Hm1 Emod) as [Hnb1 Hnb2]. fold nb in Hnb1, Hnb2.
      apply Hgoal; lia.
    + apply Z.eqb_neq in Emod.
      destruct (nbytes_modnz m Hm1 Emod) as [Hnb1 Hnb2]. fold nb in Hnb1, Hnb2.
      apply Hgoal; lia.
Qed.

Theorem bytes_to_int_total :
  forall b, b <> [] ->
    exists z, bytes_to_int b = Some z /\ - 2 ^ (8 * blen b - 1) <= z < 2 ^ (8 * blen b - 1)
              /\ z mod 2 ^ (8 * blen b) = be_to_Z b.
Proof.
  intros b Hb.
  pose proof (blen_pos b Hb) as Hl.
  pose proof (be_to_Z_range2 b) as Hr.
  pose proof (pow2_double (8 * blen b) ltac:(lia)) as HD.
  rewrite bytes_to_int_spec by exact Hb.
  eexists. split; [reflexivity|].
  set (v := be_to_Z b) in *.
  set (P := 2 ^ (8 * blen b - 1)) in *.
  set (Q := 2 ^ (8 * blen b)) in *.
  destruct (v <? P) eqn:E.
  - apply Z.ltb_lt in E. split; [lia|]. apply Z.mod_small. lia.
  - apply Z.ltb_ge in E. split; [lia|].
    replace (v - Q) with (v + (-1) * Q) by ring.
    rewrite Z.mod_add by lia. apply Z.mod_small. lia.
Qed.

Theorem bytes_to_int_empty : bytes_to_int [] = None.
Proof. reflexivity. Qed.

Theorem fl2_exact_ok : fl2_ok fl2_exact.
Proof. intros a Ha. unfold fl2_exact. lia. Qed.

(* the encoding is a minimal-or-one-longer two's complement string: decoding is injective on equal lengths *)
Theorem bytes_to_int_inj :
  forall a b, List.length a = List.length b -> bytes_to_int a = bytes_to_int b -> a <> [] -> a = b.
Proof.
  intros a b Hlen Heq Ha.
  assert (Hb : b <> []) by (intros ->; destruct a; [congruence|discriminate]).
  assert (Hbl : blen a = blen b) by (unfold blen; now rewrite Hlen).
  destruct (bytes_to_int_total a Ha) as (za & Ea & _ & Ma).
  destruct (bytes_to_int_total b Hb) as (zb & Eb & _ & Mb).
  rewrite Ea, Eb in Heq. injection Heq as Heq. subst zb.
  apply be_to_Z_inj; [exact Hlen|].
  rewrite <- Ma, <- Mb, Hbl. reflexivity.
Qed.

Print Assumptions int_roundtrip.
Print Assumptions bytes_to_int_total.
Print Assumptions bytes_to_int_inj.
