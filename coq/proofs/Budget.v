(* C07 (budget part): the result does not depend on the fuel once it suffices; what is true of the
   per-tape call counter (it is NOT monotone, but no activation ever lowers a counter below the
   value its own tape had when it started); CALL / EVAL sub-activations start within the call
   budget; OP_LOOP runs its body at most callstack_limit times. *)
From Coq Require Import ZArith List Bool Lia.
From Coq.Strings Require Import Byte String.
From TS Require Import Bytes Codec State Prog Ops Interp StateLemmas Closure Pointer InterpLemmas Discipline.
Import ListNotations.
Local Open Scope nat_scope.

(* ------------------------------------------------------------------------------------------ *)
(* 1. Fuel monotonicity                                                                       *)
(* ------------------------------------------------------------------------------------------ *)

(* [run'] extends [run]: wherever [run] produces a result, [run'] produces the same one *)
Definition run_ext (run run' : nat -> state -> outcome unit) : Prop :=
  forall t s, run t s <> OutOfFuel -> run' t s = run t s.

Section FuelMono.
Variable orc : oracle.
Variable cfg : config.

Lemma step_ext run run' (H : run_ext run run') X (a : action X) fr st :
  step orc cfg run a fr st <> SFuel -> step orc cfg run' a fr st = step orc cfg run a fr st.
Proof.
  destruct a; simpl; try reflexivity.
  - (* ACallDef *)
    intro Hn. unfold after_run in *.
    match goal with |- context [run' ?t ?s] => pose proof (H t s) as E; destruct (run t s) eqn:Er end;
      try (rewrite E by discriminate; reflexivity). exfalso. apply Hn. reflexivity.
  - (* ARunSub *)
    intro Hn. unfold after_run in *.
    match goal with |- context [run' ?t ?s] => pose proof (H t s) as E; destruct (run t s) eqn:Er end;
      try (rewrite E by discriminate; reflexivity). exfalso. apply Hn. reflexivity.
  - (* ATrySub *)
    intro Hn.
    match goal with |- context [run' ?t ?s] => pose proof (H t s) as E; destruct (run t s) eqn:Er end;
      try (rewrite E by discriminate; reflexivity). exfalso. apply Hn. reflexivity.
  - (* ARunLoop *)
    intro Hn. unfold after_run in *.
    match goal with |- context [run' ?t ?s] => pose proof (H t s) as E; destruct (run t s) eqn:Er end;
      try (rewrite E by discriminate; reflexivity). exfalso. apply Hn. reflexivity.
Qed.

Lemma interp_ext run run' (H : run_ext run run') A (p : prog A) : forall fr st,
  interp orc cfg run p fr st <> OutOfFuel -> interp orc cfg run' p fr st = interp orc cfg run p fr st.
Proof.
  induction p as [a|e|w|X a k IH]; intros fr st Hn; cbn [interp] in *; try reflexivity.
  assert (Hs : step orc cfg run a fr st <> SFuel).
  { intro E. rewrite E in Hn. apply Hn. reflexivity. }
  rewrite (step_ext run run' H X a fr st Hs).
  destruct (step orc cfg run a fr st) as [x fr' st'|e fr' st'| |w]; try reflexivity.
  apply IH. exact Hn.
Qed.

(* the runner that run_tape hands to its instructions *)
Definition rt (f : nat) : nat -> state -> outcome unit := fun t s => run_tape orc cfg f t 0 s.

Lemma run_tape_eq f tid ptr st :
  run_tape orc cfg (S f) tid ptr st =
    if List.length (to_data (nth_tape st tid)) <=? ptr then Done tt {| fr_tid := tid; fr_ptr := ptr |} st
    else match interp orc cfg (rt f) (dispatch (code_at st tid ptr)) {| fr_tid := tid; fr_ptr := S ptr |} st with
         | Done _ fr' st' => run_tape orc cfg f tid (fr_ptr fr') st'
         | Raised e fr' st' => Raised e fr' st'
         | OutOfFuel => OutOfFuel
         | Unmodelled w => Unmodelled w
         end.
Proof. reflexivity. Qed.

Lemma run_tape_S : forall f tid ptr st,
  run_tape orc cfg f tid ptr st <> OutOfFuel ->
  run_tape orc cfg (S f) tid ptr st = run_tape orc cfg f tid ptr st.
Proof.
  induction f as [|f IH]; intros tid ptr st Hn; [exfalso; apply Hn; reflexivity|].
  assert (Hext : run_ext (rt f) (rt (S f))) by (intros t s Ht; apply IH; exact Ht).
  rewrite (run_tape_eq (S f)). rewrite (run_tape_eq f) in Hn |- *.
  destruct (List.length (to_data (nth_tape st tid)) <=? ptr); [reflexivity|].
  set (code := code_at st tid ptr) in *.
  set (fr0 := {| fr_tid := tid; fr_ptr := S ptr |}) in *.
  assert (Hi : interp orc cfg (rt f) (dispatch code) fr0 st <> OutOfFuel).
  { intro E. rewrite E in Hn. apply Hn. reflexivity. }
  rewrite (interp_ext _ _ Hext unit (dispatch code) fr0 st Hi).
  destruct (interp orc cfg (rt f) (dispatch code) fr0 st) as [u fr' st'|e fr' st'| |w]; try reflexivity.
  apply IH. exact Hn.
Qed.

(* deliverable 1: more fuel never changes a result *)
Theorem run_tape_fuel_mono f tid ptr st r :
  run_tape orc cfg f tid ptr st = r -> r <> OutOfFuel ->
  forall k, run_tape orc cfg (f + k) tid ptr st = r.
Proof.
  intros E Hr k. induction k as [|k IH].
  - rewrite Nat.add_0_r. exact E.
  - rewrite Nat.add_succ_r. rewrite run_tape_S; [exact IH|]. rewrite IH. exact Hr.
Qed.

Corollary run_tape_fuel_le f f' tid ptr st :
  f <= f' -> run_tape orc cfg f tid ptr st <> OutOfFuel ->
  run_tape orc cfg f' tid ptr st = run_tape orc cfg f tid ptr st.
Proof.
  intros Hle Hn. replace f' with (f + (f' - f)) by lia.
  apply run_tape_fuel_mono; [reflexivity|exact Hn].
Qed.

Lemma rt_ext f f' : f <= f' -> run_ext (rt f) (rt f').
Proof. intros Hle t s Hn. apply run_tape_fuel_le; assumption. Qed.

Theorem interp_fuel_le f f' A (p : prog A) fr st :
  f <= f' -> interp orc cfg (rt f) p fr st <> OutOfFuel ->
  interp orc cfg (rt f') p fr st = interp orc cfg (rt f) p fr st.
Proof. intros Hle. apply interp_ext. apply rt_ext. exact Hle. Qed.

Lemma step_fuel_le f f' X (a : action X) fr st :
  f <= f' -> step orc cfg (rt f) a fr st <> SFuel ->
  step orc cfg (rt f') a fr st = step orc cfg (rt f) a fr st.
Proof. intros Hle. apply step_ext. apply rt_ext. exact Hle. Qed.

(* two sufficient fuels give the same result *)
Corollary run_tape_fuel_irrelevant f1 f2 tid ptr st :
  run_tape orc cfg f1 tid ptr st <> OutOfFuel -> run_tape orc cfg f2 tid ptr st <> OutOfFuel ->
  run_tape orc cfg f1 tid ptr st = run_tape orc cfg f2 tid ptr st.
Proof.
  intros H1 H2. destruct (Nat.le_ge_cases f1 f2) as [Hle|Hle].
  - symmetry. apply run_tape_fuel_le; assumption.
  - apply run_tape_fuel_le; assumption.
Qed.

Theorem run_script_fuel_mono f script vals r :
  run_script orc cfg f script vals = r -> r <> OutOfFuel ->
  forall k, run_script orc cfg (f + k) script vals = r.
Proof. unfold run_script. apply run_tape_fuel_mono. Qed.

Lemma auth_rest_fuel_le f f' : f <= f' -> forall scripts prev st,
  auth_rest orc cfg f scripts prev st <> AuthFuel ->
  auth_rest orc cfg f' scripts prev st = auth_rest orc cfg f scripts prev st.
Proof.
  intros Hle scripts. induction scripts as [|s rest IH]; intros prev st Hn; [reflexivity|].
  revert Hn. cbn [auth_rest]. cbv zeta.
  set (p := nth_tape st prev).
  destruct (new_tape st {| to_data := s; to_count := to_count p; to_defs := to_defs p |}) as [tid st1].
  set (st2 := with_cache st1 (cache_del (st_cache st1) returned_key)).
  intro Hn.
  assert (Hr : run_tape orc cfg f tid 0 st2 <> OutOfFuel).
  { intro E. rewrite E in Hn. apply Hn. reflexivity. }
  rewrite (run_tape_fuel_le f f' tid 0 st2 Hle Hr).
  destruct (run_tape orc cfg f tid 0 st2) as [u fr' st'|e fr' st'| |w]; try reflexivity.
  apply IH. exact Hn.
Qed.

Theorem run_auth_scripts_fuel_le f f' scripts vals :
  f <= f' -> run_auth_scripts orc cfg f scripts vals <> AuthFuel ->
  run_auth_scripts orc cfg f' scripts vals = run_auth_scripts orc cfg f scripts vals.
Proof.
  intros Hle. unfold run_auth_scripts. destruct scripts as [|s rest]; [reflexivity|].
  intro Hn.
  assert (Hr : run_script orc cfg f s vals <> OutOfFuel).
  { intro E. rewrite E in Hn. apply Hn. reflexivity. }
  unfold run_script in *. rewrite (run_tape_fuel_le f f' _ _ _ Hle Hr).
  destruct (run_tape orc cfg f 0 0 (init_state cfg s vals)) as [u fr' st'|e fr' st'| |w]; try reflexivity.
  apply auth_rest_fuel_le; assumption.
Qed.

End FuelMono.

(* ------------------------------------------------------------------------------------------ *)
(* 2. The call counter                                                                        *)
(* ------------------------------------------------------------------------------------------ *)

Definition count_of (st : state) (t : nat) : Z := to_count (nth_tape st t).

(* The "budget" judgement over programs (in the style of Discipline.disc).  For an activation of a
   tape of length [L] whose counter was at least [c] when it started:
     - the counter read by ACount is at least [c];
     - ACallDef happens only after ACountIncr (counter >= c + 1) and only if c < callstack_limit;
     - ARunSub SubEval happens only if c < callstack_limit;
     - the bodies given to ARunSub SubCopy / ATrySub are shorter than [L] (ARead results are);
     - ARunLoop runs only the loop tape made by ALoopNew in the same instruction. *)
Record bmode := { m_up : bool; m_loop : option nat }.
Definition base (m : bmode) : bmode := {| m_up := false; m_loop := m_loop m |}.

Section Judge.
Variable cfg : config.
Variable c : Z.
Variable L : nat.

Definition b_ok {X} (a : action X) (m : bmode) (Q : X -> bmode -> Prop) : Prop :=
  match a in action X return (X -> bmode -> Prop) -> Prop with
  | ARead _ => fun Q => forall x, List.length x < L -> Q x m
  | ACount => fun Q => forall x, (c <= x)%Z -> Q x m
  | ACountIncr => fun Q => Q tt {| m_up := true; m_loop := m_loop m |}
  | AConfig => fun Q => Q cfg m
  | ACallDef _ => fun Q => m_up m = true /\ (c < c_limit cfg)%Z /\ Q tt (base m)
  | ARunSub k d => fun Q =>
      match k with SubEval => (c < c_limit cfg)%Z | SubCopy => List.length d < L end /\ Q tt (base m)
  | ATrySub d => fun Q => List.length d < L /\ forall r, Q r (base m)
  | ALoopNew d => fun Q =>
      forall t, Q t (if List.length d <? L then {| m_up := m_up m; m_loop := Some t |} else m)
  | ARunLoop t => fun Q => m_loop m = Some t /\ Q tt (base m)
  | _ => fun Q => forall x, Q x m
  end Q.

Fixpoint bud {A} (p : prog A) (m : bmode) (post : A -> bmode -> Prop) : Prop :=
  match p with
  | Ret a => post a m
  | Raise _ => True
  | Unmod _ => True
  | Act a k => b_ok a m (fun x m' => bud (k x) m' post)
  end.

Lemma b_ok_mono X (a : action X) m (P Q : X -> bmode -> Prop) :
  (forall x m', P x m' -> Q x m') -> b_ok a m P -> b_ok a m Q.
Proof.
  intros H. destruct a; cbn [b_ok]; try (destruct k); intuition auto.
Qed.

Lemma bud_mono A (p : prog A) : forall m (P Q : A -> bmode -> Prop),
  (forall a m', P a m' -> Q a m') -> bud p m P -> bud p m Q.
Proof.
  induction p as [a|e|w|X a k IH]; intros m P Q HPQ H; cbn [bud] in *; auto.
  eapply b_ok_mono; [|exact H]. cbv beta. intros x m' Hx. eapply IH; eauto.
Qed.

Lemma bud_bind A B (p : prog A) (f : A -> prog B) :
  forall m (Q1 : A -> bmode -> Prop) (Q2 : B -> bmode -> Prop),
  bud p m Q1 -> (forall a m', Q1 a m' -> bud (f a) m' Q2) -> bud (bind p f) m Q2.
Proof.
  induction p as [a|e|w|X a k IH]; intros m Q1 Q2 H Hf; cbn [bud bind] in *; auto.
  eapply b_ok_mono; [|exact H]. cbv beta. intros x m' Hx. eapply IH; eauto.
Qed.

(* programs without control actions satisfy the judgement from every mode *)
Lemma simple_bud A (p : prog A) : simple p -> forall m, bud p m (fun _ _ => True).
Proof.
  induction p as [a|e|w|X a k IH]; intros Hs m; cbn [bud simple] in *; auto.
  destruct Hs as [Ha Hk].
  destruct a; cbn [b_ok simple_act] in *; try discriminate; intros; apply IH; apply Hk.
Qed.

End Judge.

(* ---- soundness of the judgement ---- *)

Lemma nth_tape_set_count_same st t v :
  t < List.length (st_tapes st) -> to_count (nth_tape (set_count st t v) t) = v.
Proof.
  intro H. unfold set_count, nth_tape. simpl. rewrite nth_list_set_same by exact H. reflexivity.
Qed.
Lemma nth_tape_set_count_other st t t' v : t <> t' -> nth_tape (set_count st t v) t' = nth_tape st t'.
Proof.
  intro H. unfold set_count, nth_tape. simpl. rewrite nth_list_set_other by exact H. reflexivity.
Qed.
Lemma set_count_length st t v : List.length (st_tapes (set_count st t v)) = List.length (st_tapes st).
Proof. unfold set_count. simpl. apply list_set_length. Qed.
Lemma set_count_data st t v t' : data_of (set_count st t v) t' = data_of st t'.
Proof.
  unfold data_of. destruct (Nat.eq_dec t t') as [->|Hne].
  - destruct (Nat.lt_ge_cases t' (List.length (st_tapes st))) as [Hlt|Hge].
    + unfold set_count, nth_tape. simpl. rewrite nth_list_set_same by exact Hlt. reflexivity.
    + unfold set_count, nth_tape. simpl.
      rewrite !nth_overflow; try reflexivity; rewrite ?list_set_length; lia.
  - rewrite nth_tape_set_count_other by exact Hne. reflexivity.
Qed.
Lemma nth_tape_app_old st st' l t :
  st_tapes st' = st_tapes st ++ l -> t < List.length (st_tapes st) -> nth_tape st' t = nth_tape st t.
Proof. intros E H. unfold nth_tape. rewrite E. apply app_nth1. exact H. Qed.
Lemma nth_tape_app_new st st' x :
  st_tapes st' = st_tapes st ++ [x] -> nth_tape st' (List.length (st_tapes st)) = x.
Proof. intros E. unfold nth_tape. rewrite E. rewrite app_nth2 by lia. rewrite Nat.sub_diag. reflexivity. Qed.

Section Sound.
Variable orc : oracle.
Variable cfg : config.
Variable c : Z.

(* what survives every activation whose tape counter started at [c] or above: the heap only grows,
   tape data never change, and a counter that is >= c stays >= c *)
Definition F_rel (st st' : state) : Prop :=
  R_heap st st' /\
  forall t, t < List.length (st_tapes st) -> (c <= count_of st t)%Z -> (c <= count_of st' t)%Z.

Lemma F_rel_refl s : F_rel s s.
Proof. split; [apply R_heap_refl|auto]. Qed.
Lemma F_rel_trans a b d : F_rel a b -> F_rel b d -> F_rel a d.
Proof.
  intros [H1 H2] [H3 H4]. split; [eapply R_heap_trans; eauto|].
  intros t Ht Hc. apply H4; [destruct H1; lia|]. apply H2; assumption.
Qed.
Lemma F_rel_tapes_eq st st' : st_tapes st' = st_tapes st -> F_rel st st'.
Proof.
  intro E. split; [apply R_heap_tapes_eq; exact E|]. unfold count_of, nth_tape. rewrite E. auto.
Qed.
Lemma F_rel_app st st' l : st_tapes st' = st_tapes st ++ l -> F_rel st st'.
Proof.
  intro E. split; [eapply R_heap_tapes_app; exact E|].
  intros t Ht Hc. unfold count_of. rewrite (nth_tape_app_old st st' l t E Ht). exact Hc.
Qed.
Lemma F_rel_set_count st t v : (c <= v)%Z -> F_rel st (set_count st t v).
Proof.
  intro Hv. split; [apply R_heap_set_count|].
  intros t' Ht' Hc. unfold count_of. destruct (Nat.eq_dec t t') as [->|Hne].
  - rewrite nth_tape_set_count_same by exact Ht'. exact Hv.
  - rewrite nth_tape_set_count_other by exact Hne. exact Hc.
Qed.

Definition F_out {A} (s : state) (o : outcome A) : Prop :=
  match o with Done _ _ s' | Raised _ _ s' => F_rel s s' | _ => True end.

(* what is assumed of the function that runs sub-tapes: a sub-tape started with a counter >= c
   (or on a tape id outside the heap, i.e. the empty default tape) respects F_rel *)
Definition floor_ok (run : nat -> state -> outcome unit) : Prop :=
  forall t s, (t < List.length (st_tapes s) -> (c <= count_of s t)%Z) -> F_out s (run t s).

Variable L : nat.
Variable tid : nat.

Definition btid (fr : frame) (st : state) : Prop :=
  fr_tid fr = tid /\ tid < List.length (st_tapes st) /\ List.length (data_of st tid) = L /\
  1 <= fr_ptr fr /\ fr_ptr fr <= L /\ (c <= count_of st tid)%Z.
Definition bloop (l : option nat) (st : state) : Prop :=
  forall t, l = Some t ->
    t < List.length (st_tapes st) /\ (c <= count_of st t)%Z /\ List.length (data_of st t) < L.
Definition bup (b : bool) (st : state) : Prop := b = true -> (c + 1 <= count_of st tid)%Z.

Definition bsem (m : bmode) (fr : frame) (st : state) : Prop :=
  btid fr st /\ bloop (m_loop m) st /\ bup (m_up m) st.

Lemma btid_F fr st st' : btid fr st -> F_rel st st' -> btid fr st'.
Proof.
  intros (H1 & H2 & H3 & H4 & H5 & H6) [[Hl Hd] Hc]. unfold btid.
  repeat split; auto; try lia. rewrite Hd by exact H2. exact H3.
Qed.
Lemma bloop_F l st st' : bloop l st -> F_rel st st' -> bloop l st'.
Proof.
  intros H [[Hl Hd] Hc] t Ht. destruct (H t Ht) as (H1 & H2 & H3).
  repeat split; [lia|auto|]. rewrite Hd by exact H1. exact H3.
Qed.
Lemma bsem_base m fr st st' : bsem m fr st -> F_rel st st' -> bsem (base m) fr st'.
Proof.
  intros (H1 & H2 & H3) HF. split; [eapply btid_F; eauto|]. split; [eapply bloop_F; eauto|].
  intro E. discriminate.
Qed.
Lemma bsem_tapes_eq m fr st st' : st_tapes st' = st_tapes st -> bsem m fr st -> bsem m fr st'.
Proof.
  intros E H. unfold bsem, btid, bloop, bup, count_of, data_of, nth_tape in *. rewrite E. exact H.
Qed.
Lemma bsem_app m fr st st' l : st_tapes st' = st_tapes st ++ l -> bsem m fr st -> bsem m fr st'.
Proof.
  intros E (H1 & H2 & H3). pose proof (F_rel_app st st' l E) as HF.
  split; [eapply btid_F; eauto|]. split; [eapply bloop_F; eauto|].
  intro Hu. unfold count_of. rewrite (nth_tape_app_old st st' l tid E); [apply H3; exact Hu|apply H1].
Qed.

Section Step.
Variable run : nat -> state -> outcome unit.
Hypothesis Hrun : floor_ok run.

Definition sound_sres {X} (Q : X -> bmode -> Prop) (st : state) (r : sres X) : Prop :=
  match r with
  | SOk x fr' st' => F_rel st st' /\ exists m', Q x m' /\ bsem m' fr' st'
  | SRaise _ _ st' => F_rel st st'
  | _ => True
  end.

Lemma keep X (Q : X -> bmode -> Prop) x m fr st st' :
  st_tapes st' = st_tapes st -> Q x m -> bsem m fr st ->
  F_rel st st' /\ exists m', Q x m' /\ bsem m' fr st'.
Proof.
  intros E HQ Hs. split; [apply F_rel_tapes_eq; exact E|]. exists m. split; [exact HQ|].
  eapply bsem_tapes_eq; eauto.
Qed.

Ltac sub_run st1 :=
  match goal with |- context [run ?t ?s] =>
    let Hr := fresh "Hr" in
    assert (Hr : F_out s (run t s)); [apply Hrun|destruct (run t s); simpl in Hr |- *; try exact I]
  end.

Lemma step_sound X (a : action X) m (Q : X -> bmode -> Prop) fr st :
  b_ok cfg c L a m Q -> bsem m fr st -> sound_sres Q st (step orc cfg run a fr st).
Proof.
  intros H Hs. pose proof Hs as (Ht & Hl & Hu). pose proof Ht as (T1 & T2 & T3 & T4 & T5 & T6).
  destruct a; cbn [b_ok] in H; simpl.
  - (* AGet *) destruct (st_stack st); simpl; [apply F_rel_refl|]. apply keep with (m := m); auto.
  - (* APut *)
    destruct (_ <? _); simpl; [apply F_rel_refl|]. destruct (_ <=? _); simpl; [apply F_rel_refl|].
    apply keep with (m := m); auto.
  - (* APeek *) destruct (st_stack st); simpl; [apply F_rel_refl|]. apply keep with (m := m); auto.
  - (* ADepth *) apply keep with (m := m); auto.
  - (* ASwapIdx *) destruct (_ && _); simpl; [|exact I]. apply keep with (m := m); auto.
  - (* ARead *)
    unfold cur. rewrite T1. fold (data_of st tid).
    destruct (_ <? _) eqn:E; simpl; [apply F_rel_refl|]. apply Nat.ltb_ge in E. rewrite T3 in E.
    split; [apply F_rel_refl|]. exists m. split.
    + apply H. rewrite firstn_length, skipn_length. rewrite T3. lia.
    + split; [|split; assumption]. unfold btid. simpl. repeat split; auto; lia.
  - (* ASetPtrEnd *)
    unfold cur. rewrite T1. fold (data_of st tid). rewrite T3.
    split; [apply F_rel_refl|]. exists m. split; [apply H|].
    split; [|split; assumption]. unfold btid. simpl. repeat split; auto; lia.
  - (* ACount *)
    apply keep with (m := m); auto. apply H. unfold cur. rewrite T1. exact T6.
  - (* ACountIncr *)
    unfold cur. rewrite T1. fold (count_of st tid).
    assert (HF : F_rel st (set_count st tid (count_of st tid + 1))) by (apply F_rel_set_count; lia).
    split; [exact HF|]. eexists. split; [exact H|].
    split; [eapply btid_F; eauto|]. split; [eapply bloop_F; eauto|].
    intros _. unfold count_of at 1. rewrite nth_tape_set_count_same by exact T2. lia.
  - (* ACacheGet *) apply keep with (m := m); auto.
  - (* ACacheSet *) apply keep with (m := m); auto.
  - (* AReturnedSet *) apply keep with (m := m); auto.
  - (* AReturnedClear *) apply keep with (m := m); auto.
  - (* AReturnedTest *) apply keep with (m := m); auto.
  - (* AConfig *) apply keep with (m := m); auto.
  - (* APrim *) apply keep with (m := m); auto.
  - (* ARandIdx *) apply keep with (m := m); auto.
  - (* ADefSet *)
    split; [eapply F_rel_app; simpl; reflexivity|]. exists m. split; [apply H|].
    eapply bsem_app; [|exact Hs]. simpl. reflexivity.
  - (* ADefGet *) apply keep with (m := m); auto.
  - (* ACallDef *)
    destruct H as (Hup & Hlim & HQ). specialize (Hu Hup).
    unfold cur. rewrite T1. fold (count_of st tid).
    assert (HF : F_rel st (set_count st tid0 (count_of st tid))) by (apply F_rel_set_count; lia).
    unfold after_run. sub_run st.
    + intro Hin. rewrite set_count_length in Hin. unfold count_of at 1.
      rewrite nth_tape_set_count_same by exact Hin. lia.
    + assert (HF' : F_rel st st0) by (eapply F_rel_trans; eauto).
      split; [exact HF'|]. exists (base m). split; [exact HQ|]. eapply bsem_base; eauto.
    + eapply F_rel_trans; eauto.
  - (* ARunSub *)
    destruct H as (Hk & HQ).
    unfold cur. rewrite T1. fold (count_of st tid).
    match goal with |- context [run ?t ?s] => set (st2 := s) end.
    assert (E2 : st_tapes st2 = st_tapes st ++
              [{| to_data := data;
                  to_count := match k with SubCopy => count_of st tid | SubEval => (count_of st tid + 1)%Z end;
                  to_defs := List.length (st_defs st) |}]) by reflexivity.
    assert (HF : F_rel st st2) by (eapply F_rel_app; exact E2).
    unfold after_run. sub_run st.
    + intros _. unfold count_of at 1. simpl List.length.
      rewrite (nth_tape_app_new st st2 _ E2). simpl. destruct k; lia.
    + assert (HF' : F_rel st st0) by (eapply F_rel_trans; eauto).
      split; [exact HF'|]. exists (base m). split; [exact HQ|]. eapply bsem_base; eauto.
    + eapply F_rel_trans; eauto.
  - (* ATrySub *)
    destruct H as (Hk & HQ).
    unfold cur. rewrite T1. fold (count_of st tid).
    match goal with |- context [run ?t ?s] => set (st2 := s) end.
    assert (E2 : st_tapes st2 = st_tapes st ++
              [{| to_data := data; to_count := count_of st tid;
                  to_defs := List.length (st_defs st) |}]) by reflexivity.
    assert (HF : F_rel st st2) by (eapply F_rel_app; exact E2).
    sub_run st.
    + intros _. unfold count_of at 1. simpl List.length.
      rewrite (nth_tape_app_new st st2 _ E2). simpl. lia.
    + assert (HF' : F_rel st st0) by (eapply F_rel_trans; eauto).
      split; [exact HF'|]. exists (base m). split; [apply HQ|]. eapply bsem_base; eauto.
    + assert (HF' : F_rel st st0) by (eapply F_rel_trans; eauto).
      split; [exact HF'|]. exists (base m). split; [apply HQ|]. eapply bsem_base; eauto.
  - (* ALoopNew *)
    unfold cur. rewrite T1.
    match goal with |- F_rel st ?s /\ _ => set (st1 := s) end.
    assert (E1 : st_tapes st1 = st_tapes st ++
              [{| to_data := data; to_count := to_count (nth_tape st tid);
                  to_defs := to_defs (nth_tape st tid) |}]) by reflexivity.
    split; [eapply F_rel_app; exact E1|]. eexists. split; [apply H|].
    pose proof (bsem_app m fr st st1 _ E1 Hs) as (B1 & B2 & B3).
    destruct (List.length data <? L) eqn:EL; [|split; [exact B1|split; [exact B2|exact B3]]].
    apply Nat.ltb_lt in EL. split; [exact B1|]. split; [|exact B3].
    intros t Et. simpl in Et. injection Et as <-.
    split; [rewrite E1, app_length; simpl; lia|].
    unfold count_of, data_of. rewrite (nth_tape_app_new st st1 _ E1). simpl.
    split; [exact T6|exact EL].
  - (* ARunLoop *)
    destruct H as (Hlp & HQ). destruct (Hl _ Hlp) as (L1 & L2 & L3).
    unfold after_run. sub_run st.
    + intros _. exact L2.
    + split; [exact Hr|]. exists (base m). split; [exact HQ|]. eapply bsem_base; eauto.
    + exact Hr.
  - (* ALog *) apply keep with (m := m); auto.
Qed.

Theorem bud_sound A (p : prog A) : forall m (post : A -> bmode -> Prop) fr st,
  bud cfg c L p m post -> bsem m fr st ->
  match interp orc cfg run p fr st with
  | Done a fr' st' => F_rel st st' /\ exists m', post a m' /\ bsem m' fr' st'
  | Raised _ _ st' => F_rel st st'
  | _ => True
  end.
Proof.
  induction p as [a|e|w|X a k IH]; intros m post fr st Hd Hs; cbn [bud interp] in *.
  - split; [apply F_rel_refl|]. exists m. split; assumption.
  - apply F_rel_refl.
  - exact I.
  - pose proof (step_sound X a m _ fr st Hd Hs) as Hstep.
    destruct (step orc cfg run a fr st) as [x fr' st'|e fr' st'| |w]; simpl in Hstep; try exact I;
      [|exact Hstep].
    destruct Hstep as (HF & m' & Hd' & Hs').
    specialize (IH x m' post fr' st' Hd' Hs').
    destruct (interp orc cfg run (k x) fr' st') as [a' fr'' st''|e fr'' st''| |w]; try exact I.
    + destruct IH as (HF' & IH). split; [eapply F_rel_trans; eauto|exact IH].
    + eapply F_rel_trans; eauto.
Qed.

End Step.
End Sound.

(* ---- every instruction satisfies the judgement ---- *)

Section Ops.
Variable cfg : config.
Variable c : Z.
Variable L : nat.

Notation budT p := (forall m, bud cfg c L p m (fun _ _ => True)).

Lemma bud_simple A (p : prog A) : simple p -> budT p.
Proof. intros H m. apply simple_bud. exact H. Qed.

(* a simple prefix, then anything that satisfies the judgement from every mode *)
Lemma bud_pre A B (p : prog A) (f : A -> prog B) :
  simple p -> (forall a, budT (f a)) -> budT (bind p f).
Proof.
  intros Hp Hf m. eapply bud_bind; [apply simple_bud; exact Hp|]. cbv beta. intros a m' _. apply Hf.
Qed.

Lemma bud_OP_RETURN : budT OP_RETURN.
Proof. intro m. cbn. auto. Qed.

Lemma bud_propagate_return : budT propagate_return.
Proof. intro m. cbn. intros [|]; cbn; auto. Qed.

Lemma bud_OP_CALL : budT OP_CALL.
Proof.
  intro m. unfold OP_CALL, config_, read, act. cbn [bind bud b_ok].
  intros x Hx. unfold sert. destruct (x <? c_limit cfg)%Z eqn:E; cbn [bind bud b_ok]; [|exact I].
  apply Z.ltb_lt in E. intros h Hh [t|]; cbn [bind bud b_ok]; [|exact I].
  split; [reflexivity|]. split; [lia|]. intros _. exact I.
Qed.

Lemma bud_OP_IF : budT OP_IF.
Proof.
  intro m. unfold OP_IF, read_u16, read, get, act. cbn [bind bud b_ok].
  intros n Hn d Hd x. destruct (bytes_to_bool x); cbn [bind bud b_ok]; [|exact I].
  split; [exact Hd|]. apply bud_propagate_return.
Qed.

Lemma bud_OP_IF_ELSE : budT OP_IF_ELSE.
Proof.
  intro m. unfold OP_IF_ELSE, read_u16, read, get, act. cbn [bind bud b_ok].
  intros n1 Hn1 d1 Hd1 n2 Hn2 d2 Hd2 x.
  split; [destruct (bytes_to_bool x); assumption|]. apply bud_propagate_return.
Qed.

Lemma bud_eval_body : budT eval_body.
Proof.
  intro m. unfold eval_body, config_, get, act. cbn [bind bud b_ok].
  unfold sert at 1. destruct (flag_get _ _); cbn [bind bud b_ok]; [exact I|].
  intros x Hx. unfold sert. destruct (x <? c_limit cfg)%Z eqn:E; cbn [bind bud b_ok]; [|exact I].
  apply Z.ltb_lt in E. intros script. unfold vert.
  destruct (0 <? blen script)%Z; cbn [bind bud b_ok]; [|exact I].
  split; [lia|]. intros [|]; [|exact I].
  destruct (flag_on _ _); [apply bud_OP_RETURN|cbn; auto].
Qed.

Lemma bud_OP_TRY_EXCEPT : budT OP_TRY_EXCEPT.
Proof.
  intro m. unfold OP_TRY_EXCEPT, read_u16, read, act. cbn [bind bud b_ok].
  intros n1 Hn1 d1 Hd1 n2 Hn2 d2 Hd2. split; [exact Hd1|].
  intros [e|]; cbn [bind bud b_ok cache_items act].
  - intros _. split; [exact Hd2|]. apply bud_propagate_return.
  - apply bud_propagate_return.
Qed.

Lemma bud_loop_go n : forall i limit t cond m,
  m_loop m = Some t -> bud cfg c L (loop_go n i limit t cond) m (fun _ _ => True).
Proof.
  induction n as [|n IH]; intros i limit t cond m Hm; cbn [loop_go];
    (destruct (bytes_to_bool cond); [|exact I]); unfold sert;
    (destruct (i <? limit)%Z; cbn [bind bud b_ok]; [|exact I]).
  - exact I.
  - unfold act. cbn [bind bud b_ok]. split; [exact Hm|].
    intros [|]; cbn [bind bud b_ok]; [auto|]. intros cnd. apply IH. exact Hm.
Qed.

Lemma bud_OP_LOOP : budT OP_LOOP.
Proof.
  intro m. unfold OP_LOOP, read_u16, read, config_, act. cbn [bind bud b_ok].
  intros n Hn d Hd x t. apply Nat.ltb_lt in Hd. rewrite Hd. apply bud_loop_go. reflexivity.
Qed.

Lemma bud_OP_MERKLEVAL : budT OP_MERKLEVAL.
Proof.
  unfold OP_MERKLEVAL. do 10 (apply bud_pre; [solve [simp]|intro]). apply bud_eval_body.
Qed.

Lemma bud_OP_TAPROOT : budT OP_TAPROOT.
Proof.
  unfold OP_TAPROOT. do 4 (apply bud_pre; [solve [simp]|intro]).
  destruct (_ =? _)%Z.
  - do 7 (apply bud_pre; [solve [simp]|intro]). destruct (bytes_eqb _ _).
    + apply bud_pre; [solve [simp]|intro]. apply bud_eval_body.
    + apply bud_simple. simp.
  - apply bud_simple. simp.
Qed.

Theorem op_prog_bud (o : opcode) : budT (op_prog o).
Proof.
  destruct o; cbn [op_prog];
    first
      [ apply bud_OP_RETURN
      | apply bud_OP_CALL
      | apply bud_OP_IF
      | apply bud_OP_IF_ELSE
      | apply bud_eval_body
      | apply bud_OP_MERKLEVAL
      | apply bud_OP_TRY_EXCEPT
      | apply bud_OP_LOOP
      | apply bud_OP_TAPROOT
      | apply bud_simple; solve [simp] ].
Qed.

Theorem dispatch_bud (code : nat) : budT (dispatch code).
Proof.
  unfold dispatch. destruct (opcode_of_nat code) as [o|].
  - apply op_prog_bud.
  - apply bud_simple. exact simple_NOP.
Qed.

End Ops.

(* ---- the counter floor of an activation ---- *)

Definition mode0 : bmode := {| m_up := false; m_loop := None |}.

Section Floor.
Variable orc : oracle.
Variable cfg : config.

Lemma nth_tape_outside st t : List.length (st_tapes st) <= t -> to_data (nth_tape st t) = [].
Proof. intro H. unfold nth_tape. rewrite nth_overflow by exact H. reflexivity. Qed.

Lemma bsem_start c tid ptr st :
  tid < List.length (st_tapes st) -> ptr < List.length (data_of st tid) -> (c <= count_of st tid)%Z ->
  bsem c (List.length (data_of st tid)) tid mode0 {| fr_tid := tid; fr_ptr := S ptr |} st.
Proof.
  intros H1 H2 H3. split; [|split].
  - unfold btid. simpl. repeat split; auto; lia.
  - intros t E. discriminate.
  - intro E. discriminate.
Qed.

(* deliverable 2a (what IS preserved): an activation whose tape counter is >= c when it starts
   never lowers below c any counter that was >= c -- in the final state and in a raising state *)
Theorem run_tape_floor : forall fuel c tid ptr st,
  (tid < List.length (st_tapes st) -> (c <= count_of st tid)%Z) ->
  F_out c st (run_tape orc cfg fuel tid ptr st).
Proof.
  induction fuel as [|f IH]; intros c tid ptr st Hc; [exact I|].
  rewrite run_tape_eq.
  destruct (List.length (to_data (nth_tape st tid)) <=? ptr) eqn:E; [apply F_rel_refl|].
  apply Nat.leb_gt in E.
  assert (Hin : tid < List.length (st_tapes st)).
  { destruct (Nat.lt_ge_cases tid (List.length (st_tapes st))) as [Hlt|Hge]; [exact Hlt|].
    rewrite nth_tape_outside in E by exact Hge. simpl in E. lia. }
  specialize (Hc Hin).
  assert (Hrun : floor_ok c (rt orc cfg f)) by (intros t s Hs; apply IH; exact Hs).
  pose proof (bud_sound orc cfg c (List.length (data_of st tid)) tid (rt orc cfg f) Hrun unit
                (dispatch (code_at st tid ptr)) mode0 _ {| fr_tid := tid; fr_ptr := S ptr |} st
                (dispatch_bud cfg c _ _ mode0) (bsem_start c tid ptr st Hin E Hc)) as Hi.
  destruct (interp orc cfg (rt orc cfg f) _ _ st) as [u fr' st'|e fr' st'| |w]; try exact I; [|exact Hi].
  destruct Hi as (HF & m' & _ & (Ht & _)).
  pose proof (IH c tid (fr_ptr fr') st' (fun _ => proj2 (proj2 (proj2 (proj2 (proj2 Ht)))))) as H2.
  destruct (run_tape orc cfg f tid (fr_ptr fr') st') as [u' fr'' st''|e fr'' st''| |w]; simpl in *;
    try exact I; eapply F_rel_trans; eauto.
Qed.

(* in particular the counter of the activation's own tape never ends below its starting value *)
Corollary run_tape_own_count fuel tid ptr st :
  tid < List.length (st_tapes st) ->
  match run_tape orc cfg fuel tid ptr st with
  | Done _ _ st' | Raised _ _ st' => (count_of st tid <= count_of st' tid)%Z
  | _ => True
  end.
Proof.
  intro Hin.
  pose proof (run_tape_floor fuel (count_of st tid) tid ptr st (fun _ => Z.le_refl _)) as H.
  destruct (run_tape orc cfg fuel tid ptr st); simpl in H; try exact I; apply H; auto; lia.
Qed.

(* every instruction, run by an activation that started at counter >= c, respects the floor c *)
Corollary instruction_floor f c tid ptr st :
  tid < List.length (st_tapes st) -> ptr < List.length (data_of st tid) -> (c <= count_of st tid)%Z ->
  F_out c st (interp orc cfg (rt orc cfg f) (dispatch (code_at st tid ptr))
                     {| fr_tid := tid; fr_ptr := S ptr |} st).
Proof.
  intros Hin E Hc.
  assert (Hrun : floor_ok c (rt orc cfg f)) by (intros t s Hs; apply run_tape_floor; exact Hs).
  pose proof (bud_sound orc cfg c (List.length (data_of st tid)) tid (rt orc cfg f) Hrun unit
                (dispatch (code_at st tid ptr)) mode0 _ {| fr_tid := tid; fr_ptr := S ptr |} st
                (dispatch_bud cfg c _ _ mode0) (bsem_start c tid ptr st Hin E Hc)) as Hi.
  destruct (interp orc cfg (rt orc cfg f) _ _ st); simpl; try exact I; [apply Hi|exact Hi].
Qed.

Corollary run_script_count fuel script vals :
  match run_script orc cfg fuel script vals with
  | Done _ _ st' | Raised _ _ st' => (0 <= count_of st' 0)%Z
  | _ => True
  end.
Proof.
  pose proof (run_tape_own_count fuel 0 0 (init_state cfg script vals)) as H.
  unfold run_script. destruct (run_tape orc cfg fuel 0 0 _); try exact I; apply H; simpl; lia.
Qed.

End Floor.

(* ---- plain monotonicity of the counters is FALSE ---- *)

(* ACallDef overwrites the callee's counter with the caller's.  A definition that was called from a
   deeper nesting keeps the deeper counter after it returns; a later call from a shallower
   activation LOWERS it.  (Witness: tape 2, the definition 1, goes from 2 to 1.) *)
Definition cex_orc : oracle := fun _ _ => OErr OtherError.
Definition cex_cfg : config :=
  {| c_max_items := 1024; c_max_item_size := 1024; c_limit := 64; c_flags := []; c_sigext := [];
     c_ctplugins := []; c_contracts := []; c_now := 0 |}.
Definition cex_script : bytes :=
  [x29; x00; x00; x02; x2a; x01;      (* DEF 0 { CALL 1 } *)
   x29; x01; x00; x00;                (* DEF 1 { } *)
   x01;                               (* TRUE *)
   x2b; x00; x02; x2a; x00;           (* IF { CALL 0 } *)
   x30;                               (* RETURN: the script stops here ... *)
   x2a; x01].                         (* CALL 1: ... and is resumed here below *)
Definition cex_mid : state :=
  match run_script cex_orc cex_cfg 10 cex_script [] with
  | Done _ _ st => st
  | _ => init_state cex_cfg [] []
  end.

Example count_not_monotone :
  map to_count (st_tapes cex_mid) = [0; 2; 2; 1]%Z /\
  exists fr st',
    run_tape cex_orc cex_cfg 10 0 17 cex_mid = Done tt fr st' /\
    map to_count (st_tapes st') = [1; 2; 1; 1]%Z /\
    (count_of st' 2 < count_of cex_mid 2)%Z.
Proof.
  split; [vm_compute; reflexivity|].
  destruct (run_tape cex_orc cex_cfg 10 0 17 cex_mid) as [u fr st'| | |] eqn:E;
    try (vm_compute in E; discriminate).
  exists fr, st'. destruct u. split; [reflexivity|].
  vm_compute in E. injection E as <- <-. vm_compute. repeat split; reflexivity.
Qed.

(* ------------------------------------------------------------------------------------------ *)
(* 2b. CALL and EVAL sub-activations start within the call budget                             *)
(* ------------------------------------------------------------------------------------------ *)

Section CallBounded.
Variable orc : oracle.
Variable cfg : config.

(* a runner that refuses to start a heap tape whose counter exceeds callstack_limit *)
Definition within_budget (run : nat -> state -> outcome unit) : nat -> state -> outcome unit :=
  fun t s =>
    if (t <? List.length (st_tapes s)) && (c_limit cfg <? count_of s t)%Z
    then Unmodelled "sub-tape started over the call budget"
    else run t s.

(* OP_CALL: the counter it reads is < callstack_limit or it raises before doing anything; the
   definition it calls starts with counter = that value + 1 <= callstack_limit *)
Theorem OP_CALL_bounded run fr st :
  fr_tid fr < List.length (st_tapes st) ->
  interp orc cfg run OP_CALL fr st = interp orc cfg (within_budget run) OP_CALL fr st.
Proof.
  intro Hin. unfold OP_CALL, config_, read, act, sert. cbn [bind interp step].
  destruct (to_count (cur fr st) <? c_limit cfg)%Z eqn:E; cbn [bind interp step]; [|reflexivity].
  apply Z.ltb_lt in E.
  destruct (_ <? _); cbn [bind interp step]; [reflexivity|].
  destruct (defs_get _ _) as [t|]; cbn [bind interp step]; [|reflexivity].
  unfold within_budget at 1.
  match goal with |- context [run t ?s] => set (s1 := s) end.
  replace ((t <? List.length (st_tapes s1)) && (c_limit cfg <? count_of s1 t)%Z) with false; [reflexivity|].
  symmetry. apply andb_false_iff.
  destruct (t <? List.length (st_tapes s1)) eqn:Et; [right|left; reflexivity].
  apply Nat.ltb_lt in Et. apply Z.ltb_ge.
  unfold s1 in *. rewrite set_count_length in Et. unfold count_of.
  rewrite nth_tape_set_count_same by exact Et.
  unfold cur. simpl fr_tid. rewrite nth_tape_set_count_same by exact Hin. unfold cur in E. lia.
Qed.

Theorem OP_CALL_over_budget run fr st :
  (c_limit cfg <= to_count (cur fr st))%Z ->
  interp orc cfg run OP_CALL fr st = Raised ScriptExecutionError fr st.
Proof.
  intro H. unfold OP_CALL, config_, read, act, sert. cbn [bind interp step].
  apply Z.ltb_ge in H. rewrite H. reflexivity.
Qed.

(* EVAL (also inside MERKLEVAL and TAPROOT) *)
Theorem eval_body_bounded run fr st :
  interp orc cfg run eval_body fr st = interp orc cfg (within_budget run) eval_body fr st.
Proof.
  unfold eval_body, config_, get, act. cbn [bind interp step].
  unfold sert at 1 3. destruct (flag_get _ _); cbn [bind interp step]; [reflexivity|].
  unfold sert. destruct (to_count (cur fr st) <? c_limit cfg)%Z eqn:E; cbn [bind interp step]; [|reflexivity].
  apply Z.ltb_lt in E.
  destruct (st_stack st) as [|script s]; cbn [bind interp step]; [reflexivity|].
  unfold vert. destruct (0 <? blen script)%Z; cbn [bind interp step]; [|reflexivity].
  unfold new_tape.
  unfold within_budget at 1.
  match goal with |- context [run ?t ?s] => set (s1 := s); set (t1 := t) end.
  replace ((t1 <? List.length (st_tapes s1)) && (c_limit cfg <? count_of s1 t1)%Z) with false.
  { unfold after_run. destruct (run t1 s1) as [u fr' st'|e fr' st'| |w]; try reflexivity.
    destruct (cache_get (st_cache st') returned_key); [destruct (flag_on _ _)|]; reflexivity. }
  symmetry. apply andb_false_iff. right. apply Z.ltb_ge.
  unfold count_of, nth_tape, s1, t1. simpl. rewrite app_nth2 by lia. rewrite Nat.sub_diag. simpl.
  change (cur fr (with_stack st s)) with (cur fr st). lia.
Qed.

Theorem eval_body_over_budget run fr st :
  (c_limit cfg <= to_count (cur fr st))%Z ->
  match interp orc cfg run eval_body fr st with
  | Raised e fr' st' => e = ScriptExecutionError /\ fr' = fr /\ st' = st
  | _ => False
  end.
Proof.
  intro H. unfold eval_body, config_, get, act. cbn [bind interp step].
  unfold sert at 1. destruct (flag_get _ _); cbn [bind interp step]; [auto|].
  unfold sert. apply Z.ltb_ge in H. rewrite H. cbn. auto.
Qed.

End CallBounded.

(* ------------------------------------------------------------------------------------------ *)
(* 3. OP_LOOP runs its body at most callstack_limit times                                     *)
(* ------------------------------------------------------------------------------------------ *)

Section LoopBounded.
Variable orc : oracle.
Variable cfg : config.
Variable run : nat -> state -> outcome unit.

Definition is_run_loop {X} (a : action X) : nat := match a with ARunLoop _ => 1 | _ => 0 end.

(* the number of ARunLoop actions executed by [interp run p fr st] (counting semantics: the same
   recursion as [interp], adding one for each ARunLoop met on the executed path) *)
Fixpoint run_loops {A} (p : prog A) (fr : frame) (st : state) : nat :=
  match p with
  | Act a k =>
    is_run_loop a +
    match step orc cfg run a fr st with
    | SOk x fr' st' => run_loops (k x) fr' st'
    | _ => 0
    end
  | _ => 0
  end.

Lemma run_loops_bind A B (p : prog A) (f : A -> prog B) : forall fr st,
  run_loops (bind p f) fr st =
  run_loops p fr st +
  match interp orc cfg run p fr st with
  | Done a fr' st' => run_loops (f a) fr' st'
  | _ => 0
  end.
Proof.
  induction p as [a|e|w|X a k IH]; intros fr st; cbn [bind run_loops interp]; try reflexivity.
  destruct (step orc cfg run a fr st) as [x fr' st'|e fr' st'| |w]; try lia.
  rewrite IH. lia.
Qed.

Theorem loop_go_bounded n : forall i limit tid cond fr st,
  run_loops (loop_go n i limit tid cond) fr st <= Z.to_nat (limit - i).
Proof.
  induction n as [|n IH]; intros i limit tid cond fr st; cbn [loop_go];
    (destruct (bytes_to_bool cond); [|simpl; lia]); unfold sert;
    (destruct (i <? limit)%Z eqn:E; cbn [bind run_loops]; [|lia]).
  - lia.
  - apply Z.ltb_lt in E. unfold act. cbn [bind run_loops is_run_loop].
    destruct (step orc cfg run (ARunLoop tid) fr st) as [x fr' st'|e fr' st'| |w]; try lia.
    cbn [step].
    destruct (match cache_get (st_cache st') returned_key with Some _ => true | None => false end);
      cbn [bind run_loops is_run_loop step]; [lia|].
    destruct (st_stack st') as [|top s]; [lia|].
    specialize (IH (i + 1)%Z limit tid top fr' st'). cbn [is_run_loop]. lia.
Qed.

(* with a false condition, or the bound already reached, the body is not run at all *)
Theorem loop_go_stops n i limit tid cond fr st :
  bytes_to_bool cond = false \/ (limit <= i)%Z ->
  run_loops (loop_go n i limit tid cond) fr st = 0 /\
  interp orc cfg run (loop_go n i limit tid cond) fr st =
    if bytes_to_bool cond then Raised ScriptExecutionError fr st else Done tt fr st.
Proof.
  intros H. destruct n; cbn [loop_go]; destruct (bytes_to_bool cond); try (split; reflexivity);
    (destruct H as [H|H]; [discriminate|]); apply Z.ltb_ge in H; unfold sert; rewrite H; split; reflexivity.
Qed.

(* the program bound [nat_of limit + 1] handed to loop_go by OP_LOOP is never exhausted:
   "Unmod loop bound" is unreachable *)
Theorem loop_go_bound_suffices n : forall i limit tid cond fr st,
  Z.to_nat (limit - i) < n ->
  (forall t s, run t s <> Unmodelled "loop bound") ->
  interp orc cfg run (loop_go n i limit tid cond) fr st <> Unmodelled "loop bound".
Proof.
  induction n as [|n IH]; intros i limit tid cond fr st Hn Hrun; [lia|].
  cbn [loop_go]. destruct (bytes_to_bool cond); [|discriminate]. unfold sert.
  destruct (i <? limit)%Z eqn:E; cbn [bind interp]; [|discriminate].
  apply Z.ltb_lt in E. unfold act. cbn [bind interp step]. unfold after_run.
  pose proof (Hrun tid st) as Hr.
  destruct (run tid st) as [u fr' st'|e fr' st'| |w]; try discriminate.
  - cbn [interp step].
    destruct (match cache_get (st_cache st') returned_key with Some _ => true | None => false end);
      cbn [bind interp step]; [discriminate|].
    destruct (st_stack st') as [|top s]; [discriminate|].
    apply IH; [lia|exact Hrun].
  - intro E'. apply Hr. injection E' as ->. reflexivity.
Qed.

(* deliverable 3 *)
Theorem loop_bounded fr st : run_loops OP_LOOP fr st <= Z.to_nat (c_limit cfg).
Proof.
  unfold OP_LOOP, read_u16, read, config_, act. cbn [bind run_loops is_run_loop step].
  destruct (_ <? _); [lia|]. cbn [bind run_loops is_run_loop step].
  destruct (_ <? _); [lia|]. cbn [bind run_loops is_run_loop step].
  destruct (st_stack st); [lia|]. cbn [bind run_loops is_run_loop step new_tape].
  match goal with |- context [loop_go ?n ?i ?l ?t ?cnd] =>
    match goal with |- context [run_loops (loop_go n i l t cnd) ?f ?s] =>
      pose proof (loop_go_bounded n i l t cnd f s) as H end end.
  rewrite Z.sub_0_r in H. lia.
Qed.

End LoopBounded.

(* ------------------------------------------------------------------------------------------ *)
(* 2c. No counter ever exceeds max 0 callstack_limit                                          *)
(* ------------------------------------------------------------------------------------------ *)

(* programs that neither touch the flag 'returned', nor run a sub-tape, nor increment the counter
   (Discipline.simple minus ACountIncr; same lemmas, same tactic) *)
Definition plain_act {X} (a : action X) : bool :=
  match a with ACountIncr => false | _ => simple_act a end.

Fixpoint plain {A} (p : prog A) : Prop :=
  match p with
  | Act a k => plain_act a = true /\ forall x, plain (k x)
  | _ => True
  end.

Lemma plain_bind A B (p : prog A) (f : A -> prog B) :
  plain p -> (forall a, plain (f a)) -> plain (bind p f).
Proof.
  intros Hp Hf. induction p as [a|e|w|X a k IH]; cbn [bind plain] in *; auto.
  destruct Hp as [Ha Hk]. split; [exact Ha|]. intro x. apply IH. apply Hk.
Qed.

Lemma plain_Act A X (a : action X) (k : X -> prog A) :
  plain_act a = true -> (forall x, plain (k x)) -> plain (Act a k).
Proof. intros; split; assumption. Qed.

Lemma plain_act_intro X (a : action X) : plain_act a = true -> plain (act a).
Proof. intro H. split; [exact H|]. intro x. exact I. Qed.

Create HintDb plain_db.

Ltac plmp1 :=
  cbv beta zeta;
  lazymatch goal with
  | |- plain (bind _ _) => apply plain_bind; [|intro]
  | |- plain (Ret _) => exact I
  | |- plain (Raise _) => exact I
  | |- plain (Unmod _) => exact I
  | |- plain (Act _ _) => apply plain_Act; [reflexivity|intro]
  | |- plain (act _) => apply plain_act_intro; reflexivity
  | |- plain (if ?b then _ else _) => destruct b
  | |- plain (match ?x with _ => _ end) => destruct x
  | |- plain ?p => first [ solve [auto with plain_db nocore] | let h := head p in unfold h ]
  end.
Ltac plmp := repeat plmp1.

(* helpers of Prog.v *)
Lemma plain_sert c : plain (sert c).            Proof. plmp. Qed.
Lemma plain_vert c : plain (vert c).            Proof. plmp. Qed.
Lemma plain_tert c : plain (tert c).            Proof. plmp. Qed.
Lemma plain_get : plain get.                    Proof. plmp. Qed.
Lemma plain_put b : plain (put b).              Proof. plmp. Qed.
Lemma plain_read n : plain (read n).            Proof. plmp. Qed.
Lemma plain_read_u8 : plain read_u8.            Proof. plmp. Qed.
Lemma plain_read_u16 : plain read_u16.          Proof. plmp. Qed.
Lemma plain_config : plain config_.             Proof. plmp. Qed.
Lemma plain_prim_list p l : plain (prim_list p l). Proof. plmp. Qed.
#[export] Hint Resolve plain_sert plain_vert plain_tert plain_get plain_put plain_read
  plain_read_u8 plain_read_u16 plain_config plain_prim_list : plain_db.
Lemma plain_prim1 p l : plain (prim1 p l).      Proof. plmp. Qed.
#[export] Hint Resolve plain_prim1 : plain_db.
Lemma plain_prim_bool p l : plain (prim_bool p l). Proof. plmp. Qed.
#[export] Hint Resolve plain_prim_bool : plain_db.

Lemma plain_repeat_get n : plain (repeat_get n).
Proof. induction n; cbn [repeat_get]; plmp. Qed.
Lemma plain_put_all l : plain (put_all l).
Proof. induction l; cbn [put_all]; plmp. Qed.
#[export] Hint Resolve plain_repeat_get plain_put_all : plain_db.

(* helpers of Ops.v *)
Lemma plain_fl2 a : plain (fl2_prog a).         Proof. plmp. Qed.
#[export] Hint Resolve plain_fl2 : plain_db.
Lemma plain_i2b n : plain (i2b n).              Proof. plmp. Qed.
Lemma plain_b2i b : plain (b2i b).              Proof. plmp. Qed.
#[export] Hint Resolve plain_i2b plain_b2i : plain_db.
Lemma plain_get_int : plain get_int.            Proof. plmp. Qed.
Lemma plain_repeat_get_z n : plain (repeat_get_z n). Proof. plmp. Qed.
Lemma plain_put_bool b : plain (put_bool b).    Proof. plmp. Qed.
Lemma plain_cache_raw k v : plain (cache_raw k v). Proof. plmp. Qed.
Lemma plain_cache_items k l : plain (cache_items k l). Proof. plmp. Qed.
#[export] Hint Resolve plain_get_int plain_repeat_get_z plain_put_bool plain_cache_raw
  plain_cache_items : plain_db.

Lemma plain_log_sigext l : plain (log_sigext l).
Proof. induction l; cbn [log_sigext]; plmp. Qed.
#[export] Hint Resolve plain_log_sigext : plain_db.
Lemma plain_run_sig_ext : plain run_sig_ext.    Proof. plmp. Qed.
#[export] Hint Resolve plain_run_sig_ext : plain_db.

Lemma plain_msg_go idx flag : forall acc, plain (msg_go idx flag acc).
Proof. induction idx; intro acc; cbn [msg_go]; plmp. Qed.
#[export] Hint Resolve plain_msg_go : plain_db.
Lemma plain_get_message_core f : plain (get_message_core f). Proof. plmp. Qed.
#[export] Hint Resolve plain_get_message_core : plain_db.

Lemma plain_put_atoms l : plain (put_atoms l).
Proof. induction l as [|a l IH]; cbn [put_atoms]; plmp. Qed.
Lemma plain_put_values l : plain (put_values l).
Proof. induction l as [|a l IH]; cbn [put_values]; plmp. Qed.
#[export] Hint Resolve plain_put_atoms plain_put_values : plain_db.
Lemma plain_read_cache_key k : plain (read_cache_key k). Proof. plmp. Qed.
Lemma plain_cache_size_key k : plain (cache_size_key k). Proof. plmp. Qed.
#[export] Hint Resolve plain_read_cache_key plain_cache_size_key : plain_db.

Lemma plain_fold_ints n f : forall acc, plain (fold_ints n f acc).
Proof. induction n; intro acc; cbn [fold_ints]; plmp. Qed.
#[export] Hint Resolve plain_fold_ints : plain_db.
Lemma plain_pydiv a b : plain (pydiv a b).      Proof. plmp. Qed.
Lemma plain_pymod a b : plain (pymod a b).      Proof. plmp. Qed.
#[export] Hint Resolve plain_pydiv plain_pymod : plain_db.

Lemma plain_get_float_t : plain get_float_t.    Proof. plmp. Qed.
Lemma plain_bytes_to_float x : plain (bytes_to_float x). Proof. plmp. Qed.
Lemma plain_check_nan d : plain (check_nan d).  Proof. plmp. Qed.
Lemma plain_put_float d : plain (put_float d).  Proof. plmp. Qed.
#[export] Hint Resolve plain_get_float_t plain_bytes_to_float plain_check_nan plain_put_float : plain_db.
Lemma plain_fold_floats n p : forall acc, plain (fold_floats n p acc).
Proof. induction n; intro acc; cbn [fold_floats]; plmp. Qed.
#[export] Hint Resolve plain_fold_floats : plain_db.

Lemma plain_clamp_scalar s b : plain (clamp_scalar s b). Proof. plmp. Qed.
#[export] Hint Resolve plain_clamp_scalar : plain_db.
Lemma plain_H_big l : plain (H_big l).          Proof. plmp. Qed.
#[export] Hint Resolve plain_H_big : plain_db.
Lemma plain_H_small l : plain (H_small l).      Proof. plmp. Qed.
Lemma plain_derive_key s : plain (derive_key_from_seed s). Proof. plmp. Qed.
Lemma plain_derive_point x : plain (derive_point x). Proof. plmp. Qed.
#[export] Hint Resolve plain_H_small plain_derive_key plain_derive_point : plain_db.
Lemma plain_check_points l : plain (check_points l).
Proof. induction l; cbn [check_points]; plmp. Qed.
Lemma plain_sum_with p l : forall acc, plain (sum_with p acc l).
Proof. induction l; intro acc; cbn [sum_with]; plmp. Qed.
#[export] Hint Resolve plain_check_points plain_sum_with : plain_db.
Lemma plain_aggregate_points l : plain (aggregate_points l). Proof. plmp. Qed.
Lemma plain_aggregate_scalars l : plain (aggregate_scalars l). Proof. plmp. Qed.
#[export] Hint Resolve plain_aggregate_points plain_aggregate_scalars : plain_db.
Lemma plain_sub_go n p : forall acc, plain (sub_go n p acc).
Proof. induction n; intro acc; cbn [sub_go]; plmp. Qed.
#[export] Hint Resolve plain_sub_go : plain_db.

Lemma plain_check_sig_body a : plain (check_sig_body a). Proof. plmp. Qed.
#[export] Hint Resolve plain_check_sig_body : plain_db.
Lemma plain_ms_find a sig keys : plain (ms_find a sig keys).
Proof. induction keys; cbn [ms_find]; plmp. Qed.
#[export] Hint Resolve plain_ms_find : plain_db.
Lemma plain_ms_go a sigs : forall keys confirmed, plain (ms_go a sigs keys confirmed).
Proof. induction sigs; intros keys confirmed; cbn [ms_go]; plmp. Qed.
#[export] Hint Resolve plain_ms_go : plain_db.

Lemma plain_ct_run l t f : plain (ct_run l t f).
Proof. induction l as [|[i p] l IH]; cbn [ct_run]; plmp. Qed.
#[export] Hint Resolve plain_ct_run : plain_db.
Lemma plain_ct_go idx flag : forall valid, plain (ct_go idx flag valid).
Proof. induction idx; intro valid; cbn [ct_go]; plmp. Qed.
#[export] Hint Resolve plain_ct_go : plain_db.

Lemma plain_decode_utf8 b : plain (decode_utf8 b). Proof. plmp. Qed.
Lemma plain_swap_core i j : plain (swap_core i j). Proof. plmp. Qed.
Lemma plain_when b p : plain p -> plain (when b p). Proof. intro. plmp. Qed.
#[export] Hint Resolve plain_decode_utf8 plain_swap_core plain_when : plain_db.

Lemma plain_NOP : plain NOP. Proof. plmp. Qed.

(* instructions used inside OP_MERKLEVAL *)
Lemma plain_OP_DUP : plain OP_DUP.               Proof. plmp. Qed.
Lemma plain_OP_SHA256 : plain OP_SHA256.         Proof. plmp. Qed.
Lemma plain_OP_SWAP2 : plain OP_SWAP2.           Proof. plmp. Qed.
Lemma plain_OP_XOR : plain OP_XOR.               Proof. plmp. Qed.
Lemma plain_OP_EQUAL_VERIFY : plain OP_EQUAL_VERIFY. Proof. plmp. Qed.
#[export] Hint Resolve plain_OP_DUP plain_OP_SHA256 plain_OP_SWAP2 plain_OP_XOR
  plain_OP_EQUAL_VERIFY : plain_db.

Section Cap.
Variable cfg : config.

Definition cap : Z := Z.max 0 (c_limit cfg).

(* the judgement tracks the exact counter of the current tape, when known *)
Definition k_ok {X} (a : action X) (k : option Z) (Q : X -> option Z -> Prop) : Prop :=
  match a in action X return (X -> option Z -> Prop) -> Prop with
  | ACount => fun Q => forall x, Q x (Some x)
  | ACountIncr => fun Q =>
      match k with Some x => (x < c_limit cfg)%Z /\ Q tt (Some (x + 1)%Z) | None => False end
  | AConfig => fun Q => Q cfg k
  | ACallDef _ => fun Q => Q tt None
  | ARunSub sk _ => fun Q =>
      match sk with SubEval => exists x, k = Some x /\ (x < c_limit cfg)%Z | SubCopy => True end /\ Q tt None
  | ATrySub _ => fun Q => forall r, Q r None
  | ARunLoop _ => fun Q => Q tt None
  | _ => fun Q => forall x, Q x k
  end Q.

Fixpoint capj {A} (p : prog A) (k : option Z) (post : A -> option Z -> Prop) : Prop :=
  match p with
  | Ret a => post a k
  | Raise _ => True
  | Unmod _ => True
  | Act a f => k_ok a k (fun x k' => capj (f x) k' post)
  end.

Lemma k_ok_mono X (a : action X) k (P Q : X -> option Z -> Prop) :
  (forall x k', P x k' -> Q x k') -> k_ok a k P -> k_ok a k Q.
Proof.
  intros H. destruct a; cbn [k_ok]; try (destruct k0); try (destruct k); intuition auto.
Qed.

Lemma capj_bind A B (p : prog A) (f : A -> prog B) :
  forall k (Q1 : A -> option Z -> Prop) (Q2 : B -> option Z -> Prop),
  capj p k Q1 -> (forall a k', Q1 a k' -> capj (f a) k' Q2) -> capj (bind p f) k Q2.
Proof.
  induction p as [a|e|w|X a g IH]; intros k Q1 Q2 H Hf; cbn [capj bind] in *; auto.
  eapply k_ok_mono; [|exact H]. cbv beta. intros x k' Hx. eapply IH; eauto.
Qed.

Lemma plain_capj A (p : prog A) : plain p -> forall k, capj p k (fun _ _ => True).
Proof.
  induction p as [a|e|w|X a g IH]; intros Hs k; cbn [capj plain] in *; auto.
  destruct Hs as [Ha Hk].
  destruct a; cbn [k_ok plain_act simple_act] in *; try discriminate; intros; apply IH; apply Hk.
Qed.

Notation capT p := (forall k, capj p k (fun _ _ => True)).

Lemma capj_pre A B (p : prog A) (f : A -> prog B) :
  plain p -> (forall a, capT (f a)) -> capT (bind p f).
Proof.
  intros Hp Hf k. eapply capj_bind; [apply plain_capj; exact Hp|]. cbv beta. intros a k' _. apply Hf.
Qed.

Lemma capj_OP_RETURN : capT OP_RETURN.
Proof. intro k. cbn. auto. Qed.
Lemma capj_propagate_return : capT propagate_return.
Proof. intro k. cbn. intros [|]; cbn; auto. Qed.

Lemma capj_OP_CALL : capT OP_CALL.
Proof.
  intro k. unfold OP_CALL, config_, read, act. cbn [bind capj k_ok].
  intros x. unfold sert. destruct (x <? c_limit cfg)%Z eqn:E; cbn [bind capj k_ok]; [|exact I].
  apply Z.ltb_lt in E. intros h. split; [exact E|]. intros [t|]; cbn [bind capj k_ok]; [|exact I].
  intros _. exact I.
Qed.

Lemma capj_OP_IF : capT OP_IF.
Proof.
  intro k. unfold OP_IF, read_u16, read, get, act. cbn [bind capj k_ok].
  intros n d x. destruct (bytes_to_bool x); cbn [bind capj k_ok]; [|exact I].
  split; [exact I|]. apply capj_propagate_return.
Qed.

Lemma capj_OP_IF_ELSE : capT OP_IF_ELSE.
Proof.
  intro k. unfold OP_IF_ELSE, read_u16, read, get, act. cbn [bind capj k_ok].
  intros n1 d1 n2 d2 x. split; [exact I|]. apply capj_propagate_return.
Qed.

Lemma capj_eval_body : capT eval_body.
Proof.
  intro k. unfold eval_body, config_, get, act. cbn [bind capj k_ok].
  unfold sert at 1. destruct (flag_get _ _); cbn [bind capj k_ok]; [exact I|].
  intros x. unfold sert. destruct (x <? c_limit cfg)%Z eqn:E; cbn [bind capj k_ok]; [|exact I].
  apply Z.ltb_lt in E. intros script. unfold vert.
  destruct (0 <? blen script)%Z; cbn [bind capj k_ok]; [|exact I].
  split; [exists x; split; [reflexivity|exact E]|]. intros [|]; [|exact I].
  destruct (flag_on _ _); [apply capj_OP_RETURN|cbn; auto].
Qed.

Lemma capj_OP_TRY_EXCEPT : capT OP_TRY_EXCEPT.
Proof.
  intro k. unfold OP_TRY_EXCEPT, read_u16, read, act. cbn [bind capj k_ok].
  intros n1 d1 n2 d2.
  intros [e|]; cbn [bind capj k_ok cache_items act].
  - intros _. split; [exact I|]. apply capj_propagate_return.
  - apply capj_propagate_return.
Qed.

Lemma capj_loop_go n : forall i limit t cond, capT (loop_go n i limit t cond).
Proof.
  induction n as [|n IH]; intros i limit t cond k; cbn [loop_go];
    (destruct (bytes_to_bool cond); [|exact I]); unfold sert;
    (destruct (i <? limit)%Z; cbn [bind capj k_ok]; [|exact I]).
  - exact I.
  - unfold act. cbn [bind capj k_ok].
    intros [|]; cbn [bind capj k_ok]; [auto|]. intros cnd. apply IH.
Qed.

Lemma capj_OP_LOOP : capT OP_LOOP.
Proof.
  intro k. unfold OP_LOOP, read_u16, read, config_, act. cbn [bind capj k_ok].
  intros n d x t. apply capj_loop_go.
Qed.

Lemma capj_OP_MERKLEVAL : capT OP_MERKLEVAL.
Proof.
  unfold OP_MERKLEVAL. do 10 (apply capj_pre; [solve [plmp]|intro]). apply capj_eval_body.
Qed.

Lemma capj_OP_TAPROOT : capT OP_TAPROOT.
Proof.
  unfold OP_TAPROOT. do 4 (apply capj_pre; [solve [plmp]|intro]).
  destruct (_ =? _)%Z.
  - do 7 (apply capj_pre; [solve [plmp]|intro]). destruct (bytes_eqb _ _).
    + apply capj_pre; [solve [plmp]|intro]. apply capj_eval_body.
    + intro k. apply plain_capj. plmp.
  - intro k. apply plain_capj. plmp.
Qed.

Theorem op_prog_capj (o : opcode) : capT (op_prog o).
Proof.
  destruct o; cbn [op_prog];
    first
      [ apply capj_OP_RETURN
      | apply capj_OP_CALL
      | apply capj_OP_IF
      | apply capj_OP_IF_ELSE
      | apply capj_eval_body
      | apply capj_OP_MERKLEVAL
      | apply capj_OP_TRY_EXCEPT
      | apply capj_OP_LOOP
      | apply capj_OP_TAPROOT
      | intro k; apply plain_capj; solve [plmp] ].
Qed.

Theorem dispatch_capj (code : nat) : capT (dispatch code).
Proof.
  unfold dispatch. destruct (opcode_of_nat code) as [o|].
  - apply op_prog_capj.
  - intro k. apply plain_capj. exact plain_NOP.
Qed.

End Cap.

Section CapSound.
Variable orc : oracle.
Variable cfg : config.

Notation capv := (cap cfg).

(* every counter of the heap (and the default tape outside it) is within the cap *)
Definition capped (st : state) : Prop := forall t, (count_of st t <= capv)%Z.

Lemma cap_nonneg : (0 <= capv)%Z.
Proof. unfold cap. lia. Qed.
Lemma cap_limit : (c_limit cfg <= capv)%Z.
Proof. unfold cap. lia. Qed.

Lemma capped_tapes_eq st st' : st_tapes st' = st_tapes st -> capped st -> capped st'.
Proof. intros E H t. unfold count_of, nth_tape in *. rewrite E. apply H. Qed.

Lemma capped_app st st' x :
  st_tapes st' = st_tapes st ++ [x] -> (to_count x <= capv)%Z -> capped st -> capped st'.
Proof.
  intros E Hx H t. unfold count_of, nth_tape. rewrite E.
  destruct (Nat.lt_ge_cases t (List.length (st_tapes st))) as [Hlt|Hge].
  - rewrite app_nth1 by exact Hlt. apply H.
  - rewrite app_nth2 by exact Hge. destruct (t - List.length (st_tapes st)) as [|[|j]]; simpl;
      try exact Hx; apply cap_nonneg.
Qed.

Lemma capped_set_count st t v : (v <= capv)%Z -> capped st -> capped (set_count st t v).
Proof.
  intros Hv H t'. unfold count_of. destruct (Nat.eq_dec t t') as [->|Hne].
  - destruct (Nat.lt_ge_cases t' (List.length (st_tapes st))) as [Hlt|Hge].
    + rewrite nth_tape_set_count_same by exact Hlt. exact Hv.
    + unfold nth_tape. rewrite nth_overflow by (rewrite set_count_length; exact Hge). simpl. apply cap_nonneg.
  - rewrite nth_tape_set_count_other by exact Hne. apply H.
Qed.

Definition grows (s s' : state) : Prop := List.length (st_tapes s) <= List.length (st_tapes s').
Definition cap_res (s s' : state) : Prop := capped s' /\ grows s s'.
Definition cap_out {A} (s : state) (o : outcome A) : Prop :=
  match o with Done _ _ s' | Raised _ _ s' => cap_res s s' | _ => True end.
Definition cap_run_ok (run : nat -> state -> outcome unit) : Prop :=
  forall t s, capped s -> cap_out s (run t s).

Definition ksem (k : option Z) (fr : frame) (st : state) : Prop :=
  capped st /\ fr_tid fr < List.length (st_tapes st) /\
  forall x, k = Some x -> count_of st (fr_tid fr) = x.

Section Step.
Variable run : nat -> state -> outcome unit.
Hypothesis Hrun : cap_run_ok run.

Definition cap_sres {X} (Q : X -> option Z -> Prop) (st : state) (r : sres X) : Prop :=
  match r with
  | SOk x fr' st' => grows st st' /\ exists k', Q x k' /\ ksem k' fr' st'
  | SRaise _ _ st' => cap_res st st'
  | _ => True
  end.

Lemma cap_res_refl st : capped st -> cap_res st st.
Proof. intro H. split; [exact H|unfold grows; lia]. Qed.

Lemma kkeep X (Q : X -> option Z -> Prop) x k fr fr' st st' :
  st_tapes st' = st_tapes st -> fr_tid fr' = fr_tid fr -> Q x k -> ksem k fr st ->
  grows st st' /\ exists k', Q x k' /\ ksem k' fr' st'.
Proof.
  intros E Ef HQ (H1 & H2 & H3). split; [unfold grows; rewrite E; lia|]. exists k. split; [exact HQ|].
  split; [eapply capped_tapes_eq; eauto|]. split; [rewrite E, Ef; exact H2|].
  intros y Ey. unfold count_of, nth_tape. rewrite E, Ef. apply H3. exact Ey.
Qed.

Lemma ksem_none fr st st' :
  capped st' -> fr_tid fr < List.length (st_tapes st) ->
  List.length (st_tapes st) <= List.length (st_tapes st') -> ksem None fr st'.
Proof. intros H1 H2 H3. split; [exact H1|]. split; [lia|]. intros x E. discriminate. Qed.

Lemma ksem_app k fr st st' x :
  st_tapes st' = st_tapes st ++ [x] -> (to_count x <= capv)%Z -> ksem k fr st -> ksem k fr st'.
Proof.
  intros E Hx (H1 & H2 & H3). split; [eapply capped_app; eauto|].
  split; [rewrite E, app_length; simpl; lia|].
  intros y Ey. unfold count_of. rewrite (nth_tape_app_old st st' [x] _ E H2). apply H3. exact Ey.
Qed.

Lemma cap_step_sound X (a : action X) k (Q : X -> option Z -> Prop) fr st :
  k_ok cfg a k Q -> ksem k fr st -> cap_sres Q st (step orc cfg run a fr st).
Proof.
  intros H Hs. pose proof Hs as (C1 & C2 & C3).
  destruct a; cbn [k_ok] in H; simpl.
  - (* AGet *) destruct (st_stack st); simpl; [apply cap_res_refl; exact C1|].
    apply kkeep with (k := k) (fr := fr); auto.
  - (* APut *)
    destruct (_ <? _); simpl; [apply cap_res_refl; exact C1|].
    destruct (_ <=? _); simpl; [apply cap_res_refl; exact C1|].
    apply kkeep with (k := k) (fr := fr); auto.
  - (* APeek *) destruct (st_stack st); simpl; [apply cap_res_refl; exact C1|].
    apply kkeep with (k := k) (fr := fr); auto.
  - (* ADepth *) apply kkeep with (k := k) (fr := fr); auto.
  - (* ASwapIdx *) destruct (_ && _); simpl; [|exact I]. apply kkeep with (k := k) (fr := fr); auto.
  - (* ARead *)
    destruct (_ <? _); simpl; [apply cap_res_refl; exact C1|].
    apply kkeep with (k := k) (fr := fr); auto.
  - (* ASetPtrEnd *) apply kkeep with (k := k) (fr := fr); auto.
  - (* ACount *)
    split; [unfold grows; lia|]. eexists. split; [apply H|]. split; [exact C1|]. split; [exact C2|].
    intros x E. injection E as <-. reflexivity.
  - (* ACountIncr *)
    destruct k as [x|]; [|contradiction]. destruct H as (Hx & HQ).
    pose proof (C3 x eq_refl) as Ec. unfold cur. fold (count_of st (fr_tid fr)). rewrite Ec.
    split; [unfold grows; rewrite set_count_length; lia|]. eexists. split; [exact HQ|].
    split; [apply capped_set_count; [pose proof cap_limit; lia|exact C1]|].
    split; [rewrite set_count_length; exact C2|].
    intros y Ey. injection Ey as <-. unfold count_of. apply nth_tape_set_count_same. exact C2.
  - (* ACacheGet *) apply kkeep with (k := k) (fr := fr); auto.
  - (* ACacheSet *) apply kkeep with (k := k) (fr := fr); auto.
  - (* AReturnedSet *) apply kkeep with (k := k) (fr := fr); auto.
  - (* AReturnedClear *) apply kkeep with (k := k) (fr := fr); auto.
  - (* AReturnedTest *) apply kkeep with (k := k) (fr := fr); auto.
  - (* AConfig *) apply kkeep with (k := k) (fr := fr); auto.
  - (* APrim *) apply kkeep with (k := k) (fr := fr); auto.
  - (* ARandIdx *) apply kkeep with (k := k) (fr := fr); auto.
  - (* ADefSet *)
    split; [unfold grows; simpl; rewrite app_length; simpl; lia|]. exists k. split; [apply H|].
    eapply ksem_app; [| |exact Hs]; [simpl; reflexivity|simpl; apply cap_nonneg].
  - (* ADefGet *) apply kkeep with (k := k) (fr := fr); auto.
  - (* ACallDef *)
    unfold after_run.
    match goal with |- context [run ?t ?s] =>
      assert (Hc : capped s) by (apply capped_set_count; [apply C1|exact C1]);
      pose proof (Hrun t s Hc) as Hr; destruct (run t s) end; simpl in *; try exact I.
    + destruct Hr as [Hr1 Hr2]. unfold cap_res, grows in *. rewrite set_count_length in Hr2. split; [exact Hr2|].
      exists None. split; [exact H|]. eapply ksem_none; eauto.
    + destruct Hr as [Hr1 Hr2]. unfold cap_res, grows in *. rewrite set_count_length in Hr2. split; assumption.
  - (* ARunSub *)
    destruct H as (Hk & HQ).
    unfold after_run.
    match goal with |- context [run ?t ?s] => set (st2 := s) end.
    assert (E2 : st_tapes st2 = st_tapes st ++
              [{| to_data := data;
                  to_count := match k0 with
                              | SubCopy => to_count (cur fr st)
                              | SubEval => (to_count (cur fr st) + 1)%Z end;
                  to_defs := List.length (st_defs st) |}]) by reflexivity.
    assert (Hc : capped st2).
    { eapply capped_app; [exact E2| |exact C1]. simpl. unfold cur. fold (count_of st (fr_tid fr)).
      destruct k0; [apply C1|]. destruct Hk as (x & -> & Hx). rewrite (C3 x eq_refl).
      pose proof cap_limit. lia. }
    assert (Hlen : List.length (st_tapes st) <= List.length (st_tapes st2))
      by (rewrite E2, app_length; lia).
    pose proof (Hrun (List.length (st_tapes st)) st2 Hc) as Hr.
    change (List.length (st_tapes (with_defs st (st_defs st ++ [nth_defs st (to_defs (cur fr st))]))))
      with (List.length (st_tapes st)).
    destruct (run (List.length (st_tapes st)) st2); simpl in Hr |- *; try exact I.
    + destruct Hr as [Hr1 Hr2]. unfold cap_res, grows in *. split; [lia|].
      exists None. split; [exact HQ|]. eapply ksem_none; eauto. lia.
    + destruct Hr as [Hr1 Hr2]. unfold cap_res, grows in *. split; [assumption|lia].
  - (* ATrySub *)
    match goal with |- context [run ?t ?s] => set (st2 := s) end.
    assert (E2 : st_tapes st2 = st_tapes st ++
              [{| to_data := data; to_count := to_count (cur fr st);
                  to_defs := List.length (st_defs st) |}]) by reflexivity.
    assert (Hc : capped st2).
    { eapply capped_app; [exact E2| |exact C1]. simpl. unfold cur. apply C1. }
    assert (Hlen : List.length (st_tapes st) <= List.length (st_tapes st2))
      by (rewrite E2, app_length; lia).
    pose proof (Hrun (List.length (st_tapes st)) st2 Hc) as Hr.
    change (List.length (st_tapes (with_defs st (st_defs st ++ [nth_defs st (to_defs (cur fr st))]))))
      with (List.length (st_tapes st)).
    destruct (run (List.length (st_tapes st)) st2); simpl in Hr |- *; try exact I.
    + destruct Hr as [Hr1 Hr2]. unfold cap_res, grows in *. split; [lia|].
      exists None. split; [apply H|]. eapply ksem_none; eauto. lia.
    + destruct Hr as [Hr1 Hr2]. unfold cap_res, grows in *. split; [lia|].
      exists None. split; [apply H|]. eapply ksem_none; eauto. lia.
  - (* ALoopNew *)
    split; [unfold grows; simpl; rewrite app_length; simpl; lia|]. exists k. split; [apply H|].
    eapply ksem_app; [| |exact Hs]; [simpl; reflexivity|simpl; unfold cur; apply C1].
  - (* ARunLoop *)
    unfold after_run. pose proof (Hrun tid st C1) as Hr.
    destruct (run tid st); simpl in *; try exact I.
    + destruct Hr as [Hr1 Hr2]. split; [exact Hr2|].
      exists None. split; [exact H|]. eapply ksem_none; eauto.
    + exact Hr.
  - (* ALog *) apply kkeep with (k := k) (fr := fr); auto.
Qed.

Theorem capj_sound A (p : prog A) : forall k (post : A -> option Z -> Prop) fr st,
  capj cfg p k post -> ksem k fr st ->
  match interp orc cfg run p fr st with
  | Done a fr' st' => cap_res st st' /\ fr_tid fr' = fr_tid fr
  | Raised _ _ st' => cap_res st st'
  | _ => True
  end.
Proof.
  induction p as [a|e|w|X a g IH]; intros k post fr st Hd Hs; cbn [capj interp] in *.
  - split; [apply cap_res_refl; apply Hs|reflexivity].
  - apply cap_res_refl; apply Hs.
  - exact I.
  - pose proof (cap_step_sound X a k _ fr st Hd Hs) as Hstep.
    destruct (step orc cfg run a fr st) as [x fr' st'|e fr' st'| |w] eqn:Es; simpl in Hstep;
      try exact I; [|exact Hstep].
    destruct Hstep as (Hlen & k' & Hd' & Hs').
    specialize (IH x k' post fr' st' Hd' Hs').
    assert (Hfr : fr_tid fr' = fr_tid fr).
    { destruct a; simpl in Es;
        repeat match type of Es with
               | context [match ?d with _ => _ end] => destruct d; try discriminate
               end;
        try (injection Es as <- <- <-; reflexivity); try (injection Es as <- <-; reflexivity);
        unfold after_run in Es;
        repeat match type of Es with
               | context [match ?d with _ => _ end] => destruct d; try discriminate
               end;
        try (injection Es as <- <- <-; reflexivity); try (injection Es as <- <-; reflexivity). }
    destruct (interp orc cfg run (g x) fr' st') as [a' fr'' st''|e fr'' st''| |w]; try exact I.
    + destruct IH as ((I1 & I2) & I3). unfold cap_res, grows in *. split; [split; [exact I1|lia]|congruence].
    + destruct IH as (I1 & I2). unfold cap_res, grows in *. split; [exact I1|lia].
Qed.

End Step.

(* the whole machine *)
Theorem run_tape_capped : forall fuel tid ptr st,
  capped st -> cap_out st (run_tape orc cfg fuel tid ptr st).
Proof.
  induction fuel as [|f IH]; intros tid ptr st Hc; [exact I|].
  rewrite run_tape_eq.
  destruct (List.length (to_data (nth_tape st tid)) <=? ptr) eqn:E; [apply cap_res_refl; exact Hc|].
  apply Nat.leb_gt in E.
  assert (Hin : tid < List.length (st_tapes st)).
  { destruct (Nat.lt_ge_cases tid (List.length (st_tapes st))) as [Hlt|Hge]; [exact Hlt|].
    rewrite nth_tape_outside in E by exact Hge. simpl in E. lia. }
  assert (Hrun : cap_run_ok (rt orc cfg f)) by (intros t s Hs; apply IH; exact Hs).
  assert (Hs0 : ksem None {| fr_tid := tid; fr_ptr := S ptr |} st).
  { split; [exact Hc|]. split; [exact Hin|]. intros x Ex. discriminate. }
  pose proof (capj_sound (rt orc cfg f) Hrun unit (dispatch (code_at st tid ptr)) None _
                {| fr_tid := tid; fr_ptr := S ptr |} st (dispatch_capj cfg _ None) Hs0) as Hi.
  destruct (interp orc cfg (rt orc cfg f) _ _ st) as [u fr' st'|e fr' st'| |w]; try exact I; [|exact Hi].
  destruct Hi as ((H1 & H2) & _).
  pose proof (IH tid (fr_ptr fr') st' H1) as H3.
  destruct (run_tape orc cfg f tid (fr_ptr fr') st') as [u' fr'' st''|e fr'' st''| |w]; simpl in *;
    try exact I; (destruct H3 as [H3 H4]; unfold cap_res, grows in *; split; [exact H3|lia]).
Qed.

Lemma init_capped script vals : capped (init_state cfg script vals).
Proof.
  intro t. unfold count_of, nth_tape. simpl. destruct t as [|[|t]]; simpl; apply cap_nonneg.
Qed.

(* deliverable 2b, global form: in every final or raising state of a script every counter is
   <= max 0 callstack_limit *)
Theorem run_script_capped fuel script vals :
  match run_script orc cfg fuel script vals with
  | Done _ _ st' | Raised _ _ st' => forall t, (count_of st' t <= Z.max 0 (c_limit cfg))%Z
  | _ => True
  end.
Proof.
  pose proof (run_tape_capped fuel 0 0 (init_state cfg script vals) (init_capped script vals)) as H.
  unfold run_script. destruct (run_tape orc cfg fuel 0 0 _); simpl in H; try exact I; apply H.
Qed.

Lemma auth_rest_capped fuel : forall scripts prev st,
  capped st ->
  match auth_rest orc cfg fuel scripts prev st with
  | AuthVerdict _ st' => capped st'
  | _ => True
  end.
Proof.
  intros scripts. induction scripts as [|s rest IH]; intros prev st H.
  - simpl. destruct (st_stack st) as [|item [|x y]]; simpl; exact H.
  - rewrite auth_rest_cons.
    assert (Hc : capped (next_script_state st prev s)).
    { eapply (capped_app st); [unfold next_script_state; simpl; reflexivity| |exact H]. simpl. apply H. }
    pose proof (run_tape_capped fuel (List.length (st_tapes st)) 0 _ Hc) as Hr.
    destruct (run_tape orc cfg fuel _ 0 _) as [u fr' st'|e fr' st'| |w]; simpl in Hr; try exact I.
    + apply IH. apply Hr.
    + apply Hr.
Qed.

Theorem run_auth_scripts_capped fuel scripts vals :
  match run_auth_scripts orc cfg fuel scripts vals with
  | AuthVerdict _ st' => forall t, (count_of st' t <= Z.max 0 (c_limit cfg))%Z
  | _ => True
  end.
Proof.
  unfold run_auth_scripts. destruct scripts as [|s rest]; [exact I|].
  pose proof (run_tape_capped fuel 0 0 (init_state cfg s vals) (init_capped s vals)) as H.
  unfold run_script. destruct (run_tape orc cfg fuel 0 0 _) as [u fr st|e fr st| |w]; simpl in H; try exact I.
  - apply auth_rest_capped. apply H.
  - apply H.
Qed.

End CapSound.

Print Assumptions run_tape_fuel_mono.
Print Assumptions interp_fuel_le.
Print Assumptions run_auth_scripts_fuel_le.
Print Assumptions bud_sound.
Print Assumptions dispatch_bud.
Print Assumptions run_tape_floor.
Print Assumptions run_tape_own_count.
Print Assumptions count_not_monotone.
Print Assumptions OP_CALL_bounded.
Print Assumptions eval_body_bounded.
Print Assumptions loop_go_bounded.
Print Assumptions loop_go_bound_suffices.
Print Assumptions loop_bounded.
Print Assumptions dispatch_capj.
Print Assumptions run_tape_capped.
Print Assumptions run_script_capped.
Print Assumptions run_auth_scripts_capped.
