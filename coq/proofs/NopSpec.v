(* C20: what an unassigned opcode does — exactly. *)
From Coq Require Import ZArith List Bool Lia.
From Coq.Strings Require Import Byte String.
From TS Require Import Bytes Codec State Prog Ops Interp StateLemmas InterpLemmas BytesLemmas CodecProofs.
Import ListNotations.
Open Scope Z_scope.

(* the count byte read as a signed integer *)
Definition signed8 (b : byte) : Z := if b2z b <? 128 then b2z b else b2z b - 256.

Lemma b2i_single b : bytes_to_int [b] = Some (signed8 b).
Proof.
  unfold bytes_to_int, signed8, blen, be_to_Z. cbn [be_acc List.length].
  pose proof (b2z_range b) as H. rewrite shiftl8.
  replace (0 * 256 + b2z b) with (b2z b) by lia.
  change (8 * Z.of_nat 1) with 8. change (8 - 1) with 7.
  rewrite Z.shiftr_div_pow2 by lia. change (2 ^ 7) with 128. change (2 ^ 8) with 256.
  destruct (b2z b <? 128) eqn:E.
  - apply Z.ltb_lt in E. rewrite Z.div_small by lia. reflexivity.
  - apply Z.ltb_ge in E. assert (b2z b / 128 = 1) by (symmetry; apply Z.div_unique with (r := b2z b - 128); lia).
    rewrite H0. reflexivity.
Qed.

Section Nop.
Variable orc : oracle.
Variable cfg : config.
Variable run : nat -> state -> outcome unit.

Definition data_at (fr : frame) (st : state) : bytes := skipn (fr_ptr fr) (to_data (cur fr st)).
Definition adv (fr : frame) (n : nat) : frame := {| fr_tid := fr_tid fr; fr_ptr := (fr_ptr fr + n)%nat |}.

Lemma read1 fr st b rest A (k : bytes -> prog A) :
  data_at fr st = b :: rest ->
  interp orc cfg run (Act (ARead 1) k) fr st = interp orc cfg run (k [b]) (adv fr 1) st.
Proof.
  intro H. cbn [interp step]. unfold data_at in H.
  assert (Hl : (fr_ptr fr + 1 <= List.length (to_data (cur fr st)))%nat).
  { destruct (Nat.le_gt_cases (List.length (to_data (cur fr st))) (fr_ptr fr)) as [Hle|Hgt].
    - rewrite skipn_all2 in H by exact Hle. discriminate.
    - lia. }
  change (Z.to_nat 1) with 1%nat.
  destruct (List.length (to_data (cur fr st)) <? fr_ptr fr + 1)%nat eqn:E; [apply Nat.ltb_lt in E; lia|].
  rewrite H. reflexivity.
Qed.

Lemma read1_end fr st A (k : bytes -> prog A) :
  data_at fr st = [] ->
  interp orc cfg run (Act (ARead 1) k) fr st = Raised ScriptExecutionError fr st.
Proof.
  intro H. cbn [interp step]. unfold data_at in H.
  assert (Hl : (List.length (to_data (cur fr st)) <= fr_ptr fr)%nat).
  { destruct (Nat.le_gt_cases (List.length (to_data (cur fr st))) (fr_ptr fr)) as [Hle|Hgt]; [exact Hle|].
    assert (List.length (skipn (fr_ptr fr) (to_data (cur fr st))) = 0%nat) by (rewrite H; reflexivity).
    rewrite skipn_length in H0. lia. }
  change (Z.to_nat 1) with 1%nat.
  destruct (List.length (to_data (cur fr st)) <? fr_ptr fr + 1)%nat eqn:E; [reflexivity|].
  apply Nat.ltb_ge in E. lia.
Qed.

(* the whole behaviour of NOP, by cases on the count byte and the stack depth *)
Theorem nop_spec fr st b rest :
  data_at fr st = b :: rest ->
  interp orc cfg run NOP fr st =
    let c := signed8 b in
    if c <? 0 then Raised ScriptExecutionError (adv fr 1) st
    else if (Z.to_nat c <=? List.length (st_stack st))%nat
         then Done tt (adv fr 1) (with_stack st (skipn (Z.to_nat c) (st_stack st)))
         else Raised IndexError (adv fr 1) (with_stack st []).
Proof.
  intro H. unfold NOP, read, act, b2i, sert.
  cbn [bind]. rewrite (read1 fr st b rest) by exact H.
  rewrite b2i_single. cbn [bind interp]. cbv zeta.
  destruct (signed8 b <? 0) eqn:E.
  - apply Z.ltb_lt in E. replace (0 <=? signed8 b) with false by (symmetry; apply Z.leb_gt; lia). reflexivity.
  - apply Z.ltb_ge in E. replace (0 <=? signed8 b) with true by (symmetry; apply Z.leb_le; lia).
    cbn [bind interp]. rewrite interp_bind. unfold nat_of.
    destruct (Z.to_nat (signed8 b) <=? List.length (st_stack st))%nat eqn:E2.
    + apply Nat.leb_le in E2. rewrite repeat_get_ok by exact E2. reflexivity.
    + apply Nat.leb_gt in E2. rewrite repeat_get_underflow by exact E2. reflexivity.
Qed.

Theorem nop_truncated fr st :
  data_at fr st = [] -> interp orc cfg run NOP fr st = Raised ScriptExecutionError fr st.
Proof. intro H. unfold NOP, read, act. cbn [bind]. apply read1_end. exact H. Qed.

End Nop.
