(* Merklized script trees (model/MerkleTree.v): completeness of the unlocking scripts. *)
From Coq Require Import ZArith List Bool Lia.
From Coq.Strings Require Import Byte String.
From TS Require Import Bytes Codec State Prog Ops Interp StateLemmas InterpLemmas NopSpec StackLemmas
  BytesLemmas TapeLemmas SigSpec ConfigSpec AuthSpec Asm Builders BuilderSpec TapeSteps MerkleSpec
  Closure Pointer BuilderSpecC15 MerkleTree.
Import ListNotations.
Local Open Scope nat_scope.

(* ---------- 1. xor ---------- *)

Lemma byte_xor_comm a b : byte_xor a b = byte_xor b a.
Proof. unfold byte_xor, byte_map2. rewrite Z.lxor_comm. reflexivity. Qed.

Lemma map2_comm f (Hf : forall a b, f a b = f b a) : forall a b, map2 f a b = map2 f b a.
Proof.
  induction a as [|x a IH]; intros [|y b]; simpl; try reflexivity.
  rewrite Hf, IH. reflexivity.
Qed.

Lemma map2_length f : forall a b, List.length a = List.length b -> List.length (map2 f a b) = List.length a.
Proof.
  induction a as [|x a IH]; intros [|y b] Hl; simpl in *; try reflexivity; try discriminate.
  rewrite IH by lia. reflexivity.
Qed.

Lemma zip_pad_same_length f a b : List.length a = List.length b -> zip_pad f a b = map2 f a b.
Proof.
  intro Hl. unfold zip_pad, pad_to. rewrite <- Hl, Nat.max_id, Nat.sub_diag. simpl.
  rewrite !app_nil_r. reflexivity.
Qed.

Lemma zip_pad_xor_comm a b : List.length a = List.length b ->
  zip_pad byte_xor a b = zip_pad byte_xor b a.
Proof.
  intro Hl. rewrite !zip_pad_same_length by congruence. apply map2_comm. apply byte_xor_comm.
Qed.

Lemma xor_bytes_comm a b : xor_bytes a b = xor_bytes b a.
Proof. apply map2_comm. apply byte_xor_comm. Qed.

Lemma xor_bytes_zip_pad a b : List.length a = List.length b -> xor_bytes a b = zip_pad byte_xor a b.
Proof. intro Hl. symmetry. apply zip_pad_same_length. exact Hl. Qed.

Lemma xor_bytes_length a b : List.length a = List.length b -> List.length (xor_bytes a b) = List.length a.
Proof. apply map2_length. Qed.

Section MTP.
Variable orc : oracle.
Variable cfg : config.
Variable H : bytes -> bytes.
Hypothesis Horc : forall b, orc PSha256 [b] = OOk [H b].
Hypothesis Hlen : forall b, List.length (H b) = 32.

Notation commitment := (commitment H).
Notation root := (root H).
Notation lock := (lock H).
Notation tbytes := (tbytes H).
Notation wstack := (wstack H).
Notation unlock_rel := (unlock_rel H).
Notation unlock := (unlock H).

Lemma commitment_tbytes t : commitment t = H (tbytes t).
Proof. destruct t; reflexivity. Qed.

Lemma commitment_length t : List.length (commitment t) = 32.
Proof. rewrite commitment_tbytes. apply Hlen. Qed.

Lemma root_length l r : List.length (root l r) = 32.
Proof. unfold root, MerkleTree.root. rewrite xor_bytes_length; rewrite !Hlen; reflexivity. Qed.

Lemma lock_bytes l r : lock l r = x3c :: root l r.
Proof. unfold lock, MerkleTree.lock, merkle_lock, encode. cbn [flat_map encode1]. rewrite app_nil_r. reflexivity. Qed.

Lemma lock_length l r : List.length (lock l r) = 33.
Proof. rewrite lock_bytes. simpl. rewrite root_length. reflexivity. Qed.

(* the root of a node passes the check of OP_MERKLEVAL for either child, the other child being the sibling *)
Lemma root_check d l r :
  bytes_eqb (root l r) (merkle_commit (H (commitment (pick d l r))) (H (commitment (other d l r)))) = true.
Proof.
  apply bytes_eqb_eq. unfold merkle_commit, root, MerkleTree.root.
  rewrite <- xor_bytes_zip_pad by (rewrite !Hlen; reflexivity).
  destruct d; cbn [pick other]; [apply xor_bytes_comm|reflexivity].
Qed.

(* ---------- 2. EVAL of a known script, and one level of the tree ---------- *)

Definition no_eval_ban : Prop := flag_get (c_flags cfg) (FKStr (str "disallow_OP_EVAL")) = None.
Definition eval_ret : bool := flag_on (c_flags cfg) (FKStr (str "eval_return")).

(* the state in which an EVALuated script starts: a NEW tape object (call count + 1) with a NEW copy of the
   definition table of the calling tape *)
Definition eval_start (st : state) (tid : nat) (body : bytes) : state :=
  with_tapes (with_defs st (st_defs st ++ [nth_defs st (to_defs (nth_tape st tid))]))
    (st_tapes st ++ [{| to_data := body; to_count := (to_count (nth_tape st tid) + 1)%Z;
                        to_defs := List.length (st_defs st) |}]).

(* what OP_EVAL does with the control flag once the script has ended normally *)
Definition eval_cache (st' : state) : state :=
  match cache_get (st_cache st') returned_key with
  | Some _ =>
    if eval_ret then with_cache st' (cache_set (st_cache st') returned_key (VOne (ABool true)))
    else with_cache st' (cache_del (st_cache st') returned_key)
  | None => st'
  end.

Definition eval_finish (tid ptr : nat) (o : outcome unit) : outcome unit :=
  match o with
  | Done _ _ st' =>
    Done tt {| fr_tid := tid;
               fr_ptr := match cache_get (st_cache st') returned_key with
                         | Some _ => if eval_ret then List.length (tdata st' tid) else ptr
                         | None => ptr
                         end |} (eval_cache st')
  | Raised e _ st' => Raised e {| fr_tid := tid; fr_ptr := ptr |} st'
  | OutOfFuel => OutOfFuel
  | Unmodelled w => Unmodelled w
  end.

Lemma eval_exec run tid ptr st script rest :
  no_eval_ban -> st_stack st = script :: rest ->
  (to_count (nth_tape st tid) < c_limit cfg)%Z -> script <> [] ->
  interp orc cfg run eval_body {| fr_tid := tid; fr_ptr := ptr |} st =
    eval_finish tid ptr (run (List.length (st_tapes st)) (eval_start (with_stack st rest) tid script)).
Proof.
  intros Hfl Hs Hc Hne.
  unfold eval_body, config_, get, act. cbn [bind interp step].
  unfold no_eval_ban in Hfl. rewrite Hfl. unfold sert at 1. cbn [bind interp step].
  unfold cur. cbn [fr_tid].
  replace (to_count (nth_tape st tid) <? c_limit cfg)%Z with true by (symmetry; apply Z.ltb_lt; exact Hc).
  unfold sert at 1. cbn [bind interp step]. rewrite Hs. cbn [bind interp step].
  replace (0 <? blen script)%Z with true
    by (symmetry; apply Z.ltb_lt; destruct script; [congruence|rewrite blen_cons; pose proof (blen_nonneg script); lia]).
  unfold vert at 1. cbn [bind interp step].
  match goal with |- match ?X with _ => _ end = _ =>
    change X with (after_run {| fr_tid := tid; fr_ptr := ptr |}
                     (run (List.length (st_tapes st)) (eval_start (with_stack st rest) tid script))) end.
  destruct (run _ _) as [[] fr' st'|e fr' st'| |w]; cbn [after_run eval_finish]; try reflexivity.
  unfold eval_cache, eval_ret.
  destruct (cache_get (st_cache st') returned_key); [|reflexivity].
  destruct (flag_on _ _); reflexivity.
Qed.


Lemma tdata_eval_cache st' t : tdata (eval_cache st') t = tdata st' t.
Proof.
  unfold eval_cache. destruct (cache_get _ _); [|reflexivity]. destruct eval_ret; reflexivity.
Qed.

Lemma tdata_eval_new st tid body : tdata (eval_start st tid body) (List.length (st_tapes st)) = body.
Proof.
  unfold tdata, nth_tape, eval_start. cbn [st_tapes with_tapes].
  rewrite app_nth2 by lia. rewrite Nat.sub_diag. reflexivity.
Qed.

Lemma tdata_eval_old st tid body t :
  t < List.length (st_tapes st) -> tdata (eval_start st tid body) t = tdata st t.
Proof.
  intro Hlt. unfold tdata, nth_tape, eval_start. cbn [st_tapes with_tapes with_defs].
  rewrite app_nth1 by exact Hlt. reflexivity.
Qed.

(* OP_MERKLEVAL with the root of [Node l r] as operand, on a stack whose top pair is (bytes of one child,
   commitment of the other): the commitment check passes and the child's bytes are EVALuated *)
Lemma merkleval_node run tid ptr st l r d rest tail :
  data_at {| fr_tid := tid; fr_ptr := ptr |} st = root l r ++ tail ->
  st_stack st = tbytes (pick d l r) :: commitment (other d l r) :: rest ->
  no_eval_ban -> (to_count (nth_tape st tid) < c_limit cfg)%Z ->
  tbytes (pick d l r) <> [] -> fits cfg (tbytes (pick d l r)) ->
  32 <= c_max_item_size cfg -> List.length rest + 4 <= c_max_items cfg ->
  interp orc cfg run OP_MERKLEVAL {| fr_tid := tid; fr_ptr := ptr |} st =
    eval_finish tid (ptr + 32)
      (run (List.length (st_tapes st)) (eval_start (with_stack st rest) tid (tbytes (pick d l r)))).
Proof.
  intros Hd Hs Hfl Hc Hne Hf Hsz Hsp.
  pose proof (root_check d l r) as Hrc. rewrite (commitment_tbytes (pick d l r)) in Hrc.
  assert (F32 : forall b, List.length b = 32 -> fits cfg b) by (intros b Hb; unfold fits; lia).
  rewrite (merkleval_binding orc cfg run _ st (root l r) tail (tbytes (pick d l r)) (commitment (other d l r)) rest
             (H (tbytes (pick d l r))) (H (H (tbytes (pick d l r)))) (H (commitment (other d l r))) Hd);
    try (apply Horc); try exact Hs; try exact Hf; try exact Hsp; try lia;
    try (apply F32; first [apply Hlen | apply commitment_length | apply root_length]).
  - rewrite Hrc. unfold adv. cbn [fr_tid fr_ptr].
    rewrite (eval_exec run tid (ptr + 32) (with_stack st (tbytes (pick d l r) :: rest))
               (tbytes (pick d l r)) rest Hfl eq_refl Hc Hne).
    reflexivity.
  - apply root_length.
  - apply bytes_eqb_eq in Hrc. rewrite <- Hrc. apply F32. apply root_length.
Qed.

(* the result of running a node's lock, from the result of the EVALuated child *)
Definition lock_finish (tid : nat) (o : outcome unit) : outcome unit :=
  match o with
  | Done _ _ st' => Done tt {| fr_tid := tid; fr_ptr := 33 |} (eval_cache st')
  | Raised e _ st' => Raised e {| fr_tid := tid; fr_ptr := 33 |} st'
  | OutOfFuel => OutOfFuel
  | Unmodelled w => Unmodelled w
  end.

(* merkle_step: the tape [tid] holds the lock of [Node l r]; the top pair of the stack is (bytes of the child
   chosen by d, commitment of its sibling).  EQUAL_VERIFY passes, the child's bytes run as a NEW tape object
   (call count + 1, copy of the definitions) on the stack below the pair, and the lock ends behind its
   operand. *)
Theorem merkle_step f tid st l r d rest :
  tdata st tid = lock l r -> tid < List.length (st_tapes st) ->
  st_stack st = tbytes (pick d l r) :: commitment (other d l r) :: rest ->
  no_eval_ban -> (to_count (nth_tape st tid) < c_limit cfg)%Z ->
  tbytes (pick d l r) <> [] -> fits cfg (tbytes (pick d l r)) ->
  32 <= c_max_item_size cfg -> List.length rest + 4 <= c_max_items cfg ->
  run_tape orc cfg (S (S f)) tid 0 st =
    lock_finish tid (run_tape orc cfg (S f) (List.length (st_tapes st)) 0
                       (eval_start (with_stack st rest) tid (tbytes (pick d l r)))).
Proof.
  intros Hd Hlt Hs Hfl Hc Hne Hf Hsz Hsp.
  assert (Hd0 : tdata st tid = [] ++ x3c :: root l r) by (rewrite Hd; apply lock_bytes).
  rewrite (fetch_at orc cfg (S f) tid st 0 [] x3c (root l r) Hd0 eq_refl).
  change (dispatch (N.to_nat (Byte.to_N x3c))) with OP_MERKLEVAL.
  assert (Hda : data_at {| fr_tid := tid; fr_ptr := 1 |} st = root l r ++ []).
  { rewrite app_nil_r. exact (data_at_after tid st [] x3c (root l r) Hd0). }
  rewrite (merkleval_node _ tid 1 st l r d rest [] Hda Hs Hfl Hc Hne Hf Hsz Hsp).
  set (st1 := eval_start (with_stack st rest) tid (tbytes (pick d l r))).
  pose proof (run_tape_heap orc cfg (S f) (List.length (st_tapes st)) 0 st1) as Hh.
  destruct (run_tape orc cfg (S f) (List.length (st_tapes st)) 0 st1) as [[] fr' st'|e fr' st'| |w];
    cbn [eval_finish lock_finish]; try reflexivity.
  cbn [R_out] in Hh. destruct Hh as [_ Hh].
  assert (Hdata : tdata st' tid = lock l r).
  { rewrite <- Hd. transitivity (tdata st1 tid).
    - apply (Hh tid). unfold st1, eval_start. cbn [st_tapes with_tapes]. rewrite app_length. simpl.
      change (st_tapes (with_stack st rest)) with (st_tapes st). lia.
    - unfold st1. rewrite tdata_eval_old by exact Hlt. reflexivity. }
  cbn [fr_ptr].
  assert (Hp : match cache_get (st_cache st') returned_key with
               | Some _ => if eval_ret then List.length (tdata st' tid) else 1 + 32
               | None => 1 + 32
               end = 33).
  { rewrite Hdata, lock_length. destruct (cache_get _ _); [destruct eval_ret|]; reflexivity. }
  rewrite Hp.
  apply run_tape_end. rewrite tdata_eval_cache, Hdata, lock_length. lia.
Qed.

(* ---------- 3. the whole path ---------- *)

Lemma wstack_length : forall p t u, subtree t p = Some u -> List.length (wstack t p) = 2 * List.length p.
Proof.
  induction p as [|d p IH]; intros t u Hsub; [reflexivity|].
  destruct t as [s|l r]; [discriminate|]. cbn [subtree] in Hsub. cbn [MerkleTree.wstack List.length].
  rewrite (IH _ _ Hsub). lia.
Qed.

Lemma path_bytes x p u :
  subtree x p = Some u -> tbytes u <> [] -> fits cfg (tbytes u) -> 33 <= c_max_item_size cfg ->
  tbytes x <> [] /\ fits cfg (tbytes x).
Proof.
  intros Hsub Hne Hf Hsz. destruct p as [|d p].
  - injection Hsub as <-. split; assumption.
  - destruct x as [s|l r]; [discriminate|]. cbn [MerkleTree.tbytes]. split.
    + intro E. apply (f_equal (@List.length byte)) in E. rewrite lock_length in E. discriminate.
    + unfold fits. rewrite lock_length. exact Hsz.
Qed.

Lemma count_eval_new st tid body :
  to_count (nth_tape (eval_start st tid body) (List.length (st_tapes st))) = (to_count (nth_tape st tid) + 1)%Z.
Proof.
  unfold nth_tape, eval_start. cbn [st_tapes with_tapes].
  rewrite app_nth2 by lia. rewrite Nat.sub_diag. reflexivity.
Qed.

(* the tape object and the state in which the bytes of the subtree at path p start, when the lock of t is
   the tape [tid] of [st] and the stack of [st] is the witness stack: one [eval_start] per level *)
Fixpoint descend (t : tree) (p : list dir) (tid : nat) (st : state) {struct p} : nat * state :=
  match p with
  | [] => (tid, st)
  | d :: p' =>
    match t with
    | Leaf _ => (tid, st)
    | Node l r =>
      descend (pick d l r) p' (List.length (st_tapes st))
              (eval_start (with_stack st (skipn 2 (st_stack st))) tid (tbytes (pick d l r)))
    end
  end.

(* the result of the root lock from the result of the script at depth d: every level hands a raise on
   unchanged and applies OP_EVAL's treatment of the control flag to a normal end *)
Definition lock_result (tid d : nat) (o : outcome unit) : outcome unit :=
  match d with
  | O => o
  | S _ =>
    match o with
    | Done _ _ st' => Done tt {| fr_tid := tid; fr_ptr := 33 |} (Nat.iter d eval_cache st')
    | Raised e _ st' => Raised e {| fr_tid := tid; fr_ptr := 33 |} st'
    | OutOfFuel => OutOfFuel
    | Unmodelled w => Unmodelled w
    end
  end.

Lemma lock_finish_result tid tid' d o : lock_finish tid (lock_result tid' d o) = lock_result tid (S d) o.
Proof. destruct d; destruct o as [[] ? ?|? ? ?| |?]; reflexivity. Qed.

(* merkle_complete (tape level): the lock of t on the witness stack of the path p runs exactly the bytes of
   the subtree at p, as the tape object and in the state given by [descend] *)
Theorem merkle_complete : forall p t u tid st rest f,
  subtree t p = Some u ->
  tdata st tid = tbytes t -> tid < List.length (st_tapes st) ->
  st_stack st = wstack t p ++ rest ->
  no_eval_ban ->
  (to_count (nth_tape st tid) + Z.of_nat (List.length p) <= c_limit cfg)%Z ->
  tbytes u <> [] -> fits cfg (tbytes u) -> 33 <= c_max_item_size cfg ->
  List.length rest + 2 * List.length p + 2 <= c_max_items cfg ->
  run_tape orc cfg (List.length p + S f) tid 0 st =
    lock_result tid (List.length p)
      (run_tape orc cfg (S f) (fst (descend t p tid st)) 0 (snd (descend t p tid st))).
Proof.
  induction p as [|d p IH]; intros t u tid st rest f Hsub Hd Hlt Hs Hfl Hc Hne Hf Hsz Hsp.
  - reflexivity.
  - destruct t as [s|l r]; [discriminate|].
    cbn [subtree] in Hsub. cbn [MerkleTree.wstack app] in Hs. cbn [MerkleTree.tbytes] in Hd.
    cbn [List.length] in *. cbn [descend]. rewrite Hs. cbn [skipn].
    destruct (path_bytes _ _ _ Hsub Hne Hf Hsz) as [Hne' Hf'].
    pose proof (wstack_length _ _ _ Hsub) as Hwl.
    replace (S (List.length p) + S f) with (S (S (List.length p + f))) by lia.
    rewrite (merkle_step (List.length p + f) tid st l r d (wstack (pick d l r) p ++ rest) Hd Hlt Hs Hfl);
      [ | lia | exact Hne' | exact Hf' | lia | rewrite app_length, Hwl; lia ].
    replace (S (List.length p + f)) with (List.length p + S f) by lia.
    set (st1 := eval_start (with_stack st (wstack (pick d l r) p ++ rest)) tid (tbytes (pick d l r))).
    rewrite (IH (pick d l r) u (List.length (st_tapes st)) st1 rest f Hsub).
    + apply lock_finish_result.
    + exact (tdata_eval_new (with_stack st _) tid _).
    + unfold st1, eval_start. cbn [st_tapes with_tapes]. rewrite app_length. simpl.
      change (st_tapes (with_stack st (wstack (pick d l r) p ++ rest))) with (st_tapes st). lia.
    + reflexivity.
    + exact Hfl.
    + unfold st1. rewrite (count_eval_new (with_stack st _) tid _).
      change (nth_tape (with_stack st (wstack (pick d l r) p ++ rest)) tid) with (nth_tape st tid). lia.
    + exact Hne.
    + exact Hf.
    + exact Hsz.
    + lia.
Qed.

Lemma defs_eval_new st tid body :
  nth_defs (eval_start st tid body) (to_defs (nth_tape (eval_start st tid body) (List.length (st_tapes st)))) =
  nth_defs st (to_defs (nth_tape st tid)).
Proof.
  unfold nth_tape at 1. unfold eval_start at 2. cbn [st_tapes with_tapes].
  rewrite app_nth2 by lia. rewrite Nat.sub_diag. cbn [nth to_defs].
  unfold nth_defs at 1. unfold eval_start. cbn [st_defs with_tapes with_defs].
  rewrite app_nth2 by lia. rewrite Nat.sub_diag. reflexivity.
Qed.

(* what [descend] produces, explicitly: the target's bytes are the data of a tape object whose call count
   is the count of the root lock's tape + the depth and whose definition table is a copy of that tape's;
   the stack is what lay under the witness items; cache, log and random counter are untouched; the heap
   has grown by one tape object and one definition table per level *)
Theorem descend_spec : forall p t u tid st rest,
  subtree t p = Some u -> st_stack st = wstack t p ++ rest ->
  tdata st tid = tbytes t -> tid < List.length (st_tapes st) ->
  let tid' := fst (descend t p tid st) in
  let st' := snd (descend t p tid st) in
  tdata st' tid' = tbytes u /\
  to_count (nth_tape st' tid') = (to_count (nth_tape st tid) + Z.of_nat (List.length p))%Z /\
  nth_defs st' (to_defs (nth_tape st' tid')) = nth_defs st (to_defs (nth_tape st tid)) /\
  st_stack st' = rest /\ st_cache st' = st_cache st /\ st_log st' = st_log st /\ st_rand st' = st_rand st /\
  tid' < List.length (st_tapes st') /\
  (exists new, st_tapes st' = st_tapes st ++ new /\ List.length new = List.length p) /\
  (exists newd, st_defs st' = st_defs st ++ newd /\ List.length newd = List.length p) /\
  (p <> [] -> tid' = List.length (st_tapes st) + List.length p - 1).
Proof.
  induction p as [|d p IH]; intros t u tid st rest Hsub Hs Hd Hlt; cbv zeta.
  - injection Hsub as <-. cbn [descend fst snd List.length]. repeat split; try assumption; try reflexivity.
    + lia.
    + exists []. rewrite app_nil_r. split; reflexivity.
    + exists []. rewrite app_nil_r. split; reflexivity.
    + intro E. congruence.
  - destruct t as [s|l r]; [discriminate|].
    cbn [subtree] in Hsub. cbn [MerkleTree.wstack app] in Hs. cbn [descend]. rewrite Hs. cbn [skipn].
    set (x := pick d l r) in *.
    set (st1 := eval_start (with_stack st (wstack x p ++ rest)) tid (tbytes x)).
    assert (Ht1 : st_tapes st1 = st_tapes st ++ [{| to_data := tbytes x; to_count := (to_count (nth_tape st tid) + 1)%Z;
                                                    to_defs := List.length (st_defs st) |}]) by reflexivity.
    assert (Hlt1 : List.length (st_tapes st) < List.length (st_tapes st1)).
    { rewrite Ht1, app_length. simpl. lia. }
    destruct (IH x u (List.length (st_tapes st)) st1 rest Hsub eq_refl
                (tdata_eval_new (with_stack st _) tid _) Hlt1)
      as (A1 & A2 & A3 & A4 & A5 & A6 & A7 & A8 & (new & A9 & A9') & (newd & A10 & A10') & A11).
    split; [exact A1|]. split.
    { rewrite A2. unfold st1. rewrite (count_eval_new (with_stack st _) tid _).
      change (nth_tape (with_stack st (wstack x p ++ rest)) tid) with (nth_tape st tid).
      cbn [List.length]. lia. }
    split.
    { rewrite A3. unfold st1. exact (defs_eval_new (with_stack st _) tid _). }
    split; [exact A4|]. split; [exact A5|]. split; [exact A6|]. split; [exact A7|]. split; [exact A8|].
    split.
    { exists ({| to_data := tbytes x; to_count := (to_count (nth_tape st tid) + 1)%Z;
                 to_defs := List.length (st_defs st) |} :: new).
      split; [rewrite A9, Ht1, <- app_assoc; reflexivity|]. simpl. rewrite A9'. reflexivity. }
    split.
    { exists (nth_defs st (to_defs (nth_tape st tid)) :: newd).
      split; [rewrite A10; unfold st1, eval_start; cbn [st_defs with_tapes with_defs with_stack];
              rewrite <- app_assoc; reflexivity|].
      simpl. rewrite A10'. reflexivity. }
    intros _. cbn [List.length]. destruct p as [|d' p'].
    + cbn [descend fst List.length]. lia.
    + rewrite A11 by discriminate. rewrite Ht1, app_length. cbn [List.length]. lia.
Qed.

(* consequences for the two ways a script ends *)
Corollary merkle_complete_raised p t u tid st rest f e fr' st' :
  subtree t p = Some u -> p <> [] ->
  tdata st tid = tbytes t -> tid < List.length (st_tapes st) ->
  st_stack st = wstack t p ++ rest -> no_eval_ban ->
  (to_count (nth_tape st tid) + Z.of_nat (List.length p) <= c_limit cfg)%Z ->
  tbytes u <> [] -> fits cfg (tbytes u) -> 33 <= c_max_item_size cfg ->
  List.length rest + 2 * List.length p + 2 <= c_max_items cfg ->
  run_tape orc cfg (S f) (fst (descend t p tid st)) 0 (snd (descend t p tid st)) = Raised e fr' st' ->
  run_tape orc cfg (List.length p + S f) tid 0 st = Raised e {| fr_tid := tid; fr_ptr := 33 |} st'.
Proof.
  intros Hsub Hp Hd Hlt Hs Hfl Hc Hne Hf Hsz Hsp Hrun.
  rewrite (merkle_complete p t u tid st rest f Hsub Hd Hlt Hs Hfl Hc Hne Hf Hsz Hsp), Hrun.
  destruct p; [congruence|reflexivity].
Qed.

Lemma iter_eval_cache_clear n st' :
  cache_get (st_cache st') returned_key = None -> Nat.iter n eval_cache st' = st'.
Proof.
  intro Hn. induction n as [|n IH]; [reflexivity|].
  cbn [Nat.iter nat_rect]. fold (Nat.iter n eval_cache st'). rewrite IH.
  unfold eval_cache. rewrite Hn. reflexivity.
Qed.

Corollary merkle_complete_done p t u tid st rest f fr' st' :
  subtree t p = Some u -> p <> [] ->
  tdata st tid = tbytes t -> tid < List.length (st_tapes st) ->
  st_stack st = wstack t p ++ rest -> no_eval_ban ->
  (to_count (nth_tape st tid) + Z.of_nat (List.length p) <= c_limit cfg)%Z ->
  tbytes u <> [] -> fits cfg (tbytes u) -> 33 <= c_max_item_size cfg ->
  List.length rest + 2 * List.length p + 2 <= c_max_items cfg ->
  run_tape orc cfg (S f) (fst (descend t p tid st)) 0 (snd (descend t p tid st)) = Done tt fr' st' ->
  run_tape orc cfg (List.length p + S f) tid 0 st =
    Done tt {| fr_tid := tid; fr_ptr := 33 |} (Nat.iter (List.length p) eval_cache st') /\
  (cache_get (st_cache st') returned_key = None -> Nat.iter (List.length p) eval_cache st' = st').
Proof.
  intros Hsub Hp Hd Hlt Hs Hfl Hc Hne Hf Hsz Hsp Hrun.
  rewrite (merkle_complete p t u tid st rest f Hsub Hd Hlt Hs Hfl Hc Hne Hf Hsz Hsp), Hrun.
  split; [destruct p; [congruence|reflexivity]|apply iter_eval_cache_clear].
Qed.

(* the statement for a leaf, with the start state described instead of computed: the lock of t on the
   witness stack of the path to the leaf with script s  =  s run from its first byte as a tape object with call
   count + depth, a copy of the definitions, the stack that lay under the witness items, and the cache, log
   and random counter of the start; a raise is handed up unchanged, a normal end gets OP_EVAL's treatment of
   the control flag once per level *)
Corollary merkle_complete_leaf p t s tid st rest f :
  subtree t p = Some (Leaf s) ->
  tdata st tid = tbytes t -> tid < List.length (st_tapes st) ->
  st_stack st = wstack t p ++ rest -> no_eval_ban ->
  (to_count (nth_tape st tid) + Z.of_nat (List.length p) <= c_limit cfg)%Z ->
  s <> [] -> fits cfg s -> 33 <= c_max_item_size cfg ->
  List.length rest + 2 * List.length p + 2 <= c_max_items cfg ->
  exists tid' st',
    run_tape orc cfg (List.length p + S f) tid 0 st =
      lock_result tid (List.length p) (run_tape orc cfg (S f) tid' 0 st') /\
    tdata st' tid' = s /\
    to_count (nth_tape st' tid') = (to_count (nth_tape st tid) + Z.of_nat (List.length p))%Z /\
    nth_defs st' (to_defs (nth_tape st' tid')) = nth_defs st (to_defs (nth_tape st tid)) /\
    st_stack st' = rest /\ st_cache st' = st_cache st /\ st_log st' = st_log st /\ st_rand st' = st_rand st.
Proof.
  intros Hsub Hd Hlt Hs Hfl Hc Hne Hf Hsz Hsp.
  exists (fst (descend t p tid st)), (snd (descend t p tid st)).
  split; [apply (merkle_complete p t (Leaf s) tid st rest f); assumption|].
  destruct (descend_spec p t (Leaf s) tid st rest Hsub Hs Hd Hlt) as (A1 & A2 & A3 & A4 & A5 & A6 & A7 & _).
  repeat split; assumption.
Qed.

(* ---------- the unlocking script ---------- *)

(* PUSH0 <b> *)
Lemma push0_step f tid st (pre : bytes) b tail s :
  tdata st tid = pre ++ [x02; b] ++ tail -> st_stack st = s ->
  1 <= c_max_item_size cfg -> space cfg s ->
  run_tape orc cfg (S f) tid (List.length pre) st =
    run_tape orc cfg f tid (List.length (pre ++ [x02; b])) (with_stack st ([b] :: s)).
Proof.
  intros Hd Hs Hsz Hsp.
  assert (Hd0 : tdata st tid = pre ++ x02 :: (b :: tail)) by exact Hd.
  rewrite (fetch_at orc cfg f tid st _ pre x02 _ Hd0 eq_refl).
  change (dispatch (N.to_nat (Byte.to_N x02))) with OP_PUSH0.
  unfold OP_PUSH0, read, put, act. cbn [bind].
  assert (Hd1 : tdata st tid = (pre ++ [x02]) ++ [b] ++ tail) by (rewrite Hd0, <- app_assoc; reflexivity).
  rewrite (read_at orc cfg _ _ _ tid (S (List.length pre)) st (pre ++ [x02]) [b] tail 1 Hd1)
    by (first [rewrite app_length; simpl; lia | reflexivity]).
  rewrite (put_step orc cfg _ _ _ _ st [b] s Hs) by (first [unfold fits; simpl; lia | exact Hsp]).
  cbn [interp fr_ptr]. f_equal. rewrite app_length. simpl. lia.
Qed.

(* PUSH2 <len:2> <v> *)
Lemma push2_step f tid st (pre v tail : bytes) s :
  tdata st tid = pre ++ (x04 :: len2 v ++ v) ++ tail -> (blen v < 65536)%Z -> st_stack st = s ->
  fits cfg v -> space cfg s ->
  run_tape orc cfg (S f) tid (List.length pre) st =
    run_tape orc cfg f tid (List.length (pre ++ x04 :: len2 v ++ v)) (with_stack st (v :: s)).
Proof.
  intros Hd Hl Hs Hf Hsp.
  assert (Hd0 : tdata st tid = pre ++ x04 :: (len2 v ++ v ++ tail)).
  { rewrite Hd. cbn [app]. rewrite <- app_assoc. reflexivity. }
  rewrite (fetch_at orc cfg f tid st _ pre x04 _ Hd0 eq_refl).
  change (dispatch (N.to_nat (Byte.to_N x04))) with OP_PUSH2.
  unfold OP_PUSH2, read_u16, read, put, act. cbn [bind].
  assert (Hd1 : tdata st tid = (pre ++ [x04]) ++ len2 v ++ (v ++ tail)) by (rewrite Hd0, <- app_assoc; reflexivity).
  rewrite (read_at orc cfg _ _ _ tid (S (List.length pre)) st (pre ++ [x04]) (len2 v) (v ++ tail) 2 Hd1)
    by (first [rewrite app_length; simpl; lia | rewrite length_len2; reflexivity]).
  cbn [bind]. rewrite be_len2 by exact Hl.
  assert (Hd2 : tdata st tid = ((pre ++ [x04]) ++ len2 v) ++ v ++ tail) by (rewrite Hd1; apply app_assoc).
  rewrite (read_at orc cfg _ _ _ tid _ st ((pre ++ [x04]) ++ len2 v) v tail (blen v) Hd2)
    by (first [rewrite !app_length; simpl; lia | unfold blen; apply Nat2Z.id]).
  rewrite (put_step orc cfg _ _ _ _ st v s Hs Hf Hsp).
  cbn [interp fr_ptr]. f_equal. rewrite app_length. cbn [List.length]. rewrite app_length. lia.
Qed.

(* the PUSH pseudo-instruction, whatever form the compiler chose *)
Lemma push_any_step f tid st (pre v e tail : bytes) s :
  push_bytes v = Some e -> tdata st tid = pre ++ e ++ tail -> st_stack st = s ->
  fits cfg v -> space cfg s ->
  run_tape orc cfg (S f) tid (List.length pre) st =
    run_tape orc cfg f tid (List.length (pre ++ e)) (with_stack st (v :: s)).
Proof.
  intros He Hd Hs Hf Hsp. unfold push_bytes, push_instr in He.
  destruct v as [|b0 [|b1 v']].
  - discriminate.
  - injection He as <-. apply (push0_step f tid st pre b0 tail s Hd Hs); [exact Hf|exact Hsp].
  - set (v := b0 :: b1 :: v') in *.
    destruct ((1 <? blen v)%Z && (blen v <? 256)%Z) eqn:E1.
    + injection He as <-. apply andb_true_iff in E1. destruct E1 as [_ E1]. apply Z.ltb_lt in E1.
      apply (push1_step orc cfg f tid st pre v tail s); try assumption. unfold blen in E1. lia.
    + destruct ((255 <? blen v)%Z && (blen v <? 65536)%Z) eqn:E2; [|discriminate].
      injection He as <-. apply andb_true_iff in E2. destruct E2 as [_ E2]. apply Z.ltb_lt in E2.
      apply (push2_step f tid st pre v tail s); assumption.
Qed.

Lemma push_bytes_nonempty v e : push_bytes v = Some e -> v <> [].
Proof. intros He E. subst v. discriminate. Qed.

Lemma unlock_rel_nonempty : forall p t u w,
  p <> [] -> subtree t p = Some u -> unlock_rel t p = Some w -> tbytes u <> [].
Proof.
  induction p as [|d p IH]; intros t u w Hp Hsub Hw; [congruence|].
  destruct t as [s|l r]; [discriminate|]. cbn [subtree] in Hsub. cbn [MerkleTree.unlock_rel] in Hw.
  destruct (unlock_rel (pick d l r) p) as [w'|] eqn:E1; [|discriminate].
  destruct (push_bytes (commitment (other d l r))) as [a|]; [|discriminate].
  destruct (push_bytes (tbytes (pick d l r))) as [b|] eqn:E3; [|discriminate].
  destruct p as [|d' p'].
  - injection Hsub as <-. exact (push_bytes_nonempty _ _ E3).
  - apply (IH _ _ _ ltac:(discriminate) Hsub E1).
Qed.

(* the unlocking script, anywhere on a tape: 2 pushes per level, leaving the witness stack on top of what
   was there *)
Theorem witness_runs : forall p t u w f tid st (pre tail : bytes) rest,
  subtree t p = Some u -> unlock_rel t p = Some w ->
  tdata st tid = pre ++ w ++ tail -> st_stack st = rest ->
  fits cfg (tbytes u) -> 33 <= c_max_item_size cfg ->
  List.length rest + 2 * List.length p <= c_max_items cfg ->
  run_tape orc cfg (2 * List.length p + f) tid (List.length pre) st =
    run_tape orc cfg f tid (List.length (pre ++ w)) (with_stack st (wstack t p ++ rest)).
Proof.
  induction p as [|d p IH]; intros t u w f tid st pre tail rest Hsub Hw Hd Hs Hf Hsz Hsp.
  - injection Hw as <-. rewrite app_nil_r. cbn [MerkleTree.wstack app List.length Nat.mul Nat.add].
    rewrite <- Hs, with_stack_same. reflexivity.
  - destruct t as [s|l r]; [discriminate|]. cbn [subtree] in Hsub. cbn [MerkleTree.unlock_rel] in Hw.
    set (x := pick d l r) in *. set (sb := other d l r) in *.
    destruct (unlock_rel x p) as [w'|] eqn:E1; [|discriminate].
    destruct (push_bytes (commitment sb)) as [a|] eqn:E2; [|discriminate].
    destruct (push_bytes (tbytes x)) as [b|] eqn:E3; [|discriminate].
    injection Hw as <-.
    cbn [List.length] in *. cbn [MerkleTree.wstack]. fold x. fold sb.
    pose proof (wstack_length _ _ _ Hsub) as Hwl.
    assert (Fx : fits cfg (tbytes x)).
    { destruct p as [|d' p'].
      - injection Hsub as <-. exact Hf.
      - destruct x as [sx|lx rx]; [discriminate|]. unfold fits. cbn [MerkleTree.tbytes]. rewrite lock_length. exact Hsz. }
    replace (2 * S (List.length p) + f) with (2 * List.length p + S (S f)) by lia.
    assert (Hd0 : tdata st tid = pre ++ w' ++ (a ++ b ++ tail)).
    { rewrite Hd, <- !app_assoc. reflexivity. }
    rewrite (IH x u w' (S (S f)) tid st pre (a ++ b ++ tail) rest Hsub E1 Hd0 Hs Hf Hsz) by lia.
    set (st1 := with_stack st (wstack x p ++ rest)).
    assert (Hd1 : tdata st1 tid = (pre ++ w') ++ a ++ (b ++ tail)).
    { change (tdata st1 tid) with (tdata st tid). rewrite Hd0, <- !app_assoc. reflexivity. }
    rewrite (push_any_step (S f) tid st1 (pre ++ w') (commitment sb) a (b ++ tail) (wstack x p ++ rest) E2 Hd1 eq_refl)
      by (first [ unfold fits; rewrite commitment_length; lia
                | unfold space; rewrite app_length, Hwl; lia ]).
    set (st2 := with_stack st1 (commitment sb :: wstack x p ++ rest)).
    assert (Hd2 : tdata st2 tid = ((pre ++ w') ++ a) ++ b ++ tail).
    { change (tdata st2 tid) with (tdata st tid). rewrite Hd0, <- !app_assoc. reflexivity. }
    rewrite (push_any_step f tid st2 ((pre ++ w') ++ a) (tbytes x) b tail
               (commitment sb :: wstack x p ++ rest) E3 Hd2 eq_refl Fx)
      by (unfold space; cbn [List.length]; rewrite app_length, Hwl; lia).
    rewrite <- !app_assoc. reflexivity.
Qed.

(* ---------- the pair [unlocking script; locking script] through run_auth_scripts ---------- *)

Definition auth_finish (o : outcome unit) : auth_result :=
  match o with
  | Done _ _ st' =>
    match st_stack st' with
    | [item] => AuthVerdict (bytes_eqb item [xff]) (with_stack st' [])
    | _ => AuthVerdict false st'
    end
  | Raised _ _ st' => AuthVerdict false st'
  | OutOfFuel => AuthFuel
  | Unmodelled w => AuthUnmod w
  end.

(* the state in which the root lock starts as second script, after the unlocking script w *)
Definition lock_state (w : bytes) (vals : cache) (stack : list bytes) (lk : bytes) : state :=
  snd (next_start (with_stack (init_state cfg w vals) stack) 0 lk).

Theorem merkle_auth p l r u w vals f :
  subtree (Node l r) p = Some u -> p <> [] -> unlock (Node l r) p = Some w ->
  no_eval_ban -> (Z.of_nat (List.length p) <= c_limit cfg)%Z ->
  fits cfg (tbytes u) -> 33 <= c_max_item_size cfg -> 2 * List.length p + 2 <= c_max_items cfg ->
  let st2 := lock_state w vals (wstack (Node l r) p) (lock l r) in
  run_auth_scripts orc cfg (2 * List.length p + S f) [w; lock l r] vals =
    auth_finish
      (lock_result 1 (List.length p)
         (run_tape orc cfg (S (List.length p + f)) (fst (descend (Node l r) p 1 st2)) 0
                   (snd (descend (Node l r) p 1 st2)))).
Proof.
  intros Hsub Hp Hw Hfl Hc Hf Hsz Hsp st2.
  cbn [MerkleTree.unlock] in Hw.
  pose proof (unlock_rel_nonempty p _ u w Hp Hsub Hw) as Hne.
  unfold run_auth_scripts, run_script.
  set (st0 := init_state cfg w vals).
  assert (Hd0 : tdata st0 0 = [] ++ w ++ []) by (rewrite app_nil_r; reflexivity).
  change (run_tape orc cfg (2 * List.length p + S f) 0 0 st0)
    with (run_tape orc cfg (2 * List.length p + S f) 0 (List.length (@nil byte)) st0).
  rewrite (witness_runs p (Node l r) u w (S f) 0 st0 [] [] [] Hsub Hw Hd0 eq_refl Hf Hsz) by (simpl; lia).
  rewrite app_nil_r. cbn [app].
  rewrite run_tape_end by (change (tdata (with_stack st0 (wstack (Node l r) p)) 0) with w; lia).
  rewrite auth_rest_unfold.
  change (snd (next_start (with_stack st0 (wstack (Node l r) p)) 0 (lock l r))) with st2.
  change (fst (next_start (with_stack st0 (wstack (Node l r) p)) 0 (lock l r))) with 1.
  replace (2 * List.length p + S f) with (List.length p + S (List.length p + f)) by lia.
  rewrite (merkle_complete p (Node l r) u 1 st2 [] (List.length p + f) Hsub);
    [ | reflexivity | simpl; lia | rewrite app_nil_r; reflexivity | exact Hfl
      | change (to_count (nth_tape st2 1)) with 0%Z; lia | exact Hne | exact Hf | exact Hsz | simpl; lia ].
  destruct (lock_result 1 (List.length p) _) as [[] fr' st'|e fr' st'| |w0]; reflexivity.
Qed.

(* ---------- 4. binding, for the lock of a node ---------- *)

(* the lock of [Node l r] on ANY top pair (script, sib): unless the pair hashes to the root, the lock raises
   at EQUAL_VERIFY, in its own frame; nothing of [script] has run: no tape object was created, cache, log and
   definitions are those of the start, the stack has only lost the sibling item *)
Theorem merkle_binding_tree f tid st l r script sib rest :
  tdata st tid = lock l r -> st_stack st = script :: sib :: rest ->
  fits cfg script -> fits cfg sib -> 32 <= c_max_item_size cfg -> List.length rest + 4 <= c_max_items cfg ->
  xor_bytes (H sib) (H (H script)) <> root l r ->
  run_tape orc cfg (S f) tid 0 st =
    Raised ScriptExecutionError {| fr_tid := tid; fr_ptr := 33 |} (with_stack st (script :: rest)).
Proof.
  intros Hd Hs Hf1 Hf2 Hsz Hsp Hneq.
  assert (Hd0 : tdata st tid = [] ++ x3c :: root l r) by (rewrite Hd; apply lock_bytes).
  rewrite (fetch_at orc cfg f tid st 0 [] x3c (root l r) Hd0 eq_refl).
  change (dispatch (N.to_nat (Byte.to_N x3c))) with OP_MERKLEVAL.
  assert (Hda : data_at {| fr_tid := tid; fr_ptr := 1 |} st = root l r ++ []).
  { rewrite app_nil_r. exact (data_at_after tid st [] x3c (root l r) Hd0). }
  assert (F32 : forall b, List.length b = 32 -> fits cfg b) by (intros b Hb; unfold fits; lia).
  assert (Hmc : merkle_commit (H (H script)) (H sib) = xor_bytes (H sib) (H (H script))).
  { unfold merkle_commit. symmetry. apply xor_bytes_zip_pad. rewrite !Hlen. reflexivity. }
  rewrite (merkleval_binding orc cfg _ _ st (root l r) [] script sib rest (H script) (H (H script)) (H sib) Hda);
    try (apply Horc); try exact Hs; try exact Hf1; try exact Hf2; try exact Hsp; try lia;
    try (apply F32; first [apply Hlen | apply root_length]).
  - rewrite Hmc. rewrite bytes_eqb_neq by (intro E; apply Hneq; symmetry; exact E). reflexivity.
  - apply root_length.
  - rewrite Hmc. apply F32. rewrite xor_bytes_length; rewrite !Hlen; reflexivity.
Qed.

(* contrapositive: whenever the lock of a node does anything else than that raise, the pair on top of the
   stack hashes to the node's root *)
Corollary merkle_binding_tree_inv f tid st l r script sib rest :
  tdata st tid = lock l r -> st_stack st = script :: sib :: rest ->
  fits cfg script -> fits cfg sib -> 32 <= c_max_item_size cfg -> List.length rest + 4 <= c_max_items cfg ->
  run_tape orc cfg (S f) tid 0 st <>
    Raised ScriptExecutionError {| fr_tid := tid; fr_ptr := 33 |} (with_stack st (script :: rest)) ->
  xor_bytes (H sib) (H (H script)) = root l r.
Proof.
  intros Hd Hs Hf1 Hf2 Hsz Hsp Hrun.
  destruct (bytes_eqb (xor_bytes (H sib) (H (H script))) (root l r)) eqn:E.
  - apply bytes_eqb_eq. exact E.
  - exfalso. apply Hrun. apply (merkle_binding_tree f tid st l r script sib rest Hd Hs Hf1 Hf2 Hsz Hsp).
    intro E'. rewrite E', bytes_eqb_refl in E. discriminate.
Qed.

End MTP.

(* ---------- 5. pack / unpack ---------- *)

Lemma len2_bytes (v : bytes) : len2 v = [z2b (Z.shiftr (blen v) 8); z2b (blen v)].
Proof. reflexivity. Qed.

Lemma firstn_after {A} (a b : list A) : firstn (List.length a) (a ++ b) = a.
Proof. rewrite firstn_app, Nat.sub_diag, firstn_all. simpl. apply app_nil_r. Qed.

Lemma skipn_after' {A} (a b : list A) : skipn (List.length a) (a ++ b) = b.
Proof. rewrite skipn_app, Nat.sub_diag, skipn_all. reflexivity. Qed.

Lemma len2_decode (v : bytes) :
  (blen v <? 65536)%Z = true ->
  Z.to_nat (be_to_Z [z2b (Z.shiftr (blen v) 8); z2b (blen v)]) = List.length v.
Proof.
  intro Hl. apply Z.ltb_lt in Hl. change [z2b (Z.shiftr (blen v) 8); z2b (blen v)] with (len2 v).
  rewrite be_len2 by exact Hl. unfold blen. apply Nat2Z.id.
Qed.

Definition unpack_ok (t : tree) : Prop :=
  match t with
  | Leaf _ => True
  | Node _ _ => packable t = true -> forall fuel, List.length (pack t) <= fuel -> unpack_fuel fuel (pack t) = Some t
  end.

Lemma unpack_sub k c :
  unpack_ok c -> packable c = true -> List.length (pack c) <= k ->
  (if Byte.eqb (tag c) tag_L then Some (Leaf (pack c)) else unpack_fuel k (pack c)) = Some c.
Proof.
  intros Hok Hp Hk. destruct c as [s|l r].
  - reflexivity.
  - change (Byte.eqb (tag (Node l r)) tag_L) with false. cbv iota. apply Hok; assumption.
Qed.

Lemma unpack_pack_all t : unpack_ok t.
Proof.
  induction t as [s|l IHl r IHr]; [exact I|].
  intros Hp fuel Hfuel. cbn [packable] in Hp.
  apply andb_true_iff in Hp. destruct Hp as [Hp Hr2].
  apply andb_true_iff in Hp. destruct Hp as [Hp Hr1].
  apply andb_true_iff in Hp. destruct Hp as [Hl1 Hl2].
  cbn [pack] in *.
  set (pl := pack l) in *. set (pr := pack r) in *.
  rewrite (len2_bytes pl), (len2_bytes pr) in *. cbn [app] in *.
  destruct fuel as [|k]; [simpl in Hfuel; lia|].
  assert (Hk : List.length pl <= k /\ List.length pr <= k).
  { cbn [List.length] in Hfuel. rewrite app_length in Hfuel. cbn [List.length] in Hfuel. lia. }
  cbn [unpack_fuel].
  rewrite (len2_decode pl Hl2). rewrite skipn_after', firstn_after.
  rewrite (len2_decode pr Hr2). rewrite firstn_all.
  unfold pl, pr. rewrite (unpack_sub k l IHl Hl1) by apply Hk. rewrite (unpack_sub k r IHr Hr1) by apply Hk.
  reflexivity.
Qed.

(* unpack (pack t) = Some t for every node all of whose packed subtrees fit the 2-byte length field, i.e.
   exactly when ScriptNode.pack does not raise struct.error *)
Theorem pack_unpack l r : packable (Node l r) = true -> unpack (pack (Node l r)) = Some (Node l r).
Proof. intro Hp. unfold unpack. apply (unpack_pack_all (Node l r) Hp). lia. Qed.

Corollary pack_opt_unpack l r b : pack_opt (Node l r) = Some b -> unpack b = Some (Node l r).
Proof.
  unfold pack_opt. destruct (packable (Node l r)) eqn:E; [|discriminate].
  intro Hb. injection Hb as <-. apply pack_unpack. exact E.
Qed.

(* ---------- non-vacuity: the premises of merkle_auth hold for a concrete oracle, configuration and tree ---------- *)
Module Demo.
Definition H (b : bytes) : bytes := firstn 32 (b ++ repeat x00 32).
Lemma H_len b : List.length (H b) = 32.
Proof. unfold H. rewrite firstn_length, app_length, repeat_length. lia. Qed.
Definition orc : oracle :=
  fun p args => match p, args with PSha256, [b] => OOk [H b] | _, _ => OErr OtherError end.
Lemma orc_H b : orc PSha256 [b] = OOk [H b].
Proof. reflexivity. Qed.
Definition cfg : config :=
  {| c_max_items := 64; c_max_item_size := 64; c_limit := 8; c_flags := []; c_sigext := [];
     c_ctplugins := []; c_contracts := []; c_now := 0 |}.
Definition l : tree := Node (Leaf [x01]) (Leaf [x00]).          (* OP_TRUE | OP_FALSE *)
Definition r : tree := Leaf [x00; x06; x01].                    (* OP_FALSE OP_POP0 OP_TRUE *)

Example demo_true : exists w st,
  unlock H (Node l r) [L; L] = Some w /\
  run_auth_scripts orc cfg (2 * 2 + S 3) [w; lock H l r] [] = AuthVerdict true st.
Proof.
  destruct (unlock H (Node l r) [L; L]) as [w|] eqn:E; [|vm_compute in E; discriminate].
  eexists w, _. split; [reflexivity|].
  pose proof (merkle_auth orc cfg H orc_H H_len [L; L] l r (Leaf [x01]) w [] 3 eq_refl ltac:(discriminate) E
             eq_refl ltac:(vm_compute; discriminate) ltac:(unfold fits; simpl; lia) ltac:(simpl; lia) ltac:(simpl; lia))
    as Hm.
  cbv zeta in Hm. change (List.length [L; L]) with 2 in Hm. rewrite Hm. clear Hm.
  vm_compute in E. injection E as <-. vm_compute. reflexivity.
Qed.
End Demo.

Print Assumptions merkle_step.
Print Assumptions merkle_complete.
Print Assumptions descend_spec.
Print Assumptions merkle_complete_leaf.
Print Assumptions merkle_complete_raised.
Print Assumptions merkle_complete_done.
Print Assumptions witness_runs.
Print Assumptions merkle_auth.
Print Assumptions merkle_binding_tree.
Print Assumptions merkle_binding_tree_inv.
Print Assumptions pack_unpack.
