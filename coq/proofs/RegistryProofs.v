(* RegistryProofs.v — the registries of model/Registry.v behave as sets / partial maps. *)
From Coq Require Import List Bool Arith Lia.
From TS Require Import Registry.
Import ListNotations.

(* ---------- lists ---------- *)
Lemma mem_In : forall n l, mem n l = true <-> In n l.
Proof.
  intros n l. unfold mem. rewrite existsb_exists. split.
  - intros [x [H1 H2]]. apply Nat.eqb_eq in H2. subst. exact H1.
  - intros H. exists n. split; [exact H | apply Nat.eqb_refl].
Qed.

Lemma mem_not_In : forall n l, mem n l = false <-> ~ In n l.
Proof.
  intros n l. rewrite <- mem_In. destruct (mem n l); split; intros; congruence.
Qed.

Lemma mem_app : forall n l1 l2, mem n (l1 ++ l2) = mem n l1 || mem n l2.
Proof. intros. apply existsb_app. Qed.

Lemma mem_single : forall n x, mem n [x] = Nat.eqb n x.
Proof. intros. unfold mem. simpl. apply orb_false_r. Qed.

Lemma remove_first_In : forall x n l, In x (remove_first n l) -> In x l.
Proof.
  intros x n l. induction l as [|a t IH]; simpl; auto.
  destruct (Nat.eqb n a); simpl; intuition.
Qed.

Lemma remove_first_NoDup : forall n l, NoDup l -> NoDup (remove_first n l).
Proof.
  intros n l H. induction H as [|x t Hx Ht IH]; simpl.
  - constructor.
  - destruct (Nat.eqb n x); auto. constructor; auto.
    intro Hin. apply Hx. eapply remove_first_In; eauto.
Qed.

Lemma remove_first_notin : forall n l, ~ In n l -> remove_first n l = l.
Proof.
  intros n l. induction l as [|a t IH]; simpl; auto. intros H.
  destruct (Nat.eqb_spec n a).
  - exfalso. apply H. left. congruence.
  - f_equal. apply IH. intro. apply H. right. assumption.
Qed.

Lemma remove_first_remove : forall n l, NoDup l -> remove_first n l = remove Nat.eq_dec n l.
Proof.
  intros n l H. induction H as [|x t Hx Ht IH]; simpl; auto.
  destruct (Nat.eqb_spec n x); destruct (Nat.eq_dec n x); try congruence.
  subst. symmetry. apply notin_remove. exact Hx.
Qed.

Lemma mem_remove_first : forall x n l, NoDup l ->
  mem x (remove_first n l) = mem x l && negb (Nat.eqb x n).
Proof.
  intros x n l H. apply eq_true_iff_eq.
  rewrite andb_true_iff, negb_true_iff, Nat.eqb_neq, !mem_In, remove_first_remove by exact H.
  split.
  - apply in_remove.
  - intros [H1 H2]. apply in_in_remove; assumption.
Qed.

Lemma NoDup_snoc : forall (x : nat) l, NoDup l -> ~ In x l -> NoDup (l ++ [x]).
Proof.
  intros x l H Hx. induction H as [|y t Hy Ht IH]; simpl.
  - constructor; [intros [] | constructor].
  - constructor.
    + rewrite in_app_iff. intros [H | [H | []]]; [auto | subst; apply Hx; left; reflexivity].
    + apply IH. intro. apply Hx. right. assumption.
Qed.

(* ---------- association lists ---------- *)
Section AssocLemmas.
  Context {A : Type}.
  Implicit Types (l : list (nat * A)) (k : nat) (v : A).

  Lemma alookup_aset_eq : forall k v l, alookup k (aset k v l) = Some v.
  Proof.
    intros k v l. induction l as [|[k' v'] t IH]; simpl.
    - rewrite Nat.eqb_refl. reflexivity.
    - destruct (Nat.eqb k k') eqn:E; simpl; rewrite E; auto.
  Qed.

  Lemma alookup_aset_neq : forall k k' v l, k' <> k -> alookup k' (aset k v l) = alookup k' l.
  Proof.
    intros k k' v l Hn. induction l as [|[k1 v1] t IH]; simpl.
    - destruct (Nat.eqb_spec k' k); congruence.
    - destruct (Nat.eqb_spec k k1); simpl.
      + subst. destruct (Nat.eqb_spec k' k1); congruence.
      + rewrite IH. reflexivity.
  Qed.

  Lemma alookup_None_iff : forall k l, alookup k l = None <-> ~ In k (map fst l).
  Proof.
    intros k l. induction l as [|[k1 v1] t IH]; simpl.
    - intuition.
    - destruct (Nat.eqb_spec k k1).
      + split; [discriminate | intros H; exfalso; apply H; left; congruence].
      + rewrite IH. intuition.
  Qed.

  Lemma alookup_In : forall k v l, alookup k l = Some v -> In (k, v) l.
  Proof.
    intros k v l. induction l as [|[k1 v1] t IH]; simpl; [discriminate|].
    destruct (Nat.eqb_spec k k1).
    - intros H. inversion H. subst. left. reflexivity.
    - intros H. right. apply IH. exact H.
  Qed.

  Lemma keys_aset : forall x k v l, In x (map fst (aset k v l)) -> x = k \/ In x (map fst l).
  Proof.
    intros x k v l. induction l as [|[k1 v1] t IH]; simpl.
    - intros [H | []]. left. congruence.
    - destruct (Nat.eqb_spec k k1); simpl.
      + intuition.
      + intros [H | H]; [right; left; exact H|]. destruct (IH H); auto.
  Qed.

  Lemma keys_aset_present : forall k v l, alookup k l <> None -> map fst (aset k v l) = map fst l.
  Proof.
    intros k v l. induction l as [|[k1 v1] t IH]; simpl; [congruence|].
    destruct (Nat.eqb_spec k k1); simpl; intros H; [reflexivity|]. f_equal. apply IH. exact H.
  Qed.

  Lemma keys_aset_absent : forall k v l, alookup k l = None -> map fst (aset k v l) = map fst l ++ [k].
  Proof.
    intros k v l. induction l as [|[k1 v1] t IH]; simpl; [reflexivity|].
    destruct (Nat.eqb_spec k k1); simpl; intros H; [discriminate|]. f_equal. apply IH. exact H.
  Qed.

  Lemma aset_absent : forall k v l, alookup k l = None -> aset k v l = l ++ [(k, v)].
  Proof.
    intros k v l. induction l as [|[k1 v1] t IH]; simpl; [reflexivity|].
    destruct (Nat.eqb_spec k k1); simpl; intros H; [discriminate|]. f_equal. apply IH. exact H.
  Qed.

  Lemma NoDup_keys_aset : forall k v l, NoDup (map fst l) -> NoDup (map fst (aset k v l)).
  Proof.
    intros k v l. induction l as [|[k1 v1] t IH]; simpl; intros H.
    - constructor; [intros [] | constructor].
    - inversion H as [|? ? Hk Ht]; subst.
      destruct (Nat.eqb_spec k k1); simpl.
      + constructor; assumption.
      + constructor; auto. intro Hin. apply keys_aset in Hin. destruct Hin; [congruence | auto].
  Qed.

  Lemma Forall_aset : forall (P : nat * A -> Prop) k v l, P (k, v) -> Forall P l -> Forall P (aset k v l).
  Proof.
    intros P k v l Hp H. induction H as [|[k1 v1] t H1 Ht IH]; simpl.
    - constructor; [exact Hp | constructor].
    - destruct (Nat.eqb_spec k k1).
      + subst. constructor; assumption.
      + constructor; assumption.
  Qed.

  Lemma keys_adel : forall x k l, In x (map fst (adel k l)) -> In x (map fst l).
  Proof.
    intros x k l. induction l as [|[k1 v1] t IH]; simpl; auto.
    destruct (Nat.eqb k k1); simpl; intuition.
  Qed.

  Lemma NoDup_keys_adel : forall k l, NoDup (map fst l) -> NoDup (map fst (adel k l)).
  Proof.
    intros k l. induction l as [|[k1 v1] t IH]; simpl; intros H; [constructor|].
    inversion H as [|? ? Hk Ht]; subst.
    destruct (Nat.eqb k k1); simpl; auto.
    constructor; auto. intro Hin. apply Hk. eapply keys_adel; eauto.
  Qed.

  Lemma alookup_adel_eq : forall k l, NoDup (map fst l) -> alookup k (adel k l) = None.
  Proof.
    intros k l. induction l as [|[k1 v1] t IH]; simpl; intros H; [reflexivity|].
    inversion H as [|? ? Hk Ht]; subst.
    destruct (Nat.eqb_spec k k1); simpl.
    - subst. apply alookup_None_iff. exact Hk.
    - destruct (Nat.eqb_spec k k1); [congruence | auto].
  Qed.

  Lemma alookup_adel_neq : forall k k' l, k' <> k -> alookup k' (adel k l) = alookup k' l.
  Proof.
    intros k k' l Hn. induction l as [|[k1 v1] t IH]; simpl; [reflexivity|].
    destruct (Nat.eqb_spec k k1); simpl.
    - subst. destruct (Nat.eqb_spec k' k1); congruence.
    - rewrite IH. reflexivity.
  Qed.
End AssocLemmas.

(* ---------- the representation invariant ---------- *)
Definition reg_inv (r : reg) : Prop :=
  NoDup (map fst (r_plugins r)) /\
  Forall (fun e => NoDup (snd e)) (r_plugins r) /\
  NoDup (map fst (r_contracts r)) /\
  NoDup (r_ifaces r) /\
  NoDup (map fst (r_aliases r)).

Lemma reg_inv_unfold : forall r, reg_inv r <->
  NoDup (map fst (r_plugins r)) /\
  Forall (fun e => NoDup (snd e)) (r_plugins r) /\
  NoDup (map fst (r_contracts r)) /\
  NoDup (r_ifaces r) /\
  NoDup (map fst (r_aliases r)).
Proof. intros r. apply iff_refl. Qed.

Lemma reg_inv_plugins_of : forall r s, reg_inv r -> NoDup (plugins_of r s).
Proof.
  intros r s (_ & H & _). unfold plugins_of.
  destruct (alookup s (r_plugins r)) eqn:E; [|constructor].
  apply alookup_In in E. rewrite Forall_forall in H. exact (H _ E).
Qed.

Lemma reg_init_inv : forall ifaces aliases,
  NoDup ifaces -> NoDup (map fst aliases) -> reg_inv (reg_init ifaces aliases).
Proof.
  intros ifaces aliases Hi Ha. unfold reg_inv, reg_init; simpl. repeat split; auto.
  - constructor; [simpl; intros [H | []]; discriminate|]. constructor; [intros []|constructor].
  - repeat constructor.
  - constructor.
Qed.

Section Step.
  Variable implements : nat -> nat -> bool.
  Variable known_op : nat -> bool.
  Notation step r o := (fst (rstep implements known_op r o)).
  Notation out r o := (snd (rstep implements known_op r o)).

  (* ---------- 6. errors change nothing ---------- *)
  Lemma errors_change_nothing : forall r o, out r o = RErr -> step r o = r.
  Proof.
    intros r o. destruct o; simpl;
      repeat match goal with |- context [match ?x with _ => _ end] => destruct x end;
      simpl; intros; congruence.
  Qed.

  Lemma rstep_err_iff : forall r o,
    out r o = RErr <->
    match o with
    | AddContract _ k => forall i, In i (r_ifaces r) -> implements k i = false
    | AddAlias a o' => known_op o' = false \/ alookup a (r_aliases r) <> None
    | _ => False
    end.
  Proof.
    intros r o. destruct o as [s p|s p|s|id k|id|i|i|a o]; simpl;
      try (try destruct (alookup s (r_plugins r)); simpl; (split; [discriminate | intros []])).
    - destruct (existsb (implements k) (r_ifaces r)) eqn:E; simpl.
      + split; [discriminate|]. intros H. apply existsb_exists in E. destruct E as [i [H1 H2]].
        rewrite (H i H1) in H2. discriminate.
      + split; [|reflexivity]. intros _ i Hi.
        destruct (implements k i) eqn:E2; [|reflexivity].
        assert (existsb (implements k) (r_ifaces r) = true) by (apply existsb_exists; eauto).
        congruence.
    - unfold amem. destruct (known_op o); destruct (alookup a (r_aliases r)); simpl;
        split; intros H; try reflexivity; try (left; reflexivity); try (right; discriminate);
        try congruence; destruct H; congruence.
  Qed.

  (* ---------- 3./4. effect on the plugin lists; frames ---------- *)
  Lemma add_plugin_same : forall r s p,
    plugins_of (step r (AddPlugin s p)) s =
    if mem p (plugins_of r s) then plugins_of r s else plugins_of r s ++ [p].
  Proof. intros. simpl. unfold plugins_of at 1. simpl. rewrite alookup_aset_eq. reflexivity. Qed.

  Lemma add_plugin_new : forall r s p, ~ In p (plugins_of r s) ->
    plugins_of (step r (AddPlugin s p)) s = plugins_of r s ++ [p].
  Proof. intros r s p H. rewrite add_plugin_same. apply mem_not_In in H. rewrite H. reflexivity. Qed.

  Lemma add_plugin_old : forall r s p, In p (plugins_of r s) ->
    plugins_of (step r (AddPlugin s p)) s = plugins_of r s.
  Proof. intros r s p H. rewrite add_plugin_same. apply mem_In in H. rewrite H. reflexivity. Qed.

  Lemma remove_plugin_first : forall r s p,
    plugins_of (step r (RemovePlugin s p)) s = remove_first p (plugins_of r s).
  Proof.
    intros. simpl. unfold plugins_of at 2. destruct (alookup s (r_plugins r)) eqn:E; simpl.
    - unfold plugins_of. simpl. rewrite alookup_aset_eq. reflexivity.
    - unfold plugins_of. rewrite E. reflexivity.
  Qed.

  Lemma remove_plugin_same : forall r s p, reg_inv r ->
    plugins_of (step r (RemovePlugin s p)) s = remove Nat.eq_dec p (plugins_of r s).
  Proof.
    intros r s p H. rewrite remove_plugin_first. apply remove_first_remove.
    apply reg_inv_plugins_of. exact H.
  Qed.

  Lemma reset_clears : forall r s, plugins_of (step r (ResetPlugins s)) s = [].
  Proof.
    intros. simpl. destruct (alookup s (r_plugins r)) eqn:E; simpl.
    - unfold plugins_of. simpl. rewrite alookup_aset_eq. reflexivity.
    - unfold plugins_of. rewrite E. reflexivity.
  Qed.

  Definition same_but_plugins (r r' : reg) : Prop :=
    r_contracts r' = r_contracts r /\ r_ifaces r' = r_ifaces r /\ r_aliases r' = r_aliases r.

  Lemma same_but_plugins_unfold : forall r r', same_but_plugins r r' <->
    r_contracts r' = r_contracts r /\ r_ifaces r' = r_ifaces r /\ r_aliases r' = r_aliases r.
  Proof. intros r r'. apply iff_refl. Qed.

  Lemma frame_AddPlugin : forall r s p,
    same_but_plugins r (step r (AddPlugin s p)) /\
    forall s', s' <> s -> alookup s' (r_plugins (step r (AddPlugin s p))) = alookup s' (r_plugins r).
  Proof.
    intros. split; [repeat split|]. intros s' H. simpl. apply alookup_aset_neq. exact H.
  Qed.

  Lemma frame_RemovePlugin : forall r s p,
    same_but_plugins r (step r (RemovePlugin s p)) /\
    forall s', s' <> s -> alookup s' (r_plugins (step r (RemovePlugin s p))) = alookup s' (r_plugins r).
  Proof.
    intros. simpl. destruct (alookup s (r_plugins r)); simpl; (split; [repeat split|]); auto.
    intros s' H. apply alookup_aset_neq. exact H.
  Qed.

  Lemma frame_ResetPlugins : forall r s,
    same_but_plugins r (step r (ResetPlugins s)) /\
    forall s', s' <> s -> alookup s' (r_plugins (step r (ResetPlugins s))) = alookup s' (r_plugins r).
  Proof.
    intros. simpl. destruct (alookup s (r_plugins r)); simpl; (split; [repeat split|]); auto.
    intros s' H. apply alookup_aset_neq. exact H.
  Qed.

  Lemma frame_AddContract : forall r id k,
    r_plugins (step r (AddContract id k)) = r_plugins r /\
    r_ifaces (step r (AddContract id k)) = r_ifaces r /\
    r_aliases (step r (AddContract id k)) = r_aliases r /\
    forall id', id' <> id ->
      alookup id' (r_contracts (step r (AddContract id k))) = alookup id' (r_contracts r).
  Proof.
    intros. simpl. destruct (existsb (implements k) (r_ifaces r)); simpl; repeat split; auto.
    intros id' H. apply alookup_aset_neq. exact H.
  Qed.

  Lemma frame_RemoveContract : forall r id,
    r_plugins (step r (RemoveContract id)) = r_plugins r /\
    r_ifaces (step r (RemoveContract id)) = r_ifaces r /\
    r_aliases (step r (RemoveContract id)) = r_aliases r /\
    forall id', id' <> id ->
      alookup id' (r_contracts (step r (RemoveContract id))) = alookup id' (r_contracts r).
  Proof.
    intros. simpl. repeat split; auto. intros id' H. apply alookup_adel_neq. exact H.
  Qed.

  Lemma frame_AddIface : forall r i,
    r_plugins (step r (AddIface i)) = r_plugins r /\
    r_contracts (step r (AddIface i)) = r_contracts r /\
    r_aliases (step r (AddIface i)) = r_aliases r /\
    forall i', i' <> i -> (In i' (r_ifaces (step r (AddIface i))) <-> In i' (r_ifaces r)).
  Proof.
    intros. simpl. repeat split; auto; destruct (mem i (r_ifaces r)); auto.
    - rewrite in_app_iff. simpl. intuition congruence.
    - intros. apply in_or_app. left. assumption.
  Qed.

  Lemma frame_RemoveIface : forall r i, NoDup (r_ifaces r) ->
    r_plugins (step r (RemoveIface i)) = r_plugins r /\
    r_contracts (step r (RemoveIface i)) = r_contracts r /\
    r_aliases (step r (RemoveIface i)) = r_aliases r /\
    r_ifaces (step r (RemoveIface i)) = remove Nat.eq_dec i (r_ifaces r).
  Proof.
    intros. simpl. repeat split; auto. apply remove_first_remove. assumption.
  Qed.

  Lemma frame_AddAlias : forall r a o,
    r_plugins (step r (AddAlias a o)) = r_plugins r /\
    r_contracts (step r (AddAlias a o)) = r_contracts r /\
    r_ifaces (step r (AddAlias a o)) = r_ifaces r /\
    forall a', a' <> a ->
      alookup a' (r_aliases (step r (AddAlias a o))) = alookup a' (r_aliases r).
  Proof.
    intros. simpl. destruct (known_op o && negb (amem a (r_aliases r))); simpl; repeat split; auto.
    intros a' H. apply alookup_aset_neq. exact H.
  Qed.

  (* dict key order of _plugins: a new scope is appended, nothing else moves *)
  Lemma plugin_scope_order : forall r o,
    map fst (r_plugins (step r o)) =
    match o with
    | AddPlugin s _ => if amem s (r_plugins r) then map fst (r_plugins r) else map fst (r_plugins r) ++ [s]
    | _ => map fst (r_plugins r)
    end.
  Proof.
    intros r o. destruct o as [s p|s p|s|id k|id|i|i|a o]; simpl;
      try (repeat match goal with |- context [match ?x with _ => _ end] => destruct x end; reflexivity).
    - unfold amem. destruct (alookup s (r_plugins r)) eqn:E.
      + apply keys_aset_present. congruence.
      + apply keys_aset_absent. exact E.
    - destruct (alookup s (r_plugins r)) eqn:E; simpl; [|reflexivity].
      apply keys_aset_present. congruence.
    - destruct (alookup s (r_plugins r)) eqn:E; simpl; [|reflexivity].
      apply keys_aset_present. congruence.
  Qed.

  (* ---------- 2. the invariant is preserved ---------- *)
  Lemma rstep_inv : forall r o, reg_inv r -> reg_inv (step r o).
  Proof.
    intros r o Hinv. pose proof (reg_inv_plugins_of r) as Hpl.
    destruct Hinv as (H1 & H2 & H3 & H4 & H5).
    assert (Hinv : reg_inv r) by (repeat split; assumption).
    destruct o as [s p|s p|s|id k|id|i|i|a o]; simpl.
    - (* AddPlugin *)
      repeat split; simpl; auto.
      + apply NoDup_keys_aset. exact H1.
      + apply Forall_aset; [|exact H2]. simpl.
        destruct (mem p (plugins_of r s)) eqn:E; [apply Hpl; exact Hinv|].
        apply NoDup_snoc; [apply Hpl; exact Hinv | apply mem_not_In; exact E].
    - (* RemovePlugin *)
      destruct (alookup s (r_plugins r)) eqn:E; simpl; [|exact Hinv].
      repeat split; simpl; auto.
      + apply NoDup_keys_aset. exact H1.
      + apply Forall_aset; [|exact H2]. simpl. apply remove_first_NoDup.
        specialize (Hpl s Hinv). unfold plugins_of in Hpl. rewrite E in Hpl. exact Hpl.
    - (* ResetPlugins *)
      destruct (alookup s (r_plugins r)) eqn:E; simpl; [|exact Hinv].
      repeat split; simpl; auto.
      + apply NoDup_keys_aset. exact H1.
      + apply Forall_aset; [|exact H2]. simpl. constructor.
    - (* AddContract *)
      destruct (existsb (implements k) (r_ifaces r)); simpl; [|exact Hinv].
      repeat split; simpl; auto. apply NoDup_keys_aset. exact H3.
    - (* RemoveContract *)
      repeat split; simpl; auto. apply NoDup_keys_adel. exact H3.
    - (* AddIface *)
      repeat split; simpl; auto.
      destruct (mem i (r_ifaces r)) eqn:E; [exact H4|].
      apply NoDup_snoc; [exact H4 | apply mem_not_In; exact E].
    - (* RemoveIface *)
      repeat split; simpl; auto. apply remove_first_NoDup. exact H4.
    - (* AddAlias *)
      destruct (known_op o && negb (amem a (r_aliases r))); simpl; [|exact Hinv].
      repeat split; simpl; auto. apply NoDup_keys_aset. exact H5.
  Qed.

  Lemma run_reg_snoc : forall r0 ops o,
    run_reg implements known_op r0 (ops ++ [o]) = step (run_reg implements known_op r0 ops) o.
  Proof. intros. unfold run_reg. rewrite fold_left_app. reflexivity. Qed.

  Lemma run_reg_inv : forall r0 ops, reg_inv r0 -> reg_inv (run_reg implements known_op r0 ops).
  Proof.
    intros r0 ops H. induction ops as [|o ops IH] using rev_ind.
    - exact H.
    - rewrite run_reg_snoc. apply rstep_inv. exact IH.
  Qed.

  Lemma run_trace_fst : forall ops r,
    fst (run_trace implements known_op r ops) = run_reg implements known_op r ops.
  Proof.
    induction ops as [|o t IH]; intros r; simpl; [reflexivity|].
    specialize (IH (step r o)).
    destruct (rstep implements known_op r o) as [r' x]; simpl in *.
    destruct (run_trace implements known_op r' t) as [r'' xs]; simpl in *. exact IH.
  Qed.

  Lemma run_trace_snd_length : forall ops r,
    length (snd (run_trace implements known_op r ops)) = length ops.
  Proof.
    induction ops as [|o t IH]; intros r; simpl; [reflexivity|].
    specialize (IH (step r o)).
    destruct (rstep implements known_op r o) as [r' x]; simpl in *.
    destruct (run_trace implements known_op r' t) as [r'' xs]; simpl in *. congruence.
  Qed.

  (* ---------- 1. refinement of the history specification ---------- *)
  Variable r0 : reg.
  Notation aplugin := (active_plugin r0).
  Notation aiface := (active_iface r0).
  Notation acontract := (active_contract implements r0).
  Notation aalias := (active_alias known_op r0).

  Lemma active_iface_candidate : forall h i, aiface h i = true -> In i (iface_candidates r0 h).
  Proof.
    induction h as [|o h IH]; intros i; simpl.
    - apply mem_In.
    - destruct o as [s p|s p|s|id k|id|i0|i0|a o]; simpl; auto.
      + destruct (Nat.eqb_spec i0 i); [intros; left; assumption | intros; right; auto].
      + destruct (Nat.eqb_spec i0 i); [discriminate | auto].
  Qed.

  Lemma contract_accepted_spec : forall h k,
    contract_accepted implements r0 h k = true <->
    exists i, aiface h i = true /\ implements k i = true.
  Proof.
    intros h k. unfold contract_accepted. rewrite existsb_exists. split.
    - intros [i [_ H]]. apply andb_true_iff in H. exists i. exact H.
    - intros [i [H1 H2]]. exists i. split; [apply active_iface_candidate; exact H1|].
      rewrite H1, H2. reflexivity.
  Qed.

  Definition agrees (r : reg) (h : list rop) : Prop :=
    (forall s p, mem p (plugins_of r s) = aplugin h s p) /\
    (forall id, alookup id (r_contracts r) = acontract h id) /\
    (forall i, mem i (r_ifaces r) = aiface h i) /\
    (forall a, alookup a (r_aliases r) = aalias h a).

  Lemma agrees_init : agrees r0 [].
  Proof. repeat split. Qed.

  Lemma agrees_accepted : forall r h k, agrees r h ->
    existsb (implements k) (r_ifaces r) = contract_accepted implements r0 h k.
  Proof.
    intros r h k (_ & _ & Hi & _). apply eq_true_iff_eq.
    rewrite contract_accepted_spec, existsb_exists. split.
    - intros [i [H1 H2]]. exists i. split; [|exact H2]. rewrite <- Hi. apply mem_In. exact H1.
    - intros [i [H1 H2]]. exists i. split; [|exact H2]. apply mem_In. rewrite Hi. exact H1.
  Qed.

  Lemma plugins_of_unchanged : forall r r' s,
    alookup s (r_plugins r') = alookup s (r_plugins r) -> plugins_of r' s = plugins_of r s.
  Proof. intros r r' s H. unfold plugins_of. rewrite H. reflexivity. Qed.

  Lemma step_agrees_plugins : forall r h o, reg_inv r ->
    (forall s p, mem p (plugins_of r s) = aplugin h s p) ->
    forall s p, mem p (plugins_of (step r o) s) = aplugin (o :: h) s p.
  Proof.
    intros r h o Hinv H s p.
    destruct o as [s' p'|s' p'|s'| | | | | ];
      try (simpl aplugin; rewrite <- H; f_equal; apply plugins_of_unchanged; simpl;
           repeat match goal with |- context [match ?x with _ => _ end] => destruct x end;
           reflexivity).
    - (* AddPlugin *)
      simpl aplugin. destruct (Nat.eqb_spec s' s) as [->|Hs]; simpl andb.
      + rewrite add_plugin_same.
        destruct (Nat.eqb_spec p' p) as [->|Hp].
        * destruct (mem p (plugins_of r s)) eqn:E; [exact E|].
          rewrite mem_app, mem_single, Nat.eqb_refl. apply orb_true_r.
        * rewrite <- H. destruct (mem p' (plugins_of r s)); [reflexivity|].
          rewrite mem_app, mem_single. destruct (Nat.eqb_spec p p'); [congruence|].
          apply orb_false_r.
      + rewrite <- H. f_equal. apply plugins_of_unchanged.
        apply (proj2 (frame_AddPlugin r s' p')). congruence.
    - (* RemovePlugin *)
      simpl aplugin. destruct (Nat.eqb_spec s' s) as [->|Hs]; simpl andb.
      + rewrite remove_plugin_first, mem_remove_first by (apply reg_inv_plugins_of; exact Hinv).
        destruct (Nat.eqb_spec p' p) as [->|Hp].
        * rewrite Nat.eqb_refl. apply andb_false_r.
        * rewrite <- H. destruct (Nat.eqb_spec p p'); [congruence|]. apply andb_true_r.
      + rewrite <- H. f_equal. apply plugins_of_unchanged.
        apply (proj2 (frame_RemovePlugin r s' p')). congruence.
    - (* ResetPlugins *)
      simpl aplugin. destruct (Nat.eqb_spec s' s) as [->|Hs].
      + rewrite reset_clears. reflexivity.
      + rewrite <- H. f_equal. apply plugins_of_unchanged.
        apply (proj2 (frame_ResetPlugins r s')). congruence.
  Qed.

  Lemma step_agrees_ifaces : forall r h o, reg_inv r ->
    (forall i, mem i (r_ifaces r) = aiface h i) ->
    forall i, mem i (r_ifaces (step r o)) = aiface (o :: h) i.
  Proof.
    intros r h o Hinv H i.
    destruct o as [ | | | | |i'|i'| ];
      try (simpl aiface; rewrite <- H; simpl;
           repeat match goal with |- context [match ?x with _ => _ end] => destruct x end;
           reflexivity).
    - (* AddIface *)
      simpl. destruct (Nat.eqb_spec i' i) as [->|Hi].
      + destruct (mem i (r_ifaces r)) eqn:E; [exact E|].
        rewrite mem_app, mem_single, Nat.eqb_refl. apply orb_true_r.
      + rewrite <- H. destruct (mem i' (r_ifaces r)); [reflexivity|].
        rewrite mem_app, mem_single. destruct (Nat.eqb_spec i i'); [congruence|]. apply orb_false_r.
    - (* RemoveIface *)
      simpl. rewrite mem_remove_first by (apply Hinv).
      destruct (Nat.eqb_spec i' i) as [->|Hi].
      + rewrite Nat.eqb_refl. apply andb_false_r.
      + rewrite <- H. destruct (Nat.eqb_spec i i'); [congruence|]. apply andb_true_r.
  Qed.

  Lemma step_agrees_contracts : forall r h o, reg_inv r -> agrees r h ->
    forall id, alookup id (r_contracts (step r o)) = acontract (o :: h) id.
  Proof.
    intros r h o Hinv Hag id. pose proof Hag as (_ & H & _ & _).
    destruct o as [ | | |id' k|id'| | | ];
      try (simpl acontract; rewrite <- H; simpl;
           repeat match goal with |- context [match ?x with _ => _ end] => destruct x end;
           reflexivity).
    - (* AddContract *)
      simpl. rewrite (agrees_accepted r h k Hag).
      destruct (contract_accepted implements r0 h k); simpl.
      + destruct (Nat.eqb_spec id' id) as [->|Hn]; simpl.
        * apply alookup_aset_eq.
        * rewrite alookup_aset_neq by congruence. apply H.
      + rewrite andb_false_r. apply H.
    - (* RemoveContract *)
      simpl. destruct (Nat.eqb_spec id' id) as [->|Hn].
      + apply alookup_adel_eq. apply Hinv.
      + rewrite alookup_adel_neq by congruence. apply H.
  Qed.

  Lemma step_agrees_aliases : forall r h o,
    (forall a, alookup a (r_aliases r) = aalias h a) ->
    forall a, alookup a (r_aliases (step r o)) = aalias (o :: h) a.
  Proof.
    intros r h o H a.
    destruct o as [ | | | | | | |a' o'];
      try (simpl aalias; rewrite <- H; simpl;
           repeat match goal with |- context [match ?x with _ => _ end] => destruct x end;
           reflexivity).
    simpl. unfold amem. rewrite <- (H a).
    destruct (Nat.eqb_spec a' a) as [->|Hn]; simpl.
    - destruct (alookup a (r_aliases r)) eqn:E; simpl.
      + rewrite andb_false_r. simpl. exact E.
      + rewrite andb_true_r. destruct (known_op o'); simpl; [apply alookup_aset_eq | exact E].
    - destruct (known_op o' && negb match alookup a' (r_aliases r) with Some _ => true | None => false end);
        simpl.
      + rewrite alookup_aset_neq by congruence. destruct (alookup a (r_aliases r)); reflexivity.
      + destruct (alookup a (r_aliases r)); reflexivity.
  Qed.

  Lemma step_agrees : forall r h o, reg_inv r -> agrees r h -> agrees (step r o) (o :: h).
  Proof.
    intros r h o Hinv Hag. pose proof Hag as (Hp & Hc & Hi & Ha). repeat split.
    - apply step_agrees_plugins; assumption.
    - apply step_agrees_contracts; assumption.
    - apply step_agrees_ifaces; assumption.
    - apply step_agrees_aliases; assumption.
  Qed.

  Lemma run_agrees : forall ops, reg_inv r0 -> agrees (run_reg implements known_op r0 ops) (rev ops).
  Proof.
    intros ops H. induction ops as [|o ops IH] using rev_ind.
    - exact agrees_init.
    - rewrite run_reg_snoc, rev_unit. apply step_agrees; [apply run_reg_inv; exact H | exact IH].
  Qed.

  Lemma out_agrees : forall r h o, agrees r h ->
    out r o = if op_ok implements known_op r0 h o then ROk else RErr.
  Proof.
    intros r h o Hag. pose proof Hag as (_ & _ & _ & Ha).
    destruct o as [s p|s p|s|id k|id|i|i|a o]; simpl;
      try (repeat match goal with |- context [match ?x with _ => _ end] => destruct x end; reflexivity).
    - rewrite (agrees_accepted r h k Hag).
      destruct (contract_accepted implements r0 h k); reflexivity.
    - unfold amem. rewrite (Ha a).
      destruct (known_op o); destruct (aalias h a); reflexivity.
  Qed.
End Step.

(* ---------- the statements of C19, fully quantified ---------- *)
Theorem registry_refines_sets :
  forall implements known_op r0 ops, reg_inv r0 ->
    let r := run_reg implements known_op r0 ops in
    (forall s p, In p (plugins_of r s) <-> active_plugin r0 (rev ops) s p = true) /\
    (forall id, alookup id (r_contracts r) = active_contract implements r0 (rev ops) id) /\
    (forall i, In i (r_ifaces r) <-> active_iface r0 (rev ops) i = true) /\
    (forall a, alookup a (r_aliases r) = active_alias known_op r0 (rev ops) a).
Proof.
  intros implements known_op r0 ops H r.
  destruct (run_agrees implements known_op r0 ops H) as (Hp & Hc & Hi & Ha).
  repeat split.
  - rewrite <- Hp. apply mem_In.
  - rewrite <- Hp. apply mem_In.
  - apply Hc.
  - rewrite <- Hi. apply mem_In.
  - rewrite <- Hi. apply mem_In.
  - apply Ha.
Qed.

Theorem outcome_refines :
  forall implements known_op r0 ops o, reg_inv r0 ->
    snd (rstep implements known_op (run_reg implements known_op r0 ops) o) =
    if op_ok implements known_op r0 (rev ops) o then ROk else RErr.
Proof.
  intros. apply out_agrees. apply run_agrees. assumption.
Qed.

Theorem registry_invariant :
  (forall ifaces aliases, NoDup ifaces -> NoDup (map fst aliases) -> reg_inv (reg_init ifaces aliases)) /\
  (forall implements known_op r o, reg_inv r -> reg_inv (fst (rstep implements known_op r o))) /\
  (forall implements known_op r0 ops, reg_inv r0 -> reg_inv (run_reg implements known_op r0 ops)).
Proof.
  split; [exact reg_init_inv|]. split; [exact rstep_inv | exact run_reg_inv].
Qed.

Theorem plugin_order :
  forall implements known_op r s p,
    let add := fst (rstep implements known_op r (AddPlugin s p)) in
    let rem := fst (rstep implements known_op r (RemovePlugin s p)) in
    (~ In p (plugins_of r s) -> plugins_of add s = plugins_of r s ++ [p]) /\
    (In p (plugins_of r s) -> plugins_of add s = plugins_of r s) /\
    (reg_inv r -> plugins_of rem s = remove Nat.eq_dec p (plugins_of r s)) /\
    (forall s', s' <> s -> alookup s' (r_plugins add) = alookup s' (r_plugins r)) /\
    (forall s', s' <> s -> alookup s' (r_plugins rem) = alookup s' (r_plugins r)).
Proof.
  intros. repeat split.
  - apply add_plugin_new.
  - apply add_plugin_old.
  - apply remove_plugin_same.
  - apply (proj2 (frame_AddPlugin implements known_op r s p)).
  - apply (proj2 (frame_RemovePlugin implements known_op r s p)).
Qed.

Theorem run_uses_active :
  forall r cplugins ccontracts,
    (forall s l, alookup s cplugins = Some l -> run_plugins_of r cplugins s = l) /\
    (forall s, alookup s cplugins = None -> run_plugins_of r cplugins s = plugins_of r s) /\
    (forall id k, alookup id ccontracts = Some k -> run_contract_of r ccontracts id = Some k) /\
    (forall id, alookup id ccontracts = None ->
                run_contract_of r ccontracts id = alookup id (r_contracts r)).
Proof.
  intros. unfold run_plugins_of, run_contract_of.
  repeat split; intros; rewrite H; reflexivity.
Qed.

Theorem run_uses_active_iff :
  forall implements known_op r0 ops, reg_inv r0 ->
    let r := run_reg implements known_op r0 ops in
    (forall s, run_plugins_of r [] s = plugins_of r s) /\
    (forall s p, In p (run_plugins_of r [] s) <-> active_plugin r0 (rev ops) s p = true) /\
    (forall id, run_contract_of r [] id = active_contract implements r0 (rev ops) id).
Proof.
  intros implements known_op r0 ops H r.
  destruct (registry_refines_sets implements known_op r0 ops H) as (Hp & Hc & _ & _).
  repeat split; try apply Hp. apply Hc.
Qed.
