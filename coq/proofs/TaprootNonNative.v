(* C05 (builders): the NON-NATIVE taproot lock of tools.make_nonnative_taproot_lock against the native
   OP_TAPROOT lock (Builders.taproot_lock), both run as the last script of run_auth_scripts.
   - bytes: nonnative_taproot_lock (Asm.encode) = the bytes the Python builder emits (two Examples);
   - def_exec / call_exec / call_d0_exec / cond_runs / script_arm_runs / key_arm_runs: the pieces;
   - key path: nonnative_key_path, native_key_path, key_path_same_verdict, key_path_pair  (same verdict);
   - script path: nonnative_script_path, native_script_path, script_path_subtapes, nonnative_script_mismatch,
     script_path_pair: same `script`, same stack, but call count + 2 vs + 1 and definition 0 bound vs not;
   - FINDING (differ_on_call_d0, differ_on_call_budget): on the script path the verdicts CAN differ. *)
From Coq Require Import ZArith List Bool Lia.
From Coq.Strings Require Import Byte String.
From TS Require Import Bytes Codec State Prog Ops Interp StateLemmas InterpLemmas NopSpec StackLemmas
  BytesLemmas TapeLemmas SigSpec ConfigSpec AuthSpec TimeSpec Asm Builders BuilderSpec TapeSteps
  BuilderSpecC15 TaprootSpec Closure Pointer.
Import ListNotations.
Local Open Scope nat_scope.

(* ---------- the emitted bytes ---------- *)

(* nn_def, nn_script_arm, nn_key_arm, nonnative_taproot_lock: model/Builders.v (extracted; compared with the real
   builder on every run by the BLD correspondence) *)

Definition hexval (a : Ascii.ascii) : N :=
  let n := Ascii.N_of_ascii a in
  if (n <? 58)%N then (n - 48)%N else (n - 87)%N.
Fixpoint of_hex (s : string) : bytes :=
  match s with
  | String a (String b t) =>
    match Byte.of_N (hexval a * 16 + hexval b) with Some x => x :: of_hex t | None => [] end
  | _ => []
  end.
Definition seq_bytes (n : nat) : bytes := map (fun i => z2b (Z.of_nat i)) (seq 0 n).

(* output of
     T.aggregate_points = lambda pts: bytes(range(32))
     T.make_nonnative_taproot_lock(pk, Script.from_src('true')).bytes.hex()
   (the builder COMPUTES the root from the internal key and the script commitment; bytes(range(32)) is not a
   curve point, so the root is injected by replacing tools.aggregate_points) *)
Example nonnative_bytes_0_31 :
  nonnative_taproot_lock (seq_bytes 32) x00 =
  of_hex "290000220320000102030405060708090a0b0c0d0e0f101112131415161718191a1b1c1d1e1f1d080220212c00141d3400021d3401031e371e4c004f1b022a00222d00042a002300".
Proof. vm_compute. reflexivity. Qed.

(* output of the unmodified builder for pk = VerifyKey of seed bytes(range(32)), script 'true', sigflags '05';
   the root (bytes 6..37 of the output) is the one the builder computed *)
Example nonnative_bytes_real :
  nonnative_taproot_lock (of_hex "7b72253c1f4454c7599fe81bcd199c7550a4c417b31c498f84e35199beb8d624") x05 =
  of_hex "2900002203207b72253c1f4454c7599fe81bcd199c7550a4c417b31c498f84e35199beb8d6241d080220212c00141d3400021d3401031e371e4c004f1b022a00222d00042a002305".
Proof. vm_compute. reflexivity. Qed.
(* make_taproot_lock for the same key and script: the same root *)
Example native_bytes_real :
  taproot_lock (of_hex "7b72253c1f4454c7599fe81bcd199c7550a4c417b31c498f84e35199beb8d624") x00 =
  of_hex "03207b72253c1f4454c7599fe81bcd199c7550a4c417b31c498f84e35199beb8d6245b00".
Proof. vm_compute. reflexivity. Qed.

(* ---------- heap lemmas ---------- *)

Lemma nth_tape_set_count_same st t c :
  t < List.length (st_tapes st) ->
  nth_tape (set_count st t c) t =
    {| to_data := to_data (nth_tape st t); to_count := c; to_defs := to_defs (nth_tape st t) |}.
Proof. intro H. unfold nth_tape, set_count. cbn [st_tapes with_tapes]. apply nth_list_set_same. exact H. Qed.

Lemma nth_tape_set_count_other st t c t' : t <> t' -> nth_tape (set_count st t c) t' = nth_tape st t'.
Proof. intro H. unfold nth_tape, set_count. cbn [st_tapes with_tapes]. apply nth_list_set_other. exact H. Qed.

Lemma tapes_set_count_length st t c : List.length (st_tapes (set_count st t c)) = List.length (st_tapes st).
Proof. unfold set_count. cbn [st_tapes with_tapes]. apply list_set_length. Qed.

Lemma tdata_set_count st t c t' : tdata (set_count st t c) t' = tdata st t'.
Proof.
  unfold tdata. destruct (Nat.eq_dec t t') as [<-|Hn].
  - destruct (Nat.lt_ge_cases t (List.length (st_tapes st))) as [Hl|Hg].
    + rewrite nth_tape_set_count_same by exact Hl. reflexivity.
    + unfold nth_tape, set_count. cbn [st_tapes with_tapes].
      rewrite !nth_overflow; [reflexivity|lia|rewrite list_set_length; lia].
  - rewrite nth_tape_set_count_other by exact Hn. reflexivity.
Qed.

Lemma cache_del_absent c k : cache_get c k = None -> cache_del c k = c.
Proof.
  induction c as [|[k' v] t IH]; [reflexivity|]. cbn [cache_get cache_del].
  destruct (ckey_eqb k' k); [discriminate|]. intro H. rewrite IH by exact H. reflexivity.
Qed.

(* the state in which OP_DEF leaves the machine: a new tape object (count 0, the definition table of the
   defining tape) and the handle bound to it in that table *)
Definition def_state (st : state) (tid : nat) (h : byte) (body : bytes) : state :=
  let did := to_defs (nth_tape st tid) in
  with_defs (with_tapes st (st_tapes st ++ [{| to_data := body; to_count := 0%Z; to_defs := did |}]))
            (list_set (st_defs st) did (defs_put (nth_defs st did) h (List.length (st_tapes st)))).

(* the state in which the script of OP_EVAL starts: like sub_start, the call count one higher *)
Definition eval_start (st : state) (tid : nat) (script : bytes) : state :=
  with_tapes (with_defs st (st_defs st ++ [nth_defs st (to_defs (nth_tape st tid))]))
    (st_tapes st ++ [{| to_data := script; to_count := (to_count (nth_tape st tid) + 1)%Z;
                        to_defs := List.length (st_defs st) |}]).

Section Gen.
Variable orc : oracle.
Variable cfg : config.
Variable run : nat -> state -> outcome unit.

Lemma count_step A (k : Z -> prog A) fr st :
  interp orc cfg run (Act ACount k) fr st = interp orc cfg run (k (to_count (nth_tape st (fr_tid fr)))) fr st.
Proof. reflexivity. Qed.
Lemma countincr_step A (k : unit -> prog A) fr st :
  interp orc cfg run (Act ACountIncr k) fr st =
    interp orc cfg run (k tt) fr (set_count st (fr_tid fr) (to_count (nth_tape st (fr_tid fr)) + 1)).
Proof. reflexivity. Qed.
Lemma defget_step A (k : option nat -> prog A) fr st h :
  interp orc cfg run (Act (ADefGet h) k) fr st =
    interp orc cfg run (k (defs_get (nth_defs st (to_defs (nth_tape st (fr_tid fr)))) h)) fr st.
Proof. reflexivity. Qed.
Lemma calldef_step A (k : unit -> prog A) fr st t :
  interp orc cfg run (Act (ACallDef t) k) fr st =
    match run t (set_count st t (to_count (nth_tape st (fr_tid fr)))) with
    | Done _ _ st' => interp orc cfg run (k tt) fr st'
    | Raised e _ st' => Raised e fr st'
    | OutOfFuel => OutOfFuel
    | Unmodelled w => Unmodelled w
    end.
Proof.
  transitivity
    (match after_run fr (run t (set_count st t (to_count (nth_tape st (fr_tid fr))))) with
     | SOk x fr' st' => interp orc cfg run (k x) fr' st'
     | SRaise e fr' st' => Raised e fr' st'
     | SFuel => OutOfFuel
     | SUnmod w => Unmodelled w
     end).
  - reflexivity.
  - destruct (run _ _) as [[] fr' st'|e fr' st'| |w]; reflexivity.
Qed.
Lemma evalsub_step A (k : unit -> prog A) fr st data :
  interp orc cfg run (Act (ARunSub SubEval data) k) fr st =
    match run (List.length (st_tapes st)) (eval_start st (fr_tid fr) data) with
    | Done _ _ st' => interp orc cfg run (k tt) fr st'
    | Raised e _ st' => Raised e fr st'
    | OutOfFuel => OutOfFuel
    | Unmodelled w => Unmodelled w
    end.
Proof.
  transitivity
    (match after_run fr (run (List.length (st_tapes st)) (eval_start st (fr_tid fr) data)) with
     | SOk x fr' st' => interp orc cfg run (k x) fr' st'
     | SRaise e fr' st' => Raised e fr' st'
     | SFuel => OutOfFuel
     | SUnmod w => Unmodelled w
     end).
  - reflexivity.
  - destruct (run _ _) as [[] fr' st'|e fr' st'| |w]; reflexivity.
Qed.

(* OP_DEF, the pointer standing just behind the opcode *)
Lemma def_exec tid st ptr (pre : bytes) h body tail :
  tdata st tid = pre ++ [h] ++ len2 body ++ body ++ tail -> ptr = List.length pre ->
  (blen body < 65536)%Z ->
  interp orc cfg run OP_DEF {| fr_tid := tid; fr_ptr := ptr |} st =
    Done tt {| fr_tid := tid; fr_ptr := ptr + 3 + List.length body |} (def_state st tid h body).
Proof.
  intros Hd Hp Hb. unfold OP_DEF, read_u16, read, act. cbn [bind].
  rewrite (read_at orc cfg run _ _ tid ptr st pre [h] (len2 body ++ body ++ tail) 1 Hd Hp eq_refl).
  cbn [bind].
  rewrite (read_at orc cfg run _ _ tid _ st (pre ++ [h]) (len2 body) (body ++ tail) 2)
    by (first [ rewrite Hd, <- !app_assoc; reflexivity | rewrite app_length; subst ptr; reflexivity
              | rewrite length_len2; reflexivity ]).
  cbn [bind]. rewrite be_len2 by exact Hb.
  rewrite (read_at orc cfg run _ _ tid _ st (pre ++ [h] ++ len2 body) body tail (blen body))
    by (first [ rewrite Hd, <- !app_assoc; reflexivity | rewrite !app_length; subst ptr; simpl; lia
              | unfold blen; apply Nat2Z.id ]).
  cbn [interp step hd]. rewrite length_len2. cbn [List.length].
  replace (ptr + 1 + 2 + List.length body) with (ptr + 3 + List.length body) by lia.
  reflexivity.
Qed.

(* OP_CALL, the pointer standing just behind the opcode: budget check, handle read, counter of the calling
   tape + 1, the definition's tape object gets that counter and is run from offset 0, the control flag is
   cleared *)
Lemma call_exec tid st ptr (pre : bytes) h tail dtid :
  tdata st tid = pre ++ [h] ++ tail -> ptr = List.length pre ->
  (to_count (nth_tape st tid) <? c_limit cfg)%Z = true ->
  let st1 := set_count st tid (to_count (nth_tape st tid) + 1) in
  defs_get (nth_defs st1 (to_defs (nth_tape st1 tid))) h = Some dtid ->
  interp orc cfg run OP_CALL {| fr_tid := tid; fr_ptr := ptr |} st =
    let fr' := {| fr_tid := tid; fr_ptr := ptr + 1 |} in
    match run dtid (set_count st1 dtid (to_count (nth_tape st1 tid))) with
    | Done _ _ st' => Done tt fr' (with_cache st' (cache_del (st_cache st') returned_key))
    | Raised e _ st' => Raised e fr' st'
    | OutOfFuel => OutOfFuel
    | Unmodelled w => Unmodelled w
    end.
Proof.
  intros Hd Hp Hc st1 Hg. unfold OP_CALL, config_, read, act, sert. cbn [bind].
  rewrite config_step, count_step. cbn [fr_tid]. rewrite Hc. cbn [bind].
  rewrite (read_at orc cfg run _ _ tid ptr st pre [h] tail 1 Hd Hp eq_refl).
  rewrite countincr_step. cbn [fr_tid]. fold st1.
  rewrite defget_step. cbn [fr_tid hd]. rewrite Hg.
  rewrite calldef_step. cbn [fr_tid List.length]. cbv zeta.
  destruct (run dtid _) as [[] fr' st'|e fr' st'| |w]; reflexivity.
Qed.

Definition eval_tail : prog unit :=
  r <- act AReturnedTest ;;
  if r then (if flag_on (c_flags cfg) (FKStr (str "eval_return")) then OP_RETURN else act AReturnedClear)
  else Ret tt.

(* OP_EVAL / the script path of OP_TAPROOT / the end of OP_MERKLEVAL *)
Lemma eval_body_exec fr st script s :
  flag_get (c_flags cfg) (FKStr (str "disallow_OP_EVAL")) = None ->
  (to_count (nth_tape st (fr_tid fr)) <? c_limit cfg)%Z = true ->
  st_stack st = script :: s -> script <> [] ->
  interp orc cfg run eval_body fr st =
    match run (List.length (st_tapes st)) (eval_start (with_stack st s) (fr_tid fr) script) with
    | Done _ _ st' => interp orc cfg run eval_tail fr st'
    | Raised e _ st' => Raised e fr st'
    | OutOfFuel => OutOfFuel
    | Unmodelled w => Unmodelled w
    end.
Proof.
  intros Hf Hc Hs Hne. unfold eval_body, config_, get, act, sert, vert. cbn [bind].
  rewrite config_step. rewrite Hf. cbn [bind]. rewrite count_step, Hc. cbn [bind].
  rewrite (get_step orc cfg run _ _ fr st script s Hs).
  replace (0 <? blen script)%Z with true.
  2:{ symmetry. apply Z.ltb_lt. unfold blen. destruct script; [contradiction|]. simpl List.length. lia. }
  cbn [bind]. rewrite evalsub_step. reflexivity.
Qed.

End Gen.

(* ---------- single instructions with known operands ---------- *)
Section Ops.
Variable orc : oracle.
Variable cfg : config.
Variable run : nat -> state -> outcome unit.

Lemma size_exec fr st x s b :
  st_stack st = x :: s -> i2b (blen x) = Ret b -> fits cfg b -> space cfg s ->
  interp orc cfg run OP_SIZE fr st = Done tt fr (with_stack st (b :: s)).
Proof.
  intros Hs Hi Hf Hsp. unfold OP_SIZE, get, put, act. cbn [bind].
  rewrite (get_step orc cfg run _ _ fr st x s Hs). rewrite Hi. cbn [bind].
  rewrite (put_step orc cfg run _ _ _ _ b s); [reflexivity|reflexivity|exact Hf|exact Hsp].
Qed.

Lemma push0_exec tid st ptr (pre : bytes) b tail s :
  tdata st tid = pre ++ [b] ++ tail -> ptr = List.length pre -> st_stack st = s -> room cfg s ->
  interp orc cfg run OP_PUSH0 {| fr_tid := tid; fr_ptr := ptr |} st =
    Done tt {| fr_tid := tid; fr_ptr := ptr + 1 |} (with_stack st ([b] :: s)).
Proof.
  intros Hd Hp Hs Hr. unfold OP_PUSH0, read, put, act. cbn [bind].
  rewrite (read_at orc cfg run _ _ tid ptr st pre [b] tail 1 Hd Hp eq_refl).
  rewrite (put1 orc cfg run) with (rest := s); [reflexivity|exact Hr|exact Hs].
Qed.

Lemma swap_exec tid st ptr (pre : bytes) i j tail :
  tdata st tid = pre ++ [i] ++ [j] ++ tail -> ptr = List.length pre ->
  (b2z i =? b2z j)%Z = false ->
  Z.to_nat (b2z i) < List.length (st_stack st) -> Z.to_nat (b2z j) < List.length (st_stack st) ->
  interp orc cfg run OP_SWAP {| fr_tid := tid; fr_ptr := ptr |} st =
    Done tt {| fr_tid := tid; fr_ptr := ptr + 2 |}
         (with_stack st (swap_nth (st_stack st) (Z.to_nat (b2z i)) (Z.to_nat (b2z j)))).
Proof.
  intros Hd Hp Hne Hi Hj. unfold OP_SWAP, read_u8, read, act. cbn [bind].
  rewrite (read_at orc cfg run _ _ tid ptr st pre [i] ([j] ++ tail) 1 Hd Hp eq_refl).
  cbn [bind].
  rewrite (read_at orc cfg run _ _ tid _ st (pre ++ [i]) [j] tail 1)
    by (first [ rewrite Hd, <- !app_assoc; reflexivity | rewrite app_length; subst ptr; reflexivity
              | reflexivity ]).
  cbn [bind List.length]. rewrite !be1. unfold swap_core. rewrite Hne. unfold act, sert. cbn [bind].
  rewrite depth_step.
  pose proof (b2z_range i) as Ri. pose proof (b2z_range j) as Rj.
  replace (Z.max (b2z i) (b2z j) <? Z.of_nat (List.length (st_stack st)))%Z with true
    by (symmetry; apply Z.ltb_lt; lia).
  cbn [bind]. rewrite swap_step by assumption.
  replace (ptr + 1 + 1) with (ptr + 2) by lia. reflexivity.
Qed.

Lemma concat_exec fr st a b s :
  st_stack st = a :: b :: s -> fits cfg (b ++ a) -> space cfg s ->
  interp orc cfg run OP_CONCAT fr st = Done tt fr (with_stack st ((b ++ a) :: s)).
Proof.
  intros Hs Hf Hsp. unfold OP_CONCAT, get, put, act. cbn [bind].
  rewrite (get_step orc cfg run _ _ fr st a (b :: s) Hs).
  rewrite (get_step orc cfg run _ _ fr (with_stack st (b :: s)) b s eq_refl).
  rewrite (put_step orc cfg run _ _ _ _ (b ++ a) s); [reflexivity|reflexivity|exact Hf|exact Hsp].
Qed.

Lemma clamp32_length h : List.length h = 32 -> List.length (clamp32 h) = 32.
Proof.
  intro H. unfold clamp32, set_nth_byte. rewrite list_set_length, firstn_length. lia.
Qed.

(* OP_CLAMP_SCALAR x00 on a 32-byte item *)
Lemma clamp_exec tid st ptr (pre : bytes) tail h s :
  tdata st tid = pre ++ [x00] ++ tail -> ptr = List.length pre ->
  st_stack st = h :: s -> List.length h = 32 -> 32 <= c_max_item_size cfg -> space cfg s ->
  interp orc cfg run OP_CLAMP_SCALAR {| fr_tid := tid; fr_ptr := ptr |} st =
    Done tt {| fr_tid := tid; fr_ptr := ptr + 1 |} (with_stack st (clamp32 h :: s)).
Proof.
  intros Hd Hp Hs Lh Hsz Hsp. unfold OP_CLAMP_SCALAR, read, get, put, act. cbn [bind].
  rewrite (read_at orc cfg run _ _ tid ptr st pre [x00] tail 1 Hd Hp eq_refl).
  cbn [bind].
  rewrite (get_step orc cfg run _ _ _ st h s Hs).
  change (bytes_to_bool [x00]) with false.
  rewrite (clamp_scalar_32 orc cfg run h) by exact Lh.
  rewrite (put_step orc cfg run _ _ _ _ (clamp32 h) s);
    [reflexivity|reflexivity| unfold fits; rewrite clamp32_length by exact Lh; lia |exact Hsp].
Qed.

(* OP_DERIVE_POINT caches its result under b"X" when flag 2 is set; OP_TAPROOT does not *)
Definition xstate (st : state) (X : bytes) : state :=
  if flagon cfg 2 then with_cache st (cache_set (st_cache st) (KBytes (str "X")) (VOne (ABytes X))) else st.

Lemma derive_point_exec fr st x s X :
  st_stack st = x :: s -> orc PBaseMult [x] = OOk [X] -> fits cfg X -> space cfg s ->
  interp orc cfg run OP_DERIVE_POINT fr st = Done tt fr (with_stack (xstate st X) (X :: s)).
Proof.
  intros Hs Ho Hf Hsp. unfold OP_DERIVE_POINT, config_, get, put, act, derive_point. cbn [bind].
  rewrite config_step.
  rewrite (get_step orc cfg run _ _ fr st x s Hs).
  rewrite (prim1_step orc cfg run _ _ PBaseMult [x] X _ _ Ho).
  unfold xstate. destruct (flagon cfg 2).
  - unfold cache_raw, act. cbn [bind]. cbn [interp step].
    destruct (c_max_item_size cfg <? List.length X) eqn:E1; [apply Nat.ltb_lt in E1; unfold fits in Hf; lia|].
    cbn [st_stack with_cache with_stack].
    destruct (c_max_items cfg <=? List.length s) eqn:E2; [apply Nat.leb_le in E2; unfold space in Hsp; lia|].
    reflexivity.
  - cbn [bind].
    rewrite (put_step orc cfg run _ _ _ _ X s); [reflexivity|reflexivity|exact Hf|exact Hsp].
Qed.

(* OP_ADD_POINTS x02 *)
Lemma add_points2_exec tid st ptr (pre : bytes) tail p q s agg :
  tdata st tid = pre ++ [x02] ++ tail -> ptr = List.length pre ->
  st_stack st = p :: q :: s ->
  orc PValidPoint [p] = OOk [[x01]] -> orc PValidPoint [q] = OOk [[x01]] ->
  orc PPointAdd [p; q] = OOk [agg] -> fits cfg agg -> space cfg s ->
  interp orc cfg run OP_ADD_POINTS {| fr_tid := tid; fr_ptr := ptr |} st =
    Done tt {| fr_tid := tid; fr_ptr := ptr + 1 |} (with_stack st (agg :: s)).
Proof.
  intros Hd Hp Hs O1 O2 O3 Hf Hsp. unfold OP_ADD_POINTS, read_u8, read, get, put, act. cbn [bind].
  rewrite (read_at orc cfg run _ _ tid ptr st pre [x02] tail 1 Hd Hp eq_refl).
  cbn [bind List.length]. rewrite be1. change (nat_of (b2z x02)) with 2.
  cbn [repeat_get]. unfold get, act. cbn [bind].
  rewrite (get_step orc cfg run _ _ _ st p (q :: s) Hs).
  rewrite (get_step orc cfg run _ _ _ (with_stack st (q :: s)) q s eq_refl).
  unfold aggregate_points. cbn [check_points sum_with]. unfold prim_bool, prim1, prim_list, vert, act. cbn [bind].
  assert (Hb : bytes_to_bool [x01] = true) by reflexivity.
  rewrite prim_act_step, O1. cbn [bind]. rewrite Hb. cbn [bind].
  rewrite prim_act_step, O2. cbn [bind]. rewrite Hb. cbn [bind].
  rewrite prim_act_step, O1. cbn [bind]. rewrite Hb. cbn [bind].
  rewrite prim_act_step, O2. cbn [bind]. rewrite Hb. cbn [bind].
  rewrite prim_act_step, O3. cbn [bind].
  rewrite with_stack_twice.
  rewrite (put_step orc cfg run _ _ _ _ agg s); [|reflexivity|exact Hf|exact Hsp].
  rewrite with_stack_twice. reflexivity.
Qed.

End Ops.

(* ---------- the two arms ---------- *)

Definition sarm : bytes :=
  [x1d; x34; x00; x02; x1d; x34; x01; x03; x1e; x37; x1e; x4c; x00; x4f; x1b; x02; x2a; x00; x22; x2d].
Definition karm (fl : byte) : bytes := [x2a; x00; x23; fl].
Lemma sarm_enc : encode nn_script_arm = sarm.  Proof. reflexivity. Qed.
Lemma karm_enc fl : encode (nn_key_arm fl) = karm fl.  Proof. reflexivity. Qed.

Ltac fetchA Hd pre c tail :=
  match goal with |- context [run_tape ?o ?cf (S ?g) ?A ?p ?s] =>
    rewrite (fetch_at o cf g A s p pre c tail (Hd : tdata s A = pre ++ c :: tail) eq_refl) end.

Section Arms.
Variable orc : oracle.
Variable cfg : config.
Notation sub f := (fun t s0 => run_tape orc cfg f t 0 s0).

Lemma xstate_tapes st X : st_tapes (xstate cfg st X) = st_tapes st.
Proof. unfold xstate. destruct (flagon cfg 2); reflexivity. Qed.
Lemma xstate_defs st X : st_defs (xstate cfg st X) = st_defs st.
Proof. unfold xstate. destruct (flagon cfg 2); reflexivity. Qed.
Lemma xstate_stack st X : st_stack (xstate cfg st X) = st_stack st.
Proof. unfold xstate. destruct (flagon cfg 2); reflexivity. Qed.
Lemma xstate_nth_tape st X t : nth_tape (xstate cfg st X) t = nth_tape st t.
Proof. unfold xstate. destruct (flagon cfg 2); reflexivity. Qed.
Lemma xstate_nth_defs st X d : nth_defs (xstate cfg st X) d = nth_defs st d.
Proof. unfold xstate. destruct (flagon cfg 2); reflexivity. Qed.
Lemma xstate_tdata st X t : tdata (xstate cfg st X) t = tdata st t.
Proof. unfold xstate. destruct (flagon cfg 2); reflexivity. Qed.

Lemma xstate_with_stack st X l l' :
  with_stack (xstate cfg (with_stack st l) X) l' = with_stack (xstate cfg st X) l'.
Proof. unfold xstate. destruct (flagon cfg 2); reflexivity. Qed.

(* the state after `call d0` in an arm running as tape A (count c), the definition being tape T:
   both tape objects carry the count c + 1, the control flag is cleared *)
Definition after_call (s : state) (A T : nat) (c : Z) : state :=
  let s2 := set_count (set_count s A (c + 1)) T (c + 1) in
  with_cache s2 (cache_del (st_cache s2) returned_key).

Lemma after_call_with_stack s l l' A T c :
  with_stack (after_call (with_stack s l) A T c) l' = with_stack (after_call s A T c) l'.
Proof. reflexivity. Qed.
Lemma tdata_after_call s A T c t : tdata (after_call s A T c) t = tdata s t.
Proof.
  unfold after_call. cbv zeta.
  change (tdata (set_count (set_count s A (c + 1)) T (c + 1)) t = tdata s t).
  rewrite !tdata_set_count. reflexivity.
Qed.

(* `call d0` where definition 0 is the tape [PUSH1 root] *)
Lemma call_d0_exec f A T st ptr (pre tail : bytes) root s c :
  tdata st A = pre ++ [x00] ++ tail -> ptr = List.length pre ->
  A < List.length (st_tapes st) -> T < List.length (st_tapes st) -> T <> A ->
  tdata st T = push1_bytes root -> List.length root = 32 ->
  to_count (nth_tape st A) = c -> (c <? c_limit cfg)%Z = true ->
  defs_get (nth_defs st (to_defs (nth_tape st A))) x00 = Some T ->
  st_stack st = s -> 32 <= c_max_item_size cfg -> space cfg s ->
  interp orc cfg (sub (S (S f))) OP_CALL {| fr_tid := A; fr_ptr := ptr |} st =
    Done tt {| fr_tid := A; fr_ptr := ptr + 1 |} (with_stack (after_call st A T c) (root :: s)).
Proof.
  intros Hd Hp HA HT Hne HdT Lr Hc Hlim Hg Hs Hsz Hsp.
  assert (H1 : nth_tape (set_count st A (c + 1)) A =
               {| to_data := to_data (nth_tape st A); to_count := (c + 1)%Z; to_defs := to_defs (nth_tape st A) |})
    by (apply nth_tape_set_count_same; exact HA).
  rewrite (call_exec orc cfg _ A st ptr pre x00 tail T Hd Hp).
  - cbv zeta. rewrite Hc, H1. cbn [to_count].
    rewrite (push1_tape_runs orc cfg f T _ root s).
    + reflexivity.
    + rewrite !tdata_set_count. exact HdT.
    + lia.
    + exact Hs.
    + unfold fits. lia.
    + exact Hsp.
  - rewrite Hc. exact Hlim.
  - cbv zeta. rewrite Hc, H1. cbn [to_defs]. exact Hg.
Qed.



Lemma script_arm_runs f A T sA key script rest root hs h point agg c :
  tdata sA A = sarm -> st_stack sA = key :: script :: rest ->
  A < List.length (st_tapes sA) -> T < List.length (st_tapes sA) -> T <> A ->
  tdata sA T = push1_bytes root ->
  to_count (nth_tape sA A) = c -> (c <? c_limit cfg)%Z = true ->
  defs_get (nth_defs sA (to_defs (nth_tape sA A))) x00 = Some T ->
  List.length root = 32 -> List.length key = 32 -> List.length h = 32 ->
  orc PSha256 [script] = OOk [hs] -> orc PSha256 [key ++ hs] = OOk [h] ->
  orc PBaseMult [clamp32 h] = OOk [point] ->
  orc PValidPoint [point] = OOk [[x01]] -> orc PValidPoint [key] = OOk [[x01]] ->
  orc PPointAdd [point; key] = OOk [agg] ->
  fits cfg script -> fits cfg hs -> fits cfg (key ++ hs) -> fits cfg point -> fits cfg agg ->
  List.length rest + 4 <= c_max_items cfg -> 32 <= c_max_item_size cfg ->
  run_tape orc cfg (14 + f) A 0 sA =
    let sC := after_call (xstate cfg sA point) A T c in
    if bytes_eqb agg root then
      match interp orc cfg (sub (S f)) eval_body {| fr_tid := A; fr_ptr := 20 |} (with_stack sC (script :: rest)) with
      | Done _ fr' st' => run_tape orc cfg (S f) A (fr_ptr fr') st'
      | Raised e fr' st' => Raised e fr' st'
      | OutOfFuel => OutOfFuel
      | Unmodelled w => Unmodelled w
      end
    else Raised ScriptExecutionError {| fr_tid := A; fr_ptr := 19 |} (with_stack sC (script :: rest)).
Proof.
  intros Hd Hs HA HT Hne HdT Hc Hlim Hg Lr Lk Lh O1 O2 O3 O4 O5 O6 Fs Fhs Fc Fp Fa Hit Hsz.
  assert (Fk : fits cfg key) by (unfold fits; lia).
  cbn [Nat.add].
  (* DUP *)
  fetchA Hd (@nil byte) x1d (tl sarm).
  change (dispatch (N.to_nat (Byte.to_N x1d))) with OP_DUP.
  rewrite (dup_exec orc cfg _ _ sA key (script :: rest) Hs Fk) by (simpl; lia).
  cbn [fr_ptr].
  (* SWAP 0 2 *)
  fetchA Hd [x1d] x34 (skipn 2 sarm).
  change (dispatch (N.to_nat (Byte.to_N x34))) with OP_SWAP.
  match goal with |- context [interp _ _ _ OP_SWAP _ ?s] =>
    rewrite (swap_exec orc cfg _ A s 2 [x1d; x34] x00 x02 (skipn 4 sarm)
               (Hd : tdata s A = [x1d; x34] ++ [x00] ++ [x02] ++ skipn 4 sarm) eq_refl eq_refl) end;
    [ | cbn [st_stack with_stack List.length]; change (Z.to_nat (b2z x00)) with 0; lia
      | cbn [st_stack with_stack List.length]; change (Z.to_nat (b2z x02)) with 2; lia ].
  cbn [fr_ptr st_stack with_stack]. rewrite with_stack_twice.
  change (Z.to_nat (b2z x00)) with 0. change (Z.to_nat (b2z x02)) with 2.
  cbn [swap_nth list_set nth].
  (* DUP *)
  fetchA Hd [x1d; x34; x00; x02] x1d (skipn 5 sarm).
  change (dispatch (N.to_nat (Byte.to_N x1d))) with OP_DUP.
  match goal with |- context [interp _ _ _ OP_DUP _ ?s] =>
    rewrite (dup_exec orc cfg _ _ s script (key :: key :: rest) eq_refl Fs) by (simpl; lia) end.
  cbn [fr_ptr]. rewrite with_stack_twice.
  (* SWAP 1 3 *)
  fetchA Hd [x1d; x34; x00; x02; x1d] x34 (skipn 6 sarm).
  change (dispatch (N.to_nat (Byte.to_N x34))) with OP_SWAP.
  match goal with |- context [interp _ _ _ OP_SWAP _ ?s] =>
    rewrite (swap_exec orc cfg _ A s 6 [x1d; x34; x00; x02; x1d; x34] x01 x03 (skipn 8 sarm)
               (Hd : tdata s A = [x1d; x34; x00; x02; x1d; x34] ++ [x01] ++ [x03] ++ skipn 8 sarm) eq_refl eq_refl) end;
    [ | cbn [st_stack with_stack List.length]; change (Z.to_nat (b2z x01)) with 1; lia
      | cbn [st_stack with_stack List.length]; change (Z.to_nat (b2z x03)) with 3; lia ].
  cbn [fr_ptr st_stack with_stack]. rewrite with_stack_twice.
  change (Z.to_nat (b2z x01)) with 1. change (Z.to_nat (b2z x03)) with 3.
  cbn [swap_nth list_set nth].
  (* SHA256 *)
  fetchA Hd (firstn 8 sarm) x1e (skipn 9 sarm).
  change (dispatch (N.to_nat (Byte.to_N x1e))) with OP_SHA256.
  match goal with |- context [interp _ _ _ OP_SHA256 _ ?s] =>
    rewrite (sha256_exec orc cfg _ _ s script (key :: key :: script :: rest) hs eq_refl O1 Fhs)
      by (unfold space; simpl; lia) end.
  cbn [fr_ptr]. rewrite with_stack_twice.
  (* CONCAT *)
  fetchA Hd (firstn 9 sarm) x37 (skipn 10 sarm).
  change (dispatch (N.to_nat (Byte.to_N x37))) with OP_CONCAT.
  match goal with |- context [interp _ _ _ OP_CONCAT _ ?s] =>
    rewrite (concat_exec orc cfg _ _ s hs key (key :: script :: rest) eq_refl Fc)
      by (unfold space; simpl; lia) end.
  cbn [fr_ptr]. rewrite with_stack_twice.
  (* SHA256 *)
  fetchA Hd (firstn 10 sarm) x1e (skipn 11 sarm).
  change (dispatch (N.to_nat (Byte.to_N x1e))) with OP_SHA256.
  match goal with |- context [interp _ _ _ OP_SHA256 _ ?s] =>
    rewrite (sha256_exec orc cfg _ _ s (key ++ hs) (key :: script :: rest) h eq_refl O2)
      by (unfold fits, space; simpl; lia) end.
  cbn [fr_ptr]. rewrite with_stack_twice.
  (* CLAMP_SCALAR x00 *)
  fetchA Hd (firstn 11 sarm) x4c (skipn 12 sarm).
  change (dispatch (N.to_nat (Byte.to_N x4c))) with OP_CLAMP_SCALAR.
  match goal with |- context [interp _ _ _ OP_CLAMP_SCALAR _ ?s] =>
    rewrite (clamp_exec orc cfg _ A s 12 (firstn 12 sarm) (skipn 13 sarm) h (key :: script :: rest)
               (Hd : tdata s A = firstn 12 sarm ++ [x00] ++ skipn 13 sarm) eq_refl eq_refl Lh Hsz)
      by (unfold space; simpl; lia) end.
  cbn [fr_ptr]. rewrite with_stack_twice.
  (* DERIVE_POINT *)
  fetchA Hd (firstn 13 sarm) x4f (skipn 14 sarm).
  change (dispatch (N.to_nat (Byte.to_N x4f))) with OP_DERIVE_POINT.
  match goal with |- context [interp _ _ _ OP_DERIVE_POINT _ ?s] =>
    rewrite (derive_point_exec orc cfg _ _ s (clamp32 h) (key :: script :: rest) point eq_refl O3 Fp)
      by (unfold space; simpl; lia) end.
  cbn [fr_ptr].
  rewrite xstate_with_stack.
  set (sX := xstate cfg sA point).
  assert (HdX : tdata sX A = sarm) by (unfold sX; rewrite xstate_tdata; exact Hd).
  assert (HdTX : tdata sX T = push1_bytes root) by (unfold sX; rewrite xstate_tdata; exact HdT).
  assert (HAX : A < List.length (st_tapes sX)) by (unfold sX; rewrite xstate_tapes; exact HA).
  assert (HTX : T < List.length (st_tapes sX)) by (unfold sX; rewrite xstate_tapes; exact HT).
  assert (HcX : to_count (nth_tape sX A) = c) by (unfold sX; rewrite xstate_nth_tape; exact Hc).
  assert (HgX : defs_get (nth_defs sX (to_defs (nth_tape sX A))) x00 = Some T)
    by (unfold sX; rewrite xstate_nth_tape, xstate_nth_defs; exact Hg).
  (* ADD_POINTS x02 *)
  fetchA HdX (firstn 14 sarm) x1b (skipn 15 sarm).
  change (dispatch (N.to_nat (Byte.to_N x1b))) with OP_ADD_POINTS.
  match goal with |- context [interp _ _ _ OP_ADD_POINTS _ ?s] =>
    rewrite (add_points2_exec orc cfg _ A s 15 (firstn 15 sarm) (skipn 16 sarm) point key (script :: rest) agg
               (HdX : tdata s A = firstn 15 sarm ++ [x02] ++ skipn 16 sarm) eq_refl eq_refl O4 O5 O6 Fa)
      by (unfold space; simpl; lia) end.
  cbn [fr_ptr]. rewrite with_stack_twice.
  (* CALL x00 *)
  fetchA HdX (firstn 16 sarm) x2a (skipn 17 sarm).
  change (dispatch (N.to_nat (Byte.to_N x2a))) with OP_CALL.
  match goal with |- context [interp _ _ _ OP_CALL _ ?s] =>
    rewrite (call_d0_exec (S f) A T s (S (15 + 1)) (firstn 17 sarm) (skipn 18 sarm) root (agg :: script :: rest) c
               (HdX : tdata s A = firstn 17 sarm ++ [x00] ++ skipn 18 sarm) eq_refl HAX HTX Hne HdTX Lr HcX Hlim HgX
               eq_refl Hsz)
      by (unfold space; simpl; lia) end.
  cbn [fr_ptr]. rewrite after_call_with_stack.
  set (sC := after_call sX A T c).
  assert (HdC : tdata sC A = sarm) by (unfold sC; rewrite tdata_after_call; exact HdX).
  (* EQUAL_VERIFY *)
  fetchA HdC (firstn 18 sarm) x22 (skipn 19 sarm).
  change (dispatch (N.to_nat (Byte.to_N x22))) with OP_EQUAL_VERIFY.
  match goal with |- context [interp _ _ _ OP_EQUAL_VERIFY _ ?s] =>
    rewrite (equal_verify_exec orc cfg _ _ s root agg (script :: rest) eq_refl)
      by (unfold space; simpl; lia) end.
  rewrite with_stack_twice, (bytes_eqb_sym root agg).
  destruct (bytes_eqb agg root); [|reflexivity].
  cbn [fr_ptr].
  (* EVAL *)
  fetchA HdC (firstn 19 sarm) x2d (@nil byte).
  change (dispatch (N.to_nat (Byte.to_N x2d))) with OP_EVAL.
  reflexivity.
Qed.

End Arms.

(* ---------- the lock as a byte string convenient for stepping ---------- *)

Definition nn_cond : bytes := [x1d; x08; x02; x20; x21; x2c].

Lemma nn_lock_bytes root fl :
  nonnative_taproot_lock root fl =
    [x29] ++ [x00] ++ len2 (push1_bytes root) ++ push1_bytes root ++ nn_cond ++ ifelse_ops sarm (karm fl).
Proof.
  unfold nonnative_taproot_lock, encode, nn_def, P1, P0.
  cbn [flat_map]. rewrite app_nil_r.
  change (encode1 (IIfElse nn_script_arm (nn_key_arm fl))) with (x2c :: ifelse_ops sarm (karm fl)).
  cbn [encode1 flat_map]. rewrite app_nil_r.
  change (opcode_byte O_DEF) with x29. change (opcode_byte O_PUSH1) with x03.
  change (x03 :: len1 root :: root) with (push1_bytes root).
  cbn [app]. rewrite <- !app_assoc. reflexivity.
Qed.

Lemma push1_32 root : List.length root = 32 -> len2 (push1_bytes root) = [x00; x22] /\ (blen (push1_bytes root) < 65536)%Z.
Proof.
  intro H. unfold len2, blen, push1_bytes. cbn [List.length]. rewrite H. split; [reflexivity|lia].
Qed.

Lemma defs_get_put_same d h t : defs_get (defs_put d h t) h = Some t.
Proof.
  induction d as [|[h' t'] r IH]; cbn [defs_put defs_get].
  - replace (Byte.eqb h h) with true by (symmetry; apply byte_eqb_eq; reflexivity). reflexivity.
  - destruct (Byte.eqb h' h) eqn:E; cbn [defs_get].
    + replace (Byte.eqb h h) with true by (symmetry; apply byte_eqb_eq; reflexivity). reflexivity.
    + rewrite E. exact IH.
Qed.

(* the facts about the state in which an arm of the lock starts *)
Lemma arm_facts st tid root stk arm :
  tid < List.length (st_tapes st) ->
  to_defs (nth_tape st tid) < List.length (st_defs st) ->
  let T := List.length (st_tapes st) in
  let s1 := def_state st tid x00 (push1_bytes root) in
  let A := List.length (st_tapes s1) in
  let sA := sub_start (with_stack s1 stk) tid arm in
  A = S T /\ tdata sA A = arm /\ st_stack sA = stk /\
  List.length (st_tapes sA) = S (S T) /\
  tdata sA T = push1_bytes root /\
  to_count (nth_tape sA A) = to_count (nth_tape st tid) /\
  defs_get (nth_defs sA (to_defs (nth_tape sA A))) x00 = Some T /\
  (forall t, t < T -> tdata sA t = tdata st t) /\
  st_cache sA = st_cache st /\ st_log sA = st_log st /\
  nth_defs sA (to_defs (nth_tape sA A)) = defs_put (nth_defs st (to_defs (nth_tape st tid))) x00 T.
Proof.
  intros Ht Hdid T s1 A sA.
  assert (HA : A = S T).
  { unfold A, s1, def_state. cbn [st_tapes with_tapes with_defs]. rewrite app_length. simpl. lia. }
  assert (Hn1 : nth_tape s1 tid = nth_tape st tid).
  { unfold nth_tape, s1, def_state. cbn [st_tapes with_tapes with_defs]. apply app_nth1. exact Ht. }
  assert (HnA : nth_tape sA A = {| to_data := arm; to_count := to_count (nth_tape s1 tid);
                                   to_defs := List.length (st_defs s1) |}).
  { unfold nth_tape, sA, sub_start. cbn [st_tapes with_tapes with_defs with_stack].
    rewrite app_nth2 by (unfold A; lia). unfold A. rewrite Nat.sub_diag. reflexivity. }
  split; [exact HA|]. split; [apply (tdata_sub_new (with_stack s1 stk) tid arm)|].
  split; [reflexivity|]. split.
  { unfold sA, sub_start. cbn [st_tapes with_tapes with_defs with_stack]. rewrite app_length. fold A. simpl. lia. }
  split.
  { unfold sA. rewrite tdata_sub_old by (cbn [st_tapes with_stack]; fold A; lia).
    unfold tdata, nth_tape, s1, def_state. cbn [st_tapes with_tapes with_defs with_stack].
    rewrite app_nth2 by (unfold T; lia). unfold T. rewrite Nat.sub_diag. reflexivity. }
  split; [rewrite HnA; cbn [to_count]; rewrite Hn1; reflexivity|].
  assert (Hdefs : nth_defs sA (to_defs (nth_tape sA A)) = defs_put (nth_defs st (to_defs (nth_tape st tid))) x00 T).
  { rewrite HnA. cbn [to_defs]. unfold nth_defs, sA, sub_start. cbn [st_defs with_tapes with_defs with_stack].
    rewrite app_nth2 by lia. rewrite Nat.sub_diag. cbn [nth].
    change (nth_tape (with_stack s1 stk) tid) with (nth_tape s1 tid). rewrite Hn1.
    unfold nth_defs, s1, def_state. cbn [st_defs with_tapes with_defs with_stack].
    rewrite nth_list_set_same by exact Hdid. reflexivity. }
  split; [rewrite Hdefs; apply defs_get_put_same|].
  split; [|split; [reflexivity|split; [reflexivity|exact Hdefs]]].
  intros t Hlt. unfold sA. rewrite tdata_sub_old by (cbn [st_tapes with_stack]; fold A; lia).
  unfold tdata, nth_tape, s1, def_state. cbn [st_tapes with_tapes with_defs with_stack].
  rewrite app_nth1 by exact Hlt. reflexivity.
Qed.

Lemma i2b_32 : i2b 32 = Ret [x20].  Proof. vm_compute. reflexivity. Qed.
Lemma i2b_64 : i2b 64 = Ret [x40].  Proof. vm_compute. reflexivity. Qed.
Lemma i2b_65 : i2b 65 = Ret [x41].  Proof. vm_compute. reflexivity. Qed.

Section Lock.
Variable orc : oracle.
Variable cfg : config.
Notation sub f := (fun t s0 => run_tape orc cfg f t 0 s0).

(* the condition  dup size push d32 equal  on a stack whose top item has the size byte [bsz] *)
Lemma cond_runs g tid st (pre tail : bytes) x s bsz :
  tdata st tid = pre ++ [x1d; x08; x02; x20; x21] ++ tail ->
  st_stack st = x :: s -> fits cfg x -> i2b (blen x) = Ret [bsz] ->
  List.length s + 3 <= c_max_items cfg -> 1 <= c_max_item_size cfg ->
  run_tape orc cfg (4 + g) tid (List.length pre) st =
    run_tape orc cfg g tid (List.length pre + 5)
      (with_stack st ((if bytes_eqb [x20] [bsz] then [xff] else [x00]) :: x :: s)).
Proof.
  intros Hd Hs Fx Hi Hit Hsz. cbn [Nat.add].
  (* DUP *)
  rewrite (op0_done orc cfg _ tid st pre x1d ([x08; x02; x20; x21] ++ tail) (with_stack st (x :: x :: s)) Hd).
  2:{ intros run fr. change (dispatch (N.to_nat (Byte.to_N x1d))) with OP_DUP.
      apply dup_exec; [exact Hs|exact Fx|lia]. }
  (* SIZE *)
  set (st1 := with_stack st (x :: x :: s)).
  assert (Hd1 : tdata st1 tid = (pre ++ [x1d]) ++ x08 :: ([x02; x20; x21] ++ tail)).
  { change (tdata st1 tid) with (tdata st tid). rewrite Hd, <- app_assoc. reflexivity. }
  rewrite (op0_done orc cfg _ tid st1 _ x08 _ (with_stack st1 ([bsz] :: x :: s)) Hd1).
  2:{ intros run fr. change (dispatch (N.to_nat (Byte.to_N x08))) with OP_SIZE.
      apply (size_exec orc cfg run fr st1 x (x :: s) [bsz] eq_refl Hi).
      - unfold fits. simpl. lia.
      - unfold space. simpl. lia. }
  unfold st1. rewrite with_stack_twice.
  (* PUSH0 x20 *)
  set (st2 := with_stack st ([bsz] :: x :: s)).
  assert (Hd2 : tdata st2 tid = ((pre ++ [x1d]) ++ [x08]) ++ x02 :: ([x20; x21] ++ tail)).
  { change (tdata st2 tid) with (tdata st tid). rewrite Hd, <- !app_assoc. reflexivity. }
  rewrite (fetch_at orc cfg _ tid st2 _ _ x02 _ Hd2 eq_refl).
  change (dispatch (N.to_nat (Byte.to_N x02))) with OP_PUSH0.
  assert (Hd2' : tdata st2 tid = (((pre ++ [x1d]) ++ [x08]) ++ [x02]) ++ [x20] ++ ([x21] ++ tail)).
  { rewrite Hd2, <- !app_assoc. reflexivity. }
  rewrite (push0_exec orc cfg _ tid st2 _ _ x20 _ ([bsz] :: x :: s) Hd2')
    by (first [ rewrite !app_length; simpl; lia | reflexivity | unfold room; simpl; lia ]).
  cbn [fr_ptr]. unfold st2. rewrite with_stack_twice.
  (* EQUAL *)
  set (st3 := with_stack st ([x20] :: [bsz] :: x :: s)).
  assert (Hd3 : tdata st3 tid = ((((pre ++ [x1d]) ++ [x08]) ++ [x02]) ++ [x20]) ++ x21 :: tail).
  { change (tdata st3 tid) with (tdata st tid). rewrite Hd, <- !app_assoc. reflexivity. }
  replace (S (List.length ((pre ++ [x1d]) ++ [x08])) + 1)
    with (List.length ((((pre ++ [x1d]) ++ [x08]) ++ [x02]) ++ [x20])) by (rewrite !app_length; simpl; lia).
  rewrite (op0_done orc cfg _ tid st3 _ x21 _
             (with_stack st3 ((if bytes_eqb [x20] [bsz] then [xff] else [x00]) :: x :: s)) Hd3).
  2:{ intros run fr. change (dispatch (N.to_nat (Byte.to_N x21))) with OP_EQUAL.
      apply (equal_exec orc cfg run fr st3 [x20] [bsz] (x :: s) eq_refl). unfold room. simpl. lia. }
  unfold st3. rewrite with_stack_twice.
  f_equal. rewrite !app_length. simpl. lia.
Qed.


Definition hdr (root : bytes) : bytes := [x29] ++ [x00] ++ len2 (push1_bytes root) ++ push1_bytes root.
Lemma hdr_len root : List.length root = 32 -> List.length (hdr root) = 38.
Proof. intro H. unfold hdr, push1_bytes. rewrite !app_length, length_len2. simpl. lia. Qed.

(* from the start of the lock to the selected arm *)
Lemma nn_to_arm g tid st root fl x s bsz :
  tdata st tid = nonnative_taproot_lock root fl -> List.length root = 32 ->
  tid < List.length (st_tapes st) ->
  st_stack st = x :: s -> fits cfg x -> i2b (blen x) = Ret [bsz] ->
  List.length s + 3 <= c_max_items cfg -> 1 <= c_max_item_size cfg ->
  run_tape orc cfg (6 + g) tid 0 st =
    let s1 := def_state st tid x00 (push1_bytes root) in
    let cond := if bytes_eqb [x20] [bsz] then [xff] else [x00] in
    let frL := {| fr_tid := tid; fr_ptr := 72 |} in
    match run_tape orc cfg g (List.length (st_tapes s1)) 0
            (sub_start (with_stack s1 (x :: s)) tid (if bytes_to_bool cond then sarm else karm fl)) with
    | Done _ _ st' =>
      match interp orc cfg (sub g) propagate_return frL st' with
      | Done _ fr' st'' => run_tape orc cfg g tid (fr_ptr fr') st''
      | Raised e fr' st'' => Raised e fr' st''
      | OutOfFuel => OutOfFuel
      | Unmodelled w => Unmodelled w
      end
    | Raised e _ st' => Raised e frL st'
    | OutOfFuel => OutOfFuel
    | Unmodelled w => Unmodelled w
    end.
Proof.
  intros Hd Lr Ht Hs Fx Hi Hit Hsz. cbv zeta.
  rewrite nn_lock_bytes in Hd. destruct (push1_32 root Lr) as [Hl2 Hbl].
  set (ops := ifelse_ops sarm (karm fl)) in *.
  change (6 + g) with (S (4 + (S g))).
  (* DEF *)
  assert (Hd0 : tdata st tid = [] ++ x29 :: ([x00] ++ len2 (push1_bytes root) ++ push1_bytes root ++ nn_cond ++ ops))
    by exact Hd.
  rewrite (fetch_at orc cfg _ tid st 0 [] x29 _ Hd0 eq_refl).
  change (dispatch (N.to_nat (Byte.to_N x29))) with OP_DEF.
  rewrite (def_exec orc cfg _ tid st 1 [x29] x00 (push1_bytes root) (nn_cond ++ ops) Hd eq_refl Hbl).
  cbn [fr_ptr].
  set (s1 := def_state st tid x00 (push1_bytes root)).
  assert (Hd1 : tdata s1 tid = hdr root ++ [x1d; x08; x02; x20; x21] ++ (x2c :: ops)).
  { unfold tdata, nth_tape, s1, def_state. cbn [st_tapes with_tapes with_defs].
    rewrite app_nth1 by exact Ht. fold (nth_tape st tid). fold (tdata st tid). rewrite Hd. unfold hdr.
    rewrite <- !app_assoc. reflexivity. }
  replace (1 + 3 + List.length (push1_bytes root)) with (List.length (hdr root))
    by (rewrite hdr_len by exact Lr; unfold push1_bytes; simpl; lia).
  (* the condition *)
  rewrite (cond_runs (S g) tid s1 (hdr root) (x2c :: ops) x s bsz Hd1 Hs Fx Hi Hit Hsz).
  set (cond := if bytes_eqb [x20] [bsz] then [xff] else [x00]).
  set (s2 := with_stack s1 (cond :: x :: s)).
  (* IF_ELSE *)
  assert (Hd2 : tdata s2 tid = (hdr root ++ [x1d; x08; x02; x20; x21]) ++ x2c :: (ops ++ [])).
  { change (tdata s2 tid) with (tdata s1 tid). rewrite Hd1, <- app_assoc, app_nil_r. reflexivity. }
  rewrite (fetch_at orc cfg _ tid s2 _ _ x2c _ Hd2) by (rewrite app_length; simpl; lia).
  change (dispatch (N.to_nat (Byte.to_N x2c))) with OP_IF_ELSE.
  assert (Hd3 : tdata s2 tid = ((hdr root ++ [x1d; x08; x02; x20; x21]) ++ [x2c]) ++ ops ++ []).
  { rewrite Hd2, <- !app_assoc. reflexivity. }
  rewrite (if_else_exec orc cfg _ tid s2 _ _ sarm (karm fl) [] cond (x :: s) Hd3);
    [ | rewrite !app_length, hdr_len by exact Lr; simpl; lia | reflexivity | reflexivity | reflexivity ].
  cbv zeta.
  replace (S (List.length (hdr root) + 5) + List.length (ifelse_ops sarm (karm fl))) with 72
    by (rewrite hdr_len by exact Lr; reflexivity).
  unfold s2. rewrite with_stack_twice.
  change (List.length (st_tapes (with_stack s1 (cond :: x :: s)))) with (List.length (st_tapes s1)).
  destruct (run_tape orc cfg g _ 0 _) as [[] fr' st'|e fr' st'| |w]; reflexivity.
Qed.

End Lock.

(* ---------- verdicts ---------- *)

Inductive vres := VBool (b : bool) | VFuel | VUnmod (w : string).

Definition vres_of_auth (r : auth_result) : vres :=
  match r with AuthVerdict b _ => VBool b | AuthFuel => VFuel | AuthUnmod w => VUnmod w end.

(* the verdict when the outcome [o] is that of the LAST script: the stack must be exactly [xff] *)
Definition vres_of_run (o : outcome unit) : vres :=
  match o with
  | Done _ _ st' => VBool (accepting st')
  | Raised _ _ _ => VBool false
  | OutOfFuel => VFuel
  | Unmodelled w => VUnmod w
  end.

Section Key.
Variable orc : oracle.
Variable cfg : config.
Notation sub f := (fun t s0 => run_tape orc cfg f t 0 s0).

Lemma vres_finish F prev o : vres_of_auth (finish orc cfg F prev o) = vres_of_run o.
Proof.
  destruct o as [[] fr st|e fr st| |w]; try reflexivity.
  unfold finish, vres_of_run, accepting. cbn [auth_rest].
  destruct (st_stack st) as [|i [|j l]]; reflexivity.
Qed.

(* the signature check of both key paths, as a function of the oracle's answer *)
Definition key_outcome (root sig : bytes) (fl : byte) (c0 : cache) : vres :=
  if negb (flags_permitted (sig_flag sig) (b2z fl)) then VBool false
  else match msg_of (sig_flag sig) c0 with
       | None => VBool false
       | Some m =>
         if c_max_item_size cfg <? List.length m then VBool false
         else match orc PVerify [root; m; firstn 64 sig] with
              | OErr _ => VBool false
              | OOk [x] => VBool (bytes_to_bool x)
              | OOk _ => VUnmod "oracle arity"
              end
       end.

Lemma key_outcome_true root sig fl c0 :
  key_outcome root sig fl c0 = VBool true <-> sig_accepts orc cfg root sig (b2z fl) c0.
Proof.
  unfold key_outcome, sig_accepts.
  destruct (flags_permitted (sig_flag sig) (b2z fl)); cbn [negb].
  2:{ split; [discriminate|]. intros [H _]. discriminate. }
  destruct (msg_of (sig_flag sig) c0) as [m|].
  2:{ split; [discriminate|]. intros (_ & m & x & H & _). discriminate. }
  destruct (c_max_item_size cfg <? List.length m) eqn:El.
  { apply Nat.ltb_lt in El. split; [discriminate|]. intros (_ & m' & x & H & Hlen & _).
    injection H as <-. lia. }
  apply Nat.ltb_ge in El.
  destruct (orc PVerify [root; m; firstn 64 sig]) as [[|x [|y l]]|e] eqn:Eo.
  - split; [discriminate|]. intros (_ & m' & x & H & _ & H2 & _). injection H as <-. congruence.
  - split.
    + intro H. injection H as Hb. split; [reflexivity|]. exists m, x. repeat split; assumption.
    + intros (_ & m' & x' & H & _ & H2 & H3). injection H as <-.
      assert (Hx : OOk [x'] = OOk [x]) by (rewrite <- H2; exact Eo). injection Hx as <-. rewrite H3. reflexivity.
  - split; [discriminate|]. intros (_ & m' & x' & H & _ & H2 & _). injection H as <-. congruence.
  - split; [discriminate|]. intros (_ & m' & x' & H & _ & H2 & _). injection H as <-. congruence.
Qed.

(* an outcome that realises the verdict [v]: a raise (only for false), or the end with exactly the verdict
   byte on the stack of [s]; an unmodelled oracle answer is passed on *)
Definition sig_out (o : outcome unit) (v : vres) (fr' : frame) (s : state) : Prop :=
  match v with
  | VBool b => (b = false /\ exists e st', o = Raised e fr' st') \/
               o = Done tt fr' (with_stack s [if b then [xff] else [x00]])
  | VUnmod w => o = Unmodelled w
  | VFuel => False
  end.

Lemma check_sig_body_vres run fr s fl root sig c0 :
  st_stack s = [root; sig] -> List.length root = 32 -> (List.length sig = 64 \/ List.length sig = 65) ->
  (forall g, msg_of g (st_cache s) = msg_of g c0) ->
  1 <= c_max_items cfg -> 1 <= c_max_item_size cfg ->
  sig_out (interp orc cfg run (check_sig_body (b2z fl)) fr s) (key_outcome root sig fl c0) fr s.
Proof.
  intros Hs Lr Lsig Hmsg Hit Hsz.
  rewrite (check_sig_body_exact orc cfg run (b2z fl) fr s root sig [] Hs).
  cbv zeta. unfold blen. rewrite Lr. change (Z.of_nat 32 =? 32)%Z with true. cbn [negb].
  assert (Hs2 : ((Z.of_nat (List.length sig) =? 64) || (Z.of_nat (List.length sig) =? 65))%Z = true).
  { destruct Lsig as [->| ->]; reflexivity. }
  rewrite Hs2. cbn [negb]. rewrite Hmsg. unfold key_outcome.
  destruct (flags_permitted (sig_flag sig) (b2z fl)); cbn [negb].
  2:{ left. split; [reflexivity|]. eexists _, _. reflexivity. }
  destruct (msg_of (sig_flag sig) c0) as [m|].
  2:{ left. split; [reflexivity|]. eexists _, _. reflexivity. }
  cbn [List.length].
  replace (c_max_items cfg <=? 0) with false by (symmetry; apply Nat.leb_gt; lia).
  rewrite orb_false_r.
  destruct (c_max_item_size cfg <? List.length m).
  { left. split; [reflexivity|]. eexists _, _. reflexivity. }
  destruct (orc PVerify [root; m; firstn 64 sig]) as [[|x [|y l]]|e].
  - reflexivity.
  - replace (c_max_item_size cfg <? 1) with false by (symmetry; apply Nat.ltb_ge; lia).
    right. reflexivity.
  - reflexivity.
  - left. split; [reflexivity|]. eexists _, _. reflexivity.
Qed.


Lemma msg_of_after_call s A T c g : msg_of g (st_cache (after_call s A T c)) = msg_of g (st_cache s).
Proof. unfold after_call. cbv zeta. cbn [st_cache with_cache]. apply msg_of_del_returned. Qed.

(* the key arm:  call d0 ; check_sig fl  on the stack [sig] *)
Lemma key_arm_runs f A T sA sig root fl c c0 :
  tdata sA A = karm fl -> st_stack sA = [sig] ->
  A < List.length (st_tapes sA) -> T < List.length (st_tapes sA) -> T <> A ->
  tdata sA T = push1_bytes root ->
  to_count (nth_tape sA A) = c -> (c <? c_limit cfg)%Z = true ->
  defs_get (nth_defs sA (to_defs (nth_tape sA A))) x00 = Some T ->
  List.length root = 32 -> (List.length sig = 64 \/ List.length sig = 65) ->
  (forall g, msg_of g (st_cache sA) = msg_of g c0) ->
  32 <= c_max_item_size cfg -> 2 <= c_max_items cfg ->
  sig_out (run_tape orc cfg (3 + f) A 0 sA) (key_outcome root sig fl c0)
          {| fr_tid := A; fr_ptr := 4 |} (sigext_log cfg (after_call sA A T c)).
Proof.
  intros Hd Hs HA HT Hne HdT Hc Hlim Hg Lr Lsig Hmsg Hsz Hit.
  cbn [Nat.add].
  (* CALL x00 *)
  fetchA Hd (@nil byte) x2a [x00; x23; fl].
  change (dispatch (N.to_nat (Byte.to_N x2a))) with OP_CALL.
  rewrite (call_d0_exec orc cfg f A T sA 1 [x2a] [x23; fl] root [sig] c Hd eq_refl HA HT Hne HdT Lr Hc Hlim Hg Hs Hsz)
    by (unfold space; simpl; lia).
  cbn [fr_ptr].
  set (sC := after_call sA A T c).
  assert (HdC : tdata sC A = karm fl) by (unfold sC; rewrite tdata_after_call; exact Hd).
  (* CHECK_SIG fl *)
  fetchA HdC [x2a; x00] x23 [fl].
  change (dispatch (N.to_nat (Byte.to_N x23))) with OP_CHECK_SIG.
  set (s3 := with_stack sC [root; sig]).
  assert (Hda : data_at {| fr_tid := A; fr_ptr := 3 |} s3 = [fl]).
  { unfold data_at, cur. cbn [fr_tid fr_ptr]. change (to_data (nth_tape s3 A)) with (tdata sC A).
    rewrite HdC. reflexivity. }
  rewrite (check_sig_decomposed orc cfg _ _ s3 fl [] Hda).
  pose proof (check_sig_body_vres (sub (S f)) (adv {| fr_tid := A; fr_ptr := 3 |} 1) (sigext_log cfg s3) fl root sig c0
                eq_refl Lr Lsig) as H.
  match type of H with ?P -> _ => assert (Hm : P) end.
  { intro g. change (st_cache (sigext_log cfg s3)) with (st_cache (after_call sA A T c)).
    rewrite msg_of_after_call. apply Hmsg. }
  specialize (H Hm ltac:(lia) ltac:(lia)).
  destruct (key_outcome root sig fl c0) as [b| |w]; cbn [sig_out] in *.
  - destruct H as [[Hb (e & st' & H)]|H]; rewrite H.
    + left. split; [exact Hb|]. exists e, st'. reflexivity.
    + right. cbn [fr_ptr adv fr_tid].
      rewrite run_tape_end; [reflexivity|].
      match goal with |- List.length (tdata ?s A) <= _ => change (tdata s A) with (tdata sC A) end.
      rewrite HdC. simpl. lia.
  - contradiction.
  - rewrite H. reflexivity.
Qed.


Lemma nn_lock_len root fl : List.length root = 32 -> List.length (nonnative_taproot_lock root fl) = 72.
Proof.
  intro H. rewrite nn_lock_bytes. fold (hdr root).
  replace ([x29] ++ [x00] ++ len2 (push1_bytes root) ++ push1_bytes root ++ nn_cond ++ ifelse_ops sarm (karm fl))
    with (hdr root ++ nn_cond ++ ifelse_ops sarm (karm fl)) by (unfold hdr; rewrite <- !app_assoc; reflexivity).
  rewrite app_length, hdr_len by exact H. reflexivity.
Qed.

(* the state in which the last script starts (auth_rest) *)
Lemma start_facts st0 prev lock :
  let tid := fst (next_start st0 prev lock) in
  let st := snd (next_start st0 prev lock) in
  tdata st tid = lock /\ tid < List.length (st_tapes st) /\ st_stack st = st_stack st0 /\
  to_count (nth_tape st tid) = to_count (nth_tape st0 prev) /\
  to_defs (nth_tape st tid) = to_defs (nth_tape st0 prev) /\
  st_defs st = st_defs st0 /\
  cache_get (st_cache st) returned_key = None /\
  (forall g, msg_of g (st_cache st) = msg_of g (st_cache st0)) /\
  tid = List.length (st_tapes st0).
Proof.
  cbv zeta. destruct (next_start_spec st0 prev lock) as (H1 & H2 & H3 & H4 & H5 & H6).
  split; [exact H1|]. split.
  { unfold next_start. cbn [fst snd st_tapes with_cache with_tapes]. rewrite app_length. simpl. lia. }
  split; [exact H4|]. split; [exact H2|]. split; [exact H3|]. split; [exact H5|]. split; [exact H6|].
  split; [|reflexivity].
  intro g. unfold next_start. cbn [snd st_cache with_cache]. apply msg_of_del_returned.
Qed.

(* key path of the non-native lock, from the start of the lock tape *)
Lemma nn_key_lock f tid st root fl sig c0 :
  tdata st tid = nonnative_taproot_lock root fl -> tid < List.length (st_tapes st) ->
  to_defs (nth_tape st tid) < List.length (st_defs st) ->
  st_stack st = [sig] -> List.length root = 32 -> (List.length sig = 64 \/ List.length sig = 65) ->
  (to_count (nth_tape st tid) <? c_limit cfg)%Z = true ->
  (forall g, msg_of g (st_cache st) = msg_of g c0) ->
  65 <= c_max_item_size cfg -> 3 <= c_max_items cfg ->
  vres_of_run (run_tape orc cfg (9 + f) tid 0 st) = key_outcome root sig fl c0.
Proof.
  intros Hd Ht Hdid Hs Lr Lsig Hlim Hmsg Hsz Hit.
  assert (Hi : exists bsz, i2b (blen sig) = Ret [bsz] /\ bytes_eqb [x20] [bsz] = false).
  { unfold blen. destruct Lsig as [->| ->]; [exists x40|exists x41]; split; reflexivity. }
  destruct Hi as (bsz & Hi & Hne).
  change (9 + f) with (6 + (3 + f)).
  rewrite (nn_to_arm orc cfg (3 + f) tid st root fl sig [] bsz Hd Lr Ht Hs) ;
    [ | unfold fits; destruct Lsig; lia | exact Hi | simpl; lia | lia ].
  cbv zeta. rewrite Hne. change (bytes_to_bool [x00]) with false. cbv iota.
  destruct (arm_facts st tid root [sig] (karm fl) Ht Hdid) as (EA & F1 & F2 & F3 & F4 & F5 & F6 & F7 & F8 & F9).
  set (s1 := def_state st tid x00 (push1_bytes root)) in *.
  set (A := List.length (st_tapes s1)) in *.
  set (sA := sub_start (with_stack s1 [sig]) tid (karm fl)) in *.
  set (T := List.length (st_tapes st)) in *.
  pose proof (key_arm_runs f A T sA sig root fl (to_count (nth_tape st tid)) c0 F1 F2) as H.
  specialize (H ltac:(lia) ltac:(lia) ltac:(lia) F4 F5 Hlim F6 Lr Lsig).
  specialize (H ltac:(rewrite F8; exact Hmsg) ltac:(lia) ltac:(lia)).
  set (sF := sigext_log cfg (after_call sA A T (to_count (nth_tape st tid)))) in *.
  destruct (key_outcome root sig fl c0) as [b| |w]; cbn [sig_out] in H.
  - destruct H as [[Hb (e & st' & H)]|H]; rewrite H.
    + rewrite Hb. reflexivity.
    + rewrite propagate_none.
      2:{ unfold sF, after_call. cbv zeta. cbn [st_cache with_stack sigext_log with_log with_cache].
          apply cache_get_del_same. }
      cbn [fr_ptr]. change (3 + f) with (S (2 + f)).
      rewrite run_tape_end.
      * unfold vres_of_run, accepting. cbn [st_stack with_stack]. destruct b; reflexivity.
      * match goal with |- List.length (tdata ?s tid) <= _ =>
          change (tdata s tid) with (tdata (after_call sA A T (to_count (nth_tape st tid))) tid) end.
        rewrite tdata_after_call, F7 by (unfold T; exact Ht).
        rewrite Hd, nn_lock_len by exact Lr. lia.
  - contradiction.
  - rewrite H. reflexivity.
Qed.


Lemma native_lock_bytes root fl : taproot_lock root fl = push1_bytes root ++ [x5b; fl].
Proof. unfold taproot_lock, encode, P1. cbn [flat_map encode1]. reflexivity. Qed.

(* the native lock up to OP_TAPROOT *)
Lemma native_to_taproot g tid st root fl s :
  tdata st tid = taproot_lock root fl -> List.length root = 32 -> st_stack st = s ->
  32 <= c_max_item_size cfg -> space cfg s ->
  run_tape orc cfg (2 + g) tid 0 st =
    match interp orc cfg (sub g) OP_TAPROOT {| fr_tid := tid; fr_ptr := 35 |} (with_stack st (root :: s)) with
    | Done _ fr' st' => run_tape orc cfg g tid (fr_ptr fr') st'
    | Raised e fr' st' => Raised e fr' st'
    | OutOfFuel => OutOfFuel
    | Unmodelled w => Unmodelled w
    end.
Proof.
  intros Hd Lr Hs Hsz Hsp. rewrite native_lock_bytes in Hd. cbn [Nat.add].
  assert (Hd0 : tdata st tid = [] ++ push1_bytes root ++ [x5b; fl]) by exact Hd.
  rewrite (push1_step orc cfg _ tid st [] root [x5b; fl] s Hd0) by (first [lia | exact Hs | unfold fits; lia | exact Hsp]).
  set (st1 := with_stack st (root :: s)).
  assert (Hd1 : tdata st1 tid = ([] ++ push1_bytes root) ++ x5b :: [fl]) by exact Hd.
  rewrite (fetch_at orc cfg _ tid st1 _ _ x5b [fl] Hd1 eq_refl).
  change (dispatch (N.to_nat (Byte.to_N x5b))) with OP_TAPROOT.
  replace (S (List.length ([] ++ push1_bytes root))) with 35 by (unfold push1_bytes; simpl; lia).
  reflexivity.
Qed.

Lemma native_data_at tid st root fl stk :
  tdata st tid = taproot_lock root fl -> List.length root = 32 ->
  data_at {| fr_tid := tid; fr_ptr := 35 |} (with_stack st stk) = [fl].
Proof.
  intros Hd Lr. unfold data_at, cur. cbn [fr_tid fr_ptr].
  change (to_data (nth_tape (with_stack st stk) tid)) with (tdata st tid).
  rewrite Hd, native_lock_bytes.
  replace 35 with (List.length (push1_bytes root ++ [x5b])) by (rewrite app_length; unfold push1_bytes; simpl; lia).
  replace (push1_bytes root ++ [x5b; fl]) with ((push1_bytes root ++ [x5b]) ++ [fl]) by (rewrite <- app_assoc; reflexivity).
  apply skipn_after.
Qed.

Lemma native_lock_len root fl : List.length root = 32 -> List.length (taproot_lock root fl) = 36.
Proof. intro H. rewrite native_lock_bytes, app_length. unfold push1_bytes. simpl. lia. Qed.

(* key path of the native lock, from the start of the lock tape *)
Lemma native_key_lock f tid st root fl sig c0 :
  tdata st tid = taproot_lock root fl ->
  st_stack st = [sig] -> List.length root = 32 -> (List.length sig = 64 \/ List.length sig = 65) ->
  (forall g, msg_of g (st_cache st) = msg_of g c0) ->
  65 <= c_max_item_size cfg -> 2 <= c_max_items cfg ->
  vres_of_run (run_tape orc cfg (3 + f) tid 0 st) = key_outcome root sig fl c0.
Proof.
  intros Hd Hs Lr Lsig Hmsg Hsz Hit.
  change (3 + f) with (2 + S f).
  rewrite (native_to_taproot (S f) tid st root fl [sig] Hd Lr Hs) by (first [lia | unfold space; simpl; lia]).
  set (st1 := with_stack st [root; sig]).
  rewrite (taproot_key_path orc cfg _ _ st1 fl [] root sig [] (native_data_at tid st root fl _ Hd Lr) eq_refl Lr)
    by (first [destruct Lsig; lia | simpl; lia | lia]).
  pose proof (check_sig_body_vres (sub (S f)) (adv {| fr_tid := tid; fr_ptr := 35 |} 1)
                (sigext_log cfg (with_stack st1 [root; sig])) fl root sig c0 eq_refl Lr Lsig) as H.
  specialize (H Hmsg ltac:(lia) ltac:(lia)).
  destruct (key_outcome root sig fl c0) as [b| |w]; cbn [sig_out] in H.
  - destruct H as [[Hb (e & st' & H)]|H]; rewrite H.
    + rewrite Hb. reflexivity.
    + cbn [fr_ptr adv fr_tid]. rewrite run_tape_end.
      * unfold vres_of_run, accepting. cbn [st_stack with_stack]. destruct b; reflexivity.
      * match goal with |- List.length (tdata ?s tid) <= _ => change (tdata s tid) with (tdata st tid) end.
        rewrite Hd, native_lock_len by exact Lr. lia.
  - contradiction.
  - rewrite H. reflexivity.
Qed.

End Key.

(* ---------- what follows the EVAL sub-tape: only the control flag and the pointer are touched ---------- *)
Section Tail.
Variable orc : oracle.
Variable cfg : config.
Notation sub f := (fun t s0 => run_tape orc cfg f t 0 s0).

Definition quiet (p : prog unit) : Prop :=
  forall run fr st, exists fr' st',
    interp orc cfg run p fr st = Done tt fr' st' /\ st_stack st' = st_stack st /\ st_tapes st' = st_tapes st /\
    fr_tid fr' = fr_tid fr /\
    (fr_ptr fr' = fr_ptr fr \/ fr_ptr fr' = List.length (tdata st (fr_tid fr))).

Lemma quiet_return : quiet OP_RETURN.
Proof.
  intros run fr st. unfold OP_RETURN, act. cbn [bind interp step].
  eexists _, _. split; [reflexivity|]. repeat split. right. reflexivity.
Qed.

Lemma quiet_propagate : quiet propagate_return.
Proof.
  intros run fr st. unfold propagate_return, act. cbn [bind interp step].
  destruct (cache_get (st_cache st) returned_key).
  - apply quiet_return.
  - eexists _, _. split; [reflexivity|]. repeat split. left. reflexivity.
Qed.

Lemma quiet_eval_tail : quiet (eval_tail cfg).
Proof.
  intros run fr st. unfold eval_tail, act. cbn [bind interp step].
  destruct (cache_get (st_cache st) returned_key).
  - destruct (flag_on (c_flags cfg) (FKStr (str "eval_return"))).
    + apply quiet_return.
    + cbn [interp step]. eexists _, _. split; [reflexivity|]. repeat split. left. reflexivity.
  - eexists _, _. split; [reflexivity|]. repeat split. left. reflexivity.
Qed.

Lemma tdata_same_tapes st st' t : st_tapes st' = st_tapes st -> tdata st' t = tdata st t.
Proof. intro H. unfold tdata, nth_tape. rewrite H. reflexivity. Qed.

(* a quiet program run at the end of a tape, then the fetch loop: the tape ends *)
Lemma quiet_end p run g tid ptr st :
  quiet p -> List.length (tdata st tid) <= ptr ->
  exists fr' st',
    interp orc cfg run p {| fr_tid := tid; fr_ptr := ptr |} st = Done tt fr' st' /\
    st_stack st' = st_stack st /\ st_tapes st' = st_tapes st /\
    run_tape orc cfg (S g) tid (fr_ptr fr') st' = Done tt {| fr_tid := tid; fr_ptr := fr_ptr fr' |} st'.
Proof.
  intros Hq Hl. destruct (Hq run {| fr_tid := tid; fr_ptr := ptr |} st) as (fr' & st' & H1 & H2 & H3 & H4 & H5).
  exists fr', st'. split; [exact H1|]. split; [exact H2|]. split; [exact H3|].
  apply run_tape_end. rewrite (tdata_same_tapes st st' tid H3). cbn [fr_tid fr_ptr] in H5.
  destruct H5 as [-> | ->]; lia.
Qed.

Lemma accepting_same_stack st st' : st_stack st' = st_stack st -> accepting st' = accepting st.
Proof. intro H. unfold accepting. rewrite H. reflexivity. Qed.

End Tail.

(* ---------- script path ---------- *)
Section Script.
Variable orc : oracle.
Variable cfg : config.
Notation sub f := (fun t s0 => run_tape orc cfg f t 0 s0).

Lemma nth_tape_after_call_A s A T c :
  A < List.length (st_tapes s) -> T <> A ->
  nth_tape (after_call s A T c) A =
    {| to_data := to_data (nth_tape s A); to_count := (c + 1)%Z; to_defs := to_defs (nth_tape s A) |}.
Proof.
  intros HA Hne. unfold after_call. cbv zeta.
  change (nth_tape (set_count (set_count s A (c + 1)) T (c + 1)) A = 
          {| to_data := to_data (nth_tape s A); to_count := (c + 1)%Z; to_defs := to_defs (nth_tape s A) |}).
  rewrite nth_tape_set_count_other by exact Hne. apply nth_tape_set_count_same. exact HA.
Qed.

Lemma after_call_tapes_len s A T c : List.length (st_tapes (after_call s A T c)) = List.length (st_tapes s).
Proof.
  unfold after_call. cbv zeta. cbn [st_tapes with_cache]. rewrite !tapes_set_count_length. reflexivity.
Qed.

(* the state in which the committed script starts under the non-native lock *)
Definition nn_eval_state (st : state) (tid : nat) (root key script : bytes) (rest : list bytes) (point : bytes) : state :=
  let s1 := def_state st tid x00 (push1_bytes root) in
  let A := List.length (st_tapes s1) in
  let T := List.length (st_tapes st) in
  let sA := sub_start (with_stack s1 (key :: script :: rest)) tid sarm in
  let sC := after_call (xstate cfg sA point) A T (to_count (nth_tape st tid)) in
  eval_start (with_stack sC rest) A script.

Lemma nn_script_lock f tid st root fl key script rest hs h point agg :
  tdata st tid = nonnative_taproot_lock root fl -> tid < List.length (st_tapes st) ->
  to_defs (nth_tape st tid) < List.length (st_defs st) ->
  st_stack st = key :: script :: rest ->
  List.length root = 32 -> List.length key = 32 -> List.length h = 32 ->
  orc PSha256 [script] = OOk [hs] -> orc PSha256 [key ++ hs] = OOk [h] ->
  orc PBaseMult [clamp32 h] = OOk [point] ->
  orc PValidPoint [point] = OOk [[x01]] -> orc PValidPoint [key] = OOk [[x01]] ->
  orc PPointAdd [point; key] = OOk [agg] ->
  fits cfg script -> fits cfg hs -> fits cfg (key ++ hs) -> fits cfg point -> fits cfg agg ->
  List.length rest + 4 <= c_max_items cfg -> 32 <= c_max_item_size cfg ->
  script <> [] ->
  flag_get (c_flags cfg) (FKStr (str "disallow_OP_EVAL")) = None ->
  (to_count (nth_tape st tid) + 1 <? c_limit cfg)%Z = true ->
  vres_of_run (run_tape orc cfg (20 + f) tid 0 st) =
    if bytes_eqb agg root
    then vres_of_run (run_tape orc cfg (S f) (List.length (st_tapes st) + 2) 0
                        (nn_eval_state st tid root key script rest point))
    else VBool false.
Proof.
  intros Hd Ht Hdid Hs Lr Lk Lh O1 O2 O3 O4 O5 O6 Fs Fhs Fc Fp Fa Hit Hsz Hne Hflag Hlim.
  assert (Hlim0 : (to_count (nth_tape st tid) <? c_limit cfg)%Z = true).
  { apply Z.ltb_lt. apply Z.ltb_lt in Hlim. lia. }
  change (20 + f) with (6 + (14 + f)).
  rewrite (nn_to_arm orc cfg (14 + f) tid st root fl key (script :: rest) x20 Hd Lr Ht Hs);
    [ | unfold fits; lia | unfold blen; rewrite Lk; exact i2b_32 | simpl; lia | lia ].
  cbv zeta. change (bytes_eqb [x20] [x20]) with true. cbv iota. change (bytes_to_bool [xff]) with true. cbv iota.
  destruct (arm_facts st tid root (key :: script :: rest) sarm Ht Hdid) as (EA & F1 & F2 & F3 & F4 & F5 & F6 & F7 & F8 & F9).
  unfold nn_eval_state. cbv zeta.
  set (s1 := def_state st tid x00 (push1_bytes root)) in *.
  set (A := List.length (st_tapes s1)) in *.
  set (sA := sub_start (with_stack s1 (key :: script :: rest)) tid sarm) in *.
  set (T := List.length (st_tapes st)) in *.
  set (c := to_count (nth_tape st tid)) in *.
  rewrite (script_arm_runs orc cfg f A T sA key script rest root hs h point agg c F1 F2); try assumption; try lia.
  cbv zeta.
  destruct (bytes_eqb agg root); [|reflexivity].
  set (sX := xstate cfg sA point).
  set (sC := after_call sX A T c).
  assert (HAX : A < List.length (st_tapes sX)) by (unfold sX; rewrite xstate_tapes; lia).
  assert (HnA : nth_tape sC A = {| to_data := to_data (nth_tape sX A); to_count := (c + 1)%Z;
                                   to_defs := to_defs (nth_tape sX A) |})
    by (apply nth_tape_after_call_A; [exact HAX|lia]).
  assert (HlenC : List.length (st_tapes sC) = S (S T)).
  { unfold sC. rewrite after_call_tapes_len. unfold sX. rewrite xstate_tapes. exact F3. }
  rewrite (eval_body_exec orc cfg _ {| fr_tid := A; fr_ptr := 20 |} (with_stack sC (script :: rest)) script rest Hflag);
    [ | cbn [fr_tid]; change (nth_tape (with_stack sC (script :: rest)) A) with (nth_tape sC A);
        rewrite HnA; exact Hlim | reflexivity | exact Hne ].
  cbn [fr_tid]. rewrite with_stack_twice.
  change (List.length (st_tapes (with_stack sC (script :: rest)))) with (List.length (st_tapes sC)).
  rewrite HlenC. replace (T + 2) with (S (S T)) by lia.
  set (sEV := eval_start (with_stack sC rest) A script).
  assert (HoldEV : forall t, t < S (S T) -> tdata sEV t = tdata sA t).
  { intros t Hlt. unfold sEV, tdata, nth_tape, eval_start. cbn [st_tapes with_tapes with_defs with_stack].
    rewrite app_nth1 by (rewrite HlenC; exact Hlt).
    fold (nth_tape sC t). fold (tdata sC t). unfold sC. rewrite tdata_after_call. unfold sX. apply xstate_tdata. }
  assert (HlenEV : S (S T) < List.length (st_tapes sEV)).
  { unfold sEV, eval_start. cbn [st_tapes with_tapes with_defs with_stack]. rewrite app_length, HlenC. simpl. lia. }
  pose proof (run_tape_heap orc cfg (S f) (S (S T)) 0 sEV) as HR.
  destruct (run_tape orc cfg (S f) (S (S T)) 0 sEV) as [[] frE st'|e frE st'| |w]; try reflexivity.
  cbn [R_out] in HR. destruct HR as [HR1 HR2].
  assert (HdA' : tdata st' A = sarm).
  { change (data_of st' A = sarm). rewrite HR2 by lia. change (tdata sEV A = sarm). rewrite HoldEV by lia. exact F1. }
  assert (Hdt' : tdata st' tid = nonnative_taproot_lock root fl).
  { change (data_of st' tid = nonnative_taproot_lock root fl). rewrite HR2 by (unfold T in *; lia).
    change (tdata sEV tid = nonnative_taproot_lock root fl). rewrite HoldEV by (unfold T in *; lia).
    rewrite F7 by exact Ht. exact Hd. }
  destruct (quiet_end orc cfg (eval_tail cfg) (sub (S f)) f A 20 st' (quiet_eval_tail orc cfg))
    as (fr2 & st2 & E1 & E2 & E3 & E4).
  { rewrite HdA'. simpl. lia. }
  rewrite E1, E4.
  change (14 + f) with (S (13 + f)).
  destruct (quiet_end orc cfg propagate_return (sub (S (13 + f))) (13 + f) tid 72 st2 (quiet_propagate orc cfg))
    as (fr3 & st3 & G1 & G2 & G3 & G4).
  { rewrite (tdata_same_tapes st' st2 tid E3), Hdt', nn_lock_len by exact Lr. lia. }
  rewrite G1, G4.
  unfold vres_of_run. rewrite (accepting_same_stack st2 st3 G2), (accepting_same_stack st' st2 E2). reflexivity.
Qed.


(* the state in which the committed script starts under the native lock *)
Definition native_eval_state (st : state) (tid : nat) (script : bytes) (rest : list bytes) : state :=
  eval_start (with_stack st rest) tid script.

Lemma native_script_lock f tid st root fl key script rest hs h point agg :
  tdata st tid = taproot_lock root fl -> tid < List.length (st_tapes st) ->
  st_stack st = key :: script :: rest ->
  List.length root = 32 -> List.length key = 32 -> List.length h = 32 ->
  orc PSha256 [script] = OOk [hs] -> orc PSha256 [key ++ hs] = OOk [h] ->
  orc PBaseMult [clamp32 h] = OOk [point] ->
  orc PValidPoint [point] = OOk [[x01]] -> orc PValidPoint [key] = OOk [[x01]] ->
  orc PPointAdd [point; key] = OOk [agg] ->
  fits cfg script ->
  List.length rest + 3 <= c_max_items cfg -> 32 <= c_max_item_size cfg ->
  script <> [] ->
  flag_get (c_flags cfg) (FKStr (str "disallow_OP_EVAL")) = None ->
  (to_count (nth_tape st tid) <? c_limit cfg)%Z = true ->
  vres_of_run (run_tape orc cfg (3 + f) tid 0 st) =
    if bytes_eqb agg root
    then vres_of_run (run_tape orc cfg (S f) (List.length (st_tapes st)) 0 (native_eval_state st tid script rest))
    else VBool false.
Proof.
  intros Hd Ht Hs Lr Lk Lh O1 O2 O3 O4 O5 O6 Fs Hit Hsz Hne Hflag Hlim.
  change (3 + f) with (2 + S f).
  rewrite (native_to_taproot orc cfg (S f) tid st root fl (key :: script :: rest) Hd Lr Hs)
    by (first [lia | unfold space; simpl; lia]).
  set (st1 := with_stack st (root :: key :: script :: rest)).
  rewrite (taproot_script_path orc cfg _ _ st1 fl [] root key script rest hs h point agg
             (native_data_at tid st root fl _ Hd Lr) eq_refl Lr Lk Lh O1 O2 O3 O4 O5 O6 Fs)
    by lia.
  destruct (bytes_eqb agg root).
  - unfold st1. rewrite with_stack_twice.
    rewrite (eval_body_exec orc cfg _ _ (with_stack st (script :: rest)) script rest Hflag);
      [ | exact Hlim | reflexivity | exact Hne ].
    rewrite with_stack_twice. cbn [fr_tid fr_ptr adv].
    change (List.length (st_tapes (with_stack st (script :: rest)))) with (List.length (st_tapes st)).
    unfold native_eval_state.
    set (sEV := eval_start (with_stack st rest) tid script).
    pose proof (run_tape_heap orc cfg (S f) (List.length (st_tapes st)) 0 sEV) as HR.
    destruct (run_tape orc cfg (S f) (List.length (st_tapes st)) 0 sEV) as [[] frE st'|e frE st'| |w]; try reflexivity.
    cbn [R_out] in HR. destruct HR as [HR1 HR2].
    assert (Hdt' : tdata st' tid = taproot_lock root fl).
    { change (data_of st' tid = taproot_lock root fl).
      rewrite HR2 by (unfold sEV, eval_start; cbn [st_tapes with_tapes with_defs with_stack]; rewrite app_length; lia).
      unfold data_of, sEV, nth_tape, eval_start. cbn [st_tapes with_tapes with_defs with_stack].
      rewrite app_nth1 by exact Ht. exact Hd. }
    destruct (quiet_end orc cfg (eval_tail cfg) (sub (S f)) f tid (35 + 1) st' (quiet_eval_tail orc cfg))
      as (fr2 & st2 & E1 & E2 & E3 & E4).
    { rewrite Hdt', native_lock_len by exact Lr. lia. }
    unfold adv. cbn [fr_ptr fr_tid]. rewrite E1, E4.
    unfold vres_of_run. rewrite (accepting_same_stack st' st2 E2). reflexivity.
  - cbn [fr_ptr adv fr_tid]. rewrite run_tape_end.
    + unfold vres_of_run, accepting, st1. cbn [st_stack with_stack]. destruct rest; reflexivity.
    + match goal with |- List.length (tdata ?s tid) <= _ => change (tdata s tid) with (tdata st tid) end.
      rewrite Hd, native_lock_len by exact Lr. lia.
Qed.

End Script.

(* ---------- main theorems: the lock as the LAST script of run_auth_scripts (auth_rest), after ANY
   witness that left the machine in state st0 (previous top-level tape [prev]) ---------- *)
Section Main.
Variable orc : oracle.
Variable cfg : config.

(* (a) key path, non-native lock.  The witness left exactly [sig] (64 or 65 bytes).
   Premises special to the non-native lock: the definition table of the witness tape exists (true of every
   reachable state), the call budget is not used up (call d0 spends one unit), three stack slots. *)
Theorem nonnative_key_path f prev st0 root fl sig :
  st_stack st0 = [sig] -> List.length root = 32 -> (List.length sig = 64 \/ List.length sig = 65) ->
  to_defs (nth_tape st0 prev) < List.length (st_defs st0) ->
  (to_count (nth_tape st0 prev) <? c_limit cfg)%Z = true ->
  65 <= c_max_item_size cfg -> 3 <= c_max_items cfg ->
  vres_of_auth (auth_rest orc cfg (9 + f) [nonnative_taproot_lock root fl] prev st0) =
    key_outcome orc cfg root sig fl (st_cache st0).
Proof.
  intros Hs Lr Lsig Hdid Hlim Hsz Hit.
  rewrite auth_rest_one, vres_finish.
  destruct (start_facts st0 prev (nonnative_taproot_lock root fl)) as (S1 & S2 & S3 & S4 & S5 & S6 & S7 & S8 & S9).
  apply nn_key_lock; try assumption.
  all: first [ rewrite S5, S6; exact Hdid | rewrite S3; exact Hs | rewrite S4; exact Hlim ].
Qed.

(* (a) key path, native lock *)
Theorem native_key_path f prev st0 root fl sig :
  st_stack st0 = [sig] -> List.length root = 32 -> (List.length sig = 64 \/ List.length sig = 65) ->
  65 <= c_max_item_size cfg -> 2 <= c_max_items cfg ->
  vres_of_auth (auth_rest orc cfg (3 + f) [taproot_lock root fl] prev st0) =
    key_outcome orc cfg root sig fl (st_cache st0).
Proof.
  intros Hs Lr Lsig Hsz Hit.
  rewrite auth_rest_one, vres_finish.
  destruct (start_facts st0 prev (taproot_lock root fl)) as (S1 & S2 & S3 & S4 & S5 & S6 & S7 & S8 & S9).
  apply native_key_lock; try assumption.
  all: rewrite S3; exact Hs.
Qed.

(* (a) the two key paths give the same verdict (the same unmodelled-oracle report too), and it is `true`
   exactly when the signature is accepted under the root with the allowed-flags byte fl *)
Theorem key_path_same_verdict f f' prev st0 root fl sig :
  st_stack st0 = [sig] -> List.length root = 32 -> (List.length sig = 64 \/ List.length sig = 65) ->
  to_defs (nth_tape st0 prev) < List.length (st_defs st0) ->
  (to_count (nth_tape st0 prev) <? c_limit cfg)%Z = true ->
  65 <= c_max_item_size cfg -> 3 <= c_max_items cfg ->
  vres_of_auth (auth_rest orc cfg (9 + f) [nonnative_taproot_lock root fl] prev st0) =
    vres_of_auth (auth_rest orc cfg (3 + f') [taproot_lock root fl] prev st0) /\
  (vres_of_auth (auth_rest orc cfg (9 + f) [nonnative_taproot_lock root fl] prev st0) = VBool true <->
   sig_accepts orc cfg root sig (b2z fl) (st_cache st0)) /\
  (vres_of_auth (auth_rest orc cfg (3 + f') [taproot_lock root fl] prev st0) = VBool true <->
   sig_accepts orc cfg root sig (b2z fl) (st_cache st0)).
Proof.
  intros Hs Lr Lsig Hdid Hlim Hsz Hit.
  rewrite (nonnative_key_path f prev st0 root fl sig) by assumption.
  rewrite (native_key_path f' prev st0 root fl sig) by (first [assumption | lia]).
  split; [reflexivity|]. split; apply key_outcome_true.
Qed.

(* (b) script path, non-native lock.  The witness left key (32 bytes) on top of script.
   st is the state in which the lock tape (id tid) starts. *)
Theorem nonnative_script_path f prev st0 root fl key script rest hs h point agg :
  st_stack st0 = key :: script :: rest ->
  List.length root = 32 -> List.length key = 32 -> List.length h = 32 ->
  orc PSha256 [script] = OOk [hs] -> orc PSha256 [key ++ hs] = OOk [h] ->
  orc PBaseMult [clamp32 h] = OOk [point] ->
  orc PValidPoint [point] = OOk [[x01]] -> orc PValidPoint [key] = OOk [[x01]] ->
  orc PPointAdd [point; key] = OOk [agg] ->
  fits cfg script -> fits cfg hs -> fits cfg (key ++ hs) -> fits cfg point -> fits cfg agg ->
  List.length rest + 4 <= c_max_items cfg -> 32 <= c_max_item_size cfg ->
  script <> [] ->
  flag_get (c_flags cfg) (FKStr (str "disallow_OP_EVAL")) = None ->
  to_defs (nth_tape st0 prev) < List.length (st_defs st0) ->
  (to_count (nth_tape st0 prev) + 1 <? c_limit cfg)%Z = true ->
  let tid := List.length (st_tapes st0) in
  let st := snd (next_start st0 prev (nonnative_taproot_lock root fl)) in
  vres_of_auth (auth_rest orc cfg (20 + f) [nonnative_taproot_lock root fl] prev st0) =
    if bytes_eqb agg root
    then vres_of_run (run_tape orc cfg (S f) (tid + 3) 0 (nn_eval_state cfg st tid root key script rest point))
    else VBool false.
Proof.
  intros Hs Lr Lk Lh O1 O2 O3 O4 O5 O6 Fs Fhs Fc Fp Fa Hit Hsz Hne Hflag Hdid Hlim tid st.
  rewrite auth_rest_one, vres_finish.
  destruct (start_facts st0 prev (nonnative_taproot_lock root fl)) as (S1 & S2 & S3 & S4 & S5 & S6 & S7 & S8 & S9).
  fold st in S1, S2, S3, S4, S5, S6, S7, S8 |- *. rewrite S9 in *. fold tid in S1, S2, S4, S5 |- *.
  rewrite (nn_script_lock orc cfg f tid st root fl key script rest hs h point agg S1 S2); try assumption.
  all: try (first [ rewrite S5, S6; exact Hdid | rewrite S3; exact Hs | rewrite S4; exact Hlim ]).
  replace (List.length (st_tapes st) + 2) with (tid + 3); [reflexivity|].
  unfold st, next_start. cbn [snd st_tapes with_cache with_tapes]. rewrite app_length. simpl. unfold tid. lia.
Qed.

(* (b) script path, native lock *)
Theorem native_script_path f prev st0 root fl key script rest hs h point agg :
  st_stack st0 = key :: script :: rest ->
  List.length root = 32 -> List.length key = 32 -> List.length h = 32 ->
  orc PSha256 [script] = OOk [hs] -> orc PSha256 [key ++ hs] = OOk [h] ->
  orc PBaseMult [clamp32 h] = OOk [point] ->
  orc PValidPoint [point] = OOk [[x01]] -> orc PValidPoint [key] = OOk [[x01]] ->
  orc PPointAdd [point; key] = OOk [agg] ->
  fits cfg script ->
  List.length rest + 3 <= c_max_items cfg -> 32 <= c_max_item_size cfg ->
  script <> [] ->
  flag_get (c_flags cfg) (FKStr (str "disallow_OP_EVAL")) = None ->
  (to_count (nth_tape st0 prev) <? c_limit cfg)%Z = true ->
  let tid := List.length (st_tapes st0) in
  let st := snd (next_start st0 prev (taproot_lock root fl)) in
  vres_of_auth (auth_rest orc cfg (3 + f) [taproot_lock root fl] prev st0) =
    if bytes_eqb agg root
    then vres_of_run (run_tape orc cfg (S f) (tid + 1) 0 (native_eval_state st tid script rest))
    else VBool false.
Proof.
  intros Hs Lr Lk Lh O1 O2 O3 O4 O5 O6 Fs Hit Hsz Hne Hflag Hlim tid st.
  rewrite auth_rest_one, vres_finish.
  destruct (start_facts st0 prev (taproot_lock root fl)) as (S1 & S2 & S3 & S4 & S5 & S6 & S7 & S8 & S9).
  fold st in S1, S2, S3, S4, S5, S6, S7, S8 |- *. rewrite S9 in *. fold tid in S1, S2, S4, S5 |- *.
  rewrite (native_script_lock orc cfg f tid st root fl key script rest hs h point agg S1 S2); try assumption.
  all: try (first [ rewrite S3; exact Hs | rewrite S4; exact Hlim ]).
  replace (List.length (st_tapes st)) with (tid + 1); [reflexivity|].
  unfold st, next_start. cbn [snd st_tapes with_cache with_tapes]. rewrite app_length. simpl. unfold tid. lia.
Qed.


Lemma cache_del_twice c k : cache_del (cache_del c k) k = cache_del c k.
Proof. apply cache_del_absent. apply cache_get_del_same. Qed.

(* (b) what the two sub-tapes share and where they differ.  Both hold the committed script and start from
   the same stack (the witness stack minus key and script).  Differences:
   - call count: the non-native one runs with count + 2 (call d0 and EVAL), the native one with count + 1;
   - definitions: under the non-native lock handle 0 is bound (to the tape [PUSH1 root]), so the committed
     script can itself `call d0`; under the native lock it sees the witness's definitions only;
   - heap addresses: two more tape objects (the definition, the IF_ELSE arm) and one more definition table;
   - cache: with flag 2 set OP_DERIVE_POINT caches the tweak point under b"X" (stated for flag 2 unset). *)
Theorem script_path_subtapes prev st0 root fl fl' key script rest point :
  to_defs (nth_tape st0 prev) < List.length (st_defs st0) ->
  let tid := List.length (st_tapes st0) in
  let did := to_defs (nth_tape st0 prev) in
  let c0 := to_count (nth_tape st0 prev) in
  let sN := nn_eval_state cfg (snd (next_start st0 prev (nonnative_taproot_lock root fl))) tid root key script rest point in
  let sT := native_eval_state (snd (next_start st0 prev (taproot_lock root fl'))) tid script rest in
  (tdata sN (tid + 3) = script /\ tdata sT (tid + 1) = script) /\
  (st_stack sN = rest /\ st_stack sT = rest) /\
  (to_count (nth_tape sN (tid + 3)) = (c0 + 2)%Z /\ to_count (nth_tape sT (tid + 1)) = (c0 + 1)%Z) /\
  (nth_defs sN (to_defs (nth_tape sN (tid + 3))) = defs_put (nth_defs st0 did) x00 (tid + 1) /\
   nth_defs sT (to_defs (nth_tape sT (tid + 1))) = nth_defs st0 did) /\
  (st_cache sT = cache_del (st_cache st0) returned_key /\
   (flagon cfg 2 = false -> st_cache sN = cache_del (st_cache st0) returned_key)) /\
  (st_log sN = st_log st0 /\ st_log sT = st_log st0).
Proof.
  intros Hdid tid did c0 sN sT.
  (* native *)
  assert (HT : tdata sT (tid + 1) = script /\ st_stack sT = rest /\
               to_count (nth_tape sT (tid + 1)) = (c0 + 1)%Z /\
               nth_defs sT (to_defs (nth_tape sT (tid + 1))) = nth_defs st0 did /\
               st_cache sT = cache_del (st_cache st0) returned_key /\ st_log sT = st_log st0).
  { destruct (start_facts st0 prev (taproot_lock root fl')) as (S1 & S2 & S3 & S4 & S5 & S6 & S7 & S8 & S9).
    set (st := snd (next_start st0 prev (taproot_lock root fl'))) in *.
    rewrite S9 in *. fold tid in S1, S2, S4, S5.
    assert (Hlen : List.length (st_tapes st) = tid + 1).
    { unfold st, next_start. cbn [snd st_tapes with_cache with_tapes]. rewrite app_length. simpl. unfold tid. lia. }
    assert (Hn : nth_tape sT (tid + 1) =
                 {| to_data := script; to_count := (to_count (nth_tape st tid) + 1)%Z; to_defs := List.length (st_defs st) |}).
    { unfold sT, native_eval_state, nth_tape, eval_start. cbn [st_tapes with_tapes with_defs with_stack].
      rewrite app_nth2 by lia. rewrite Hlen, Nat.sub_diag. reflexivity. }
    unfold tdata. rewrite Hn. cbn [to_data to_count to_defs]. rewrite S4.
    split; [reflexivity|]. split; [reflexivity|]. split; [reflexivity|]. split; [|split; reflexivity].
    unfold nth_defs, sT, native_eval_state, eval_start. cbn [st_defs with_tapes with_defs with_stack].
    rewrite app_nth2 by lia. rewrite Nat.sub_diag. cbn [nth].
    change (nth_defs st (to_defs (nth_tape st tid)) = nth_defs st0 did).
    unfold nth_defs. rewrite S5, S6. reflexivity. }
  (* non-native *)
  assert (HN : tdata sN (tid + 3) = script /\ st_stack sN = rest /\
               to_count (nth_tape sN (tid + 3)) = (c0 + 2)%Z /\
               nth_defs sN (to_defs (nth_tape sN (tid + 3))) = defs_put (nth_defs st0 did) x00 (tid + 1) /\
               (flagon cfg 2 = false -> st_cache sN = cache_del (st_cache st0) returned_key) /\
               st_log sN = st_log st0).
  { destruct (start_facts st0 prev (nonnative_taproot_lock root fl)) as (S1 & S2 & S3 & S4 & S5 & S6 & S7 & S8 & S9).
    set (st := snd (next_start st0 prev (nonnative_taproot_lock root fl))) in *.
    rewrite S9 in *. fold tid in S1, S2, S4, S5.
    assert (Hlen : List.length (st_tapes st) = tid + 1).
    { unfold st, next_start. cbn [snd st_tapes with_cache with_tapes]. rewrite app_length. simpl. unfold tid. lia. }
    assert (Hdid' : to_defs (nth_tape st tid) < List.length (st_defs st)) by (rewrite S5, S6; exact Hdid).
    destruct (arm_facts st tid root (key :: script :: rest) sarm S2 Hdid')
      as (EA & F1 & F2 & F3 & F4 & F5 & F6 & F7 & F8 & F9 & F10).
    unfold sN, nn_eval_state. cbv zeta.
    set (s1 := def_state st tid x00 (push1_bytes root)) in *.
    set (A := List.length (st_tapes s1)) in *.
    set (sA := sub_start (with_stack s1 (key :: script :: rest)) tid sarm) in *.
    set (T := List.length (st_tapes st)) in *.
    set (c := to_count (nth_tape st tid)) in *.
    set (sX := xstate cfg sA point).
    set (sC := after_call sX A T c).
    assert (HAX : A < List.length (st_tapes sX)) by (unfold sX; rewrite xstate_tapes; lia).
    assert (HnA : nth_tape sC A = {| to_data := to_data (nth_tape sX A); to_count := (c + 1)%Z;
                                     to_defs := to_defs (nth_tape sX A) |})
      by (apply nth_tape_after_call_A; [exact HAX|lia]).
    assert (HlenC : List.length (st_tapes sC) = tid + 3).
    { unfold sC. rewrite after_call_tapes_len. unfold sX. rewrite xstate_tapes, F3. lia. }
    assert (Hn : nth_tape (eval_start (with_stack sC rest) A script) (tid + 3) =
                 {| to_data := script; to_count := (c + 1 + 1)%Z; to_defs := List.length (st_defs sC) |}).
    { unfold nth_tape, eval_start. cbn [st_tapes with_tapes with_defs with_stack].
      rewrite app_nth2 by lia. rewrite HlenC, Nat.sub_diag. cbn [nth].
      change (nth_tape (with_stack sC rest) A) with (nth_tape sC A).
      rewrite HnA. reflexivity. }
    unfold tdata. rewrite Hn. cbn [to_data to_count to_defs].
    split; [reflexivity|]. split; [reflexivity|]. split; [rewrite S4; unfold c0; lia|].
    split; [|split].
    - unfold nth_defs, eval_start. cbn [st_defs with_tapes with_defs with_stack].
      rewrite app_nth2 by lia. rewrite Nat.sub_diag. cbn [nth].
      change (nth_tape (with_stack sC rest) A) with (nth_tape sC A). rewrite HnA. cbn [to_defs].
      change (nth_defs (with_stack sC rest) (to_defs (nth_tape sX A))) with (nth_defs sX (to_defs (nth_tape sX A))).
      unfold sX. rewrite xstate_nth_tape, xstate_nth_defs, F10. unfold nth_defs. rewrite S5, S6, Hlen. reflexivity.
    - intro Hfl. change (st_cache (eval_start (with_stack sC rest) A script)) with (cache_del (st_cache sX) returned_key).
      unfold sX, xstate. rewrite Hfl, F8.
      change (st_cache st) with (cache_del (st_cache st0) returned_key). apply cache_del_twice.
    - change (st_log (eval_start (with_stack sC rest) A script)) with (st_log sX).
      unfold sX, xstate. destruct (flagon cfg 2); exact (proj1 F9) || (cbn [st_log with_cache]; exact F9). }
  destruct HT as (T1 & T2 & T3 & T4 & T5 & T6). destruct HN as (N1 & N2 & N3 & N4 & N5 & N6).
  repeat split; assumption.
Qed.


(* (b) mismatch: the lock raises at EQUAL_VERIFY; the heap holds exactly three new tape objects (the lock,
   definition 0, the IF_ELSE arm): no tape object for the supplied script was created *)
Theorem nonnative_script_mismatch f prev st0 root fl key script rest hs h point agg :
  st_stack st0 = key :: script :: rest ->
  List.length root = 32 -> List.length key = 32 -> List.length h = 32 ->
  orc PSha256 [script] = OOk [hs] -> orc PSha256 [key ++ hs] = OOk [h] ->
  orc PBaseMult [clamp32 h] = OOk [point] ->
  orc PValidPoint [point] = OOk [[x01]] -> orc PValidPoint [key] = OOk [[x01]] ->
  orc PPointAdd [point; key] = OOk [agg] ->
  fits cfg script -> fits cfg hs -> fits cfg (key ++ hs) -> fits cfg point -> fits cfg agg ->
  List.length rest + 4 <= c_max_items cfg -> 32 <= c_max_item_size cfg ->
  to_defs (nth_tape st0 prev) < List.length (st_defs st0) ->
  (to_count (nth_tape st0 prev) <? c_limit cfg)%Z = true ->
  bytes_eqb agg root = false ->
  let tid := List.length (st_tapes st0) in
  exists st',
    auth_rest orc cfg (20 + f) [nonnative_taproot_lock root fl] prev st0 = AuthVerdict false st' /\
    List.length (st_tapes st') = tid + 3 /\
    tdata st' tid = nonnative_taproot_lock root fl /\
    tdata st' (tid + 1) = push1_bytes root /\ tdata st' (tid + 2) = sarm /\
    st_stack st' = script :: rest.
Proof.
  intros Hs Lr Lk Lh O1 O2 O3 O4 O5 O6 Fs Fhs Fc Fp Fa Hit Hsz Hdid Hlim Hneq tid.
  rewrite auth_rest_one.
  destruct (start_facts st0 prev (nonnative_taproot_lock root fl)) as (S1 & S2 & S3 & S4 & S5 & S6 & S7 & S8 & S9).
  set (st := snd (next_start st0 prev (nonnative_taproot_lock root fl))) in *.
  rewrite S9 in *. fold tid in S1, S2, S4, S5 |- *.
  assert (Hlen : List.length (st_tapes st) = tid + 1).
  { unfold st, next_start. cbn [snd st_tapes with_cache with_tapes]. rewrite app_length. simpl. unfold tid. lia. }
  assert (Hdid' : to_defs (nth_tape st tid) < List.length (st_defs st)) by (rewrite S5, S6; exact Hdid).
  change (20 + f) with (6 + (14 + f)).
  rewrite (nn_to_arm orc cfg (14 + f) tid st root fl key (script :: rest) x20 S1 Lr S2);
    [ | rewrite S3; exact Hs | unfold fits; lia | unfold blen; rewrite Lk; exact i2b_32 | simpl; lia | lia ].
  cbv zeta. change (bytes_eqb [x20] [x20]) with true. cbv iota. change (bytes_to_bool [xff]) with true. cbv iota.
  destruct (arm_facts st tid root (key :: script :: rest) sarm S2 Hdid')
    as (EA & F1 & F2 & F3 & F4 & F5 & F6 & F7 & F8 & F9 & F10).
  set (s1 := def_state st tid x00 (push1_bytes root)) in *.
  set (A := List.length (st_tapes s1)) in *.
  set (sA := sub_start (with_stack s1 (key :: script :: rest)) tid sarm) in *.
  set (T := List.length (st_tapes st)) in *.
  set (c := to_count (nth_tape st tid)) in *.
  rewrite (script_arm_runs orc cfg f A T sA key script rest root hs h point agg c F1 F2); try assumption; try lia.
  cbv zeta. rewrite Hneq. cbn [finish].
  eexists. split; [reflexivity|].
  cbn [st_stack with_stack].
  change (st_tapes (with_stack (after_call (xstate cfg sA point) A T c) (script :: rest)))
    with (st_tapes (after_call (xstate cfg sA point) A T c)).
  rewrite after_call_tapes_len, xstate_tapes, F3.
  split; [lia|].
  assert (Hold : forall t, tdata (with_stack (after_call (xstate cfg sA point) A T c) (script :: rest)) t = tdata sA t).
  { intro t. change (tdata (after_call (xstate cfg sA point) A T c) t = tdata sA t).
    rewrite tdata_after_call. apply xstate_tdata. }
  rewrite !Hold.
  split; [rewrite F7 by lia; exact S1|].
  split; [replace (tid + 1) with T by lia; exact F4|].
  split; [replace (tid + 2) with A by lia; exact F1|reflexivity].
Qed.

End Main.

(* ---------- the definition table of a top-level tape always exists ---------- *)

Definition R_dt (st st' : state) : Prop :=
  List.length (st_tapes st) <= List.length (st_tapes st') /\
  (forall t, t < List.length (st_tapes st) -> to_defs (nth_tape st' t) = to_defs (nth_tape st t)) /\
  List.length (st_defs st) <= List.length (st_defs st').

Lemma R_dt_refl s : R_dt s s.
Proof. repeat split; auto. Qed.
Lemma R_dt_trans a b c : R_dt a b -> R_dt b c -> R_dt a c.
Proof.
  intros (H1 & H2 & H3) (H4 & H5 & H6). split; [lia|]. split; [|lia].
  intros t Ht. rewrite H5 by lia. apply H2. exact Ht.
Qed.
Lemma R_dt_grow st st' l :
  st_tapes st' = st_tapes st ++ l -> List.length (st_defs st) <= List.length (st_defs st') -> R_dt st st'.
Proof.
  intros E Hd. unfold R_dt, nth_tape. rewrite E, app_length. split; [lia|]. split; [|exact Hd].
  intros i Hi. rewrite app_nth1 by exact Hi. reflexivity.
Qed.
Lemma R_dt_same st st' : st_tapes st' = st_tapes st -> st_defs st' = st_defs st -> R_dt st st'.
Proof. intros E1 E2. apply (R_dt_grow st st' []); [rewrite app_nil_r; exact E1|rewrite E2; lia]. Qed.
Lemma R_dt_set_count st tid c : R_dt st (set_count st tid c).
Proof.
  unfold R_dt, set_count, nth_tape. simpl. rewrite list_set_length. split; [lia|]. split; [|lia].
  intros t Ht. destruct (Nat.eq_dec tid t) as [->|Hne].
  - rewrite nth_list_set_same by exact Ht. reflexivity.
  - rewrite nth_list_set_other by exact Hne. reflexivity.
Qed.

Section DT.
Variable orc : oracle.
Variable cfg : config.

Ltac sub_run Hrun :=
  match goal with |- context [?run ?t ?s] =>
    match type of Hrun with run_ok _ run =>
      let H := fresh "H" in pose proof (Hrun t s) as H; destruct (run t s) end end.

Lemma step_closed_dt : step_closed orc cfg R_dt.
Proof.
  intros run Hrun X a fr st.
  destruct a; simpl;
    try (apply R_dt_refl);
    try (apply R_dt_same; reflexivity).
  - destruct (st_stack st); simpl; [apply R_dt_refl|apply R_dt_same; reflexivity].
  - destruct (_ <? _); simpl; [apply R_dt_refl|].
    destruct (_ <=? _); simpl; [apply R_dt_refl|apply R_dt_same; reflexivity].
  - destruct (st_stack st); simpl; apply R_dt_refl.
  - destruct (_ && _); simpl; [apply R_dt_same; reflexivity|exact I].
  - destruct (_ <? _); simpl; apply R_dt_refl.
  - (* ACountIncr *) apply R_dt_set_count.
  - (* ADefSet *) eapply R_dt_grow; [reflexivity|]. simpl. rewrite list_set_length. lia.
  - (* ACallDef *)
    unfold after_run. sub_run Hrun; simpl in *; try exact I;
      (eapply R_dt_trans; [|exact H]); apply R_dt_set_count.
  - (* ARunSub *)
    unfold after_run. sub_run Hrun; simpl in *; try exact I;
      (eapply R_dt_trans; [|exact H]); (eapply R_dt_grow; [reflexivity|]); simpl; rewrite app_length; lia.
  - (* ATrySub *)
    sub_run Hrun; simpl in *; try exact I;
      (eapply R_dt_trans; [|exact H]); (eapply R_dt_grow; [reflexivity|]); simpl; rewrite app_length; lia.
  - (* ALoopNew *) eapply R_dt_grow; [reflexivity|]. simpl. lia.
  - (* ARunLoop *)
    unfold after_run. sub_run Hrun; simpl in *; try exact I; exact H.
Qed.

Theorem run_tape_dt : forall fuel tid ptr st, R_out R_dt st (run_tape orc cfg fuel tid ptr st).
Proof. apply run_tape_closed; [apply R_dt_refl|apply R_dt_trans|apply step_closed_dt]. Qed.

(* after any first script, tape 0 still uses definition table 0, which exists *)
Lemma witness_defs_ok F w vals fr st1 :
  run_script orc cfg F w vals = Done tt fr st1 ->
  to_defs (nth_tape st1 0) < List.length (st_defs st1).
Proof.
  intro H. unfold run_script in H.
  pose proof (run_tape_dt F 0 0 (init_state cfg w vals)) as HR. rewrite H in HR.
  cbn [R_out] in HR. destruct HR as (H1 & H2 & H3).
  rewrite H2 by (simpl; lia). simpl in H3. simpl. lia.
Qed.

(* ---------- the pair (ANY witness, lock) under run_auth_scripts ---------- *)

(* (a) for every witness script w that ends with exactly [sig] on the stack and has not used up the call
   budget: the two locks give the same verdict, `true` exactly when sig is accepted under the root *)
Theorem key_path_pair f w vals fr st1 root fl sig :
  run_script orc cfg (9 + f) w vals = Done tt fr st1 ->
  st_stack st1 = [sig] -> List.length root = 32 -> (List.length sig = 64 \/ List.length sig = 65) ->
  (to_count (nth_tape st1 0) <? c_limit cfg)%Z = true ->
  65 <= c_max_item_size cfg -> 3 <= c_max_items cfg ->
  vres_of_auth (run_auth_scripts orc cfg (9 + f) [w; nonnative_taproot_lock root fl] vals) =
    vres_of_auth (run_auth_scripts orc cfg (9 + f) [w; taproot_lock root fl] vals) /\
  (vres_of_auth (run_auth_scripts orc cfg (9 + f) [w; nonnative_taproot_lock root fl] vals) = VBool true <->
   sig_accepts orc cfg root sig (b2z fl) (st_cache st1)).
Proof.
  intros Hw Hs Lr Lsig Hlim Hsz Hit.
  pose proof (witness_defs_ok _ _ _ _ _ Hw) as Hdid.
  unfold run_auth_scripts. rewrite Hw.
  change (9 + f) with (3 + (6 + f)) at 2.
  destruct (key_path_same_verdict orc cfg f (6 + f) 0 st1 root fl sig Hs Lr Lsig Hdid Hlim Hsz Hit) as (H1 & H2 & _).
  split; [exact H1|exact H2].
Qed.

(* (b) for every witness script w that ends with key (32 bytes) on top of script: each lock's verdict is
   `false` when the recomputed point differs from the root, and otherwise the verdict of running `script` as
   a sub-tape from the stack `rest` (the two sub-tapes are compared in script_path_subtapes) *)
Theorem script_path_pair f w vals fr st1 root fl key script rest hs h point agg :
  run_script orc cfg (20 + f) w vals = Done tt fr st1 ->
  st_stack st1 = key :: script :: rest ->
  List.length root = 32 -> List.length key = 32 -> List.length h = 32 ->
  orc PSha256 [script] = OOk [hs] -> orc PSha256 [key ++ hs] = OOk [h] ->
  orc PBaseMult [clamp32 h] = OOk [point] ->
  orc PValidPoint [point] = OOk [[x01]] -> orc PValidPoint [key] = OOk [[x01]] ->
  orc PPointAdd [point; key] = OOk [agg] ->
  fits cfg script -> fits cfg hs -> fits cfg (key ++ hs) -> fits cfg point -> fits cfg agg ->
  List.length rest + 4 <= c_max_items cfg -> 32 <= c_max_item_size cfg ->
  script <> [] ->
  flag_get (c_flags cfg) (FKStr (str "disallow_OP_EVAL")) = None ->
  (to_count (nth_tape st1 0) + 1 <? c_limit cfg)%Z = true ->
  let tid := List.length (st_tapes st1) in
  let sN := nn_eval_state cfg (snd (next_start st1 0 (nonnative_taproot_lock root fl))) tid root key script rest point in
  let sT := native_eval_state (snd (next_start st1 0 (taproot_lock root fl))) tid script rest in
  vres_of_auth (run_auth_scripts orc cfg (20 + f) [w; nonnative_taproot_lock root fl] vals) =
    (if bytes_eqb agg root then vres_of_run (run_tape orc cfg (S f) (tid + 3) 0 sN) else VBool false) /\
  vres_of_auth (run_auth_scripts orc cfg (20 + f) [w; taproot_lock root fl] vals) =
    (if bytes_eqb agg root then vres_of_run (run_tape orc cfg (S (17 + f)) (tid + 1) 0 sT) else VBool false).
Proof.
  intros Hw Hs Lr Lk Lh O1 O2 O3 O4 O5 O6 Fs Fhs Fc Fp Fa Hit Hsz Hne Hflag Hlim tid sN sT.
  pose proof (witness_defs_ok _ _ _ _ _ Hw) as Hdid.
  assert (Hlim0 : (to_count (nth_tape st1 0) <? c_limit cfg)%Z = true).
  { apply Z.ltb_lt. apply Z.ltb_lt in Hlim. lia. }
  unfold run_auth_scripts. rewrite Hw. split.
  - apply (nonnative_script_path orc cfg f 0 st1 root fl key script rest hs h point agg); assumption.
  - change (20 + f) with (3 + (17 + f)).
    apply (native_script_path orc cfg (17 + f) 0 st1 root fl key script rest hs h point agg); try assumption. lia.
Qed.

End DT.

(* ---------- FINDING: the two locks are NOT interchangeable on the script path ---------- *)
(* Concrete runs of the model with a toy oracle that answers every query consistently (so that the committed
   script recomputes to the root under both locks). *)
Definition toy_root : bytes := seq_bytes 32.
Definition toy_key : bytes := repeat x33 32.
Definition toy_orc : oracle := fun p _ =>
  match p with
  | PSha256 => OOk [repeat x11 32]
  | PBaseMult => OOk [repeat x22 32]
  | PValidPoint => OOk [[x01]]
  | PPointAdd => OOk [toy_root]
  | _ => OErr OtherError
  end.
Definition toy_cfg (limit : Z) : config :=
  {| c_max_items := 1024; c_max_item_size := 1024; c_limit := limit; c_flags := []; c_sigext := [];
     c_ctplugins := []; c_contracts := []; c_now := 0 |}.
Definition toy_witness (script : bytes) : bytes := encode [P1 script; P1 toy_key].

(* 1. a committed script that calls definition 0:  call d0 ; pop0 ; true.
      Under the non-native lock handle 0 is the lock's own definition (push root): accepted.
      Under the native lock handle 0 is undefined (KeyError): rejected. *)
Example differ_on_call_d0 :
  let script := [x2a; x00; x06; x01] in
  vres_of_auth (run_auth_scripts toy_orc (toy_cfg 64) 40 [toy_witness script; nonnative_taproot_lock toy_root x00] []) = VBool true /\
  vres_of_auth (run_auth_scripts toy_orc (toy_cfg 64) 40 [toy_witness script; taproot_lock toy_root x00] []) = VBool false.
Proof. vm_compute. split; reflexivity. Qed.

(* 2. the call budget: with callstack_limit = 1 and a witness that made no call, the native lock EVALs the
      committed script (count 0 < 1); the non-native lock has spent the unit on `call d0` and its EVAL raises *)
Example differ_on_call_budget :
  let script := [x01; x06; x01] in
  vres_of_auth (run_auth_scripts toy_orc (toy_cfg 1) 40 [toy_witness script; nonnative_taproot_lock toy_root x00] []) = VBool false /\
  vres_of_auth (run_auth_scripts toy_orc (toy_cfg 1) 40 [toy_witness script; taproot_lock toy_root x00] []) = VBool true.
Proof. vm_compute. split; reflexivity. Qed.

(* ... and with room in the budget the same script is accepted by both *)
Example agree_simple_script :
  let script := [x01; x06; x01] in
  vres_of_auth (run_auth_scripts toy_orc (toy_cfg 64) 40 [toy_witness script; nonnative_taproot_lock toy_root x00] []) = VBool true /\
  vres_of_auth (run_auth_scripts toy_orc (toy_cfg 64) 40 [toy_witness script; taproot_lock toy_root x00] []) = VBool true.
Proof. vm_compute. split; reflexivity. Qed.

Print Assumptions nonnative_bytes_0_31.
Print Assumptions nonnative_bytes_real.
Print Assumptions def_exec.
Print Assumptions call_exec.
Print Assumptions call_d0_exec.
Print Assumptions cond_runs.
Print Assumptions script_arm_runs.
Print Assumptions key_arm_runs.
Print Assumptions nonnative_key_path.
Print Assumptions native_key_path.
Print Assumptions key_path_same_verdict.
Print Assumptions key_outcome_true.
Print Assumptions nonnative_script_path.
Print Assumptions native_script_path.
Print Assumptions script_path_subtapes.
Print Assumptions nonnative_script_mismatch.
Print Assumptions key_path_pair.
Print Assumptions script_path_pair.
Print Assumptions differ_on_call_d0.
Print Assumptions differ_on_call_budget.
Print Assumptions agree_simple_script.
