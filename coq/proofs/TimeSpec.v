(* C16: OP_CHECK_TIMESTAMP / OP_CHECK_EPOCH compute exactly the documented comparison;
   the _VERIFY forms raise instead of yielding false; malformed inputs are errors. *)
From Coq Require Import ZArith List Bool Lia.
From Coq.Strings Require Import Byte String.
From TS Require Import Bytes Codec State Prog Ops Interp StateLemmas.
Import ListNotations.
Open Scope Z_scope.

Section TS.
Variable orc : oracle.
Variable cfg : config.
Variable run : nat -> state -> outcome unit.

Definition ts_key : ckey := KStr (str "timestamp").
Definition thr_key : fkey := FKStr (str "ts_threshold").
Definition ethr_key : fkey := FKStr (str "epoch_threshold").

(* room for one 1-byte item on top of [rest] *)
Definition room (rest : list bytes) : Prop :=
  (List.length rest < c_max_items cfg)%nat /\ (1 <= c_max_item_size cfg)%nat.

Definition ts_verdict (c ts thr : Z) : bool := (c <=? ts) && ((thr <=? 0) || (ts - c_now cfg <? thr)).
Definition epoch_verdict (c thr : Z) : bool := c - c_now cfg <? thr.
Definition boolb (b : bool) : bytes := if b then [xff] else [x00].

Lemma put1 fr st rest b A (k : unit -> prog A) :
  room rest -> st_stack st = rest ->
  interp orc cfg run (Act (APut [b]) k) fr st = interp orc cfg run (k tt) fr (with_stack st ([b] :: rest)).
Proof.
  intros [H1 H2] Hs. cbn [interp step]. rewrite Hs. simpl List.length.
  destruct (c_max_item_size cfg <? 1)%nat eqn:E1; [apply Nat.ltb_lt in E1; lia|].
  destruct (c_max_items cfg <=? List.length rest)%nat eqn:E2; [apply Nat.leb_le in E2; lia|].
  reflexivity.
Qed.

Lemma nonempty_blen c : c <> [] -> (0 <? blen c) = true.
Proof. destruct c; [congruence|]. intros _. unfold blen. simpl List.length. apply Z.ltb_lt. lia. Qed.

Lemma ts_verdict_code c ts thr :
  (if ts <? c then false else if (thr <=? ts - c_now cfg) && (0 <? thr) then false else true)
  = ts_verdict c ts thr.
Proof.
  unfold ts_verdict.
  destruct (ts <? c) eqn:E1.
  - apply Z.ltb_lt in E1. replace (c <=? ts) with false by (symmetry; apply Z.leb_gt; lia). reflexivity.
  - apply Z.ltb_ge in E1. replace (c <=? ts) with true by (symmetry; apply Z.leb_le; lia). simpl.
    destruct (thr <=? ts - c_now cfg) eqn:E2, (0 <? thr) eqn:E3, (thr <=? 0) eqn:E4,
             (ts - c_now cfg <? thr) eqn:E5; simpl; try reflexivity; lia.
Qed.

Theorem check_timestamp_spec fr st c rest ts thr :
  st_stack st = c :: rest -> c <> [] ->
  cache_get (st_cache st) ts_key = Some (VOne (AInt ts)) ->
  flag_get (c_flags cfg) thr_key = Some (FVInt thr) ->
  room rest ->
  interp orc cfg run OP_CHECK_TIMESTAMP fr st =
    Done tt fr (with_stack st (boolb (ts_verdict (be_to_Z c) ts thr) :: rest)).
Proof.
  intros Hs Hc Ht Hf Hr.
  unfold OP_CHECK_TIMESTAMP, get, put, config_, act, sert.
  cbn [bind interp step]. rewrite Hs. rewrite (nonempty_blen c Hc).
  cbn [bind interp step st_cache with_stack].
  unfold ts_key in Ht. rewrite Ht. cbn [bind interp step].
  unfold thr_key in Hf. rewrite Hf.
  rewrite <- ts_verdict_code.
  destruct (ts <? be_to_Z c); [|destruct ((thr <=? ts - c_now cfg) && (0 <? thr))];
    (rewrite put1 with (rest := rest); [reflexivity|exact Hr|reflexivity]).
Qed.

Theorem check_timestamp_verify_spec fr st c rest ts thr :
  st_stack st = c :: rest -> c <> [] ->
  cache_get (st_cache st) ts_key = Some (VOne (AInt ts)) ->
  flag_get (c_flags cfg) thr_key = Some (FVInt thr) ->
  room rest ->
  interp orc cfg run OP_CHECK_TIMESTAMP_VERIFY fr st =
    if ts_verdict (be_to_Z c) ts thr then Done tt fr (with_stack st rest)
    else Raised ScriptExecutionError fr (with_stack st rest).
Proof.
  intros Hs Hc Ht Hf Hr.
  unfold OP_CHECK_TIMESTAMP_VERIFY, OP_CHECK_TIMESTAMP, OP_VERIFY, get, put, config_, act, sert.
  cbn [bind interp step]. rewrite Hs. rewrite (nonempty_blen c Hc).
  cbn [bind interp step st_cache with_stack].
  unfold ts_key in Ht. rewrite Ht. cbn [bind interp step].
  unfold thr_key in Hf. rewrite Hf.
  rewrite <- ts_verdict_code.
  destruct (ts <? be_to_Z c); [|destruct ((thr <=? ts - c_now cfg) && (0 <? thr))];
    cbn [bind]; (rewrite put1 with (rest := rest); [|exact Hr|reflexivity]); cbn; reflexivity.
Qed.

(* malformed inputs: always a script-execution error, never true *)
Theorem check_timestamp_empty_constraint fr st rest :
  st_stack st = [] :: rest ->
  interp orc cfg run OP_CHECK_TIMESTAMP fr st = Raised ScriptExecutionError fr (with_stack st rest).
Proof. intro Hs. unfold OP_CHECK_TIMESTAMP, get, act, sert. cbn [bind interp step]. rewrite Hs. reflexivity. Qed.

Theorem check_timestamp_bad_cache fr st c rest :
  st_stack st = c :: rest -> c <> [] ->
  (forall ts, cache_get (st_cache st) ts_key <> Some (VOne (AInt ts))) ->
  interp orc cfg run OP_CHECK_TIMESTAMP fr st = Raised ScriptExecutionError fr (with_stack st rest).
Proof.
  intros Hs Hc Ht. unfold OP_CHECK_TIMESTAMP, get, act, sert. cbn [bind interp step]. rewrite Hs.
  rewrite (nonempty_blen c Hc). cbn [bind interp step st_cache with_stack].
  unfold ts_key in Ht. destruct (cache_get (st_cache st) (KStr (str "timestamp"))) as [[[b|b|z|b|b| |b]|l]|] eqn:E;
    try reflexivity. exfalso. eapply (Ht z). reflexivity.
Qed.

Theorem check_timestamp_bad_threshold fr st c rest ts :
  st_stack st = c :: rest -> c <> [] ->
  cache_get (st_cache st) ts_key = Some (VOne (AInt ts)) ->
  (forall thr, flag_get (c_flags cfg) thr_key <> Some (FVInt thr)) ->
  interp orc cfg run OP_CHECK_TIMESTAMP fr st = Raised ScriptExecutionError fr (with_stack st rest).
Proof.
  intros Hs Hc Ht Hf. unfold OP_CHECK_TIMESTAMP, get, config_, act, sert. cbn [bind interp step]. rewrite Hs.
  rewrite (nonempty_blen c Hc). cbn [bind interp step st_cache with_stack].
  unfold ts_key in Ht. rewrite Ht. cbn [bind interp step].
  unfold thr_key in Hf. destruct (flag_get (c_flags cfg) (FKStr (str "ts_threshold"))) as [[z|b|]|] eqn:E;
    try reflexivity. exfalso. eapply (Hf z). reflexivity.
Qed.

Theorem check_epoch_spec fr st c rest thr :
  st_stack st = c :: rest -> c <> [] ->
  flag_get (c_flags cfg) ethr_key = Some (FVInt thr) -> 0 <= thr ->
  room rest ->
  interp orc cfg run OP_CHECK_EPOCH fr st =
    Done tt fr (with_stack st (boolb (epoch_verdict (be_to_Z c) thr) :: rest)).
Proof.
  intros Hs Hc Hf Hthr Hr.
  unfold OP_CHECK_EPOCH, get, put, config_, act, sert.
  cbn [bind interp step]. rewrite Hs. rewrite (nonempty_blen c Hc).
  cbn [bind interp step with_stack].
  unfold ethr_key in Hf. rewrite Hf.
  replace (0 <=? thr) with true by (symmetry; apply Z.leb_le; exact Hthr).
  cbn [bind interp step]. unfold epoch_verdict.
  destruct (thr <=? be_to_Z c - c_now cfg) eqn:E.
  - apply Z.leb_le in E. replace (be_to_Z c - c_now cfg <? thr) with false by (symmetry; apply Z.ltb_ge; lia).
    rewrite put1 with (rest := rest); [reflexivity|exact Hr|reflexivity].
  - apply Z.leb_gt in E. replace (be_to_Z c - c_now cfg <? thr) with true by (symmetry; apply Z.ltb_lt; lia).
    rewrite put1 with (rest := rest); [reflexivity|exact Hr|reflexivity].
Qed.

Theorem check_epoch_verify_spec fr st c rest thr :
  st_stack st = c :: rest -> c <> [] ->
  flag_get (c_flags cfg) ethr_key = Some (FVInt thr) -> 0 <= thr ->
  room rest ->
  interp orc cfg run OP_CHECK_EPOCH_VERIFY fr st =
    if epoch_verdict (be_to_Z c) thr then Done tt fr (with_stack st rest)
    else Raised ScriptExecutionError fr (with_stack st rest).
Proof.
  intros Hs Hc Hf Hthr Hr.
  unfold OP_CHECK_EPOCH_VERIFY, OP_CHECK_EPOCH, OP_VERIFY, get, put, config_, act, sert.
  cbn [bind interp step]. rewrite Hs. rewrite (nonempty_blen c Hc).
  cbn [bind interp step with_stack].
  unfold ethr_key in Hf. rewrite Hf.
  replace (0 <=? thr) with true by (symmetry; apply Z.leb_le; exact Hthr).
  cbn [bind interp step]. unfold epoch_verdict.
  destruct (thr <=? be_to_Z c - c_now cfg) eqn:E.
  - apply Z.leb_le in E. replace (be_to_Z c - c_now cfg <? thr) with false by (symmetry; apply Z.ltb_ge; lia).
    cbn [bind]. rewrite put1 with (rest := rest); [|exact Hr|reflexivity]. cbn. reflexivity.
  - apply Z.leb_gt in E. replace (be_to_Z c - c_now cfg <? thr) with true by (symmetry; apply Z.ltb_lt; lia).
    cbn [bind]. rewrite put1 with (rest := rest); [|exact Hr|reflexivity]. cbn. reflexivity.
Qed.

Theorem check_epoch_negative_threshold fr st c rest thr :
  st_stack st = c :: rest -> c <> [] ->
  flag_get (c_flags cfg) ethr_key = Some (FVInt thr) -> thr < 0 ->
  interp orc cfg run OP_CHECK_EPOCH fr st = Raised ScriptExecutionError fr (with_stack st rest).
Proof.
  intros Hs Hc Hf Hthr.
  unfold OP_CHECK_EPOCH, get, put, config_, act, sert.
  cbn [bind interp step]. rewrite Hs. rewrite (nonempty_blen c Hc).
  cbn [bind interp step with_stack].
  unfold ethr_key in Hf. rewrite Hf.
  replace (0 <=? thr) with false by (symmetry; apply Z.leb_gt; exact Hthr). reflexivity.
Qed.

(* "timestamp-before" as built by tools.make_timestamp_before_lock: CHECK_TIMESTAMP followed by NOT.
   The negation also negates the slack clause (known finding D11). *)
Definition before_verdict (c ts thr : Z) : bool := negb (ts_verdict c ts thr).
Lemma before_verdict_is_not_window :
  exists c ts thr now', 0 < thr /\
    (if (c <=? ts) && ((thr <=? 0) || (ts - now' <? thr)) then false else true) = true /\ c <= ts.
Proof. exists 30, 60, 60, 0. vm_compute. repeat split; discriminate. Qed.

End TS.
