(* Single-step lemmas for symbolic execution: get / put / read with known stack and tape contents. *)
From Coq Require Import ZArith List Bool Lia.
From Coq.Strings Require Import Byte String.
From TS Require Import Bytes Codec State Prog Ops Interp StateLemmas InterpLemmas NopSpec.
Import ListNotations.
Local Open Scope nat_scope.

Section SL.
Variable orc : oracle.
Variable cfg : config.
Variable run : nat -> state -> outcome unit.

Definition fits (b : bytes) : Prop := List.length b <= c_max_item_size cfg.
Definition space (s : list bytes) : Prop := List.length s < c_max_items cfg.

Lemma get_step A (k : bytes -> prog A) fr st x s :
  st_stack st = x :: s ->
  interp orc cfg run (Act AGet k) fr st = interp orc cfg run (k x) fr (with_stack st s).
Proof. intro H. cbn [interp step]. rewrite H. reflexivity. Qed.

Lemma put_step A (k : unit -> prog A) fr st b s :
  st_stack st = s -> fits b -> space s ->
  interp orc cfg run (Act (APut b) k) fr st = interp orc cfg run (k tt) fr (with_stack st (b :: s)).
Proof.
  intros H H1 H2. cbn [interp step]. rewrite H. unfold fits, space in *.
  destruct (c_max_item_size cfg <? List.length b) eqn:E1; [apply Nat.ltb_lt in E1; lia|].
  destruct (c_max_items cfg <=? List.length s) eqn:E2; [apply Nat.leb_le in E2; lia|].
  reflexivity.
Qed.

Lemma prim1_step A (k : bytes -> prog A) p args r fr st :
  orc p args = OOk [r] ->
  interp orc cfg run (bind (prim1 p args) k) fr st = interp orc cfg run (k r) fr st.
Proof. intro H. unfold prim1, prim_list, act. cbn [bind interp step]. rewrite H. reflexivity. Qed.

Lemma prim_act_step A (k : ores -> prog A) p args fr st :
  interp orc cfg run (Act (APrim p args) k) fr st = interp orc cfg run (k (orc p args)) fr st.
Proof. reflexivity. Qed.

Lemma config_step A (k : config -> prog A) fr st :
  interp orc cfg run (Act AConfig k) fr st = interp orc cfg run (k cfg) fr st.
Proof. reflexivity. Qed.

Lemma peek_step A (k : bytes -> prog A) fr st x s :
  st_stack st = x :: s ->
  interp orc cfg run (Act APeek k) fr st = interp orc cfg run (k x) fr st.
Proof. intro H. cbn [interp step]. rewrite H. reflexivity. Qed.

Lemma depth_step A (k : Z -> prog A) fr st :
  interp orc cfg run (Act ADepth k) fr st = interp orc cfg run (k (Z.of_nat (List.length (st_stack st)))) fr st.
Proof. reflexivity. Qed.

Lemma swap_step A (k : unit -> prog A) fr st i j :
  (Z.to_nat i < List.length (st_stack st)) -> (Z.to_nat j < List.length (st_stack st)) ->
  interp orc cfg run (Act (ASwapIdx i j) k) fr st =
    interp orc cfg run (k tt) fr (with_stack st (swap_nth (st_stack st) (Z.to_nat i) (Z.to_nat j))).
Proof.
  intros H1 H2. cbn [interp step].
  apply Nat.ltb_lt in H1. apply Nat.ltb_lt in H2. rewrite H1, H2. reflexivity.
Qed.

Lemma read_n A (k : bytes -> prog A) fr st (pre rest : bytes) (n : Z) :
  data_at fr st = pre ++ rest -> Z.to_nat n = List.length pre -> 0 < List.length pre ->
  interp orc cfg run (Act (ARead n) k) fr st = interp orc cfg run (k pre) (adv fr (List.length pre)) st.
Proof.
  intros H Hn Hp. cbn [interp step]. unfold data_at in H. rewrite Hn.
  assert (Hl : List.length (skipn (fr_ptr fr) (to_data (cur fr st))) = List.length pre + List.length rest)
    by (rewrite H, app_length; reflexivity).
  rewrite skipn_length in Hl.
  destruct (List.length (to_data (cur fr st)) <? fr_ptr fr + List.length pre) eqn:E; [apply Nat.ltb_lt in E; lia|].
  rewrite H. rewrite firstn_app, Nat.sub_diag, firstn_all. simpl. rewrite app_nil_r. reflexivity.
Qed.

End SL.
